"""C14, pre-processor level: BaseInterpolatablePreProcessor.process() / _run() on 1-4 masters.

One case = one designspace (masters, some of them sparse) + custom filters (objects shared by all masters through the
`filters=` argument, and per-UFO filters declared in each UFO's lib, with holes and differing options / include lists).
A pass-through wrapper around the pre-processor's per-step method records, for every step, the filters it was given, the
glyph sets before / after, the set it reported and whether the instantiator was refreshed.  After the last step the
instantiator's view of every master (what a later interpolatable filter would read) is compared with the view after a
forced refresh.
"""
import copy
import itertools
import json

from ufo import build, rat
import lib_C14 as L

FKEY = "com.github.googlei18n.ufo2ft.filters"
SENTINEL = "\x00C14-sentinel"

# harness name -> (module name in ufo2ft.filters = name in the lib, per-master class, interpolatable class or None)
CLASSES = {
    "decompose": ("decomposeComponents", "DecomposeComponentsFilter", "DecomposeComponentsIFilter"),
    "decomposeTransformed": ("decomposeTransformedComponents", "DecomposeTransformedComponentsFilter",
                             "DecomposeTransformedComponentsIFilter"),
    "flatten": ("flattenComponents", "FlattenComponentsFilter", "FlattenComponentsIFilter"),
    "propagate": ("propagateAnchors", "PropagateAnchorsFilter", "PropagateAnchorsIFilter"),
    "skipExport": ("skipExportGlyphs", "SkipExportGlyphsFilter", "SkipExportGlyphsIFilter"),
    "transform": ("transformations", "TransformationsFilter", None),
    "reverse": ("reverseContourDirection", "ReverseContourDirectionFilter", None),
    "sort": ("sortContours", "SortContoursFilter", None),
    "removeOverlaps": ("removeOverlaps", "RemoveOverlapsFilter", None),
    "cubicToQuadratic": ("cubicToQuadratic", "CubicToQuadraticFilter", None),
}
CONVERTIBLE = [k for k, v in CLASSES.items() if v[2]]
PERMASTER = ["transform", "transform", "transform", "reverse", "sort", "sort"]
OPAQUE = ("removeOverlaps", "cubicToQuadratic")
LOCS = [0, 1024, 512, 256]

T_OPTS = [
    {"OffsetX": 10}, {"OffsetX": 100}, {"OffsetY": -20.5}, {"OffsetX": 3, "OffsetY": 7, "ScaleX": 50},
    {"ScaleX": 50, "ScaleY": 50}, {"ScaleX": 200}, {"ScaleX": -100}, {"ScaleY": 25, "Origin": 0},
    {"ScaleX": 50, "ScaleY": 200, "Origin": 1}, {"ScaleY": 50, "Origin": 3}, {},
]
T_DEFAULT = {"OffsetX": 0, "OffsetY": 0, "ScaleX": 100, "ScaleY": 100, "Slant": 0, "Origin": 4}


# ------------------------------------------------------------------------------------------------ generation

def _shift(fd, d):
    for g in fd["glyphs"]:
        for c in g["contours"]:
            for pt in c:
                pt[0] += d
        for a in g["anchors"]:
            a[1] += d; a[2] -= d
        for comp in g["components"]:
            comp[1][4] += d
        g["width"] += abs(d) if g["width"] else 0


def force_mixed_intermediate(rng, fd):
    """leaf (anchor) <- Y (contours AND components, no anchors) <- Z: anchors are propagated to Z through the mixed Y"""
    gl = fd["glyphs"]
    if len(gl) < 2:
        return
    leaf = next(g for g in gl if not g["components"])
    if not any(not a[0].startswith("_") for a in leaf["anchors"]):
        leaf["anchors"].append(["top", 10, 20])
    rest = [g for g in gl if g is not leaf]
    comps = [g for g in rest if g["components"]]
    y = comps[0] if comps else rest[0]
    if not y["components"]:
        y["components"] = [[leaf["name"], [1, 0, 0, 1, 8, 0]]]
    if not y["contours"]:
        y["contours"] = [[[0, 0, "line"], [16, 0, "line"], [16, 16, "line"]]]
    y["anchors"] = []
    later = [g for g in gl[gl.index(y) + 1:] if g is not leaf]
    if later:
        z = rng.choice(later)
    else:
        name = next(n for n in L.NAMES if n not in {g["name"] for g in gl})
        z = {"name": name, "width": 500, "unicodes": [], "contours": [], "components": [], "anchors": []}
        gl.append(z)
    z["components"].append([y["name"], [1, 0, 0, 1, 0, 4]])
    z["anchors"] = []
    cats = fd.get("lib", {}).get("public.openTypeCategories", {})
    for g in (y, z):
        cats.pop(g["name"], None)


def gen_masters(rng, mode, nm, inst, through_mixed=False):
    """master 0 is complete (the default source); later masters are shifted copies, the LAST one is often sparse.
    With an instantiator a sparse master may lack the base glyphs of its composites (they are interpolated);
    sometimes a master disagrees in structure / width / anchors (callable includes then differ between masters)."""
    r = rng.random()
    if r < 0.2:
        base = L.ligature_mark_font(rng)
    else:
        base = L.gen_font(rng, rng.choice(["mixed", "mixed", "plain", "anchors"]),
                          nglyphs=rng.choice([2, 3, 4, 6, 9]))
    if through_mixed:
        force_mixed_intermediate(rng, base)
    out = [base]
    for mi in range(1, nm):
        fd = copy.deepcopy(base)
        _shift(fd, rng.choice([8, 16, -24, 40.5]))
        last = mi == nm - 1
        if rng.random() < (0.6 if last else 0.2):
            used = {b for g in fd["glyphs"] for b, _ in g["components"]}
            keep_used = not (inst and rng.random() < 0.5)
            kept = [g for g in fd["glyphs"] if (keep_used and g["name"] in used) or rng.random() < 0.45]
            fd["glyphs"] = kept or fd["glyphs"][-1:]
        if rng.random() < 0.3:
            g = rng.choice(fd["glyphs"])
            if rng.random() < 0.6:
                g["width"] = 250 if g["width"] >= 500 else 750
            else:
                g["anchors"] = [] if g["anchors"] else [["top", 10, 10]]
        if rng.random() < (0.2 if mode == "search" else 0.08):
            comps = [g for g in fd["glyphs"] if g["components"]]
            if comps:
                g = rng.choice(comps)
                if rng.random() < 0.5:
                    g["components"] = []; g["contours"] = [[[0, 0, "line"], [10, 0, "line"], [10, 10, "line"]]]
                else:
                    g["components"][0][1][0:4] = [-1, 0, 0, 1]
        if last and rng.random() < 0.25:
            # already sorted / nothing to reverse in the last master: the filter is a no-op there
            for g in fd["glyphs"]:
                g["contours"] = g["contours"][:1]
        out.append(fd)
    return out


def _opts_for(rng, fname, names, used):
    if fname == "transform":
        return dict(rng.choice(T_OPTS))
    if fname == "skipExport":
        pool = names + ["zzz"]
        skip = rng.sample(pool, rng.randrange(1, min(3, len(pool)) + 1))
        if used and rng.random() < 0.7:
            skip[0] = rng.choice(used)
        return {"skip": list(dict.fromkeys(skip))}
    if fname == "removeOverlaps":
        return {"backend": rng.choice(["booleanOperations", "pathops"])}
    if fname == "cubicToQuadratic":
        return {"reverseDirection": rng.random() < 0.5, "rememberCurveType": False}
    return {}


def _inc_for(rng, masters, lib):
    """include specs biased towards glyphs that exist in some masters only (so the filter is a no-op elsewhere)"""
    names = list(dict.fromkeys(g["name"] for fd in masters for g in fd["glyphs"]))
    last = {g["name"] for g in masters[-1]["glyphs"]}
    absent = [n for n in names if n not in last]
    r = rng.random()
    if absent and r < 0.4:
        l = rng.sample(absent, rng.randrange(1, min(3, len(absent)) + 1))
        if rng.random() < 0.25:
            l.append(rng.choice(names))
        return {"kind": "names", "l": list(dict.fromkeys(l))}
    if r < 0.55:
        return {"kind": "names", "l": [rng.choice(names)]}
    inc = L.gen_include(rng, names)
    if lib and inc["kind"] == "pred":
        inc = {"kind": "none"}
    return inc


def gen_case(rng, mode):
    nm = rng.choice([1, 2, 2, 3, 3, 3, 4])
    inst = rng.random() < 0.65
    # anchors propagated through a mixed intermediate glyph, as the FIRST step (the instantiator still reads the sources)
    through_mixed = rng.random() < 0.06
    inst = inst or through_mixed
    masters = gen_masters(rng, mode, nm, inst, through_mixed)
    names = list(dict.fromkeys(g["name"] for fd in masters for g in fd["glyphs"]))
    used = [b for fd in masters for g in fd["glyphs"] for b, _ in g["components"]]
    shared, lib = [], [[] for _ in masters]
    if through_mixed:
        shared.append({"filter": "propagate", "opts": {}, "inc": {"kind": "none"}, "pre": True, "I": rng.random() < 0.5})
    for _ in range(rng.choice([1, 1, 2, 2, 3]) - (1 if through_mixed else 0)):
        pre = rng.random() < 0.6
        r = rng.random()
        if r < 0.3:
            f = rng.choice(PERMASTER)
            shared.append({"filter": f, "opts": _opts_for(rng, f, names, used), "inc": _inc_for(rng, masters, False),
                           "pre": pre, "I": False})
        elif r < 0.42:
            f = rng.choice(CONVERTIBLE)
            shared.append({"filter": f, "opts": _opts_for(rng, f, names, used), "inc": _inc_for(rng, masters, False),
                           "pre": pre, "I": rng.random() < 0.5})
        else:
            # declared in the UFOs' libs: holes, differing options, differing include lists
            f = rng.choice(PERMASTER + CONVERTIBLE + PERMASTER)
            opts = _opts_for(rng, f, names, used)
            inc = _inc_for(rng, masters, True)
            same = rng.random() < 0.45
            p_hole = rng.choice([0, 0.15, 0.3])
            for i in range(nm):
                if rng.random() < p_hole:
                    continue
                o, n = opts, inc
                if not same:
                    if rng.random() < 0.4:
                        o = _opts_for(rng, f, names, used)
                    if rng.random() < 0.6:
                        n = _inc_for(rng, masters, True)
                    if f == "transform" and i == nm - 1 and rng.random() < 0.3:
                        o = {}
                lib[i].append({"filter": f, "opts": o, "inc": n,
                               "pre": pre if rng.random() < 0.95 else not pre, "I": False})
    return {"kind": "prun", "masters": masters, "shared": shared, "lib": lib, "inst": inst,
            "inplace": rng.random() < 0.5, "prime": rng.random() < 0.8,
            "ulib": rng.choice(["ufoLib2", "ufoLib2", "ufoLib2", "defcon"]), "exact": True}


# ------------------------------------------------------------------------------------------------ running

def opts_key(fname, opts):
    """what `f.options == g.options` compares (the class defaults filled in, sets as sets, numbers as numbers)"""
    if fname == "transform":
        o = dict(T_DEFAULT); o.update(opts)
        return json.dumps({k: rat(v) for k, v in sorted(o.items())})
    if fname == "skipExport":
        return json.dumps(sorted(set(opts["skip"])))
    if fname == "removeOverlaps":
        return json.dumps({"backend": opts.get("backend", "booleanOperations")})
    if fname == "cubicToQuadratic":
        return json.dumps({k: opts.get(k, d) for k, d in (("conversionError", None), ("reverseDirection", True),
                                                          ("rememberCurveType", True))})
    return "{}"


def _ctor_args(spec):
    args, kwargs = [], {}
    o = spec["opts"]
    if spec["filter"] == "skipExport":
        args = [list(o["skip"])]
    else:
        kwargs = dict(o)
    return args, kwargs


def _lib_entry(spec):
    args, kwargs = _ctor_args(spec)
    d = {"name": CLASSES[spec["filter"]][0], "pre": bool(spec["pre"])}
    if args:
        d["args"] = args
    if kwargs:
        d["kwargs"] = kwargs
    if spec["inc"]["kind"] == "names":
        d["include"] = list(spec["inc"]["l"])
    elif spec["inc"]["kind"] == "exclude":
        d["exclude"] = list(spec["inc"]["l"])
    return d


def _make_shared(spec):
    import ufo2ft.filters as F
    _, cname, iname = CLASSES[spec["filter"]]
    cls = getattr(F, iname if spec["I"] else cname)
    args, kwargs = _ctor_args(spec)
    return cls(*args, pre=bool(spec["pre"]), **kwargs, **L.include_kwargs(spec["inc"]))


def make_instantiator(fonts):
    from fontTools.designspaceLib import AxisDescriptor, DesignSpaceDocument, SourceDescriptor
    from ufo2ft.instantiator import Instantiator
    ds = DesignSpaceDocument()
    ax = AxisDescriptor()
    ax.name, ax.tag = "Weight", "wght"
    ax.minimum, ax.default, ax.maximum = 0, 0, 1024
    ds.addAxis(ax)
    for i, f in enumerate(fonts):
        s = SourceDescriptor()
        s.name = f"m{i}"; s.font = f; s.location = {"Weight": LOCS[i]}
        s.familyName = "C14"; s.styleName = f"m{i}"
        ds.addSource(s)
    return Instantiator.from_designspace(ds, round_geometry=False, do_info=False, do_kerning=False)


def _view(inst):
    """what a later interpolatable filter reads through the instantiator: every glyph name of the default source, in
    every master's InterpolatedLayer (the master's own glyph where it has one, an interpolated instance otherwise)"""
    out = []
    names = sorted(inst.glyph_names)
    for layer in inst.interpolated_layers:
        row = []
        for n in names:
            try:
                row.append([n, L.snap_glyph(layer[n])])
            except Exception as e:                     # not interpolatable (KeyError <- InstantiatorError)
                row.append([n, {"w": "0", "h": "0", "c": [], "k": [], "a": [["!" + type(e).__name__, "0", "0"]]}])
        out.append(row)
    return out


def _prime(inst):
    for layer in inst.interpolated_layers:
        for n in list(inst.glyph_names):
            try:
                layer[n]
                inst.generate_glyph_instance(n, layer.normalized_location)
            except Exception:
                pass


def _master_in(fd, before, need_bounds):
    cats = fd.get("lib", {}).get("public.openTypeCategories", {})
    return {"gs": before, "marks": sorted(k for k, v in cats.items() if v == "mark"),
            "bounds": L.bounds_oracle(before) if need_bounds else [],
            "cap": rat(fd["info"].get("capHeight", 0)), "xh": rat(fd["info"].get("xHeight", 0))}


def _lean_filter(spec):
    fname = spec["filter"]
    opts = dict(spec["opts"])
    if fname == "transform":
        import math
        o = dict(T_DEFAULT); o.update(opts)
        opts = {k: (v if k == "Origin" else rat(v)) for k, v in o.items()}
        opts["tanSlant"] = rat(math.tan(math.radians(o["Slant"]))) if o["Slant"] else "0"
    return {"filter": "opaque" if fname in OPAQUE else fname, "impl": fname, "opts": opts, "inc": spec["inc"],
            "cls": fname, "optsKey": opts_key(fname, spec["opts"]), "pre": bool(spec["pre"]), "isI": bool(spec["I"]),
            "conv": CLASSES[fname][2] is not None}


def run_case(case, timed):
    from ufo2ft.preProcessor import BaseInterpolatablePreProcessor
    fds = json.loads(json.dumps(case["masters"]))
    for fd, specs in zip(fds, case["lib"]):
        if specs:
            fd.setdefault("lib", {})[FKEY] = [_lib_entry(s) for s in specs]
    fonts = [build(fd, case["ulib"]) for fd in fds]
    inst = make_instantiator(fonts) if case["inst"] else None
    shared = [_make_shared(s) for s in case["shared"]]
    pre = BaseInterpolatablePreProcessor(fonts, inplace=case["inplace"], filters=[*shared, ...], instantiator=inst)
    # which description belongs to which filter object
    spec_of = {}
    for i in range(len(fonts)):
        specs = list(case["shared"]) + list(case["lib"][i])
        objs = list(pre.preFilters[i]) + list(pre.postFilters[i])
        want = [s for s in specs if s["pre"]] + [s for s in specs if not s["pre"]]
        if len(objs) != len(want):
            raise AssertionError("the pre-processor loaded %d filters for master %d, %d were declared" % (len(objs), i, len(want)))
        for o, s in zip(objs, want):
            spec_of[id(o)] = s
    if inst is not None and case["prime"]:
        _prime(inst)
    src0 = [L.snap_font(f) for f in fonts]
    steps_in, steps_obs = [], []
    orig = pre._run

    def spy(*filters):
        specs = [None if f is None else spec_of[id(f)] for f in filters]
        before = [L.snap_glyphset(gs) for gs in pre.glyphSets]
        order = list(set.union(*(set(gs.keys()) for gs in pre.glyphSets)))     # what BaseIFilter.__call__ iterates
        need_bounds = any(s is not None and s["filter"] == "propagate" for s in specs)
        steps_in.append({"masters": [_master_in(fd, b, need_bounds) for fd, b in zip(fds, before)], "nameOrder": order,
                         "filters": [None if s is None else _lean_filter(s) for s in specs]})
        if inst is not None:
            inst.glyph_mutators[SENTINEL] = None
        o = {"err": None}
        steps_obs.append(o)
        try:
            modified = orig(*filters)
        except Exception as e:
            o["err"] = type(e).__name__
            raise
        try:
            o["modified"] = sorted(str(x) for x in modified)
            o["after"] = [L.snap_glyphset(gs) for gs in pre.glyphSets]
            o["refreshed"] = None if inst is None else SENTINEL not in inst.glyph_mutators
        except Exception as e:
            # the time budget of the harness (SIGALRM) can run out while the step is being snapshotted
            o["err"] = type(e).__name__
            raise
        return modified

    pre._run = spy
    complete, outside = True, None
    try:
        timed(pre.process)
    except Exception as e:
        complete = False
        if not steps_obs or steps_obs[-1]["err"] is None:
            outside = type(e).__name__            # raised by process() itself, not by a filter step
    src, src_detail = [], []
    for i, f in enumerate(fonts):
        s1 = L.snap_font(f)
        d = L.diff_font(src0[i], s1)
        dl = f.layers.defaultLayer
        if case["inplace"]:
            d = [k for k in d if not k.startswith(f"glyph:{dl.name}:") and k != f"layerkeys:{dl.name}"]
        src += [f"m{i}:{k}" for k in d]
        for k in d:
            # which parts of a source glyph were written (used to name the shape of a failure)
            pre_ = f"glyph:{dl.name}:"
            if k.startswith(pre_) and k in src0[i] and k in s1:
                a, b = json.loads(src0[i][k]), json.loads(s1[k])
                src_detail.append([i, k[len(pre_):], sorted(x for x in set(a) | set(b) if a.get(x) != b.get(x))])
            else:
                src_detail.append([i, k, None])
    view = forced = None
    if inst is not None and complete:
        inst.glyph_mutators.pop(SENTINEL, None)
        view = _view(inst)
        inst.replace_source_layers(pre.glyphSets)
        forced = _view(inst)
    return steps_in, steps_obs, src, src_detail, view, forced, outside
