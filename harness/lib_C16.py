"""Helpers of the C16 check: info generators, protocol encoding, observation of compiled fonts."""
import calendar
import math
import os
import time
import unicodedata

from ufo import rat

os.environ.setdefault("SOURCE_DATE_EPOCH", "1700000000")
import logging
logging.getLogger("ufo2ft").setLevel(logging.ERROR)
logging.getLogger("fontTools").setLevel(logging.ERROR)
DATE_FMT = "%Y/%m/%d %H:%M:%S"

NUM = {"versionMajor", "versionMinor", "unitsPerEm", "italicAngle", "year", "openTypeHeadLowestRecPPEM",
       "openTypeHheaLineGap", "openTypeHheaCaretOffset", "openTypeOS2WidthClass", "openTypeOS2WeightClass",
       "openTypeOS2SubscriptXSize", "openTypeOS2SubscriptYSize", "openTypeOS2SubscriptXOffset",
       "openTypeOS2SubscriptYOffset", "openTypeOS2SuperscriptXSize", "openTypeOS2SuperscriptYSize",
       "openTypeOS2SuperscriptXOffset", "openTypeOS2SuperscriptYOffset", "openTypeOS2StrikeoutSize",
       "openTypeOS2StrikeoutPosition", "openTypeVheaVertTypoAscender", "openTypeVheaVertTypoDescender",
       "openTypeVheaVertTypoLineGap", "openTypeVheaCaretSlopeRise", "openTypeVheaCaretSlopeRun",
       "openTypeVheaCaretOffset", "postscriptUniqueID", "postscriptIsFixedPitch", "postscriptBlueFuzz",
       "postscriptBlueShift", "postscriptForceBold", "postscriptDefaultWidthX", "postscriptNominalWidthX",
       "postscriptWindowsCharacterSet", "macintoshFONDFamilyID", "ascender", "descender", "capHeight", "xHeight",
       "openTypeHheaAscender", "openTypeHheaDescender", "openTypeHheaCaretSlopeRise", "openTypeHheaCaretSlopeRun",
       "openTypeOS2TypoAscender", "openTypeOS2TypoDescender", "openTypeOS2TypoLineGap", "openTypeOS2WinAscent",
       "openTypeOS2WinDescent", "postscriptSlantAngle", "postscriptUnderlineThickness",
       "postscriptUnderlinePosition", "postscriptBlueScale"}
NUMS = {"openTypeHeadFlags", "openTypeOS2Selection", "openTypeOS2Panose", "openTypeOS2FamilyClass",
        "openTypeOS2UnicodeRanges", "openTypeOS2CodePageRanges", "openTypeOS2Type", "postscriptBlueValues",
        "postscriptOtherBlues", "postscriptFamilyBlues", "postscriptFamilyOtherBlues", "postscriptStemSnapH",
        "postscriptStemSnapV"}

# strings that end up in the CFF table (cffLib encodes them as Latin-1 / ASCII)
CFF_BOUND = ["familyName", "styleName", "openTypeNamePreferredFamilyName", "openTypeNamePreferredSubfamilyName",
             "postscriptFontName", "postscriptFullName", "postscriptWeightName"]


def all_attrs():
    from ufo2ft import fontInfoData as F
    return list(F.staticFallbackData) + list(F.specialFallbacks)


def cps(s):
    return [ord(c) for c in s]


def enc_val(attr, v):
    """a Python info value -> protocol value"""
    if v is None:
        return None
    if attr == "openTypeNameRecords":
        return {"recs": [[r["nameID"], r["platformID"], r["encodingID"], r["languageID"], cps(r["string"])] for r in v]}
    if attr == "openTypeGaspRangeRecords":
        return {"gasp": [[rat(r["rangeMaxPPEM"]), [rat(b) for b in r["rangeGaspBehavior"]]] for r in v]}
    if attr in NUMS:
        return {"l": [rat(int(x) if isinstance(x, bool) else x) for x in v]}
    if attr in NUM:
        return rat(int(v) if isinstance(v, bool) else v)
    return {"s": cps(v)}


def enc_info(info):
    return {k: enc_val(k, v) for k, v in info.items() if v is not None}


def strings_of(info):
    out = []
    for k, v in info.items():
        if isinstance(v, str):
            out.append(v)
        elif k == "openTypeNameRecords" and v:
            out += [r["string"] for r in v]
    return out


def make_env(info):
    """everything the model takes from outside ufo2ft, computed here with the same libraries the code uses"""
    chars = set("".join(strings_of(info))) | set("New Font Regular")
    tbl = []
    for c in sorted(chars):
        d = unicodedata.normalize("NFKD", c)
        if d != c:
            tbl.append([ord(c), cps(d)])
    ia = info.get("italicAngle")
    ia = 0 if ia is None else ia
    tan = math.tan(math.radians(-ia))
    now = time.strftime(DATE_FMT, time.gmtime(int(os.environ["SOURCE_DATE_EPOCH"])))
    dates = []
    for s in {now, info.get("openTypeHeadCreated")}:
        if s is None:
            continue
        try:
            t = calendar.timegm(time.strptime(s, DATE_FMT))
        except ValueError:
            t = 0
        dates.append([cps(s), t])
    return {"nfkd": tbl, "tan": rat(tan), "now": cps(now), "dates": sorted(dates)}


# ------------------------------------------------------------------ generators

ASCII_NAMES = ["Foo", "Foo Sans", "My Font", "A", "Foo-Bar", "X1", "Noto Sans Display", "a b c", " lead", "trail ",
               "Foo  Two"]
LATIN1_NAMES = ["Ünï", "Café", "Ångström Sans", "España"]
WIDE_NAMES = ["FooĀ", "明朝", "Жук", "\U0001d509oo", "Łódź", "Näive"]
UNSAFE_NAMES = ["Foo Sans", "明朝（太）", "A\x01B", "Tab\tbed", "⑴x", "Half／Width",
                "x⁽y⁾", "℀c", "﹛q﹜", "Del\x7f", "　Wide", "﹪"]
EXC_NAMES = ["A[b]", "(c) Foo", "50% <Off>", "a/b{c}"]
STYLES = ["Regular", "Bold", "Italic", "Bold Italic", "regular", "BOLD", " bold ", "bold italic", "Light", "Semi Bold",
          "Black Italic", "Thin", "Condensed Bold", "Italic ", "Étroit", "Bold Italic"]
TEXTS = ["", "x", "© 2024 Foo", "Copyright (c) Foo [a]", "©© 明", "Trade™ mark", "http://example.com/a?b=c",
         "Line1\nLine2", "\U0001f600 fun", "Plain text", "Müller & Söhne", "café © Corp", " nbsp"]
VERSIONS = ["Version 1.000", "1.5", "Version 2.0 Version x", "Version", "version 3", ""]
DATES = ["2020/01/02 03:04:05", "1999/12/31 23:59:59", "2038/01/19 03:14:08", "1970/01/01 00:00:00"]


def pick_name(rng, kind):
    r = rng.random()
    if kind == "ascii":
        pool = ASCII_NAMES + EXC_NAMES if r < 0.9 else [""]
    elif kind == "latin1":
        pool = ASCII_NAMES + LATIN1_NAMES + EXC_NAMES
    elif kind == "wide":
        pool = WIDE_NAMES + LATIN1_NAMES + ASCII_NAMES[:3]
    else:
        pool = UNSAFE_NAMES
    return rng.choice(pool)


def num(rng, lo, hi, frac=0.0):
    v = rng.randrange(lo, hi + 1)
    if frac and rng.random() < frac:
        return v + rng.choice([0.5, 0.25, 0.75, 0.125])
    return v


def bitlist(rng, options, p=0.3):
    return [b for b in options if rng.random() < p]


def zones(rng, maxpairs, frac):
    n = rng.choice([0, 1, 1, 2, 3, maxpairs])
    vals = sorted(rng.sample(range(-300, 900), 2 * n))
    return [v + (0.5 if frac and rng.random() < 0.2 else 0) for v in vals]


def gen_info(rng, mode, otf, namekind=None):
    """a random subset of the font-info attributes with spec-valid values.
    mode 'search': also values that are only type-valid (fractional where the spec wants integers)."""
    p = rng.choice([0.0, 0.08, 0.25, 0.5, 0.8, 1.0])
    lenient = mode == "search" and rng.random() < 0.5
    fr = 0.35                      # share of fractional values where the spec allows floats
    ifr = 0.35 if lenient else 0   # ... where it wants integers
    if namekind is None:
        r = rng.random()
        if otf:
            namekind = "ascii" if r < 0.45 else "latin1" if r < 0.75 else "unsafe" if r < 0.87 else "wide"
        else:
            namekind = "ascii" if r < 0.3 else "latin1" if r < 0.5 else "unsafe" if r < 0.7 else "wide"
    upm = rng.choice([1000, 1000, 2048, 1024, 16, 16384, 250, 100, 1000.5, 999.5, 2000.25, rng.randrange(16, 16385)])
    iu = int(upm)
    info = {}

    def put(attr, fn, prob=None):
        if rng.random() < (p if prob is None else prob):
            info[attr] = fn()

    put("unitsPerEm", lambda: upm, 0.6 if upm == 1000 else 1.0)
    name = lambda: pick_name(rng, namekind)  # noqa: E731
    style = lambda: rng.choice(STYLES) if namekind != "ascii" else rng.choice(STYLES[:14])  # noqa: E731
    put("familyName", name, max(p, 0.5))
    put("styleName", style, max(p, 0.4))
    put("styleMapFamilyName", name)
    put("styleMapStyleName", lambda: rng.choice(["regular", "bold", "italic", "bold italic"]))
    put("openTypeNamePreferredFamilyName", name)
    put("openTypeNamePreferredSubfamilyName", style)
    put("postscriptFontName", lambda: rng.choice(["Foo-Bold", "Foo Bold", "Fo(o)-It", "X", "Café-Regular"] +
                                                (["Ж-R", "A B"] if namekind in ("wide", "unsafe") else [])))
    put("postscriptFullName", lambda: rng.choice(["Foo Bold", "Café Regular"] + (["明朝 R"] if namekind == "wide" else [])))
    put("postscriptWeightName", lambda: rng.choice(["Bold", "Regular", "Black"] + (["Gräs"] if namekind == "wide" else [])))
    text = lambda: rng.choice(TEXTS)  # noqa: E731
    for a in ["copyright", "trademark", "openTypeNameDesigner", "openTypeNameDesignerURL", "openTypeNameManufacturer",
              "openTypeNameManufacturerURL", "openTypeNameLicense", "openTypeNameLicenseURL", "openTypeNameDescription",
              "openTypeNameCompatibleFullName", "openTypeNameSampleText", "openTypeNameWWSFamilyName",
              "openTypeNameWWSSubfamilyName", "openTypeNameUniqueID", "note", "macintoshFONDName",
              "postscriptDefaultCharacter"]:
        put(a, text)
    put("openTypeNameVersion", lambda: rng.choice(VERSIONS))
    put("versionMajor", lambda: rng.choice([0, 1, 2, 10, 255, 3]))
    put("versionMinor", lambda: rng.choice([0, 5, 10, 100, 999, 1234, 50, 7, 12345, 1]))
    put("year", lambda: 2024)
    put("italicAngle", lambda: rng.choice([0, 0.0, -12, -9.5, 11.25, 10, -0.5, 45, -20.125]), max(p, 0.3))
    put("ascender", lambda: num(rng, 0, int(iu * 1.1), fr))
    put("descender", lambda: -num(rng, 0, int(iu * 0.4), fr) if rng.random() < 0.9 else num(rng, 0, 50, fr))
    put("capHeight", lambda: num(rng, 0, iu, fr))
    put("xHeight", lambda: rng.choice([0, num(rng, 1, iu, fr)]))
    put("openTypeHeadCreated", lambda: rng.choice(DATES))
    put("openTypeHeadLowestRecPPEM", lambda: num(rng, 0, 100, ifr))
    put("openTypeHeadFlags", lambda: bitlist(rng, range(0, 15)))
    for a in ["openTypeHheaAscender", "openTypeOS2TypoAscender"]:
        put(a, lambda: num(rng, 0, 2 * iu if iu < 8000 else 20000, ifr))
    for a in ["openTypeHheaDescender", "openTypeOS2TypoDescender"]:
        put(a, lambda: -num(rng, 0, iu if iu < 8000 else 10000, ifr))
    for a in ["openTypeHheaLineGap", "openTypeOS2TypoLineGap"]:
        put(a, lambda: rng.choice([0, num(rng, 0, 500, ifr)]))
    put("openTypeHheaCaretSlopeRise", lambda: rng.choice([0, 1, 1000, 2048, 500, -3]))
    put("openTypeHheaCaretSlopeRun", lambda: rng.choice([0, 1, 176, 213, -100]))
    put("openTypeHheaCaretOffset", lambda: num(rng, -100, 100, ifr))
    put("openTypeOS2WinAscent", lambda: num(rng, 0, 20000, ifr))
    put("openTypeOS2WinDescent", lambda: num(rng, 0, 10000, ifr))
    put("openTypeOS2WidthClass", lambda: rng.randrange(1, 10))
    put("openTypeOS2WeightClass", lambda: rng.choice([1, 100, 400, 700, 1000, 250]))
    put("openTypeOS2Selection", lambda: bitlist(rng, [1, 2, 3, 4, 7, 8, 9]))
    put("openTypeOS2VendorID", lambda: rng.choice(["ABCD", "AB", "", "A", "Goog", "x y", "NONE"]))
    put("openTypeOS2Panose", lambda: [rng.randrange(0, 16) for _ in range(10)])
    put("openTypeOS2FamilyClass", lambda: [rng.randrange(0, 15), rng.randrange(0, 16)])
    put("openTypeOS2UnicodeRanges", lambda: bitlist(rng, range(0, 128), rng.choice([0, 0.05, 0.5, 1])))
    put("openTypeOS2CodePageRanges", lambda: bitlist(rng, list(range(0, 9)) + list(range(16, 22)) + list(range(29, 32)) + list(range(48, 64)), rng.choice([0, 0.1, 0.5, 1])))
    put("openTypeOS2Type", lambda: rng.choice([[], [2], [3], [1], [2, 8], [0, 1, 2, 3, 8, 9], [9]]))
    for a in ["openTypeOS2SubscriptXSize", "openTypeOS2SubscriptYSize", "openTypeOS2SubscriptXOffset", "openTypeOS2SubscriptYOffset",
              "openTypeOS2SuperscriptXSize", "openTypeOS2SuperscriptYSize", "openTypeOS2SuperscriptXOffset",
              "openTypeOS2SuperscriptYOffset", "openTypeOS2StrikeoutSize", "openTypeOS2StrikeoutPosition"]:
        put(a, lambda: rng.choice([0, num(rng, -500, 1500, ifr)]))
    if rng.random() < 0.3:
        for a in ["openTypeVheaVertTypoAscender", "openTypeVheaVertTypoDescender", "openTypeVheaVertTypoLineGap"]:
            info[a] = rng.choice([0, 500, -500, num(rng, -1000, 1000, ifr)])
        if rng.random() < 0.3:
            del info[rng.choice(["openTypeVheaVertTypoAscender", "openTypeVheaVertTypoDescender", "openTypeVheaVertTypoLineGap"])]
    put("openTypeVheaCaretSlopeRise", lambda: rng.choice([0, 1, 5]))
    put("openTypeVheaCaretSlopeRun", lambda: rng.choice([0, 1, 2]))
    put("openTypeVheaCaretOffset", lambda: num(rng, -50, 50, ifr))
    put("postscriptUniqueID", lambda: 4000001)
    put("postscriptSlantAngle", lambda: rng.choice([0, -12.5, 3]))
    put("postscriptUnderlineThickness", lambda: rng.choice([0, num(rng, 1, 300, fr)]))
    put("postscriptUnderlinePosition", lambda: rng.choice([0, -num(rng, 1, 400, fr)]))
    put("postscriptIsFixedPitch", lambda: rng.random() < 0.5)
    put("postscriptBlueValues", lambda: zones(rng, 7, fr))
    put("postscriptOtherBlues", lambda: zones(rng, 5, fr))
    put("postscriptFamilyBlues", lambda: zones(rng, 7, fr))
    put("postscriptFamilyOtherBlues", lambda: zones(rng, 5, fr))
    put("postscriptStemSnapH", lambda: sorted(num(rng, 10, 300, fr) for _ in range(rng.choice([0, 1, 2, 12]))))
    put("postscriptStemSnapV", lambda: sorted(num(rng, 10, 300, fr) for _ in range(rng.choice([0, 1, 2, 12]))))
    put("postscriptBlueFuzz", lambda: rng.choice([0, 1, 2.5]))
    put("postscriptBlueShift", lambda: rng.choice([0, 7, 6.5]))
    put("postscriptBlueScale", lambda: rng.choice([0.039625, 0.05, 0.25, 0.0375]))
    put("postscriptForceBold", lambda: rng.random() < 0.5)
    put("postscriptDefaultWidthX", lambda: rng.choice([0, 500, 499.5, 600]))
    put("postscriptNominalWidthX", lambda: rng.choice([0, 400, 450.5]))
    put("postscriptWindowsCharacterSet", lambda: 1)
    put("macintoshFONDFamilyID", lambda: 15000)

    def records():
        out = []
        for _ in range(rng.choice([1, 1, 2, 3, 5])):
            plat = rng.choice([3, 3, 3, 1])
            if plat == 3:
                s = rng.choice(TEXTS[1:] + WIDE_NAMES + ["Over"])
                enc, lang = (10 if any(ord(c) > 0xFFFF for c in s) and rng.random() < 0.7 else 1), rng.choice([0x409, 0x409, 0x407, 0x411])
            else:
                s, enc, lang = rng.choice(["Mac name", "Over", "x"]), 0, 0
            out.append({"nameID": rng.choice([1, 2, 4, 6, 16, 17, 3, 25, 256, 300]), "platformID": plat, "encodingID": enc,
                        "languageID": lang, "string": s})
        return out
    put("openTypeNameRecords", records, p * 0.6)
    if not otf:
        def gasp():
            if rng.random() < 0.8:   # spec-valid: ascending, unique
                ppems = sorted(rng.sample([7, 8, 16, 20, 65535], rng.choice([0, 1, 2, 3])))
            else:
                ppems = [rng.choice([7, 8, 16, 65535]) for _ in range(rng.choice([2, 3, 4]))]
            return [{"rangeMaxPPEM": q, "rangeGaspBehavior": bitlist(rng, range(4), 0.5)} for q in ppems]
        put("openTypeGaspRangeRecords", gasp, max(p * 0.6, 0.15))
    return info


def spec_valid(info):
    from fontTools.ufoLib import validateFontInfoVersion3ValueForAttribute as ok
    return [k for k, v in info.items() if v is not None and not ok(k, v)]


# ------------------------------------------------------------------ building / observing fonts

def build_font(info, lib):
    if lib == "defcon":
        import defcon
        font = defcon.Font()
    else:
        import ufoLib2
        font = ufoLib2.Font()
    g = font.newGlyph(".notdef"); g.width = 500
    g = font.newGlyph("a"); g.width = 600; g.unicodes = [0x61]
    pen = g.getPen(); pen.moveTo((0, 0)); pen.lineTo((100, 0)); pen.lineTo((50, 80)); pen.closePath()
    for k, v in info.items():
        try:
            setattr(font.info, k, v)
        except ValueError:
            if lib != "defcon":
                raise
            return build_font(info, "ufoLib2")   # defcon refuses values its validators reject
    return font


def fv(v):
    """a table value -> protocol FVal"""
    if v is None:
        return None
    if isinstance(v, (bytes, bytearray)):
        v = v.decode("latin-1")
    if isinstance(v, str):
        return {"s": cps(v)}
    if isinstance(v, (list, tuple)):
        return [rat(int(x) if isinstance(x, bool) else x) for x in v]
    return rat(int(v) if isinstance(v, bool) else v)


HEAD = ["fontRevision", "unitsPerEm", "created", "macStyle", "flags", "lowestRecPPEM"]
XHEA = ["ascent", "descent", "lineGap", "caretSlopeRise", "caretSlopeRun", "caretOffset"]
OS2 = ["usWeightClass", "usWidthClass", "fsType", "ySubscriptXSize", "ySubscriptYSize", "ySubscriptXOffset", "ySubscriptYOffset",
       "ySuperscriptXSize", "ySuperscriptYSize", "ySuperscriptXOffset", "ySuperscriptYOffset", "yStrikeoutSize",
       "yStrikeoutPosition", "sFamilyClass", "ulUnicodeRange1", "ulUnicodeRange2", "ulUnicodeRange3", "ulUnicodeRange4",
       "ulCodePageRange1", "ulCodePageRange2", "achVendID", "sxHeight", "sCapHeight", "sTypoAscender", "sTypoDescender",
       "sTypoLineGap", "usWinAscent", "usWinDescent", "fsSelection"]
PANOSE = ["bFamilyType", "bSerifStyle", "bWeight", "bProportion", "bContrast", "bStrokeVariation", "bArmStyle",
          "bLetterForm", "bMidline", "bXHeight"]
POST = ["italicAngle", "underlinePosition", "underlineThickness", "isFixedPitch"]
CFF_TOP = ["version", "Notice", "Copyright", "FullName", "FamilyName", "Weight", "isFixedPitch", "ItalicAngle",
           "UnderlinePosition", "UnderlineThickness"]
CFF_PRIV = ["defaultWidthX", "nominalWidthX", "BlueFuzz", "BlueShift", "BlueScale", "ForceBold", "BlueValues", "OtherBlues",
            "FamilyBlues", "FamilyOtherBlues", "StemSnapH", "StdHW", "StemSnapV", "StdVW"]


def observe(tt, reloaded):
    f = {}
    for k in HEAD:
        f["head_" + k] = fv(getattr(tt["head"], k))
    for tag in ("hhea", "vhea"):
        for k in XHEA:
            f[tag + "_" + k] = fv(getattr(tt[tag], k)) if tag in tt else None
    o = tt["OS/2"]
    for k in OS2:
        f["OS2_" + k] = fv(getattr(o, k))
    f["OS2_panose"] = fv([getattr(o.panose, k) for k in PANOSE])
    for k in POST:
        f["post_" + k] = fv(getattr(tt["post"], k))
    f["gasp"] = fv([x for kv in sorted(tt["gasp"].gaspRange.items()) for x in kv]) if "gasp" in tt else None
    if "CFF " in tt:
        cff = tt["CFF "].cff
        td = cff.topDictIndex[0]
        f["CFF_fontName"] = fv(cff.fontNames[0])
        for k in CFF_TOP:
            f["CFF_" + k] = fv(getattr(td, k, None))
        f["CFF_FontMatrix"] = None if reloaded else fv(td.FontMatrix[0])
        pd = td.Private
        for k in CFF_PRIV:
            f["CFF_" + k] = fv(getattr(pd, k, None))
        if reloaded:
            f["CFF_BlueScale"] = None
    names = sorted([n.nameID, n.platformID, n.platEncID, n.langID, cps(n.toUnicode())] for n in tt["name"].names)
    return {"err": None, "fields": f, "names": names}
