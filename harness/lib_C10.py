"""Generators, designspace builder and observers for C10 (a variable font reproduces each master).

A *family* is a JSON-able description of a designspace with in-memory sources:
  {"axes": [{"name", "tag", "min", "default", "max", "map": [[user, design], ...]}],     user-space min/default/max
   "fonts": [fd, ...]                     fd as in ufo.py (+ "layers": {layerName: [glyph dicts]})
   "sources": [{"name", "font": idx, "layer": None|str, "loc": {axisName: designValue}}],
   "vfs": None | [{"name", "axes": [{"name"} | {"name", "min", "max"} | {"name", "value"}]}]}   DS5 <variable-font>s (user space)
Everything random comes from the rng handed in.  All numbers are chosen on dyadic grids such that VariationModel's float
arithmetic is exact for the `exact` families (every support scalar evaluated at a master location is 0 or 1).
"""
import io
import json
import logging

from ufo import build, err_kind, rat

BASES = ["a", "b", "c", "d"]
MARKS = ["acutecomb", "gravecomb"]
CPS = {"a": 0x61, "b": 0x62, "c": 0x63, "d": 0x64, "acutecomb": 0x301, "gravecomb": 0x300, "aacute": 0xE1, "a.sc": 0x1D00}
WRITERS_KEY = "com.github.googlei18n.ufo2ft.featureWriters"


# ------------------------------------------------------------------ designspace construction

def make_designspace(fam, fonts=None):
    from fontTools.designspaceLib import (AxisDescriptor, DesignSpaceDocument, RangeAxisSubsetDescriptor, SourceDescriptor,
                                          ValueAxisSubsetDescriptor, VariableFontDescriptor)
    d = DesignSpaceDocument()
    for ax in fam["axes"]:
        a = AxisDescriptor()
        a.name, a.tag = ax["name"], ax["tag"]
        a.minimum, a.default, a.maximum = ax["min"], ax["default"], ax["max"]
        if ax.get("map"):
            a.map = [tuple(m) for m in ax["map"]]
        d.addAxis(a)
    if fonts is None:
        fonts = [build(fd, fam.get("lib", "ufoLib2")) for fd in fam["fonts"]]
    for s in fam["sources"]:
        sd = SourceDescriptor()
        sd.name = s["name"]
        sd.font = fonts[s["font"]]
        sd.layerName = s["layer"]
        sd.location = dict(s["loc"])
        sd.familyName = "Fam"
        sd.styleName = s["name"]
        d.addSource(sd)
    if fam.get("vfs"):
        d.formatVersion = "5.0"
        for vf in fam["vfs"]:
            subsets = []
            for a in vf["axes"]:
                if "value" in a:
                    subsets.append(ValueAxisSubsetDescriptor(name=a["name"], userValue=a["value"]))
                elif "min" in a:
                    subsets.append(RangeAxisSubsetDescriptor(name=a["name"], userMinimum=a["min"], userMaximum=a["max"]))
                else:
                    subsets.append(RangeAxisSubsetDescriptor(name=a["name"]))
            d.addVariableFont(VariableFontDescriptor(name=vf["name"], axisSubsets=subsets))
    return d


def map_backward(ax, v):
    """independent re-statement of AxisDescriptor.map_backward on exact node values (used for expected locations)"""
    from fontTools.varLib.models import piecewiseLinearMap
    if not ax.get("map"):
        return v
    return piecewiseLinearMap(v, {d: u for u, d in ax["map"]})


def map_forward(ax, v):
    from fontTools.varLib.models import piecewiseLinearMap
    if not ax.get("map"):
        return v
    return piecewiseLinearMap(v, {u: d for u, d in ax["map"]})


def user_loc(fam, src):
    """{tag: user value} of a source, all axes"""
    out = {}
    for ax in fam["axes"]:
        dv = src["loc"].get(ax["name"], map_forward(ax, ax["default"]))
        out[ax["tag"]] = map_backward(ax, dv)
    return out


def default_design_loc(fam):
    return {ax["name"]: map_forward(ax, ax["default"]) for ax in fam["axes"]}


def is_default(fam, src):
    d = default_design_loc(fam)
    return all(src["loc"].get(k, v) == v for k, v in d.items())


# ------------------------------------------------------------------ small observers

def quiet():
    logging.disable(logging.CRITICAL)


def reload(tt):
    buf = io.BytesIO()
    tt.save(buf)
    return buf.getvalue()


def glyph_points(tt, name):
    """what a glyph draws (through the glyph set; components as (name, transform)): [[op, numbers...], ...]"""
    from fontTools.pens.recordingPen import RecordingPen
    pen = RecordingPen()
    tt.getGlyphSet()[name].draw(pen)
    out = []
    for op, args in pen.value:
        if op == "addComponent":
            out.append([op, args[0]] + [float(x) for x in args[1]])
        else:
            out.append([op] + [float(c) for p in args if p is not None for c in p])
    return out


# ------------------------------------------------------------------ generators

def _rect(x0, y0, w, h):
    return [[x0, y0, "line"], [x0 + w, y0, "line"], [x0 + w, y0 + h, "line"], [x0, y0 + h, "line"]]


def _curvy(x0, y0, w, h):
    return [[x0, y0, "line"], [x0 + w, y0, "line"],
            [x0 + w + w // 4, y0 + h // 4, None], [x0 + w + w // 4, y0 + h // 2 + h // 4, None], [x0 + w, y0 + h, "curve"],
            [x0, y0 + h, "line"]]


def gen_axis(rng, name, tag, both_sides):
    """one axis; design range chosen so that normalisation is exact (powers of two)"""
    d = rng.choice([0, 64, 400])
    up = rng.choice([64, 128, 256, 512])
    dn = rng.choice([64, 128, 256]) if both_sides else 0
    dmin, dmax = d - dn, d + up
    ax = {"name": name, "tag": tag, "dmin": dmin, "ddef": d, "dmax": dmax}
    if rng.random() < 0.5:
        ax.update({"min": dmin, "default": d, "max": dmax, "map": []})
    else:
        if tag == "wght":
            u = {"min": rng.choice([100, 200]), "default": 400, "max": rng.choice([900, 700, 1000])}
        elif tag == "wdth":
            u = {"min": rng.choice([50, 75]), "default": 100, "max": rng.choice([125, 150, 200])}
        else:
            u = {"min": 8, "default": 16, "max": 144}
        if not dn:
            u["min"] = u["default"]
        m = ([[u["min"], dmin]] if dn else []) + [[u["default"], d], [u["max"], dmax]]
        ax.update({"min": u["min"], "default": u["default"], "max": u["max"], "map": m})
    return ax


def add_map_node(ax, design, rng, allow_frac=False):
    """make `design` a node of the axis map (so that map_backward of a master location is exact and not interpolated).
    The user value is an integer unless `allow_frac`: the feature-file syntax for variable scalars only has integer axis values
    (see classify_failure, "variable-features-fractional-location")."""
    if not ax["map"] or any(m[1] == design for m in ax["map"]):
        return
    nodes = sorted(ax["map"], key=lambda m: m[1])
    for (u0, d0), (u1, d1) in zip(nodes, nodes[1:]):
        if d0 < design < d1:
            # a user value strictly between; deliberately NOT the linear image so that the map matters
            cands = [u0 + (u1 - u0) * m for m in (0.25, 0.5, 0.75)]
            if not allow_frac:
                cands = [u for u in cands if u == int(u)] or [float(int((u0 + u1) / 2))]
                cands = [u for u in cands if u0 < u < u1]
                if not cands:
                    continue
            ax["map"].append([rng.choice(cands), design])
            ax["map"].sort()
            return


def gen_kern_pool(rng, glyphs, groups):
    """candidate kerning keys on all four precedence levels"""
    g1 = [g for g in groups if g.startswith("public.kern1.")]
    g2 = [g for g in groups if g.startswith("public.kern2.")]
    pool = []
    for _ in range(rng.choice([2, 4, 6, 9])):
        s1 = rng.choice(glyphs + g1 + g1) if g1 else rng.choice(glyphs)
        s2 = rng.choice(glyphs + g2 + g2) if g2 else rng.choice(glyphs)
        if [s1, s2] not in pool:
            pool.append([s1, s2])
    # exception chains under class-class pairs
    for s1, s2 in list(pool):
        if s1 in g1 and s2 in g2 and rng.random() < 0.7:
            m1 = [m for m in groups[s1] if m in glyphs]
            m2 = [m for m in groups[s2] if m in glyphs]
            if m1 and m2:
                for cand in ([rng.choice(m1), s2], [s1, rng.choice(m2)], [rng.choice(m1), rng.choice(m2)]):
                    if cand not in pool and rng.random() < 0.6:
                        pool.append(cand)
    if rng.random() < 0.25:
        pool.append([rng.choice(glyphs), "missing.glyph"])
    if rng.random() < 0.15:
        pool.append(["public.kern1.nothere", rng.choice(glyphs)])
    return pool


def _grp(groups, pfx, g):
    c = [n for n, ms in groups.items() if n.startswith(pfx) and g in ms]
    return c[-1] if c else None


def diamond_pairs(groups, kernings, glyphs):
    """[(g1, g2, i)]: the key (g1, G2) exists in some master but not in master i, no (g1, g2) key exists anywhere, and master i
    has (G1, g2) - the one shape in which per-key UFO fallback and first-match over keys disagree (Spec.diamond)."""
    union = set()
    for k in kernings:
        union |= {(a, b) for a, b, _ in k}
    out = []
    for g1 in glyphs:
        for g2 in glyphs:
            G1, G2 = _grp(groups, "public.kern1.", g1), _grp(groups, "public.kern2.", g2)
            if G1 is None or G2 is None or (g1, g2) in union or (g1, G2) not in union:
                continue
            for i, k in enumerate(kernings):
                ks = {(a, b) for a, b, _ in k}
                if (g1, G2) not in ks and (G1, g2) in ks:
                    out.append((g1, g2, i))
    return out


def layout_kinds(kerning, groups, names, marks, categories):
    """which kern lookups a master gets (base pairs / pairs with a mark / mark-mark pairs): varLib's merger needs the same lookup
    list in every master"""
    kinds = set()
    mk = set(marks) if categories else set()
    for s1, s2, v in kerning:
        c1, c2 = s1 in groups, s2 in groups
        m1 = [g for g in groups[s1] if g in names] if c1 else ([s1] if s1 in names else [])
        m2 = [g for g in groups[s2] if g in names] if c2 else ([s2] if s2 in names else [])
        if not m1 or not m2:
            continue
        if c1 and c2 and v == 0:
            continue
        for a in m1:
            for b in m2:
                n = (a in mk) + (b in mk)
                kinds.add("bb" if n == 0 else ("mm" if n == 2 else "bm"))
    return kinds


VALS = [0, -10, -20, 15, 7, 12.5, -12.5, 2.5, -7.5, 33, -50, 100.5, 4, -4]


def gen_family(rng, mode="normal", allow_diamond=False, naxes=None, exact=True, multi=False, allow_nogpos=False, func=False,
               allow_frac=False, own_groups=False):
    """a compatible family: 2-5 full masters on 1-2 axes (+ optionally a sparse layer master), per-master kerning and anchors"""
    naxes = naxes or (2 if multi else rng.choice([1, 1, 1, 2]))
    axes = [gen_axis(rng, "Weight", "wght", rng.random() < 0.4)]
    if naxes == 2:
        axes.append(gen_axis(rng, "Width", "wdth", rng.random() < 0.3))
    frac_axis = allow_frac and not func and rng.random() < 0.35
    if frac_axis:
        # e.g. wdth 75..100..125 with a master at 112.5: design = user space, no map
        axes[0] = {"name": "Weight", "tag": "wght", "dmin": 100 - rng.choice([0, 25]), "ddef": 100, "dmax": 125, "map": []}
        axes[0].update({"min": axes[0]["dmin"], "default": 100, "max": 125})
    ax0 = axes[0]
    dflt = {a["name"]: a["ddef"] for a in axes}

    def at(**kw):
        l = dict(dflt); l.update(kw); return l
    locs = [dict(dflt), at(Weight=ax0["dmax"])]
    if ax0["dmin"] < ax0["ddef"] and rng.random() < 0.8:
        locs.append(at(Weight=ax0["dmin"]))
    inter = None
    if frac_axis:
        inter = 112.5
    elif rng.random() < 0.45:
        inter = ax0["ddef"] + (ax0["dmax"] - ax0["ddef"]) // 2
    if naxes == 2:
        ax1 = axes[1]
        locs.append(at(Width=ax1["dmax"]))
        if ax1["dmin"] < ax1["ddef"] and rng.random() < 0.7:
            locs.append(at(Width=ax1["dmin"]))
        if rng.random() < 0.5:
            locs.append(at(Weight=ax0["dmax"], Width=ax1["dmax"]))
    sparse_inter = inter is not None and rng.random() < (0.2 if frac_axis else 0.5)
    if inter is not None and not sparse_inter:
        locs.append(at(Weight=inter))
    if not exact:
        # a second intermediate master: support scalars at master locations become fractional and deltas are rounded
        q4 = ax0["ddef"] + (ax0["dmax"] - ax0["ddef"]) // 4
        if q4 != inter:
            locs.append(at(Weight=q4))
        if inter is None:
            locs.append(at(Weight=ax0["ddef"] + (ax0["dmax"] - ax0["ddef"]) // 2))
    for l in locs:
        for a in axes:
            add_map_node(a, l[a["name"]], rng, allow_frac)
    if rng.random() < 0.3:
        rng.shuffle(locs)            # the default source need not come first
    nm = len(locs)

    # glyph repertoire
    bases = ["a"] + rng.sample(BASES[1:], rng.choice([1, 2, 2, 3]))
    rng.shuffle(bases)
    marks = rng.sample(MARKS, rng.choice([0, 1, 1, 2]))
    composite = "aacute" if ("a" in bases and "acutecomb" in marks and rng.random() < 0.6) else None
    # a composite whose component carries a 2x2 matrix: identical in all masters, slightly different (0.8 vs 0.802: must be
    # decomposed jointly, glyf/gvar cannot vary a matrix), or clearly different
    scaled = "a.sc" if rng.random() < 0.65 else None
    scale_mode = rng.choice(["same", "near", "near", "far"])
    names = bases + marks + ([composite] if composite else []) + ([scaled] if scaled else [])
    curvy = rng.random() < 0.5
    anchor_names = rng.sample(["top", "bottom"], rng.choice([1, 1, 2])) if marks else []
    mark_anchor = {m: rng.choice(anchor_names) for m in marks}                   # the one anchor a mark attaches with
    mkmk = {m for m in marks if rng.random() < 0.35}                               # marks that also carry the base-role anchor
    comp_anchor = rng.random() < 0.5
    # the kern writer only knows marks through public.openTypeCategories (or a GDEF block); without them marks stay out of kerning
    categories = bool(marks) and rng.random() < 0.7
    kern_names = names if categories or not marks else [g for g in names if g not in marks]
    # groups: the COMMON groups are the same in every master (UFO kerning semantics of a master = that master's own kerning +
    # groups).  own_groups: some full masters - as a rule not the default - additionally define groups of their own (glyphs that
    # are in no common group of that side) together with class pairs / exceptions that use them: "a pair, with its groups,
    # present in one master only".  A master that does not define such a group has no kerning key naming it.
    groups = {}
    pool1 = [g for g in kern_names if rng.random() < 0.75]
    pool2 = [g for g in kern_names if rng.random() < 0.75]
    extra = {}
    if own_groups:
        for pfx, pl in (("public.kern1.", pool1), ("public.kern2.", pool2)):
            res = rng.sample(kern_names, min(len(kern_names), rng.choice([1, 2, 2, 3])))
            pl[:] = [g for g in pl if g not in res]
            if rng.random() < 0.85 or not extra:
                extra[pfx + "Own"] = res
    for pfx, pool in (("public.kern1.", pool1), ("public.kern2.", pool2)):
        rng.shuffle(pool)
        k = 0
        while pool and k < 3:
            size = rng.choice([1, 2, 2, 3])
            groups[pfx + "G%d" % k] = pool[:size] + (["missing.glyph"] if rng.random() < 0.1 else [])
            pool = pool[size:]
            k += 1
    if rng.random() < 0.1:
        groups["public.kern1.Empty"] = ["missing.glyph"]
    pool = gen_kern_pool(rng, kern_names, groups)
    ugroups = dict(groups)
    ugroups.update(extra)
    extra_pool = []
    if extra:
        x1 = [g for g in extra if g.startswith("public.kern1.")]
        x2 = [g for g in extra if g.startswith("public.kern2.")]
        g1s = [g for g in ugroups if g.startswith("public.kern1.")]
        g2s = [g for g in ugroups if g.startswith("public.kern2.")]
        for a in x1:
            for b in rng.sample(g2s + kern_names, min(len(g2s + kern_names), rng.choice([1, 2, 3]))) + x2:
                if [a, b] not in extra_pool:
                    extra_pool.append([a, b])
        for b in x2:
            for a in rng.sample(g1s + kern_names, min(len(g1s + kern_names), rng.choice([1, 2, 3]))):
                if [a, b] not in extra_pool:
                    extra_pool.append([a, b])
        # exceptions under the pairs that use an own group
        for a, b in list(extra_pool):
            m1 = [m for m in ugroups.get(a, [a]) if m in kern_names]
            m2 = [m for m in ugroups.get(b, [b]) if m in kern_names]
            if not m1 or not m2:
                continue
            for cand in ([rng.choice(m1), b], [a, rng.choice(m2)], [rng.choice(m1), rng.choice(m2)]):
                if cand not in extra_pool and cand not in pool and rng.random() < 0.35:
                    (extra_pool if (cand[0] in extra or cand[1] in extra) else pool).append(cand)
    # which masters define the own groups: never all; the default only rarely
    has_extra = [bool(extra) and (rng.random() < (0.15 if l == dflt else 0.75)) for l in locs]
    if extra:
        nd = [i for i, l in enumerate(locs) if l != dflt]
        if not any(has_extra[i] for i in nd):
            has_extra[rng.choice(nd)] = True
        if all(has_extra):
            has_extra[locs.index(dflt)] = False
    groups_of = [dict(ugroups) if has_extra[i] else dict(groups) for i in range(len(locs))]

    base_shape = {}
    for g in names:
        base_shape[g] = {"x0": rng.randrange(0, 80), "y0": rng.randrange(-20, 20), "w": rng.randrange(60, 300), "h": rng.randrange(100, 500),
                         "adv": 0 if g in marks else rng.randrange(300, 700), "ax": rng.randrange(50, 250), "ay": rng.randrange(300, 600)}
    fonts, kernings = [], []
    for i in range(nm):
        glyphs = []
        isd = locs[i] == dflt
        dd = {g: {k: (0 if isd else rng.choice([0, 8, 16, -8, 24, 40])) for k in ("x0", "y0", "w", "h", "adv", "ax", "ay")} for g in names}
        for g in names:
            s = {k: base_shape[g][k] + dd[g][k] for k in base_shape[g]}
            if g in marks:
                s["adv"] = 0
            gd = {"name": g, "width": s["adv"], "unicodes": [CPS[g]] if g in CPS else [], "contours": [], "components": [], "anchors": []}
            if g == composite:
                gd["components"] = [["a", [1, 0, 0, 1, 0, 0]], ["acutecomb", [1, 0, 0, 1, s["x0"], s["y0"] + 200]]]
            elif g == scaled:
                k = 0 if isd else i + 1
                sc = {"same": 0.75, "near": 0.8 + 0.001 * k, "far": 0.75 + 0.0625 * (k % 3)}[scale_mode]
                sy = sc if rng.random() < 0.7 else (0.75 if scale_mode == "same" else 0.7 + 0.002 * k)
                gd["components"] = [["a", [sc, 0, 0, sy, s["x0"], s["y0"]]]]
            else:
                gd["contours"] = [(_curvy if curvy else _rect)(s["x0"], s["y0"], s["w"], s["h"])]
            half = lambda: rng.choice([0, 0, 0, 0.5, 0.25])
            for an in anchor_names:
                yo = 0 if an == "top" else -400
                if g in marks:
                    if mark_anchor[g] == an:
                        gd["anchors"].append(["_" + an, s["ax"] // 4 + half(), s["ay"] // 2 + yo + half()])
                        if g in mkmk:
                            gd["anchors"].append([an, s["ax"] // 4 + half(), s["ay"] + yo + 100 + half()])   # mark-to-mark
                elif g not in (composite, scaled) or comp_anchor:
                    gd["anchors"].append([an, s["ax"] + half(), s["ay"] + yo + half()])
            glyphs.append(gd)
        # per-master kerning: a random subset of the pool, so that pairs exist in only some masters
        kern = []
        for s1, s2 in pool:
            if rng.random() < (0.6 if mode == "normal" else 0.45):
                kern.append([s1, s2, rng.choice(VALS)])
        if has_extra[i]:
            for s1, s2 in extra_pool:
                if rng.random() < 0.7:
                    kern.append([s1, s2, rng.choice(VALS[1:] if (s1 in extra and s2 in extra) else VALS)])
        kernings.append(kern)
        fonts.append({"glyphs": glyphs, "kerning": kern, "groups": {k: list(v) for k, v in groups_of[i].items()},
                      "info": {"familyName": "Fam", "styleName": "M%d" % i, "unitsPerEm": 1000, "ascender": 800, "descender": -200,
                               "xHeight": 500, "capHeight": 700},
                      "lib": ({"public.openTypeCategories": {g: ("mark" if g in marks else "base") for g in names}} if categories else {})})
    # anchors missing in a non-default master are not generated: the mark writer takes the anchor inventory from the default source
    # and varLib's merger requires the same inventory in every master.
    # the master subsets that end up in one variable font (multi-VF: also the slice at the default width)
    subsets = [list(range(nm))]
    if multi and naxes == 2:
        subsets.append([i for i in range(nm) if locs[i]["Width"] == axes[1]["ddef"]])

    def repair():
        # repair diamonds: give the master that lacks (g1, G2) that key explicitly - in every subset that becomes a variable font
        for _ in range(80):
            todo = None
            for sub in subsets:
                dp = diamond_pairs(ugroups, [kernings[i] for i in sub], names)
                if dp:
                    todo = (dp[0][0], dp[0][1], sub[dp[0][2]])
                    break
            if todo is None:
                return
            g1, g2, i = todo
            G2 = _grp(ugroups, "public.kern2.", g2)
            # a master that does not define G2 gets the glyph pair itself instead (it must not name a group it lacks)
            kernings[i].append([g1, G2 if G2 in groups_of[i] else g2, rng.choice(VALS[1:])])
    if not allow_diamond:
        repair()
    nogpos = False
    if allow_nogpos and not marks:
        di = locs.index(dflt)
        if any(kernings[j] for j in range(nm) if j != di):
            kernings[di][:] = []
            nogpos = True
    # equal lookup layout in every master (needed by the per-master + merge path only)
    equalised = False
    fea_mode = rng.choice(["none", "none", "same", "same", "extra-class", "default-only"])
    if not nogpos and (rng.random() < 0.8 or fea_mode == "extra-class"):
        equalised = True
        allk = set()
        for i, k in enumerate(kernings):
            allk |= layout_kinds(k, groups_of[i], names, marks, categories)
        bs = [g for g in kern_names if g not in marks]
        ms = [g for g in kern_names if g in marks]
        for i, k in enumerate(kernings):
            for kind in sorted(allk - layout_kinds(k, groups_of[i], names, marks, categories)):
                if kind == "bb":
                    k.append([rng.choice(bs), rng.choice(bs), rng.choice(VALS[1:])])
                elif kind == "bm":
                    pr = [rng.choice(bs), rng.choice(ms)]
                    if rng.random() < 0.5:
                        pr.reverse()
                    k.append(pr + [rng.choice(VALS[1:])])
                else:
                    k.append([rng.choice(ms), rng.choice(ms), rng.choice(VALS[1:])])
            # a key added twice would be a duplicate dict key: keep the last
            seen = {}
            for a, b, v in k:
                seen[(a, b)] = v
            k[:] = [[a, b, v] for (a, b), v in seen.items()]
        if not allow_diamond:
            repair()
    # feature files of the sources: none (mostly); the same text modulo comments/white space; an extra unused class in some
    # non-default master (incompatible TEXT, same tables: variable features must then NOT be built); only the default has features
    base_fea = "languagesystem DFLT dflt;\nlanguagesystem latn dflt;\n"
    for i, fd in enumerate(fonts):
        isd = locs[i] == dflt
        if fea_mode == "none":
            continue
        if fea_mode == "same" or isd:
            t = base_fea if isd else base_fea.replace("\n", rng.choice(["\n", "  \n", " # c%d\n" % i, "\n\n"]), 1) + rng.choice(["", "# end", "\n"])
        elif fea_mode == "extra-class":
            t = base_fea + ("@unused%d = [%s];\n" % (i, names[0]) if rng.random() < 0.7 else "")
        else:
            t = rng.choice(["", "# nothing", "#a"])       # NB "#a\n#b" normalises to " ", which the code does not treat as empty
        fd["features"] = t
    if fea_mode == "extra-class" and len({fd.get("features") for fd in fonts}) == 1:
        fonts[[i for i in range(nm) if locs[i] != dflt][0]]["features"] = base_fea + "@unusedX = [%s];\n" % names[0]
    kind_sets = [layout_kinds(k, groups_of[i], names, marks, categories) for i, k in enumerate(kernings)]
    merge_ok = all(ks == kind_sets[0] for ks in kind_sets)
    sources = [{"name": "m%d" % i, "font": i, "layer": None, "loc": locs[i]} for i in range(nm)]
    if sparse_inter:
        # a sparse master: a layer of one of the fonts holding a subset of the glyphs, at an intermediate location
        host = rng.randrange(nm)
        sub = [g for g in names if g not in (composite, scaled) and rng.random() < 0.6] or [names[0]]
        layer = []
        keep_anchors = rng.random() < 0.7
        for gd in fonts[host]["glyphs"]:
            if gd["name"] in sub:
                layer.append({"name": gd["name"], "width": gd["width"] + (0 if gd["name"] in marks else 8), "unicodes": [], "components": [],
                              "contours": [[[x + 8, y, t] for x, y, t in c] for c in gd["contours"]],
                              "anchors": [[n, x + 16, y + 8] for n, x, y in gd["anchors"]] if keep_anchors else []})
        fonts[host].setdefault("layers", {})["sparse"] = layer
        if fea_mode == "default-only" and locs[host] == dflt:
            # the sparse source shares the default's font, hence its feature text: "only the default has features" no longer holds
            for fd in fonts:
                fd["features"] = base_fea
            fea_mode = "same"
        l = dict(dflt)
        l["Weight"] = inter
        add_map_node(axes[0], inter, rng, allow_frac)
        sources.insert(rng.randrange(0, len(sources) + 1), {"name": "sp", "font": host, "layer": "sparse", "loc": l})
    vfs = None
    if multi and naxes == 2:
        a1 = axes[1]
        vfs = [{"name": "VF-all", "axes": [{"name": "Weight"}, {"name": "Width"}]},
               {"name": "VF-wght", "axes": [{"name": "Weight"}, {"name": "Width", "value": a1["default"]}]}]
        if rng.random() < 0.5:
            vfs.reverse()
    return {"axes": axes, "fonts": fonts, "sources": sources, "vfs": vfs, "lib": rng.choice(["ufoLib2", "ufoLib2", "defcon"]),
            "names": names, "marks": marks, "markAnchor": mark_anchor, "anchorNames": anchor_names, "exact": exact, "categories": categories,
            "scaled": scale_mode if scaled else None, "mergeOK": merge_ok, "feaMode": fea_mode, "diamonds": bool(allow_diamond and any(diamond_pairs(ugroups, [kernings[i] for i in sub], names) for sub in subsets)), "nogpos": nogpos,
            "ownGroups": bool(extra)}


def groups_differ(fam):
    """some full sources of the family do not carry the same kerning groups"""
    gs = [_canon(fam["fonts"][s["font"]]["groups"]) for s in fam["sources"] if s["layer"] is None]
    return len(set(gs)) > 1


def merge_ok(fam):
    """same kern lookup layout in every full master (recomputed from the family, so that shrunk cases stay honest)"""
    names, marks = fam["names"], fam["marks"]
    ks = [layout_kinds(fam["fonts"][s["font"]]["kerning"], fam["fonts"][s["font"]]["groups"], names, marks, fam["categories"])
          for s in fam["sources"] if s["layer"] is None]
    return all(k == ks[0] for k in ks) and fam.get("feaMode") != "default-only"


def gen_func_family(rng, mode):
    """families for the function-level stream only (never compiled): also OUTSIDE the contract - two full sources at one location,
    no full source at the default location, sources whose groups differ or overlap"""
    fam = gen_family(rng, mode, allow_diamond=True, exact=rng.random() < 0.5, allow_frac=True, own_groups=rng.random() < 0.3)
    ftags = []
    r = rng.random()
    full = [s for s in fam["sources"] if s["layer"] is None]
    if r < 0.15 and len(full) >= 2:
        a, b = rng.sample(full, 2)
        if not is_default(fam, b) or is_default(fam, a):
            b["loc"] = dict(a["loc"])
            ftags.append("dup-location")
    elif r < 0.3:
        # the only source at the default location is a sparse layer
        for s in fam["sources"]:
            if s["layer"] is None and is_default(fam, s):
                fd = fam["fonts"][s["font"]]
                fd.setdefault("layers", {})["dfl"] = [dict(g) for g in fd["glyphs"][:2]]
                s["layer"] = "dfl"
                ftags.append("no-full-default")
    elif r < 0.45:
        # a source whose groups differ (regrouped glyph / redefined group / overlapping groups)
        i = rng.randrange(len(fam["fonts"]))
        g = fam["fonts"][i]["groups"]
        names = fam["names"]
        if g:
            k = rng.choice(sorted(g))
            g[k] = g[k] + [rng.choice(names)]
        g["public.kern1.Extra"] = rng.sample(names, min(2, len(names)))
        ftags.append("groups-differ")
    fam["q"] = rng.choice([1, 1, 2, 5, 10])
    fam["ftags"] = ftags
    return fam


def gen_scalar(rng, mode):
    n = rng.choice([1, 2, 2, 3, 4])
    r = rng.random()
    v0 = rng.choice(VALS)
    if r < 0.4:
        vals = [v0] * n
    elif r < 0.6:
        vals = [v0] * n
        vals[rng.randrange(n)] = v0 + rng.choice([0.5, -0.5, 1, 0.25] if mode == "search" else [1, -1, 0.5, 10])
    else:
        vals = [rng.choice(VALS) for _ in range(n)]
    if rng.random() < 0.1:
        vals = [float(v) if rng.random() < 0.5 else v for v in vals]
    return [[[["wght", 100 * (i + 1)]] + ([["wdth", 100]] if rng.random() < 0.3 else []), v] for i, v in enumerate(vals)]


FEA_BITS = ["feature liga { sub f i by f_i; } liga;", "languagesystem DFLT dflt;", "# a comment", "#", " ", "\n", "\t", "\n\n", "  ",
            "@A = [a b];", "\r\n", " ", "\x1f", " ", "# Automatic Code", "lookup x { pos a b 10; } x;", "　", "\x0b", "\x85"]


def gen_texts(rng, mode):
    n = rng.choice([1, 2, 2, 3, 4])
    base = "".join(rng.choice(FEA_BITS) for _ in range(rng.choice([0, 1, 3, 6])))

    def variant(t):
        r = rng.random()
        if r < 0.3:
            return t
        if r < 0.55:
            # same modulo comments / whitespace
            out = []
            for ch in t:
                out.append(ch)
                if ch in " \n\t" and rng.random() < 0.5:
                    out.append(rng.choice([" ", "\n", "\t", "  ", "#c\n" if ch == "\n" else " "]))
            return "".join(out) + rng.choice(["", " ", "\n", "# trailing", "\n# trailing\n"])
        if r < 0.75:
            return rng.choice(["", " ", "\n", "# only a comment", "#x\n#y", None])
        if r < 0.85:
            return t.replace(";", " ;", 1) if ";" in t else t + "x"
        return "".join(rng.choice(FEA_BITS) for _ in range(rng.choice([1, 2, 4])))
    texts = [variant(base) for _ in range(n)]
    d = rng.randrange(n)
    if rng.random() < 0.6:
        texts[d] = base
    return {"texts": texts, "dflt": d}


CHAINS = [[], [1.0], [1.0], [0.5], [0.5, 1.0], [0.5, 1.0], [0.5, 0.75], [0.5, 0.75, 1.0], [0.5, 0.75, 0.875], [0.5, 0.75, 0.875, 1.0]]
INEXACT_CHAINS = [[0.25, 0.5, 1.0], [0.2, 0.6], [0.25, 0.75], [0.3, 0.5, 0.8, 1.0], [0.125, 0.5, 0.625]]


def gen_varmodel(rng, mode):
    exact = rng.random() < 0.75
    pos = list(rng.choice(CHAINS if exact else INEXACT_CHAINS))
    neg = [-x for x in rng.choice(CHAINS if exact else INEXACT_CHAINS)]
    if not pos and not neg:
        pos = [1.0]
    locs = [0.0] + pos + neg
    rng.shuffle(locs)
    values = [rng.choice([0, 10, -20, 100, 7, 33, 250, -4]) for _ in locs]
    at = [rng.choice([0, 0.25, 0.5, 0.75, 1, -0.5, -1, 0.125, -0.25, 0.625]) for _ in range(4)]
    return {"locs": locs, "values": values, "at": at, "exact": exact}


AXIS_NAMES = ["wght", "wdth", "opsz", "ital", "slnt", "XTRA", "GRAD"]
HALF_GRID = [-1.0, -0.5, 0.5, 1.0]
RICH_GRID = [-1.0, -0.75, -0.5, -0.25, -0.125, 0.125, 0.25, 0.375, 0.5, 0.625, 0.75, 0.875, 1.0]


def gen_varmodelN(rng, mode):
    """a 2-axis (sometimes 3-axis) master set: default, on-axis masters (extremes + intermediates), corners, intermediate
    masters inside the quadrants; random order; dict key order random; explicit zeros random.  `exact`: every coordinate in
    {0, +-1/2, +-1} (then all tent ratios are dyadic and VariationModel's double arithmetic is exact)."""
    r = rng.random()
    naxes = 3 if r < 0.25 else (1 if r < 0.3 else 2)
    axes = rng.sample(AXIS_NAMES, naxes)
    exact = rng.random() < 0.6
    grid = HALF_GRID if exact else RICH_GRID
    pts = set()
    for a in range(naxes):                                    # on-axis masters
        for v in rng.sample(grid, rng.randint(0, min(4, len(grid)))):
            pts.add(tuple(v if i == a else 0.0 for i in range(naxes)))
        if rng.random() < 0.7:
            pts.add(tuple(rng.choice([-1.0, 1.0]) if i == a else 0.0 for i in range(naxes)))
    for _ in range(rng.randint(0, 3)):                        # corners (of a face or of the cube)
        k = rng.randint(2, naxes) if naxes >= 2 else 1
        on = rng.sample(range(naxes), k)
        pts.add(tuple(rng.choice([-1.0, 1.0]) if i in on else 0.0 for i in range(naxes)))
    for _ in range(rng.choice([0, 1, 1, 2, 3, 5]) if mode == "normal" else rng.randint(2, 8)):     # intermediates off the axes
        k = rng.randint(2, naxes) if naxes >= 2 else 1
        on = rng.sample(range(naxes), k)
        pts.add(tuple(rng.choice(grid) if i in on else 0.0 for i in range(naxes)))
    if mode == "search" and naxes >= 2:                       # same-quadrant clusters: several masters narrow one box, ties of ratios
        sx, sy = rng.choice([-1, 1]), rng.choice([-1, 1])
        for _ in range(rng.randint(2, 5)):
            pts.add(tuple([sx * abs(rng.choice(grid)), sy * abs(rng.choice(grid))] + [0.0] * (naxes - 2)))
    pts.discard(tuple([0.0] * naxes))
    pts = sorted(pts)
    rng.shuffle(pts)
    pts = pts[:rng.randint(1, 12)]
    malformed = None
    r = rng.random()
    if r < 0.03:
        malformed = "nobase"
    else:
        pts.insert(rng.randrange(len(pts) + 1), tuple([0.0] * naxes))
        if r < 0.06:
            malformed = "unique"
    dense = rng.random() < 0.5                                # varLib passes every axis (explicit zeros); others pass sparse dicts
    locs = []
    for pt in pts:
        items = [[axes[i], pt[i]] for i in range(naxes) if dense or pt[i] != 0.0]
        rng.shuffle(items)
        locs.append(items)
    if malformed == "unique":
        d = [list(e) for e in rng.choice(locs)]
        rng.shuffle(d)
        locs.insert(rng.randrange(len(locs) + 1), d)
    ao = rng.choice([None, None, [], "full", "partial", "extra"])
    if ao == "full":
        ao = rng.sample(axes, naxes)
    elif ao == "partial":
        ao = rng.sample(axes, rng.randint(1, naxes))
    elif ao == "extra":
        ao = rng.sample(axes + ["ZZZZ"], rng.randint(1, naxes + 1))
    pool = [0, 10, -20, 100, 7, 33, 250, -4, 512, -96]
    if rng.random() < 0.4:                                    # anchors / kerning may be x.5, x.25: the rounding of deltas is visible
        pool = pool + [12.5, -7.5, 0.25, 33.75, -0.5, 101.5]
    values = [rng.choice(pool) for _ in locs]
    atgrid = [-1.0, -0.75, -0.5, -0.25, 0.0, 0.125, 0.25, 0.5, 0.625, 0.75, 1.0]
    at = []
    for _ in range(4):
        items = [[a, rng.choice(atgrid)] for a in axes if rng.random() < 0.85]
        rng.shuffle(items)
        at.append(items)
    return {"n": True, "locs": locs, "axisOrder": ao, "values": values, "at": at, "exact": exact, "malformed": malformed}


# ------------------------------------------------------------------ serialisation of implementation values

def _side(s):
    return ["g", s] if isinstance(s, str) else ["c", list(s)]


def _loc(l):
    return [[t, rat(v)] for t, v in l]


def _value(v):
    if isinstance(getattr(v, "values", None), dict):
        return [[_loc(l), rat(x)] for l, x in v.values.items()]
    return rat(v)


def _axes_in(fam):
    return [{"name": a["name"], "tag": a["tag"], "default": rat(a["default"]), "map": [[rat(u), rat(d)] for u, d in a["map"]]}
            for a in fam["axes"]]


def _dloc(src):
    return [[k, rat(v)] for k, v in src["loc"].items()]


# ------------------------------------------------------------------ function-level runs

def run_collapse(case):
    from fontTools.feaLib.variableScalar import Location, VariableScalar
    from ufo2ft.util import collapse_varscalar
    out = []
    for sc in case["items"]:
        vs = VariableScalar()
        for loc, v in sc:
            vs.values[Location(dict(loc))] = v
        r = collapse_varscalar(vs)
        eq = len({v for _, v in sc}) == 1
        out.append({"op": "collapse", "in": [[_loc(sorted(map(tuple, loc))), rat(v)] for loc, v in sc], "obs": _value(r),
                    "tags": ["op:collapse", "collapse:equal" if eq else "collapse:differ", "entries:%d" % len(sc)], "nontrivial": len(sc) > 1})
    return out


def run_compat(case):
    from types import SimpleNamespace
    from fontTools.designspaceLib import SourceDescriptor
    from ufo2ft.featureCompiler import _featuresCompatible
    out = []
    for it in case["items"]:
        srcs = []
        for i, t in enumerate(it["texts"]):
            sd = SourceDescriptor()
            sd.name = "s%d" % i
            sd.font = SimpleNamespace(features=SimpleNamespace(text=t))
            srcs.append(sd)
        doc = SimpleNamespace(sources=srcs, default=srcs[it["dflt"]])
        try:
            obs = bool(_featuresCompatible(doc))
        except Exception as e:
            obs = err_kind(e)
        out.append({"op": "compat", "in": {"texts": [t or "" for t in it["texts"]], "dflt": it["dflt"]}, "obs": obs,
                    "tags": ["op:compat", "compat:%s" % obs, "sources:%d" % len(srcs)], "nontrivial": len(srcs) > 1})
    return out


def _nloc(d):
    return [[a, rat(v)] for a, v in d.items()]


def _vm_err(e):
    msg = str(e)
    if "must be unique" in msg:
        return "unique"
    if "Base master not found" in msg:
        return "nobase"
    return err_kind(e) + ":" + msg[:60]


def run_varmodelN(it):
    """n-axis VariationModel: the real class on doubles (as varLib uses it) and - the same code - on fractions.Fraction, where
    the sort and the box narrowing (`ratio == bestRatio`) are exact.  order/supports are compared with the double run whenever it
    takes the same decisions as the Fraction run (always on the half grid); otherwise (a tie of ratios that doubles do not see,
    tag float-tie) with the Fraction run."""
    from fractions import Fraction
    from fontTools.varLib.models import VariationModel
    locs = [dict((a, float(v)) for a, v in l) for l in it["locs"]]
    ats = [dict((a, float(v)) for a, v in l) for l in it["at"]]
    ao = it["axisOrder"]
    tags = ["op:varmodel", "varmodel:n-axis", "varmodel:exact" if it["exact"] else "varmodel:inexact", "masters:%d" % len(locs),
            "axes:%d" % len({a for l in locs for a in l}), "axisOrder:%s" % ("none" if ao is None else len(ao))]
    inp = {"nlocs": [_nloc(l) for l in locs], "axisOrder": list(ao or []), "values": [rat(v) for v in it["values"]],
           "at": [_nloc(l) for l in ats], "tol": rat(0) if it["exact"] else "1/1000000000"}

    def observe(m, floatm):
        from fontTools.misc.roundTools import otRound
        deltas = floatm.getDeltas(it["values"])
        rdeltas = floatm.getDeltas(it["values"], round=otRound)
        return {"order": [_nloc(l) for l in m.locations],
                "supports": [[[a, [rat(x) for x in t]] for a, t in s.items()] for s in m.supports],
                "reverseMapping": list(m.reverseMapping),
                "deltas": [rat(d) for d in deltas],
                "interp": [rat(floatm.interpolateFromDeltas(x, deltas)) for x in ats],
                "atMasters": [rat(floatm.interpolateFromDeltas(x, deltas)) for x in locs],
                "fromMasters": [rat(floatm.interpolateFromMasters(x, it["values"])) for x in locs],
                "roundedDeltas": [rat(d) for d in rdeltas],
                "roundedAtMasters": [rat(floatm.interpolateFromDeltas(x, rdeltas)) for x in locs]}
    try:
        m = VariationModel(locs, axisOrder=ao)
        obs = observe(m, m)
        if not it["exact"]:
            mf = VariationModel([dict((a, Fraction(v)) for a, v in l.items()) for l in locs], axisOrder=ao)
            of = observe(mf, m)
            if (of["order"], of["supports"], of["reverseMapping"]) != (obs["order"], obs["supports"], obs["reverseMapping"]):
                tags.append("float-tie")
                m2 = VariationModel(locs, axisOrder=ao)       # the double model, forced to the exact decisions, for the numbers
                m2.locations, m2.supports = [dict((a, float(v)) for a, v in l.items()) for l in mf.locations], \
                    [dict((a, tuple(float(x) for x in t)) for a, t in s.items()) for s in mf.supports]
                m2.mapping, m2.reverseMapping = list(mf.mapping), list(mf.reverseMapping)
                m2._computeDeltaWeights()
                obs = observe(mf, m2)
        inside = [sum(1 for v in l.values() if v != 0) for l in locs]
        if any(k >= 2 for k in inside):
            tags.append("off-axis-masters")
        if any(k >= 2 and any(abs(v) not in (0.0, 1.0) for v in l.values()) for k, l in zip(inside, locs)):
            tags.append("intermediate-master")
    except Exception as e:
        obs = {"err": _vm_err(e)}
    tags.append("err:%s" % obs.get("err"))
    return {"op": "varmodel", "in": inp, "obs": obs, "exact": it["exact"], "tags": tags,
            "nontrivial": "err" not in obs and len(locs) >= 4 and "off-axis-masters" in tags}


def run_varmodel(case):
    from fontTools.varLib.models import VariationModel
    out = []
    for it in case["items"]:
        if it.get("n"):
            out.append(run_varmodelN(it))
            continue
        m = VariationModel([{"wght": l} for l in it["locs"]])
        deltas = m.getDeltas(it["values"])
        obs = {"order": [rat(l.get("wght", 0.0)) for l in m.locations],
               "supports": [None if not s else [rat(x) for x in s["wght"]] for s in m.supports],
               "deltas": [rat(d) for d in deltas],
               "interp": [rat(m.interpolateFromMasters({"wght": x}, it["values"])) for x in it["at"]],
               "atMasters": [rat(m.interpolateFromMasters({"wght": x}, it["values"])) for x in it["locs"]]}
        out.append({"op": "varmodel", "in": {"locs": [rat(x) for x in it["locs"]], "values": [rat(v) for v in it["values"]],
                                             "at": [rat(x) for x in it["at"]]}, "obs": obs, "exact": it["exact"],
                    "tags": ["op:varmodel", "varmodel:exact" if it["exact"] else "varmodel:inexact", "masters:%d" % len(it["locs"])],
                    "nontrivial": len(it["locs"]) >= 3})
    return out


def func_requests(fam, q, tags):
    """direct calls of the anchored functions on the family's designspace"""
    from types import SimpleNamespace
    from ufo2ft.featureWriters import BaseFeatureWriter, KernFeatureWriter
    from ufo2ft.util import get_userspace_location
    reqs = []
    ds = make_designspace(fam)
    dflt = ds.findDefault()
    names = fam["names"]
    glyphSet = {g: None for g in names}
    # --- getKerningGroups over all sources (C05's model on the concatenated group dicts)
    w = KernFeatureWriter()
    w.context = SimpleNamespace(font=ds, glyphSet=glyphSet, isVariable=True)
    s1, s2 = w.getKerningGroups()
    allgroups = [[k, list(v)] for s in ds.sources for k, v in s.font.groups.items()]
    reqs.append({"op": "groups", "in": {"glyphSet": names, "groups": allgroups},
                 "obs": {"side1": [[k, list(v)] for k, v in s1.items()], "side2": [[k, list(v)] for k, v in s2.items()]},
                 "tags": tags + ["op:groups"], "nontrivial": False})
    # --- user-space locations
    for src, sd in zip(fam["sources"], ds.sources):
        obs = sorted(get_userspace_location(ds, sd.location).items())
        reqs.append({"op": "userloc", "in": {"axes": _axes_in(fam), "dloc": _dloc(src)}, "obs": _loc(obs),
                     "tags": tags + ["op:userloc"] + (["axis-map"] if any(a["map"] for a in fam["axes"]) else []), "nontrivial": False})
    # --- getVariableKerningPairs
    srcs_in = [{"dloc": _dloc(s), "sparse": s["layer"] is not None,
                "kerning": [[a, b, rat(v)] for a, b, v in fam["fonts"][s["font"]]["kerning"]]} for s in fam["sources"]]
    ddl = dflt.location if dflt is not None else default_design_loc(fam)
    inp = {"axes": _axes_in(fam), "side1Classes": [[k, list(v)] for k, v in s1.items()], "side2Classes": [[k, list(v)] for k, v in s2.items()],
           "glyphSet": names, "q": rat(q), "sources": srcs_in, "defaultDloc": [[k, rat(v)] for k, v in ddl.items()]}
    try:
        pairs = KernFeatureWriter.getVariableKerningPairs(ds, s1, s2, glyphSet, SimpleNamespace(quantization=q))
        obs = {"err": None, "pairs": sorted(([_side(p.side1), _side(p.side2), _value(p.value)] for p in pairs), key=json.dumps)}
    except Exception as e:
        obs = {"err": err_kind(e)}
    kerns = [fam["fonts"][s["font"]]["kerning"] for s in fam["sources"] if s["layer"] is None]
    union = {(a, b) for k in kerns for a, b, _ in k}
    partial = any(any((a, b) not in {(x, y) for x, y, _ in k} for k in kerns) for a, b in union)
    chain = any(a.startswith("public.kern1.") and b.startswith("public.kern2.") for a, b in union) and \
        any(not a.startswith("public.") or not b.startswith("public.") for a, b in union)
    sparse = any(s["layer"] is not None for s in fam["sources"])
    nontriv = (partial and chain) or sparse
    ps = obs.get("pairs") or []
    reqs.append({"op": "kernpairs", "in": inp, "obs": obs, "nontrivial": nontriv,
                 "tags": tags + ["op:kernpairs", "masters:%d" % len(kerns), "axes:%d" % len(fam["axes"]), "q:%s" % q] +
                 (["partial-keys"] if partial else []) + (["exception-chain"] if chain else []) + (["sparse-source"] if sparse else []) +
                 (["var-values"] if any(isinstance(p[2], list) for p in ps) else []) +
                 (["collapsed-values"] if any(not isinstance(p[2], list) for p in ps) else []) +
                 (["own-groups"] if groups_differ(fam) else []) +
                 (["invalid-keys"] if any(a not in names and a not in s1 or b not in names and b not in s2 for a, b in union) else [])})
    # --- variable anchors
    layers, queries = [], []
    for s in fam["sources"]:
        fd = fam["fonts"][s["font"]]
        gl = fd["glyphs"] if s["layer"] is None else fd["layers"][s["layer"]]
        layers.append({"dloc": _dloc(s), "glyphs": [[g["name"], [[a[0], rat(a[1]), rat(a[2])] for a in g.get("anchors", [])]] for g in gl]})
    anames = sorted({a[0] for fd in fam["fonts"] for g in fd["glyphs"] for a in g.get("anchors", [])} | {"nosuch"})
    for g in names + ["nosuchglyph"]:
        for a in anames:
            queries.append([g, a])
    bw = BaseFeatureWriter()
    bw.context = SimpleNamespace(font=ds, isVariable=True)
    obs = []
    for g, a in queries:
        r = bw._getAnchor(g, a)
        obs.append(None if r is None else [_value(r[0]), _value(r[1])])
    reqs.append({"op": "anchor", "in": {"axes": _axes_in(fam), "layers": layers, "queries": queries}, "obs": obs,
                 "nontrivial": sparse or any(o is not None and (isinstance(o[0], list) or isinstance(o[1], list)) for o in obs),
                 "tags": tags + ["op:anchor"] + (["anchor-in-sparse-layer"] if any(s["layer"] is not None and any(g[1] for g in ly["glyphs"])
                                                                                 for s, ly in zip(fam["sources"], layers)) else [])})
    return reqs


# ------------------------------------------------------------------ end to end

def _writers_lib(q):
    return [{"class": "CursFeatureWriter"}, {"class": "KernFeatureWriter", "options": {"quantization": q}},
            {"class": "MarkFeatureWriter"}, {"class": "GdefFeatureWriter"}]


def scalars_integral(locations):
    """True if every support scalar of VariationModel(locations), evaluated at every master location, is 0 or 1 - then integer
    deltas reproduce integer master values exactly"""
    from fontTools.varLib.models import VariationModel, supportScalar
    m = VariationModel(locations)
    for loc in m.locations:
        for sup in m.supports:
            if supportScalar(loc, sup) not in (0.0, 1.0):
                return False
    return True


def observe_master(inst, names, marks, mark_anchor, master_tt):
    import gpos
    kern, mk, outl = [], [], []
    order = set(inst.getGlyphOrder())
    lk, mlk = None, []
    if "GPOS" in inst:
        for script in ("latn", "DFLT"):
            lk = gpos.lookups_for(inst, script, "dflt", {"kern"})
            if lk is not None:
                break
        mlk = gpos.lookups_for(inst, "DFLT", "dflt", {"mark", "mkmk"}) or []
    for g1 in names:
        for g2 in names:
            if lk is not None and g1 in order and g2 in order:
                a = gpos.pair_adjust(inst, lk, g1, g2)
                if a[1] or a[2] or a[3]:
                    kern.append([g1, g2, "999999"])
                elif a[0]:
                    kern.append([g1, g2, rat(a[0])])
    for b in names:
        for m in marks:
            if b != m:
                off = gpos.mark_attach(inst, mlk, b, m)[0] if mlk else None
                mk.append([b, m, mark_anchor[m], None if off is None else [rat(off[0]), rat(off[1])]])
    for g in names:
        if g in order:
            pa, pb = glyph_points(inst, g), glyph_points(master_tt, g)
            a = [x for op in pa for x in op[1:] if not isinstance(x, str)]
            b = [x for op in pb for x in op[1:] if not isinstance(x, str)]
            if [op[0] for op in pa] != [op[0] for op in pb]:
                a = a + [1e6]          # different drawing structure: force a mismatch
            outl.append([g, [rat(x) for x in a] + [rat(inst["hmtx"][g][0])], [rat(x) for x in b] + [rat(master_tt["hmtx"][g][0])]])
    return kern, mk, outl


def run_family(case):
    import copy
    import ufo2ft
    from fontTools.designspaceLib.split import splitVariableFonts
    from fontTools.ttLib import TTFont
    from fontTools.varLib.instancer import instantiateVariableFont
    from fontTools.varLib.models import normalizeLocation
    quiet()
    fam, fmt, q = case["fam"], case["fmt"], case["q"]
    base_tags = [fmt, fam["lib"], "axes:%d" % len(fam["axes"]), "exact" if fam["exact"] else "fractional-scalars"] + \
        (["multi-vf"] if fam["vfs"] else []) + (["sparse-master"] if any(s["layer"] for s in fam["sources"]) else []) + \
        (["axis-map"] if any(a["map"] for a in fam["axes"]) else []) + (["categories"] if fam["categories"] else []) + \
        (["scaled-component:%s" % fam["scaled"]] if fam.get("scaled") else []) + (["own-groups"] if groups_differ(fam) else [])
    reqs = func_requests(fam, q, ["family-stream"])
    fam2 = copy.deepcopy(fam)
    if q != 1:
        for fd in fam2["fonts"]:
            fd.setdefault("lib", {})[WRITERS_KEY] = _writers_lib(q)
    # interpolatable masters (one TTFont per source)
    try:
        dsm = make_designspace(fam2)
        if fmt == "ttf":
            mds = ufo2ft.compileInterpolatableTTFsFromDS(dsm)
        else:
            mds = ufo2ft.compileInterpolatableOTFsFromDS(dsm)
        # saved and re-read: what the files hold (in memory, coordinates are still unrounded floats)
        master_tt = {s.name: TTFont(io.BytesIO(reload(s.font))) for s in mds.sources}
        merr = None
    except Exception as e:
        master_tt, merr = {}, err_kind(e)
    # incompatible feature TEXTS send even variableFeatures=True down the per-master + merge path, which needs equal lookup layouts
    modes = ([True] if fam.get("feaMode") != "extra-class" or merge_ok(fam) else []) + ([False] if merge_ok(fam) or fam["nogpos"] else [])
    names, marks = fam["names"], fam["marks"]
    src_by_name = {s["name"]: s for s in fam["sources"]}
    for vfmode in modes:
        tags = base_tags + ["variableFeatures:%s" % vfmode]
        err, fonts = merr, {}
        ds = make_designspace(fam2)
        from unittest import mock
        from ufo2ft._compilers.baseCompiler import BaseInterpolatableCompiler as BaseCompiler
        calls = []
        orig = BaseCompiler.compile_all_variable_features

        def spy(self, *a, **k):
            calls.append(1)
            return orig(self, *a, **k)
        if err is None:
            try:
              with mock.patch.object(BaseCompiler, "compile_all_variable_features", spy):
                if fam["vfs"]:
                    comp = ufo2ft.compileVariableTTFs if fmt == "ttf" else ufo2ft.compileVariableCFF2s
                    fonts = comp(ds, variableFeatures=vfmode)
                else:
                    comp = ufo2ft.compileVariableTTF if fmt == "ttf" else ufo2ft.compileVariableCFF2
                    fonts = {None: comp(ds, variableFeatures=vfmode)}
                fonts = {k: reload(v) for k, v in fonts.items()}
              # which layout path was taken (baseCompiler._compileNeededSources): variable features iff requested and compatible
              texts = [fam2["fonts"][x["font"]].get("features") or "" for x in fam2["sources"]]
              dix = [j for j, x in enumerate(fam2["sources"]) if is_default(fam2, x)][0]
              reqs.append({"op": "compatpath", "in": {"texts": texts, "dflt": dix, "variableFeatures": vfmode}, "obs": bool(calls),
                           "nontrivial": len(set(texts)) > 1,
                           "tags": tags + ["op:compatpath", "fea:%s" % fam.get("feaMode"), "variable-features-built:%s" % bool(calls)]})
            except Exception as e:
                err = err_kind(e) + ":" + str(e).strip().splitlines()[0][:80] if str(e).strip() else err_kind(e)
        ds2 = make_designspace(fam2)
        vfdocs = list(splitVariableFonts(ds2)) if fam["vfs"] else [(None, ds2)]
        for vfname, vfdoc in vfdocs:
            vf_axes = [a for a in fam["axes"] if any(x.name == a["name"] for x in vfdoc.axes)]
            vf_src = [src_by_name[s.name] for s in vfdoc.sources]
            # exactness of integer deltas at master locations, for the models varLib / feaLib build (all sources; full sources only)
            def nloc(s):
                return normalizeLocation({a["name"]: s["loc"].get(a["name"], a["ddef"]) for a in vf_axes},
                                         {a["name"]: (a["dmin"], a["ddef"], a["dmax"]) for a in vf_axes})
            try:
                integral = scalars_integral([nloc(s) for s in vf_src]) and scalars_integral([nloc(s) for s in vf_src if s["layer"] is None])
            except Exception:
                integral = False
            # classes as the variable kern writer computes them for this VF (all of its sources)
            from types import SimpleNamespace
            from ufo2ft.featureWriters import KernFeatureWriter
            kw = KernFeatureWriter()
            kw.context = SimpleNamespace(font=vfdoc, glyphSet={g: None for g in names}, isVariable=True)
            c1, c2 = kw.getKerningGroups()
            dsrc = vfdoc.findDefault()
            var_in = {"axes": [a for a in _axes_in(fam) if any(x["name"] == a["name"] for x in vf_axes)],
                      "side1Classes": [[k, list(v)] for k, v in c1.items()], "side2Classes": [[k, list(v)] for k, v in c2.items()],
                      "glyphSet": names,
                      "allGroups": [[k, list(v)] for x in vf_src for k, v in fam["fonts"][x["font"]]["groups"].items()],
                      "sources": [{"dloc": _dloc(x), "sparse": x["layer"] is not None,
                                   "kerning": [[a, b, rat(v)] for a, b, v in fam["fonts"][x["font"]]["kerning"]]} for x in vf_src],
                      "defaultDloc": [[k, rat(v)] for k, v in (dsrc.location if dsrc is not None else default_design_loc(fam)).items()],
                      "texts": [fam2["fonts"][x["font"]].get("features") or "" for x in fam2["sources"]],
                      "dflt": [j for j, x in enumerate(fam2["sources"]) if is_default(fam2, x)][0]}
            dfd = fam["fonts"][src_by_name[dsrc.name]["font"]] if dsrc is not None else None
            merge_no_gpos = dfd is not None and not dfd["kerning"] and not any(g["anchors"] for g in dfd["glyphs"])
            for s in vf_src:
                if s["layer"] is not None:
                    continue
                i = s["font"]
                fd = fam["fonts"][i]
                uloc = {a["tag"]: map_backward(a, s["loc"].get(a["name"], a["ddef"])) for a in vf_axes}
                inp = {"glyphs": names, "groups": [[k, v] for k, v in fd["groups"].items()],
                       "kerning": [[a, b, rat(v)] for a, b, v in fd["kerning"]], "q": rat(q), "tol": rat(0 if integral else 1),
                       "anchors": [[g["name"], [[a[0], rat(a[1]), rat(a[2])] for a in g["anchors"]]] for g in fd["glyphs"]],
                       "var": dict(var_in, masterDloc=_dloc(s)) if vfmode else None,
                       "diag": {"variableFeatures": vfmode, "vf": vfname, "master": s["name"], "uloc": sorted(uloc.items()),
                                "mergeNoGpos": bool(merge_no_gpos and not vfmode), "vfSources": [x["name"] for x in vf_src]}}
                obs = {"err": err}
                if err is None:
                    try:
                        inst = instantiateVariableFont(TTFont(io.BytesIO(fonts[vfname])), uloc)
                        inst = TTFont(io.BytesIO(reload(inst)))
                        kern, mk, outl = observe_master(inst, names, marks, fam["markAnchor"], master_tt[s["name"]])
                        obs.update({"kern": kern, "marks": mk, "outlines": outl, "hasGPOS": "GPOS" in inst})
                    except Exception as e:
                        obs = {"err": "observe:" + err_kind(e) + ":" + str(e)[:80]}
                kerns = [fam["fonts"][x["font"]]["kerning"] for x in vf_src if x["layer"] is None]
                union = {(a, b) for k in kerns for a, b, _ in k}
                partial = any((a, b) not in {(x, y) for x, y, _ in fd["kerning"]} for a, b in union)
                chain = any(a.startswith("public.kern1.") and b.startswith("public.kern2.") for a, b in union) and \
                    any(not a.startswith("public.") or not b.startswith("public.") for a, b in union)
                reqs.append({"op": "master", "in": inp, "obs": obs,
                             "nontrivial": (partial and chain) or any(x["layer"] for x in vf_src),
                             "tags": tags + ["op:master", "err:%s" % (obs.get("err") and obs["err"].split(":")[0]), "tol:%d" % (0 if integral else 1)] +
                             (["master-lacks-keys"] if partial else []) + (["default-master"] if is_default(fam, s) else ["non-default-master"]) +
                             (["kern-observed"] if obs.get("kern") else []) + (["marks-observed"] if obs.get("marks") else []) +
                             (["master-has-group-default-lacks"] if dfd is not None and set(fd["groups"]) - set(dfd["groups"]) else []) +
                             (["master-lacks-group-of-family"] if any(set(fam["fonts"][x["font"]]["groups"]) - set(fd["groups"])
                                                                      for x in vf_src if x["layer"] is None) else [])})
    return reqs


# ------------------------------------------------------------------ comparison, shrinking, classification

def _canon(x):
    return json.dumps(x, sort_keys=True, separators=(",", ":"))


def agree(req, rep):
    from fractions import Fraction
    m, o, op = rep["model"], req["obs"], req["op"]
    if op == "kernpairs":
        if o.get("err") is not None:
            return False
        return sorted(m["pairs"], key=json.dumps) == o["pairs"]
    if op == "groups":
        return m == o
    if op == "master":
        # implementation vs the MODEL's prediction (variable features: first-match over the modelled getVariableKerningPairs
        # output at the master's location; merge path: the master's own kerning); `holds` compares with the property instead
        if o.get("err") is not None:
            return False
        if m.get("abstain"):
            return not (rep.get("info") or {}).get("outlines")
        tol = Fraction(req["in"]["tol"])
        ok = lambda a, b: abs(Fraction(a) - Fraction(b)) <= tol
        mk_, ok_ = {(a, b): v for a, b, v in m["kern"]}, {(a, b): v for a, b, v in o["kern"]}
        if not all(ok(mk_.get(k, 0), ok_.get(k, 0)) for k in set(mk_) | set(ok_)):
            return False
        if len(m["marks"]) != len(o["marks"]):
            return False
        for a, b in zip(m["marks"], o["marks"]):
            if a[:3] != b[:3] or (a[3] is None) != (b[3] is None):
                return False
            if a[3] is not None and not (ok(a[3][0], b[3][0]) and ok(a[3][1], b[3][1])):
                return False
        return not (rep.get("info") or {}).get("outlines")
    if op == "varmodel" and "nlocs" in req["in"]:
        if "err" in m or "err" in o:
            return m.get("err") == o.get("err")
        cl = lambda l: sorted((a, Fraction(v)) for a, v in l if Fraction(v) != 0)
        cr = lambda r: sorted((a, tuple(Fraction(x) for x in t)) for a, t in r)
        if [cl(l) for l in m["order"]] != [cl(l) for l in o["order"]]:
            return False
        if [cr(r) for r in m["supports"]] != [cr(r) for r in o["supports"]] or m["reverseMapping"] != o["reverseMapping"]:
            return False
        tol = Fraction(req["in"]["tol"])
        close = lambda a, b: len(a) == len(b) and all(abs(Fraction(x) - Fraction(y)) <= tol for x, y in zip(a, b))
        if not (close(m["deltas"], o["deltas"]) and close(m["interp"], o["interp"]) and close(m["atMasters"], o["atMasters"])
                and close(m["atMasters"], o["fromMasters"])):
            return False
        # getDeltas(values, round=otRound): integers, compared exactly (on the half grid doubles are exact; elsewhere a value
        # within 1e-9 of x.5 may round the other way in doubles - then the integer lists legitimately differ and only the
        # numbers read back are compared, within 1)
        if tol == 0 or m["roundedDeltas"] == o["roundedDeltas"]:
            return m["roundedDeltas"] == o["roundedDeltas"] and close(m["roundedAtMasters"], o["roundedAtMasters"])
        near = lambda a, b: len(a) == len(b) and all(abs(Fraction(x) - Fraction(y)) <= 1 for x, y in zip(a, b))
        return near(m["roundedAtMasters"], o["roundedAtMasters"])
    if op == "varmodel":
        if m["order"] != o["order"] or m["supports"] != o["supports"]:
            return False
        if req.get("exact", True):
            return m == o
        close = lambda a, b: len(a) == len(b) and all(abs(Fraction(x) - Fraction(y)) < Fraction(1, 10 ** 9) for x, y in zip(a, b))
        return close(m["deltas"], o["deltas"]) and close(m["interp"], o["interp"]) and close(m["atMasters"], o["atMasters"])
    return _canon(m) == _canon(o)


def shrink(case):
    import copy
    if case["kind"] in ("collapse", "compat", "varmodel"):
        for it in case["items"]:
            yield {"kind": case["kind"], "items": [it]}
        return
    fam = case["fam"]
    for i, fd in enumerate(fam["fonts"]):
        for j in range(len(fd["kerning"])):
            c = copy.deepcopy(case)
            del c["fam"]["fonts"][i]["kerning"][j]
            yield c
    for k in list(fam["fonts"][0]["groups"]):
        c = copy.deepcopy(case)
        for fd in c["fam"]["fonts"]:
            fd["groups"].pop(k, None)
        yield c
    dd = default_design_loc(fam)
    for si, s in enumerate(fam["sources"]):
        if not is_default(fam, s) and len(fam["sources"]) > 2:
            rest = [x for j, x in enumerate(fam["sources"]) if j != si and x["layer"] is None]
            # every axis must keep a full master away from the default (otherwise the designspace is degenerate)
            if all(any(x["loc"].get(a["name"], dd[a["name"]]) != dd[a["name"]] for x in rest) for a in fam["axes"]):
                c = copy.deepcopy(case)
                del c["fam"]["sources"][si]
                yield c
    if case.get("q", 1) != 1:
        c = copy.deepcopy(case); c["q"] = 1; yield c


def _has_fractional_user_loc(fam, names):
    return any(v != int(v) for s in fam["sources"] if s["name"] in names for v in user_loc(fam, s).values())


_TRUNC_CACHE = {}


def _holds_when_truncated(case, diag):
    """does the failing master check hold once every user-space master coordinate is truncated to an integer (what the feature-file
    text does to it: '%i'), everything else unchanged?  Mapped axes: the map's user values are truncated; unmapped axes (design =
    user): the source's own coordinate is truncated."""
    import copy
    import importlib
    import core
    key = _canon(case)
    if key not in _TRUNC_CACHE:
        c = copy.deepcopy(case)
        fam = c["fam"]
        for a in fam["axes"]:
            if a["map"]:
                for m in a["map"]:
                    m[0] = int(m[0])
                if len({m[0] for m in a["map"]}) != len(a["map"]):
                    _TRUNC_CACHE[key] = None
                    break
                for k in ("min", "default", "max"):
                    a[k] = int(a[k])
            else:
                for s_ in fam["sources"]:
                    if a["name"] in s_["loc"]:
                        s_["loc"][a["name"]] = int(s_["loc"][a["name"]])
        else:
            try:
                rs, _ = core.evaluate(importlib.import_module("props.C10"), [c], jobs=1)
                _TRUNC_CACHE[key] = {(x["req"]["in"]["diag"]["vf"], x["req"]["in"]["diag"]["master"], x["req"]["in"]["diag"]["variableFeatures"]):
                                     bool(x["holds"]) for x in rs if x["req"]["op"] == "master"}
            except Exception:
                _TRUNC_CACHE[key] = None
    t = _TRUNC_CACHE[key]
    return bool(t) and t.get((diag["vf"], diag["master"], True)) is True


def classify_failure(res):
    """Two shapes of genuine failures of the unchanged code (see the report / harness/findings_C10.json):

    "variable-kern-diamond" (variableFeatures=True only): at a full master M the glyph pair (g1, g2) gets a value different from M's UFO
      kerning where: some OTHER source has the glyph-class key (g1, G2) [G2 = g2's second-side group], M does not, no source has the
      glyph-glyph key (g1, g2), and M has the class-glyph key (G1, g2) [G1 = g1's first-side group].  getVariableKerningPairs fills in
      for (g1, G2) at M the value lookupKerningValue gives THAT KEY (its class-class fallback or 0), and the emitted glyph-class rule
      shadows the class-glyph rule that UFO semantics would apply at M.  The observed value must be exactly that fallback.
    "merge-default-without-gpos" (variableFeatures=False only): the default source has neither kerning nor anchors (so its master has no
      GPOS table); varLib's merger then builds no GPOS at all and every other master's kerning is silently lost: the instance has no
      GPOS table and the failing pairs all read 0.
    "variable-features-fractional-location" (variableFeatures=True only): some master of the variable font sits at a user-space location
      with a NON-INTEGER coordinate (wdth=87.5, or wght=643.75 through an axis map).  ufo2ft hands the variable feature file to feaLib
      as TEXT; the variable-scalar syntax has integer axis values only and VariableScalar prints them with '%i', so kerning and anchor
      values are attached at the truncated location (87 / 643) and are merely interpolated at the real master location.  Recognised by
      re-running the same family with every user-space master coordinate truncated to an integer: the failing check must then hold."""
    from fractions import Fraction
    import math
    r = res["req"]
    if r["op"] != "master" or r["obs"].get("err") is not None:
        return None
    info = res.get("info") or {}
    inp, fam = r["in"], r["case"]["fam"]
    diag = inp["diag"]
    if diag["variableFeatures"] and not info.get("outlines") and _has_fractional_user_loc(fam, diag["vfSources"]):
        return {"kind": "variable-features-fractional-location"} if _holds_when_truncated(r["case"], diag) else None
    if info.get("marks") or info.get("outlines") or not info.get("kern"):
        return None
    groups = {k: v for k, v in inp["groups"]}
    q = Fraction(inp["q"])
    qz = lambda v: q * math.floor(Fraction(v) / q + Fraction(1, 2))
    applied = {(a, b): Fraction(v) for a, b, v in r["obs"]["kern"]}
    src_by_name = {s["name"]: s for s in fam["sources"]}
    me = src_by_name[diag["master"]]
    if diag["variableFeatures"]:
        full = [s for s in fam["sources"] if s["layer"] is None and s["name"] in diag["vfSources"]]
        kernings = [fam["fonts"][s["font"]]["kerning"] for s in full]
        mi = full.index(me)
        dia = {(g1, g2) for g1, g2, i in diamond_pairs(groups, kernings, inp["glyphs"]) if i == mi}
        mine = {(a, b): v for a, b, v in kernings[mi]}
        for g1, g2 in info["kern"]:
            if (g1, g2) not in dia:
                return None
            G1, G2 = _grp(groups, "public.kern1.", g1), _grp(groups, "public.kern2.", g2)
            if applied.get((g1, g2), Fraction(0)) != qz(mine.get((G1, G2), 0)):
                return None
        return {"kind": "variable-kern-diamond"}
    else:
        dsrc = [s for s in fam["sources"] if s["layer"] is None and is_default(fam, s) and s["name"] in diag["vfSources"]]
        if not dsrc:
            return None
        dfd = fam["fonts"][dsrc[0]["font"]]
        if dfd["kerning"] or any(g["anchors"] for g in dfd["glyphs"]) or r["obs"].get("hasGPOS"):
            return None
        if any(applied.get((g1, g2), Fraction(0)) != 0 for g1, g2 in info["kern"]):
            return None
        return {"kind": "merge-default-without-gpos"}
