"""C09 helpers: families of masters, in-memory designspaces, running the interpolatable compilers, observation."""
import copy
import json
import os

from gen import MATS, outline_font
from ufo import build, err_kind, rat

ROOT = os.path.dirname(os.path.dirname(os.path.abspath(__file__)))
GNAMES = ["A", "B", "C", "D", "E", "F", "G", "H", "I", "J", "K", "L"]
INFO = {"familyName": "Fam", "ascender": 800, "descender": -200, "xHeight": 500, "capHeight": 700}
# 2x2 matrices by determinant sign (all F2Dot14-exact, dyadic)
POS = ["id", "rot90", "rot180", "half", "shear", "shear2", "sc15", "nonuni"]
NEG = ["mirrorx", "mirrory", "swap", "mirrorshear"]
SIGN_FINDING = "C09-component-flipped-in-one-master"
STUB_FINDING = "C09-plain-sparse-layer-gets-stub-notdef"
OVERFLOW_FINDING = "C09-overflowing-transform-decomposed-against-placeholder"
CLOSING_FINDING = "C09-cff-zero-length-closing-line"


def finding_listed(fid):
    p = os.path.join(ROOT, "known_findings.json")
    try:
        return any(f.get("id") == fid and f.get("kind") == "known" for f in json.load(open(p))["findings"])
    except Exception:
        return False


# ------------------------------------------------------------------ generation

def _delta(rng, big=False):
    k = rng.choice([0, 0, 1, -1, 2, -3, 4, 8, -16]) if not big else rng.choice([0, 40, -64, 96, -120, 200])
    return k if rng.random() < 0.7 else k + rng.choice([0.5, 0.25, -0.5])


def perturb(rng, glyphs, big=False):
    """same structure, moved points / offsets / widths (dyadic)"""
    out = copy.deepcopy(glyphs)
    for g in out:
        g["width"] = max(0, g["width"] + rng.choice([0, 0, 8, 16, -4, 0.5]))
        for c in g["contours"]:
            for p in c:
                p[0] += _delta(rng, big); p[1] += _delta(rng, big)
        for comp in g["components"]:
            comp[1][4] += _delta(rng); comp[1][5] += _delta(rng)
    return out


def gen_family(rng, mode="normal", allow_sign=False, allow_stub=False, allow_overflow=False, allow_closing=False):
    """a JSON-able case: masters (font descriptions), sparse layers, options"""
    path = rng.choice(["ttf", "ttf", "ttfds", "ttfds", "ttfds", "otfds", "otfds"])
    ds = path.endswith("ds")
    convert = True if path == "otfds" else rng.random() < 0.7
    custom_mode = rng.choice(["none", "none", "none", "all", "all-incl", "some", "post"])
    cubic_ok = (path == "otfds" or convert) and custom_mode != "post"
    kinds = ("line", "line", "qcurve", "curve", "curve") if cubic_ok and rng.random() < 0.6 else ("line", "line", "qcurve")
    n = rng.choice([3, 4, 5, 6, 8, 10])
    # scale 1.5 twice overflows F2Dot14 (|v| > 2): TTGlyphPointPen then decomposes the composite at compile time (finding
    # OVERFLOW_FINDING when that happens in a sparse master whose base is a placeholder)
    pos = [k for k in POS if allow_overflow or k != "sc15"]
    mats = ["id", "id", "id"] + pos + NEG
    fd = outline_font(rng, nglyphs=n, kinds=kinds, grid=8, half=0.2, mats=mats, maxdepth=3, pcomp=0.6, mixed=0.25,
                      offstart=True, open_=0.0, names=GNAMES, lim=400, offgrid=8)
    base = fd["glyphs"]
    has_notdef = rng.random() < 0.75
    if has_notdef:
        base.insert(0, {"name": ".notdef", "unicodes": [], "width": 500, "anchors": [], "components": [],
                        "contours": [[[50, 0, "line"], [450, 0, "line"], [450, 700, "line"], [50, 700, "line"]]]})
    if rng.random() < 0.3:
        base.append({"name": "space", "unicodes": [32], "width": 250, "anchors": [], "components": [], "contours": []})
    names = [g["name"] for g in base]
    nfull = rng.choice([2, 2, 3]) if ds else rng.choice([2, 3, 4])
    big = "curve" in kinds and rng.random() < 0.5
    masters = [base] + [perturb(rng, base, big) for _ in range(nfull - 1)]
    tags = []
    comps = [(gi, ci) for gi, g in enumerate(base) for ci in range(len(g["components"]))]
    # components whose 2x2 differs between masters
    if comps and rng.random() < 0.45:
        gi, ci = rng.choice(comps)
        cur = tuple(base[gi]["components"][ci][1][:4])
        neg = cur[0] * cur[3] - cur[1] * cur[2] < 0
        def keeps_sign(m):      # the determinant keeps its sign along the straight line between the two matrices
            for t in (0.25, 0.5, 0.75, 1.0):
                a, b, c, d = [cur[i] + t * (m[i] - cur[i]) for i in range(4)]
                if (a * d - b * c < 0) != neg or a * d - b * c == 0:
                    return False
            return True
        same = [MATS[k] for k in (NEG if neg else pos) if MATS[k] != cur and keeps_sign(MATS[k])]
        other = [MATS[k] for k in (pos if neg else NEG)]
        one = []        # matrices that differ from the current one in exactly ONE entry (and keep the determinant's sign)
        for i in range(4):
            for v in (cur[i] * 0.5, cur[i] + 0.25, cur[i] - 0.25, cur[i] * 1.25, 0.5, 0.25):
                m1 = list(cur); m1[i] = v
                if v != cur[i] and abs(v) <= 1.25 and keeps_sign(m1):
                    one.append(tuple(m1))
        if one and rng.random() < 0.5:
            i = rng.choice(sorted({j for m1 in one for j in range(4) if m1[j] != cur[j]}))     # entry first, then value
            same = [m1 for m1 in one if m1[i] != cur[i]]
            tags.append("2x2differs:one-entry")
        flip = allow_sign and rng.random() < 0.5
        if flip:
            other += [MATS[k] for k in (NEG if neg else pos) if MATS[k] != cur and not keeps_sign(MATS[k])]
        m = rng.choice(other if flip or not same else same)
        if not flip and not same:
            m = cur
        k = rng.randrange(1, nfull)
        masters[k][gi]["components"][ci][1][:4] = list(m)
        tags.append("2x2differs:" + ("sign" if flip else "samesign"))
    # a glyph that is mixed (contours + components) in one master only
    pure = [gi for gi, g in enumerate(base) if g["components"] and not g["contours"]]
    if pure and rng.random() < 0.3:
        gi = rng.choice(pure)
        k = rng.randrange(0, nfull)
        masters[k][gi]["contours"] = [[[0, 0, "line"], [30, 0, "line"], [30, 40 + k, "line"]]]
        tags.append("mixed-in-one-master")
        if path != "otfds" and "curve" not in kinds and custom_mode != "post" and rng.random() < 0.7:
            convert = False     # otherwise cu2qu (rightly) refuses the family: IncompatibleFontsError
    # a dangling reference: a composite whose base exists nowhere (TrueType compilers skip such a component; non-default
    # masters of a designspace build get an empty placeholder for it, the default master must not)
    if path.startswith("ttf") and rng.random() < 0.12:
        for k in range(nfull):
            masters[k].append({"name": "ghostref", "unicodes": [], "width": 300 + k, "anchors": [], "contours": [],
                               "components": [["ghost", [1, 0, 0, 1, 10 + k, 0]]]})
        names.append("ghostref")
        tags.append("dangling-reference")
    # a segment that collapses in ONE master only (two consecutive points coincide / a cubic's handles are retracted):
    # per-master optimisations (CFF specializer, implied-point dropping) would treat that master differently
    if rng.random() < 0.3:
        cand = [(gi, ci) for gi, g in enumerate(base) for ci, c in enumerate(g["contours"]) if len(c) >= 3 and g["name"] != ".notdef"
                and all(len(m[gi]["contours"]) == len(g["contours"]) for m in masters)]
        if cand:
            gi, ci = rng.choice(cand)
            k = rng.randrange(0, nfull)
            c = masters[k][gi]["contours"][ci]
            # i == 0: the CLOSING segment collapses - PointToSegmentPen then emits the otherwise implied closing lineTo
            # (finding CLOSING_FINDING on the CFF path)
            # (i == 1 does the same to a mirrored copy: reversal keeps the start point and makes point 1 the last one)
            idx = [i for i in range(len(c)) if c[i][2] == "line" and c[i - 1][2] is not None and (i > 1 or allow_closing)]
            cub = [i for i in range(len(c)) if c[i][2] == "curve" and c[i - 1][2] is None and c[i - 2][2] is None and c[i - 3][2] is not None]
            if cub and rng.random() < 0.5:
                i = rng.choice(cub)
                c[i - 2][0], c[i - 2][1] = c[i - 3][0], c[i - 3][1]
                c[i - 1][0], c[i - 1][1] = c[i][0], c[i][1]
                tags.append("collapsed-in-one-master:handles")
            elif idx:
                i = rng.choice(idx)
                c[i][0], c[i][1] = c[i - 1][0], c[i - 1][1]
                tags.append("collapsed-in-one-master:points")
    # full masters that lack a glyph (no Instantiator: plain path only)
    if not ds and rng.random() < 0.15 and len(names) > 3:
        used = {c[0] for g in base for c in g["components"]}
        cand = [nm for nm in names if nm not in used and nm != ".notdef"]
        if cand:
            nm = rng.choice(cand)
            k = rng.randrange(1, nfull)
            masters[k] = [g for g in masters[k] if g["name"] != nm]
            tags.append("glyph-missing-in-one-master")
    # sources
    sources = []
    if ds:
        # at most two non-default sources per side of the axis, so that every support scalar of varLib's model is dyadic
        locs = [0, 1] + ([rng.choice([-1, -1, 0.5])] if nfull == 3 else [])
        for k in range(nfull):
            sources.append({"font": k, "layer": None, "loc": locs[k]})
        cand = []
        if 0.5 not in locs and rng.random() < 0.75:
            cand.append(rng.choice([0.5, 0.5, 0.25, 0.75]))
        if -1 in locs and rng.random() < 0.5:
            cand.append(-0.5)
        cand = cand[:4 - nfull]
        if "mixed-in-one-master" in tags or custom_mode == "some":
            cand = []       # fontMath on structurally different masters is outside the model: no interpolation needed then
        for s, loc in enumerate(cand):
            host = rng.randrange(nfull)
            pool = [g for g in base if g["name"] != ".notdef" or rng.random() < 0.1]
            sub = [g for g in pool if rng.random() < 0.45] or [rng.choice(pool)]
            # make it likely that the sparse source has a pure composite whose base(s) it lacks (placeholders needed)
            comps_ = [g for g in base if g["components"] and not g["contours"]]
            if comps_ and rng.random() < 0.6:
                g0 = rng.choice(comps_)
                gone = {c[0] for c in g0["components"]}
                sub = [g for g in sub if g["name"] not in gone and g["name"] != g0["name"]] + [g0]
            layer = perturb(rng, sub)
            if rng.random() < 0.5:
                # a sparse source that is its OWN UFO (a <source> without layer=): still not the default source
                masters.append(layer)
                sources.append({"font": len(masters) - 1, "layer": None, "loc": loc, "sparse": True})
                tags.append("sparse-ufo")
            else:
                sources.append({"font": host, "layer": "L%d" % s, "loc": loc, "glyphs": layer})
            tags.append("sparse")
        order = list(range(len(sources)))
        if rng.random() < 0.5:
            rng.shuffle(order)
        sources = [sources[i] for i in order]
    else:
        for k in range(nfull):
            sources.append({"font": k, "layer": None, "loc": None})
        if rng.random() < 0.12:
            # a sparse layer without Instantiator (layerNames=...): only glyphs without missing references
            simple = [g for g in base if not g["components"] and g["name"] != ".notdef"]
            if simple and len(sources) < 4:
                layer = perturb(rng, [rng.choice(simple)])
                if has_notdef and not (allow_stub and rng.random() < 0.5 and "2x2differs:sign" not in tags):
                    # without an explicit '.notdef' the layer would get the auto-generated box (finding STUB_FINDING)
                    layer = perturb(rng, [base[0]]) + layer
                sources.append({"font": 0, "layer": "L0", "loc": None, "glyphs": layer})
                tags.append("sparse-plain")
    bases = sorted({c[0] for g in base for c in g["components"]})
    skip = []
    if rng.random() < 0.35:
        pool = bases if bases and rng.random() < 0.8 else names
        skip = sorted(set(rng.sample(pool, min(len(pool), rng.choice([1, 1, 2])))) - {".notdef"})
    custom = [None] * len(sources)
    if custom_mode != "none":
        for i in range(len(sources)):
            inc = None
            if custom_mode == "all-incl":
                inc = sorted(nm for nm in names if rng.random() < 0.5)
            custom[i] = {"pre": custom_mode != "post", "include": inc}
        if custom_mode == "some" and len(sources) > 1:
            for i in range(1, len(sources)):
                if rng.random() < 0.6:
                    custom[i] = None
            if all(c is not None for c in custom):
                custom[-1] = None
    case = {"path": path, "masters": masters, "sources": sources, "skip": skip,
            "flatten": path != "otfds" and rng.random() < 0.45, "convertCubics": convert,
            "reverse": rng.random() < 0.7, "custom": custom, "optimizeCFF": rng.choice([0, 1, 1]) if path == "otfds" else 0, "lib": "ufoLib2" if rng.random() < 0.75 else "defcon",
            "gentags": tags}
    subquantum(case, nfull, allow_overflow)
    return case


EPS = [2.0 ** -16, 2.0 ** -17, 2.0 ** -15 - 2.0 ** -20]     # all below half an F2Dot14 step (2^-15): invisible after rounding
# 2x2 with an entry exactly ON the F2Dot14 limit: fontTools' TTGlyphPointPen clamps +2 (MAX_F2DOT14 < v <= 2) and keeps the
# component, -2 is representable; anything beyond makes the pen decompose the WHOLE glyph - a per-master decision
LIMIT = [((2, 0, 0, 1), 0, 1), ((1, 0, 0, 2), 3, 1), ((2, 0, 0, 2), 0, 1), ((1, 0, 2, 1), 2, 1), ((1, 2, 0, 1), 1, 1),
         ((-2, 0, 0, 1), 0, -1), ((1, 0, 0, -2), 3, -1), ((0.5, 0, 0, 2), 3, 1), ((1, 0, -2, 1), 2, -1)]


def subquantum(case, nfull, allow_overflow):
    """stream 'float noise below the F2Dot14 resolution' (added LAST, with its own generator derived from the case, so that the
    families of the other streams are unchanged): a component's 2x2 differs between sources by less than half an F2Dot14 step
    (2^-15) in one entry - equal after quantisation, unequal as numbers.  Sub-streams: 'limit' = a new pure composite 'subq' of
    a simple glyph whose 2x2 has an entry exactly on the F2Dot14 limit (+-2) in some sources and just beyond it in others (only
    the latter overflow glyf's 2x2 and are decomposed by fontTools' glyph pen while compiling, per master); 'noise' = an
    existing component gets the noise in one full master."""
    import random
    import zlib
    rng = random.Random(zlib.crc32(json.dumps(case, sort_keys=True).encode()))
    if rng.random() >= 0.3:
        return
    masters, tags = case["masters"], case["gentags"]
    full = masters[:nfull]
    everywhere = set(g["name"] for g in full[0])
    for m in full[1:]:
        everywhere &= set(g["name"] for g in m)
    simple = [g["name"] for g in full[0] if g["name"] in everywhere and g["contours"] and not g["components"] and g["name"] != ".notdef"]
    eps = rng.choice(EPS)
    if simple and rng.random() < 0.6:
        base = rng.choice(simple)
        mat, i, sgn = rng.choice(LIMIT)
        beyond = list(mat); beyond[i] = mat[i] + sgn * eps
        k = rng.randrange(nfull)        # the master that is just beyond the limit (any, also the first / default one)
        both = rng.random() < 0.2       # sometimes two of them
        second = rng.random() < 0.3     # a second, plain component

        def glyph(j, m):
            comps = [[base, list(m) + [10 + 8 * j, 4 * j]]]
            if second:
                comps.append([base, [1, 0, 0, 1, 300 + 16 * j, 0.5 * j]])
            return {"name": "subq", "unicodes": [], "width": 700 + 8 * j, "anchors": [], "contours": [], "components": comps}
        choice = []
        for j in range(nfull):
            choice.append(beyond if j == k or (both and j == (k + 1) % nfull and nfull > 2) else list(mat))
            full[j].append(glyph(j, choice[j]))
        # sparse sources: some get the composite too (without its base: a placeholder is needed), on either side of the limit
        for s in case["sources"]:
            tgt = s.get("glyphs") if s["layer"] is not None else (masters[s["font"]] if s.get("sparse") else None)
            if tgt is not None and rng.random() < 0.4:
                tgt.append(glyph(5 + len(tgt), rng.choice(choice)))
        tags.append("2x2differs:subquantum:limit")
        return
    comps = [(g["name"], ci) for g in full[0] if g["name"] in everywhere for ci in range(len(g["components"]))]
    if not comps:
        return
    name, ci = rng.choice(comps)
    i = rng.randrange(4)
    k = rng.randrange(1, nfull)
    g = [x for x in full[k] if x["name"] == name][0]
    if ci >= len(g["components"]):
        return
    v = g["components"][ci][1][i]
    if not allow_overflow and abs(v) >= 1.5:
        return
    g["components"][ci][1][i] = v + rng.choice([eps, -eps])
    tags.append("2x2differs:subquantum:noise")


# ------------------------------------------------------------------ running

def snap_any(g, name):
    from fontTools.pens.recordingPen import RecordingPointPen
    rec = RecordingPointPen()
    g.drawPoints(rec)
    contours, cur, comps = [], None, []
    for op, args, kw in rec.value:
        if op == "beginPath":
            cur = []
        elif op == "addPoint":
            cur.append([rat(args[0][0]), rat(args[0][1]), args[1]])
        elif op == "endPath":
            contours.append(cur); cur = None
        elif op == "addComponent":
            comps.append([args[0], [rat(v) for v in args[1]]])
    return {"name": name, "width": rat(g.width), "height": rat(getattr(g, "height", 0) or 0), "contours": contours,
            "comps": comps, "anchors": [[a.name, rat(a.x), rat(a.y)] for a in (getattr(g, "anchors", None) or [])]}


def snap_sets(glyphSets):
    return [[snap_any(gs[n], n) for n in gs.keys()] for gs in glyphSets]


def build_fonts(case):
    """one UFO per full master; sparse layers are added to their host font"""
    fonts = []
    for k, glyphs in enumerate(case["masters"]):
        fd = {"upm": 1000, "info": dict(INFO, styleName="M%d" % k), "glyphs": glyphs, "lib": {}, "layers": {}}
        for s in case["sources"]:
            if s["layer"] is not None and s["font"] == k:
                fd["layers"][s["layer"]] = s["glyphs"]
        fonts.append(build(fd, case["lib"]))
    return fonts


def set_custom(fonts, case):
    from ufo2ft.constants import FILTERS_KEY
    # the lib is per FONT: sources sharing a font share its filters
    per_font = {}
    for s, c in zip(case["sources"], case["custom"]):
        per_font.setdefault(s["font"], c)
    for k, c in per_font.items():
        if c is not None:
            d = {"name": "decomposeTransformedComponents", "pre": c["pre"]}
            if c["include"] is not None:
                d["include"] = list(c["include"])
            fonts[k].lib[FILTERS_KEY] = [d]
    return [per_font[s["font"]] for s in case["sources"]]


def make_ds(case, fonts):
    from fontTools import designspaceLib as dl
    ds = dl.DesignSpaceDocument()
    ax = dl.AxisDescriptor()
    ax.name = "Weight"; ax.tag = "wght"
    locs = [s["loc"] for s in case["sources"]]
    ax.minimum = min(0, min(locs)); ax.default = 0; ax.maximum = max(locs)
    ds.addAxis(ax)
    for i, s in enumerate(case["sources"]):
        sd = dl.SourceDescriptor()
        sd.name = "s%d" % i; sd.font = fonts[s["font"]]; sd.layerName = s["layer"]
        sd.location = {"Weight": s["loc"]}; sd.familyName = "Fam"; sd.styleName = "S%d" % i
        ds.addSource(sd)
    if case["skip"]:
        ds.lib["public.skipExportGlyphs"] = list(case["skip"])
    return ds


def compiled_ttf(tt):
    glyf, hmtx = tt["glyf"], tt["hmtx"]
    out = []
    for n in tt.getGlyphOrder():
        g = glyf[n]
        adv = hmtx[n][0]
        if g.isComposite():
            out.append({"name": n, "sentinel": False, "contours": [], "comps": [c.glyphName for c in g.components]})
            continue
        cs, start = [], 0
        if g.numberOfContours > 0:
            for e in g.endPtsOfContours:
                cs.append(["on" if g.flags[k] & 1 else "off" for k in range(start, e + 1)])
                start = e + 1
        out.append({"name": n, "sentinel": adv == 0xFFFF and not cs, "contours": cs, "comps": []})
    return out


def compiled_otf(tt):
    from fontTools.pens.recordingPen import RecordingPen
    cff = tt["CFF "].cff
    cs = cff[cff.fontNames[0]].CharStrings
    hmtx = tt["hmtx"]
    out = []
    for n in tt.getGlyphOrder():
        pen = RecordingPen()
        cs[n].draw(pen)
        contours, cur = [], None
        for op, args in pen.value:
            if op == "moveTo":
                cur = []
            elif op in ("closePath", "endPath"):
                if cur is not None:
                    contours.append(cur)
                cur = None
            else:
                cur.append(op)
        out.append({"name": n, "sentinel": hmtx[n][0] == 0xFFFF and not contours, "contours": contours, "comps": []})
    return out


def stub_notdef(ttf):
    from ufo2ft.outlineCompiler import StubGlyph
    g = StubGlyph(name=".notdef", width=500, unitsPerEm=1000, ascender=INFO["ascender"], descender=INFO["descender"],
                  reverseContour=ttf)
    return snap_any(g, ".notdef")


def run_family(case):
    """returns (inp, obs, needs) - needs = (glyph sets seen by check_for_nonmatching_components, resulting names) or None"""
    import fontTools.cu2qu.ufo as cu
    from ufo2ft._compilers.interpolatableOTFCompiler import InterpolatableOTFCompiler
    from ufo2ft._compilers.interpolatableTTFCompiler import InterpolatableTTFCompiler
    from ufo2ft.preProcessor import TTFInterpolatablePreProcessor
    from ufo2ft.util import _GlyphSet

    import logging
    logging.getLogger("fontTools.cu2qu").setLevel(logging.CRITICAL)
    logging.getLogger("fontTools.pens.ttGlyphPen").setLevel(logging.CRITICAL)
    fonts = build_fonts(case)
    custom = set_custom(fonts, case)
    path, ttf, ds = case["path"], case["path"] != "otfds", case["path"].endswith("ds")
    sources = case["sources"]
    src = snap_sets([_GlyphSet.from_layer(fonts[s["font"]], s["layer"]) for s in sources])
    rec = {"pre": None, "post": None, "needs": None}
    orig_f2q = cu.fonts_to_quadratic
    orig_check = TTFInterpolatablePreProcessor.check_for_nonmatching_components

    def f2q(glyphSets, **kw):
        rec["pre"] = snap_sets(glyphSets)
        r = orig_f2q(glyphSets, **kw)
        rec["post"] = snap_sets(glyphSets)
        rec["modified"] = bool(r)
        return r

    def check(self, needs):
        before = snap_sets(self.glyphSets)
        orig_check(self, needs)
        rec["needs"] = (before, sorted(needs))

    # the iteration order of the SET of glyph names in every BaseIFilter.__call__: the sort key is evaluated in that order
    import ufo2ft.filters.base as fb
    orders, cur = [], [None]
    orig_depth, orig_ctx_i, orig_ctx = fb.getMaxComponentDepth, fb.BaseIFilter.set_context, fb.BaseFilter.set_context

    def depth(glyph, glyphSet, *a, **k):
        if cur[0] is not None:
            cur[0].append(glyph.name)
        return orig_depth(glyph, glyphSet, *a, **k)

    def ctx_i(self, *a, **k):
        cur[0] = []
        orders.append(cur[0])
        return orig_ctx_i(self, *a, **k)

    def ctx(self, *a, **k):
        cur[0] = None
        return orig_ctx(self, *a, **k)

    fb.getMaxComponentDepth, fb.BaseIFilter.set_context, fb.BaseFilter.set_context = depth, ctx_i, ctx
    cu.fonts_to_quadratic = f2q
    TTFInterpolatablePreProcessor.check_for_nonmatching_components = check
    obs = {"err": None}
    try:
        kw = {"skipFeatureCompilation": True, "useProductionNames": False}
        if ttf:
            kw.update(convertCubics=case["convertCubics"], reverseDirection=case["reverse"], flattenComponents=case["flatten"])
            comp = InterpolatableTTFCompiler(**kw)
        else:
            comp = InterpolatableOTFCompiler(optimizeCFF=case.get("optimizeCFF", 0), **kw)
        if ds:
            res = comp.compile_designspace(make_ds(case, fonts))
            tts = [s.font for s in res.sources]
        else:
            comp.skipExportGlyphs = list(case["skip"])
            comp.layerNames = [s["layer"] for s in sources]
            tts = list(comp.compile([fonts[s["font"]] for s in sources]))
        obs["pre"] = rec["pre"]
        obs["final"] = snap_sets(comp.glyphSets)
        obs["compiled"] = [compiled_ttf(t) if ttf else compiled_otf(t) for t in tts]
    except Exception as e:
        obs = {"err": err_kind(e) if type(e).__name__ != "MissingComponentError" else "MissingComponentError"}
    finally:
        fb.getMaxComponentDepth, fb.BaseIFilter.set_context, fb.BaseFilter.set_context = orig_depth, orig_ctx_i, orig_ctx
        cu.fonts_to_quadratic = orig_f2q
        TTFInterpolatablePreProcessor.check_for_nonmatching_components = orig_check
    default_has_notdef = False
    if ds:
        d = [s for s in sources if s["loc"] == 0 and s["layer"] is None][0]
        default_has_notdef = any(g["name"] == ".notdef" for g in case["masters"][d["font"]])
    inp = {"path": "ttf" if ttf else "otf", "ds": ds,
           "locs": [rat(s["loc"]) for s in sources] if ds else [],
           "defaultIdx": [i for i, s in enumerate(sources) if s["loc"] == 0 and s["layer"] is None][0] if ds else 0,
           "masters": src, "sparse": [s["layer"] is not None or bool(s.get("sparse")) for s in sources], "skip": list(case["skip"]),
           "flatten": bool(case["flatten"]) and ttf, "convertCubics": bool(case["convertCubics"]) and ttf,
           "reverse": bool(case["reverse"]), "custom": custom, "cu2qu": rec["post"], "cu2quModified": bool(rec.get("modified")),
           "orders": [list(o) for o in orders], "notdefFallback": ds and default_has_notdef, "stubs": [stub_notdef(ttf) for _ in sources]}
    return inp, obs, rec["needs"]
