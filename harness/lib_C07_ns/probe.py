"""ProbeFilter: a custom ufo2ft filter that writes to EVERYTHING it is handed through the glyph set — every glyph
field, in place and by assignment, nested lib values included, and the glyph set's lib.  It never touches `font`.
If the pipeline hands it copies (inplace=False) nothing of this may become visible in the caller's UFO; a shallow
copy anywhere in ufo2ft's copying code shows up as a changed cell in the C07 snapshots."""
import zlib

from ufo2ft.filters import BaseFilter


def _touch_lib(lib):
    for k, v in list(lib.items()):
        if not str(k).startswith("c07."):
            continue                      # keys that ufo2ft itself interprets keep their meaning
        if isinstance(v, dict):
            v["c07.probe"] = 1
        elif isinstance(v, list):
            v.append("c07.probe")
    lib["c07.probe"] = 1


class ProbeFilter(BaseFilter):
    _kwargs = {"tag": 0}

    def __call__(self, font, glyphSet=None):
        if glyphSet is None:
            return set()
        names = sorted(glyphSet.keys())
        for i, name in enumerate(names):
            g = glyphSet[name]
            g.width = g.width + 1
            g.height = (g.height or 0) + 1
            # code points: append in place (if the object hands out its own list), then assign
            cp = 0xF0000 + (zlib.crc32(name.encode()) & 0xFFFF)
            u = g.unicodes
            try:
                u.append(cp)
            except Exception:
                pass
            g.unicodes = [x for x in dict.fromkeys(list(u) + [cp])]
            # anchors: move the existing objects in place
            for a in g.anchors:
                a.x = a.x + 1
            _touch_lib(g.lib)
            # outline: move the first point of every contour in place, then add a contour
            for contour in g:
                pts = getattr(contour, "points", None) or list(contour)
                if pts:
                    try:
                        pts[0].x = pts[0].x + 1
                    except Exception:
                        pass
            if len(g):
                pen = g.getPointPen()
                pen.beginPath()
                for x, y in ((0, 0), (0, 7), (7, 7)):
                    pen.addPoint((x, y + i), segmentType="line")
                pen.endPath()
            for c in g.components:
                t = tuple(c.transformation)
                c.transformation = t[:4] + (t[4] + 1, t[5])
        lib = getattr(glyphSet, "lib", None)
        if lib is not None:
            _touch_lib(lib)
        return set(names)
