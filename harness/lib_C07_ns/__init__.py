"""Namespace for the C07 probe filter (a *custom filter* in the sense of ufo2ft's filters= / lib key API)."""
