"""Helpers of the C14 check: snapshots of glyphs / glyph sets / source fonts, font generators with anchors and
component graphs, the (external) bounds oracle, include predicates."""
import json
from fractions import Fraction

from ufo import build, rat
import gen as G

# ------------------------------------------------------------------ snapshots


def snap_glyph(glyph):
    """semantic content of a glyph object (ufoLib2 or defcon) in protocol form, via the point-pen protocol"""
    from fontTools.pens.recordingPen import RecordingPointPen
    rec = RecordingPointPen()
    glyph.drawPoints(rec)
    contours, comps, cur = [], [], None
    for op, args, kw in rec.value:
        if op == "beginPath":
            cur = []
        elif op == "addPoint":
            pt, seg = args[0], args[1]
            cur.append([rat(pt[0]), rat(pt[1]), seg])
        elif op == "endPath":
            contours.append(cur); cur = None
        elif op == "addComponent":
            comps.append([args[0], [rat(v) for v in args[1]]])
    return {"w": rat(glyph.width), "h": rat(glyph.height), "c": contours, "k": comps,
            "a": [[a.name, rat(a.x), rat(a.y)] for a in glyph.anchors]}


def snap_glyphset(gs):
    """ordered [[name, glyph]] of a dict-like glyph set"""
    return [[k, snap_glyph(gs[k])] for k in gs.keys()]


def _plain(x):
    if isinstance(x, dict):
        return {str(k): _plain(v) for k, v in sorted(x.items(), key=lambda e: str(e[0]))}
    if isinstance(x, (list, tuple)):
        return [_plain(v) for v in x]
    if isinstance(x, float):
        return rat(x)
    if isinstance(x, (int, str, bool)) or x is None:
        return x
    return repr(x)


def snap_font(font):
    """everything of the source font a filter could touch: {label: canonical string}"""
    out = {}
    for layer in font.layers:
        lname = layer.name
        for g in layer:
            d = snap_glyph(g)
            d["u"] = list(g.unicodes)
            d["lib"] = _plain(dict(g.lib))
            d["name"] = g.name
            out[f"glyph:{lname}:{g.name}"] = json.dumps(d, sort_keys=True)
        out[f"layerlib:{lname}"] = json.dumps(_plain(dict(layer.lib)), sort_keys=True)
        out[f"layerkeys:{lname}"] = json.dumps([g.name for g in layer])
    out["lib"] = json.dumps(_plain(dict(font.lib)), sort_keys=True)
    out["features"] = font.features.text or ""
    out["kerning"] = json.dumps(_plain({f"{a} {b}": v for (a, b), v in font.kerning.items()}), sort_keys=True)
    out["groups"] = json.dumps(_plain(dict(font.groups)), sort_keys=True)
    return out


def diff_font(a, b, ignore_prefix=None):
    keys = sorted(set(a) | set(b))
    return [k for k in keys if a.get(k) != b.get(k) and not (ignore_prefix and k.startswith(ignore_prefix))]


# ------------------------------------------------------------------ include specs

PREDS = {
    "hasContours": lambda g: len(g) > 0,
    "hasComponents": lambda g: bool(g.components),
    "hasAnchors": lambda g: bool(g.anchors),
    "wide": lambda g: g.width >= 500,
    "dotted": lambda g: "." in g.name,
}


def include_kwargs(inc):
    k = inc["kind"]
    if k == "none":
        return {}
    if k == "names":
        return {"include": list(inc["l"])}
    if k == "exclude":
        return {"exclude": list(inc["l"])}
    if k == "pred":
        return {"include": PREDS[inc["p"]]}
    raise ValueError(k)


def gen_include(rng, names, extra=("zzz",)):
    r = rng.random()
    if r < 0.2:
        return {"kind": "none"}
    pool = list(names) + list(extra)
    if r < 0.5:
        return {"kind": "names", "l": rng.sample(pool, rng.randrange(0, min(len(pool), 6) + 1))}
    if r < 0.75:
        return {"kind": "exclude", "l": rng.sample(pool, rng.randrange(0, min(len(pool), 6) + 1))}
    return {"kind": "pred", "p": rng.choice(sorted(PREDS))}


# ------------------------------------------------------------------ fonts

NAMES = G.NAMES + ["tildecomb_acutecomb", "x_y", "gravecomb", "tildecomb", "o", "odieresis", "n.sc", "_corner"]
BASE_ANCHORS = ["top", "bottom", "ogonek", "topleft", "top", "bottom", "top_1"]
EXACT_MATS = ("id", "id", "id", "mirrorx", "mirrory", "rot90", "rot180", "half", "shear", "sc15", "nonuni",
              "mirrorshear", "singular")


def gen_anchors(rng, g, marklike):
    out, used = [], set()
    if marklike:
        for nm in rng.sample(["_top", "_bottom"], rng.choice([1, 1, 2])):
            out.append([nm, G.coord(rng, 1, 300, 0.2), G.coord(rng, 1, 300, 0.2)]); used.add(nm)
    for nm in dict.fromkeys(rng.sample(BASE_ANCHORS, rng.choice([0, 1, 1, 2, 3]))):
        out.append([nm, G.coord(rng, 1, 300, 0.2), G.coord(rng, 1, 300, 0.2)])
    if rng.random() < 0.08 and out:
        out.append(list(out[0]))          # duplicate anchor name: only the first is looked at
    rng.shuffle(out)
    return out


def gen_font(rng, profile="mixed", nglyphs=None, kinds=("line", "curve", "qcurve"), pcomp=0.55):
    """a font description with nested components, mixed glyphs, anchors and mark categories"""
    fd = G.outline_font(rng, nglyphs=nglyphs or rng.choice([2, 3, 4, 6, 9, 13]), kinds=kinds, mats=EXACT_MATS,
                        maxdepth=4, pcomp=pcomp, mixed=0.3, open_=0.15, names=NAMES, half=0.25, widthhalf=0.1)
    names = [g["name"] for g in fd["glyphs"]]
    marks = []
    for g in fd["glyphs"]:
        marklike = rng.random() < 0.3
        if profile in ("anchors", "mixed") and rng.random() < (0.75 if profile == "anchors" else 0.4):
            # composites get anchors less often so that there is something to propagate
            if not g["components"] or rng.random() < 0.3:
                g["anchors"] = gen_anchors(rng, g, marklike)
        if marklike and rng.random() < 0.6:
            marks.append(g["name"])
        if rng.random() < 0.3:
            g["height"] = rng.choice([0, 500, 1000, 750.5])
    if marks or rng.random() < 0.2:
        cats = {n: "mark" for n in marks}
        for n in names:
            if n not in cats and rng.random() < 0.3:
                cats[n] = rng.choice(["base", "ligature", "unassigned", "component"])
        fd["lib"]["public.openTypeCategories"] = cats
    fd["info"]["capHeight"] = rng.choice([700, 701, 650, 0])
    fd["info"]["xHeight"] = rng.choice([500, 475, 501, 0])
    return fd


def ligature_mark_font(rng):
    """marks composed of marks: exercises the promote-closest-to-origin branch (line contours: exact bounds)"""
    fd = gen_font(rng, "anchors", nglyphs=rng.choice([3, 5, 7]), kinds=("line",), pcomp=0.3)
    names = [g["name"] for g in fd["glyphs"]]
    marks = [g for g in fd["glyphs"] if not g["components"]]
    for g in marks:
        if not any(a[0].startswith("_") for a in g["anchors"]):
            g["anchors"].append([rng.choice(["_top", "_bottom"]), G.coord(rng, 1, 200, 0.2), G.coord(rng, 1, 200, 0.2)])
        if rng.random() < 0.7 and not any(a[0] == "top" for a in g["anchors"]):
            g["anchors"].append(["top", G.coord(rng, 1, 200, 0.2), G.coord(rng, 1, 200, 0.2)])
    if marks:
        for nm in ["m_m", "mm_lig_x"][: rng.choice([1, 2])]:
            if nm in names:
                continue
            comps = []
            for _ in range(rng.choice([1, 2, 2, 3])):
                b = rng.choice(marks)
                m = G.MATS[rng.choice(["id", "id", "half", "mirrorx"])]
                comps.append([b["name"], [m[0], m[1], m[2], m[3], G.coord(rng, 1, 200, 0.2), G.coord(rng, 1, 200, 0.2)]])
            fd["glyphs"].append({"name": nm, "width": 0, "unicodes": [], "contours": [], "components": comps,
                                 "anchors": [] if rng.random() < 0.8 else [["bottom", 0, -10]]})
            names.append(nm)
    return fd


def inject_missing(rng, fd):
    cands = [g for g in fd["glyphs"] if g["components"]]
    if not cands:
        cands = fd["glyphs"][-1:]
    g = rng.choice(cands)
    g["components"].insert(rng.randrange(len(g["components"]) + 1), ["nonexistent", [1, 0, 0, 1, 10, 0]])


def inject_cycle(rng, fd):
    gl = fd["glyphs"]
    if len(gl) < 2:
        gl[0]["components"].append([gl[0]["name"], [1, 0, 0, 1, 5, 0]]); return
    # glyph i references only j < i; add a back reference from an early glyph to a later one that reaches it
    for i in range(len(gl) - 1, 0, -1):
        for base, _ in gl[i]["components"]:
            j = next(k for k, g in enumerate(gl) if g["name"] == base)
            gl[j]["components"].append([gl[i]["name"], [1, 0, 0, 1, 0, 0]])
            return
    gl[0]["components"].append([gl[0]["name"], [1, 0, 0, 1, 5, 0]])


def rect_font(rng):
    """simple overlapping rectangles / triangles for the boolean-operation back-ends"""
    n = rng.choice([1, 2, 3, 5])
    names = rng.sample(NAMES, n)
    glyphs = []
    for i, nm in enumerate(names):
        cs = []
        for _ in range(rng.choice([0, 1, 2, 2, 3])):
            x, y = rng.randrange(0, 300), rng.randrange(0, 300)
            w, h = rng.randrange(50, 300), rng.randrange(50, 300)
            cs.append([[x, y, "line"], [x + w, y, "line"], [x + w, y + h, "line"], [x, y + h, "line"]])
        comps = []
        if i > 0 and rng.random() < 0.4:
            comps.append([names[rng.randrange(i)], [1, 0, 0, 1, rng.randrange(-50, 50), 0]])
        glyphs.append({"name": nm, "width": 500, "unicodes": [], "contours": cs, "components": comps,
                       "anchors": [["top", 100, 400]] if rng.random() < 0.3 else []})
    return {"upm": 1000, "glyphs": glyphs, "info": {"capHeight": 700, "xHeight": 500}, "lib": {}}


# ------------------------------------------------------------------ bounds oracle (fontTools BoundsPen: external)

def component_bounds(gsj, comp):
    """(xMin, yMin) of one component [base, [6]] drawn from the snapshot glyph set `gsj` {name: G}; None if empty"""
    from fontTools.misc.transform import Transform
    from fontTools.pens.boundsPen import BoundsPen
    from fontTools.pens.pointPen import PointToSegmentPen
    pen = BoundsPen(None)
    ppen = PointToSegmentPen(pen)

    def fr(s):
        f = Fraction(s)
        return int(f) if f.denominator == 1 else float(f)

    def draw(name, t, stack):
        g = gsj.get(name)
        if g is None or name in stack or len(stack) > 12:     # cyclic sets never reach the bounds (InvalidFontData)
            return
        for c in g["c"]:
            ppen.beginPath()
            for x, y, seg in c:
                ppen.addPoint(t.transformPoint((fr(x), fr(y))), segmentType=seg)
            ppen.endPath()
        for base, m in g["k"]:
            draw(base, t.transform(Transform(*[fr(v) for v in m])), stack + (name,))

    draw(comp[0], Transform(*[Fraction(v).numerator / Fraction(v).denominator for v in comp[1]]), ())
    if pen.bounds is None:
        return None
    return [rat(pen.bounds[0]), rat(pen.bounds[1])]


def bounds_oracle(gs_snapshot):
    gsj = {k: v for k, v in gs_snapshot}
    out = []
    for name, g in gs_snapshot:
        if "_" in name and not name.startswith("_") and g["k"]:
            out.append([name, [component_bounds(gsj, c) if c[0] in gsj else None for c in g["k"]]])
    return out


def close_glyph(a, b, tol=1e-6):
    """tolerant comparison of two protocol glyphs (for the inexact stream)"""
    def num(s):
        return float(Fraction(s))

    def eq(x, y):
        if isinstance(x, str) and isinstance(y, str):
            try:
                u, v = num(x), num(y)
            except (ValueError, ZeroDivisionError):
                return x == y
            return abs(u - v) <= tol * (1 + abs(u))
        if isinstance(x, list) and isinstance(y, list):
            return len(x) == len(y) and all(eq(p, q) for p, q in zip(x, y))
        if isinstance(x, dict) and isinstance(y, dict):
            return x.keys() == y.keys() and all(eq(x[k], y[k]) for k in x)
        return x == y
    return eq(a, b)


# ------------------------------------------------------------------ which branches of the modelled code did a case reach

def _true_depth(gsj, n, seen=()):
    g = gsj.get(n)
    if g is None or not g["k"] or n in seen:
        return 0
    return 1 + max(_true_depth(gsj, b, seen + (n,)) for b, _ in g["k"])


def _dfs_depth(gsj, n, d=0, visited=None):
    """util.getMaxComponentDepth as written (visited shared between siblings); cycles -> None"""
    g = gsj[n]
    if not g["k"]:
        return d
    visited = visited if visited is not None else set()
    visited.add(n)
    d += 1
    d0 = d
    for b, _ in g["k"]:
        if b in gsj and b not in visited:
            r = _dfs_depth(gsj, b, d0, visited)
            d = max(d, r)
    return d


def branch_tags(fname, inc, opts, gs_snapshot, obs):
    from fractions import Fraction
    gsj = {k: v for k, v in gs_snapshot}
    tags = set()
    acyclic = obs.get("err") != "InvalidFontData"
    if acyclic:
        try:
            if any(_dfs_depth(gsj, n) != _true_depth(gsj, n) for n in gsj):
                tags.add("br:depth-undercount")
        except RecursionError:
            pass
    comps = {n: g["k"] for n, g in gsj.items()}
    nested = any(b in gsj and gsj[b]["k"] for n in gsj for b, _ in comps[n])
    if nested:
        tags.add("br:nested")
    if any(gsj[n]["k"] and gsj[n]["c"] for n in gsj):
        tags.add("br:mixed")
    def det(m):
        a, b, c, d = [Fraction(v) for v in m[:4]]
        return a * d - b * c
    if any(det(m) < 0 for n in gsj for _, m in comps[n]):
        tags.add("br:flipped")
    if any(det(m) == 0 for n in gsj for _, m in comps[n]):
        tags.add("br:singular")
    if any(c and c[0][2] == "move" for g in gsj.values() for c in g["c"]):
        tags.add("br:open")
    if any(c and c[0][2] is None for g in gsj.values() for c in g["c"]):
        tags.add("br:offcurve-start")
    if obs.get("err") is None:
        mod = set(obs["modified"])
        after = dict(obs["after"])
        if fname == "propagate":
            if any("_" in n and not n.startswith("_") and n in mod for n in gsj):
                tags.add("br:prop-ligmark-changed")
            if any(len(after[n]["a"]) > len(gsj[n]["a"]) and any(a[0].endswith(("_1", "_2", "_3")) for a in after[n]["a"][len(gsj[n]["a"]):]) for n in gsj if n in after):
                tags.add("br:prop-numbered")
        if fname == "transform" and mod:
            if any(b in mod for n in mod if n in gsj for b, _ in comps[n]):
                tags.add("br:tf-base-compensated")
        if fname == "skipExport":
            if any(n not in after for n in gsj):
                tags.add("br:skip-deleted")
            if any(n in after and after[n]["k"] and after[n] != gsj[n] for n in gsj):
                tags.add("br:skip-partial")
        if fname == "sort":
            if any(n in after and after[n]["c"] != gsj[n]["c"] for n in gsj):
                tags.add("br:sort-reordered")
    return sorted(tags)
