#!/bin/sh
# usage: mutcheck.sh <patch> <prop> [tier]   -- apply a seeded change to /repo, run the check, undo.
patch="$1"; prop="$2"; tier="${3:-quick}"
git -C /repo apply "$patch" || exit 3
cd /verif && ./check "$prop" --tier "$tier" 2>&1 | tail -4
rc=$?
git -C /repo checkout -- .
git -C /repo status --short | head -3
