#!/bin/sh
# usage: mutcheck.sh <patch> <prop> [tier]
# Runs a check against a seeded change WITHOUT touching /repo: the patch is applied in a scratch worktree of /repo
# and the harness imports that tree through PYTHONPATH (which takes precedence over /venv's editable install).
patch="$1"; prop="$2"; tier="${3:-quick}"
wt="/tmp/mutcheck.$$"
git -C /repo worktree add -q --detach "$wt" || exit 3
git -C "$wt" apply "$patch" || { git -C /repo worktree remove --force "$wt"; exit 3; }
cd /verif && cp "evidence/$prop.json" "/tmp/mutcheck.$$.ev" 2>/dev/null   # evidence belongs to runs on the unchanged tree
PYTHONPATH="$wt/Lib" ./check "$prop" --tier "$tier" 2>&1 | tail -4
[ -f "/tmp/mutcheck.$$.ev" ] && mv "/tmp/mutcheck.$$.ev" "evidence/$prop.json"
git -C /repo worktree remove --force "$wt"
