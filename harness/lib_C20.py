"""C20, designspace stream: masters compiled through compileInterpolatable{TTFs,OTFs}FromDS with <rules> whose
substitutions reach the feature writers as `extraSubstitutions` (script classification of rule alternates)."""
import logging

from ufo import build, err_kind

DFLT = "DFLT"
GEN_TAGS = ("mark", "mkmk", "abvm", "blwm", "curs")


def _strip(t):
    return t.strip()


# ------------------------------------------------------------------------------------------------ generation

def gen_ds(rng, mode, BASES, MARKS, OTTAGS):
    pool = ["latn", "grek", "cyrl", "hebr", "arab", "deva", "thai", "beng"]
    scripts = rng.sample(pool, rng.choice([1, 2, 2, 3, 3]))
    glyphs, order = {}, []

    def add(name, uni, anchors, width=500):
        if name not in glyphs:
            glyphs[name] = {"name": name, "width": width, "unicodes": [uni] if uni is not None else [], "anchors": anchors}
            order.append(name)
    bases_of = {}
    for s in scripts:
        bs = BASES[s][:2]
        bases_of[s] = [g for g, _ in bs]
        for g, u in bs:
            add(g, u, [["top", 250, 500]])
        for m, u in MARKS[s][:1]:
            add(m, u, [["_top", 0, 480]] + ([["top", 0, 700]] if rng.random() < 0.4 else []), 0)
    if not any(glyphs[g]["width"] == 0 for g in order) or rng.random() < 0.3:
        add("acutecomb", 0x301, [["_top", 0, 480]], 0)
    commons = []
    if rng.random() < 0.5:
        add("period", 0x2E, []); commons.append("period")
    # rules: the same glyph is often replaced in several rules, by a different alternate in each
    nrules = rng.choice([1, 2, 2, 2, 3, 3])
    rules = []
    shared = rng.random() < 0.8
    for r in range(nrules):
        subs = []
        for s in scripts:
            if rng.random() < (0.85 if shared else 0.45):
                for g in bases_of[s]:
                    if rng.random() < 0.9:
                        alt = "%s.r%d" % (g, r)
                        add(alt, None, [["top", 260, 500]] if rng.random() < 0.8 else [])
                        subs.append([g, alt])
        if not subs:
            g = bases_of[scripts[0]][0]
            alt = "%s.r%d" % (g, r)
            add(alt, None, [["top", 260, 500]])
            subs.append([g, alt])
        if rng.random() < 0.15:
            subs.append(list(subs[0]))                       # the same substitution twice
        rules.append({"name": "rule%d" % r, "subs": subs})
    alts_of = {}                                             # base glyph -> [alternates in rule order]
    for ru in rules:
        for a, b in ru["subs"]:
            if b not in alts_of.setdefault(a, []):
                alts_of[a].append(b)
    # kerning: per script on the plain letters, on the alternates of ONE rule, or mixed
    kerning = []
    for s in scripts:
        b = bases_of[s]
        r = rng.random()
        both = [k for k in range(nrules) if all(("%s.r%d" % (g, k)) in glyphs for g in b)]
        if r < 0.12:
            continue
        if r < 0.30 or not both:
            kerning.append([b[0], b[1], -rng.randrange(5, 80)])
        elif r < 0.80:
            k = rng.choice(both)
            kerning.append(["%s.r%d" % (b[0], k), "%s.r%d" % (b[1], k), -rng.randrange(5, 80)])
            if rng.random() < 0.2 and commons:
                kerning.append(["%s.r%d" % (b[0], k), commons[0], -rng.randrange(5, 40)])
        else:
            k = rng.choice(both)
            kerning.append([b[0], "%s.r%d" % (b[1], k), -rng.randrange(5, 80)])
            if rng.random() < 0.5:
                kerning.append(["%s.r%d" % (b[0], k), "%s.r%d" % (b[1], k), -rng.randrange(5, 80)])
    if commons and rng.random() < 0.3:
        kerning.append([commons[0], commons[0], -9])
    groups = {}
    if kerning and rng.random() < 0.2:
        l, r_, v = kerning[0]
        members = [l] + [a for a in alts_of.get(l, []) if rng.random() < 0.5]
        groups["public.kern1.g0"] = members
        kerning = [k for k in kerning if k[0] not in members] + [["public.kern1.g0", r_, v]]
    tags = [t for s in scripts for t in OTTAGS[s]]
    r = rng.random()
    if r < 0.70:
        lskind, ls = "all", [[DFLT, "dflt"]] + [[t, "dflt"] for t in tags]
    elif r < 0.85:
        lskind, ls = "all+langs", [[DFLT, "dflt"]] + [[t, "dflt"] for t in tags] + [[t, "TRK"] for t in tags if rng.random() < 0.5]
    elif r < 0.93:
        lskind, ls = "subset+DFLT", [[DFLT, "dflt"]] + [[t, "dflt"] for t in tags if rng.random() < 0.5]
    else:
        lskind, ls = "none", []
    fea = "".join("languagesystem %s %s;\n" % (s, l) for s, l in ls)
    two_axes = rng.random() < 0.5
    axes = [["wght", "Weight", 400, 400, 700]] + ([["wdth", "Width", 75, 100, 100]] if two_axes else [])
    masters = [{"loc": {"Weight": 400, "Width": 100}, "dx": 0}, {"loc": {"Weight": 700, "Width": 100}, "dx": 60}]
    if two_axes:
        masters.append({"loc": {"Weight": 400, "Width": 75}, "dx": -40})
    for i, ru in enumerate(rules):
        ax = axes[i % len(axes)]
        ru["conds"] = [[ax[1], 600, 700]] if ax[0] == "wght" else [[ax[1], 75, 80]]
    fd = {"glyphs": [glyphs[g] for g in order], "kerning": kerning, "groups": groups, "features": fea}
    # masters = per-master builds (compileInterpolatable*FromDS); vf = variable font with compatible master features (the
    # features are compiled ONCE, by VariableFeatureCompiler); vf-incompat = variable font whose masters' feature files
    # differ (per-master feature compilation, tables merged by varLib)
    path = rng.choice(["masters", "masters", "vf", "vf", "vf", "vf-incompat"])
    return {"kind": "ds", "fd": fd, "axes": axes, "masters": masters, "rules": rules, "langsys": ls, "lskind": lskind,
            "scripts": scripts, "lib": rng.choice(["ufoLib2", "defcon"]), "fmt": rng.choice(["ttf", "ttf", "otf"]), "path": path}


def _script_of_pair(k, fd, scripts, BASES):
    """the script whose letters (or their rule alternates) the FIRST side of a kerning entry belongs to, or None"""
    side = fd["groups"].get(k[0], [k[0]])[0]
    stem = side.split(".r")[0]
    for s in scripts:
        if stem in [g for g, _ in BASES[s][:2]]:
            return s
    return None


def gen_ds_uneven(rng, mode, BASES, MARKS, OTTAGS):
    """a designspace whose masters do NOT all carry the same kerning pairs: per script the pairs are in all masters, only in
    non-default masters (kerned in Bold only so far), only in the default master, or only in the last master.
    `kdrop` = [[master index, side1, side2]]: pairs absent from that master's kerning."""
    c = gen_ds(rng, mode, BASES, MARKS, OTTAGS)
    fd, nm = c["fd"], len(c["masters"])
    c["path"] = rng.choice(["vf", "vf", "vf", "vf", "masters"])
    if rng.random() < 0.75:
        tags = [t for s in c["scripts"] for t in OTTAGS[s]]
        c["langsys"] = [[DFLT, "dflt"]] + [[t, "dflt"] for t in tags] + [[t, "TRK"] for t in tags if rng.random() < 0.2]
        c["lskind"] = "all"
        fd["features"] = "".join("languagesystem %s %s;\n" % (s_, l) for s_, l in c["langsys"])
    have = {_script_of_pair(k, fd, c["scripts"], BASES) for k in fd["kerning"]}
    for s in c["scripts"]:
        if s not in have:                       # every script is kerned somewhere
            b = [g for g, _ in BASES[s][:2]]
            fd["kerning"].append([b[0], b[1], -rng.randrange(5, 80)])
    kinds, kdrop = {}, []
    order = list(c["scripts"]); rng.shuffle(order)
    for n, s in enumerate(order):
        r = rng.random()
        if n == 0 and len(order) > 1:
            kind = "all" if r < 0.8 else "nondefault-only"
        elif r < 0.55:
            kind = "nondefault-only"
        elif r < 0.70:
            kind = "last-only"
        elif r < 0.85:
            kind = "default-only"
        else:
            kind = "all"
        kinds[s] = kind
        drop = {"all": [], "nondefault-only": [0] + ([rng.choice([1, 2])] if nm > 2 and rng.random() < 0.3 else []),
                "last-only": list(range(nm - 1)), "default-only": list(range(1, nm))}[kind]
        for k in fd["kerning"]:
            if _script_of_pair(k, fd, c["scripts"], BASES) == s:
                for m in drop:
                    kdrop.append([m, k[0], k[1]])
    c["kdrop"] = kdrop
    c["kkinds"] = sorted(set(kinds.values()))
    return c


def corpus_ds_uneven():
    """Latin kerned in both masters, Greek only in the Bold (non-default) master; variable font and per-master builds"""
    g = [{"name": n, "width": 500, "unicodes": [u], "anchors": [["top", 250, 700]]}
         for n, u in (("A", 0x41), ("V", 0x56), ("Alpha", 0x391), ("Upsilon", 0x3A5))]
    g.append({"name": "acutecomb", "width": 0, "unicodes": [0x301], "anchors": [["_top", 0, 600], ["top", 0, 800]]})
    ls = [[DFLT, "dflt"], ["latn", "dflt"], ["latn", "TRK"], ["grek", "dflt"]]
    out = []
    for path, fmt in (("vf", "ttf"), ("vf", "otf"), ("masters", "ttf")):
        fd = {"glyphs": g, "kerning": [["A", "V", -40], ["V", "A", -40], ["Alpha", "Upsilon", -70], ["Upsilon", "Alpha", -70]],
              "groups": {}, "features": "".join("languagesystem %s %s;\n" % tuple(x) for x in ls)}
        out.append({"kind": "ds", "fd": fd, "axes": [["wght", "Weight", 400, 400, 700]],
                    "masters": [{"loc": {"Weight": 400}, "dx": 0}, {"loc": {"Weight": 700}, "dx": 60}], "rules": [],
                    "kdrop": [[0, "Alpha", "Upsilon"], [0, "Upsilon", "Alpha"]], "kkinds": ["all", "nondefault-only"],
                    "langsys": ls, "lskind": "corpus", "scripts": ["latn", "grek"], "lib": "ufoLib2", "fmt": fmt, "path": path})
    return out


def corpus_ds():
    """two rules replacing the same Greek letters (weight / width alternates); the Greek kerning is on the FIRST rule's"""
    g = [{"name": "a", "width": 500, "unicodes": [0x61], "anchors": [["top", 250, 500]]},
         {"name": "b", "width": 500, "unicodes": [0x62], "anchors": [["top", 250, 700]]},
         {"name": "alpha", "width": 500, "unicodes": [0x3B1], "anchors": [["top", 250, 500]]},
         {"name": "beta", "width": 500, "unicodes": [0x3B2], "anchors": [["top", 250, 700]]}]
    for sfx in (".bold", ".cond"):
        g.append({"name": "alpha" + sfx, "width": 500, "unicodes": [], "anchors": [["top", 260, 500]]})
        g.append({"name": "beta" + sfx, "width": 500, "unicodes": [], "anchors": [["top", 260, 700]]})
    g.append({"name": "acutecomb", "width": 0, "unicodes": [0x301], "anchors": [["_top", 0, 500], ["top", 0, 700]]})
    ls = [[DFLT, "dflt"], ["latn", "dflt"], ["grek", "dflt"]]
    out = []
    for first, path in ((".bold", "masters"), (".cond", "masters"), (".bold", "vf"), (".cond", "vf"), (".bold", "vf-incompat")):
        fd = {"glyphs": g, "kerning": [["a", "b", -20], ["alpha" + first, "beta" + first, -30]], "groups": {},
              "features": "".join("languagesystem %s %s;\n" % tuple(x) for x in ls)}
        out.append({"kind": "ds", "fd": fd, "axes": [["wght", "Weight", 400, 400, 700], ["wdth", "Width", 75, 100, 100]],
                    "masters": [{"loc": {"Weight": 400, "Width": 100}, "dx": 0}, {"loc": {"Weight": 700, "Width": 100}, "dx": 60},
                                {"loc": {"Weight": 400, "Width": 75}, "dx": -40}],
                    "rules": [{"name": "bold", "conds": [["Weight", 600, 700]], "subs": [["alpha", "alpha.bold"], ["beta", "beta.bold"]]},
                              {"name": "cond", "conds": [["Width", 75, 80]], "subs": [["alpha", "alpha.cond"], ["beta", "beta.cond"]]}],
                    "langsys": ls, "lskind": "corpus", "scripts": ["latn", "grek"], "lib": "ufoLib2", "fmt": "ttf", "path": path})
    return out


# ------------------------------------------------------------------------------------------------ observation

def _master_fd(fd, dx, idx=0, kdrop=()):
    out = dict(fd)
    out["glyphs"] = [dict(g, width=(g["width"] + dx if g["width"] else 0),
                          anchors=[[a[0], a[1] + dx // 2, a[2]] for a in g["anchors"]]) for g in fd["glyphs"]]
    out["kerning"] = [[l, r, v - dx // 10] for l, r, v in fd["kerning"] if [idx, l, r] not in [list(x) for x in kdrop]]
    out["info"] = {"familyName": "C20 DS", "styleName": "M%d" % dx, "ascender": 800, "descender": -200, "xHeight": 500,
                   "capHeight": 700}
    return out


def make_designspace(case):
    from fontTools.designspaceLib import AxisDescriptor, DesignSpaceDocument, RuleDescriptor, SourceDescriptor
    ds = DesignSpaceDocument()
    names = set()
    for tag, name, lo, de, hi in case["axes"]:
        ax = AxisDescriptor()
        ax.tag, ax.name, ax.minimum, ax.default, ax.maximum = tag, name, lo, de, hi
        ds.addAxis(ax); names.add(name)
    for i, m in enumerate(case["masters"]):
        src = SourceDescriptor()
        mfd = _master_fd(case["fd"], m["dx"], i, case.get("kdrop") or ())
        if case.get("path") == "vf-incompat" and i == 1:
            # a feature file that differs from the default master's (GSUB only, inside one script)
            b = [g["name"] for g in case["fd"]["glyphs"] if g["unicodes"] and g["width"]][:2]
            if len(b) == 2:
                mfd["features"] = (mfd["features"] or "") + "feature ss01 { sub %s by %s; } ss01;\n" % (b[0], b[1])
        src.font = build(mfd, case["lib"])
        src.name = "master.%d" % i
        src.familyName, src.styleName = "C20 DS", "M%d" % i
        src.location = {k: v for k, v in m["loc"].items() if k in names}
        ds.addSource(src)
    for ru in case["rules"]:
        rd = RuleDescriptor()
        rd.name = ru["name"]
        rd.conditionSets = [[{"name": n, "minimum": lo, "maximum": hi} for n, lo, hi in ru["conds"]]]
        rd.subs = [tuple(s) for s in ru["subs"]]
        ds.addRule(rd)
    return ds


def canon_map(m):
    return sorted([k, sorted(set(v))] for k, v in m)


def run_ds(case, glyph_scripts):
    import ufo2ft
    import gpos
    from ufo2ft._compilers import baseCompiler as bc
    from ufo2ft.util import classifyGlyphs
    logging.getLogger("ufo2ft").setLevel(logging.CRITICAL)
    logging.getLogger("fontTools").setLevel(logging.CRITICAL)
    fd = case["fd"]
    cap = {"writers": []}
    orig = bc.BaseInterpolatableCompiler._pre_compile_designspace
    from ufo2ft.featureWriters import baseFeatureWriter as bfw
    orig_w = bfw.BaseFeatureWriter.extraSubstitutions

    def wrapped(self, doc):
        res = orig(self, doc)
        cap["extras"] = {k: set(v) for k, v in (self.extraSubstitutions or {}).items()}
        return res

    def wrapped_w(self):
        # what a feature writer actually receives (None when the feature compiler was not given the mapping)
        res = orig_w(self)
        comp = type(self.context.compiler).__name__
        entry = [comp, canon_map((res or {}).items())]
        if entry not in cap["writers"]:
            cap["writers"].append(entry)
        return res
    from ufo2ft.featureWriters import kernFeatureWriter as kfw
    orig_v = kfw.KernFeatureWriter.__dict__["getVariableKerningPairs"]
    cap["varpairs"] = []

    def wrapped_v(designspace, side1Classes, side2Classes, glyphSet, options):
        res = orig_v.__func__(designspace, side1Classes, side2Classes, glyphSet, options)
        inv = {tuple(v): k for k, v in list(side1Classes.items()) + list(side2Classes.items())}
        srcs = [[src.layerName is not None, sorted([a, b] for a, b in src.font.kerning.keys())] for src in designspace.sources]
        known = sorted(set(side1Classes) | set(side2Classes) | set(glyphSet))
        got = sorted({(inv[p.side1] if isinstance(p.side1, tuple) else p.side1,
                       inv[p.side2] if isinstance(p.side2, tuple) else p.side2) for p in res})
        cap["varpairs"].append({"sources": srcs, "known": known, "obs": [list(x) for x in got]})
        return res
    bc.BaseInterpolatableCompiler._pre_compile_designspace = wrapped
    bfw.BaseFeatureWriter.extraSubstitutions = wrapped_w
    kfw.KernFeatureWriter.getVariableKerningPairs = staticmethod(wrapped_v)
    path = case.get("path", "masters")
    err, fonts = None, []
    try:
        ds = make_designspace(case)
        if path == "masters":
            if case["fmt"] == "ttf":
                res = ufo2ft.compileInterpolatableTTFsFromDS(ds)
            else:
                res = ufo2ft.compileInterpolatableOTFsFromDS(ds)
            fonts = [s.font for s in res.sources]
        elif case["fmt"] == "ttf":
            fonts = [ufo2ft.compileVariableTTF(ds)]
        else:
            fonts = [ufo2ft.compileVariableCFF2(ds)]
    except Exception as e:
        err = err_kind(e)
    finally:
        bc.BaseInterpolatableCompiler._pre_compile_designspace = orig
        bfw.BaseFeatureWriter.extraSubstitutions = orig_w
        kfw.KernFeatureWriter.getVariableKerningPairs = orig_v
    rules = [[list(s) for s in ru["subs"]] for ru in case["rules"]]
    reqs = []
    sources = {a for ru in rules for a, _ in ru}
    multi = any(len({b for ru in rules for a_, b in ru if a_ == a}) > 1 for a in sources)
    base_tags = ["ds", "ds:" + case["fmt"], "ds:ls:" + case["lskind"], "ds:rules:%d" % len(rules),
                 "ds:glyph-in-several-rules" if multi else "ds:one-rule-per-glyph", "ds:path:" + path]
    vfc = [w for w in cap["writers"] if w[0] == "VariableFeatureCompiler"]
    if path != "masters" and err is None:
        base_tags.append("ds:features-compiled-once" if vfc else "ds:features-per-master")
    # (1) the mapping: on the compiler object, and as received by the feature writers of each feature compiler
    if "extras" in cap:
        obs = canon_map(cap["extras"].items())
        reqs.append({"op": "extrasubs", "in": {"rules": rules, "path": "masters"}, "obs": obs,
                     "tags": ["extrasubs", "extrasubs:compiler-object"] + base_tags[4:5], "nontrivial": multi})
    for comp, wobs in cap["writers"]:
        reqs.append({"op": "extrasubs", "in": {"rules": rules, "path": "variable" if comp == "VariableFeatureCompiler" else "masters"},
                     "obs": wobs, "tags": ["extrasubs", "extrasubs:writers:" + comp] + base_tags[4:5], "nontrivial": multi})
    if "extras" in cap or cap["writers"]:
        obs = cap["writers"][-1][1] if cap["writers"] else canon_map(cap["extras"].items())
        extras_py = {k: set(v) for k, v in obs}
        # (2) the classification step on that mapping (function level, gsub=None)
        gs = glyph_scripts(fd)
        cmap = {g["unicodes"][0]: g["name"] for g in fd["glyphs"] if g["unicodes"]}
        props = {u: (sorted(gs[n]) if gs[n] else None) for u, n in cmap.items()}
        sets0 = {}
        for u, n in sorted(cmap.items()):
            for t in props[u] or []:
                sets0.setdefault(t, []).append(n)
        try:
            got = classifyGlyphs(lambda u: props[u], cmap, None, extras_py)
            cobs = canon_map(got.items())
        except Exception as e:
            cobs = [["!" + err_kind(e), []]]
        reqs.append({"op": "classify", "in": {"extras": obs, "sets": sorted([k, v] for k, v in sets0.items())}, "obs": cobs,
                     "tags": ["classify"], "nontrivial": multi})
    # (3) every master's compiled ScriptList against the converse direction
    own = []
    gs = glyph_scripts(fd)
    for g in fd["glyphs"]:
        t = gs[g["name"]]
        own.append([g["name"], [] if not g["unicodes"] else (["*"] if t is None else sorted(t))])
    kdrop = [list(x) for x in case.get("kdrop") or ()]

    def pairs_of(masters):
        """kerning pairs (groups expanded) present in at least one of the masters with these indices"""
        out = []
        for l, r, _ in fd["kerning"]:
            if all([m, l, r] in kdrop for m in masters):
                continue
            for a in fd["groups"].get(l, [l]):
                for b in fd["groups"].get(r, [r]):
                    out.append([a, b])
        return out
    every = list(range(len(case["masters"])))
    # a variable font carries the kerning of EVERY master; a per-master build that of its own master
    spec = {"rules": rules, "own": own, "pairs": pairs_of(every)}
    if kdrop:
        kk = case.get("kkinds") or []
        base_tags += ["ds:uneven-kerning"] + ["ds:kern:" + k for k in kk]
    # (0) function level: the pair universe of getVariableKerningPairs (variable builds only)
    for vp in cap["varpairs"]:
        uneven = len({tuple(map(tuple, s_[1])) for s_ in vp["sources"] if not s_[0]}) > 1
        reqs.append({"op": "varpairs", "in": {"sources": vp["sources"], "known": vp["known"]}, "obs": vp["obs"],
                     "tags": ["varpairs", "varpairs:uneven" if uneven else "varpairs:same-in-all-masters"], "nontrivial": uneven})
    if err is not None:
        reqs.append({"op": "ds", "in": spec, "obs": {"err": err}, "tags": base_tags + ["ds:err:" + err], "nontrivial": False})
        return reqs
    seen = []
    for fi, tt in enumerate(fonts):
        if path == "masters" and kdrop and len(fonts) == len(every):
            spec = dict(spec, pairs=pairs_of([fi]))
        reach = []
        if "GPOS" in tt:
            for s, langs in gpos.script_features(tt).items():
                for l, fl in langs.items():
                    for tag, _ in fl:
                        reach.append([_strip(s), _strip(l), tag])
        reach.sort()
        if [reach, spec["pairs"]] in seen:
            continue
        seen.append([reach, spec["pairs"]])
        feats = {k[2] for k in reach}
        nontriv = bool(feats & {"kern", "dist"}) and bool(feats & set(GEN_TAGS))
        reqs.append({"op": "ds", "in": spec, "obs": {"err": None, "reach": reach},
                     "tags": base_tags + ["ds:gen:" + f for f in sorted(feats)], "nontrivial": nontriv})
    # the property-level observation first (it is the one reported and shrunk when several requests of a case fail)
    return [r for r in reqs if r["op"] == "ds"] + [r for r in reqs if r["op"] != "ds"]


# ------------------------------------------------------------------------------------------------ cross-script kerning buckets

X_LTR = {"latn": [("a", 0x61), ("b", 0x62)], "grek": [("alpha", 0x3B1), ("beta", 0x3B2)], "cyrl": [("becy", 0x431), ("vecy", 0x432)],
         "armn": [("aybarm", 0x561), ("benarm", 0x562)], "geor": [("angeor", 0x10D0), ("bangeor", 0x10D1)],
         "thai": [("kokaithai", 0xE01), ("khokhaithai", 0xE02)]}
X_RTL = {"hebr": [("alefhebr", 0x5D0), ("bethebr", 0x5D1)], "arab": [("behar", 0x628), ("alefar", 0x627)],
         "syrc": [("alaphsyr", 0x710), ("bethsyr", 0x712)], "thaa": [("haathaa", 0x780), ("shaviyanithaa", 0x781)],
         "nko": [("anko", 0x7CA), ("eenko", 0x7CB)]}


def _links(rng, scripts):
    """cross-script links over `scripts`: a chain (path) through all of them, sometimes a star or two separate components,
    in a RANDOM storage order (the order of first occurrence decides the order of the buckets)"""
    n = len(scripts)
    r = rng.random()
    if r < 0.6:
        links = [(scripts[i], scripts[i + 1]) for i in range(n - 1)]                # chain
    elif r < 0.75:
        links = [(scripts[0], scripts[i]) for i in range(1, n)]                      # star
    elif r < 0.9 and n >= 4:
        links = [(scripts[0], scripts[1]), (scripts[2], scripts[3])]                 # two components
        if n >= 5:
            links.append((scripts[3], scripts[4]))
    else:
        links = [tuple(rng.sample(scripts, 2)) for _ in range(n)]
        links = list(dict.fromkeys(links))
    rng.shuffle(links)
    return links


def gen_xfont(rng, mode):
    pool = X_LTR if rng.random() < 0.75 else X_RTL
    k = rng.choice([3, 4, 4, 4, 5, 5])
    scripts = rng.sample(sorted(pool), min(k, len(pool)))
    glyphs = []
    for s in scripts:
        for g, u in pool[s]:
            glyphs.append({"name": g, "width": 500, "unicodes": [u], "anchors": [["top", 250, 500]]})
    glyphs.append({"name": "acutecomb", "width": 0, "unicodes": [0x301], "anchors": [["_top", 0, 480]]})
    kerning = []
    for s1, s2 in _links(rng, scripts):
        a, b = rng.choice(pool[s1])[0], rng.choice(pool[s2])[0]
        if rng.random() < 0.5:
            a, b = b, a
        kerning.append([a, b, -rng.randrange(5, 60)])
    # kerning inside a script for some scripts only (a script kerned ONLY across scripts has no bucket of its own)
    extra = []
    for s in scripts:
        if rng.random() < 0.3:
            extra.append([pool[s][0][0], pool[s][1][0], -rng.randrange(5, 60)])
    for e in extra:
        kerning.insert(rng.randrange(len(kerning) + 1), e)
    seen, kk = set(), []
    for l, r, v in kerning:
        if (l, r) not in seen:
            seen.add((l, r)); kk.append([l, r, v])
    from fontTools import unicodedata as ud
    tags = []
    for s in scripts:
        for t in ud.ot_tags_from_script(ud.script(chr(pool[s][0][1]))):
            tags.append(t.strip())
    r = rng.random()
    if r < 0.7:
        lskind, ls = "all", [[DFLT, "dflt"]] + [[t, "dflt"] for t in tags]
    elif r < 0.85:
        lskind, ls = "all+langs", [[DFLT, "dflt"]] + [[t, "dflt"] for t in tags] + [[t, "TRK"] for t in tags if rng.random() < 0.5]
    else:
        lskind, ls = "subset+DFLT", [[DFLT, "dflt"]] + [[t, "dflt"] for t in tags if rng.random() < 0.7]
    fea = "".join("languagesystem %s %s;\n" % (s, l) for s, l in ls)
    fd = {"glyphs": glyphs, "kerning": kk, "groups": {}, "features": fea}
    return {"kind": "xfont", "fd": fd, "langsys": ls, "lskind": lskind, "ukinds": ["nouser"], "scripts": scripts,
            "lib": rng.choice(["ufoLib2", "defcon"]), "fmt": rng.choice(["ttf", "ttf", "otf"])}


def corpus_xfont():
    """four LTR scripts chained Latn-Grek, Cyrl-Armn, Grek-Cyrl (the linking pair stored LAST)"""
    glyphs = []
    for s in ("latn", "grek", "cyrl", "armn"):
        for g, u in X_LTR[s]:
            glyphs.append({"name": g, "width": 500, "unicodes": [u], "anchors": [["top", 250, 500]]})
    glyphs.append({"name": "acutecomb", "width": 0, "unicodes": [0x301], "anchors": [["_top", 0, 480]]})
    ls = [[DFLT, "dflt"]] + [[t, "dflt"] for t in ("latn", "grek", "cyrl", "armn")]
    out = []
    for order in ([0, 1, 2], [0, 2, 1]):
        k = [["a", "alpha", -11], ["vecy", "aybarm", -22], ["beta", "becy", -33]]
        fd = {"glyphs": glyphs, "kerning": [k[i] for i in order], "groups": {},
              "features": "".join("languagesystem %s %s;\n" % tuple(x) for x in ls)}
        out.append({"kind": "xfont", "fd": fd, "langsys": ls, "lskind": "corpus", "ukinds": ["nouser"],
                    "scripts": ["latn", "grek", "cyrl", "armn"], "lib": "ufoLib2", "fmt": "ttf"})
    return out


def run_xfont(case, run_font, glyph_scripts):
    from fontTools import unicodedata as ud
    reqs = run_font(case)
    obs = next((r["obs"] for r in reqs if r["op"] in ("e2e", "build")), None)
    if obs is None or obs.get("err") is not None:
        return reqs
    fd = case["fd"]
    gs = glyph_scripts(fd)
    own = [[g["name"], [] if not g["unicodes"] else (["*"] if gs[g["name"]] is None else sorted(gs[g["name"]]))] for g in fd["glyphs"]]
    pairs = [[a, b] for l, r, _ in fd["kerning"] for a in fd["groups"].get(l, [l]) for b in fd["groups"].get(r, [r])]
    dirs = {}
    for g in fd["glyphs"]:
        for u in g["unicodes"]:
            for sc in ud.script_extension(chr(u)):
                for t in ud.ot_tags_from_script(sc):
                    dirs[t.strip()] = ud.script_horizontal_direction(sc, "LTR")
    feats = {k[2] for k in obs["reach"]}
    nbuckets = len({tuple(sorted(t for x in (l, r) for t in (gs.get(x) or []))) for l, r, _ in fd["kerning"]})
    x = {"op": "xkern", "in": {"own": own, "pairs": pairs, "dirs": sorted([k, v] for k, v in dirs.items())}, "obs": obs,
         "tags": ["xkern", "xkern:scripts:%d" % len(case["scripts"]), "xkern:ls:" + case["lskind"],
                  "xkern:" + ("RTL" if "RTL" in dirs.values() else "LTR")] + ["xkern:gen:" + f for f in sorted(feats)],
         "nontrivial": bool(feats & {"kern", "dist"}) and bool(feats & set(GEN_TAGS)) and nbuckets >= 3}
    return [x] + reqs


SYN = ["Latn", "Grek", "Cyrl", "Armn", "Geor", "Copt", "Hebr", "Arab"]


def gen_merge(rng, mode):
    """a kerningPerScript dict: keys = sorted script tuples (1-3 scripts), in random order; values = abstract pair ids"""
    k = rng.choice([4, 5, 6, 7, 8])
    scripts = rng.sample(SYN, k)
    keys = []
    r = rng.random()
    if r < 0.5:
        keys = [(scripts[i], scripts[i + 1]) for i in range(k - 1)]                  # chain of two-script buckets
        keys = [x for x in keys if rng.random() < 0.85]
    elif r < 0.8:
        for _ in range(rng.randrange(2, 7)):
            keys.append(tuple(rng.sample(scripts, rng.choice([1, 2, 2, 3]))))
    else:
        keys = [(scripts[0], scripts[i]) for i in range(1, k)]
    for s in scripts:
        if rng.random() < 0.3:
            keys.append((s,))
    keys = list(dict.fromkeys(tuple(sorted(x)) for x in keys)) or [(scripts[0],)]
    rng.shuffle(keys)
    if rng.random() < (0.03 if mode == "search" else 0.01):
        keys.insert(rng.randrange(len(keys) + 1), ())                                # an empty bucket key: AssertionError
    out, nid = [], 0
    for key in keys:
        n = rng.choice([1, 1, 2, 3])
        out.append([list(key), list(range(nid, nid + n))]); nid += n
    return out


def run_merge(item):
    from ufo2ft.featureWriters import kernFeatureWriter as kfw
    kps = {tuple(k): list(v) for k, v in item}
    try:
        res = kfw.mergeScripts(kps)
        obs = {"err": None, "buckets": [[list(k), list(v)] for k, v in res.items()]}
    except Exception as e:
        obs = {"err": err_kind(e)}
    nb = len(obs.get("buckets", []))
    two = sum(1 for k, _ in item if len(k) >= 2)
    return {"op": "merge", "in": item, "obs": obs,
            "tags": ["merge", "merge:err:" + str(obs["err"]), "merge:in:%d" % min(len(item), 6), "merge:out:%d" % min(nb, 4),
                     "merge:merged" if nb < len(item) else "merge:nothing-to-merge"],
            "nontrivial": two >= 3 and nb < len(item)}


def canon_buckets(b):
    return [[sorted(k), list(v)] for k, v in b]
