"""C14: model inputs and exact observations for DottedCircleFilter and ExplodeColorLayerGlyphsFilter.

Both filters read and write the SOURCE font, so the font's relevant parts travel to the model (before the call) and are
observed again (after the call): default-layer glyphs with their code points, lib[public.openTypeCategories], the
GlyphClassDef statements of the GDEF table blocks of the features (through feaLib's parser), whether the feature text
changed; all layers, lib[colorLayerMapping] / lib[colorLayers].  The glyph set the filter worked on is read from
`filter.context.glyphSet` (with glyphSet=None it is created inside the call and otherwise invisible).
"""
import json

from ufo import build, rat
import lib_C14 as L

CATS = "public.openTypeCategories"
CLM = "com.github.googlei18n.ufo2ft.colorLayerMapping"
CL = "com.github.googlei18n.ufo2ft.colorLayers"


def snap_lglyph(g):
    d = L.snap_glyph(g)
    d["u"] = [int(u) for u in g.unicodes]
    m = g.lib.get(CLM)
    d["m"] = None if m is None else [[str(a), int(b)] for a, b in m]
    return d


def _gdef(font, canonical=False):
    """(None | [None | [base glyph names]] per GlyphClassDef statement of the GDEF blocks, canonical?)
    Parsed WITHOUT a glyph-name check: after the call the text may name a glyph the font does not have."""
    import io
    from fontTools.feaLib.parser import Parser
    from ufo2ft.featureWriters import ast
    text = font.features.text or ""
    fea = Parser(io.StringIO(text), glyphNames=()).parse()
    canon = None
    if canonical:
        from ufo2ft.featureCompiler import parseLayoutFeatures
        canon = parseLayoutFeatures(font).asFea() == text          # what ensure_base would write back unchanged
    if ast.findTable(fea, "GDEF") is None:
        return None, canon
    out = []
    for st in fea.statements:
        if isinstance(st, ast.TableBlock) and st.name == "GDEF":
            for st2 in st.statements:
                if isinstance(st2, ast.GlyphClassDefStatement):
                    out.append(None if st2.baseGlyphs is None else [str(x) for x in st2.baseGlyphs.glyphSet()])
    return out, canon


def _cats(font):
    c = font.lib.get(CATS)
    return None if c is None else sorted([str(k), str(v)] for k, v in c.items())


def _bw(font, g):
    b = g.getBounds(font)
    return None if b is None else rat(b.xMax - b.xMin)


def dc_before(font, fd, case, opts, view):
    import ufo2ft.filters as F
    scratch = build(json.loads(json.dumps(dict(fd, lib={}, features=""))), "ufoLib2")
    f = F.DottedCircleFilter(**opts)
    f.set_context(scratch, {})
    drawn = L.snap_glyph(f.draw_dotted_circle({}))          # the outline is external to the model
    gdef, canonical = _gdef(font, True)
    return {"kind": "dc",
            "glyphs": [[g.name, L.snap_glyph(g), [int(u) for u in g.unicodes], _bw(font, g)]
                       for g in font.layers.defaultLayer],
            "cats": _cats(font), "gdef": gdef, "feaCanonical": canonical,
            "shared": case["gsmode"] == "inplace", "drawn": drawn, "gs": L.snap_glyphset(view)}


def dc_after(font, filt, text0):
    gdef, _ = _gdef(font)
    ctx = getattr(filt, "context", None)
    return {"gs": L.snap_glyphset(ctx.glyphSet), "font": [[g.name, L.snap_glyph(g)] for g in font.layers.defaultLayer],
            "cats": _cats(font), "gdef": gdef, "feaChanged": (font.features.text or "") != text0}


def _layers(font):
    return [[layer.name, [[g.name, snap_lglyph(g)] for g in layer]] for layer in font.layers]


def _cl(font):
    c = font.lib.get(CL)
    return None if c is None else sorted([str(k), [[str(a), int(b)] for a, b in v]] for k, v in c.items())


def ex_before(font, view):
    m = font.lib.get(CLM)
    return {"kind": "ex", "gs": [[k, snap_lglyph(view[k])] for k in view.keys()], "layers": _layers(font),
            "globalMap": None if m is None else [[str(a), int(b)] for a, b in m], "colorLayers": _cl(font)}


def ex_after(font, filt):
    ctx = getattr(filt, "context", None)
    gs = ctx.glyphSet
    return {"gs": [[k, snap_lglyph(gs[k])] for k in gs.keys()], "layers": _layers(font), "colorLayers": _cl(font)}


RESOURCE_ERRS = ("TimeoutError", "MemoryError")


def _close_anchor_ties(mgs, ogs, ties):
    """the glyph sets are equal except that, where the exact value is a rounding tie of otRound (flagged by the model),
    a new anchor's coordinate may be the other neighbour (the code computes x / width * W in doubles)"""
    if [k for k, _ in mgs] != [k for k, _ in ogs]:
        return False
    for (k, mg), (_, og) in zip(mgs, ogs):
        if mg == og:
            continue
        if not any(ties) or dict(mg, a=None) != dict(og, a=None) or len(mg["a"]) != len(og["a"]):
            return False
        for ma, oa in zip(mg["a"], og["a"]):
            if ma == oa:
                continue
            if ma[0] != oa[0] or abs(int(ma[1]) - int(oa[1])) > 1 or abs(int(ma[2]) - int(oa[2])) > 1:
                return False
    return True


def agree(impl, m, o):
    if len(m["calls"]) != len(o["calls"]):
        return False
    for mc, oc in zip(m["calls"], o["calls"]):
        if oc["err"] in RESOURCE_ERRS:
            continue
        if mc["err"] != oc["err"]:
            return False
        if mc["err"] is not None:
            continue
        sp = oc["sp"]
        if mc["modified"] != oc["modified"]:
            return False
        if impl == "dottedCircle":
            if not _close_anchor_ties(mc["gs"], sp["gs"], mc["ties"]) or not _close_anchor_ties(mc["font"], sp["font"], mc["ties"]):
                return False
            if mc["cats"] != sp["cats"] or mc["gdef"] != sp["gdef"] or mc["feaChanged"] != sp["feaChanged"]:
                return False
        else:
            if mc["gs"] != sp["gs"] or mc["layers"] != sp["layers"] or mc["colorLayers"] != sp["colorLayers"]:
                return False
    return True


def tags(sp, o):
    out = []
    if o["err"] is not None or "sp" not in o:
        return out
    a = o["sp"]
    if sp["kind"] == "dc":
        b, g = dict(sp["gs"]), dict(a["gs"])
        enc = [n for n, _, u, _ in sp["glyphs"] if 0x25CC in u]
        out.append("S:dc-encoded" if enc else "S:dc-not-encoded")
        if enc and enc[0] not in b:
            out.append("S:dc-do-nothing")
        if enc and enc[0] in b and not b[enc[0]]["c"]:
            out.append("S:dc-encoded-without-outline")
        if "uni25CC" in g and g.get("uni25CC") != b.get("uni25CC") and g["uni25CC"]["c"] == sp["drawn"]["c"]:
            out.append("S:dc-drawn")
        if any(len(g[k]["a"]) > len(b[k]["a"]) for k in g if k in b) or (
                "uni25CC" in g and "uni25CC" not in b and g["uni25CC"]["a"]):
            out.append("S:dc-anchors-added")
        out.append("S:dc-gdef" if sp["gdef"] is not None else ("S:dc-cats" if sp["cats"] is not None else "S:dc-no-cats"))
        if a["cats"] != sp["cats"]:
            out.append("S:dc-cats-written")
        if a["feaChanged"]:
            out.append("S:dc-features-written")
        if sp["shared"]:
            out.append("S:shared")
    else:
        b, g = dict(sp["gs"]), dict(a["gs"])
        if len(g) > len(b):
            out.append("S:ex-added")
        if any(v["k"] for k, v in g.items() if k not in b):
            out.append("S:ex-added-composite")
        if sp["colorLayers"] is not None:
            out.append("S:ex-skip")
        if any(v["m"] is not None for v in b.values()):
            out.append("S:ex-glyph-mapping")
        if a["layers"] != sp["layers"]:
            out.append("S:ex-layer-glyphs-written")
        if o["modified"] and not (len(g) > len(b)):
            out.append("S:ex-reported-without-adding")
    return out
