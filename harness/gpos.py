"""Independent reader/interpreter of compiled GPOS/GDEF tables (over fontTools' decompiled otTables),
written from the OpenType specification, not from feaLib.  Used to observe what a shaper would do.

Semantics implemented:
 * ScriptList / LangSys -> feature indices -> lookup indices; lookups are applied in LookupList order.
 * a lookup applies its FIRST subtable that matches (then stops); Extension (type 9) is unwrapped.
 * PairPos 1/2 on an adjacent glyph pair; LookupFlag IgnoreMarks makes the lookup skip mark glyphs (GDEF class 3),
   so a pair containing a mark is not adjusted by such a lookup.
 * MarkBasePos / MarkLigPos / MarkMarkPos: offset = base(or ligature component, or mark2) anchor - mark anchor;
   a later lookup overrides an earlier one.
 * CursivePos entry/exit records and the RightToLeft flag.
"""


def _val(vr, name):
    return 0 if vr is None else (getattr(vr, name, 0) or 0)


def gdef_classes(tt):
    if "GDEF" not in tt or tt["GDEF"].table.GlyphClassDef is None:
        return {}
    return dict(tt["GDEF"].table.GlyphClassDef.classDefs)


def lig_carets(tt):
    if "GDEF" not in tt or getattr(tt["GDEF"].table, "LigCaretList", None) is None:
        return {}
    lcl = tt["GDEF"].table.LigCaretList
    out = {}
    for g, lg in zip(lcl.Coverage.glyphs, lcl.LigGlyph):
        out[g] = [cv.Coordinate for cv in lg.CaretValue]
    return out


def script_features(tt, table="GPOS"):
    """{script: {lang: [(featureTag, [lookup indices])...]}}; lang 'dflt' = DefaultLangSys"""
    if table not in tt:
        return {}
    t = tt[table].table
    if t.ScriptList is None:
        return {}
    feats = t.FeatureList.FeatureRecord
    out = {}
    for sr in t.ScriptList.ScriptRecord:
        langs = {}
        if sr.Script.DefaultLangSys is not None:
            langs["dflt"] = sr.Script.DefaultLangSys
        for lr in sr.Script.LangSysRecord:
            langs[lr.LangSysTag] = lr.LangSys
        out[sr.ScriptTag] = {
            lang: [(feats[i].FeatureTag, list(feats[i].Feature.LookupListIndex)) for i in
                   ([ls.ReqFeatureIndex] if ls.ReqFeatureIndex != 0xFFFF else []) + list(ls.FeatureIndex)]
            for lang, ls in langs.items()}
    return out


def lookups_for(tt, script, lang="dflt", features=None, table="GPOS"):
    """sorted lookup indices activated for script/lang by the given feature tags (None = all)"""
    sf = script_features(tt, table).get(script)
    if sf is None:
        return None
    fl = sf.get(lang, sf.get("dflt"))
    if fl is None:
        return None
    idx = set()
    for tag, lks in fl:
        if features is None or tag in features:
            idx.update(lks)
    return sorted(idx)


def _subtables(lookup):
    for st in lookup.SubTable:
        if lookup.LookupType == 9:
            yield st.ExtensionLookupType, st.ExtSubTable
        else:
            yield lookup.LookupType, st


def pair_adjust(tt, lookup_indices, g1, g2):
    """total (xAdv1, xPla1, xAdv2, xPla2, number of lookups that applied) for adjacent glyphs g1 g2"""
    lookups = tt["GPOS"].table.LookupList.Lookup
    classes = gdef_classes(tt)
    tot = [0, 0, 0, 0, 0]
    for li in lookup_indices:
        lk = lookups[li]
        if lk.LookupFlag & 0x0008 and (classes.get(g1) == 3 or classes.get(g2) == 3):
            continue
        for typ, st in _subtables(lk):
            if typ != 2:
                continue
            cov = st.Coverage.glyphs
            if g1 not in cov:
                continue
            hit = None
            if st.Format == 1:
                ps = st.PairSet[cov.index(g1)]
                for pvr in ps.PairValueRecord:
                    if pvr.SecondGlyph == g2:
                        hit = (pvr.Value1, pvr.Value2); break
                if hit is None:
                    continue            # not in this subtable: try the next subtable
            else:
                c1 = st.ClassDef1.classDefs.get(g1, 0)
                c2 = st.ClassDef2.classDefs.get(g2, 0)
                rec = st.Class1Record[c1].Class2Record[c2]
                hit = (rec.Value1, rec.Value2)   # format 2 always "matches" once g1 is covered
            v1, v2 = hit
            tot[0] += _val(v1, "XAdvance"); tot[1] += _val(v1, "XPlacement")
            tot[2] += _val(v2, "XAdvance"); tot[3] += _val(v2, "XPlacement")
            tot[4] += 1
            break
    return tot


def _anchor(a):
    return None if a is None else (a.XCoordinate, a.YCoordinate)


def mark_attach(tt, lookup_indices, base, mark, component=None):
    """offset (dx, dy) a shaper ends up with for `mark` following `base` (MarkBasePos, MarkMarkPos, and MarkLigPos
    when `component` (0-based) is given), or None; plus the list of (lookup, type) that applied."""
    lookups = tt["GPOS"].table.LookupList.Lookup
    res, applied = None, []
    for li in lookup_indices:
        lk = lookups[li]
        for typ, st in _subtables(lk):
            off = None
            if typ == 4 and component is None:
                if mark in st.MarkCoverage.glyphs and base in st.BaseCoverage.glyphs:
                    mr = st.MarkArray.MarkRecord[st.MarkCoverage.glyphs.index(mark)]
                    ba = st.BaseArray.BaseRecord[st.BaseCoverage.glyphs.index(base)].BaseAnchor[mr.Class]
                    if ba is not None:
                        b, m = _anchor(ba), _anchor(mr.MarkAnchor)
                        off = (b[0] - m[0], b[1] - m[1])
            elif typ == 6 and component is None:
                if mark in st.Mark1Coverage.glyphs and base in st.Mark2Coverage.glyphs:
                    mr = st.Mark1Array.MarkRecord[st.Mark1Coverage.glyphs.index(mark)]
                    ba = st.Mark2Array.Mark2Record[st.Mark2Coverage.glyphs.index(base)].Mark2Anchor[mr.Class]
                    if ba is not None:
                        b, m = _anchor(ba), _anchor(mr.MarkAnchor)
                        off = (b[0] - m[0], b[1] - m[1])
            elif typ == 5 and component is not None:
                if mark in st.MarkCoverage.glyphs and base in st.LigatureCoverage.glyphs:
                    mr = st.MarkArray.MarkRecord[st.MarkCoverage.glyphs.index(mark)]
                    comps = st.LigatureArray.LigatureAttach[st.LigatureCoverage.glyphs.index(base)].ComponentRecord
                    if component < len(comps):
                        ba = comps[component].LigatureAnchor[mr.Class]
                        if ba is not None:
                            b, m = _anchor(ba), _anchor(mr.MarkAnchor)
                            off = (b[0] - m[0], b[1] - m[1])
            if off is not None:
                res = off; applied.append((li, typ))
                break
    return res, applied


def lig_component_count(tt, lookup_indices, lig):
    lookups = tt["GPOS"].table.LookupList.Lookup
    n = 0
    for li in lookup_indices:
        for typ, st in _subtables(lookups[li]):
            if typ == 5 and lig in st.LigatureCoverage.glyphs:
                n = max(n, len(st.LigatureArray.LigatureAttach[st.LigatureCoverage.glyphs.index(lig)].ComponentRecord))
    return n


def cursive(tt, lookup_indices):
    """[(lookup index, rightToLeft flag, {glyph: (entry|None, exit|None)})]"""
    lookups = tt["GPOS"].table.LookupList.Lookup
    out = []
    for li in lookup_indices:
        lk = lookups[li]
        recs = {}
        for typ, st in _subtables(lk):
            if typ == 3:
                for g, r in zip(st.Coverage.glyphs, st.EntryExitRecord):
                    recs.setdefault(g, (_anchor(r.EntryAnchor), _anchor(r.ExitAnchor)))
        if recs:
            out.append((li, bool(lk.LookupFlag & 0x0001), recs))
    return out


# ---------------------------------------------------------------- chained contextual positioning (lookup type 8)

def _classes_to_sets(classdef, coverage_glyphs, order):
    """{class: set(glyphs)} for a ClassDef; class 0 = every glyph (of `order`) the ClassDef does not mention"""
    cd = dict(classdef.classDefs) if classdef is not None else {}
    out = {}
    for g, c in cd.items():
        out.setdefault(c, set()).add(g)
    out[0] = set(order) - set(cd)
    return out


def chain_rules(tt, lookup_index):
    """the rules of a ChainContextPos lookup (formats 1, 2, 3), one dict per rule:
    {"back": [set, ...] (logical order: the glyph next to the input is LAST), "input": [set, ...], "ahead": [set, ...],
     "records": [(sequenceIndex, lookupIndex), ...]} - each position as the set of glyphs it accepts"""
    lk = tt["GPOS"].table.LookupList.Lookup[lookup_index]
    order = tt.getGlyphOrder()
    rules = []
    for typ, st in _subtables(lk):
        if typ != 8:
            continue
        if st.Format == 3:
            rules.append({"back": [set(c.glyphs) for c in reversed(st.BacktrackCoverage)],
                          "input": [set(c.glyphs) for c in st.InputCoverage],
                          "ahead": [set(c.glyphs) for c in st.LookAheadCoverage],
                          "records": [(r.SequenceIndex, r.LookupListIndex) for r in st.PosLookupRecord]})
        elif st.Format == 1:
            for g, rs in zip(st.Coverage.glyphs, st.ChainPosRuleSet):
                for r in (rs.ChainPosRule if rs is not None else []):
                    rules.append({"back": [{x} for x in reversed(r.Backtrack)], "input": [{g}] + [{x} for x in r.Input],
                                  "ahead": [{x} for x in r.LookAhead],
                                  "records": [(p.SequenceIndex, p.LookupListIndex) for p in r.PosLookupRecord]})
        elif st.Format == 2:
            bc = _classes_to_sets(st.BacktrackClassDef, None, order)
            ic = _classes_to_sets(st.InputClassDef, None, order)
            ac = _classes_to_sets(st.LookAheadClassDef, None, order)
            cov = set(st.Coverage.glyphs)
            for cls, cs in enumerate(st.ChainPosClassSet):
                for r in (cs.ChainPosClassRule if cs is not None else []):
                    rules.append({"back": [bc.get(c, set()) for c in reversed(r.Backtrack)],
                                  "input": [ic.get(cls, set()) & cov] + [ic.get(c, set()) for c in r.Input],
                                  "ahead": [ac.get(c, set()) for c in r.LookAhead],
                                  "records": [(p.SequenceIndex, p.LookupListIndex) for p in r.PosLookupRecord]})
    return rules
