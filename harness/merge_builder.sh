#!/bin/sh
# usage: merge_builder.sh C18  -- bring a builder branch's own files into main (shared generated files are regenerated)
b="$1"
cd /verif || exit 2
files=$(git diff --name-only main...build-$b | grep -v -E "^evidence/|^replays/|^lean/Ufo2ftModel.lean$|^lean/Ufo2ftModel/Drv/All.lean$|^MANIFEST.json$|^known_findings.json$")
git checkout build-$b -- $files
git show build-$b:known_findings.json > /tmp/kf_$b.json 2>/dev/null && echo "known findings of $b in /tmp/kf_$b.json"
echo "$files" | wc -l
