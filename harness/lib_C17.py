"""Helpers of the C17 check: feature-file trees <-> feaLib AST, probe writers, recording subclasses of the
shipped writers.

Tree format (JSON-able, the same the Lean driver reads):
  Stmt: ["L",uid] | ["C",uid,text] | ["B",uid|None,kind,tag,ext,[Item..]] | ["G",kind,gid,tag]
  Item: ["l",uid] | ["c",uid,text] | ["s",uid,[text..]] | ["g",gid]
`src` maps str(uid) -> the feature-file text of a leaf statement (top level or inside a block); nested blocks ("s") are
rendered from their comment texts.  User objects of the parsed AST get the attribute `_uid`; objects made by writers
get `_gid`/`_gkind` from the probe/recording writers; everything else found later is reported as it is (a feature block
without id that holds user statements is a block made by splitting).
"""
from io import StringIO

from fontTools.feaLib import ast as fea_ast
from fontTools.feaLib.parser import Parser

GLYPHS = ["a", "b", "c", "f", "i", "f_i", "acutecomb", "gravecomb", "kadeva", "khadeva", "anusvaradeva", "alef", "bet"]


# ------------------------------------------------------------------ tree -> text -> labelled AST

def _placeholder(uid):
    return "# cmt%d" % uid


def _parsable(text):
    return text.startswith("#") and "\n" not in text and "\r" not in text and text == text.rstrip()


def render(tree, src):
    out = []
    for s in tree:
        if s[0] == "L":
            out.append(src[str(s[1])])
        elif s[0] == "C":
            out.append(s[2] if _parsable(s[2]) else _placeholder(s[1]))
        elif s[0] == "B":
            kind, tag, ext, body = s[2], s[3], s[4], s[5]
            head = {"feature": "feature %s%s {" % (tag, " useExtension" if ext else ""),
                    "lookup": "lookup %s {" % tag, "table": "table %s {" % tag}[kind]
            out.append(head)
            for it in body:
                if it[0] == "l":
                    out.append("  " + src[str(it[1])])
                elif it[0] == "c":
                    out.append("  " + (it[2] if _parsable(it[2]) else _placeholder(it[1])))
                elif it[0] == "s":
                    out.append("  lookup N%d {" % it[1])
                    out.append("    pos a b -%d;" % (it[1] % 50 + 1))
                    for t in it[2]:
                        out.append("    " + t)
                    out.append("  } N%d;" % it[1])
            out.append("} %s;" % tag)
    return "\n".join(out) + "\n"


class LabelError(Exception):
    pass


def label(doc, tree):
    """give the objects of a freshly parsed `doc` the uids of `tree` (parallel walk); patch comment texts the
    parser cannot produce."""
    if len(doc.statements) != len(tree):
        raise LabelError("top-level length %d != %d" % (len(doc.statements), len(tree)))
    for st, s in zip(doc.statements, tree):
        if s[0] == "L":
            if isinstance(st, fea_ast.Comment) or hasattr(st, "statements"):
                raise LabelError("leaf expected, got %r" % type(st).__name__)
            st._uid = s[1]
        elif s[0] == "C":
            if not isinstance(st, fea_ast.Comment):
                raise LabelError("comment expected")
            st._uid = s[1]
            st.text = s[2]
        elif s[0] == "B":
            if not hasattr(st, "statements") or len(st.statements) != len(s[5]):
                raise LabelError("block expected with %d statements: %s" % (len(s[5]), type(st).__name__))
            st._uid = s[1]
            for x, it in zip(st.statements, s[5]):
                x._uid = it[1]
                if it[0] == "c":
                    if not isinstance(x, fea_ast.Comment):
                        raise LabelError("comment expected in block")
                    x.text = it[2]
                elif it[0] == "s":
                    if not hasattr(x, "statements"):
                        raise LabelError("nested block expected")
                elif isinstance(x, fea_ast.Comment) or hasattr(x, "statements"):
                    raise LabelError("leaf expected in block")
        else:
            raise LabelError("generated statement in a user tree")
    doc._c17_labelled = True


def parse(text, glyphs=GLYPHS):
    return Parser(StringIO(text), set(glyphs)).parse()


def build_ast(tree, src):
    doc = parse(render(tree, src))
    label(doc, tree)
    return doc


# ------------------------------------------------------------------ AST -> tree

def _kind(st):
    if isinstance(st, fea_ast.FeatureBlock):
        return "feature"
    if isinstance(st, fea_ast.LookupBlock):
        return "lookup"
    if isinstance(st, fea_ast.TableBlock):
        return "table"
    return "other"


def _comments_in(block):
    out = []
    for x in block.statements:
        if isinstance(x, fea_ast.Comment):
            out.append(str(x))
        elif hasattr(x, "statements"):
            out.extend(_comments_in(x))
    return out


def _item(x):
    uid = getattr(x, "_uid", None)
    if uid is None:
        return ["g", getattr(x, "_gid", 999999)]
    if isinstance(x, fea_ast.Comment):
        return ["c", uid, x.text]
    if hasattr(x, "statements"):
        return ["s", uid, _comments_in(x)]
    return ["l", uid]


def serialize(doc):
    out = []
    for st in doc.statements:
        uid = getattr(st, "_uid", None)
        if uid is not None:
            if isinstance(st, fea_ast.Comment):
                out.append(["C", uid, st.text])
            elif hasattr(st, "statements"):
                out.append(["B", uid, _kind(st), st.name, bool(getattr(st, "use_extension", False)),
                            [_item(x) for x in st.statements]])
            else:
                out.append(["L", uid])
            continue
        gid = getattr(st, "_gid", None)
        if gid is not None:
            out.append(["G", st._gkind, gid, st.name if st._gkind == "feature" else ""])
        elif isinstance(st, fea_ast.Comment) and st.text == "":
            out.append(["G", "blank", 0, ""])
        elif hasattr(st, "statements") and any(getattr(x, "_uid", None) is not None for x in st.statements):
            # an unlabelled block holding user statements: made by `_insert` splitting a block
            out.append(["B", None, _kind(st), st.name, bool(getattr(st, "use_extension", False)),
                        [_item(x) for x in st.statements]])
        else:
            out.append(["G", "other", 999999, ""])
    return out


# ------------------------------------------------------------------ recording

class Recorder:
    """shared by the writers of one run: the user's tree (to label the AST the first writer receives), the steps
    (what each writer handed to `_insert`), the context each writer saw and the file after each writer."""

    def __init__(self, tree):
        self.tree = tree
        self.steps, self.ctx, self.files = [], [], []
        self.next_gid = 1000
        self.label_error = None
        self.first = None
        self.doc = None
        self.gdef_info = {"kinds": [], "hasCats": False, "carets": 0}
        self.gdef_obs = []
        self.gdef_seen = []

    def gid(self, obj, kind):
        self.next_gid += 1
        obj._gid = self.next_gid
        obj._gkind = kind
        return self.next_gid

    def before(self, feaFile):
        if not getattr(feaFile, "_c17_labelled", False):
            try:
                label(feaFile, self.tree)
            except LabelError as e:  # the AST handed to the writers is not the user's file
                self.label_error = str(e)
                feaFile._c17_labelled = True
        if self.first is None:
            self.first = serialize(feaFile)
            self.doc = feaFile


def _ctx_snapshot(writer):
    ctx = writer.context
    ic = ctx.insertComments
    return {"todo": sorted(ctx.todo), "existing": sorted(ctx.existingFeatures),
            "markers": None if ic is None else sorted([t, getattr(c, "_uid", -1)] for t, (b, c) in ic.items())}


def recording(base, rec_attr="_rec", label_insert=True):
    """subclass of a writer class that labels and records what goes through `_insert` (nothing is changed)"""

    class Rec(base):
        def setContext(self, font, feaFile, compiler=None):
            rec = getattr(self, rec_attr)
            rec.before(feaFile)
            r = super().setContext(font, feaFile, compiler=compiler)
            self._c17_ctx = _ctx_snapshot(self)
            return r

        def _insert(self, feaFile, classDefs=None, anchorDefs=None, markClassDefs=None, lookups=None, features=None):
            rec = getattr(self, rec_attr)
            st = self._c17_step
            if not label_insert:
                return super()._insert(feaFile, classDefs=classDefs, anchorDefs=anchorDefs, markClassDefs=markClassDefs,
                                       lookups=lookups, features=features)
            st["produce"] = [[f.name, rec.gid(f, "feature")] for f in features]
            st["lookups"] = [rec.gid(x, "lookup") for x in (lookups or [])]
            st["classDefs"] = [rec.gid(x, "def") for x in (classDefs or [])]
            st["anchorDefs"] = [rec.gid(x, "def") for x in (anchorDefs or [])]
            st["markClassDefs"] = [rec.gid(x, "def") for x in (markClassDefs or [])]
            return super()._insert(feaFile, classDefs=classDefs, anchorDefs=anchorDefs, markClassDefs=markClassDefs,
                                   lookups=lookups, features=features)

        def write(self, font, feaFile, compiler=None):
            rec = getattr(self, rec_attr)
            self._c17_step = {"type": "writer", "features": sorted(self.features), "skip": self.mode == "skip",
                              "pattern": self.insertFeatureMarker is not None, "produce": [], "lookups": [],
                              "classDefs": [], "anchorDefs": [], "markClassDefs": []}
            self._c17_ctx = None
            try:
                return super().write(font, feaFile, compiler=compiler)
            finally:
                rec.steps.append(self._c17_step)
                rec.ctx.append(self._c17_ctx)
                rec.files.append(serialize(feaFile))

    Rec.__name__ = "Rec" + base.__name__
    return Rec


GDEF_KINDS = (("GlyphClassDefStatement", "gcd"), ("LigatureCaretByIndexStatement", "idx"), ("LigatureCaretByPosStatement", "pos"))


def gdef_kind_of_object(x):
    """type of a statement found in a `table GDEF` of the AST (observation)"""
    for cls, k in GDEF_KINDS:
        if isinstance(x, getattr(fea_ast, cls)):
            return k
    return "other"


def gdef_kind_of_text(text):
    """type of a statement of the user's `table GDEF`, read from the user's text (input; no ufo2ft/feaLib involved)"""
    word = text.strip().split(None, 1)[0] if text.strip() else ""
    return {"GlyphClassDef": "gcd", "LigatureCaretByIndex": "idx", "LigatureCaretByPos": "pos"}.get(word, "other")


def gdef_info(tree, src, font):
    """what the model needs to know about the GDEF writer's input: the types of the user's statements inside
    `table GDEF` blocks (by uid), and - from the font description - whether any glyph has a valid
    public.openTypeCategories value and how many glyphs carry caret_* / vcaret_* anchors"""
    kinds = []
    for s in tree:
        if s[0] == "B" and s[2] == "table" and s[3] == "GDEF":
            for it in s[5]:
                if it[0] == "l":
                    kinds.append([it[1], gdef_kind_of_text(src[str(it[1])])])
    cats = (font or {}).get("cats") or {}
    has_cats = any(v in ("unassigned", "base", "ligature", "mark", "component") for v in cats.values())
    carets = 0
    for g in (font or {}).get("glyphs", []):
        if any(a[0] and (a[0].startswith("caret_") or a[0].startswith("vcaret_")) for a in g.get("anchors", [])):
            carets += 1
    return {"kinds": kinds, "hasCats": has_cats, "carets": carets}


def recording_gdef(base, rec_attr="_rec"):
    """the GDEF writer does not use `_insert`: it appends to the user's `table GDEF` or to a new one at the end.
    The step handed to the model holds no observation (rec.gdef_info comes from the case); what the writer added is
    recorded as observation: ids base+1.. on the new statements (in the file), their types (rec.gdef_obs)."""

    class RecGdef(base):
        def write(self, font, feaFile, compiler=None):
            rec = getattr(self, rec_attr)
            rec.before(feaFile)
            tables = [s for s in feaFile.statements if isinstance(s, fea_ast.TableBlock) and s.name == "GDEF"]
            known = {id(x) for t in tables for x in t.statements}
            top = {id(s) for s in feaFile.statements}
            step = {"type": "gdef", "base": rec.next_gid}
            step.update(rec.gdef_info)
            seen = {"items": 0, "new": False, "kinds": []}
            try:
                return super().write(font, feaFile, compiler=compiler)
            finally:
                for s in feaFile.statements:
                    if id(s) not in top:
                        rec.gid(s, "other")
                        seen["new"] = True
                        seen["kinds"] += [gdef_kind_of_object(x) for x in getattr(s, "statements", [])]
                    elif isinstance(s, fea_ast.TableBlock) and s.name == "GDEF":
                        for x in s.statements:
                            if id(x) not in known:
                                rec.gid(x, "item")
                                seen["items"] += 1
                                seen["kinds"].append(gdef_kind_of_object(x))
                rec.gdef_seen.append(seen)
                rec.steps.append(step)
                rec.gdef_obs.append(seen["kinds"])
                rec.ctx.append(None)
                rec.files.append(serialize(feaFile))

    RecGdef.__name__ = "Rec" + base.__name__
    return RecGdef


# ------------------------------------------------------------------ probe writer (a user-defined writer, public API)

def make_probe(spec, rec):
    """a BaseFeatureWriter subclass whose `_write` builds the feature blocks named in spec["produce"] (those whose
    tag is in `todo`), some lookups and definitions, and hands them to `_insert` - the way the shipped writers do."""
    from ufo2ft.featureWriters import BaseFeatureWriter, ast
    from ufo2ft.featureWriters.baseFeatureWriter import INSERT_FEATURE_MARKER

    class Probe(BaseFeatureWriter):
        tableTag = spec.get("tableTag", "GPOS")
        features = frozenset(spec["features"])
        mode = "skip" if spec["skip"] else "append"
        insertFeatureMarker = INSERT_FEATURE_MARKER if spec["pattern"] else None

        def _write(self):
            todo = self.context.todo
            feats = []
            for tag, gid in spec["produce"]:
                if tag in todo:
                    fb = ast.FeatureBlock(tag)
                    fb.statements.append(ast.Comment("# generated %d" % gid))
                    fb._gid, fb._gkind = gid, "feature"
                    feats.append(fb)
            if not feats:
                return False

            def mk(kind, gids):
                out = []
                for g in gids:
                    if kind == "lookup":
                        x = ast.LookupBlock("gen_lookup_%d" % g)
                    else:
                        x = ast.GlyphClassDefinition("gen_%d" % g, ast.GlyphClass([ast.GlyphName("a")]))
                    x._gid, x._gkind = g, ("lookup" if kind == "lookup" else "def")
                    out.append(x)
                return out

            self._insert(feaFile=self.context.feaFile, classDefs=mk("class", spec["classDefs"]),
                         anchorDefs=mk("anchor", spec["anchorDefs"]), markClassDefs=mk("mark", spec["markClassDefs"]),
                         lookups=mk("lookup", spec["lookups"]), features=feats)
            return True

    R = recording(Probe, label_insert=False)
    w = R()
    w._rec = rec
    return w


def run_probe(tree, src, specs, font=None, info=None):
    """parse the user's file, run the probe writers (and, for a spec of type "gdef", the shipped GDEF writer, called
    directly on `font`) in order; returns (recorder, err)"""
    from ufo import err_kind
    doc = build_ast(tree, src)
    rec = Recorder(tree)
    if info is not None:
        rec.gdef_info = info
    err = None
    for spec in specs:
        if spec["type"] == "gdef":
            w = globals()["RecGdefFeatureWriter"](**spec.get("options", {}))
        else:
            w = make_probe(spec, rec)
        install_recorder(rec)
        try:
            w.write(font, doc)
        except Exception as e:  # a crash of the code under test is an observation
            err = err_kind(e)
            break
        finally:
            install_recorder(None)
    return rec, err


# ------------------------------------------------------------------ recording subclasses of the shipped writers

_CURRENT = {"rec": None}


def install_recorder(rec):
    _CURRENT["rec"] = rec


class _RecProxy:
    """class attribute `_rec` of the recording writers: the recorder of the run in progress"""

    def __get__(self, obj, objtype=None):
        return _CURRENT["rec"]


def _shipped():
    import ufo2ft.featureWriters as fw
    from ufo2ft.featureCompiler import FeatureCompiler
    out = {}
    for name in ("CursFeatureWriter", "KernFeatureWriter", "MarkFeatureWriter"):
        cls = recording(getattr(fw, name))
        cls._rec = _RecProxy()
        out["Rec" + name] = cls
    g = recording_gdef(fw.GdefFeatureWriter)
    g._rec = _RecProxy()
    out["RecGdefFeatureWriter"] = g

    class RecFeatureCompiler(FeatureCompiler):
        defaultFeatureWriters = [out["RecCursFeatureWriter"], out["RecKernFeatureWriter"],
                                 out["RecMarkFeatureWriter"], out["RecGdefFeatureWriter"]]

    out["RecFeatureCompiler"] = RecFeatureCompiler
    return out


globals().update(_shipped())


# ------------------------------------------------------------------ writers with arbitrary table tags (initFeatureWriters)

def _pool_class(k, tag):
    from ufo2ft.featureWriters import BaseFeatureWriter

    class PoolWriter(BaseFeatureWriter):
        tableTag = tag
        c17_k = k
        features = frozenset(["zzzz"])

        def _write(self):
            return False

    PoolWriter.__name__ = "PoolWriter%d" % k
    return PoolWriter


_POOL = {}


def writer_pool(table_tags):
    for k, t in enumerate(table_tags):
        if k not in _POOL:
            _POOL[k] = _pool_class(k, t)
            globals()["PoolWriter%d" % k] = _POOL[k]
    return [_POOL[k] for k in range(len(table_tags))]
