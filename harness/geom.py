"""Snapshots of real glyph objects / glyph sets in the protocol's JSON form (exact rationals)."""
from fontTools.pens.recordingPen import RecordingPointPen

from ufo import rat


def snap_glyph(g, name=None):
    rec = RecordingPointPen()
    g.drawPoints(rec)
    contours, cur, comps = [], None, []
    for op, args, kw in rec.value:
        if op == "beginPath":
            cur = []
        elif op == "addPoint":
            pt, seg = args[0], args[1]
            cur.append([rat(pt[0]), rat(pt[1]), seg])
        elif op == "endPath":
            contours.append(cur); cur = None
        elif op == "addComponent":
            comps.append([args[0], [rat(v) for v in args[1]]])
    return {"name": name or g.name, "width": rat(g.width), "height": rat(getattr(g, "height", 0) or 0),
            "contours": contours, "comps": comps,
            "anchors": [[a.name, rat(a.x), rat(a.y)] for a in g.anchors]}


def snap_glyphset(gs):
    return [snap_glyph(gs[n], n) for n in gs.keys()]


def fd_glyphs_json(fd):
    """the protocol form of a font description's glyphs (same as snap of the built font, without building)"""
    out = []
    for g in fd["glyphs"]:
        out.append({"name": g["name"], "width": rat(g.get("width", 0)), "height": rat(g.get("height", 0)),
                    "contours": [[[rat(x), rat(y), t] for x, y, t in c] for c in g.get("contours", [])],
                    "comps": [[b, [rat(v) for v in t]] for b, t in g.get("components", [])],
                    "anchors": [[a[0], rat(a[1]), rat(a[2])] for a in g.get("anchors", [])]})
    return out
