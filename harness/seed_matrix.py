"""Run every filed seeded change against the check of the property it breaks (and any extra checks given) in a scratch worktree
of /repo (never /repo itself) and record what the check reported in seeded/<id>/meta.json and seeded/RESULTS.json.
usage: /venv/bin/python harness/seed_matrix.py [ids...]"""
import json, os, subprocess, sys, re, tempfile
ROOT = os.path.dirname(os.path.dirname(os.path.abspath(__file__)))
EXTRA = {"C02a": ["C15"], "C01a": ["C13"], "C12a": ["C01"], "C14b": ["C15"], "C13a": []}
ids = sys.argv[1:] or sorted(d for d in os.listdir(os.path.join(ROOT, "seeded")) if os.path.isdir(os.path.join(ROOT, "seeded", d)))
results = {}
rp = os.path.join(ROOT, "seeded", "RESULTS.json")
if os.path.exists(rp):
    results = json.load(open(rp))
registered = {c["property_id"] for c in json.load(open(os.path.join(ROOT, "MANIFEST.json")))["checks"]}
for sid in ids:
    d = os.path.join(ROOT, "seeded", sid)
    prop = sid[:-1]
    out = {}
    for chk in [prop] + EXTRA.get(sid, []):
        if chk not in registered:
            out[chk] = "check not registered yet"; continue
        wt = tempfile.mkdtemp(prefix="seedmx.", dir="/tmp"); os.rmdir(wt)
        subprocess.run(["git", "-C", "/repo", "worktree", "add", "-q", "--detach", wt], check=True)
        try:
            a = subprocess.run(["git", "-C", wt, "apply", os.path.join(d, "patch.diff")], capture_output=True, text=True)
            if a.returncode != 0:
                out[chk] = "patch does not apply: " + a.stderr.strip()[:100]; continue
            env = dict(os.environ, PYTHONPATH=os.path.join(wt, "Lib"))
            # the evidence file belongs to runs on the unchanged tree: keep it
            evp = os.path.join(ROOT, "evidence", chk + ".json")
            saved = open(evp).read() if os.path.exists(evp) else None
            try:
                p = subprocess.run(["./check", chk, "--tier", "quick"], cwd=ROOT, env=env, capture_output=True, text=True, timeout=3000)
            finally:
                if saved is not None:
                    open(evp, "w").write(saved)
            v = [l for l in p.stdout.splitlines() if l.startswith("VIOLATION")]
            if p.returncode == 1 and v:
                out[chk] = "VIOLATION, no-failing-input-found" if v[0].endswith("no-failing-input-found") else "VIOLATION with failing input"
            elif p.returncode == 0:
                out[chk] = "missed (exit 0)"
            else:
                out[chk] = "exit %d: %s" % (p.returncode, (p.stdout + p.stderr)[-200:])
        finally:
            subprocess.run(["git", "-C", "/repo", "worktree", "remove", "--force", wt])
    results[sid] = out
    mp = os.path.join(d, "meta.json")
    m = json.load(open(mp)); m["detected_by"] = out; json.dump(m, open(mp, "w"), indent=1)
    json.dump(results, open(rp, "w"), indent=1, sort_keys=True)
    print(sid, out, flush=True)
