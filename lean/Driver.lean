import Ufo2ftModel.Drv.All
/-! Line protocol: one JSON request per line on stdin, one JSON reply per line on stdout.
    Run with `lake env lean --run Driver.lean`. -/
open Lean Ufo2ft.Drv

def handleLine (line : String) : String :=
  match Json.parse line with
  | .error e => (Json.mkObj [("error", Json.str s!"parse: {e}")]).compress
  | .ok req =>
    let r : R Reply := do
      let p ← asStr (← field req "p")
      let op ← asStr (← field req "op")
      dispatch p op req
    match r with
    | .ok rep => rep.toJson.compress
    | .error e => (Json.mkObj [("error", Json.str e)]).compress

partial def loop (h : IO.FS.Stream) (out : IO.FS.Stream) : IO Unit := do
  let line ← h.getLine
  if line.isEmpty then return ()
  let t := line.trimAscii.toString
  if !t.isEmpty then
    out.putStrLn (handleLine t)
  loop h out

def main : IO Unit := do
  let out ← IO.getStdout
  loop (← IO.getStdin) out
  out.flush
