import Ufo2ftModel.Spec.C02Drop
import Ufo2ftModel.Props.C01
/-!
Theorems about `dropImpliedOnCurves=True` (single font and joint).  Everything rests on one lemma (`drop_outline`): leaving out
any set of on-curve points each of which lies between two off-curve points, and is `D`-near their midpoint, leaves the
expanded outline `D`-near point for point; with `D` = equality this is exact render preservation, with `D` = "within 1/2"
it is what the static path's order (test on floats, round afterwards) costs.
-/
namespace Ufo2ft.C02
open Ufo2ft List

/-! ### pointwise relations between lists -/

def AllRel (D : α → β → Prop) : List α → List β → Prop
  | [], [] => True
  | a :: l, b :: l' => D a b ∧ AllRel D l l'
  | _, _ => False

theorem AllRel.append {D : α → β → Prop} : ∀ {l₁ : List α} {l₁' : List β} {l₂ l₂'},
    AllRel D l₁ l₁' → AllRel D l₂ l₂' → AllRel D (l₁ ++ l₂) (l₁' ++ l₂')
  | [], [], _, _, _, h => h
  | [], _ :: _, _, _, h, _ => h.elim
  | _ :: _, [], _, _, h, _ => h.elim
  | _ :: _, _ :: _, _, _, h, h' => ⟨h.1, AllRel.append h.2 h'⟩

theorem AllRel.eq : ∀ {l l' : List α}, AllRel (fun a b => a = b) l l' → l = l'
  | [], [], _ => rfl
  | [], _ :: _, h => h.elim
  | _ :: _, [], h => h.elim
  | _ :: _, _ :: _, h => by rw [h.1, AllRel.eq h.2]

theorem AllRel.length_eq {D : α → β → Prop} : ∀ {l : List α} {l' : List β}, AllRel D l l' → l.length = l'.length
  | [], [], _ => rfl
  | [], _ :: _, h => h.elim
  | _ :: _, [], h => h.elim
  | _ :: _, _ :: _, h => by simp only [length_cons, AllRel.length_eq h.2]

theorem AllRel.mono {D D' : α → β → Prop} (hD : ∀ a b, D a b → D' a b) : ∀ {l : List α} {l' : List β}, AllRel D l l' → AllRel D' l l'
  | [], [], _ => trivial
  | [], _ :: _, h => h.elim
  | _ :: _, [], h => h.elim
  | _ :: _, _ :: _, h => ⟨hD _ _ h.1, AllRel.mono hD h.2⟩

theorem AllRel.refl {D : α → α → Prop} (hD : ∀ a, D a a) : ∀ l : List α, AllRel D l l
  | [] => trivial
  | a :: l => ⟨hD a, AllRel.refl hD l⟩

/-! ### masks that only select impliable points -/

/-- what `drop_outline` needs of a dropped point `p` between `a` and `b` (the points are compared after `f`, the map
    applied to the kept points — the identity, or rounding) -/
def Droppable (D : QPt → QPt → Prop) (f : QPt → QPt) (a p b : QPt) : Prop :=
  a.on = false ∧ p.on = true ∧ b.on = false ∧ D p (midPt (f a) (f b))

/-- every selected point of the list is droppable w.r.t. its cyclic neighbours (`prev` before the head, `first` after the
    last point) -/
def ValidGo (V : QPt → QPt → QPt → Prop) (first : QPt) : QPt → List QPt → List Bool → Prop
  | _, [], _ => True
  | prev, p :: r, m => (m.headD false = true → V prev p (r.headD first)) ∧ ValidGo V first p r m.tail

def ValidC (V : QPt → QPt → QPt → Prop) (c : List QPt) (m : List Bool) : Prop :=
  match c with
  | [] => True
  | p :: r => ValidGo V p (r.getLastD p) (p :: r) m

theorem validGo_maskGo (t : QPt → QPt → QPt → Bool) (V : QPt → QPt → QPt → Prop) (ht : ∀ a p b, t a p b = true → V a p b)
    (first : QPt) : ∀ (l : List QPt) (prev : QPt), ValidGo V first prev l (maskGo t first prev l)
  | [], _ => trivial
  | p :: r, _ => ⟨ht _ _ _, validGo_maskGo t V ht first r p⟩

theorem validC_contourMask (t : QPt → QPt → QPt → Bool) (V : QPt → QPt → QPt → Prop) (ht : ∀ a p b, t a p b = true → V a p b)
    (c : List QPt) : ValidC V c (contourMask t c) := by
  cases c with
  | nil => trivial
  | cons p r => exact validGo_maskGo t V ht p (p :: r) _

theorem headD_zipWith_and (m x : List Bool) :
    (List.zipWith (fun a b => a && b) m x).headD false = (m.headD false && x.headD false) := by
  cases m <;> cases x <;> simp

theorem tail_zipWith_and (m x : List Bool) :
    (List.zipWith (fun a b => a && b) m x).tail = List.zipWith (fun a b => a && b) m.tail x.tail := by
  cases m <;> cases x <;> simp

/-- a mask that selects fewer points is still valid -/
theorem validGo_and_left (V : QPt → QPt → QPt → Prop) (first : QPt) :
    ∀ (l : List QPt) (prev : QPt) (m x : List Bool), ValidGo V first prev l m →
      ValidGo V first prev l (List.zipWith (fun a b => a && b) m x)
  | [], _, _, _, _ => trivial
  | p :: r, _, m, x, h => by
    refine ⟨fun hb => h.1 ?_, ?_⟩
    · rw [headD_zipWith_and, Bool.and_eq_true] at hb; exact hb.1
    · rw [tail_zipWith_and]; exact validGo_and_left V first r p m.tail x.tail h.2

theorem validGo_and_right (V : QPt → QPt → QPt → Prop) (first : QPt) :
    ∀ (l : List QPt) (prev : QPt) (m x : List Bool), ValidGo V first prev l m →
      ValidGo V first prev l (List.zipWith (fun a b => a && b) x m)
  | [], _, _, _, _ => trivial
  | p :: r, _, m, x, h => by
    refine ⟨fun hb => h.1 ?_, ?_⟩
    · rw [headD_zipWith_and, Bool.and_eq_true] at hb; exact hb.2
    · rw [tail_zipWith_and]; exact validGo_and_right V first r p m.tail x.tail h.2

/-! ### the outline lemma -/

theorem dropMask_cons_keep (p : α) (l : List α) (m : List Bool) (h : m.headD false = false) :
    dropMask (p :: l) m = p :: dropMask l m.tail := by
  rw [dropMask, if_neg (by rw [h]; decide)]

theorem dropMask_cons_drop (p : α) (l : List α) (m : List Bool) (h : m.headD false = true) :
    dropMask (p :: l) m = dropMask l m.tail := by
  rw [dropMask, if_pos h]

theorem emit_on (p n : QPt) (h : p.on = true) : emit p n = [p] := by simp [emit, h]
theorem emit_next_on (p n : QPt) (h : n.on = true) : emit p n = [p] := by simp [emit, h]
theorem emit_off (p n : QPt) (h : p.on = false) (h' : n.on = false) : emit p n = [p, midPt p n] := by simp [emit, h, h']

section core
variable (D : QPt → QPt → Prop) (f : QPt → QPt)
  (hf : ∀ p, (f p).on = p.on) (hD1 : ∀ p, D p (f p))
  (hD2 : ∀ a b, a.on = false → b.on = false → D (midPt a b) (midPt (f a) (f b)))
include hf hD1 hD2

theorem emit_rel (p n : QPt) : AllRel D (emit p n) (emit (f p) (f n)) := by
  unfold emit
  rw [hf, hf]
  by_cases h : (!p.on && !n.on) = true
  · rw [if_pos h, if_pos h]
    simp only [Bool.and_eq_true, Bool.not_eq_true', ] at h
    exact ⟨hD1 p, hD2 p n h.1 h.2, trivial⟩
  · rw [if_neg h, if_neg h]; exact ⟨hD1 p, trivial⟩

/-- the last kept point `p` of the contour, followed (cyclically) by `first` -/
theorem drop_core_last (first second p : QPt) (fd : Bool)
    (hfd : fd = true → Droppable D f p first second) :
    AllRel D (emit p first ++ (if fd then [first] else [])) (emit (f p) (if fd then f second else f first)) := by
  cases fd with
  | false => simpa using emit_rel D f hf hD1 hD2 p first
  | true =>
    obtain ⟨h1, h2, h3, h4⟩ := hfd rfl
    rw [emit_next_on p first h2]
    simp only [if_true]
    rw [emit_off (f p) (f second) (by rw [hf]; exact h1) (by rw [hf]; exact h3)]
    exact ⟨hD1 p, h4, trivial⟩

/-- the induction: `l = p :: rest` with `p` kept.  `fd`: the contour's first point is dropped (then `second` follows it) -/
theorem drop_core (first second : QPt) (fd : Bool) :
    ∀ (n : Nat) (p : QPt) (rest : List QPt) (m : List Bool) (prev : QPt), rest.length ≤ n →
      ValidGo (Droppable D f) first prev (p :: rest) m → m.headD false = false →
      (fd = true → ∀ lastP, (p :: rest).getLast? = some lastP → Droppable D f lastP first second) →
      AllRel D (expGo first (p :: rest) ++ (if fd then [first] else []))
        (expGo (if fd then f second else f first) ((dropMask (p :: rest) m).map f)) := by
  intro n
  induction n using Nat.strongRecOn with
  | _ n ih =>
    intro p rest m prev hn hv hm hfd
    rw [dropMask_cons_keep _ _ _ hm]
    cases rest with
    | nil =>
      simp only [expGo, dropMask, map_cons, map_nil, headD_nil, append_nil]
      exact drop_core_last D f hf hD1 hD2 first second p fd (fun h => hfd h p rfl)
    | cons q r =>
      obtain ⟨-, hvq, hvr⟩ := hv
      simp only [getLast?_cons_cons] at hfd
      by_cases hb : m.tail.headD false = true
      · -- q is dropped
        obtain ⟨hp, hq, hs, hDq⟩ := hvq hb
        rw [dropMask_cons_drop _ _ _ hb]
        cases r with
        | nil =>
          -- q is the last point: the first point cannot be dropped as well
          have hfd' : fd = false := by
            cases fd with
            | false => rfl
            | true => have := (hfd rfl q rfl).1; rw [hq] at this; cases this
          subst hfd'
          simp only [expGo, dropMask, map_cons, map_nil, headD_nil, headD_cons, append_nil, Bool.false_eq_true, if_false]
          simp only [headD_nil] at hs hDq
          rw [emit_next_on p q hq, emit_on q first hq, emit_off (f p) (f first) (by rw [hf]; exact hp) (by rw [hf]; exact hs)]
          exact ⟨hD1 p, hDq, trivial⟩
        | cons s r' =>
          simp only [headD_cons] at hs hDq
          have hks : m.tail.tail.headD false = false := by
            cases h : m.tail.tail.headD false with
            | false => rfl
            | true => have := (hvr.1 h).2.1; rw [hs] at this; cases this
          have := ih r'.length (by simp only [length_cons] at hn; omega) s r' m.tail.tail q (Nat.le_refl _) hvr hks
            (by simpa only [getLast?_cons_cons] using hfd)
          rw [dropMask_cons_keep _ _ _ hks] at this ⊢
          simp only [expGo, map_cons, headD_cons, append_assoc] at this ⊢
          rw [emit_next_on p q hq, emit_on q s hq, emit_off (f p) (f s) (by rw [hf]; exact hp) (by rw [hf]; exact hs)]
          exact ⟨hD1 p, hDq, this⟩
      · -- q is kept
        have hb' : m.tail.headD false = false := by simpa using hb
        have := ih r.length (by simp only [length_cons] at hn; omega) q r m.tail p (Nat.le_refl _) ⟨hvq, hvr⟩ hb' hfd
        rw [dropMask_cons_keep _ _ _ hb'] at this ⊢
        simp only [expGo, map_cons, headD_cons, append_assoc] at this ⊢
        exact AllRel.append (emit_rel D f hf hD1 hD2 p q) this

/-- **the outline lemma**: leave out any set of points each of which is on-curve, sits between two off-curve points and is
    `D`-near the midpoint of (the images of) those two; map the remaining points by `f`.  The expanded outline stays
    `D`-near point for point — started one point later exactly when the contour's first point was left out. -/
theorem drop_outline (c : List QPt) (m : List Bool) (hv : ValidC (Droppable D f) c m) :
    AllRel D (if m.headD false then rot1 (expandImplied c) else expandImplied c)
      (expandImplied ((dropMask c m).map f)) := by
  cases c with
  | nil => simp [expandImplied, rot1, dropMask, AllRel]
  | cons p0 r =>
    by_cases hb : m.headD false = true
    · rw [if_pos hb]
      obtain ⟨hv0, hvr⟩ := hv
      obtain ⟨hl, h0, h1, hD0⟩ := hv0 hb
      cases r with
      | nil => simp only [headD_nil] at h1; rw [h0] at h1; cases h1
      | cons p1 r' =>
        simp only [headD_cons] at h1 hD0
        have hk1 : m.tail.headD false = false := by
          cases h : m.tail.headD false with
          | false => rfl
          | true => have := (hvr.1 h).2.1; rw [h1] at this; cases this
        have := drop_core D f hf hD1 hD2 p0 p1 true r'.length p1 r' m.tail p0 (Nat.le_refl _) hvr hk1
          (by
            intro _ lastP hlast
            have : (p1 :: r').getLastD p0 = lastP := by rw [getLastD_eq_getLast?, hlast]; rfl
            rw [this] at hl hD0
            exact ⟨hl, h0, h1, hD0⟩)
        rw [dropMask_cons_drop _ _ _ hb]
        rw [dropMask_cons_keep _ _ _ hk1] at this ⊢
        simp only [if_true, map_cons] at this
        simp only [expandImplied, map_cons, rot1]
        rw [show expGo p0 (p0 :: p1 :: r') = p0 :: expGo p0 (p1 :: r') by
          rw [expGo, headD_cons, emit_on p0 p1 h0]; rfl]
        exact this
    · have hb' : m.headD false = false := by simpa using hb
      rw [if_neg hb]
      have := drop_core D f hf hD1 hD2 p0 p0 false r.length p0 r m (r.getLastD p0) (Nat.le_refl _) hv hb'
        (by intro h; cases h)
      rw [dropMask_cons_keep _ _ _ hb'] at this ⊢
      simpa only [expandImplied, map_cons, Bool.false_eq_true, if_false, append_nil] using this
end core

/-! ### rounding arithmetic -/

theorem absQ_le_iff (x t : Q) : absQ x ≤ t ↔ -t ≤ x ∧ x ≤ t := by
  unfold absQ; split <;> constructor <;> intro h <;> grind

/-- the midpoint of the rounded neighbours is within 1/2 of the midpoint of the neighbours -/
theorem mid_round_near (a b : Q) : absQ ((a + b) / 2 - ((otRound a : Q) + (otRound b : Q)) / 2) ≤ 1/2 := by
  obtain ⟨h1, h2⟩ := C01.otRound_spec a
  obtain ⟨h3, h4⟩ := C01.otRound_spec b
  rw [absQ_le_iff]; constructor <;> grind

theorem round_near' (v : Q) : absQ (v - (otRound v : Q)) ≤ 1/2 := by
  obtain ⟨h1, h2⟩ := C01.otRound_spec v
  rw [absQ_le_iff]; constructor <;> grind

/-- an integer strictly between -2 and 2 (as a rational) has absolute value at most 1 -/
theorem int_lt_two (k : Int) (h1 : (-2 : Q) < (k : Q)) (h2 : (k : Q) < 2) : (-1 : Q) ≤ (k : Q) ∧ (k : Q) ≤ 1 := by
  have h1' : (-2 : Int) < k := by
    have : ((-2 : Int) : Q) < (k : Q) := by simpa using h1
    exact Rat.intCast_lt_intCast.mp this
  have h2' : k < (2 : Int) := by
    have : (k : Q) < ((2 : Int) : Q) := by simpa using h2
    exact Rat.intCast_lt_intCast.mp this
  have a : (-1 : Int) ≤ k := by omega
  have b : k ≤ (1 : Int) := by omega
  have a' := Rat.intCast_le_intCast.mpr a
  have b' := Rat.intCast_le_intCast.mpr b
  constructor
  · simpa using a'
  · simpa using b'

/-- **the true bound**: the rounded midpoint and the midpoint of the rounded neighbours differ by at most 1/2 (they differ by
    a multiple of 1/2 that is strictly smaller than 1) -/
theorem round_mid_vs_mid_round (a b : Q) :
    absQ ((otRound ((a + b) / 2) : Q) - ((otRound a : Q) + (otRound b : Q)) / 2) ≤ 1/2 := by
  obtain ⟨h1, h2⟩ := C01.otRound_spec a
  obtain ⟨h3, h4⟩ := C01.otRound_spec b
  obtain ⟨h5, h6⟩ := C01.otRound_spec ((a + b) / 2)
  have key := int_lt_two (2 * otRound ((a + b) / 2) - otRound a - otRound b)
    (by simp only [Rat.intCast_sub, Rat.intCast_mul, Rat.intCast_ofNat]; grind)
    (by simp only [Rat.intCast_sub, Rat.intCast_mul, Rat.intCast_ofNat]; grind)
  simp only [Rat.intCast_sub, Rat.intCast_mul, Rat.intCast_ofNat] at key
  rw [absQ_le_iff]; constructor <;> grind

/-! ### the code's test -/

theorem dropTest_flags {a p b : QPt} (h : dropTest a p b = true) : a.on = false ∧ p.on = true ∧ b.on = false := by
  simp only [dropTest, Bool.and_eq_true, Bool.not_eq_true'] at h
  exact ⟨h.1.1.2, h.1.1.1, h.1.2⟩

/-- the two ways a point passes `_is_mid_point` -/
theorem dropTest_mid {a p b : QPt} (h : dropTest a p b = true) :
    (p.x = (a.x + b.x) / 2 ∧ p.y = (a.y + b.y) / 2) ∨
    ((otRound p.x : Q) = ((otRound a.x : Q) + (otRound b.x : Q)) / 2 ∧ (otRound p.y : Q) = ((otRound a.y : Q) + (otRound b.y : Q)) / 2) := by
  simp only [dropTest, isMidPoint, exactMid, roundedMid, Bool.and_eq_true, Bool.or_eq_true, decide_eq_true_eq] at h
  rcases h.2 with ⟨hx, hy⟩ | ⟨hx, hy⟩
  · exact Or.inl ⟨hx.symm, hy.symm⟩
  · right
    have hx' := congrArg (fun k : Int => (k : Q)) hx
    have hy' := congrArg (fun k : Int => (k : Q)) hy
    simp only [Rat.intCast_add, Rat.intCast_mul, Rat.intCast_ofNat] at hx' hy'
    constructor <;> grind

def roundPt (p : QPt) : QPt := ⟨(otRound p.x : Q), (otRound p.y : Q), p.on⟩

theorem ofTT_roundQ (l : List QPt) : ofTT (roundQ l) = l.map roundPt := by
  simp [ofTT, roundQ, roundPt]

theorem nearPt_iff (tol : Q) (p q : QPt) :
    nearPt tol p q = true ↔ p.on = q.on ∧ absQ (p.x - q.x) ≤ tol ∧ absQ (p.y - q.y) ≤ tol := by
  simp [nearPt, and_assoc]

theorem nearAll_iff (tol : Q) : ∀ l l' : List QPt, nearAll tol l l' = true ↔ AllRel (fun p q => nearPt tol p q = true) l l'
  | [], [] => by simp [nearAll, AllRel]
  | [], _ :: _ => by simp [nearAll, AllRel]
  | _ :: _, [] => by simp [nearAll, AllRel]
  | p :: l, q :: l' => by simp [nearAll, AllRel, nearAll_iff tol l l']

/-- what the static path's order (test on the float coordinates, round what is left) guarantees for a dropped point: the
    point implied by the ROUNDED neighbours is within 1/2 of the source point -/
theorem dropTest_droppable_round {a p b : QPt} (h : dropTest a p b = true) :
    Droppable (fun p q => nearPt (1/2) p q = true) roundPt a p b := by
  obtain ⟨ha, hp, hb⟩ := dropTest_flags h
  refine ⟨ha, hp, hb, ?_⟩
  show nearPt (1/2) p (midPt (roundPt a) (roundPt b)) = true
  rw [nearPt_iff]
  refine ⟨by simp [midPt, hp], ?_, ?_⟩
  · rcases dropTest_mid h with ⟨hx, -⟩ | ⟨hx, -⟩
    · simp only [midPt, roundPt]; rw [hx]; exact mid_round_near a.x b.x
    · simp only [midPt, roundPt]; rw [← hx]; exact round_near' p.x
  · rcases dropTest_mid h with ⟨-, hy⟩ | ⟨-, hy⟩
    · simp only [midPt, roundPt]; rw [hy]; exact mid_round_near a.y b.y
    · simp only [midPt, roundPt]; rw [← hy]; exact round_near' p.y

theorem roundPt_on (p : QPt) : (roundPt p).on = p.on := rfl

theorem near_roundPt (p : QPt) : nearPt (1/2) p (roundPt p) = true := by
  rw [nearPt_iff]; exact ⟨rfl, round_near' p.x, round_near' p.y⟩

theorem near_mid_round (a b : QPt) : nearPt (1/2) (midPt a b) (midPt (roundPt a) (roundPt b)) = true := by
  rw [nearPt_iff]; exact ⟨rfl, mid_round_near a.x b.x, mid_round_near a.y b.y⟩

/-- **C02_drop_round** (the "within rounding" clause): for EVERY contour over the rationals, the compiled contour — points
    tested and dropped on the unrounded coordinates, the rest rounded — expands to the source's expansion point for point:
    same on/off flags, every coordinate within 1/2; it starts one point later exactly when the first point was dropped. -/
theorem C02_drop_round (c : List QPt) :
    nearAll (1/2) (if (contourMask dropTest c).headD false then rot1 (expandImplied c) else expandImplied c)
      (expandImplied (ofTT (ttDropC c))) = true := by
  rw [nearAll_iff, ttDropC, ofTT_roundQ]
  exact drop_outline _ roundPt roundPt_on near_roundPt (fun a b _ _ => near_mid_round a b) c _
    (validC_contourMask dropTest _ (fun _ _ _ h => dropTest_droppable_round h) c)

theorem dropMask_sublist : ∀ (l : List α) (m : List Bool), (dropMask l m).Sublist l
  | [], _ => by simp [dropMask]
  | p :: l, m => by
    rw [dropMask]
    split
    · exact (dropMask_sublist l m.tail).cons p
    · exact (dropMask_sublist l m.tail).cons_cons p

/-- **C02_drop_spec**: the model meets the declarative predicate the compiled fonts are judged by, for every contour -/
theorem C02_drop_spec (c : List QPt) : holdsDropContour c (ttDropC c) = true := by
  simp only [holdsDropContour, Bool.and_eq_true, sameOutline, Bool.or_eq_true]
  constructor
  · rw [List.isSublist_iff_sublist]
    exact (dropMask_sublist c _).map _
  · have := C02_drop_round c
    split at this
    · exact Or.inr this
    · exact Or.inl this

/-! ### nothing more to drop afterwards -/

theorem headD_map' (f : α → β) (l : List α) (d : α) : (l.map f).headD (f d) = f (l.headD d) := by
  cases l <;> rfl

theorem getLastD_map' (f : α → β) : ∀ (l : List α) (d : α), (l.map f).getLastD (f d) = f (l.getLastD d)
  | [], _ => rfl
  | a :: l, d => by rw [map_cons, getLastD_cons, getLastD_cons, getLastD_map' f l a]

section idem
variable (t t' : QPt → QPt → QPt → Bool) (f : QPt → QPt)
  (ht : ∀ a p b, t a p b = true → a.on = false ∧ p.on = true ∧ b.on = false)
  (ht' : ∀ a p b, t' (f a) (f p) (f b) = true → t a p b = true)
include ht ht'

theorem idem_core (first first' : QPt) :
    ∀ (n : Nat) (p : QPt) (rest : List QPt) (prev prev' : QPt), rest.length ≤ n →
      t prev p (rest.headD first) = false →
      (p.on = true → prev' = prev) →
      (∀ lastP, (p :: rest).getLast? = some lastP → lastP.on = true → first' = first) →
      ∀ b ∈ maskGo t' (f first') (f prev') ((dropMask (p :: rest) (maskGo t first prev (p :: rest))).map f), b = false := by
  intro n
  induction n using Nat.strongRecOn with
  | _ n ih =>
    intro p rest prev prev' hn hm hprev hlast
    have hkeep : (maskGo t first prev (p :: rest)).headD false = false := by simp only [maskGo, headD_cons]; exact hm
    rw [dropMask_cons_keep _ _ _ hkeep]
    simp only [maskGo, tail_cons, map_cons, headD_map']
    intro b hb
    rw [mem_cons] at hb
    rcases hb with hb | hb
    · -- the test of `p` itself is unchanged
      subst hb
      cases hcase : t' (f prev') (f p) (f ((dropMask rest (maskGo t first p rest)).headD first')) with
      | false => rfl
      | true =>
        exfalso
        have h1 := ht' _ _ _ hcase
        obtain ⟨-, hp, -⟩ := ht _ _ _ h1
        rw [hprev hp] at h1
        have hnx : (dropMask rest (maskGo t first p rest)).headD first' = rest.headD first := by
          cases rest with
          | nil => simp only [dropMask, headD_nil]; exact hlast p rfl hp
          | cons q r =>
            cases hq : t p q (r.headD first) with
            | true => have := (ht _ _ _ hq).1; rw [hp] at this; cases this
            | false =>
              rw [dropMask_cons_keep _ _ _ (by simp only [maskGo, headD_cons]; exact hq)]; rfl
        rw [hnx, hm] at h1; cases h1
    · cases rest with
      | nil => simp [dropMask, maskGo] at hb
      | cons q r =>
        simp only [getLast?_cons_cons] at hlast
        cases hq : t p q (r.headD first) with
        | false =>
          exact ih r.length (by simp only [length_cons] at hn; omega) q r p p (Nat.le_refl _) hq (fun _ => rfl) hlast b hb
        | true =>
          obtain ⟨hp, hqon, hs⟩ := ht _ _ _ hq
          rw [dropMask_cons_drop _ _ _ (by simp only [maskGo, headD_cons]; exact hq)] at hb
          simp only [maskGo, tail_cons] at hb
          cases r with
          | nil => simp [dropMask, maskGo] at hb
          | cons s r' =>
            simp only [headD_cons] at hs
            have hks : t q s (r'.headD first) = false := by
              cases h : t q s (r'.headD first) with
              | false => rfl
              | true => have := (ht _ _ _ h).2.1; rw [hs] at this; cases this
            exact ih r'.length (by simp only [length_cons] at hn; omega) s r' q p (Nat.le_refl _) hks
              (fun h => by rw [hs] at h; cases h) (by simpa only [getLast?_cons_cons] using hlast) b hb

omit ht' in
/-- when the first point is on-curve the last point is not selected, so the last kept point is the last point -/
theorem last_kept (first : QPt) (hfirst : first.on = true) :
    ∀ (r : List QPt) (prev d : QPt), (dropMask r (maskGo t first prev r)).getLastD d = r.getLastD d
  | [], _, _ => rfl
  | [q], prev, d => by
    have : t prev q first = false := by
      cases h : t prev q first with
      | false => rfl
      | true => have := (ht _ _ _ h).2.2; rw [hfirst] at this; cases this
    rw [dropMask_cons_keep _ _ _ (by simp only [maskGo, headD_cons, headD_nil]; exact this)]
    simp [dropMask]
  | q :: s :: r, prev, d => by
    have ih := last_kept first hfirst (s :: r) q
    have htail : (maskGo t first prev (q :: s :: r)).tail = maskGo t first q (s :: r) := rfl
    have hhead : (maskGo t first prev (q :: s :: r)).headD false = t prev q s := rfl
    by_cases hb : t prev q s = true
    · rw [dropMask_cons_drop _ _ _ (by rw [hhead]; exact hb), htail]
      rw [ih d, getLastD_cons, getLastD_cons, getLastD_cons]
    · rw [dropMask_cons_keep _ _ _ (by rw [hhead]; simpa using hb), htail]
      rw [getLastD_cons, ih q, getLastD_cons, getLastD_cons, getLastD_cons]

/-- a second pass over the kept points (mapped by `f`, tested by `t'`) selects nothing -/
theorem idem_contour (c : List QPt) : ∀ b ∈ contourMask t' ((dropMask c (contourMask t c)).map f), b = false := by
  cases c with
  | nil => simp [dropMask, contourMask]
  | cons p0 r =>
    have hcm : contourMask t (p0 :: r) = maskGo t p0 (r.getLastD p0) (p0 :: r) := rfl
    have hcm' : ∀ (p : QPt) (X : List QPt), contourMask t' (map f (p :: X)) =
        maskGo t' (f p) (f (X.getLastD p)) (map f (p :: X)) := by
      intro p X; rw [map_cons, ← getLastD_map' f X p]; rfl
    have hhead : (maskGo t p0 (r.getLastD p0) (p0 :: r)).headD false = t (r.getLastD p0) p0 (r.headD p0) := rfl
    have htail : (maskGo t p0 (r.getLastD p0) (p0 :: r)).tail = maskGo t p0 p0 r := rfl
    rw [hcm]
    cases h0 : t (r.getLastD p0) p0 (r.headD p0) with
    | false =>
      have := idem_core t t' f ht ht' p0 p0 r.length p0 r (r.getLastD p0)
        ((dropMask r (maskGo t p0 p0 r)).getLastD p0) (Nat.le_refl _) h0
        (fun hon => last_kept t ht p0 hon r p0 p0) (fun _ _ _ => rfl)
      rw [dropMask_cons_keep _ _ _ (by rw [hhead]; exact h0), htail] at this ⊢
      rw [hcm']; exact this
    | true =>
      obtain ⟨hl, hp0, h1⟩ := ht _ _ _ h0
      rw [dropMask_cons_drop _ _ _ (by rw [hhead]; exact h0), htail]
      cases r with
      | nil => simp only [headD_nil] at h1; rw [hp0] at h1; cases h1
      | cons p1 r' =>
        simp only [headD_cons] at h1
        have hk1 : t p0 p1 (r'.headD p0) = false := by
          cases h : t p0 p1 (r'.headD p0) with
          | false => rfl
          | true => have := (ht _ _ _ h).2.1; rw [h1] at this; cases this
        have := idem_core t t' f ht ht' p0 p1 r'.length p1 r' p0
          ((dropMask r' (maskGo t p0 p1 r')).getLastD p1) (Nat.le_refl _) hk1
          (fun h => by rw [h1] at h; cases h)
          (fun lastP hlast hon => by
            have : (p1 :: r').getLastD p0 = lastP := by rw [getLastD_eq_getLast?, hlast]; rfl
            rw [this, hon] at hl; cases hl)
        have hhead1 : (maskGo t p0 p0 (p1 :: r')).headD false = t p0 p1 (r'.headD p0) := rfl
        have htail1 : (maskGo t p0 p0 (p1 :: r')).tail = maskGo t p0 p1 r' := rfl
        rw [dropMask_cons_keep _ _ _ (by rw [hhead1]; exact hk1), htail1] at this ⊢
        rw [hcm']; exact this
end idem

theorem dropMask_all_false : ∀ (l : List α) (m : List Bool), (∀ b ∈ m, b = false) → dropMask l m = l
  | [], _, _ => by simp [dropMask]
  | p :: l, m, h => by
    have h0 : m.headD false = false := by
      cases m with
      | nil => rfl
      | cons b m => exact h b (by simp)
    rw [dropMask_cons_keep _ _ _ h0, dropMask_all_false l m.tail (fun b hb => h b (mem_of_mem_tail hb))]

/-! ### masks and maps -/

theorem maskGo_map (t : QPt → QPt → QPt → Bool) (g : QPt → QPt) (first : QPt) :
    ∀ (l : List QPt) (prev : QPt),
      maskGo t (g first) (g prev) (l.map g) = maskGo (fun a p b => t (g a) (g p) (g b)) first prev l
  | [], _ => rfl
  | p :: r, prev => by
    simp only [map_cons, maskGo, headD_map']
    rw [maskGo_map t g first r p]

theorem contourMask_map (t : QPt → QPt → QPt → Bool) (g : QPt → QPt) (c : List QPt) :
    contourMask t (c.map g) = contourMask (fun a p b => t (g a) (g p) (g b)) c := by
  cases c with
  | nil => rfl
  | cons p r =>
    show maskGo t (g p) ((r.map g).getLastD (g p)) ((p :: r).map g) = _
    rw [getLastD_map', maskGo_map]; rfl

theorem validGo_map (V V' : QPt → QPt → QPt → Prop) (g : QPt → QPt) (hV : ∀ a p b, V a p b → V' (g a) (g p) (g b))
    (first : QPt) : ∀ (l : List QPt) (prev : QPt) (m : List Bool),
      ValidGo V first prev l m → ValidGo V' (g first) (g prev) (l.map g) m
  | [], _, _, _ => trivial
  | p :: r, prev, m, h => by
    refine ⟨fun hb => ?_, validGo_map V V' g hV first r p m.tail h.2⟩
    rw [headD_map']; exact hV _ _ _ (h.1 hb)

theorem validC_map (V V' : QPt → QPt → QPt → Prop) (g : QPt → QPt) (hV : ∀ a p b, V a p b → V' (g a) (g p) (g b))
    (c : List QPt) (m : List Bool) (h : ValidC V c m) : ValidC V' (c.map g) m := by
  cases c with
  | nil => trivial
  | cons p r =>
    show ValidGo V' (g p) ((r.map g).getLastD (g p)) ((p :: r).map g) m
    rw [getLastD_map']; exact validGo_map V V' g hV p (p :: r) _ m h

theorem dropMask_map (g : α → β) : ∀ (l : List α) (m : List Bool), dropMask (l.map g) m = (dropMask l m).map g
  | [], _ => by simp [dropMask]
  | p :: l, m => by
    rw [map_cons, dropMask, dropMask]
    split
    · exact dropMask_map g l m.tail
    · rw [map_cons, dropMask_map g l m.tail]

/-! ### render preservation, exactly -/

/-- **C02_drop_render (general form)**: leaving out points that are EXACTLY the midpoints of their off-curve neighbours does
    not change the expanded outline — the same list of points, hence the same sequence of quadratic segments; the list
    starts one point later exactly when the contour's first point is left out.  Holds for every closed contour, whatever
    remains (also when only off-curve points remain). -/
theorem C02_drop_render_general (c : List QPt) (m : List Bool)
    (hv : ValidC (Droppable (fun p q => p = q) id) c m) :
    expandImplied (dropMask c m) = if m.headD false then rot1 (expandImplied c) else expandImplied c := by
  have := drop_outline (fun p q => p = q) id (fun _ => rfl) (fun _ => rfl) (fun _ _ _ _ => rfl) c m hv
  rw [map_id] at this
  exact (AllRel.eq this).symm

theorem otRound_roundPt_x (p : QPt) : otRound (roundPt p).x = otRound p.x := C01.otRound_int _
theorem otRound_roundPt_y (p : QPt) : otRound (roundPt p).y = otRound p.y := C01.otRound_int _

/-- on integer coordinates both halves of `_is_mid_point` say: exactly the midpoint -/
theorem dropTest_round_exact {a p b : QPt} (h : dropTest (roundPt a) (roundPt p) (roundPt b) = true) :
    Droppable (fun p q => p = q) id (roundPt a) (roundPt p) (roundPt b) := by
  obtain ⟨ha, hp, hb⟩ := dropTest_flags h
  refine ⟨ha, hp, hb, ?_⟩
  show roundPt p = midPt (roundPt a) (roundPt b)
  have hon : p.on = true := hp
  rcases dropTest_mid h with ⟨hx, hy⟩ | ⟨hx, hy⟩
  · simp only [midPt]; rw [← hx, ← hy]; simp only [roundPt, hon]
  · rw [otRound_roundPt_x, otRound_roundPt_x, otRound_roundPt_x] at hx
    rw [otRound_roundPt_y, otRound_roundPt_y, otRound_roundPt_y] at hy
    simp only [midPt, roundPt, hon]
    rw [← hx, ← hy]

/-- **C02_drop_render**: for every contour on the integer grid (every glyf contour; `roundPt` is the identity there) the
    code's rule changes nothing in the rendered outline: `expandImplied (dropSingleC c) = expandImplied c`, started one
    point later exactly when the first point is dropped. -/
theorem C02_drop_render (c : List QPt) :
    expandImplied (dropSingleC (c.map roundPt)) =
      if (contourMask dropTest (c.map roundPt)).headD false then rot1 (expandImplied (c.map roundPt))
      else expandImplied (c.map roundPt) := by
  apply C02_drop_render_general
  rw [contourMask_map]
  exact validC_map _ _ roundPt (fun _ _ _ h => dropTest_round_exact h) c _
    (validC_contourMask _ _ (fun _ _ _ h => h) c)

theorem roundPt_ofTT (c : List TTPoint) : (ofTT c).map roundPt = ofTT c := by
  simp only [ofTT, map_map]
  apply map_congr_left
  intro p _
  simp [roundPt, C01.otRound_int]

/-- the same, said for glyf contours -/
theorem C02_drop_render_glyf (c : List TTPoint) :
    expandImplied (dropSingleC (ofTT c)) =
      if (contourMask dropTest (ofTT c)).headD false then rot1 (expandImplied (ofTT c)) else expandImplied (ofTT c) := by
  have := C02_drop_render (ofTT c)
  rwa [roundPt_ofTT] at this

/-- the exact-midpoint half of the rule alone -/
def exactTest (a p b : QPt) : Bool := p.on && !a.on && !b.on && exactMid a p b

/-- with the exact half of the rule alone: every contour over the rationals, no grid needed -/
theorem C02_drop_render_exact (c : List QPt) :
    expandImplied (dropMask c (contourMask exactTest c)) =
      if (contourMask exactTest c).headD false then rot1 (expandImplied c) else expandImplied c := by
  apply C02_drop_render_general
  apply validC_contourMask
  intro a p b h
  simp only [exactTest, exactMid, Bool.and_eq_true, Bool.not_eq_true', decide_eq_true_eq] at h
  refine ⟨h.1.1.2, h.1.1.1, h.1.2, ?_⟩
  show p = midPt a b
  cases p with
  | mk x y on =>
    simp only [midPt] at h ⊢
    rw [h.2.1, h.2.2, h.1.1.1]

/-! ### idempotence -/

/-- **C02_drop_idempotent**: a second pass drops nothing -/
theorem C02_drop_idempotent (c : List QPt) : dropSingleC (dropSingleC c) = dropSingleC c := by
  have := idem_contour dropTest dropTest id (fun _ _ _ h => dropTest_flags h) (fun _ _ _ h => h) c
  rw [map_id] at this
  exact dropMask_all_false _ _ this

theorem dropTest_of_round {a p b : QPt} (h : dropTest (roundPt a) (roundPt p) (roundPt b) = true) : dropTest a p b = true := by
  obtain ⟨ha, hp, hb⟩ := dropTest_flags h
  have ha' : a.on = false := ha
  have hp' : p.on = true := hp
  have hb' : b.on = false := hb
  have h2 := (dropTest_round_exact h).2.2.2
  have hx : (otRound p.x : Q) = ((otRound a.x : Q) + (otRound b.x : Q)) / 2 := congrArg QPt.x h2
  have hy : (otRound p.y : Q) = ((otRound a.y : Q) + (otRound b.y : Q)) / 2 := congrArg QPt.y h2
  have hx' : ((otRound a.x + otRound b.x : Int) : Q) = ((otRound p.x * 2 : Int) : Q) := by
    simp only [Rat.intCast_add, Rat.intCast_mul, Rat.intCast_ofNat]; grind
  have hy' : ((otRound a.y + otRound b.y : Int) : Q) = ((otRound p.y * 2 : Int) : Q) := by
    simp only [Rat.intCast_add, Rat.intCast_mul, Rat.intCast_ofNat]; grind
  simp only [dropTest, isMidPoint, roundedMid, ha', hp', hb', Bool.not_false, Bool.and_self, Bool.true_and, Bool.or_eq_true,
    Bool.and_eq_true, decide_eq_true_eq]
  exact Or.inr ⟨Rat.intCast_inj.mp hx', Rat.intCast_inj.mp hy'⟩

/-- **C02_drop_round_idempotent**: the compiled contour (dropped on the float coordinates, then rounded) has no impliable
    on-curve point left: running the option over its own output changes nothing -/
theorem C02_drop_round_idempotent (c : List QPt) : dropSingleC (ofTT (ttDropC c)) = ofTT (ttDropC c) := by
  rw [ttDropC, ofTT_roundQ]
  exact dropMask_all_false _ _
    (idem_contour dropTest dropTest roundPt (fun _ _ _ h => dropTest_flags h) (fun _ _ _ h => dropTest_of_round h) c)


/-! ### what testing before rounding costs -/

/-- **C02_drop_round_bound** (the true bound): for a dropped point, the point implied by its ROUNDED neighbours and the
    point's own rounded position differ by at most 1/2 in each coordinate -/
theorem C02_drop_round_bound {a p b : QPt} (h : dropTest a p b = true) :
    absQ ((otRound p.x : Q) - ((otRound a.x : Q) + (otRound b.x : Q)) / 2) ≤ 1/2 ∧
    absQ ((otRound p.y : Q) - ((otRound a.y : Q) + (otRound b.y : Q)) / 2) ≤ 1/2 := by
  have h0 : absQ (0 : Q) ≤ 1/2 := by rw [absQ_le_iff]; constructor <;> grind
  rcases dropTest_mid h with ⟨hx, hy⟩ | ⟨hx, hy⟩
  · rw [hx, hy]; exact ⟨round_mid_vs_mid_round a.x b.x, round_mid_vs_mid_round a.y b.y⟩
  · rw [hx, hy, Rat.sub_self, Rat.sub_self]; exact ⟨h0, h0⟩

/-- … and 1/2 is attained: (0,0) off, (1/2,1/2) on, (1,1) off — the point is dropped (exact midpoint), it would have been
    stored as (1,1), the neighbours are stored as (0,0) and (1,1) and imply (1/2,1/2) -/
theorem C02_drop_round_sharp :
    dropTest ⟨0, 0, false⟩ ⟨1/2, 1/2, true⟩ ⟨1, 1, false⟩ = true ∧
    absQ ((otRound (1/2 : Q) : Q) - ((otRound (0 : Q) : Q) + (otRound (1 : Q) : Q)) / 2) = 1/2 := by
  decide +kernel


theorem nearPt_refl (p : QPt) : nearPt (1/2) p p = true := by
  rw [nearPt_iff, Rat.sub_self, Rat.sub_self]
  have h0 : absQ (0 : Q) ≤ 1/2 := by rw [absQ_le_iff]; constructor <;> grind
  exact ⟨rfl, h0, h0⟩

/-- **C02_drop_round_vs_undropped**: against the contour compiled WITHOUT the option (every point rounded, none dropped):
    same expanded outline point for point, flags equal, coordinates within 1/2 — the bound `C02_drop_round_bound`, which
    is only used at the dropped points -/
theorem C02_drop_round_vs_undropped (c : List QPt) :
    nearAll (1/2) (if (contourMask dropTest c).headD false then rot1 (expandImplied (c.map roundPt))
                   else expandImplied (c.map roundPt))
      (expandImplied (ofTT (ttDropC c))) = true := by
  rw [nearAll_iff, ttDropC, ofTT_roundQ, dropSingleC, ← dropMask_map]
  have := drop_outline (fun p q => nearPt (1/2) p q = true) id (fun _ => rfl) nearPt_refl (fun a b _ _ => nearPt_refl _)
    (c.map roundPt) (contourMask dropTest c)
    (validC_map (fun a p b => dropTest a p b = true) _ roundPt
      (fun a p b h => by
        obtain ⟨ha, hp, hb⟩ := dropTest_flags h
        refine ⟨ha, hp, hb, ?_⟩
        show nearPt (1/2) (roundPt p) (midPt (roundPt a) (roundPt b)) = true
        rw [nearPt_iff]
        exact ⟨hp, (C02_drop_round_bound h).1, (C02_drop_round_bound h).2⟩)
      c _ (validC_contourMask _ _ (fun _ _ _ h => h) c))
  rwa [map_id] at this

/-! ### joint dropping -/

def getB (m : GMask) (i j : Nat) : Bool := ((m[i]?).getD [])[j]?.getD false

theorem getB_andMask (a b : GMask) (i j : Nat) : getB (andMask a b) i j = (getB a i j && getB b i j) := by
  simp only [getB, andMask, getElem?_zipWith]
  cases a[i]? <;> cases b[i]? <;> simp [getElem?_zipWith]
  rename_i x y
  cases x[j]? <;> cases y[j]? <;> simp

theorem getB_foldl (rest : List QGlyph) : ∀ (acc : GMask) (i j : Nat),
    getB (rest.foldl (fun acc g => andMask acc (glyphMask g)) acc) i j = true ↔
      getB acc i j = true ∧ ∀ g ∈ rest, getB (glyphMask g) i j = true := by
  induction rest with
  | nil => intro acc i j; simp
  | cons g rest ih =>
    intro acc i j
    rw [foldl_cons, ih, getB_andMask, Bool.and_eq_true]
    simp only [mem_cons, forall_eq_or_imp, and_assoc]

/-- **C02_drop_joint_subset**: a point (contour `i`, index `j`) is dropped jointly iff it is droppable in EVERY participating
    master: the dropped set is the intersection of the per-master sets -/
theorem C02_drop_joint_subset (g0 : QGlyph) (rest : List QGlyph) (i j : Nat) :
    getB (jointMask g0 rest) i j = true ↔ ∀ g ∈ g0 :: rest, getB (glyphMask g) i j = true := by
  rw [jointMask, getB_foldl]
  simp only [mem_cons, forall_eq_or_imp]

theorem mem_trueIdx : ∀ (m : List Bool) (k j : Nat), j ∈ trueIdx m k ↔ k ≤ j ∧ m[j - k]?.getD false = true
  | [], k, j => by simp [trueIdx]
  | b :: m, k, j => by
    rw [trueIdx]
    have ih := mem_trueIdx m (k + 1) j
    rcases Nat.lt_trichotomy j k with h | h | h
    · have h1 : ¬ k ≤ j := by omega
      have h2 : ¬ k + 1 ≤ j := by omega
      have h3 : j ≠ k := by omega
      cases b <;> simp [ih, h1, h2, h3]
    · subst h
      have h2 : ¬ j + 1 ≤ j := by omega
      cases b <;> simp [ih, h2]
    · have e : j - k = (j - (k + 1)) + 1 := by omega
      have h1 : k ≤ j := by omega
      have h2 : k + 1 ≤ j := by omega
      have h3 : j ≠ k := by omega
      rw [e, getElem?_cons_succ]
      cases b <;> simp [ih, h1, h2, h3]

/-- the index view: `mayDrop` lists exactly the selected positions -/
theorem mem_mayDrop (g : QGlyph) (i j : Nat) : j ∈ mayDrop (g.getD i []) ↔ getB (glyphMask g) i j = true := by
  rw [mayDrop, mem_trueIdx]
  simp only [Nat.zero_le, true_and, Nat.sub_zero, getB, glyphMask, getElem?_map, List.getD_eq_getElem?_getD]
  cases g[i]? <;> simp [contourMask]

/-- **C02_drop_joint_subset**, said with index sets -/
theorem C02_drop_joint_subset_idx (g0 : QGlyph) (rest : List QGlyph) (i j : Nat) :
    j ∈ trueIdx ((jointMask g0 rest).getD i []) 0 ↔ ∀ g ∈ g0 :: rest, j ∈ mayDrop (g.getD i []) := by
  rw [mem_trueIdx]
  have h := C02_drop_joint_subset g0 rest i j
  simp only [getB] at h
  simp only [Nat.zero_le, true_and, Nat.sub_zero, List.getD_eq_getElem?_getD, h]
  constructor <;> intro hh g hg
  · have := (mem_mayDrop g i j).mpr (by simpa only [getB] using hh g hg)
    simpa only [List.getD_eq_getElem?_getD] using this
  · have := (mem_mayDrop g i j).mp (by simpa only [List.getD_eq_getElem?_getD] using hh g hg)
    simpa only [getB] using this


/-- the selected points pass the code's test -/
abbrev Tested (a p b : QPt) : Prop := dropTest a p b = true

/-- a glyph-level mask: one valid contour mask per contour -/
def ValidG (g : QGlyph) (M : GMask) : Prop := AllRel (fun c m => ValidC Tested c m) g M

theorem validG_glyphMask : ∀ g : QGlyph, ValidG g (glyphMask g)
  | [] => trivial
  | c :: g => ⟨validC_contourMask _ _ (fun _ _ _ h => h) c, validG_glyphMask g⟩

theorem validC_and_left (c : List QPt) (m x : List Bool) (h : ValidC Tested c m) :
    ValidC Tested c (List.zipWith (fun a b => a && b) m x) := by
  cases c with
  | nil => trivial
  | cons p r => exact validGo_and_left _ _ _ _ _ _ h

theorem validC_and_right (c : List QPt) (m x : List Bool) (h : ValidC Tested c m) :
    ValidC Tested c (List.zipWith (fun a b => a && b) x m) := by
  cases c with
  | nil => trivial
  | cons p r => exact validGo_and_right _ _ _ _ _ _ h

theorem validG_and_left : ∀ (g : QGlyph) (M X : GMask), ValidG g M → X.length = g.length → ValidG g (andMask M X)
  | [], [], X, _, hx => by cases X with | nil => trivial | cons _ _ => simp at hx
  | [], _ :: _, _, h, _ => h.elim
  | _ :: _, [], _, h, _ => h.elim
  | c :: g, m :: M, [], _, hx => by simp at hx
  | c :: g, m :: M, x :: X, h, hx =>
    ⟨validC_and_left c m x h.1, validG_and_left g M X h.2 (by simpa using hx)⟩

theorem validG_and_right : ∀ (g : QGlyph) (M X : GMask), ValidG g M → X.length = g.length → ValidG g (andMask X M)
  | [], [], X, _, hx => by cases X with | nil => trivial | cons _ _ => simp at hx
  | [], _ :: _, _, h, _ => h.elim
  | _ :: _, [], _, h, _ => h.elim
  | c :: g, m :: M, [], _, hx => by simp at hx
  | c :: g, m :: M, x :: X, h, hx =>
    ⟨validC_and_right c m x h.1, validG_and_right g M X h.2 (by simpa using hx)⟩

theorem validG_length {g : QGlyph} {M : GMask} (h : ValidG g M) : M.length = g.length := (AllRel.length_eq h).symm

theorem glyphMask_length (g : QGlyph) : (glyphMask g).length = g.length := by simp [glyphMask]

theorem validG_foldl (g : QGlyph) : ∀ (rest : List QGlyph) (acc : GMask), ValidG g acc →
    (∀ g' ∈ rest, g'.length = g.length) →
    ValidG g (rest.foldl (fun acc g' => andMask acc (glyphMask g')) acc)
  | [], _, h, _ => h
  | g' :: rest, acc, h, hl =>
    validG_foldl g rest _ (validG_and_left g acc _ h (by rw [glyphMask_length]; exact hl g' (by simp)))
      (fun g'' hg => hl g'' (by simp [hg]))

theorem validG_foldl_mem (g : QGlyph) : ∀ (rest : List QGlyph) (acc : GMask), g ∈ rest → acc.length = g.length →
    (∀ g' ∈ rest, g'.length = g.length) →
    ValidG g (rest.foldl (fun acc g' => andMask acc (glyphMask g')) acc)
  | [], _, hm, _, _ => by simp at hm
  | g' :: rest, acc, hm, hacc, hl => by
    rw [foldl_cons]
    by_cases hg : g = g'
    · subst hg
      exact validG_foldl g rest _ (validG_and_right g _ acc (validG_glyphMask g) hacc) (fun g'' hg => hl g'' (by simp [hg]))
    · have hm' : g ∈ rest := by
        rcases mem_cons.mp hm with h | h
        · exact absurd h hg
        · exact h
      refine validG_foldl_mem g rest _ hm' ?_ (fun g'' hg => hl g'' (by simp [hg]))
      simp only [andMask, length_zipWith, glyphMask_length, hacc, hl g' (by simp), Nat.min_self]

theorem length_of_shape {g g' : QGlyph} (h : shape g = shape g') : g.length = g'.length := by
  have := congrArg List.length h
  simpa [shape] using this

/-- the joint mask is a valid mask for every participating master -/
theorem validG_jointMask (g0 : QGlyph) (rest : List QGlyph) (hs : ∀ g ∈ rest, shape g = shape g0) :
    ∀ g ∈ g0 :: rest, ValidG g (jointMask g0 rest) := by
  intro g hg
  have hl : ∀ g' ∈ rest, g'.length = g.length := by
    intro g' hg'
    rcases mem_cons.mp hg with h | h
    · rw [h]; exact length_of_shape (hs g' hg')
    · rw [length_of_shape (hs g' hg'), length_of_shape (hs g h)]
  rcases mem_cons.mp hg with h | h
  · subst h; exact validG_foldl g rest _ (validG_glyphMask g) hl
  · exact validG_foldl_mem g rest _ h (by rw [glyphMask_length]; exact (length_of_shape (hs g h)).symm) hl

theorem shape_dropGlyph : ∀ (g : QGlyph) (M : GMask), shape (dropGlyph g M) = List.zipWith dropMask (shape g) M
  | [], _ => by simp [shape, dropGlyph]
  | _ :: _, [] => by simp [shape, dropGlyph]
  | c :: g, m :: M => by
    have ih := shape_dropGlyph g M
    simp only [shape, dropGlyph, zipWith_cons_cons, map_cons] at ih ⊢
    rw [ih, dropMask_map]

theorem validGo_mono (V V' : QPt → QPt → QPt → Prop) (hV : ∀ a p b, V a p b → V' a p b) (first : QPt) :
    ∀ (l : List QPt) (prev : QPt) (m : List Bool), ValidGo V first prev l m → ValidGo V' first prev l m
  | [], _, _, _ => trivial
  | _ :: r, _, m, h => ⟨fun hb => hV _ _ _ (h.1 hb), validGo_mono V V' hV first r _ m.tail h.2⟩

/-- every contour of a validly masked glyph keeps its outline within rounding, once compiled -/
theorem validG_outline : ∀ (g : QGlyph) (M : GMask), ValidG g M →
    AllRel (fun c c' => sameOutline (1/2) c (ofTT (roundQ c')) = true) g (dropGlyph g M)
  | [], [], _ => trivial
  | [], _ :: _, h => h.elim
  | _ :: _, [], h => h.elim
  | c :: g, m :: M, h => by
    refine ⟨?_, validG_outline g M h.2⟩
    have := drop_outline (fun p q => nearPt (1/2) p q = true) roundPt roundPt_on near_roundPt (fun a b _ _ => near_mid_round a b) c m
      (by
        cases c with
        | nil => trivial
        | cons p r => exact validGo_mono _ _ (fun _ _ _ h => dropTest_droppable_round h) _ _ _ _ h.1)
    rw [← nearAll_iff, ← ofTT_roundQ] at this
    simp only [sameOutline, Bool.or_eq_true]
    split at this
    · exact Or.inr this
    · exact Or.inl this


theorem validGo_comap (V' : QPt → QPt → QPt → Prop) (g : QPt → QPt) (first : QPt) :
    ∀ (l : List QPt) (prev : QPt) (m : List Bool), ValidGo V' (g first) (g prev) (l.map g) m →
      ValidGo (fun a p b => V' (g a) (g p) (g b)) first prev l m
  | [], _, _, _ => trivial
  | p :: r, _, m, h => by
    refine ⟨fun hb => ?_, validGo_comap V' g first r p m.tail h.2⟩
    have := h.1 hb
    rwa [headD_map'] at this

/-- on the integer grid: exactly the same outline -/
theorem validG_outline_exact : ∀ (g : QGlyph) (M : GMask), ValidG (g.map (fun c => c.map roundPt)) M →
    AllRel (fun c c' => expandImplied c' = expandImplied c ∨ expandImplied c' = rot1 (expandImplied c))
      (g.map (fun c => c.map roundPt)) (dropGlyph (g.map (fun c => c.map roundPt)) M)
  | [], [], _ => trivial
  | [], _ :: _, h => h.elim
  | _ :: _, [], h => h.elim
  | c :: g, m :: M, h => by
    refine ⟨?_, validG_outline_exact g M h.2⟩
    have hv : ValidC (Droppable (fun p q => p = q) id) (c.map roundPt) m := by
      cases c with
      | nil => trivial
      | cons p r =>
        have h1 : ValidGo Tested (roundPt p) ((r.map roundPt).getLastD (roundPt p)) ((p :: r).map roundPt) m := h.1
        rw [getLastD_map'] at h1
        have h2 := validGo_comap Tested roundPt p (p :: r) _ m h1
        have h3 := validGo_map _ _ roundPt (fun _ _ _ h => dropTest_round_exact h) p (p :: r) _ m h2
        show ValidGo _ (roundPt p) ((r.map roundPt).getLastD (roundPt p)) ((p :: r).map roundPt) m
        rw [getLastD_map']; exact h3
    have := C02_drop_render_general (c.map roundPt) m hv
    split at this
    · exact Or.inr this
    · exact Or.inl this

theorem dropJoint_ok_iff (masters out : List QGlyph) :
    dropJoint masters = .ok out ↔
      (simpleMasters masters = [] ∧ out = masters) ∨
      ∃ g0 rest, simpleMasters masters = g0 :: rest ∧ (∀ g ∈ rest, shape g = shape g0) ∧
        out = masters.map (fun g => dropGlyph g (jointMask g0 rest)) := by
  unfold dropJoint
  cases hs : simpleMasters masters with
  | nil => simp; exact eq_comm
  | cons g0 rest =>
    dsimp only
    by_cases hall : (rest.all fun g => shape g == shape g0) = true
    · rw [if_pos hall]
      simp only [all_eq_true, beq_iff_eq] at hall
      simp only [Except.ok.injEq, reduceCtorEq, false_and, cons.injEq, false_or]
      constructor
      · intro h; exact ⟨g0, rest, ⟨rfl, rfl⟩, hall, h.symm⟩
      · rintro ⟨_, _, ⟨rfl, rfl⟩, _, h⟩; exact h.symm
    · rw [if_neg hall]
      simp only [all_eq_true, beq_iff_eq] at hall
      simp only [reduceCtorEq, false_and, cons.injEq, false_or, false_iff, not_exists, not_and]
      rintro _ _ ⟨rfl, rfl⟩ h; exact absurd h hall

/-- **C02_drop_joint_error**: the joint drop fails (`ValueError`) exactly when two participating masters differ in contour
    count, flags or contour ends -/
theorem C02_drop_joint_error (masters : List QGlyph) :
    dropJoint masters = .error .valueError ↔
      ∃ g0 rest, simpleMasters masters = g0 :: rest ∧ ∃ g ∈ rest, shape g ≠ shape g0 := by
  unfold dropJoint
  cases hs : simpleMasters masters with
  | nil => simp
  | cons g0 rest =>
    dsimp only
    by_cases hall : (rest.all fun g => shape g == shape g0) = true
    · rw [if_pos hall]
      simp only [all_eq_true, beq_iff_eq] at hall
      simp only [reduceCtorEq, cons.injEq, false_iff, not_exists, not_and]
      rintro _ _ ⟨rfl, rfl⟩ g hg; exact fun h => h (hall g hg)
    · rw [if_neg hall]
      have hall' : ∃ g, g ∈ rest ∧ shape g ≠ shape g0 := by
        apply Classical.byContradiction
        intro hno
        apply hall
        simp only [all_eq_true, beq_iff_eq]
        intro g hg
        apply Classical.byContradiction
        intro hne
        exact hno ⟨g, hg, hne⟩
      obtain ⟨g, hg, hne⟩ := hall'
      simp only [cons.injEq, true_iff]
      exact ⟨g0, rest, ⟨rfl, rfl⟩, g, hg, hne⟩

/-- **C02_drop_joint_compatible**: when the joint drop succeeds, ONE mask `M` is applied to every master; afterwards all
    participating masters still have the same contour count, flags and contour ends (point-compatible); every master keeps
    every contour, and each contour's outline is its own outline before the drop — within rounding once compiled, and
    exactly (same expanded point list, possibly started one point later) for a master on the integer grid. -/
theorem C02_drop_joint_compatible (masters out : List QGlyph) (h : dropJoint masters = .ok out) :
    ∃ M : GMask, out = masters.map (fun g => dropGlyph g M) ∧
      (∀ g ∈ simpleMasters masters, ∀ g' ∈ simpleMasters masters, shape (dropGlyph g M) = shape (dropGlyph g' M)) ∧
      (∀ g ∈ simpleMasters masters,
        AllRel (fun c c' => sameOutline (1/2) c (ofTT (roundQ c')) = true) g (dropGlyph g M)) ∧
      (∀ g : QGlyph, g.map (fun c => c.map roundPt) ∈ simpleMasters masters →
        AllRel (fun c c' => expandImplied c' = expandImplied c ∨ expandImplied c' = rot1 (expandImplied c))
          (g.map (fun c => c.map roundPt)) (dropGlyph (g.map (fun c => c.map roundPt)) M)) := by
  rcases (dropJoint_ok_iff masters out).mp h with ⟨hs, hout⟩ | ⟨g0, rest, hs, hshape, hout⟩ <;> rw [hout]
  · refine ⟨[], ?_, ?_, ?_, ?_⟩
    · have : ∀ g : QGlyph, g ∈ masters → g = [] := by
        intro g hg
        cases g with
        | nil => rfl
        | cons c g =>
          have : (c :: g) ∈ simpleMasters masters := by simp [simpleMasters, hg]
          rw [hs] at this; cases this
      rw [← map_id masters]
      simp only [map_map]
      apply map_congr_left
      intro g hg; rw [this g hg]; rfl
    all_goals (rw [hs]; intro g hg; cases hg)
  · have hv := validG_jointMask g0 rest hshape
    rw [hs]
    refine ⟨jointMask g0 rest, rfl, ?_, ?_, ?_⟩
    · intro g hg g' hg'
      have e : ∀ g ∈ g0 :: rest, shape g = shape g0 := by
        intro g hg
        rcases mem_cons.mp hg with h | h
        · rw [h]
        · exact hshape g h
      rw [shape_dropGlyph, shape_dropGlyph, e g hg, e g' hg']
    · intro g hg; exact validG_outline g _ (hv g hg)
    · intro g hg; exact validG_outline_exact g _ (hv _ hg)

/-! ### witnesses -/

def exM0 : QGlyph := [[⟨0, 0, false⟩, ⟨50, 0, true⟩, ⟨100, 0, false⟩, ⟨100, 50, true⟩, ⟨100, 100, false⟩, ⟨10, 200, true⟩]]
def exM1 : QGlyph := [[⟨0, 0, false⟩, ⟨100, 0, true⟩, ⟨200, 0, false⟩, ⟨200, 60, true⟩, ⟨200, 100, false⟩, ⟨10, 300, true⟩]]

/-- **joint witness**: point 1 is impliable in both masters, point 3 only in the first — jointly only point 1 goes, point 3
    stays in BOTH masters (alone, the first master would lose it) -/
theorem C02_drop_joint_witness :
    mayDrop (exM0.getD 0 []) = [1, 3] ∧ mayDrop (exM1.getD 0 []) = [1] ∧
    (match dropJoint [exM0, exM1] with | .ok r => some r | .error _ => none) = some
      [[[⟨0, 0, false⟩, ⟨100, 0, false⟩, ⟨100, 50, true⟩, ⟨100, 100, false⟩, ⟨10, 200, true⟩]],
       [[⟨0, 0, false⟩, ⟨200, 0, false⟩, ⟨200, 60, true⟩, ⟨200, 100, false⟩, ⟨10, 300, true⟩]]] ∧
    dropSingle exM0 = [[⟨0, 0, false⟩, ⟨100, 0, false⟩, ⟨100, 100, false⟩, ⟨10, 200, true⟩]] := by
  decide +kernel


/-! ### the model meets the declarative predicates -/

theorem validC_sameOutline (c : List QPt) (m : List Bool) (h : ValidC Tested c m) :
    sameOutline (1/2) c (ofTT (roundQ (dropMask c m))) = true := by
  have := drop_outline (fun p q => nearPt (1/2) p q = true) roundPt roundPt_on near_roundPt
    (fun a b _ _ => near_mid_round a b) c m
    (by
      cases c with
      | nil => trivial
      | cons p r => exact validGo_mono _ _ (fun _ _ _ h => dropTest_droppable_round h) _ _ _ _ h)
  rw [← nearAll_iff, ← ofTT_roundQ] at this
  simp only [sameOutline, Bool.or_eq_true]
  split at this
  · exact Or.inr this
  · exact Or.inl this

theorem validC_holds (c : List QPt) (m : List Bool) (h : ValidC Tested c m) :
    holdsDropContour c (roundQ (dropMask c m)) = true := by
  simp only [holdsDropContour, Bool.and_eq_true]
  exact ⟨by rw [List.isSublist_iff_sublist]; exact (dropMask_sublist c _).map _, validC_sameOutline c m h⟩

theorem validG_holds : ∀ (g : QGlyph) (M : GMask), ValidG g M → holdsDropGlyph g ((dropGlyph g M).map roundQ) = true
  | [], [], _ => rfl
  | [], _ :: _, h => h.elim
  | _ :: _, [], h => h.elim
  | c :: g, m :: M, h => by
    have ih := validG_holds g M h.2
    simp only [holdsDropGlyph, dropGlyph, zipWith_cons_cons, map_cons, length_cons, zip_cons_cons, all_cons,
      Bool.and_eq_true, beq_iff_eq] at ih ⊢
    exact ⟨by rw [ih.1], validC_holds c m h.1, ih.2⟩

theorem dropSingle_eq : ∀ g : QGlyph, dropSingle g = g.map dropSingleC
  | [] => rfl
  | c :: g => by
    have ih := dropSingle_eq g
    simp only [dropSingle, dropGlyph, glyphMask, map_cons, zipWith_cons_cons] at ih ⊢
    rw [ih]; rfl

/-- **C02_drop_glyph_spec**: every simple glyph compiled with the option satisfies the predicate compiled fonts are judged by -/
theorem C02_drop_glyph_spec (g : QGlyph) : holdsDropGlyph g ((dropSingle g).map roundQ) = true :=
  validG_holds g _ (validG_glyphMask g)

/-- the empty mask drops nothing and is valid -/
theorem validG_nil_mask : ∀ g : QGlyph, ValidG g (g.map (fun _ => []))
  | [] => trivial
  | c :: g => by
    refine ⟨?_, validG_nil_mask g⟩
    cases c with
    | nil => trivial
    | cons p r =>
      have : ∀ (l : List QPt) (first prev : QPt), ValidGo Tested first prev l [] := by
        intro l
        induction l with
        | nil => intro _ _; trivial
        | cons a l ih => intro first prev; exact ⟨fun h => by simp at h, ih first a⟩
      exact this _ _ _

theorem dropMask_nil : ∀ l : List α, dropMask l [] = l
  | [] => rfl
  | a :: l => by rw [dropMask_cons_keep _ _ _ rfl]; simp only [tail_nil]; rw [dropMask_nil l]

theorem dropGlyph_nil_mask : ∀ g : QGlyph, dropGlyph g (g.map (fun _ => [])) = g
  | [] => rfl
  | c :: g => by
    have ih := dropGlyph_nil_mask g
    simp only [dropGlyph, map_cons, zipWith_cons_cons] at ih ⊢
    rw [ih, dropMask_nil]

/-- a contour compiled WITHOUT dropping anything satisfies the predicate too (it only forbids wrong drops) -/
theorem holds_nodrop (g : QGlyph) : holdsDropGlyph g (g.map roundQ) = true := by
  have := validG_holds g _ (validG_nil_mask g)
  rwa [dropGlyph_nil_mask] at this

theorem pick_dropMask (first : QPt) : ∀ (l : List QPt) (prev : QPt) (m : List Bool), ValidGo Tested first prev l m →
    pickByFlags l ((dropMask l m).map (·.on)) = dropMask l m
  | [], _, _, _ => by simp [dropMask, pickByFlags]
  | p :: r, prev, m, h => by
    have ih := pick_dropMask first r p m.tail h.2
    by_cases hb : m.headD false = true
    · obtain ⟨-, hp, hn⟩ := dropTest_flags (h.1 hb)
      rw [dropMask_cons_drop _ _ _ hb]
      cases r with
      | nil => simp [dropMask, pickByFlags]
      | cons q r' =>
        simp only [headD_cons] at hn
        have hk : m.tail.headD false = false := by
          cases hq : m.tail.headD false with
          | false => rfl
          | true => have := (dropTest_flags (h.2.1 hq)).2.1; rw [hn] at this; cases this
        rw [dropMask_cons_keep _ _ _ hk] at ih ⊢
        rw [map_cons, pickByFlags, if_neg (by rw [hp, hn]; decide)]
        rw [map_cons] at ih; exact ih
    · have hb' : m.headD false = false := by simpa using hb
      rw [dropMask_cons_keep _ _ _ hb', map_cons, pickByFlags, if_pos (by simp), ih]

theorem validC_fits (c d : List QPt) (m : List Bool) (h : ValidC Tested c m) (hs : c.map (·.on) = d.map (·.on)) :
    fitsMaster c ((roundQ (dropMask d m)).map (·.on)) = true := by
  have e : (roundQ (dropMask d m)).map (·.on) = (dropMask c m).map (·.on) := by
    simp only [roundQ, map_map]
    show (dropMask d m).map (·.on) = _
    rw [← dropMask_map, ← dropMask_map, hs]
  have hp : pickByFlags c ((dropMask c m).map (·.on)) = dropMask c m := by
    cases c with
    | nil => simp [dropMask, pickByFlags]
    | cons p r => exact pick_dropMask p (p :: r) _ m h
  simp only [fitsMaster, e, hp, Bool.and_eq_true, beq_iff_eq, true_and]
  exact validC_sameOutline c m h

theorem validG_fits : ∀ (g d : QGlyph) (M : GMask), ValidG g M → shape g = shape d →
    (g.zip ((dropGlyph d M).map roundQ)).all (fun e => fitsMaster e.1 (e.2.map (·.on))) = true
  | [], _, _, _, _ => by simp
  | _ :: _, [], _, _, hs => by simp [shape] at hs
  | _ :: _, _ :: _, [], h, _ => h.elim
  | c :: g, dc :: d, m :: M, h, hs => by
    simp only [shape, map_cons, cons.injEq] at hs
    have ih := validG_fits g d M h.2 (by simpa [shape] using hs.2)
    simp only [dropGlyph, zipWith_cons_cons, map_cons, zip_cons_cons, all_cons, Bool.and_eq_true] at ih ⊢
    exact ⟨validC_fits c dc m h.1 hs.1, ih⟩


theorem getD_mem_simple (masters : List QGlyph) (dflt : Nat) (h : (masters.getD dflt []).isEmpty = false) :
    masters.getD dflt [] ∈ simpleMasters masters := by
  rw [List.getD_eq_getElem?_getD] at h ⊢
  cases hd : masters[dflt]? with
  | none => rw [hd] at h; simp at h
  | some d =>
    rw [hd] at h
    simp only [Option.getD_some] at h ⊢
    simp only [simpleMasters, mem_filter, h, Bool.not_false, and_true]
    exact mem_of_getElem? hd

theorem dropGlyph_length {g : QGlyph} {M : GMask} (h : ValidG g M) : (dropGlyph g M).length = g.length := by
  simp only [dropGlyph, length_zipWith, validG_length h, Nat.min_self]

/-! ### more witnesses / non-vacuity -/

def exC : List QPt := [⟨0, 0, false⟩, ⟨50, 0, true⟩, ⟨100, 0, false⟩, ⟨100, 50, true⟩, ⟨100, 100, false⟩, ⟨10, 200, true⟩]

/-- `C02_drop_render` / `C02_drop_idempotent` are not vacuous: two points go, the expanded outline is the same list -/
example : dropSingleC exC = [⟨0, 0, false⟩, ⟨100, 0, false⟩, ⟨100, 100, false⟩, ⟨10, 200, true⟩] ∧
    expandImplied (dropSingleC exC) = expandImplied exC ∧ exC.map roundPt = exC := by decide +kernel

/-- **C02_drop_maximal**: nothing impliable is left in a compiled contour -/
theorem C02_drop_maximal (c : List QPt) : noImpliableLeft (ttDropC c) = true := by
  rw [noImpliableLeft, all_eq_true, ttDropC, ofTT_roundQ]
  intro b hb
  rw [idem_contour dropTest dropTest roundPt (fun _ _ _ h => dropTest_flags h) (fun _ _ _ h => dropTest_of_round h) c b hb]
  rfl

/-- … and it is a real demand: the undropped contour fails it -/
example : noImpliableLeft (roundQ exC) = false := by decide +kernel

def exRing : List QPt :=
  [⟨50, 0, true⟩, ⟨100, 0, false⟩, ⟨100, 50, true⟩, ⟨100, 100, false⟩, ⟨50, 100, true⟩, ⟨0, 100, false⟩, ⟨0, 50, true⟩, ⟨0, 0, false⟩]

/-- **the all-off-curve result**: every on-curve point of this contour is implied; what is left has off-curve points only,
    and it still expands to the same cyclic point list (started one point later: the first point was dropped) -/
theorem C02_drop_all_off :
    dropSingleC exRing = [⟨100, 0, false⟩, ⟨100, 100, false⟩, ⟨0, 100, false⟩, ⟨0, 0, false⟩] ∧
    expandImplied (dropSingleC exRing) = rot1 (expandImplied exRing) ∧
    expandImplied exRing = exRing := by decide +kernel

/-- **dropped by the rounded half of the rule only**: (7/4, 0) is not the midpoint (3/2, 0) of (1/2, 0) and (5/2, 0), but after
    rounding 2 is the midpoint of 1 and 3: the point is dropped; the unrounded outline would move by 1/4, the compiled
    outline is exactly the one compiled without the option -/
theorem C02_drop_rounded_only :
    let c : List QPt := [⟨1/2, 0, false⟩, ⟨7/4, 0, true⟩, ⟨5/2, 0, false⟩, ⟨10, -10, true⟩]
    exactMid ⟨1/2, 0, false⟩ ⟨7/4, 0, true⟩ ⟨5/2, 0, false⟩ = false ∧
    ttDropC c = [⟨1, 0, false⟩, ⟨3, 0, false⟩, ⟨10, -10, true⟩] ∧
    expandImplied (ofTT (ttDropC c)) = expandImplied (c.map roundPt) := by decide +kernel

/-- `C02_drop_round` is not vacuous and its bound is attained on a contour: the implied point is (1/2, 1/2), the source point
    (1/2, 1/2) would have been stored as (1, 1) -/
example :
    let c : List QPt := [⟨0, 0, false⟩, ⟨1/2, 1/2, true⟩, ⟨1, 1, false⟩, ⟨10, -10, true⟩]
    ttDropC c = [⟨0, 0, false⟩, ⟨1, 1, false⟩, ⟨10, -10, true⟩] ∧
    expandImplied (ofTT (ttDropC c)) = [⟨0, 0, false⟩, ⟨1/2, 1/2, true⟩, ⟨1, 1, false⟩, ⟨10, -10, true⟩] ∧
    expandImplied (c.map roundPt) = [⟨0, 0, false⟩, ⟨1, 1, true⟩, ⟨1, 1, false⟩, ⟨10, -10, true⟩] := by decide +kernel

/-- the joint error case is met: a master with a different flag pattern -/
example : dropJoint [exM0, [[⟨0, 0, false⟩, ⟨100, 0, true⟩, ⟨200, 0, true⟩, ⟨200, 60, true⟩, ⟨200, 100, false⟩, ⟨10, 300, true⟩]]]
    = .error .valueError := by
  rw [C02_drop_joint_error]
  exact ⟨exM0, _, rfl, _, List.mem_singleton.mpr rfl, by decide⟩

/-! ### the recursion is the Python index arithmetic -/

theorem maskGo_length (t : QPt → QPt → QPt → Bool) (first : QPt) : ∀ (l : List QPt) (prev : QPt),
    (maskGo t first prev l).length = l.length
  | [], _ => rfl
  | p :: r, _ => by simp [maskGo, maskGo_length t first r p]

theorem maskGo_getD (t : QPt → QPt → QPt → Bool) (first : QPt) : ∀ (l : List QPt) (prev : QPt) (j : Nat), j < l.length →
    (maskGo t first prev l).getD j false =
      t (if j = 0 then prev else l.getD (j - 1) first) (l.getD j first) (if j + 1 < l.length then l.getD (j + 1) first else first)
  | [], _, _, h => by simp at h
  | p :: r, prev, 0, _ => by
    cases r <;> simp [maskGo]
  | p :: r, prev, j + 1, h => by
    have hj : j < r.length := by simpa using h
    have ih := maskGo_getD t first r p j hj
    simp only [maskGo, getD_cons_succ, ih, length_cons, Nat.add_lt_add_iff_right, Nat.add_sub_cancel]
    cases j with
    | zero => simp
    | succ k => simp

theorem getD_length_cons (p : QPt) : ∀ (r : List QPt) (d : QPt), (p :: r).getD r.length d = r.getLastD p
  | [], _ => rfl
  | q :: r, d => by
    rw [length_cons, getD_cons_succ, getD_length_cons q r d, getLastD_cons]

/-- **mayDrop_spec**: the model's neighbour recursion is exactly `prv = i - 1 if i > start else last`,
    `nxt = i + 1 if i < last else start`: index `i` is selected iff the code's test passes on the cyclic neighbours -/
theorem mayDrop_spec (c : List QPt) (d : QPt) (i : Nat) :
    i ∈ mayDrop c ↔ i < c.length ∧
      dropTest (c.getD ((i + c.length - 1) % c.length) d) (c.getD i d) (c.getD ((i + 1) % c.length) d) = true := by
  rw [mayDrop, mem_trueIdx]
  simp only [Nat.zero_le, true_and, Nat.sub_zero]
  cases c with
  | nil => simp [contourMask]
  | cons p r =>
    by_cases hi : i < (p :: r).length
    · have h := maskGo_getD dropTest p (p :: r) (r.getLastD p) i hi
      rw [List.getD_eq_getElem?_getD] at h
      show (maskGo dropTest p (r.getLastD p) (p :: r))[i]?.getD false = true ↔ _
      rw [h]
      simp only [hi, true_and]
      have e1 : (if i = 0 then r.getLastD p else (p :: r).getD (i - 1) p) =
          (p :: r).getD ((i + (p :: r).length - 1) % (p :: r).length) d := by
        by_cases h0 : i = 0
        · subst h0
          rw [if_pos rfl, Nat.zero_add, length_cons, Nat.add_sub_cancel, Nat.mod_eq_of_lt (Nat.lt_succ_self _),
            getD_length_cons]
        · rw [if_neg h0]
          have : (i + (p :: r).length - 1) % (p :: r).length = i - 1 := by
            have : i + (p :: r).length - 1 = (i - 1) + (p :: r).length := by omega
            rw [this, Nat.add_mod_right, Nat.mod_eq_of_lt (by omega)]
          rw [this, List.getD_eq_getElem?_getD, List.getD_eq_getElem?_getD, getElem?_eq_getElem (by omega)]; rfl
      have e2 : (p :: r).getD i p = (p :: r).getD i d := by
        rw [List.getD_eq_getElem?_getD, List.getD_eq_getElem?_getD, getElem?_eq_getElem hi]; rfl
      have e3 : (if i + 1 < (p :: r).length then (p :: r).getD (i + 1) p else p) =
          (p :: r).getD ((i + 1) % (p :: r).length) d := by
        by_cases h1 : i + 1 < (p :: r).length
        · rw [if_pos h1, Nat.mod_eq_of_lt h1, List.getD_eq_getElem?_getD, List.getD_eq_getElem?_getD,
            getElem?_eq_getElem h1]; rfl
        · have : i + 1 = (p :: r).length := by omega
          rw [if_neg h1, this, Nat.mod_self]; rfl
      rw [e1, e2, e3]
    · have : (contourMask dropTest (p :: r))[i]? = none := by
        rw [getElem?_eq_none]
        show (maskGo dropTest p (r.getLastD p) (p :: r)).length ≤ i
        rw [maskGo_length]; omega
      rw [this]
      constructor
      · intro h; simp at h
      · intro h; exact absurd h.1 hi

/-- `mayDrop_spec` is about something: index 1 of `exC` sits between points 0 and 2 -/
example : 1 ∈ mayDrop exC ∧ 3 ∈ mayDrop exC ∧ 5 ∉ mayDrop exC := by decide +kernel

/-- a composite stays what it was without the option -/
theorem C02_drop_composite (o : Opts) (g : Glyph) (h : (g.comps.isEmpty || !g.contours.isEmpty) = false) :
    ttGlyphDrop o g = ttGlyph o g := by
  simp [ttGlyphDrop, ttGlyph, h]

/-! ### the test of a kept point does not see what was dropped -/

/-- what any valid drop guarantees about flags -/
def Flagged (a p b : QPt) : Prop := a.on = false ∧ p.on = true ∧ b.on = false

section restrict
variable (t : QPt → QPt → QPt → Bool)
  (ht : ∀ a p b, t a p b = true → a.on = false ∧ p.on = true ∧ b.on = false)
include ht

theorem t_off (a p b : QPt) (hp : p.on = false) : t a p b = false := by
  cases h : t a p b with
  | false => rfl
  | true => have := (ht _ _ _ h).2.1; rw [hp] at this; cases this

theorem restrict_core (first first' : QPt) :
    ∀ (n : Nat) (p : QPt) (rest : List QPt) (m : List Bool) (prev prev' : QPt), rest.length ≤ n →
      ValidGo Flagged first prev (p :: rest) m → m.headD false = false →
      (p.on = true → prev' = prev) →
      (∀ lastP, (p :: rest).getLast? = some lastP → lastP.on = true → first' = first) →
      maskGo t first' prev' (dropMask (p :: rest) m) = dropMask (maskGo t first prev (p :: rest)) m := by
  intro n
  induction n using Nat.strongRecOn with
  | _ n ih =>
    intro p rest m prev prev' hn hv hm hprev hlast
    rw [dropMask_cons_keep _ _ _ hm]
    rw [show maskGo t first prev (p :: rest) = t prev p (rest.headD first) :: maskGo t first p rest from rfl,
      dropMask_cons_keep _ _ _ hm]
    rw [show maskGo t first' prev' (p :: dropMask rest m.tail) =
      t prev' p ((dropMask rest m.tail).headD first') :: maskGo t first' p (dropMask rest m.tail) from rfl]
    obtain ⟨-, hvr⟩ := hv
    congr 1
    · -- the test of `p` itself
      cases hp : p.on with
      | false => rw [t_off t ht _ _ _ hp, t_off t ht _ _ _ hp]
      | true =>
        rw [hprev hp]
        congr 1
        cases rest with
        | nil => simp only [dropMask, headD_nil]; exact hlast p rfl hp
        | cons q r =>
          cases hq : m.tail.headD false with
          | true => have := (hvr.1 hq).1; rw [hp] at this; cases this
          | false => rw [dropMask_cons_keep _ _ _ hq]; rfl
    · cases rest with
      | nil => simp [dropMask, maskGo]
      | cons q r =>
        simp only [getLast?_cons_cons] at hlast
        cases hq : m.tail.headD false with
        | false =>
          exact ih r.length (by simp only [length_cons] at hn; omega) q r m.tail p p (Nat.le_refl _) hvr hq (fun _ => rfl) hlast
        | true =>
          obtain ⟨hp, hqon, hs⟩ := hvr.1 hq
          rw [dropMask_cons_drop _ _ _ hq]
          rw [show maskGo t first p (q :: r) = t p q (r.headD first) :: maskGo t first q r from rfl, dropMask_cons_drop _ _ _ hq]
          cases r with
          | nil => simp [dropMask, maskGo]
          | cons s r' =>
            simp only [headD_cons] at hs
            have hks : m.tail.tail.headD false = false := by
              cases h : m.tail.tail.headD false with
              | false => rfl
              | true => have := (hvr.2.1 h).2.1; rw [hs] at this; cases this
            exact ih r'.length (by simp only [length_cons] at hn; omega) s r' m.tail.tail q p (Nat.le_refl _) hvr.2 hks
              (fun h => by rw [hs] at h; cases h) (by simpa only [getLast?_cons_cons] using hlast)

omit ht in
theorem last_kept_valid (first : QPt) (hfirst : first.on = true) :
    ∀ (r : List QPt) (m : List Bool) (prev d : QPt), ValidGo Flagged first prev r m → (dropMask r m).getLastD d = r.getLastD d
  | [], _, _, _, _ => rfl
  | [q], m, prev, d, hv => by
    have : m.headD false = false := by
      cases h : m.headD false with
      | false => rfl
      | true => have := (hv.1 h).2.2; simp only [headD_nil] at this; rw [hfirst] at this; cases this
    rw [dropMask_cons_keep _ _ _ this]; simp [dropMask]
  | q :: s :: r, m, prev, d, hv => by
    have ih := last_kept_valid first hfirst (s :: r) m.tail q
    by_cases hb : m.headD false = true
    · rw [dropMask_cons_drop _ _ _ hb, ih d hv.2, getLastD_cons, getLastD_cons, getLastD_cons]
    · rw [dropMask_cons_keep _ _ _ (by simpa using hb), getLastD_cons, ih q hv.2, getLastD_cons, getLastD_cons, getLastD_cons]

/-- **restriction**: after any valid drop, the test mask of what is left is the original test mask at the kept positions -/
theorem restrict_contour (c : List QPt) (m : List Bool) (hv : ValidC Flagged c m) :
    contourMask t (dropMask c m) = dropMask (contourMask t c) m := by
  cases c with
  | nil => simp [dropMask, contourMask]
  | cons p0 r =>
    have hcm : contourMask t (p0 :: r) = maskGo t p0 (r.getLastD p0) (p0 :: r) := rfl
    have hcm' : ∀ (p : QPt) (X : List QPt), contourMask t (p :: X) = maskGo t p (X.getLastD p) (p :: X) := fun _ _ => rfl
    rw [hcm]
    by_cases h0 : m.headD false = true
    · obtain ⟨hl, hp0, h1⟩ := hv.1 h0
      rw [dropMask_cons_drop _ _ _ h0]
      rw [show maskGo t p0 (r.getLastD p0) (p0 :: r) = t (r.getLastD p0) p0 (r.headD p0) :: maskGo t p0 p0 r from rfl,
        dropMask_cons_drop _ _ _ h0]
      cases r with
      | nil => simp only [headD_nil] at h1; rw [hp0] at h1; cases h1
      | cons p1 r' =>
        simp only [headD_cons] at h1
        have hk1 : m.tail.headD false = false := by
          cases h : m.tail.headD false with
          | false => rfl
          | true => have := (hv.2.1 h).2.1; rw [h1] at this; cases this
        have := restrict_core t ht p0 p1 r'.length p1 r' m.tail p0 ((dropMask r' m.tail.tail).getLastD p1) (Nat.le_refl _) hv.2 hk1
          (fun h => by rw [h1] at h; cases h)
          (fun lastP hlast hon => by
            have : (p1 :: r').getLastD p0 = lastP := by rw [getLastD_eq_getLast?, hlast]; rfl
            rw [this, hon] at hl; cases hl)
        rw [dropMask_cons_keep _ _ _ hk1] at this ⊢
        rw [hcm']; exact this
    · have h0' : m.headD false = false := by simpa using h0
      have := restrict_core t ht p0 p0 r.length p0 r m (r.getLastD p0) ((dropMask r m.tail).getLastD p0) (Nat.le_refl _) hv h0'
        (fun hon => last_kept_valid p0 hon r m.tail p0 p0 hv.2) (fun _ _ _ => rfl)
      rw [dropMask_cons_keep _ _ _ h0'] at this ⊢
      rw [hcm']; exact this
end restrict

/-! ### joint maximality -/

theorem dropMask_zipWith (f : α → β → γ) : ∀ (a : List α) (b : List β) (m : List Bool),
    dropMask (List.zipWith f a b) m = List.zipWith f (dropMask a m) (dropMask b m)
  | [], _, _ => by simp [dropMask]
  | _ :: _, [], _ => by simp [dropMask]
  | x :: a, y :: b, m => by
    rw [zipWith_cons_cons, dropMask, dropMask, dropMask]
    split
    · exact dropMask_zipWith f a b m.tail
    · rw [zipWith_cons_cons, dropMask_zipWith f a b m.tail]

theorem dropMask_self_false : ∀ (m : List Bool), ∀ b ∈ dropMask m m, b = false
  | [] => by simp [dropMask]
  | x :: m => by
    intro b hb
    cases x with
    | true => rw [dropMask_cons_drop _ _ _ rfl] at hb; exact dropMask_self_false m b hb
    | false =>
      rw [dropMask_cons_keep _ _ _ rfl, mem_cons] at hb
      rcases hb with h | h
      · exact h
      · exact dropMask_self_false m b h

theorem foldl_zipWith_dropMask (m : List Bool) : ∀ (l : List (List Bool)) (acc : List Bool),
    (l.map (fun x => dropMask x m)).foldl (List.zipWith (fun x y => x && y)) (dropMask acc m) =
      dropMask (l.foldl (List.zipWith (fun x y => x && y)) acc) m
  | [], _ => rfl
  | x :: l, acc => by
    rw [map_cons, foldl_cons, foldl_cons, ← dropMask_zipWith, foldl_zipWith_dropMask m l]

theorem andMasks_map_dropMask (m : List Bool) (l : List (List Bool)) :
    andMasks (l.map (fun x => dropMask x m)) = dropMask (andMasks l) m := by
  cases l with
  | nil => simp [andMasks, dropMask]
  | cons x l => exact foldl_zipWith_dropMask m l x

theorem getD_andMask (a b : GMask) (i : Nat) :
    (andMask a b).getD i [] = List.zipWith (fun x y => x && y) (a.getD i []) (b.getD i []) := by
  simp only [andMask, List.getD_eq_getElem?_getD, getElem?_zipWith]
  cases a[i]? <;> cases b[i]? <;> simp

theorem getD_foldl_andMask (i : Nat) : ∀ (rest : List QGlyph) (acc : GMask),
    (rest.foldl (fun acc g => andMask acc (glyphMask g)) acc).getD i [] =
      (rest.map (fun g => contourMask dropTest (g.getD i []))).foldl (List.zipWith (fun x y => x && y)) (acc.getD i [])
  | [], _ => rfl
  | g :: rest, acc => by
    rw [foldl_cons, getD_foldl_andMask i rest, getD_andMask, map_cons, foldl_cons]
    congr 2
    simp only [glyphMask, List.getD_eq_getElem?_getD, getElem?_map]
    cases g[i]? <;> simp [contourMask]

theorem glyphMask_getD (g : QGlyph) (i : Nat) : (glyphMask g).getD i [] = contourMask dropTest (g.getD i []) := by
  simp only [glyphMask, List.getD_eq_getElem?_getD, getElem?_map]
  cases g[i]? <;> simp [contourMask]

/-- contour `i` of the joint mask is the pointwise "and" of the masters' own masks of their contour `i` -/
theorem jointMask_getD (g0 : QGlyph) (rest : List QGlyph) (i : Nat) :
    (jointMask g0 rest).getD i [] = andMasks ((g0 :: rest).map (fun g => contourMask dropTest (g.getD i []))) := by
  rw [jointMask, getD_foldl_andMask, glyphMask_getD]; rfl

theorem AllRel.getD' {R : List QPt → List Bool → Prop} (h0 : R [] []) : ∀ {g : QGlyph} {M : GMask} (i : Nat),
    AllRel R g M → R (g.getD i []) (M.getD i [])
  | [], [], _, _ => by simpa using h0
  | [], _ :: _, _, h => h.elim
  | _ :: _, [], _, h => h.elim
  | _ :: _, _ :: _, 0, h => h.1
  | _ :: g, _ :: M, i + 1, h => by
    simp only [getD_cons_succ]; exact AllRel.getD' h0 i h.2

theorem validC_flagged (c : List QPt) (m : List Bool) (h : ValidC Tested c m) : ValidC Flagged c m := by
  cases c with
  | nil => trivial
  | cons p r => exact validGo_mono _ _ (fun _ _ _ h => dropTest_flags h) _ _ _ _ h

theorem pick_dropMask_c (c : List QPt) (m : List Bool) (h : ValidC Tested c m) :
    pickByFlags c ((dropMask c m).map (·.on)) = dropMask c m := by
  cases c with
  | nil => simp [dropMask, pickByFlags]
  | cons p r => exact pick_dropMask p (p :: r) _ m h

theorem shape_getD {g d : QGlyph} (h : shape g = shape d) (i : Nat) :
    (g.getD i []).map (·.on) = (d.getD i []).map (·.on) := by
  have := congrArg (fun s : GMask => s.getD i []) h
  simp only [shape, List.getD_eq_getElem?_getD, getElem?_map] at this ⊢
  cases hg : g[i]? <;> cases hd : d[i]? <;> simp_all

theorem dropGlyph_getD {d : QGlyph} {M : GMask} (h : M.length = d.length) (i : Nat) :
    (dropGlyph d M).getD i [] = dropMask (d.getD i []) (M.getD i []) := by
  simp only [dropGlyph, List.getD_eq_getElem?_getD, getElem?_zipWith]
  cases hd : d[i]? with
  | none => simp [dropMask]
  | some c =>
    have : i < M.length := by rw [h]; exact (List.getElem?_eq_some_iff.mp hd).1
    rw [getElem?_eq_getElem this]; simp

/-- what the flags of the compiled default contour pick out of master `g` is `g` with the joint mask applied -/
theorem keptOf_model (g d : QGlyph) (M : GMask) (hg : ValidG g M) (hd : ValidG d M) (hs : shape g = shape d) (i : Nat) :
    keptOf g ((dropGlyph d M).map roundQ) i = dropMask (g.getD i []) (M.getD i []) := by
  have hv : ValidC Tested (g.getD i []) (M.getD i []) := AllRel.getD' (R := fun c m => ValidC Tested c m) trivial i hg
  rw [keptOf]
  have e : (((dropGlyph d M).map roundQ).getD i []).map (·.on) = (dropMask (g.getD i []) (M.getD i [])).map (·.on) := by
    have : ((dropGlyph d M).map roundQ).getD i [] = roundQ ((dropGlyph d M).getD i []) := by
      simp only [List.getD_eq_getElem?_getD, getElem?_map]
      cases (dropGlyph d M)[i]? <;> simp [roundQ]
    rw [this, dropGlyph_getD (validG_length hd)]
    simp only [roundQ, map_map]
    show (dropMask (d.getD i []) _).map (·.on) = _
    rw [← dropMask_map, ← dropMask_map, shape_getD hs]
  rw [e, pick_dropMask_c _ _ hv]

/-- **C02_drop_joint_maximal**: after the joint drop no point is left that passes the code's test in ALL participating
    masters: the joint drop has happened, and a second joint pass would drop nothing -/
theorem C02_drop_joint_maximal (g0 : QGlyph) (rest : List QGlyph) (hs : ∀ g ∈ rest, shape g = shape g0)
    (d : QGlyph) (hd : d ∈ g0 :: rest) :
    noJointImpliableLeft (g0 :: rest) ((dropGlyph d (jointMask g0 rest)).map roundQ) = true := by
  have hv := validG_jointMask g0 rest hs
  have e : ∀ g ∈ g0 :: rest, shape g = shape g0 := by
    intro g hg
    rcases mem_cons.mp hg with h | h
    · rw [h]
    · exact hs g h
  rw [noJointImpliableLeft, all_eq_true]
  intro i _
  have hk : (g0 :: rest).map (fun g => contourMask dropTest (keptOf g ((dropGlyph d (jointMask g0 rest)).map roundQ) i)) =
      ((g0 :: rest).map (fun g => contourMask dropTest (g.getD i []))).map (fun x => dropMask x ((jointMask g0 rest).getD i [])) := by
    rw [map_map]
    apply map_congr_left
    intro g hg
    rw [Function.comp, keptOf_model g d _ (hv g hg) (hv d hd) (by rw [e g hg, e d hd]) i]
    exact restrict_contour dropTest (fun _ _ _ h => dropTest_flags h) _ _
      (validC_flagged _ _ (AllRel.getD' (R := fun c m => ValidC Tested c m) trivial i (hv g hg)))
  rw [hk, andMasks_map_dropMask, ← jointMask_getD, all_eq_true]
  intro b hb
  rw [dropMask_self_false _ b hb]; rfl


/-! ### the model meets the extended predicates -/

/-- **C02_drop_joint_spec**: what the variable path leaves in the default master's glyf entry satisfies the joint predicate,
    for every list of masters: the default master keeps its outline within rounding, and the point set left fits every
    participating master (a swallowed `ValueError` leaves every point) -/
theorem C02_drop_joint_spec (masters : List QGlyph) (dflt : Nat) :
    holdsJoint masters dflt (vfDefault masters dflt) = true := by
  unfold holdsJoint vfDefault
  cases hj : dropJoint masters with
  | error e =>
    cases e
    obtain ⟨g0, rest, hs, g, hg, hne⟩ := (C02_drop_joint_error masters).mp hj
    simp only [Bool.and_eq_true, Bool.or_eq_true, Bool.not_eq_true']
    refine ⟨holds_nodrop _, Or.inr (Or.inl ?_)⟩
    rw [hs]
    simp only [headD_cons, all_cons, Bool.and_eq_false_iff]
    right
    rw [all_eq_false]
    exact ⟨g, hg, by simpa using hne⟩
  | ok ms =>
    simp only [Bool.and_eq_true, Bool.or_eq_true, Bool.not_eq_true']
    rcases (dropJoint_ok_iff masters ms).mp hj with ⟨hs, hout⟩ | ⟨g0, rest, hs, hshape, hout⟩
    · rw [hout, hs]
      exact ⟨holds_nodrop _, Or.inr (Or.inr ⟨rfl, by simp [noJointImpliableLeft, andMasks]⟩)⟩
    · have hv := validG_jointMask g0 rest hshape
      have hget : ms.getD dflt [] = dropGlyph (masters.getD dflt []) (jointMask g0 rest) := by
        rw [hout, List.getD_eq_getElem?_getD, List.getD_eq_getElem?_getD, getElem?_map]
        cases masters[dflt]? <;> simp [dropGlyph]
      rw [hget]
      cases hd : (masters.getD dflt []).isEmpty with
      | true =>
        have : masters.getD dflt [] = [] := by simpa using hd
        rw [this]
        exact ⟨rfl, Or.inl rfl⟩
      | false =>
        have hmem := getD_mem_simple masters dflt hd
        rw [hs] at hmem
        have e : ∀ g ∈ g0 :: rest, shape g = shape g0 := by
          intro g hg
          rcases mem_cons.mp hg with h | h
          · rw [h]
          · exact hshape g h
        refine ⟨validG_holds _ _ (hv _ hmem), Or.inr (Or.inr ⟨?_, ?_⟩)⟩
        case refine_2 => rw [hs]; exact C02_drop_joint_maximal g0 rest hshape _ hmem
        rw [hs, all_eq_true]
        intro g hg
        simp only [Bool.and_eq_true, beq_iff_eq, length_map]
        refine ⟨?_, validG_fits g _ _ (hv g hg) (by rw [e g hg, e _ hmem])⟩
        rw [dropGlyph_length (hv _ hmem), length_of_shape (e g hg), length_of_shape (e _ hmem)]


/-- **C02_drop_maximal_src**: tested on the unrounded source coordinates, none of the source points that are kept is
    impliable (the code tests before it rounds) -/
theorem C02_drop_maximal_src (c : List QPt) : noImpliableLeftSrc c (ttDropC c) = true := by
  have e : (ttDropC c).map (·.on) = (dropSingleC c).map (·.on) := by simp [ttDropC, roundQ]
  rw [noImpliableLeftSrc, e, dropSingleC, pick_dropMask_c c _ (validC_contourMask _ _ (fun _ _ _ h => h) c), all_eq_true]
  intro b hb
  have := idem_contour dropTest dropTest id (fun _ _ _ h => dropTest_flags h) (fun _ _ _ h => h) c
  rw [map_id] at this
  rw [this b hb]; rfl

/-- **C02_drop_glyph_spec_max**: the single-font model meets the whole single-font predicate -/
theorem C02_drop_glyph_spec_max (g : QGlyph) : holdsDropGlyphMax g ((dropSingle g).map roundQ) = true := by
  rw [holdsDropGlyphMax, Bool.and_eq_true, Bool.and_eq_true]
  refine ⟨⟨C02_drop_glyph_spec g, ?_⟩, ?_⟩
  · rw [dropSingle_eq, all_eq_true]
    intro o ho
    simp only [map_map, mem_map, Function.comp] at ho
    obtain ⟨c, -, rfl⟩ := ho
    exact C02_drop_maximal c
  · rw [dropSingle_eq, map_map, all_eq_true]
    intro e he
    have : ∀ (l : List (List QPt)) (e : List QPt × List TTPoint), e ∈ l.zip (l.map (roundQ ∘ dropSingleC)) → e.2 = ttDropC e.1 := by
      intro l
      induction l with
      | nil => intro e he; simp at he
      | cons c l ih =>
        intro e he
        simp only [map_cons, zip_cons_cons, mem_cons] at he
        rcases he with h | h
        · rw [h]; rfl
        · exact ih e h
    rw [this g e he]
    exact C02_drop_maximal_src e.1

/-- the source-level demand is a real one: rounding first and testing afterwards leaves (1/2, 1/2) between (0,0) and (1,1)
    — stored as (1,1), not a midpoint any more — although the code's test on the source coordinates would drop it -/
example :
    let c : List QPt := [⟨0, 0, false⟩, ⟨1/2, 1/2, true⟩, ⟨1, 1, false⟩, ⟨10, -10, true⟩]
    noImpliableLeft (roundQ c) = true ∧ noImpliableLeftSrc c (roundQ c) = false := by decide +kernel

/-- **C02_drop_joint_instance**: master `k`'s glyf entry as the variable font reproduces it (`vfMaster`) is that master's own
    points — the ones the default entry's flags pick — rounded: exactly (tolerance 0), for every participating master of a
    compatible family -/
theorem C02_drop_joint_instance (masters : List QGlyph) (dflt k : Nat) (g0 : QGlyph) (rest : List QGlyph)
    (hs : simpleMasters masters = g0 :: rest) (hshape : ∀ g ∈ rest, shape g = shape g0)
    (hd : (masters.getD dflt []).isEmpty = false) (hk : (masters.getD k []).isEmpty = false) :
    holdsInstance 0 (masters.getD k []) (vfDefault masters dflt) (vfMaster masters dflt k) = true := by
  have hj : dropJoint masters = .ok (masters.map (fun g => dropGlyph g (jointMask g0 rest))) := by
    rw [dropJoint_ok_iff]; exact Or.inr ⟨g0, rest, hs, hshape, rfl⟩
  have hget : ∀ j, (masters.map (fun g => dropGlyph g (jointMask g0 rest))).getD j [] =
      dropGlyph (masters.getD j []) (jointMask g0 rest) := by
    intro j
    rw [List.getD_eq_getElem?_getD, List.getD_eq_getElem?_getD, getElem?_map]
    cases masters[j]? <;> simp [dropGlyph]
  have hv := validG_jointMask g0 rest hshape
  have hmd := getD_mem_simple masters dflt hd
  have hmk := getD_mem_simple masters k hk
  rw [hs] at hmd hmk
  have e : ∀ g ∈ g0 :: rest, shape g = shape g0 := by
    intro g hg
    rcases mem_cons.mp hg with h | h
    · rw [h]
    · exact hshape g h
  simp only [vfDefault, vfMaster, hj, hget]
  rw [holdsInstance, Bool.and_eq_true, beq_iff_eq, length_map, length_map, dropGlyph_length (hv _ hmd),
    dropGlyph_length (hv _ hmk), length_of_shape (e _ hmd), length_of_shape (e _ hmk)]
  refine ⟨rfl, ?_⟩
  rw [all_eq_true]
  intro i _
  rw [keptOf_model _ _ _ (hv _ hmk) (hv _ hmd) (by rw [e _ hmk, e _ hmd]) i]
  have : ((dropGlyph (masters.getD k []) (jointMask g0 rest)).map roundQ).getD i [] =
      roundQ (dropMask ((masters.getD k []).getD i []) ((jointMask g0 rest).getD i [])) := by
    rw [← dropGlyph_getD (validG_length (hv _ hmk))]
    generalize dropGlyph (masters.getD k []) (jointMask g0 rest) = l
    simp only [List.getD_eq_getElem?_getD, getElem?_map]
    cases l[i]? <;> simp [roundQ]
  rw [this]
  simp only [beq_self_eq_true, Bool.true_and, all_eq_true]
  intro p hp
  have : ∀ (l : List TTPoint) (p : TTPoint × TTPoint), p ∈ l.zip l → p.1 = p.2 := by
    intro l
    induction l with
    | nil => intro p hp; simp at hp
    | cons a l ih =>
      intro p hp
      simp only [zip_cons_cons, mem_cons] at hp
      rcases hp with h | h
      · rw [h]
      · exact ih p h
  rw [this _ p hp]
  simp [nearInt]

/-- **C02_drop_ttGlyph**: whatever `TTGlyphPointPen.glyph(dropImpliedOnCurves=True, round=otRound)` returns for a glyph that ends
    up simple satisfies the single-font predicate w.r.t. the glyph's own contours in TrueType convention -/
theorem C02_drop_ttGlyph (o : Opts) (g : Glyph) (X : List (List TTPoint)) (h : ttGlyphDrop o g = .simple X) :
    holdsDropGlyphMax (g.contours.map (fun c => toQPts (ttContour o c))) X = true := by
  unfold ttGlyphDrop at h
  split at h
  · injection h with h; subst h; exact C02_drop_glyph_spec_max _
  · cases h


end Ufo2ft.C02
