import Ufo2ftModel.Props.C13VF
/-!
C13 (variable fonts): evaluating the model on concrete families inside the kernel.

The model's mutually recursive functions (`addComp`/`addComps`, `visitComp`/`visitComps`, `locsFromComps`/`locsOfComps`,
`render`/`renderComps`) are compiled by well-founded recursion, which the kernel does not unfold.  Each gets a twin that
recurses structurally on the fuel alone (the list recursion moved into a helper that takes the recursive call as an
argument), proved EQUAL to it for all inputs; `skipFamily` and `renderAtF` are then rewritten into the twins, on which
`decide +kernel` computes.  (Used for the witnesses and non-vacuity examples only.)
-/
namespace Ufo2ft.C13
open Ufo2ft Ufo2ft.C09 List

/-! ### the decomposing pen -/

def compsWith (rec : String → Affine → Except GErr Drawn) (t : Affine) : List Comp → Except GErr Drawn
  | [] => .ok ⟨[], []⟩
  | k :: ks =>
    match rec k.base (t.compose k.t) with
    | .error e => .error e
    | .ok d => match compsWith rec t ks with
      | .error e => .error e
      | .ok d' => .ok (d.append d')

def addCompK (gs : GlyphSet) (rf nested : Bool) : Nat → Option (List String) → String → Affine → Except GErr Drawn
  | 0, _, _, _ => .error .recursion
  | fuel + 1, incl, base, t =>
    if isIncluded incl base then
      match gs.get? base with
      | none => .error (.missing base)
      | some b =>
        match compsWith (addCompK gs rf nested fuel (inclNested nested incl)) t b.comps with
        | .error e => .error e
        | .ok d => .ok ⟨drawContours rf t b.contours ++ d.contours, d.comps⟩
    else .ok ⟨[], [⟨base, t⟩]⟩

theorem addCompK_eq (gs : GlyphSet) (rf nested : Bool) : ∀ fuel,
    (∀ incl base t, addComp fuel gs rf nested incl base t = addCompK gs rf nested fuel incl base t) ∧
    (∀ incl t ks, addComps fuel gs rf nested incl t ks = compsWith (addCompK gs rf nested fuel incl) t ks) := by
  intro fuel
  induction fuel with
  | zero =>
    have h1 : ∀ incl base t, addComp 0 gs rf nested incl base t = addCompK gs rf nested 0 incl base t := by
      intro incl base t; simp only [addComp, addCompK]
    refine ⟨h1, ?_⟩
    intro incl t ks
    induction ks with
    | nil => simp only [addComps, compsWith]
    | cons k ks ih => simp only [addComps, compsWith, h1, ih]; rfl
  | succ n ih =>
    have h1 : ∀ incl base t, addComp (n + 1) gs rf nested incl base t = addCompK gs rf nested (n + 1) incl base t := by
      intro incl base t
      unfold addComp addCompK
      by_cases hi : isIncluded incl base = true
      · rw [if_pos hi, if_pos hi]
        cases gs.get? base with
        | none => rfl
        | some b => dsimp only; rw [ih.2]; rfl
      · rw [if_neg hi, if_neg hi]
    refine ⟨h1, ?_⟩
    intro incl t ks
    induction ks with
    | nil => simp only [addComps, compsWith]
    | cons k ks ihk => simp only [addComps, compsWith, h1, ihk]; rfl

def decomposeGlyphK (gs : GlyphSet) (nested : Bool) (incl : Option (List String)) (g : Glyph) : Except GErr Glyph :=
  match compsWith (addCompK gs true nested (gs.length + 1) incl) Affine.id g.comps with
  | .error e => .error e
  | .ok d => .ok { g with contours := g.contours ++ d.contours, comps := d.comps }

theorem decomposeGlyph_eqK : @decomposeGlyph = @decomposeGlyphK := by
  funext gs nested incl g
  unfold decomposeGlyph decomposeGlyphK
  rw [(addCompK_eq gs true nested _).2]
  rfl

def decomposeOpK (nested : Bool) (incl : Option (List String)) (layer : GlyphSet) (g : Glyph) :
    Except GErr (Option Glyph × Bool) :=
  match decomposeGlyphK layer nested incl g with
  | .error e => .error e
  | .ok g' => .ok (some g', true)

theorem decomposeOp_eqK : @decomposeOp = @decomposeOpK := by
  funext nested incl layer g
  unfold decomposeOp decomposeOpK
  rw [decomposeGlyph_eqK]
  rfl

/-! ### the names the pen looks up -/

def visitCompK (layer : GlyphSet) (nested : Bool) : Nat → Option (List String) → String → List String
  | 0, _, _ => []
  | fuel + 1, incl, base =>
    if isIncluded incl base then
      base :: (match layer.get? base with
        | none => []
        | some b => b.comps.flatMap (fun k => visitCompK layer nested fuel (inclNested nested incl) k.base))
    else []

theorem visitCompK_eq (layer : GlyphSet) (nested : Bool) : ∀ fuel,
    (∀ incl base, visitComp fuel layer nested incl base = visitCompK layer nested fuel incl base) ∧
    (∀ incl ks, visitComps fuel layer nested incl ks = ks.flatMap (fun k => visitCompK layer nested fuel incl k.base)) := by
  intro fuel
  induction fuel with
  | zero =>
    have h1 : ∀ incl base, visitComp 0 layer nested incl base = visitCompK layer nested 0 incl base := by
      intro incl base; simp only [visitComp, visitCompK]
    refine ⟨h1, ?_⟩
    intro incl ks
    induction ks with
    | nil => simp only [visitComps, flatMap_nil]
    | cons k ks ih => simp only [visitComps, flatMap_cons, h1, ih]
  | succ n ih =>
    have h1 : ∀ incl base, visitComp (n + 1) layer nested incl base = visitCompK layer nested (n + 1) incl base := by
      intro incl base
      unfold visitComp visitCompK
      by_cases hi : isIncluded incl base = true
      · rw [if_pos hi, if_pos hi]
        cases layer.get? base with
        | none => rfl
        | some b => dsimp only; rw [ih.2]
      · rw [if_neg hi, if_neg hi]
    refine ⟨h1, ?_⟩
    intro incl ks
    induction ks with
    | nil => simp only [visitComps, flatMap_nil]
    | cons k ks ihk => simp only [visitComps, flatMap_cons, h1, ihk]

def decomposeVisitK (nested : Bool) (incl : Option (List String)) (layer : GlyphSet) (g : Glyph) : List String :=
  g.comps.flatMap (fun k => visitCompK layer nested (layer.length + 1) incl k.base)

theorem decomposeVisit_eqK : @decomposeVisit = @decomposeVisitK := by
  funext nested incl layer g
  unfold decomposeVisit decomposeVisitK
  rw [(visitCompK_eq layer nested _).2]

/-! ### `locationsFromComponentGlyphs` -/

def locsOfWith (I : Inst) (ms : Masters) (incl : Option (List String)) (rec : String → List Q) : List Comp → List Q
  | [] => []
  | k :: ks =>
    let rest := locsOfWith I ms incl rec ks
    if isIncluded incl k.base then unionQ (unionQ (sourceLocs I ms k.base) (rec k.base)) rest else rest

def locsFromCompsK (I : Inst) (ms : Masters) (incl : Option (List String)) : Nat → String → List Q
  | 0, _ => []
  | fuel + 1, n =>
    (glyphsNamed ms n).foldl (fun acc g => unionQ acc (locsOfWith I ms incl (locsFromCompsK I ms incl fuel) g.comps)) []

theorem locsFromCompsK_eq (I : Inst) (ms : Masters) (incl : Option (List String)) : ∀ fuel,
    (∀ n, locsFromComps fuel I ms incl n = locsFromCompsK I ms incl fuel n) ∧
    (∀ ks, locsOfComps fuel I ms incl ks = locsOfWith I ms incl (locsFromCompsK I ms incl fuel) ks) := by
  intro fuel
  induction fuel with
  | zero =>
    have h1 : ∀ n, locsFromComps 0 I ms incl n = locsFromCompsK I ms incl 0 n := by
      intro n; simp only [locsFromComps, locsFromCompsK]
    refine ⟨h1, ?_⟩
    intro ks
    induction ks with
    | nil => simp only [locsOfComps, locsOfWith]
    | cons k ks ih => simp only [locsOfComps, locsOfWith, h1, ih]
  | succ n ih =>
    have h1 : ∀ x, locsFromComps (n + 1) I ms incl x = locsFromCompsK I ms incl (n + 1) x := by
      intro x
      unfold locsFromComps locsFromCompsK
      congr 1
      funext acc g
      rw [ih.2]
    refine ⟨h1, ?_⟩
    intro ks
    induction ks with
    | nil => simp only [locsOfComps, locsOfWith]
    | cons k ks ihk => simp only [locsOfComps, locsOfWith, h1, ihk]

def ensureCompositeK (inst : Option Inst) (s : St) (incl : Option (List String)) (n : String) : Except GErr St :=
  match inst with
  | none => .ok s
  | some I =>
    let have_ := sourceLocs I s.ms n
    let need := locsFromCompsK I s.ms incl ((allNames s.ms).length + 1) n
    let toAdd := need.filter (fun l => !have_.contains l)
    if toAdd.isEmpty then .ok s
    else ensureLoop I n toAdd ((List.range s.ms.length).zip I.locs) s

theorem ensureComposite_eqK : @ensureComposite = @ensureCompositeK := by
  funext inst s incl n
  unfold ensureComposite ensureCompositeK
  cases inst with
  | none => rfl
  | some I => dsimp only; rw [(locsFromCompsK_eq I s.ms incl _).1]

/-! ### the filter -/

def skipIStepK (inst : Option Inst) (skip : List String) (s : St) (n : String) : Except GErr (St × Bool) :=
  let gl := glyphsNamed s.ms n
  if !gl.any (fun g => !g.comps.isEmpty) || gl.all (fun g => !(g.comps.any (fun k => skip.contains k.base))) then .ok (s, false)
  else match ensureCompositeK inst s (some skip) n with
    | .error e => .error e
    | .ok s1 =>
      match perMaster inst n (decomposeVisitK false (some skip)) (decomposeOpK false (some skip))
              (List.range s1.ms.length) s1 true with
      | .error e => .error e
      | .ok (s2, _) => .ok (s2, true)

theorem skipIStep_eqK : @skipIStep = @skipIStepK := by
  funext inst skip s n
  unfold skipIStep skipIStepK
  rw [ensureComposite_eqK, decomposeVisit_eqK, decomposeOp_eqK]
  rfl

/-- `skipFamily` with the glyph order computed separately -/
theorem skipFamily_eval (skip : List String) (I : Inst) (ms : Masters) (order : List String)
    (hne : skip.isEmpty = false) (ho : orderI ms (allNames ms) = .ok order) :
    skipFamily skip I ms =
      match iLoop (fun _ => true) (skipIStepK (some I) skip) order (⟨ms, some ms, [], []⟩, []) with
      | .error e => .error e
      | .ok (s', _) => .ok (s'.ms.map (fun (m : GlyphSet) => m.filter (fun e => !skip.contains e.1))) := by
  unfold skipFamily skipI runI
  rw [if_neg (by rw [hne]; simp)]
  dsimp only
  rw [ho, skipIStep_eqK]
  dsimp only
  have hd : List.drop 1 ([] : List (List String)) = [] := rfl
  rw [hd]
  generalize iLoop (fun _ => true) (skipIStepK (some I) skip) order (⟨ms, some ms, [], []⟩, []) = r
  cases r with
  | error e => rfl
  | ok res =>
    obtain ⟨s', md⟩ := res
    dsimp only
    rw [updated_ms]

/-! ### the renderer -/

def renderK (gs : GlyphSet) : Nat → Affine → Glyph → List Contour
  | 0, _, _ => []
  | f + 1, t, g =>
    drawContours true t g.contours ++
      g.comps.flatMap (fun k => match gs.get? k.base with
        | some b => renderK gs f (t.compose k.t) b
        | none => [])

theorem renderK_eq (gs : GlyphSet) : ∀ f t g, render f gs t g = renderK gs f t g := by
  intro f
  induction f with
  | zero => intro t g; simp only [render, renderK]
  | succ f ih =>
    intro t g
    rw [render_succ, renderK]
    congr 1
    apply flatMap_congr'
    intro k _
    unfold renderOne
    cases gs.get? k.base with
    | none => rfl
    | some b => exact ih _ b

theorem renderAtF_eqK (fuel : Nat) (I : Inst) (ms : Masters) (t : Q) (n : String) :
    renderAtF fuel I ms t n =
      match glyphAt I ms n t with
      | none => []
      | some g => renderK (instanceAt I ms t) fuel Affine.id g := by
  unfold renderAtF
  cases glyphAt I ms n t with
  | none => rfl
  | some g => dsimp only; rw [renderK_eq]

end Ufo2ft.C13
