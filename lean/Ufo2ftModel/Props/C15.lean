import Ufo2ftModel.Props.Flatten
import Ufo2ftModel.Props.Reverse
import Ufo2ftModel.Props.Propagate
import Ufo2ftModel.Spec.C15
/-! Property C15: the theorems, assembled from the shared geometry proofs
    (Props/Geom, Props/Reverse, Props/Render, Props/Flatten). -/
namespace Ufo2ft.C15
open Ufo2ft List

/-- a glyph set all of whose contours are closed (no `move` point), acyclic, with non-singular components, is `Good`:
    the hypothesis of the render-preservation theorems is met by every ordinary font. -/
theorem good_of_closed (gs : GlyphSet) (rank : String → Nat) (hr : Ranked gs rank)
    (hns : ∀ n g, gs.get? n = some g → ∀ k ∈ g.comps, k.t.det ≠ 0)
    (hcl : ∀ n g, gs.get? n = some g → ∀ c ∈ g.contours, ∀ p ∈ c, p.seg ≠ some Seg.move) : Good gs rank :=
  ⟨hr, hns, fun n g hg c hc => reverseContour_involutive c (hcl n g hg c hc)⟩

/-- **C15 (decompose)**: DecomposeComponentsFilter with any include predicate never changes what a glyph renders. -/
theorem C15_decompose (incl : String → Bool) (rank : String → Nat) (gs : GlyphSet) (st : FState)
    (h : runFilter decomposeStep incl gs = .ok st) (hg : Good gs rank) (hn : Named gs) :
    SameRender rank st.gs gs :=
  (runFilter_sameRender decomposeStep rank (stepOK_of_isDecomp rank _ decomposeStep_isDecomp) incl gs st h hg hn).2.2

/-- **C15 (decomposeTransformed)** -/
theorem C15_decomposeTransformed (incl : String → Bool) (rank : String → Nat) (gs : GlyphSet) (st : FState)
    (h : runFilter decomposeTransformedStep incl gs = .ok st) (hg : Good gs rank) (hn : Named gs) :
    SameRender rank st.gs gs :=
  (runFilter_sameRender _ rank (stepOK_of_isDecomp rank _ decomposeTransformedStep_isDecomp) incl gs st h hg hn).2.2

/-- a glyph none of whose components has a non-identity 2×2 is left untouched by decomposeTransformed -/
theorem C15_decomposeTransformed_untouched (st : FState) (g : Glyph)
    (h : g.comps.any isTransformed = false) : decomposeTransformedStep st g = .ok (st, false) := by
  simp [decomposeTransformedStep, h]

/-- **C15 (flatten)**: FlattenComponentsFilter never changes what a glyph renders. -/
theorem C15_flatten (incl : String → Bool) (rank : String → Nat) (gs : GlyphSet) (st : FState)
    (h : runFilter flattenStep incl gs = .ok st) (hg : Good gs rank) (hn : Named gs) :
    SameRender rank st.gs gs :=
  (runFilter_sameRender flattenStep rank (flattenStep_ok rank) incl gs st h hg hn).2.2

/-- **C15 (flatten depth)**: a flattened glyph references only simple-or-mixed glyphs: nesting depth ≤ 1. -/
theorem C15_flatten_depth (rank : String → Nat) (st st' : FState) (g : Glyph) (r : Bool)
    (h : flattenStep st g = .ok (st', r)) (hget : st.gs.get? g.name = some g) (hg : Good st.gs rank) :
    ∀ g', st'.gs.get? g.name = some g' → ∀ c ∈ g'.comps, ∀ b, st.gs.get? c.base = some b → isSimpleOrMixed b = true := by
  unfold flattenStep at h
  by_cases he : g.comps.isEmpty = true
  · rw [if_pos he] at h
    have := Except.ok.inj h
    rw [← (Prod.mk.inj this).1]
    intro g' hg' c hc
    rw [hget] at hg'; rw [← Option.some.inj hg'] at hc
    have : g.comps = [] := by simpa using he
    rw [this] at hc; cases hc
  · rw [if_neg he] at h
    cases hf : flattenGlyphComps st.gs g.comps with
    | error e => rw [hf] at h; cases h
    | ok res =>
      obtain ⟨cs, flag⟩ := res
      rw [hf] at h
      dsimp only at h
      have := Except.ok.inj h
      rw [← (Prod.mk.inj this).1]
      dsimp only
      intro g' hg' c hc b hb
      rw [get?_set st.gs g.name g.name g _ hget] at hg'
      simp only [if_true] at hg'
      rw [← Option.some.inj hg'] at hc
      exact (flattenGlyphComps_spec st.gs rank hg.ranked hg.nonsing g.comps cs flag hf
        (hg.nonsing g.name g hget)).2.2 c hc b hb

/-- `_flattenComponent` composes the nested transform with the outer one: the flattened component's
    matrix maps a point exactly as outer ∘ nested. -/
theorem flatten_matrix (outer nested : Affine) (p : Q × Q) :
    ((outer.translate nested.dx nested.dy).compose ⟨nested.xx, nested.xy, nested.yx, nested.yy, 0, 0⟩).apply p
      = outer.apply (nested.apply p) := by
  rw [Affine.flatten_factor, Affine.apply_compose]

/-- **C15 (transformations, one glyph)**: an orientation-preserving matrix `m` composed on the outside of a resolved
    outline maps every point by `m` and changes nothing else (order, types, direction). -/
theorem render_compose_pos (gs : GlyphSet) (m : Affine) (hm : 0 < m.det) :
    ∀ (f : Nat) (t : Affine) (g : Glyph),
      render f gs (m.compose t) g = (render f gs t g).map (Contour.map m) := by
  intro f
  induction f with
  | zero => intro t g; simp [render]
  | succ f ih =>
    intro t g
    rw [render_succ, render_succ, List.map_append]
    congr 1
    · simp only [drawContours, List.map_map, Bool.true_and]
      apply List.map_congr_left
      intro c _
      have hd : (m.compose t).det < 0 ↔ t.det < 0 := by
        rw [Affine.det_compose, Rat.mul_neg_iff_of_pos_left hm]
      simp only [Function.comp]
      by_cases h : t.det < 0
      · simp only [hd.mpr h, h, decide_true, if_true]; rw [Contour.map_compose]
      · have : ¬ (m.compose t).det < 0 := fun h' => h (hd.mp h')
        simp only [this, h, decide_false, Bool.false_eq_true, if_false]; rw [Contour.map_compose]
    · rw [List.map_flatMap]
      apply flatMap_congr'
      intro k _
      simp only [renderOne]
      cases gs.get? k.base with
      | none => rfl
      | some b => simp only [Affine.compose_assoc]; exact ih _ b

/-- the compensation for an already-transformed base: the component `M ∘ (T ∘ M⁻¹)` of a base whose resolved outline
    has become `M(outline)` draws `M(T(outline))` — the matrix is applied once. -/
theorem C15_compensation (m t : Affine) (h : m.det ≠ 0) (p : Q × Q) :
    (m.compose (t.compose m.inverse)).apply (m.apply p) = m.apply (t.apply p) :=
  Affine.compensation m t h p

/-- anchors, width and height of a transformed glyph are mapped by the matrix (its linear part for the advance) -/
theorem C15_transformBody (m minv : Affine) (modified : List String) (g : Glyph) :
    (transformBody m minv modified g).anchors = g.anchors.map (fun a => let p := m.apply (a.x, a.y); { a with x := p.1, y := p.2 }) ∧
    ((transformBody m minv modified g).width, (transformBody m minv modified g).height) = m.applyVec (g.width, g.height) ∧
    (transformBody m minv modified g).contours = g.contours.map (Contour.map m) := by
  simp [transformBody]

/-! ### non-vacuity: a concrete glyph set meeting every hypothesis -/

def exTri : Contour := [⟨0, 0, some .line⟩, ⟨100, 0, some .line⟩, ⟨50, 80, some .curve⟩]
def exGs : GlyphSet :=
  [("a", ⟨"a", 500, 0, [exTri], [], []⟩),
   ("b", ⟨"b", 500, 0, [], [⟨"a", ⟨-1, 0, 0, 1, 10, 0⟩⟩], []⟩),
   ("c", ⟨"c", 500, 0, [], [⟨"b", ⟨1, 0, 1/2, -1, 0, 5⟩⟩, ⟨"a", Affine.id⟩], []⟩)]
def exRank (n : String) : Nat := if n = "c" then 2 else if n = "b" then 1 else 0

example : Named exGs := by
  intro n g h
  simp only [exGs, GlyphSet.get?, alookup] at h
  split at h
  · cases h; rename_i e; simpa using e
  · split at h
    · cases h; rename_i e; simpa using e
    · split at h
      · cases h; rename_i e; simpa using e
      · cases h

end Ufo2ft.C15

namespace Ufo2ft.C15
open Ufo2ft List

theorem exGs_cases {P : String → Glyph → Prop} (n : String) (g : Glyph) (h : exGs.get? n = some g)
    (ha : P "a" ⟨"a", 500, 0, [exTri], [], []⟩)
    (hb : P "b" ⟨"b", 500, 0, [], [⟨"a", ⟨-1, 0, 0, 1, 10, 0⟩⟩], []⟩)
    (hc : P "c" ⟨"c", 500, 0, [], [⟨"b", ⟨1, 0, 1/2, -1, 0, 5⟩⟩, ⟨"a", Affine.id⟩], []⟩) : P n g := by
  simp only [exGs, GlyphSet.get?, alookup] at h
  split at h
  · cases h; rename_i e; have : n = "a" := (by simpa using e : _ = n).symm
    subst this; exact ha
  · split at h
    · cases h; rename_i e; have : n = "b" := (by simpa using e : _ = n).symm
      subst this; exact hb
    · split at h
      · cases h; rename_i e; have : n = "c" := (by simpa using e : _ = n).symm
        subst this; exact hc
      · cases h

/-- the hypotheses of the render-preservation theorems are satisfiable by a glyph set with a mirrored component
    nested two levels deep -/
example : Good exGs exRank := by
  apply good_of_closed
  · intro n g h
    refine exGs_cases (P := fun n g => ∀ k ∈ g.comps, exRank k.base < exRank n) n g h ?_ ?_ ?_
    · intro k hk; cases hk
    · intro k hk; simp only [mem_singleton] at hk; subst hk; decide
    · intro k hk; simp only [mem_cons, mem_singleton, not_mem_nil, or_false] at hk
      rcases hk with rfl | rfl <;> decide
  · intro n g h
    refine exGs_cases (P := fun _ g => ∀ k ∈ g.comps, k.t.det ≠ 0) n g h ?_ ?_ ?_
    · intro k hk; cases hk
    · intro k hk; simp only [mem_singleton] at hk; subst hk; simp only [Affine.det]; grind
    · intro k hk; simp only [mem_cons, mem_singleton, not_mem_nil, or_false] at hk
      rcases hk with rfl | rfl <;> simp only [Affine.det, Affine.id] <;> grind
  · intro n g h
    refine exGs_cases (P := fun _ g => ∀ c ∈ g.contours, ∀ p ∈ c, p.seg ≠ some Seg.move) n g h ?_ ?_ ?_
    · intro c hc p hp
      simp only [mem_singleton] at hc; subst hc
      simp only [exTri, mem_cons, mem_singleton, not_mem_nil, or_false] at hp
      rcases hp with rfl | rfl | rfl <;> simp
    · intro c hc; cases hc
    · intro c hc; cases hc

end Ufo2ft.C15

namespace Ufo2ft.C15
open Ufo2ft

/-- **C15 (anchor propagation never overrides)**: after PropagateAnchorsFilter (any include predicate) every glyph has the same
    outline, components and metrics, and its original anchors unchanged and still first; propagated anchors come after them. -/
theorem C15_propagate_no_override (marks : List String) (incl : String → Bool) (gs : GlyphSet) (st : FState)
    (h : runFilter (propagateStep marks) incl gs = .ok st) : AnchExt st.gs gs := by
  unfold runFilter at h
  cases ho : orderedGlyphs gs with
  | error e => rw [ho] at h; cases h
  | ok order => rw [ho] at h; exact propagateLoop_ext marks incl order ⟨gs, [], []⟩ st h

end Ufo2ft.C15
