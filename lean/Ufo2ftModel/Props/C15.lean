import Ufo2ftModel.Props.Flatten
import Ufo2ftModel.Props.Reverse
import Ufo2ftModel.Props.Propagate
import Ufo2ftModel.Props.Transform
import Ufo2ftModel.Spec.C15
/-! Property C15: the theorems, assembled from the shared geometry proofs
    (Props/Geom, Props/Reverse, Props/Render, Props/Flatten). -/
namespace Ufo2ft.C15
open Ufo2ft List

/-- a glyph set all of whose contours are closed (no `move` point), acyclic, with non-singular components, is `Good`:
    the hypothesis of the render-preservation theorems is met by every ordinary font. -/
theorem good_of_closed (gs : GlyphSet) (rank : String → Nat) (hr : Ranked gs rank)
    (hns : ∀ n g, gs.get? n = some g → ∀ k ∈ g.comps, k.t.det ≠ 0)
    (hcl : ∀ n g, gs.get? n = some g → ∀ c ∈ g.contours, ∀ p ∈ c, p.seg ≠ some Seg.move) : Good gs rank :=
  ⟨hr, hns, fun n g hg c hc => reverseContour_involutive c (hcl n g hg c hc)⟩

/-- **C15 (decompose)**: DecomposeComponentsFilter with any include predicate never changes what a glyph renders. -/
theorem C15_decompose (incl : String → Bool) (rank : String → Nat) (gs : GlyphSet) (st : FState)
    (h : runFilter decomposeStep incl gs = .ok st) (hg : Good gs rank) (hn : Named gs) :
    SameRender rank st.gs gs :=
  (runFilter_sameRender decomposeStep rank (stepOK_of_isDecomp rank _ decomposeStep_isDecomp) incl gs st h hg hn).2.2

/-- **C15 (decomposeTransformed)** -/
theorem C15_decomposeTransformed (incl : String → Bool) (rank : String → Nat) (gs : GlyphSet) (st : FState)
    (h : runFilter decomposeTransformedStep incl gs = .ok st) (hg : Good gs rank) (hn : Named gs) :
    SameRender rank st.gs gs :=
  (runFilter_sameRender _ rank (stepOK_of_isDecomp rank _ decomposeTransformedStep_isDecomp) incl gs st h hg hn).2.2

/-- a glyph none of whose components has a non-identity 2×2 is left untouched by decomposeTransformed -/
theorem C15_decomposeTransformed_untouched (st : FState) (g : Glyph)
    (h : g.comps.any isTransformed = false) : decomposeTransformedStep st g = .ok (st, false) := by
  simp [decomposeTransformedStep, h]

/-- **C15 (flatten)**: FlattenComponentsFilter never changes what a glyph renders. -/
theorem C15_flatten (incl : String → Bool) (rank : String → Nat) (gs : GlyphSet) (st : FState)
    (h : runFilter flattenStep incl gs = .ok st) (hg : Good gs rank) (hn : Named gs) :
    SameRender rank st.gs gs :=
  (runFilter_sameRender flattenStep rank (flattenStep_ok rank) incl gs st h hg hn).2.2

/-- **C15 (flatten depth)**: a flattened glyph references only simple-or-mixed glyphs: nesting depth ≤ 1. -/
theorem C15_flatten_depth (rank : String → Nat) (st st' : FState) (g : Glyph) (r : Bool)
    (h : flattenStep st g = .ok (st', r)) (hget : st.gs.get? g.name = some g) (hg : Good st.gs rank) :
    ∀ g', st'.gs.get? g.name = some g' → ∀ c ∈ g'.comps, ∀ b, st.gs.get? c.base = some b → isSimpleOrMixed b = true := by
  unfold flattenStep at h
  by_cases he : g.comps.isEmpty = true
  · rw [if_pos he] at h
    have := Except.ok.inj h
    rw [← (Prod.mk.inj this).1]
    intro g' hg' c hc
    rw [hget] at hg'; rw [← Option.some.inj hg'] at hc
    have : g.comps = [] := by simpa using he
    rw [this] at hc; cases hc
  · rw [if_neg he] at h
    cases hf : flattenGlyphComps st.gs g.comps with
    | error e => rw [hf] at h; cases h
    | ok res =>
      obtain ⟨cs, flag⟩ := res
      rw [hf] at h
      dsimp only at h
      have := Except.ok.inj h
      rw [← (Prod.mk.inj this).1]
      dsimp only
      intro g' hg' c hc b hb
      rw [get?_set st.gs g.name g.name g _ hget] at hg'
      simp only [if_true] at hg'
      rw [← Option.some.inj hg'] at hc
      exact (flattenGlyphComps_spec st.gs rank hg.ranked hg.nonsing g.comps cs flag hf
        (hg.nonsing g.name g hget)).2.2 c hc b hb

/-- `_flattenComponent` composes the nested transform with the outer one: the flattened component's
    matrix maps a point exactly as outer ∘ nested. -/
theorem flatten_matrix (outer nested : Affine) (p : Q × Q) :
    ((outer.translate nested.dx nested.dy).compose ⟨nested.xx, nested.xy, nested.yx, nested.yy, 0, 0⟩).apply p
      = outer.apply (nested.apply p) := by
  rw [Affine.flatten_factor, Affine.apply_compose]

/-- **C15 (transformations, one glyph)**: an orientation-preserving matrix `m` composed on the outside of a resolved
    outline maps every point by `m` and changes nothing else (order, types, direction). -/
theorem render_compose_pos (gs : GlyphSet) (m : Affine) (hm : 0 < m.det) :
    ∀ (f : Nat) (t : Affine) (g : Glyph),
      render f gs (m.compose t) g = (render f gs t g).map (Contour.map m) :=
  _root_.Ufo2ft.render_compose_pos gs m hm

/-- the compensation for an already-transformed base: the component `M ∘ (T ∘ M⁻¹)` of a base whose resolved outline
    has become `M(outline)` draws `M(T(outline))` — the matrix is applied once. -/
theorem C15_compensation (m t : Affine) (h : m.det ≠ 0) (p : Q × Q) :
    (m.compose (t.compose m.inverse)).apply (m.apply p) = m.apply (t.apply p) :=
  Affine.compensation m t h p

/-- anchors, width and height of a transformed glyph are mapped by the matrix (its linear part for the advance) -/
theorem C15_transformBody (m minv : Affine) (modified : List String) (g : Glyph) :
    (transformBody m minv modified g).anchors = g.anchors.map (fun a => let p := m.apply (a.x, a.y); { a with x := p.1, y := p.2 }) ∧
    ((transformBody m minv modified g).width, (transformBody m minv modified g).height) = m.applyVec (g.width, g.height) ∧
    (transformBody m minv modified g).contours = g.contours.map (Contour.map m) := by
  simp [transformBody]

/-! ### non-vacuity: a concrete glyph set meeting every hypothesis -/

def exTri : Contour := [⟨0, 0, some .line⟩, ⟨100, 0, some .line⟩, ⟨50, 80, some .curve⟩]
def exGs : GlyphSet :=
  [("a", ⟨"a", 500, 0, [exTri], [], []⟩),
   ("b", ⟨"b", 500, 0, [], [⟨"a", ⟨-1, 0, 0, 1, 10, 0⟩⟩], []⟩),
   ("c", ⟨"c", 500, 0, [], [⟨"b", ⟨1, 0, 1/2, -1, 0, 5⟩⟩, ⟨"a", Affine.id⟩], []⟩)]
def exRank (n : String) : Nat := if n = "c" then 2 else if n = "b" then 1 else 0

example : Named exGs := by
  intro n g h
  simp only [exGs, GlyphSet.get?, alookup] at h
  split at h
  · cases h; rename_i e; simpa using e
  · split at h
    · cases h; rename_i e; simpa using e
    · split at h
      · cases h; rename_i e; simpa using e
      · cases h

end Ufo2ft.C15

namespace Ufo2ft.C15
open Ufo2ft List

theorem exGs_cases {P : String → Glyph → Prop} (n : String) (g : Glyph) (h : exGs.get? n = some g)
    (ha : P "a" ⟨"a", 500, 0, [exTri], [], []⟩)
    (hb : P "b" ⟨"b", 500, 0, [], [⟨"a", ⟨-1, 0, 0, 1, 10, 0⟩⟩], []⟩)
    (hc : P "c" ⟨"c", 500, 0, [], [⟨"b", ⟨1, 0, 1/2, -1, 0, 5⟩⟩, ⟨"a", Affine.id⟩], []⟩) : P n g := by
  simp only [exGs, GlyphSet.get?, alookup] at h
  split at h
  · cases h; rename_i e; have : n = "a" := (by simpa using e : _ = n).symm
    subst this; exact ha
  · split at h
    · cases h; rename_i e; have : n = "b" := (by simpa using e : _ = n).symm
      subst this; exact hb
    · split at h
      · cases h; rename_i e; have : n = "c" := (by simpa using e : _ = n).symm
        subst this; exact hc
      · cases h

/-- the hypotheses of the render-preservation theorems are satisfiable by a glyph set with a mirrored component
    nested two levels deep -/
example : Good exGs exRank := by
  apply good_of_closed
  · intro n g h
    refine exGs_cases (P := fun n g => ∀ k ∈ g.comps, exRank k.base < exRank n) n g h ?_ ?_ ?_
    · intro k hk; cases hk
    · intro k hk; simp only [mem_singleton] at hk; subst hk; decide
    · intro k hk; simp only [mem_cons, mem_singleton, not_mem_nil, or_false] at hk
      rcases hk with rfl | rfl <;> decide
  · intro n g h
    refine exGs_cases (P := fun _ g => ∀ k ∈ g.comps, k.t.det ≠ 0) n g h ?_ ?_ ?_
    · intro k hk; cases hk
    · intro k hk; simp only [mem_singleton] at hk; subst hk; simp only [Affine.det]; grind
    · intro k hk; simp only [mem_cons, mem_singleton, not_mem_nil, or_false] at hk
      rcases hk with rfl | rfl <;> simp only [Affine.det, Affine.id] <;> grind
  · intro n g h
    refine exGs_cases (P := fun _ g => ∀ c ∈ g.contours, ∀ p ∈ c, p.seg ≠ some Seg.move) n g h ?_ ?_ ?_
    · intro c hc p hp
      simp only [mem_singleton] at hc; subst hc
      simp only [exTri, mem_cons, mem_singleton, not_mem_nil, or_false] at hp
      rcases hp with rfl | rfl | rfl <;> simp
    · intro c hc; cases hc
    · intro c hc; cases hc

end Ufo2ft.C15

namespace Ufo2ft.C15
open Ufo2ft

/-- **C15 (anchor propagation never overrides)**: after PropagateAnchorsFilter (any include predicate) every glyph has the same
    outline, components and metrics, and its original anchors unchanged and still first; propagated anchors come after them. -/
theorem C15_propagate_no_override (marks : List String) (incl : String → Bool) (gs : GlyphSet) (st : FState)
    (h : runFilter (propagateStep marks) incl gs = .ok st) : AnchExt st.gs gs := by
  unfold runFilter at h
  cases ho : orderedGlyphs gs with
  | error e => rw [ho] at h; cases h
  | ok order => rw [ho] at h; exact propagateLoop_ext marks incl order ⟨gs, [], []⟩ st h

end Ufo2ft.C15

namespace Ufo2ft.C15
open Ufo2ft List

/-! ### TransformationsFilter over the whole glyph set (proofs in Props/Transform.lean) -/

theorem mem_names_get : ∀ (gs : GlyphSet) (n : String), n ∈ gs.names → ∃ g, gs.get? n = some g := by
  intro gs
  induction gs with
  | nil => intro n h; cases h
  | cons e gs ih =>
    intro n h
    obtain ⟨k, v⟩ := e
    simp only [GlyphSet.get?, alookup]
    by_cases hk : (k == n) = true
    · exact ⟨v, by rw [if_pos hk]⟩
    · rw [if_neg hk]
      simp only [GlyphSet.names, List.map_cons, mem_cons] at h
      rcases h with h | h
      · exact absurd (by simpa using h.symm) hk
      · exact ih n h

theorem get_of_mem_nodup : ∀ (gs : GlyphSet), gs.names.Nodup → ∀ n g, (n, g) ∈ gs → gs.get? n = some g := by
  intro gs
  induction gs with
  | nil => intro _ n g h; cases h
  | cons e gs ih =>
    intro hnd n g h
    obtain ⟨k, v⟩ := e
    simp only [GlyphSet.names, List.map_cons, nodup_cons] at hnd
    simp only [GlyphSet.get?, alookup]
    rcases mem_cons.mp h with h | h
    · obtain ⟨e1, e2⟩ := Prod.mk.inj h
      subst e1; subst e2; simp
    · have hne : ¬ (k == n) = true := by
        intro hk
        have : k = n := by simpa using hk
        subst this
        exact hnd.1 (mem_map_of_mem (f := (·.1)) h)
      rw [if_neg hne]
      exact ih hnd.2 n g h

theorem sameDrawing_refl (exact : Bool) (a : List Contour) : sameDrawing exact a a = true := by
  unfold sameDrawing
  cases exact
  · simp only [Bool.false_eq_true, if_false]; exact List.isPerm_iff.mpr (Perm.refl _)
  · simp only [if_true]; exact List.isPerm_iff.mpr (Perm.refl _)

/-- **C15 (transformations)**: on every acyclic glyph set with distinct keys equal to the glyph names, for every matrix with
    positive determinant and every convex include set, the declarative predicate `holdsTransform` holds of the filter's
    output: each included non-empty glyph's resolved outline, anchors and advance are mapped by exactly the matrix (bases
    and composites both included), every other glyph is unchanged, the key list is unchanged.
    Without convexity this is false: `transform_nonconvex_counterexample`. -/
theorem C15_transform (m : Affine) (p : String → Bool) (gs : GlyphSet) (rank : String → Nat) (st : FState)
    (hr : Ranked gs rank) (hn : Named gs) (hnd : gs.names.Nodup) (hm : 0 < m.det) (hc : IncludeConvex gs p)
    (h : runFilter (transformStep m p) p gs = .ok st) : holdsTransform m p gs st.gs = true := by
  obtain ⟨hnames, hall⟩ := transform_convex m p gs rank hr hn hm hc st h
  unfold holdsTransform
  rw [Bool.and_eq_true]
  refine ⟨?_, by rw [hnames]; simp⟩
  unfold transformWrong
  rw [List.isEmpty_iff, List.map_eq_nil_iff, List.filter_eq_nil_iff]
  intro e he
  obtain ⟨n, g'⟩ := e
  have hn' : n ∈ gs.names := by rw [← hnames]; exact mem_map_of_mem (f := (·.1)) he
  obtain ⟨g, hg⟩ := mem_names_get gs n hn'
  obtain ⟨g'', hg'', ha, hb⟩ := hall n g hg
  have hg' : st.gs.get? n = some g' := get_of_mem_nodup st.gs (by rw [hnames]; exact hnd) n g' he
  rw [hg'] at hg''
  have e := Option.some.inj hg''
  subst e
  simp only [hg]
  by_cases hh : p n = true ∧ emptyG g = false
  · have M := ha hh
    have hcond : (p n && !(g.contours.isEmpty && g.comps.isEmpty && g.anchors.isEmpty)) = true := by
      have h2 : (g.contours.isEmpty && g.comps.isEmpty && g.anchors.isEmpty) = false := hh.2
      rw [hh.1, h2]; rfl
    rw [if_pos hcond, M.outline, M.anchors, M.advance, sameDrawing_refl]
    simp
  · have e := hb hh
    subst e
    by_cases hp : p n = true
    · have h2 : (g'.contours.isEmpty && g'.comps.isEmpty && g'.anchors.isEmpty) = true := by
        cases h3 : emptyG g' with
        | true => exact h3
        | false => exact absurd ⟨hp, h3⟩ hh
      simp [hp, h2]
    · simp [hp]

/-- **C15 (transformations, default include)**: with every glyph included no hypothesis on the include set is needed. -/
theorem C15_transform_all (m : Affine) (gs : GlyphSet) (rank : String → Nat) (st : FState)
    (hr : Ranked gs rank) (hn : Named gs) (hnd : gs.names.Nodup) (hm : 0 < m.det)
    (h : runFilter (transformStep m (fun _ => true)) (fun _ => true) gs = .ok st) :
    holdsTransform m (fun _ => true) gs st.gs = true :=
  C15_transform m _ gs rank st hr hn hnd hm (includeConvex_all gs) h

/-- non-vacuity: the hypotheses of `C15_transform` are met by A → B → C with include = {A, B} (a non-included base below
    two included composites) and scale 2 -/
example : ∃ st, runFilter (transformStep sc2 pAB) pAB gs3 = .ok st ∧ holdsTransform sc2 pAB gs3 st.gs = true :=
  ⟨_, gs3_run_AB, C15_transform sc2 pAB gs3 rank3 _ gs3_ranked gs3_named (by decide) sc2_det gs3_convex_AB gs3_run_AB⟩

/-- the recorded finding: with the non-convex include = {A, C} the predicate is FALSE of the filter's output (A is scaled
    by 4, not 2) -/
theorem C15_transform_nonconvex :
    ∃ st, runFilter (transformStep sc2 pAC) pAC gs3 = .ok st ∧ holdsTransform sc2 pAC gs3 st.gs = false := by
  refine ⟨_, gs3_run_AC, ?_⟩
  simp [holdsTransform, transformWrong, sameDrawing, nonsingularFrom, renderGlyph, render, renderComps, gs3, gA, gB, gC, dot,
    GlyphSet.get?, alookup, sc2, pAC, Affine.id, Affine.compose, Affine.apply, Affine.det, Contour.map, Pt.map,
    reverseContour, retype, firstOnCurve, GlyphSet.names]
  intro h1
  exfalso
  rw [if_pos (by constructor <;> grind), List.isPerm_iff] at h1
  have h2 := List.perm_singleton.mp h1
  simp only [List.cons.injEq, Pt.mk.injEq, and_true] at h2
  grind

end Ufo2ft.C15
