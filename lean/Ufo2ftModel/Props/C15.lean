import Ufo2ftModel.Props.Flatten
import Ufo2ftModel.Props.Reverse
import Ufo2ftModel.Props.Propagate
import Ufo2ftModel.Props.Propagate2
import Ufo2ftModel.Props.Transform
import Ufo2ftModel.Spec.C15
/-! Property C15: the theorems, assembled from the shared geometry proofs
    (Props/Geom, Props/Reverse, Props/Render, Props/Flatten). -/
namespace Ufo2ft.C15
open Ufo2ft List

/-- a glyph set all of whose contours are closed (no `move` point), acyclic, with non-singular components, is `Good`:
    the hypothesis of the render-preservation theorems is met by every ordinary font. -/
theorem good_of_closed (gs : GlyphSet) (rank : String → Nat) (hr : Ranked gs rank)
    (hns : ∀ n g, gs.get? n = some g → ∀ k ∈ g.comps, k.t.det ≠ 0)
    (hcl : ∀ n g, gs.get? n = some g → ∀ c ∈ g.contours, ∀ p ∈ c, p.seg ≠ some Seg.move) : Good gs rank :=
  ⟨hr, hns, fun n g hg c hc => reverseContour_involutive c (hcl n g hg c hc)⟩

/-- **C15 (decompose)**: DecomposeComponentsFilter with any include predicate never changes what a glyph renders. -/
theorem C15_decompose (incl : String → Bool) (rank : String → Nat) (gs : GlyphSet) (st : FState)
    (h : runFilter decomposeStep incl gs = .ok st) (hg : Good gs rank) (hn : Named gs) :
    SameRender rank st.gs gs :=
  (runFilter_sameRender decomposeStep rank (stepOK_of_isDecomp rank _ decomposeStep_isDecomp) incl gs st h hg hn).2.2

/-- **C15 (decomposeTransformed)** -/
theorem C15_decomposeTransformed (incl : String → Bool) (rank : String → Nat) (gs : GlyphSet) (st : FState)
    (h : runFilter decomposeTransformedStep incl gs = .ok st) (hg : Good gs rank) (hn : Named gs) :
    SameRender rank st.gs gs :=
  (runFilter_sameRender _ rank (stepOK_of_isDecomp rank _ decomposeTransformedStep_isDecomp) incl gs st h hg hn).2.2

/-- a glyph none of whose components has a non-identity 2×2 is left untouched by decomposeTransformed -/
theorem C15_decomposeTransformed_untouched (st : FState) (g : Glyph)
    (h : g.comps.any isTransformed = false) : decomposeTransformedStep st g = .ok (st, false) := by
  simp [decomposeTransformedStep, h]

/-- **C15 (flatten)**: FlattenComponentsFilter never changes what a glyph renders. -/
theorem C15_flatten (incl : String → Bool) (rank : String → Nat) (gs : GlyphSet) (st : FState)
    (h : runFilter flattenStep incl gs = .ok st) (hg : Good gs rank) (hn : Named gs) :
    SameRender rank st.gs gs :=
  (runFilter_sameRender flattenStep rank (flattenStep_ok rank) incl gs st h hg hn).2.2

/-- **C15 (flatten depth)**: a flattened glyph references only simple-or-mixed glyphs: nesting depth ≤ 1. -/
theorem C15_flatten_depth (rank : String → Nat) (st st' : FState) (g : Glyph) (r : Bool)
    (h : flattenStep st g = .ok (st', r)) (hget : st.gs.get? g.name = some g) (hg : Good st.gs rank) :
    ∀ g', st'.gs.get? g.name = some g' → ∀ c ∈ g'.comps, ∀ b, st.gs.get? c.base = some b → isSimpleOrMixed b = true := by
  unfold flattenStep at h
  by_cases he : g.comps.isEmpty = true
  · rw [if_pos he] at h
    have := Except.ok.inj h
    rw [← (Prod.mk.inj this).1]
    intro g' hg' c hc
    rw [hget] at hg'; rw [← Option.some.inj hg'] at hc
    have : g.comps = [] := by simpa using he
    rw [this] at hc; cases hc
  · rw [if_neg he] at h
    cases hf : flattenGlyphComps st.gs g.comps with
    | error e => rw [hf] at h; cases h
    | ok res =>
      obtain ⟨cs, flag⟩ := res
      rw [hf] at h
      dsimp only at h
      have := Except.ok.inj h
      rw [← (Prod.mk.inj this).1]
      dsimp only
      intro g' hg' c hc b hb
      rw [get?_set st.gs g.name g.name g _ hget] at hg'
      simp only [if_true] at hg'
      rw [← Option.some.inj hg'] at hc
      exact (flattenGlyphComps_spec st.gs rank hg.ranked hg.nonsing g.comps cs flag hf
        (hg.nonsing g.name g hget)).2.2 c hc b hb

/-- `_flattenComponent` composes the nested transform with the outer one: the flattened component's
    matrix maps a point exactly as outer ∘ nested. -/
theorem flatten_matrix (outer nested : Affine) (p : Q × Q) :
    ((outer.translate nested.dx nested.dy).compose ⟨nested.xx, nested.xy, nested.yx, nested.yy, 0, 0⟩).apply p
      = outer.apply (nested.apply p) := by
  rw [Affine.flatten_factor, Affine.apply_compose]

/-- **C15 (transformations, one glyph)**: an orientation-preserving matrix `m` composed on the outside of a resolved
    outline maps every point by `m` and changes nothing else (order, types, direction). -/
theorem render_compose_pos (gs : GlyphSet) (m : Affine) (hm : 0 < m.det) :
    ∀ (f : Nat) (t : Affine) (g : Glyph),
      render f gs (m.compose t) g = (render f gs t g).map (Contour.map m) :=
  _root_.Ufo2ft.render_compose_pos gs m hm

/-- the compensation for an already-transformed base: the component `M ∘ (T ∘ M⁻¹)` of a base whose resolved outline
    has become `M(outline)` draws `M(T(outline))` — the matrix is applied once. -/
theorem C15_compensation (m t : Affine) (h : m.det ≠ 0) (p : Q × Q) :
    (m.compose (t.compose m.inverse)).apply (m.apply p) = m.apply (t.apply p) :=
  Affine.compensation m t h p

/-- anchors, width and height of a transformed glyph are mapped by the matrix (its linear part for the advance) -/
theorem C15_transformBody (m minv : Affine) (modified : List String) (g : Glyph) :
    (transformBody m minv modified g).anchors = g.anchors.map (fun a => let p := m.apply (a.x, a.y); { a with x := p.1, y := p.2 }) ∧
    ((transformBody m minv modified g).width, (transformBody m minv modified g).height) = m.applyVec (g.width, g.height) ∧
    (transformBody m minv modified g).contours = g.contours.map (Contour.map m) := by
  simp [transformBody]

/-! ### non-vacuity: a concrete glyph set meeting every hypothesis -/

def exTri : Contour := [⟨0, 0, some .line⟩, ⟨100, 0, some .line⟩, ⟨50, 80, some .curve⟩]
def exGs : GlyphSet :=
  [("a", ⟨"a", 500, 0, [exTri], [], []⟩),
   ("b", ⟨"b", 500, 0, [], [⟨"a", ⟨-1, 0, 0, 1, 10, 0⟩⟩], []⟩),
   ("c", ⟨"c", 500, 0, [], [⟨"b", ⟨1, 0, 1/2, -1, 0, 5⟩⟩, ⟨"a", Affine.id⟩], []⟩)]
def exRank (n : String) : Nat := if n = "c" then 2 else if n = "b" then 1 else 0

example : Named exGs := by
  intro n g h
  simp only [exGs, GlyphSet.get?, alookup] at h
  split at h
  · cases h; rename_i e; simpa using e
  · split at h
    · cases h; rename_i e; simpa using e
    · split at h
      · cases h; rename_i e; simpa using e
      · cases h

end Ufo2ft.C15

namespace Ufo2ft.C15
open Ufo2ft List

theorem exGs_cases {P : String → Glyph → Prop} (n : String) (g : Glyph) (h : exGs.get? n = some g)
    (ha : P "a" ⟨"a", 500, 0, [exTri], [], []⟩)
    (hb : P "b" ⟨"b", 500, 0, [], [⟨"a", ⟨-1, 0, 0, 1, 10, 0⟩⟩], []⟩)
    (hc : P "c" ⟨"c", 500, 0, [], [⟨"b", ⟨1, 0, 1/2, -1, 0, 5⟩⟩, ⟨"a", Affine.id⟩], []⟩) : P n g := by
  simp only [exGs, GlyphSet.get?, alookup] at h
  split at h
  · cases h; rename_i e; have : n = "a" := (by simpa using e : _ = n).symm
    subst this; exact ha
  · split at h
    · cases h; rename_i e; have : n = "b" := (by simpa using e : _ = n).symm
      subst this; exact hb
    · split at h
      · cases h; rename_i e; have : n = "c" := (by simpa using e : _ = n).symm
        subst this; exact hc
      · cases h

/-- the hypotheses of the render-preservation theorems are satisfiable by a glyph set with a mirrored component
    nested two levels deep -/
example : Good exGs exRank := by
  apply good_of_closed
  · intro n g h
    refine exGs_cases (P := fun n g => ∀ k ∈ g.comps, exRank k.base < exRank n) n g h ?_ ?_ ?_
    · intro k hk; cases hk
    · intro k hk; simp only [mem_singleton] at hk; subst hk; decide
    · intro k hk; simp only [mem_cons, mem_singleton, not_mem_nil, or_false] at hk
      rcases hk with rfl | rfl <;> decide
  · intro n g h
    refine exGs_cases (P := fun _ g => ∀ k ∈ g.comps, k.t.det ≠ 0) n g h ?_ ?_ ?_
    · intro k hk; cases hk
    · intro k hk; simp only [mem_singleton] at hk; subst hk; simp only [Affine.det]; grind
    · intro k hk; simp only [mem_cons, mem_singleton, not_mem_nil, or_false] at hk
      rcases hk with rfl | rfl <;> simp only [Affine.det, Affine.id] <;> grind
  · intro n g h
    refine exGs_cases (P := fun _ g => ∀ c ∈ g.contours, ∀ p ∈ c, p.seg ≠ some Seg.move) n g h ?_ ?_ ?_
    · intro c hc p hp
      simp only [mem_singleton] at hc; subst hc
      simp only [exTri, mem_cons, mem_singleton, not_mem_nil, or_false] at hp
      rcases hp with rfl | rfl | rfl <;> simp
    · intro c hc; cases hc
    · intro c hc; cases hc

end Ufo2ft.C15

namespace Ufo2ft.C15
open Ufo2ft

/-- **C15 (anchor propagation never overrides)**: after PropagateAnchorsFilter (any include predicate) every glyph has the same
    outline, components and metrics, and its original anchors unchanged and still first; propagated anchors come after them. -/
theorem C15_propagate_no_override (marks : List String) (incl : String → Bool) (gs : GlyphSet) (st : FState)
    (h : runFilter (propagateStep bnd marks) incl gs = .ok st) : AnchExt st.gs gs := by
  unfold runFilter at h
  cases ho : orderedGlyphs gs with
  | error e => rw [ho] at h; cases h
  | ok order => rw [ho] at h; exact propagateLoop_ext marks incl order ⟨gs, [], []⟩ st h

end Ufo2ft.C15

namespace Ufo2ft.C15
open Ufo2ft List

/-! ### TransformationsFilter over the whole glyph set (proofs in Props/Transform.lean) -/

theorem mem_names_get : ∀ (gs : GlyphSet) (n : String), n ∈ gs.names → ∃ g, gs.get? n = some g := by
  intro gs
  induction gs with
  | nil => intro n h; cases h
  | cons e gs ih =>
    intro n h
    obtain ⟨k, v⟩ := e
    simp only [GlyphSet.get?, alookup]
    by_cases hk : (k == n) = true
    · exact ⟨v, by rw [if_pos hk]⟩
    · rw [if_neg hk]
      simp only [GlyphSet.names, List.map_cons, mem_cons] at h
      rcases h with h | h
      · exact absurd (by simpa using h.symm) hk
      · exact ih n h

theorem get_of_mem_nodup : ∀ (gs : GlyphSet), gs.names.Nodup → ∀ n g, (n, g) ∈ gs → gs.get? n = some g := by
  intro gs
  induction gs with
  | nil => intro _ n g h; cases h
  | cons e gs ih =>
    intro hnd n g h
    obtain ⟨k, v⟩ := e
    simp only [GlyphSet.names, List.map_cons, nodup_cons] at hnd
    simp only [GlyphSet.get?, alookup]
    rcases mem_cons.mp h with h | h
    · obtain ⟨e1, e2⟩ := Prod.mk.inj h
      subst e1; subst e2; simp
    · have hne : ¬ (k == n) = true := by
        intro hk
        have : k = n := by simpa using hk
        subst this
        exact hnd.1 (mem_map_of_mem (f := (·.1)) h)
      rw [if_neg hne]
      exact ih hnd.2 n g h

theorem sameDrawing_refl (exact : Bool) (a : List Contour) : sameDrawing exact a a = true := by
  unfold sameDrawing
  cases exact
  · simp only [Bool.false_eq_true, if_false]; exact List.isPerm_iff.mpr (Perm.refl _)
  · simp only [if_true]; exact List.isPerm_iff.mpr (Perm.refl _)

/-- **C15 (transformations)**: on every acyclic glyph set with distinct keys equal to the glyph names, for every matrix with
    positive determinant and every convex include set, the declarative predicate `holdsTransform` holds of the filter's
    output: each included non-empty glyph's resolved outline, anchors and advance are mapped by exactly the matrix (bases
    and composites both included), every other glyph is unchanged, the key list is unchanged.
    Without convexity this is false: `transform_nonconvex_counterexample`. -/
theorem C15_transform (m : Affine) (p : String → Bool) (gs : GlyphSet) (rank : String → Nat) (st : FState)
    (hr : Ranked gs rank) (hn : Named gs) (hnd : gs.names.Nodup) (hm : 0 < m.det) (hc : IncludeConvex gs p)
    (h : runFilter (transformStep m p) p gs = .ok st) : holdsTransform m p gs st.gs = true := by
  obtain ⟨hnames, hall⟩ := transform_convex m p gs rank hr hn hm hc st h
  unfold holdsTransform
  rw [Bool.and_eq_true]
  refine ⟨?_, by rw [hnames]; simp⟩
  unfold transformWrong
  rw [List.isEmpty_iff, List.map_eq_nil_iff, List.filter_eq_nil_iff]
  intro e he
  obtain ⟨n, g'⟩ := e
  have hn' : n ∈ gs.names := by rw [← hnames]; exact mem_map_of_mem (f := (·.1)) he
  obtain ⟨g, hg⟩ := mem_names_get gs n hn'
  obtain ⟨g'', hg'', ha, hb⟩ := hall n g hg
  have hg' : st.gs.get? n = some g' := get_of_mem_nodup st.gs (by rw [hnames]; exact hnd) n g' he
  rw [hg'] at hg''
  have e := Option.some.inj hg''
  subst e
  simp only [hg]
  by_cases hh : p n = true ∧ emptyG g = false
  · have M := ha hh
    have hcond : (p n && !(g.contours.isEmpty && g.comps.isEmpty && g.anchors.isEmpty)) = true := by
      have h2 : (g.contours.isEmpty && g.comps.isEmpty && g.anchors.isEmpty) = false := hh.2
      rw [hh.1, h2]; rfl
    rw [if_pos hcond, M.outline, M.anchors, M.advance, sameDrawing_refl]
    simp
  · have e := hb hh
    subst e
    by_cases hp : p n = true
    · have h2 : (g'.contours.isEmpty && g'.comps.isEmpty && g'.anchors.isEmpty) = true := by
        cases h3 : emptyG g' with
        | true => exact h3
        | false => exact absurd ⟨hp, h3⟩ hh
      simp [hp, h2]
    · simp [hp]

/-- **C15 (transformations, default include)**: with every glyph included no hypothesis on the include set is needed. -/
theorem C15_transform_all (m : Affine) (gs : GlyphSet) (rank : String → Nat) (st : FState)
    (hr : Ranked gs rank) (hn : Named gs) (hnd : gs.names.Nodup) (hm : 0 < m.det)
    (h : runFilter (transformStep m (fun _ => true)) (fun _ => true) gs = .ok st) :
    holdsTransform m (fun _ => true) gs st.gs = true :=
  C15_transform m _ gs rank st hr hn hnd hm (includeConvex_all gs) h

/-- non-vacuity: the hypotheses of `C15_transform` are met by A → B → C with include = {A, B} (a non-included base below
    two included composites) and scale 2 -/
example : ∃ st, runFilter (transformStep sc2 pAB) pAB gs3 = .ok st ∧ holdsTransform sc2 pAB gs3 st.gs = true :=
  ⟨_, gs3_run_AB, C15_transform sc2 pAB gs3 rank3 _ gs3_ranked gs3_named (by decide) sc2_det gs3_convex_AB gs3_run_AB⟩

/-- the recorded finding: with the non-convex include = {A, C} the predicate is FALSE of the filter's output (A is scaled
    by 4, not 2) -/
theorem C15_transform_nonconvex :
    ∃ st, runFilter (transformStep sc2 pAC) pAC gs3 = .ok st ∧ holdsTransform sc2 pAC gs3 st.gs = false := by
  refine ⟨_, gs3_run_AC, ?_⟩
  simp [holdsTransform, transformWrong, sameDrawing, nonsingularFrom, renderGlyph, render, renderComps, gs3, gA, gB, gC, dot,
    GlyphSet.get?, alookup, sc2, pAC, Affine.id, Affine.compose, Affine.apply, Affine.det, Contour.map, Pt.map,
    reverseContour, retype, firstOnCurve, GlyphSet.names]
  intro h1
  exfalso
  rw [if_pos (by constructor <;> grind), List.isPerm_iff] at h1
  have h2 := List.perm_singleton.mp h1
  simp only [List.cons.injEq, Pt.mk.injEq, and_true] at h2
  grind

end Ufo2ft.C15

namespace Ufo2ft.C15
open Ufo2ft List

/-! ### PropagateAnchorsFilter: placement, completeness, idempotence (proofs in Props/Propagate2.lean) -/

variable {bnd : Comp → Option (Q × Q)}

/-- **C15 (anchor propagation, placement)**: for every acyclic glyph set with distinct keys equal to the glyph names, every
    mark list and every include predicate, `propagateWrong` finds nothing in the filter's output: each glyph keeps outline,
    components, advance and its own anchors (first, unchanged); every ADDED anchor lies at `k.t.apply (ba.x, ba.y)` for a
    component `k` of the glyph and an anchor `ba` — same name, or the numbered `name_N` — of `k`'s base in the FINAL glyph
    set; and no added anchor has the name of an anchor the glyph already had. -/
theorem C15_propagate_placed (marks : List String) (incl : String → Bool) (gs : GlyphSet) (rank : String → Nat) (st : FState)
    (hr : Ranked gs rank) (hn : Named gs) (hnd : gs.names.Nodup)
    (h : runFilter (propagateStep bnd marks) incl gs = .ok st) : propagateWrong gs st.gs = [] := by
  obtain ⟨_, hnames, _⟩ := runFilter_propagate_inv marks incl gs rank st hr hn h
  unfold propagateWrong
  rw [List.map_eq_nil_iff, List.filter_eq_nil_iff]
  intro e he
  obtain ⟨n, g'⟩ := e
  have hn' : n ∈ gs.names := by rw [← hnames]; exact mem_map_of_mem (f := (·.1)) he
  obtain ⟨g, hg⟩ := mem_names_get gs n hn'
  have hg' : st.gs.get? n = some g' := get_of_mem_nodup st.gs (by rw [hnames]; exact hnd) n g' he
  obtain ⟨added, e, hadd⟩ := propagate_placed marks incl gs rank st hr hn h n g g' hg hg'
  subst e
  simp only [hg, take_left', drop_left', beq_self_eq_true, Bool.true_and, Bool.not_eq_true', Bool.not_eq_false]
  rw [Bool.and_eq_true, List.all_eq_true, List.all_eq_true]
  constructor
  · intro a ha
    obtain ⟨⟨k, hk, b, hb, ba, hba, hnm, hpos⟩, _⟩ := hadd a ha
    refine List.any_eq_true.mpr ⟨k, hk, ?_⟩
    rw [hb]
    exact List.any_eq_true.mpr ⟨ba, hba, by rw [hnm, hpos]; simp⟩
  · intro a ha
    have := (hadd a ha).2
    rw [Bool.not_eq_true', List.any_eq_false]
    intro o ho
    simpa using this o ho


/-- **C15 (anchor propagation, completeness)**: `propagateMissing` finds nothing: an included composite (not a mark glyph
    that already has anchors) all of whose components' bases are non-mark glyphs has, for every anchor of every base, either
    an own anchor whose name starts with that name or a propagated anchor of that (possibly numbered) name. -/
theorem C15_propagate_complete (marks : List String) (incl : String → Bool) (gs : GlyphSet) (rank : String → Nat) (st : FState)
    (hr : Ranked gs rank) (hn : Named gs) (hnd : gs.names.Nodup)
    (h : runFilter (propagateStep bnd marks) incl gs = .ok st) : propagateMissing marks incl gs st.gs = [] := by
  obtain ⟨_, hnames, _⟩ := runFilter_propagate_inv marks incl gs rank st hr hn h
  unfold propagateMissing
  rw [List.map_eq_nil_iff, List.filter_eq_nil_iff]
  intro e he
  obtain ⟨n, g'⟩ := e
  have hn' : n ∈ gs.names := by rw [← hnames]; exact mem_map_of_mem (f := (·.1)) he
  obtain ⟨g, hg⟩ := mem_names_get gs n hn'
  have hg' : st.gs.get? n = some g' := get_of_mem_nodup st.gs (by rw [hnames]; exact hnd) n g' he
  obtain ⟨added, e, _⟩ := propagate_placed marks incl gs rank st hr hn h n g g' hg hg'
  have hcomps : g'.comps = g.comps := by rw [e]
  simp only [hg]
  intro hall
  simp only [Bool.and_eq_true, Bool.not_eq_eq_eq_not, Bool.not_true] at hall
  obtain ⟨⟨⟨⟨hincl, hne⟩, hmk⟩, hbases⟩, hfail⟩ := hall
  have hs : skipCond marks n g = false := by
    unfold skipCond; rw [hne, Bool.false_or]; exact hmk
  have : (g'.comps.all fun k => match st.gs.get? k.base with
      | none => true
      | some b => b.anchors.all fun ba =>
          (g.anchors.any fun o => o.name.startsWith ba.name) || g'.anchors.any fun a => nameMatches a.name ba.name) = true := by
    rw [List.all_eq_true]
    intro k hk
    have hkb := List.all_eq_true.mp hbases k hk
    cases hb : st.gs.get? k.base with
    | none => rfl
    | some b =>
      rw [hb] at hkb
      dsimp only at hkb ⊢
      rw [List.all_eq_true]
      intro ba hba
      rw [Bool.or_eq_true]
      rcases propagate_complete marks incl gs rank st hr hn h n g g' hg hg' hincl hs k (hcomps ▸ hk) b hb
        (by simpa using hkb) ba hba with h1 | ⟨a, ha, hnm⟩
      · exact Or.inl h1
      · exact Or.inr (List.any_eq_true.mpr ⟨a, ha, hnm⟩)
  exact Bool.false_ne_true (hfail.symm.trans this)

/-- **C15 (anchor propagation, idempotence)**: running the filter again on its own output changes nothing and reports
    nothing as modified — numbered ligature anchors included (`top_1` starts with `top`, so `top` is not propagated again). -/
theorem C15_propagate_idempotent (marks : List String) (incl : String → Bool) (gs : GlyphSet) (rank : String → Nat)
    (st st2 : FState) (hr : Ranked gs rank) (hn : Named gs) (h : runFilter (propagateStep bnd marks) incl gs = .ok st)
    (h2 : runFilter (propagateStep bnd marks) incl st.gs = .ok st2) : st2.gs = st.gs ∧ st2.modified = [] :=
  propagate_idempotent marks incl gs rank st st2 hr hn h h2

/-- **C15 (anchor propagation)**: on every acyclic glyph set with distinct keys equal to the glyph names, for every mark list
    and include predicate, the whole declarative predicate `holdsPropagate` — the one the driver evaluates on the observed
    result of the real filter — holds of the model's result `st` and of a second run `st2` on it: nothing overridden,
    every added anchor at T(base anchor) of a component's final base, nothing missing on base-only composites, same keys,
    and the second run modifies nothing. -/
theorem C15_propagate (marks : List String) (incl : String → Bool) (gs : GlyphSet) (rank : String → Nat)
    (st st2 : FState) (hr : Ranked gs rank) (hn : Named gs) (hnd : gs.names.Nodup)
    (h : runFilter (propagateStep bnd marks) incl gs = .ok st)
    (h2 : runFilter (propagateStep bnd marks) incl st.gs = .ok st2) :
    holdsPropagate marks incl gs st.gs st2.modified (st2.gs == st.gs) = true := by
  obtain ⟨_, hnames, _⟩ := runFilter_propagate_inv marks incl gs rank st hr hn h
  obtain ⟨i1, i2⟩ := propagate_idempotent marks incl gs rank st st2 hr hn h h2
  unfold holdsPropagate
  rw [C15_propagate_placed marks incl gs rank st hr hn hnd h, C15_propagate_complete marks incl gs rank st hr hn hnd h,
    hnames, i1, i2]
  simp

/-! ### non-vacuity: a → b (scaled by 2 and offset) → c (= b offset + a scaled by 1/2: a ligature of two `top` carriers)

`b` receives `top` at 2·(100,500)+(10,20) = (210,1020); `c` receives `top_1` = b's FINAL `top` moved by (100,0) and
`top_2` = a's `top` halved and moved by (700,0).  The model is evaluated by `simp` on these concrete inputs. -/

/-- no bounds needed: no mark-ligature composite in `gsP` -/
def bnd0 : Comp → Option (Q × Q) := fun _ => none
def pA : Glyph := ⟨"a", 500, 0, [], [], [⟨"top", 100, 500⟩]⟩
def pB : Glyph := ⟨"b", 500, 0, [], [⟨"a", ⟨2, 0, 0, 2, 10, 20⟩⟩], []⟩
def pC : Glyph := ⟨"c", 900, 0, [], [⟨"b", ⟨1, 0, 0, 1, 100, 0⟩⟩, ⟨"a", ⟨1/2, 0, 0, 1/2, 700, 0⟩⟩], []⟩
def gsP : GlyphSet := [("c", pC), ("b", pB), ("a", pA)]
def rankP (n : String) : Nat := if n = "c" then 2 else if n = "b" then 1 else 0

def gsP' : GlyphSet := [("c", { pC with anchors := [⟨"top_1", 310, 1020⟩, ⟨"top_2", 750, 250⟩] }),
          ("b", { pB with anchors := [⟨"top", 210, 1020⟩] }), ("a", pA)]

theorem gsP_order : orderedGlyphs gsP = .ok ["c", "b", "a"] := by
  simp [orderedGlyphs, depthsOf, maxComponentDepth, depthGlyph, depthComps, gsP, pA, pB, pC, GlyphSet.get?, alookup]
  rw [List.mergeSort_of_pairwise (by simp)]
  rfl


theorem gsP_run : runFilter (propagateStep bnd0 []) (fun _ => true) gsP =
    .ok ⟨gsP', ["b", "c"], ["c", "b", "a"]⟩ := by
  unfold runFilter
  rw [gsP_order]
  simp [filterLoop, propagateStep, propagate, propagateComps, gsP, gsP', pA, pB, pC, GlyphSet.get?, alookup, addMod,
    GlyphSet.set, Affine.apply, getAnchorData, adjustAnchors, adSet, sortStr, promoteSplit, isLigatureMark]
  have e1 : toString "top" ++ toString "_" ++ Nat.repr 1 = "top_1" := by decide +kernel
  have e2 : toString "top" ++ toString "_" ++ Nat.repr 2 = "top_2" := by decide +kernel
  rw [e1, e2]
  refine ⟨?_, by grind, by grind⟩
  rw [List.mergeSort_of_pairwise (by simp only [pairwise_cons, mem_singleton, forall_eq, strLe]; decide +kernel)]
  simp only [map_cons, map_nil]
  congr 2 <;> (congr 1 <;> grind)

theorem gsP'_order : orderedGlyphs gsP' = .ok ["c", "b", "a"] := by
  simp [orderedGlyphs, depthsOf, maxComponentDepth, depthGlyph, depthComps, gsP', pA, pB, pC, GlyphSet.get?, alookup]
  rw [List.mergeSort_of_pairwise (by simp)]
  rfl

theorem gsP_run2 : runFilter (propagateStep bnd0 []) (fun _ => true) gsP' = .ok ⟨gsP', [], ["c", "b", "a"]⟩ := by
  unfold runFilter
  rw [gsP'_order]
  have s2 : ("top".startsWith "_") = false := by decide +kernel
  simp [filterLoop, propagateStep, propagate, propagateComps, gsP', pA, pB, pC, GlyphSet.get?, alookup, addMod,
    Affine.apply, getAnchorData, adjustAnchors, adSet, sortStr, promoteSplit, isLigatureMark, s2]

theorem gsP_cases {P : String → Glyph → Prop} (n : String) (g : Glyph) (h : gsP.get? n = some g)
    (hc : P "c" pC) (hb : P "b" pB) (ha : P "a" pA) : P n g := by
  simp only [gsP, GlyphSet.get?, alookup] at h
  split at h
  · cases h; rename_i e; have : n = "c" := (by simpa using e : _ = n).symm
    subst this; exact hc
  · split at h
    · cases h; rename_i e; have : n = "b" := (by simpa using e : _ = n).symm
      subst this; exact hb
    · split at h
      · cases h; rename_i e; have : n = "a" := (by simpa using e : _ = n).symm
        subst this; exact ha
      · cases h

theorem gsP_ranked : Ranked gsP rankP := by
  intro n g h
  refine gsP_cases (P := fun n g => ∀ k ∈ g.comps, rankP k.base < rankP n) n g h ?_ ?_ ?_
  · intro k hk; simp only [pC, mem_cons, not_mem_nil, or_false] at hk
    rcases hk with rfl | rfl <;> decide
  · intro k hk; simp only [pB, mem_singleton] at hk; subst hk; decide
  · intro k hk; cases hk

theorem gsP_named : Named gsP := by
  intro n g h
  exact gsP_cases (P := fun n g => g.name = n) n g h rfl rfl rfl

/-- non-vacuity of `C15_propagate_placed` and `C15_propagate_complete`: their hypotheses hold of `gsP`, the run succeeds
    and modifies `b` and `c` -/
example : ∃ st, runFilter (propagateStep bnd0 []) (fun _ => true) gsP = .ok st ∧ st.modified = ["b", "c"] ∧
    propagateWrong gsP st.gs = [] ∧ propagateMissing [] (fun _ => true) gsP st.gs = [] :=
  ⟨_, gsP_run, rfl, C15_propagate_placed [] _ gsP rankP _ gsP_ranked gsP_named (by decide) gsP_run,
    C15_propagate_complete [] _ gsP rankP _ gsP_ranked gsP_named (by decide) gsP_run⟩

/-- non-vacuity of `C15_propagate_idempotent` and `C15_propagate`: both runs succeed on `gsP` (the second one on a glyph
    set that has the numbered anchors `top_1`, `top_2`), and the whole predicate holds -/
example : ∃ st st2, runFilter (propagateStep bnd0 []) (fun _ => true) gsP = .ok st ∧
    runFilter (propagateStep bnd0 []) (fun _ => true) st.gs = .ok st2 ∧ st2.gs = st.gs ∧ st2.modified = [] ∧
    holdsPropagate [] (fun _ => true) gsP st.gs st2.modified (st2.gs == st.gs) = true :=
  ⟨_, _, gsP_run, gsP_run2, (C15_propagate_idempotent [] _ gsP rankP _ _ gsP_ranked gsP_named gsP_run gsP_run2).1,
    (C15_propagate_idempotent [] _ gsP rankP _ _ gsP_ranked gsP_named gsP_run gsP_run2).2,
    C15_propagate [] _ gsP rankP _ _ gsP_ranked gsP_named (by decide) gsP_run gsP_run2⟩


/-- **C15 (anchor propagation, mark-ligature promotion)**: `promotionWrong` finds nothing in the filter's output: every
    included composite with a ligature name made only of mark glyphs has a component of minimal squared distance (of its
    bounds' lower-left corner to the origin) whose base's anchors it all carries, and carries no other names. -/
theorem C15_propagate_promotion (marks : List String) (incl : String → Bool) (gs : GlyphSet) (rank : String → Nat) (st : FState)
    (hr : Ranked gs rank) (hn : Named gs) (hnd : gs.names.Nodup)
    (h : runFilter (propagateStep bnd marks) incl gs = .ok st) : promotionWrong bnd marks incl gs st.gs = [] := by
  obtain ⟨_, hnames, _⟩ := runFilter_propagate_inv marks incl gs rank st hr hn h
  unfold promotionWrong
  rw [List.map_eq_nil_iff, List.filter_eq_nil_iff]
  intro e he
  obtain ⟨n, g'⟩ := e
  have hn' : n ∈ gs.names := by rw [← hnames]; exact mem_map_of_mem (f := (·.1)) he
  obtain ⟨g, hg⟩ := mem_names_get gs n hn'
  have hg' : st.gs.get? n = some g' := get_of_mem_nodup st.gs (by rw [hnames]; exact hnd) n g' he
  obtain ⟨added0, e0, _⟩ := propagate_placed marks incl gs rank st hr hn h n g g' hg hg'
  have hcomps : g'.comps = g.comps := by rw [e0]
  simp only [hg]
  intro hall
  simp only [Bool.and_eq_true, Bool.not_eq_eq_eq_not, Bool.not_true] at hall
  obtain ⟨⟨⟨⟨⟨⟨hincl, hne⟩, hmk⟩, hlig⟩, hsome⟩, hbases⟩, hfail⟩ := hall
  have hs : skipCond marks n g = false := by
    unfold skipCond; rw [hne, Bool.false_or]; exact hmk
  rw [hcomps] at hsome hbases
  have hex : ∃ k ∈ g.comps, st.gs.get? k.base ≠ none := by
    obtain ⟨k, hk, hk2⟩ := List.any_eq_true.mp hsome
    exact ⟨k, hk, fun e => by rw [e] at hk2; cases hk2⟩
  have hmarks : ∀ k ∈ g.comps, ∀ b, st.gs.get? k.base = some b → (b.anchors.any fun a => a.name.startsWith "_") = true := by
    intro k hk b hb
    have := List.all_eq_true.mp hbases k hk
    rw [hb] at this; exact this
  obtain ⟨k, hk, b, p, hb, hp, hmin, hcompl, added, hadd, hnames'⟩ :=
    propagate_promoted marks incl gs rank st hr hn h n g g' hg hg' hincl hs hlig hex hmarks
  have : (g'.comps.any fun k =>
        match st.gs.get? k.base, bnd k with
        | some b, some p =>
          (g'.comps.all fun k' => match st.gs.get? k'.base, bnd k' with
            | some _, some p' => decide (dist2 p ≤ dist2 p')
            | some _, none => false
            | none, _ => true) &&
          (b.anchors.all fun ba =>
            (g.anchors.any fun o => o.name.startsWith ba.name) ||
            g'.anchors.any fun a => nameMatches a.name ba.name) &&
          (g'.anchors.drop g.anchors.length).all fun a => b.anchors.any fun ba => nameMatches a.name ba.name
        | _, _ => false) = true := by
    rw [hcomps]
    refine List.any_eq_true.mpr ⟨k, hk, ?_⟩
    rw [hb, hp]
    dsimp only
    rw [Bool.and_eq_true, Bool.and_eq_true]
    refine ⟨⟨?_, ?_⟩, ?_⟩
    · rw [List.all_eq_true]
      intro k' hk'
      cases hb' : st.gs.get? k'.base with
      | none => rfl
      | some b' =>
        obtain ⟨p', hp', hle⟩ := hmin k' hk' b' hb'
        rw [hp']
        exact decide_eq_true hle
    · rw [List.all_eq_true]
      intro ba hba
      rw [Bool.or_eq_true]
      rcases hcompl ba hba with h1 | ⟨a, ha, hnm⟩
      · exact Or.inl h1
      · exact Or.inr (List.any_eq_true.mpr ⟨a, ha, hnm⟩)
    · rw [hadd, drop_left' rfl, List.all_eq_true]
      intro a ha
      obtain ⟨ba, hba, hnm⟩ := hnames' a ha
      exact List.any_eq_true.mpr ⟨ba, hba, hnm⟩
  exact Bool.false_ne_true (hfail.symm.trans this)

/-- **C15 (anchor propagation, everything)**: `holdsPropagateP` — `holdsPropagate` plus the promotion clause — holds of the
    model's result for every acyclic glyph set, mark list, include predicate and bounds function, whenever both runs succeed
    (a run raises exactly when a mark-ligature composite has a component without bounds: `promoteSplit_raises`). -/
theorem C15_propagateP (marks : List String) (incl : String → Bool) (gs : GlyphSet) (rank : String → Nat)
    (st st2 : FState) (hr : Ranked gs rank) (hn : Named gs) (hnd : gs.names.Nodup)
    (h : runFilter (propagateStep bnd marks) incl gs = .ok st)
    (h2 : runFilter (propagateStep bnd marks) incl st.gs = .ok st2) :
    holdsPropagateP bnd marks incl gs st.gs st2.modified (st2.gs == st.gs) = true := by
  unfold holdsPropagateP
  rw [C15_propagate marks incl gs rank st st2 hr hn hnd h h2, C15_propagate_promotion marks incl gs rank st hr hn hnd h]
  rfl

/-! ### non-vacuity of the promotion branch: `acutecomb_gravecomb` = acutecomb at (30,40) + gravecomb at (50,0) -/

def lAc : Glyph := ⟨"acutecomb", 0, 0, [[⟨0, 0, some .line⟩, ⟨50, 0, some .line⟩, ⟨50, 50, some .line⟩]], [],
  [⟨"_top", 10, 0⟩, ⟨"top", 10, 60⟩]⟩
def lGr : Glyph := ⟨"gravecomb", 0, 0, [[⟨0, 0, some .line⟩, ⟨40, 0, some .line⟩, ⟨0, 40, some .line⟩]], [],
  [⟨"_top", 5, 0⟩, ⟨"top", 5, 50⟩]⟩
def kAc : Comp := ⟨"acutecomb", ⟨1, 0, 0, 1, 30, 40⟩⟩
def kGr : Comp := ⟨"gravecomb", ⟨1, 0, 0, 1, 50, 0⟩⟩
def lLig : Glyph := ⟨"acutecomb_gravecomb", 0, 0, [], [kAc, kGr], []⟩
def gsL : GlyphSet := [("acutecomb_gravecomb", lLig), ("acutecomb", lAc), ("gravecomb", lGr)]

theorem lb_ac : lineBounds gsL kAc = some (some (30, 40)) := by
  simp [lineBounds, penPointsComps, penPoints, gsL, kAc, lAc, lGr, lLig, kGr, GlyphSet.get?, alookup, lowerLeft, minQ,
    Affine.id, Affine.compose, Affine.apply]
  constructor <;> grind


theorem lb_gr : lineBounds gsL kGr = some (some (50, 0)) := by
  simp [lineBounds, penPointsComps, penPoints, gsL, kAc, lAc, lGr, lLig, kGr, GlyphSet.get?, alookup, lowerLeft, minQ,
    Affine.id, Affine.compose, Affine.apply]
  constructor <;> grind

/-- the two components' bounds corners (= `lineBounds`, see `lb_ac`, `lb_gr`): both at squared distance 2500 — a tie -/
def bndL : Comp → Option (Q × Q) := fun k => if k = kAc then some (30, 40) else if k = kGr then some (50, 0) else none

theorem gsL_order : orderedGlyphs gsL = .ok ["acutecomb_gravecomb", "acutecomb", "gravecomb"] := by
  simp [orderedGlyphs, depthsOf, maxComponentDepth, depthGlyph, depthComps, gsL, lAc, lGr, lLig, kAc, kGr, GlyphSet.get?, alookup]
  rw [List.mergeSort_of_pairwise (by simp)]
  rfl

def gsL' : GlyphSet := [("acutecomb_gravecomb", { lLig with anchors := [⟨"_top", 40, 40⟩, ⟨"top", 55, 50⟩] }),
  ("acutecomb", lAc), ("gravecomb", lGr)]

theorem gsL_run : runFilter (propagateStep bndL []) (fun _ => true) gsL =
    .ok ⟨gsL', ["acutecomb_gravecomb"], ["acutecomb_gravecomb", "acutecomb", "gravecomb"]⟩ := by
  unfold runFilter
  rw [gsL_order]
  have s1 : ("_top".startsWith "_") = true := by decide +kernel
  have s2 : ("top".startsWith "_") = false := by decide +kernel
  have hlt : ¬ ((0 - 50 : Q) * (0 - 50) + (0 - 0) * (0 - 0) < (0 - 30) * (0 - 30) + (0 - 40) * (0 - 40)) := by grind
  have hs : sortStr ["_top", "top"] = ["_top", "top"] := by
    unfold sortStr
    rw [List.mergeSort_of_pairwise (by simp only [pairwise_cons, mem_singleton, forall_eq, strLe]; decide +kernel)]
  simp [filterLoop, propagateStep, propagate, propagateComps, gsL, gsL', lAc, lGr, lLig, kAc, kGr, GlyphSet.get?, alookup, addMod,
    GlyphSet.set, Affine.apply, getAnchorData, adjustAnchors, adSet, hs, promoteSplit, isLigatureMark, distKeys, firstMin,
    dist2, bndL, s1, s2, hlt]
  rw [List.mergeSort_of_pairwise (by simp only [pairwise_cons, mem_singleton, forall_eq, strLe]; decide +kernel)]
  simp only [map_cons, map_nil]
  congr 2 <;> (congr 1 <;> grind)

def rankL (n : String) : Nat := if n = "acutecomb_gravecomb" then 1 else 0

theorem gsL_cases {P : String → Glyph → Prop} (n : String) (g : Glyph) (h : gsL.get? n = some g)
    (hl : P "acutecomb_gravecomb" lLig) (ha : P "acutecomb" lAc) (hb : P "gravecomb" lGr) : P n g := by
  simp only [gsL, GlyphSet.get?, alookup] at h
  split at h
  · cases h; rename_i e; have : n = "acutecomb_gravecomb" := (by simpa using e : _ = n).symm
    subst this; exact hl
  · split at h
    · cases h; rename_i e; have : n = "acutecomb" := (by simpa using e : _ = n).symm
      subst this; exact ha
    · split at h
      · cases h; rename_i e; have : n = "gravecomb" := (by simpa using e : _ = n).symm
        subst this; exact hb
      · cases h

theorem gsL_ranked : Ranked gsL rankL := by
  intro n g h
  refine gsL_cases (P := fun n g => ∀ k ∈ g.comps, rankL k.base < rankL n) n g h ?_ ?_ ?_
  · intro k hk; simp only [lLig, mem_cons, not_mem_nil, or_false] at hk
    rcases hk with rfl | rfl <;> decide
  · intro k hk; cases hk
  · intro k hk; cases hk

theorem gsL_named : Named gsL := by
  intro n g h
  exact gsL_cases (P := fun n g => g.name = n) n g h rfl rfl rfl

/-- non-vacuity of `C15_propagate_promotion`: a ligature of two marks whose bounds' corners are EQUALLY far from the origin
    (30,40) / (50,0): the first one, `acutecomb`, is promoted — the composite gets its `_top` and `top`, and `top` is then
    moved to the remaining mark component's `top` by `_adjust_anchors` -/
example : ∃ st, runFilter (propagateStep bndL []) (fun _ => true) gsL = .ok st ∧
    st.gs.get? "acutecomb_gravecomb" = some { lLig with anchors := [⟨"_top", 40, 40⟩, ⟨"top", 55, 50⟩] } ∧
    promotionWrong bndL [] (fun _ => true) gsL st.gs = [] ∧ propagateWrong gsL st.gs = [] :=
  ⟨_, gsL_run, rfl, C15_propagate_promotion [] _ gsL rankL _ gsL_ranked gsL_named (by decide) gsL_run,
    C15_propagate_placed [] _ gsL rankL _ gsL_ranked gsL_named (by decide) gsL_run⟩

/-! ### the matrix `set_context` builds is the REQUESTED one (offset ∘ origin shift ∘ scale ∘ slant ∘ shift back) -/

/-- the matrix read off `requestedMap` acts as `requestedMap` on every point -/
theorem requestedMatrix_apply (o : TOpts) (p : Q × Q) : (requestedMatrix o).apply p = requestedMap o p := by
  simp only [requestedMatrix, requestedMap, Affine.apply]
  ext <;> simp only [] <;> grind

/-- `TransformationsFilter.set_context` (model `tMatrix`: the guarded chain translate / translate / scale / skew / translate of
    post-multiplying `Transform` calls) builds exactly the requested matrix, for ALL options: slant is applied to a point
    BEFORE the scale (so with ScaleX ≠ ScaleY the slant angle is the requested one), the origin shift cancels outside. -/
theorem tMatrix_eq_requested (o : TOpts) : tMatrix o = requestedMatrix o := by
  simp only [tMatrix, requestedMatrix, requestedMap, Affine.translate, Affine.scale, Affine.compose, Affine.id,
    bne_iff_ne, ne_eq, Bool.or_eq_true]
  repeat' split
  all_goals (simp only [Affine.mk.injEq]; grind)

/-- every point is mapped as requested by the matrix the filter uses -/
theorem C15_transform_requested (o : TOpts) (p : Q × Q) : (tMatrix o).apply p = requestedMap o p := by
  rw [tMatrix_eq_requested, requestedMatrix_apply]

/-- scale and slant do not commute: composing them in the other order is a different matrix as soon as ScaleX ≠ ScaleY -/
example : requestedMap ⟨0, 0, 50, 100, true, 1/4, 0⟩ (0, 8) = (1, 8) := by decide +kernel

theorem all2_refl {α : Type} (f : α → α → Bool) (hf : ∀ a, f a a = true) : ∀ l : List α, all2 f l l = true
  | [] => rfl
  | a :: l => by simp [all2, hf a, all2_refl f hf l]

/-- the tolerance comparison accepts an exact match -/
theorem closeDrawing_refl (eps : Q) (h : 0 ≤ eps) (a : List Contour) : closeDrawing eps a a = true := by
  apply all2_refl; intro c; apply all2_refl; intro p
  simp [closePt, closeQ, Rat.sub_self, h]

end Ufo2ft.C15
