import Ufo2ftModel.Props.Geom
import Ufo2ftModel.Spec.C15
/-! Property C15 theorems (the shared algebra is in Props/Geom.lean). -/
namespace Ufo2ft.C15
open Ufo2ft List

/-- `_flattenComponent` composes the nested transform with the outer one: the flattened component's
    matrix maps a point exactly as outer ∘ nested. -/
theorem flatten_matrix (outer nested : Affine) (p : Q × Q) :
    ((outer.translate nested.dx nested.dy).compose ⟨nested.xx, nested.xy, nested.yx, nested.yy, 0, 0⟩).apply p
      = outer.apply (nested.apply p) := by
  rw [Affine.flatten_factor, Affine.apply_compose]

end Ufo2ft.C15
