import Ufo2ftModel.Props.C06AttachBase
/-!
C06, part 18: WHICH candidate wins when several anchor keys match a (base, mark) pair — the mark-to-base case in the default
mode (`groupMarkClasses` off).

The code (`_groupAttachments`): one lookup per mark class, `sorted(self.context.markClasses.items())` = ascending order of the
ANCHOR KEY; `_makeMarkLookup` drops the lookups that come out empty; the shaper applies the lookups of a feature in order and
every MarkBasePos lookup that applies overwrites the attachment (`attach`: the last one wins).  So the attachment of a pair is
the one of the GREATEST matching key (Python / Lean string order = code-point order).
-/
namespace Ufo2ft.C06
open List

/-! ### generic list facts -/
theorem findSome?_filterMap' {α β γ} (f : α → Option β) (g : β → Option γ) (l : List α) :
    (l.filterMap f).findSome? g = l.findSome? (fun x => (f x).bind g) := by
  induction l with
  | nil => rfl
  | cons a t ih =>
    cases h : f a with
    | none => rw [filterMap_cons, h]; simp only [findSome?_cons, h, Option.bind_none]; exact ih
    | some b => rw [filterMap_cons, h]; simp only [findSome?_cons, h, Option.bind_some]; rw [ih]

/-- over an ascending list, "the last element that answers" is the answer of the greatest answering element -/
theorem findSome?_reverse_sorted {γ} {l : List String} {G : String → Option γ} {ks : String} {d : γ}
    (hs : l.Pairwise (fun a b => a ≤ b)) (hk : ks ∈ l) (hG : G ks = some d)
    (hmax : ∀ k ∈ l, (G k).isSome = true → k ≤ ks) : l.reverse.findSome? G = some d := by
  induction l with
  | nil => simp at hk
  | cons a t ih =>
    rw [reverse_cons, findSome?_append]
    obtain ⟨ha, ht⟩ := pairwise_cons.mp hs
    have hka : ks ∉ t → ks = a := by
      intro h
      rcases mem_cons.mp hk with h' | h'
      · exact h'
      · exact absurd h' h
    cases hf : t.reverse.findSome? G with
    | some d' =>
      rw [Option.some_or]
      by_cases hkt : ks ∈ t
      · have := ih ht hkt (fun k hk h => hmax k (mem_cons_of_mem _ hk) h)
        rw [hf] at this; exact this
      · obtain ⟨k, hkm, hkd⟩ := exists_of_findSome?_eq_some hf
        have hkt' : k ∈ t := mem_reverse.mp hkm
        have h1 : k ≤ ks := hmax k (mem_cons_of_mem _ hkt') (by rw [hkd]; rfl)
        have h2 : ks ≤ k := by rw [hka hkt]; exact ha k hkt'
        have hkk : k = ks := String.le_antisymm h1 h2
        rw [hkk, hG] at hkd
        exact hkd.symm
    | none =>
      rw [Option.none_or]
      have hkt : ks ∉ t := by
        intro h
        have := ih ht h (fun k hk h => hmax k (mem_cons_of_mem _ hk) h)
        rw [hf] at this; simp at this
      simp only [findSome?_cons, ← hka hkt, hG]

/-! ### one mark-to-base lookup -/
/-- the body of `_makeMarkLookup` for one group of (already class-filtered) mark-to-base attachments -/
def mkBaseLookup (feat : String) (inc : String → Bool) (mf : NA → Bool) (atts : List (String × List BAnchor)) :
    Option Lookup :=
  let es := (atts.filter (fun att => inc att.1)).filterMap (fun att =>
    let bm := att.2.filter (fun b => mf b.a)
    if bm.isEmpty then none else some (⟨att.1, [compAST bm]⟩ : Entry))
  if es.isEmpty then none else some ⟨feat, .base, es⟩

theorem baseLookups_eq (feat : String) (inc : String → Bool) (mf : NA → Bool)
    (grouped : List (List (String × List BAnchor))) :
    baseLookups feat inc mf grouped = grouped.filterMap (mkBaseLookup feat inc mf) := rfl

/-- the key → class map of `build` is injective -/
theorem kmOf_inj {i : Input} {al : AList} (w : ALwf i al) {k1 k2 c : String}
    (h1 : alookup k1 (kmOf i al) = some c) (h2 : alookup k2 (kmOf i al) = some c) : k1 = k2 := by
  have m1 := alookup_some_mem h1
  have m2 := alookup_some_mem h2
  rw [kmOf_eq w] at m1 m2
  obtain ⟨n1, hn1, e1⟩ := mem_map.mp m1
  obtain ⟨n2, hn2, e2⟩ := mem_map.mp m2
  simp only [Prod.mk.injEq] at e1 e2
  have : n1 = n2 := (makeClasses_meOf w).2 n1 hn1 n2 hn2 (by rw [e1.2, e2.2])
  rw [← e1.1, ← e2.1, this]

/-- the plain un-numbered pair of a given key on (b, m) is unique: anchor names are unique per glyph (`odSet`) and the key
    determines both names -/
theorem pair_unique {i : Input} {al : AList} (w : ALwf i al) {b m : String} {ab am ab' am' : NA}
    (p : Pair al b m ab am) (p' : Pair al b m ab' am') (hpl : ab.ctx = none) (hpl' : ab'.ctx = none)
    (hnum : ab.number = none) (hnum' : ab'.number = none) (hk : ab'.key = ab.key) : ab' = ab ∧ am' = am := by
  obtain ⟨as, has, ha⟩ := p.hb
  obtain ⟨as', has', ha'⟩ := p'.hb
  obtain ⟨ms, hms, hm⟩ := p.hm
  obtain ⟨ms', hms', hm'⟩ := p'.hm
  have e1 : as' = as := mem_unique_of_nodup_keys w.keys has' has
  have e2 : ms' = ms := mem_unique_of_nodup_keys w.keys hms' hms
  subst e1; subst e2
  constructor
  · have n1 := ((w.shape _ has _ ha hpl).base p.nb hnum).1
    have n2 := ((w.shape _ has _ ha' hpl').base p'.nb hnum').1
    have hn : ab'.name = ab.name := String.toList_inj.mp (by rw [n1, n2, hk])
    exact injOn_of_nodup_map (w.names _ has) ab' ha' ab ha hn
  · have n1 := markName_of_key (w.shape _ hms _ hm p.cm) p.mm
    have n2 := markName_of_key (w.shape _ hms _ hm' p'.cm) p'.mm
    have hn : am'.name = am.name := by rw [n1, n2, p.key, p'.key, hk]
    exact injOn_of_nodup_map (w.names _ hms) am' hm' am hm hn

/-- what the lookup of the mark class `cn` = class of key `k` does to (b, m): if it attaches, then through the plain
    un-numbered anchor of key `k` on `b` (which passes the feature's anchor filter) and `_k` on `m` -/
theorem mkBase_attach_some {i : Input} {al : AList} (w : ALwf i al) {feat : String} {inc : String → Bool} {mf : NA → Bool}
    {k cn : String} (hk : alookup k (kmOf i al) = some cn) {L : Lookup}
    (hL : mkBaseLookup feat inc mf ((baOf i al).filterMap (filterBase [cn])) = some L)
    {b m : String} {d : Int × Int} (h : attachLookup (build i al) L b m none = some d) :
    ∃ ab am, Pair al b m ab am ∧ ab.ctx = none ∧ ab.number = none ∧ mf ab = true ∧ ab.key = k ∧
      d = (otRound ab.x - otRound am.x, otRound ab.y - otRound am.y) := by
  obtain ⟨_, e, he, heg, cls, hcls, _, r, hr, hrm, comp, hcomp, t, ht, htc, hd⟩ := attachLookup_some h
  unfold mkBaseLookup at hL
  simp only at hL
  split at hL
  · simp at hL
  · simp only [Option.some.injEq] at hL; subst hL
    try simp only at he
    obtain ⟨att, hatt, hfe⟩ := mem_filterMap.mp he
    try simp only at hfe
    split at hfe
    · simp at hfe
    · simp only [Option.some.injEq] at hfe; subst hfe
      simp only [Option.getD_none, getElem?_cons_zero, Option.some.injEq] at hcomp; subst hcomp
      simp only at heg
      obtain ⟨x, hx, rfl⟩ := mem_compAST ht
      obtain ⟨hx1, hmfx⟩ := mem_filter.mp hx
      obtain ⟨att0, hatt0, hf'⟩ := mem_filterMap.mp (mem_filter.mp hatt).1
      obtain ⟨e1, e2, _⟩ := filterBase_some hf'
      rw [e2] at hx1
      obtain ⟨hx2, hxc⟩ := mem_filter.mp hx1
      have hxcn : x.cls = cn := by simpa using hxc
      obtain ⟨_, _, _, hbok⟩ := baseAtts_ok hatt0
      obtain ⟨hain, hclass, hnum, hplain⟩ := hbok x hx2
      rw [← e1, heg] at hain
      have hainb := anchorIn_of_prune hain
      -- the mark side
      have hcls' : cls ∈ clsOf i al := hcls
      obtain ⟨aM, ⟨asm, hasm, ham⟩, hmark, _, hcn, hgn, hrx, hry, hsM⟩ := clsOf_mem w hcls' hr
      rw [hrm] at hasm
      obtain ⟨hnm, _, n, hnmem, hkey, hcn2⟩ := classOf_kmOf w hclass
      have hn : n = aM.name := by
        have : cnOf i al n = cnOf i al aM.name := by rw [← hcn2, ← hcn, ← htc]
        exact (makeClasses_meOf w).2 n hnmem aM.name hgn this
      have hkeys : aM.key = x.a.key := by rw [← hkey, hn, keyOfMarkName_eq hsM hmark]
      have hctxM : aM.ctx = none := plain_of_us w hasm ham (hsM.mark hmark).1
      have hxk : x.a.key = k := kmOf_inj w (by rw [classOf_alookup hclass, hxcn]) hk
      refine ⟨x.a, aM, ⟨hainb, ⟨asm, hasm, ham⟩, hnm, hmark, hctxM, hkeys⟩, hplain, hnum, hmfx, hxk, ?_⟩
      rw [hd, hrx, hry]

/-- the lookup of the class of the pair's key exists and attaches the pair -/
theorem mkBase_attach_of_pair {i : Input} {al : AList} (w : ALwf i al) {b m : String} {ab am : NA} (p : Pair al b m ab am)
    (hok : markOK i m = true) (hpl : ab.ctx = none) (hnum : ab.number = none) (hnmg : b ∉ mgOf i al)
    (hbase : baseOK i b = true)
    (feat : String) (inc : String → Bool) (mf : NA → Bool) (hinc : inc b = true) (hmf : mf ab = true) :
    ∃ L, mkBaseLookup feat inc mf ((baOf i al).filterMap (filterBase [cnOf i al am.name])) = some L ∧
      (attachLookup (build i al) L b m none).isSome = true := by
  have hcl := pair_classOf w p hok
  obtain ⟨recs, hcls, r, hr, hrg⟩ := pair_class w p hok
  obtain ⟨as', has', hab'⟩ := pair_prune_b w p
  have hbm : (⟨ab, cnOf i al am.name⟩ : BAnchor) ∈ baseBM (kmOf i al) as' := mem_baseBM hab' hpl hnum hcl
  have hatt0 : (b, baseBM (kmOf i al) as') ∈ baOf i al := baseAtts_mem has' hnmg hbase (ne_nil_of_mem hbm)
  obtain ⟨grp, hgrpeq⟩ : ∃ grp, grp = [cnOf i al am.name] := ⟨_, rfl⟩
  rw [← hgrpeq]
  have hcn : cnOf i al am.name ∈ grp := by rw [hgrpeq]; simp
  have hfb : (⟨ab, cnOf i al am.name⟩ : BAnchor) ∈ (baseBM (kmOf i al) as').filter (fun x => grp.contains x.cls) :=
    mem_filter.mpr ⟨hbm, by simpa using hcn⟩
  have hfilter : filterBase grp (b, baseBM (kmOf i al) as') =
      some (b, (baseBM (kmOf i al) as').filter (fun x => grp.contains x.cls)) := by
    unfold filterBase
    simp only
    rw [if_neg]
    cases hh : (baseBM (kmOf i al) as').filter (fun x => grp.contains x.cls) with
    | nil => rw [hh] at hfb; simp at hfb
    | cons _ _ => simp
  have hatt : (b, (baseBM (kmOf i al) as').filter (fun x => grp.contains x.cls)) ∈ (baOf i al).filterMap (filterBase grp) :=
    mem_filterMap.mpr ⟨_, hatt0, hfilter⟩
  generalize hes : (((baOf i al).filterMap (filterBase grp)).filter (fun att => inc att.1)).filterMap (fun att =>
      let bm := att.2.filter (fun x => mf x.a)
      if bm.isEmpty then none else some (⟨att.1, [compAST bm]⟩ : Entry)) = es
  have hentry : ∀ e ∈ es, e.glyph = b →
      ∃ bm, e.comps = [compAST bm] ∧ (⟨ab, cnOf i al am.name⟩ : BAnchor) ∈ bm := by
    intro e he heg
    rw [← hes] at he
    obtain ⟨att', hatt', hfe⟩ := mem_filterMap.mp he
    simp only at hfe
    split at hfe
    · simp at hfe
    · simp only [Option.some.injEq] at hfe; subst hfe
      simp only at heg
      obtain ⟨att0', hatt0', hf'⟩ := mem_filterMap.mp (mem_filter.mp hatt').1
      obtain ⟨e1, e2, _⟩ := filterBase_some hf'
      obtain ⟨as'', has'', e3⟩ := baseAtts_eq hatt0'
      rw [← e1, heg] at has''
      have hu : as'' = as' := mem_unique_of_nodup_keys ((prune_keys_sublist al).nodup w.keys) has'' has'
      refine ⟨_, rfl, mem_filter.mpr ⟨?_, hmf⟩⟩
      rw [e2, e3, hu]; exact hfb
  have hused : ∀ e ∈ es, ∀ comp ∈ e.comps, ∀ t ∈ comp, t.1 ∈ grp := by
    intro e he comp hcomp t ht
    rw [← hes] at he
    obtain ⟨att', hatt', hfe⟩ := mem_filterMap.mp he
    simp only at hfe
    split at hfe
    · simp at hfe
    · simp only [Option.some.injEq] at hfe; subst hfe
      simp only [mem_singleton] at hcomp; subst hcomp
      obtain ⟨x, hx, rfl⟩ := mem_compAST ht
      obtain ⟨att0', _, hf'⟩ := mem_filterMap.mp (mem_filter.mp hatt').1
      obtain ⟨_, e2, _⟩ := filterBase_some hf'
      rw [e2] at hx
      simpa using (mem_filter.mp (mem_filter.mp hx).1).2
  have he0 : (⟨b, [compAST (((baseBM (kmOf i al) as').filter (fun x => grp.contains x.cls)).filter (fun x => mf x.a))]⟩ : Entry) ∈ es := by
    rw [← hes]
    refine mem_filterMap.mpr ⟨_, mem_filter.mpr ⟨hatt, hinc⟩, ?_⟩
    simp only
    rw [if_neg]
    have : (⟨ab, cnOf i al am.name⟩ : BAnchor) ∈ ((baseBM (kmOf i al) as').filter (fun x => grp.contains x.cls)).filter (fun x => mf x.a) :=
      mem_filter.mpr ⟨hfb, hmf⟩
    cases hh : ((baseBM (kmOf i al) as').filter (fun x => grp.contains x.cls)).filter (fun x => mf x.a) with
    | nil => rw [hh] at this; simp at this
    | cons _ _ => simp
  have hL : mkBaseLookup feat inc mf ((baOf i al).filterMap (filterBase grp)) = some (⟨feat, .base, es⟩ : Lookup) := by
    unfold mkBaseLookup
    simp only
    rw [hes, if_neg]
    cases es with
    | nil => simp at he0
    | cons _ _ => simp
  refine ⟨_, hL, attachLookup_isSome rfl ⟨_, he0, rfl⟩ ?_ ?_⟩
  · refine ⟨(cnOf i al am.name, recs), hcls, ?_, r, hr, hrg⟩
    obtain ⟨bm, hc, hx⟩ := hentry _ he0 rfl
    exact mem_usedClasses.mpr ⟨_, he0, compAST bm, by rw [hc]; simp, _, mem_compAST_of hx, rfl⟩
  · intro e he heg cls hcls' hu hm
    obtain ⟨bm, hc, hx⟩ := hentry e he heg
    obtain ⟨e', he', comp', hcomp', t', ht', htc'⟩ := mem_usedClasses.mp hu
    have hin : cls.1 ∈ grp := by rw [← htc']; exact hused e' he' comp' hcomp' t' ht'
    have hsame : cls.1 = cnOf i al am.name := by rw [hgrpeq] at hin; simpa using hin
    refine ⟨compAST bm, by rw [hc]; rfl, _, mem_compAST_of hx, hsame.symm⟩

/-! ### the lookups of one feature in the default mode -/
/-- the lookup `_makeMarkLookup` makes for the anchor key `k` (none when the key has no class or the lookup comes out empty) -/
def baseLookupOfKey (i : Input) (al : AList) (feat : String) (inc : String → Bool) (mf : NA → Bool) (k : String) :
    Option Lookup :=
  (alookup k (kmOf i al)).bind (fun cn => mkBaseLookup feat inc mf ((baOf i al).filterMap (filterBase [cn])))

/-- default mode: the mark-to-base lookups of a feature are the lookups of the anchor keys in ascending key order -/
theorem baseLookups_default {i : Input} {al : AList} (hg : i.group = false) (feat : String) (inc : String → Bool)
    (mf : NA → Bool) :
    baseLookups feat inc mf (gbOf i al) =
      (sortStr ((kmOf i al).map (·.1))).filterMap (baseLookupOfKey i al feat inc mf) := by
  have hgb : gbOf i al = (singleGroups (kmOf i al)).map (fun grp => (baOf i al).filterMap (filterBase grp)) := by
    unfold gbOf bgroupsOf; simp [hg]
  rw [baseLookups_eq, hgb]
  unfold singleGroups
  rw [filterMap_map, filterMap_filterMap]
  congr 1
  funext k
  unfold baseLookupOfKey
  cases alookup k (kmOf i al) <;> rfl

/- FULL STATEMENT (not proved in full): for every query (b, m, c) with several matching anchor keys, `attach P P.lookups b m c`
   (P = the model's program, all features in the order abvm, blwm, mark, mkmk) is base anchor − mark anchor of the pair selected by:
   the LAST feature whose glyph/anchor filters let a matching pair through; within it, in the default mode the GREATEST matching
   key (mark-to-base, mark-to-ligature per component, and mark-to-mark alike: one lookup per key in ascending key order), in
   groupMarkClasses mode the matching class of the LAST colour group in `groupLe` order (groups holding MC_bottom last, then
   MC_top, then lexicographic); the anchors being the last source anchors of those names on each glyph (`odSet`).
   PROVED below: the mark-to-base lookups of any ONE feature in the default mode, stated on the anchor lists `al` =
   `_getAnchorLists` (a function of the input alone: `anchorLists i = .ok al`), and all lookups of the `mark` feature
   (C06_candidate_order_mark_partial); mark-to-ligature lookups per component in C06OrderLig.lean, mark-to-mark lookups in
   C06OrderMkmk.lean.  MISSING: groupMarkClasses mode (the winner then depends on the greedy colouring), the composition across
   features / kinds of `P.lookups`, and the restatement on source anchors. -/
/-- **C06_candidate_order_base_partial** (mark-to-base, default mode, one feature): when several anchor keys match the pair (b, m), the
    mark-to-base lookups of a feature (glyph filter `inc`, anchor filter `mf`: abvm = above marks, blwm = below marks, mark = all)
    attach `m` through the pair whose key is the GREATEST among the matching keys that pass the anchor filter — at exactly
    base anchor − mark anchor of that pair. -/
theorem C06_candidate_order_base_partial {i : Input} {al : AList} (w : ALwf i al) (hg : i.group = false) {b m : String} {ab am : NA}
    (p : Pair al b m ab am) (hok : markOK i m = true) (hpl : ab.ctx = none) (hnum : ab.number = none)
    (hnmg : b ∉ mgOf i al) (hbase : baseOK i b = true)
    (feat : String) (inc : String → Bool) (mf : NA → Bool) (hinc : inc b = true) (hmf : mf ab = true)
    (hmax : ∀ ab' am', Pair al b m ab' am' → ab'.ctx = none → ab'.number = none → mf ab' = true → ab'.key ≤ ab.key) :
    attach (build i al) (baseLookups feat inc mf (gbOf i al)) b m none =
      some (otRound ab.x - otRound am.x, otRound ab.y - otRound am.y) := by
  unfold attach
  rw [baseLookups_default hg, ← filterMap_reverse, findSome?_filterMap']
  have hkm : alookup ab.key (kmOf i al) = some (cnOf i al am.name) := classOf_alookup (pair_classOf w p hok)
  apply findSome?_reverse_sorted (sortStr_sorted _) (ks := ab.key)
  · exact mem_sortStr.mpr (mem_map.mpr ⟨_, alookup_some_mem hkm, rfl⟩)
  · obtain ⟨L, hL, hs⟩ := mkBase_attach_of_pair w p hok hpl hnum hnmg hbase feat inc mf hinc hmf
    have hF : baseLookupOfKey i al feat inc mf ab.key = some L := by
      unfold baseLookupOfKey; rw [hkm]; exact hL
    rw [hF, Option.bind_some]
    cases hd : attachLookup (build i al) L b m none with
    | none => rw [hd] at hs; simp at hs
    | some d =>
      obtain ⟨ab', am', p', hpl', hnum', _, hk', hd'⟩ := mkBase_attach_some w hkm hL hd
      obtain ⟨e1, e2⟩ := pair_unique w p p' hpl hpl' hnum hnum' hk'
      rw [hd', e1, e2]
  · intro k _ hsome
    cases hG : (baseLookupOfKey i al feat inc mf k).bind (fun L => attachLookup (build i al) L b m none) with
    | none => rw [hG] at hsome; simp at hsome
    | some d =>
      obtain ⟨L, hF, hd⟩ := Option.bind_eq_some_iff.mp hG
      unfold baseLookupOfKey at hF
      obtain ⟨cn, hcn, hL⟩ := Option.bind_eq_some_iff.mp hF
      obtain ⟨ab', am', p', hpl', hnum', hmf', hk', _⟩ := mkBase_attach_some w hcn hL hd
      rw [← hk']
      exact hmax ab' am' p' hpl' hnum' hmf'

/-! ### the whole `mark` feature (mark-to-base and mark-to-ligature lookups) -/
theorem attach_append_right_none {P : Program} {l1 l2 : List Lookup} {b m : String} {c : Option Nat}
    (h : ∀ L ∈ l2, attachLookup P L b m c = none) : attach P (l1 ++ l2) b m c = attach P l1 b m c := by
  unfold attach
  rw [reverse_append, findSome?_append]
  have : l2.reverse.findSome? (fun L => attachLookup P L b m c) = none :=
    findSome?_eq_none_iff.mpr (fun L hL => h L (mem_reverse.mp hL))
  rw [this, Option.none_or]

theorem ligLookups_kind {feat : String} {inc : String → Bool} {mf : NA → Bool}
    {grouped : List (List (String × List (List BAnchor)))} {L : Lookup} (h : L ∈ ligLookups feat inc mf grouped) :
    L.kind = .liga := by
  obtain ⟨atts, _, hf⟩ := mem_filterMap.mp h
  try simp only at hf
  split at hf
  · simp at hf
  · simp only [Option.some.injEq] at hf; subst hf; rfl

theorem attachLookup_liga_none {P : Program} {L : Lookup} {b m : String} (h : L.kind = .liga) :
    attachLookup P L b m none = none := by
  unfold attachLookup; rw [h]; simp [kindMatches]

/-- **C06_candidate_order_mark_partial**: the same for ALL lookups of the generated `mark` feature (mark-to-base followed by
    mark-to-ligature lookups; the latter never answer a query without component index): a base glyph of the not-abvm set gets
    the mark attached through the pair of the greatest matching key. -/
theorem C06_candidate_order_mark_partial {i : Input} {al : AList} (w : ALwf i al) (hg : i.group = false) {b m : String}
    {ab am : NA} (p : Pair al b m ab am) (hok : markOK i m = true) (hpl : ab.ctx = none) (hnum : ab.number = none)
    (hnmg : b ∉ mgOf i al) (hbase : baseOK i b = true) (hinc : isNotAbvmG i b = true)
    (hmax : ∀ ab' am', Pair al b m ab' am' → ab'.ctx = none → ab'.number = none → ab'.key ≤ ab.key) :
    attach (build i al) (markLOf i al) b m none = some (otRound ab.x - otRound am.x, otRound ab.y - otRound am.y) := by
  unfold markLOf
  rw [attach_append_right_none (fun L hL => attachLookup_liga_none (ligLookups_kind hL))]
  exact C06_candidate_order_base_partial w hg p hok hpl hnum hnmg hbase "mark" (isNotAbvmG i) mfAll hinc rfl
    (fun ab' am' p' h1 h2 _ => hmax ab' am' p' h1 h2)

/-! ### non-vacuity: two matching keys -/
/-- base `a` with `top` (100, 500) and `top.alt` (150, 560); mark `acutecomb` with `_top` (10, 20) and `_top.alt` (30, 40):
    both keys match the pair (a, acutecomb); candidates are (90, 480) through `top` and (120, 520) through `top.alt` -/
def orderFont : Input :=
  { glyphs := [⟨"a", [{ name := "top", x := 100, y := 500 }, { name := "top.alt", x := 150, y := 560 }]⟩,
               ⟨"acutecomb", [{ name := "_top", x := 10, y := 20 }, { name := "_top.alt", x := 30, y := 40 }]⟩],
    gdef := none, quant := 1, group := false, abvm := [], notAbvm := ["a", "acutecomb"] }

/-- its anchor lists (`_getAnchorLists`) -/
def orderAL : AList :=
  [("a", [⟨"top", 100, 500, false, "top", none, none⟩, ⟨"top.alt", 150, 560, false, "top.alt", none, none⟩]),
   ("acutecomb", [⟨"_top", 10, 20, true, "top", none, none⟩, ⟨"_top.alt", 30, 40, true, "top.alt", none, none⟩])]

theorem orderFont_al : anchorLists orderFont = .ok orderAL := by
  have h : (match anchorLists orderFont with | .ok al => decide (al = orderAL) | .error _ => false) = true := by
    decide +kernel
  cases h' : anchorLists orderFont with
  | ok al => rw [h'] at h; simpa using h
  | error e => rw [h'] at h; simp at h

/-- the hypotheses of C06_candidate_order_base_partial are met by a pair with TWO matching keys, and the theorem picks the greater key `top.alt`:
    the mark lookups attach at (150 − 30, 560 − 40), not at the `top` candidate (90, 480) -/
example : attach (build orderFont orderAL) (baseLookups "mark" (isNotAbvmG orderFont) mfAll (gbOf orderFont orderAL))
    "a" "acutecomb" none = some (120, 520) := by
  have w : ALwf orderFont orderAL := alwf_of_ok (by decide) orderFont_al
  have p : Pair orderAL "a" "acutecomb" ⟨"top.alt", 150, 560, false, "top.alt", none, none⟩
      ⟨"_top.alt", 30, 40, true, "top.alt", none, none⟩ :=
    ⟨⟨_, List.Mem.head _, List.Mem.tail _ (List.Mem.head _)⟩,
     ⟨_, List.Mem.tail _ (List.Mem.head _), List.Mem.tail _ (List.Mem.head _)⟩, rfl, rfl, rfl, rfl⟩
  have h := C06_candidate_order_base_partial w rfl p (by decide) rfl rfl (by decide +kernel) (by decide) "mark" (isNotAbvmG orderFont) mfAll
    (by decide) rfl (by
      intro ab' am' p' _ _ _
      obtain ⟨as, has, ha⟩ := p'.hb
      simp [orderAL] at has
      subst has
      simp at ha
      rcases ha with rfl | rfl <;> decide)
  rw [h]
  decide +kernel

/-- … and so do all lookups of the `mark` feature (C06_candidate_order_mark_partial) -/
example : attach (build orderFont orderAL) (markLOf orderFont orderAL) "a" "acutecomb" none = some (120, 520) := by
  have w : ALwf orderFont orderAL := alwf_of_ok (by decide) orderFont_al
  have p : Pair orderAL "a" "acutecomb" ⟨"top.alt", 150, 560, false, "top.alt", none, none⟩
      ⟨"_top.alt", 30, 40, true, "top.alt", none, none⟩ :=
    ⟨⟨_, List.Mem.head _, List.Mem.tail _ (List.Mem.head _)⟩,
     ⟨_, List.Mem.tail _ (List.Mem.head _), List.Mem.tail _ (List.Mem.head _)⟩, rfl, rfl, rfl, rfl⟩
  have h := C06_candidate_order_mark_partial w rfl p (by decide) rfl rfl (by decide +kernel) (by decide) (by decide) (by
      intro ab' am' p' _ _
      obtain ⟨as, has, ha⟩ := p'.hb
      simp [orderAL] at has
      subst has
      simp at ha
      rcases ha with rfl | rfl <;> decide)
  rw [h]
  decide +kernel

end Ufo2ft.C06
