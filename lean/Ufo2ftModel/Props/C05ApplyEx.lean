import Ufo2ftModel.Props.C05Apply
/-! C05 end-to-end: non-vacuity.  The hypotheses of `C05_end_to_end` are met by concrete non-trivial inputs:
    * a Latin font with a class pair, a glyph-class exception of it and a glyph-glyph exception of the exception (plus an entry
      for a glyph that is not in the font) — all three precedence levels and the "no kerning" case go through the theorem;
    * a Hebrew font: the right-to-left value record (advance and placement).
    (The kernel cannot run the well-founded `List.mergeSort`; the inputs are listed in sorted order and the sorts are
    short-cut by `mergeSort_eq_G`.) -/
namespace Ufo2ft.C05
open Ufo2ft List

def sortedBy {α : Type} (le : α → α → Bool) : List α → Bool
  | [] => true
  | a :: l => l.all (fun b => le a b) && sortedBy le l

theorem sortedBy_pairwise {α : Type} (le : α → α → Bool) : ∀ l : List α, sortedBy le l = true → l.Pairwise (fun a b => le a b = true)
  | [], _ => Pairwise.nil
  | a :: l, h => by
    simp only [sortedBy, Bool.and_eq_true, all_eq_true] at h
    exact pairwise_cons.mpr ⟨h.1, sortedBy_pairwise le l h.2⟩

/-- `mergeSort`, short-cut on input that is already sorted -/
def msortG {α : Type} (le : α → α → Bool) (l : List α) : List α := if sortedBy le l then l else l.mergeSort le

theorem mergeSort_eq_G {α : Type} (le : α → α → Bool) (l : List α) : l.mergeSort le = msortG le l := by
  unfold msortG
  split
  · rename_i h; exact mergeSort_of_pairwise (sortedBy_pairwise le l h)
  · rfl

/-! ### a Latin font: class pair, exception, exception of the exception -/

def exGsS : List String := ["A", "B", "V", "W"]
def exGroupsS : List (String × List String) := [("public.kern1.A", ["A", "B"]), ("public.kern2.V", ["V", "W", "ghost"])]
def exKerningS : List (String × String × Q) :=
  [("A", "V", 5), ("A", "public.kern2.V", -7), ("public.kern1.A", "public.kern2.V", -10), ("ghost", "V", 3)]
def exCtxS : Ctx := { glyphScripts := [("A", ["Latn"]), ("B", ["Latn"]), ("V", ["Latn"]), ("W", ["Latn"])],
                      scriptDir := [("Latn", "LTR"), ("Zyyy", "Auto")], bidiR := [], bidiL := ["A", "B", "V", "W"] }
def exRegS : RegCtx := { dist := [], otTags := [("Latn", ["latn"])], langs := [] }

def exP1 : KPair := ⟨.glyph "A", .glyph "V", quantize 5 1⟩
def exP2 : KPair := ⟨.glyph "A", .cls ["V", "W"], quantize (-7) 1⟩
def exP3 : KPair := ⟨.cls ["A", "B"], .cls ["V", "W"], quantize (-10) 1⟩

theorem exPairs : getKerningPairs exGsS (getKerningGroups exGsS exGroupsS) 1 exKerningS = [exP1, exP2, exP3] := by
  simp only [getKerningGroups, addGroup, sortStr, mergeSort_eq_G]
  decide +kernel

theorem exSplit : splitKerning exCtxS [exP1, exP2, exP3] = [(["Latn"], [exP1, exP2, exP3])] := by
  simp only [splitKerning, mergeScripts, partitionByScript, sideDirections, sortPairs, sortStr, mergeSort_eq_G]
  decide +kernel

theorem exNames : namesOK exCtxS [exP1, exP2, exP3] none false = true := by
  simp only [namesOK, pairLists, Bool.false_eq_true, if_false, flatMap_cons, flatMap_nil, append_nil, exSplit, map_cons, map_nil]
  simp

theorem exDet (g1 g2 : String) :
    detPair exGsS exGroupsS exKerningS 1 g1 g2 = [exP1, exP2, exP3].find? (fun p => p.hits g1 g2) := by
  simp only [detPair, exPairs, sortPairs, mergeSort_eq_G]
  have : msortG (fun a b => !pairLt b a) [exP1, exP2, exP3] = [exP1, exP2, exP3] := by decide +kernel
  rw [this]

theorem exPart (p : KPair) (hp : p = exP1 ∨ p = exP2 ∨ p = exP3) : partitionByScript exCtxS p = [(["Latn"], p)] := by
  rcases hp with rfl | rfl | rfl <;>
  · simp only [partitionByScript, sideDirections, sortStr, mergeSort_eq_G]
    decide +kernel

theorem exClean (g1 g2 : String) (h : g1 ∈ exGsS ∧ g2 ∈ exGsS) :
    cellClean exCtxS exGsS exGroupsS exKerningS 1 none false "Latn" g1 g2 = true := by
  have hd : exCtxS.dir "Latn" = "LTR" := by decide +kernel
  have hL : exCtxS.bidiR = [] := rfl
  unfold cellClean
  rw [exDet]
  cases hf : [exP1, exP2, exP3].find? (fun p => p.hits g1 g2) with
  | none => rfl
  | some p =>
    have hp : p = exP1 ∨ p = exP2 ∨ p = exP3 := by
      have := mem_of_find?_eq_some hf
      simpa using this
    simp only [cellsOf, pairLists, Bool.false_eq_true, if_false, flatMap_cons, flatMap_nil, append_nil, exPart p hp, hd, hL]
    simp

theorem exHyp (g1 g2 : String) (h : g1 ∈ exGsS ∧ g2 ∈ exGsS) :
    e2eHyp exCtxS exRegS exGsS exGroupsS exKerningS 1 none false true false "Latn" "latn" g1 g2 = true := by
  have hc := exClean g1 g2 h
  have h1 : exGsS.contains g1 = true := by simpa using h.1
  have h2 : exGsS.contains g2 = true := by simpa using h.2
  have i1 : ∀ g, g ∈ exGsS → exCtxS.inScript "Latn" g = true := by decide +kernel
  have f1 : ∀ g1 ∈ exGsS, ∀ g2 ∈ exGsS, featOn exCtxS exRegS true false "Latn" g1 g2 = true := by decide +kernel
  simp only [e2eHyp, hc, h1, h2, i1 g1 h.1, i1 g2 h.2, f1 g1 h.1 g2 h.2, Bool.and_true]
  decide +kernel

/-- non-vacuity of `C05_end_to_end`: glyph-glyph exception, glyph-class exception, class pair, and a pair without kerning -/
example :
    applyKern (program exCtxS exRegS exGsS exGroupsS exKerningS 1 none false true false) "latn" "A" "V" = (quantize 5 1, 0) ∧
    applyKern (program exCtxS exRegS exGsS exGroupsS exKerningS 1 none false true false) "latn" "A" "W" = (quantize (-7) 1, 0) ∧
    applyKern (program exCtxS exRegS exGsS exGroupsS exKerningS 1 none false true false) "latn" "B" "W" = (quantize (-10) 1, 0) ∧
    applyKern (program exCtxS exRegS exGsS exGroupsS exKerningS 1 none false true false) "latn" "V" "A" = (quantize 0 1, 0) := by
  have hd : (exCtxS.dir "Latn" == "RTL") = false := by decide +kernel
  have a := C05_end_to_end_bundled exCtxS exRegS exGsS exGroupsS exKerningS 1 none false true false "Latn" "latn" "A" "V"
    (exHyp "A" "V" (by decide))
  have b := C05_end_to_end_bundled exCtxS exRegS exGsS exGroupsS exKerningS 1 none false true false "Latn" "latn" "A" "W"
    (exHyp "A" "W" (by decide))
  have c := C05_end_to_end_bundled exCtxS exRegS exGsS exGroupsS exKerningS 1 none false true false "Latn" "latn" "B" "W"
    (exHyp "B" "W" (by decide))
  have d := C05_end_to_end_bundled exCtxS exRegS exGsS exGroupsS exKerningS 1 none false true false "Latn" "latn" "V" "A"
    (exHyp "V" "A" (by decide))
  have ea : ufoKern exGroupsS exKerningS "A" "V" = 5 := by decide +kernel
  have eb : ufoKern exGroupsS exKerningS "A" "W" = -7 := by decide +kernel
  have ec : ufoKern exGroupsS exKerningS "B" "W" = -10 := by decide +kernel
  have ed : ufoKern exGroupsS exKerningS "V" "A" = 0 := by decide +kernel
  simp only [e2eExpected, hd, Bool.false_eq_true, if_false, ea] at a
  simp only [e2eExpected, hd, Bool.false_eq_true, if_false, eb] at b
  simp only [e2eExpected, hd, Bool.false_eq_true, if_false, ec] at c
  simp only [e2eExpected, hd, Bool.false_eq_true, if_false, ed] at d
  exact ⟨a, b, c, d⟩

/-! ### a Hebrew font: right-to-left value record -/

def exGsH : List String := ["alef-hb", "bet-hb"]
def exKerningH : List (String × String × Q) := [("alef-hb", "bet-hb", -20)]
def exCtxH : Ctx := { glyphScripts := [("alef-hb", ["Hebr"]), ("bet-hb", ["Hebr"])],
                      scriptDir := [("Hebr", "RTL"), ("Zyyy", "Auto")], bidiR := ["alef-hb", "bet-hb"], bidiL := [] }
def exRegH : RegCtx := { dist := [], otTags := [("Hebr", ["hebr"])], langs := [] }
def exPH : KPair := ⟨.glyph "alef-hb", .glyph "bet-hb", quantize (-20) 1⟩

theorem exPairsH : getKerningPairs exGsH (getKerningGroups exGsH []) 1 exKerningH = [exPH] := by decide +kernel

theorem exPartH : partitionByScript exCtxH exPH = [(["Hebr"], exPH)] := by
  simp only [partitionByScript, sideDirections, sortStr, mergeSort_eq_G]
  decide +kernel

theorem exSplitH : splitKerning exCtxH [exPH] = [(["Hebr"], [exPH])] := by
  simp only [splitKerning, mergeScripts, partitionByScript, sideDirections, sortPairs, sortStr, mergeSort_eq_G]
  decide +kernel

theorem exHypH : e2eHyp exCtxH exRegH exGsH [] exKerningH 1 none false true false "Hebr" "hebr" "alef-hb" "bet-hb" = true := by
  have hn : namesOK exCtxH [exPH] none false = true := by
    simp only [namesOK, pairLists, Bool.false_eq_true, if_false, flatMap_cons, flatMap_nil, append_nil, exSplitH, map_cons, map_nil]
    simp
  have hdet : detPair exGsH [] exKerningH 1 "alef-hb" "bet-hb" = some exPH := by
    simp only [detPair, exPairsH, sortPairs, mergeSort_eq_G]
    decide +kernel
  have hc : cellClean exCtxH exGsH [] exKerningH 1 none false "Hebr" "alef-hb" "bet-hb" = true := by
    unfold cellClean
    rw [hdet]
    simp only [cellsOf, pairLists, Bool.false_eq_true, if_false, flatMap_cons, flatMap_nil, append_nil, exPartH]
    decide +kernel
  simp only [e2eHyp, hc, Bool.and_true]
  decide +kernel

/-- non-vacuity of `C05_end_to_end`, right-to-left: advance and placement -/
example : applyKern (program exCtxH exRegH exGsH [] exKerningH 1 none false true false) "hebr" "alef-hb" "bet-hb" =
    (quantize (-20) 1, quantize (-20) 1) := by
  have a := C05_end_to_end_bundled exCtxH exRegH exGsH [] exKerningH 1 none false true false "Hebr" "hebr" "alef-hb" "bet-hb" exHypH
  have hd : (exCtxH.dir "Hebr" == "RTL") = true := by decide +kernel
  have ea : ufoKern [] exKerningH "alef-hb" "bet-hb" = -20 := by decide +kernel
  simp only [e2eExpected, hd, if_true, ea] at a
  exact a

/-- non-vacuity of `C05_end_to_end_lang`: Turkish declared for `latn`; another feature declares `cyrl` and a `DFLT`/`TRK ` LangSys -/
def exRegL : RegCtx := { dist := [], otTags := [("Latn", ["latn"])], langs := [("latn", ["dflt", "TRK "])] }

example :
    applyKernLang { tags := ["cyrl"], langSys := [("DFLT", "TRK ")] }
      (program exCtxS exRegL exGsS exGroupsS exKerningS 1 none false true false) "latn" "TRK " "A" "W" = (quantize (-7) 1, 0) := by
  have hd : (exCtxS.dir "Latn" == "RTL") = false := by decide +kernel
  have hh : e2eHyp exCtxS exRegL exGsS exGroupsS exKerningS 1 none false true false "Latn" "latn" "A" "W" = true := by
    have := exHyp "A" "W" (by decide)
    simp only [e2eHyp, Bool.and_eq_true] at this ⊢
    obtain ⟨⟨⟨⟨⟨⟨⟨⟨⟨⟨a1, a2⟩, a3⟩, a4⟩, a5⟩, _⟩, a7⟩, a8⟩, _⟩, a10⟩, a11⟩ := this
    exact ⟨⟨⟨⟨⟨⟨⟨⟨⟨⟨a1, a2⟩, a3⟩, a4⟩, a5⟩, by decide +kernel⟩, a7⟩, a8⟩, by decide +kernel⟩, a10⟩, a11⟩
  have a := C05_end_to_end_lang_bundled { tags := ["cyrl"], langSys := [("DFLT", "TRK ")] } exCtxS exRegL exGsS exGroupsS exKerningS 1
    none false true false "Latn" "latn" "TRK " "A" "W" hh (by decide +kernel)
  have eb : ufoKern exGroupsS exKerningS "A" "W" = -7 := by decide +kernel
  simp only [e2eExpected, hd, Bool.false_eq_true, if_false, eb] at a
  exact a

end Ufo2ft.C05
