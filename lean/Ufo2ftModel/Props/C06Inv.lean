import Ufo2ftModel.Props.C06Pipe
/-! C06, part 5: the invariants of a well-formed anchor list; the closed form of the mark classes of `build`. -/
namespace Ufo2ft.C06
open List

/-- what `_getAnchorLists` guarantees on a well-formed input -/
structure ALwf (i : Input) (al : AList) : Prop where
  pre : i.pre = []
  keys : (al.map (·.1)).Nodup
  names : ∀ e ∈ al, (e.2.map (·.name)).Nodup
  shape : ∀ e ∈ al, ∀ a ∈ e.2, a.ctx = none → NAShape a
  cshape : ∀ e ∈ al, ∀ a ∈ e.2, ∀ c, a.ctx = some c →
    (a.name.toList.head? == some '*') = true ∧ NAShapeOn (effName a.name.toList) a
  nostar : ∀ e ∈ al, ∀ a ∈ e.2, a.ctx = none → (a.name.toList.head? == some '*') = false
  src : ∀ e ∈ al, ∃ sg, findGlyph i e.1 = some sg ∧ included i e.1 = true ∧
    ∀ a ∈ e.2, ∃ s ∈ sg.anchors, s.name = a.name ∧ a.x = quantize i.quant s.x ∧ a.y = quantize i.quant s.y ∧
      ∀ c, a.ctx = some c → s.lib = some c

theorem wf_pre {i : Input} (h : wf0 i = true) : i.pre = [] := by
  simp only [wf0, Bool.and_eq_true] at h
  simpa using h.1.1

theorem wf_iff' (i : Input) : wf0 i = true ↔ i.pre = [] ∧
    (i.glyphs.map (·.name)).Nodup ∧
    (∀ g ∈ i.glyphs, g.name ∈ i.abvm ∨ g.name ∈ i.notAbvm) := by
  simp only [wf0, Bool.and_eq_true, all_eq_true, Bool.or_eq_true, decide_eq_true_eq, contains_iff_mem, and_assoc, isEmpty_iff]

theorem wf_iff (i : Input) : wf0 i = true →
    (i.glyphs.map (·.name)).Nodup ∧
    (∀ g ∈ i.glyphs, g.name ∈ i.abvm ∨ g.name ∈ i.notAbvm) := fun h => ((wf_iff' i).mp h).2

theorem findGlyph_of_mem {i : Input} (hn : (i.glyphs.map (·.name)).Nodup) {sg : SrcGlyph} (h : sg ∈ i.glyphs) :
    findGlyph i sg.name = some sg := by
  apply find?_eq_of_nodup h (by simp)
  intro x hx hxn
  exact injOn_of_nodup_map hn x hx sg h (by simpa using hxn)

theorem findGlyph_some {i : Input} {g : String} {sg : SrcGlyph} (h : findGlyph i g = some sg) : sg ∈ i.glyphs ∧ sg.name = g :=
  ⟨mem_of_find?_eq_some h, by simpa using find?_some h⟩

theorem wf_wf0 {i : Input} (h : wf i = true) : wf0 i = true := by
  simp only [wf, Bool.and_eq_true] at h; exact h.1

theorem wf_nolib {i : Input} (h : wf i = true) : ∀ g ∈ i.glyphs, ∀ a ∈ g.anchors, a.lib = none := by
  simp only [wf, Bool.and_eq_true, all_eq_true, Option.isNone_iff_eq_none] at h
  exact h.2

theorem alwf_of_ok {i : Input} {al : AList} (hwf : wf0 i = true) (h : anchorLists i = .ok al) : ALwf i al := by
  obtain ⟨hnd, _⟩ := wf_iff i hwf
  obtain ⟨h1, _, h3⟩ := anchorLists_ok h
  refine ⟨wf_pre hwf, h3.nodup hnd, ?_, ?_, ?_, ?_, ?_⟩
  · intro e he
    obtain ⟨_, sg, _, _, _, hg⟩ := h1 e he
    exact (glyphAnchors_ok hg).2.2.1
  · intro e he a ha hc
    obtain ⟨_, sg, _, _, _, hg⟩ := h1 e he
    obtain ⟨s, _, hs⟩ := (glyphAnchors_ok hg).1 a ha
    exact namedAnchor_plain_shape hs hc
  · intro e he a ha c hc
    obtain ⟨_, sg, _, _, _, hg⟩ := h1 e he
    obtain ⟨s, _, hs⟩ := (glyphAnchors_ok hg).1 a ha
    obtain ⟨_, _, _, sh, _, h2⟩ := namedAnchor_some hs
    exact ⟨(h2 c hc).1, sh⟩
  · intro e he a ha hc
    obtain ⟨_, sg, _, _, _, hg⟩ := h1 e he
    obtain ⟨s, _, hs⟩ := (glyphAnchors_ok hg).1 a ha
    exact (namedAnchor_some hs).2.2.2.2.1 hc
  · intro e he
    obtain ⟨_, sg, hsg, hname, hinc, hg⟩ := h1 e he
    refine ⟨sg, by rw [← hname]; exact findGlyph_of_mem hnd hsg, hinc, ?_⟩
    intro a ha
    obtain ⟨s, hs, hsa⟩ := (glyphAnchors_ok hg).1 a ha
    obtain ⟨e1, e2, e3, _, _, e4⟩ := namedAnchor_some hsa
    exact ⟨s, hs, e1.symm, e2, e3, fun c hc => (e4 c hc).2⟩

/-! ### the name decides whether an anchor is a mark anchor, and its key -/
theorem mark_of_same_nm {nm : List Char} {a a' : NA} (ha : NAShapeOn nm a) (ha' : NAShapeOn nm a')
    (hm : a'.isMark = true) : a.isMark = true ∧ a.key = a'.key := by
  obtain ⟨e1, pk, _⟩ := ha'.mark hm
  obtain ⟨hka, _⟩ := (plainKey_iff _).mp pk
  have hmark : a.isMark = true := by
    cases hmk : a.isMark with
    | true => rfl
    | false =>
      exfalso
      cases hnum : a.number with
      | none =>
        obtain ⟨e2, ⟨c, r, e3, hc⟩⟩ := ha.base hmk hnum
        rw [e2, e3] at e1
        simp only [cons.injEq] at e1
        exact alpha_ne_us c hc e1.1
      | some n =>
        obtain ⟨_, hl, hk⟩ := ha.lig hmk n hnum
        obtain ⟨ds, ⟨hne, hd, e2⟩, _⟩ := sepDigits_of_isLigName hl
        rcases hk with hk | ⟨c, r, e3, hc⟩
        · rw [hk] at e2
          rw [e2] at e1
          simp only [nil_append, cons.injEq, true_and] at e1
          obtain ⟨c, r, e3, hc⟩ := hka
          rw [← e1] at e3
          have := hd c (by rw [e3]; simp)
          rw [alpha_not_digit c hc] at this; simp at this
        · rw [e2, e3] at e1
          simp only [cons_append, cons.injEq] at e1
          exact alpha_ne_us c hc e1.1
  refine ⟨hmark, ?_⟩
  obtain ⟨e2, _, _⟩ := ha.mark hmark
  rw [e2] at e1
  simp only [cons.injEq, true_and] at e1
  exact String.toList_inj.mp e1

theorem mark_of_same_name {a a' : NA} (ha : NAShape a) (ha' : NAShape a') (hn : a.name = a'.name)
    (hm : a'.isMark = true) : a.isMark = true ∧ a.key = a'.key := by
  unfold NAShape at ha ha'
  rw [← hn] at ha'
  exact mark_of_same_nm ha ha' hm

/-- the key of the mark anchor named `n` -/
def keyOfMarkName (n : String) : String := String.ofList (n.toList.drop 1)

theorem keyOfMarkName_eq {a : NA} (ha : NAShape a) (hm : a.isMark = true) : keyOfMarkName a.name = a.key := by
  obtain ⟨e, _, _⟩ := ha.mark hm
  simp [keyOfMarkName, e, String.ofList_toList]

theorem markName_of_key {a : NA} (ha : NAShape a) (hm : a.isMark = true) : a.name = "_" ++ a.key := by
  obtain ⟨e, _, _⟩ := ha.mark hm
  apply String.toList_inj.mp
  rw [e, String.toList_append]; rfl

/-! ### anchorPairs -/
theorem mem_markNames0 {al : AList} {n : String} : n ∈ markNames0 al ↔ ∃ e ∈ al, ∃ a ∈ e.2, a.isMark = true ∧ a.name = n := by
  simp only [markNames0, mem_flatMap, mem_map, mem_filter]
  constructor
  · rintro ⟨e, he, a, ⟨ha, hm⟩, hn⟩; exact ⟨e, he, a, ha, hm, hn⟩
  · rintro ⟨e, he, a, ha, hm, hn⟩; exact ⟨e, he, a, ⟨ha, hm⟩, hn⟩

theorem paired_iff {al : AList} {a : NA} : paired al a = true ↔ a.isMark = false ∧ markAnchorName a ∈ markNames0 al := by
  simp [paired]

theorem mem_markNames {al : AList} {n : String} : n ∈ markNames al ↔ ∃ e ∈ al, ∃ a ∈ e.2, paired al a = true ∧ markAnchorName a = n := by
  simp only [markNames, mem_flatMap, mem_map, mem_filter]
  constructor
  · rintro ⟨e, he, a, ⟨ha, hm⟩, hn⟩; exact ⟨e, he, a, ha, hm, hn⟩
  · rintro ⟨e, he, a, ha, hm, hn⟩; exact ⟨e, he, a, ⟨ha, hm⟩, hn⟩

theorem mem_baseNames {al : AList} {n : String} : n ∈ baseNames al ↔ ∃ e ∈ al, ∃ a ∈ e.2, paired al a = true ∧ a.name = n := by
  simp only [baseNames, mem_flatMap, mem_map, mem_filter]
  constructor
  · rintro ⟨e, he, a, ⟨ha, hm⟩, hn⟩; exact ⟨e, he, a, ha, hm, hn⟩
  · rintro ⟨e, he, a, ha, hm, hn⟩; exact ⟨e, he, a, ⟨ha, hm⟩, hn⟩

/-- an anchor whose name starts with '_' is not contextual -/
theorem plain_of_us {i : Input} {al : AList} (w : ALwf i al) {e : String × List NA} (he : e ∈ al)
    {a : NA} (ha : a ∈ e.2) {r : List Char} (hn : a.name.toList = '_' :: r) : a.ctx = none := by
  cases hc : a.ctx with
  | none => rfl
  | some c =>
    have := (w.cshape e he a ha c hc).1
    rw [hn] at this
    simp only [head?_cons] at this
    exact absurd this (by decide)

theorem markAnchorName_toList (a : NA) : (markAnchorName a).toList = '_' :: a.key.toList := by
  unfold markAnchorName; rw [String.toList_append]; rfl

/-- an anchor whose name is a value of anchorPairs is not contextual -/
theorem plain_of_mem_markNames {i : Input} {al : AList} (w : ALwf i al) {e : String × List NA} (he : e ∈ al)
    {a : NA} (ha : a ∈ e.2) (hn : a.name ∈ markNames al) : a.ctx = none := by
  obtain ⟨e1, he1, a1, ha1, hp, hn1⟩ := mem_markNames.mp hn
  exact plain_of_us w he ha (by rw [← hn1]; exact markAnchorName_toList a1)

/-- an anchor whose name is a value of anchorPairs is a mark anchor -/
theorem isMark_of_mem_markNames {i : Input} {al : AList} (w : ALwf i al) {e : String × List NA} (he : e ∈ al)
    {a : NA} (ha : a ∈ e.2) (hn : a.name ∈ markNames al) : a.isMark = true := by
  obtain ⟨e1, he1, a1, ha1, hp, hn1⟩ := mem_markNames.mp hn
  obtain ⟨_, hmn⟩ := paired_iff.mp hp
  obtain ⟨e2, he2, a2, ha2, hm2, hn2⟩ := mem_markNames0.mp hmn
  have hc2 : a2.ctx = none := plain_of_us w he2 ha2 (by rw [hn2]; exact markAnchorName_toList a1)
  exact (mark_of_same_name (w.shape e he a ha (plain_of_mem_markNames w he ha hn)) (w.shape e2 he2 a2 ha2 hc2)
    (by rw [hn2, hn1]) hm2).1

/-- the shape of a mark-entry member -/
theorem shape_of_mem_markNames {i : Input} {al : AList} (w : ALwf i al) {e : String × List NA} (he : e ∈ al)
    {a : NA} (ha : a ∈ e.2) (hn : a.name ∈ markNames al) : NAShape a :=
  w.shape e he a ha (plain_of_mem_markNames w he ha hn)

/-! ### the mark entries of `build` -/
/-- abbreviation: the mark glyphs with their mark anchors, as `build` computes them -/
def meOf (i : Input) (al : AList) : AList := markEntries i (prune al) (markNames al)

theorem mem_meOf {i : Input} {al : AList} (w : ALwf i al) {e : String × List NA} (he : e ∈ meOf i al) :
    markOK i e.1 = true ∧ e.2 ≠ [] ∧ ∃ as, (e.1, as) ∈ al ∧ (∀ a ∈ e.2, a ∈ as ∧ a.isMark = true ∧ a.name ∈ markNames al) ∧
      (e.2.map (·.name)).Nodup := by
  obtain ⟨hne, hok, as', has', e2⟩ := mem_markEntries he
  obtain ⟨_, as, has, e1⟩ := mem_prune has'
  simp only at e1
  rw [e2, e1]
  rw [e2, e1] at hne
  refine ⟨hok, hne, as, has, ?_, ?_⟩
  · intro a ha
    obtain ⟨ha1, hn⟩ := mem_filter.mp ha
    obtain ⟨ha2, _⟩ := mem_filter.mp ha1
    have hn' : a.name ∈ markNames al := by simpa using hn
    exact ⟨ha2, isMark_of_mem_markNames w has ha2 hn', hn'⟩
  · exact ((filter_sublist.trans filter_sublist).map _).nodup (w.names _ has)

theorem meOf_keys_nodup {i : Input} {al : AList} (w : ALwf i al) : ((meOf i al).map (·.1)).Nodup :=
  ((markEntries_keys_sublist i _ _).trans (prune_keys_sublist al)).nodup w.keys

theorem sanitize_MC {n : String} (h : sanitize n = n) : sanitize ("MC" ++ n) = "MC" ++ n := by
  have e : ("MC" ++ n).toList = ['M', 'C'] ++ n.toList := by rw [String.toList_append]; rfl
  have f : (['M', 'C'] : List Char).filter (fun c => c.isAlphanum || c == '.' || c == '_') = ['M', 'C'] := by decide
  unfold sanitize at h ⊢
  rw [e, filter_append, f, String.ofList_append, h]

/-- the mark class (name) that `_makeMarkClassDefinitions` gives the group of the mark anchor name `n` -/
def cnOf (i : Input) (al : AList) (n : String) : String :=
  (alookup (keyOfMarkName n) (makeClassesFrom (preClasses i.pre) (meOf i al)).keyMap).getD ""

/-- the mark classes and the key → class map of `build` on a well-formed anchor list: one class per mark anchor name, under
    pairwise different names -/
theorem makeClasses_meOf {i : Input} {al : AList} (w : ALwf i al) :
    makeClassesFrom (preClasses i.pre) (meOf i al) =
      ⟨(groupNames (meOf i al)).map (fun n => (cnOf i al n, (groupOf (meOf i al) n).map recOf)),
       (groupNames (meOf i al)).map (fun n => (keyOfMarkName n, cnOf i al n))⟩ ∧
    (∀ x ∈ groupNames (meOf i al), ∀ y ∈ groupNames (meOf i al), cnOf i al x = cnOf i al y → x = y) := by
  -- facts about every group name
  have hname : ∀ n ∈ groupNames (meOf i al), ∃ e ∈ meOf i al, ∃ a ∈ e.2, a.name = n ∧ NAShape a ∧ a.isMark = true := by
    intro n hn
    obtain ⟨e, he, a, ha, han⟩ := mem_groupNames.mp hn
    obtain ⟨_, _, as, has, hall, _⟩ := mem_meOf w he
    obtain ⟨ha1, ha2, ha3⟩ := hall a ha
    exact ⟨e, he, a, ha, han, shape_of_mem_markNames w has ha1 ha3, ha2⟩
  have hKnd : ((groupNames (meOf i al)).map keyOfMarkName).Nodup := by
    apply nodup_map_of_injOn (nodup_groupNames _)
    intro x hx y hy hxy
    obtain ⟨_, _, ax, _, hax, sx, mx⟩ := hname x hx
    obtain ⟨_, _, ay, _, hay, sy, my⟩ := hname y hy
    rw [← hax, ← hay] at hxy ⊢
    rw [keyOfMarkName_eq sx mx, keyOfMarkName_eq sy my] at hxy
    rw [markName_of_key sx mx, markName_of_key sy my, hxy]
  obtain ⟨asg, a1, a2, a3⟩ := makeClasses_closed (meOf i al) (groupNames (meOf i al)) keyOfMarkName hKnd (by
    intro n hn
    obtain ⟨e, he, a, ha, han, sa, ma⟩ := hname n hn
    obtain ⟨_, _, as, has, hall, hnd⟩ := mem_meOf w he
    refine ⟨?_, ?_, ?_⟩
    · have := mem_groupOf_of he ha hnd
      rw [han] at this
      exact ne_nil_of_mem this
    · exact (groupOf_keys_sublist _ n).nodup (meOf_keys_nodup w)
    · intro gm hgm
      obtain ⟨e', he', _, hgm2, hgmn⟩ := mem_groupOf hgm
      obtain ⟨_, _, as', has', hall', _⟩ := mem_meOf w he'
      obtain ⟨hg1, hg2, hg3⟩ := hall' gm.2 hgm2
      rw [← hgmn]
      exact (keyOfMarkName_eq (shape_of_mem_markNames w has' hg1 hg3) hg2).symm)
  have hmk : makeClassesFrom (preClasses i.pre) (meOf i al) = ⟨classesOfAsg (meOf i al) asg, kmOfAsg keyOfMarkName asg⟩ := by
    rw [w.pre]; unfold makeClassesFrom preClasses; simp only [map_nil]; rw [a3]
  -- the assigned name of every group is `cnOf`
  have hkeys : ((kmOfAsg keyOfMarkName asg).map (·.1)).Nodup := by
    have : (kmOfAsg keyOfMarkName asg).map (·.1) = (asg.map (·.1)).map keyOfMarkName := by simp [kmOfAsg]
    rw [this, a1]; exact hKnd
  have hcn : ∀ p ∈ asg, cnOf i al p.1 = p.2 := by
    intro p hp
    unfold cnOf
    rw [hmk]
    simp only
    rw [alookup_of_mem_nodup hkeys (mem_map.mpr ⟨p, hp, rfl⟩)]; rfl
  have hasg : asg = (groupNames (meOf i al)).map (fun n => (n, cnOf i al n)) := by
    rw [← a1, map_map]
    conv => lhs; rw [← map_id asg]
    apply map_congr_left
    intro p hp
    simp only [Function.comp, id]
    rw [hcn p hp]
  refine ⟨?_, ?_⟩
  · rw [hmk]
    conv => lhs; rw [hasg]
    simp [classesOfAsg, kmOfAsg]
  · have hnd : ((groupNames (meOf i al)).map (cnOf i al)).Nodup := by
      have : asg.map (·.2) = (groupNames (meOf i al)).map (cnOf i al) := by
        conv => lhs; rw [hasg]
        simp
      rw [← this]; exact a2
    exact injOn_of_nodup_map hnd

end Ufo2ft.C06
