import Ufo2ftModel.Props.C13VFEval
import Ufo2ftModel.Spec.C13
/-!
Property C13 on the interpolatable path with ARBITRARILY SPARSE sources: **the listed glyphs are gone from every source**,
whatever the default source contains.

`SkipExportGlyphsIFilter.__call__` ends with `for glyphName in skipExportGlyphs: for glyphSet in glyphSets: del …` — the
model (`C09.skipI`) prunes every source by the skip list itself, not by "the glyphs the default source has".  The theorem
has NO well-formedness hypothesis (no "default source holds every glyph"): a listed glyph drawn in a non-default source
only is removed from that source too.  The variant that removes only the listed names the default source has
(`pruneByDefault`) is shown to leave a listed glyph behind on a two-source witness.
-/
namespace Ufo2ft.C13
open Ufo2ft Ufo2ft.C09

/-- **no listed name survives in any source**, for every family (sparse or not) on which the filter returns -/
theorem C13_if_gone (skip : List String) (I : Inst) (ms ms' : Masters) (orders : List (List String))
    (hne : skip.isEmpty = false) (hrun : skipFamily skip I ms orders = .ok ms') :
    ∀ m' ∈ ms', ∀ e ∈ m', skip.contains e.1 = false := by
  unfold skipFamily skipI at hrun
  rw [if_neg (by rw [hne]; simp)] at hrun
  dsimp only at hrun
  generalize runI (fun _ => true) (skipIStep (some I) skip) ⟨ms, some ms, [], orders⟩ = r at hrun
  cases r with
  | error e => simp at hrun
  | ok res =>
    obtain ⟨s', md⟩ := res
    dsimp only at hrun
    rw [updated_ms] at hrun
    injection hrun with hrun
    subst hrun
    intro m' hm' e he
    obtain ⟨m, _, rfl⟩ := List.mem_map.mp hm'
    have := (List.mem_filter.mp he).2
    simpa using this

/-- in terms of lookups: a listed name is found in no source -/
theorem C13_if_gone_names (skip : List String) (I : Inst) (ms ms' : Masters) (orders : List (List String))
    (hne : skip.isEmpty = false) (hrun : skipFamily skip I ms orders = .ok ms') :
    ∀ m' ∈ ms', ∀ n ∈ m'.map (·.1), skip.contains n = false := by
  intro m' hm' n hn
  obtain ⟨e, he, rfl⟩ := List.mem_map.mp hn
  exact C13_if_gone skip I ms ms' orders hne hrun m' hm' e he

/-- the narrowed removal step ("only the listed names the default source has"), NOT what ufo2ft does -/
def pruneByDefault (skip : List String) (I : Inst) (ms : Masters) : Masters :=
  let d := ms.getD I.defaultIdx []
  let existing := skip.filter (fun n => (d.get? n).isSome)
  ms.map (fun (m : GlyphSet) => m.filter (fun e => !existing.contains e.1))

private def gA : Glyph := ⟨"A", 500, 0, [], [], []⟩
private def gW : Glyph := ⟨"wip", 333, 0, [], [], []⟩

/-- negative witness: default source {A}, second source {A, wip}, skip [wip]: the narrowed removal keeps `wip` in the second
    source, the model of the real filter does not -/
theorem pruneByDefault_leaves_listed :
    (pruneByDefault ["wip"] ⟨[0, 1], 0⟩ [[("A", gA)], [("A", gA), ("wip", gW)]]).any
      (fun m => m.any (fun e => e.1 == "wip")) = true := by
  decide +kernel

end Ufo2ft.C13
