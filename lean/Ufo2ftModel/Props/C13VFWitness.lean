import Ufo2ftModel.Props.C13VFEval
import Ufo2ftModel.Props.C13VFCert
import Ufo2ftModel.Props.C13VFTotal
/-!
C13 (variable fonts): a concrete 3-glyph, 3-source family.

`A` = component `_h1` = component `_h0` (a box); `_h1`, `_h0` are skipped.  Sources at 0 and 2 hold all three glyphs; the
source at 1 is sparse and holds only the innermost helper `_h0`, far off the straight line between its neighbours.

* The model of `SkipExportGlyphsIFilter` gives `A` a master at 1 (where only `_h0` — reached THROUGH `_h1` — has a source):
  the filtered family draws `A` at location 1 exactly as before.
* The seeded defect `/verif/seeded/C13c` (locations collected only from the DIRECTLY referenced skipped glyphs, the
  decomposition unchanged) gives `A` no master at 1: at location 1 the box is 150 wide instead of 400.  The property fails.
-/
namespace Ufo2ft.C13
open Ufo2ft Ufo2ft.C09 List

/-- the seeded defect `/verif/seeded/C13c`: `ensureCompositeDefinedAtComponentLocations` is given only the skipped glyphs the
    composite references DIRECTLY (the decomposition itself still uses the whole skip list) -/
def skipIStepDirect (inst : Option Inst) (skip : List String) (s : St) (n : String) : Except GErr (St × Bool) :=
  let gl := glyphsNamed s.ms n
  let direct := skip.filter (fun b => gl.any (fun g => g.comps.any (fun k => k.base == b)))
  if direct.isEmpty then .ok (s, false)
  else match ensureComposite inst s (some direct) n with
    | .error e => .error e
    | .ok s1 =>
      match perMaster inst n (decomposeVisit false (some skip)) (decomposeOp false (some skip))
              (List.range s1.ms.length) s1 true with
      | .error e => .error e
      | .ok (s2, _) => .ok (s2, true)

/-- `SkipExportGlyphsIFilter.__call__` with the defective `filter` -/
def skipFamilyDirect (skip : List String) (I : Inst) (ms : Masters) : Except GErr Masters :=
  match runI (fun _ => true) (skipIStepDirect (some I) skip) ⟨ms, some ms, [], []⟩ with
  | .error e => .error e
  | .ok (s', _) => .ok (s'.ms.map (fun (m : GlyphSet) => m.filter (fun e => !skip.contains e.1)))

def skipIStepDirectK (inst : Option Inst) (skip : List String) (s : St) (n : String) : Except GErr (St × Bool) :=
  let gl := glyphsNamed s.ms n
  let direct := skip.filter (fun b => gl.any (fun g => g.comps.any (fun k => k.base == b)))
  if direct.isEmpty then .ok (s, false)
  else match ensureCompositeK inst s (some direct) n with
    | .error e => .error e
    | .ok s1 =>
      match perMaster inst n (decomposeVisitK false (some skip)) (decomposeOpK false (some skip))
              (List.range s1.ms.length) s1 true with
      | .error e => .error e
      | .ok (s2, _) => .ok (s2, true)

theorem skipIStepDirect_eqK : @skipIStepDirect = @skipIStepDirectK := by
  funext inst skip s n
  unfold skipIStepDirect skipIStepDirectK
  rw [ensureComposite_eqK, decomposeVisit_eqK, decomposeOp_eqK]

theorem skipFamilyDirect_eval (skip : List String) (I : Inst) (ms : Masters) (order : List String)
    (ho : orderI ms (allNames ms) = .ok order) :
    skipFamilyDirect skip I ms =
      match iLoop (fun _ => true) (skipIStepDirectK (some I) skip) order (⟨ms, some ms, [], []⟩, []) with
      | .error e => .error e
      | .ok (s', _) => .ok (s'.ms.map (fun (m : GlyphSet) => m.filter (fun e => !skip.contains e.1))) := by
  unfold skipFamilyDirect runI
  dsimp only
  rw [ho, skipIStepDirect_eqK]
  rfl

def toOpt {ε α} : Except ε α → Option α
  | .ok a => some a
  | .error _ => none

theorem eq_ok_of_toOpt {ε α} {e : Except ε α} {a : α} (h : toOpt e = some a) : e = .ok a := by
  cases e with
  | error _ => cases h
  | ok b => rw [Option.some.inj h]

/-! ### the family -/

def wBox (w : Q) : Contour := [⟨0, 0, some .line⟩, ⟨w, 0, some .line⟩, ⟨w, 100, some .line⟩, ⟨0, 100, some .line⟩]
def wTr (dx dy : Q) : Affine := ⟨1, 0, 0, 1, dx, dy⟩
def wH0 (w : Q) : Glyph := ⟨"_h0", 300, 0, [wBox w], [], []⟩
def wH1 (dx : Q) : Glyph := ⟨"_h1", 300, 0, [], [⟨"_h0", wTr dx 0⟩], []⟩
def wA (dx : Q) : Glyph := ⟨"A", 500, 0, [], [⟨"_h1", wTr dx 10⟩], []⟩
def wMs : Masters := [[("A", wA 0), ("_h1", wH1 0), ("_h0", wH0 100)], [("_h0", wH0 400)],
  [("A", wA 40), ("_h1", wH1 20), ("_h0", wH0 200)]]
def wI : Inst := ⟨[0, 1, 2], 0⟩
def wSkip : List String := ["_h0", "_h1"]

/-- `A` with its helpers inlined: a box from `x0` to `x1`, raised by 10 -/
def wAD (x0 x1 : Q) : Glyph :=
  ⟨"A", 500, 0, [[⟨x0, 10, some .line⟩, ⟨x1, 10, some .line⟩, ⟨x1, 110, some .line⟩, ⟨x0, 110, some .line⟩]], [], []⟩

/-- what the model of the filter returns: `A` has a master at location 1 too -/
def wMsS : Masters := [[("A", wAD 0 100)], [("A", wAD 30 430)], [("A", wAD 60 260)]]
/-- what the defective filter returns: no master of `A` at location 1 -/
def wMsD : Masters := [[("A", wAD 0 100)], [], [("A", wAD 60 260)]]

theorem wOrder : orderI wMs (allNames wMs) = .ok ["A", "_h1", "_h0"] := by
  have : allNames wMs = ["A", "_h1", "_h0"] := by decide +kernel
  rw [this]
  simp [orderI, depthsI, compDepth, maxComponentDepth, depthGlyph, depthComps, wMs, wA, wH1, wH0, GlyphSet.get?, alookup,
    List.mergeSort]

theorem w_skip : skipFamily wSkip wI wMs = .ok wMsS := by
  rw [skipFamily_eval wSkip wI wMs _ (by decide) wOrder]
  apply eq_ok_of_toOpt
  decide +kernel

theorem w_direct : skipFamilyDirect wSkip wI wMs = .ok wMsD := by
  rw [skipFamilyDirect_eval wSkip wI wMs _ wOrder]
  apply eq_ok_of_toOpt
  decide +kernel


/-! ### what the three families draw for `A` -/

def wCert : List (String × Nat) := [("A", 2), ("_h1", 1), ("_h0", 0)]

/-- the witness family meets every hypothesis of `C13_vf_render` -/
theorem w_wf : WFSkip wI wMs (rankOf wCert) := famCert_sound wI wMs wCert (by decide +kernel)

def wDraw (x0 x1 : Q) : List Contour :=
  [[⟨x0, 10, some .line⟩, ⟨x1, 10, some .line⟩, ⟨x1, 110, some .line⟩, ⟨x0, 110, some .line⟩]]

theorem w_fuel : (allNames wMs).length + 2 = 5 := by decide +kernel

/-- the sources: at location 1 the box of `A` is 400 wide (the sparse master of `_h0`), at 30 -/
theorem w_render_src (t : Q) (x0 x1 : Q) (h : (t, x0, x1) ∈ [((0 : Q), (0 : Q), (100 : Q)), (1/2, 15, 265), (1, 30, 430), (3/2, 45, 345), (2, 60, 260)]) :
    renderAt wI wMs t "A" = wDraw x0 x1 := by
  unfold renderAt
  rw [w_fuel, renderAtF_eqK]
  simp only [List.mem_cons, Prod.mk.injEq, List.not_mem_nil, or_false] at h
  rcases h with ⟨rfl, rfl, rfl⟩ | ⟨rfl, rfl, rfl⟩ | ⟨rfl, rfl, rfl⟩ | ⟨rfl, rfl, rfl⟩ | ⟨rfl, rfl, rfl⟩ <;> decide +kernel

/-- the model of the filter: the same drawings, at the masters and in between -/
theorem w_render_skip (t : Q) (x0 x1 : Q) (h : (t, x0, x1) ∈ [((0 : Q), (0 : Q), (100 : Q)), (1/2, 15, 265), (1, 30, 430), (3/2, 45, 345), (2, 60, 260)]) :
    renderAtF 5 wI wMsS t "A" = wDraw x0 x1 := by
  rw [renderAtF_eqK]
  simp only [List.mem_cons, Prod.mk.injEq, List.not_mem_nil, or_false] at h
  rcases h with ⟨rfl, rfl, rfl⟩ | ⟨rfl, rfl, rfl⟩ | ⟨rfl, rfl, rfl⟩ | ⟨rfl, rfl, rfl⟩ | ⟨rfl, rfl, rfl⟩ <;> decide +kernel

/-- the defective filter: right at 0 and 2, wrong in between -/
theorem w_render_direct (t : Q) (x0 x1 : Q) (h : (t, x0, x1) ∈ [((0 : Q), (0 : Q), (100 : Q)), (1/2, 15, 140), (1, 30, 180), (3/2, 45, 220), (2, 60, 260)]) :
    renderAtF 5 wI wMsD t "A" = wDraw x0 x1 := by
  rw [renderAtF_eqK]
  simp only [List.mem_cons, Prod.mk.injEq, List.not_mem_nil, or_false] at h
  rcases h with ⟨rfl, rfl, rfl⟩ | ⟨rfl, rfl, rfl⟩ | ⟨rfl, rfl, rfl⟩ | ⟨rfl, rfl, rfl⟩ | ⟨rfl, rfl, rfl⟩ <;> decide +kernel

/-- **C13_vf_direct_only_false** (the NEGATIVE).  With the master locations collected only from the DIRECTLY referenced
    skipped glyphs (the seeded defect `/verif/seeded/C13c`) the statement of `C13_vf_render` is false: the family `wMs` meets
    every hypothesis, the defective filter succeeds on it, `A` is not skipped, location 1 lies between the sources — and
    `A` draws a different contour there (box 30…180 instead of 30…430).  At the full masters 0 and 2 nothing is wrong,
    which is why master-by-master comparisons cannot see the defect. -/
theorem C13_vf_direct_only_false :
    WFSkip wI wMs (rankOf wCert) ∧ wSkip.contains "A" = false ∧ InHull wI 1 ∧
    ∃ ms', skipFamilyDirect wSkip wI wMs = .ok ms' ∧
      ¬ (renderAtF ((allNames wMs).length + 2) wI ms' 1 "A").Perm (renderAt wI wMs 1 "A") ∧
      (renderAtF ((allNames wMs).length + 2) wI ms' 0 "A").Perm (renderAt wI wMs 0 "A") ∧
      (renderAtF ((allNames wMs).length + 2) wI ms' 2 "A").Perm (renderAt wI wMs 2 "A") := by
  refine ⟨w_wf, by decide +kernel, inHull_sound wI 1 (by decide +kernel), wMsD, w_direct, ?_, ?_, ?_⟩
  · rw [w_fuel, w_render_direct 1 30 180 (by simp), w_render_src 1 30 430 (by simp)]
    intro hp
    have := List.singleton_perm_singleton.mp hp
    revert this
    decide +kernel
  · rw [w_fuel, w_render_direct 0 0 100 (by simp), w_render_src 0 0 100 (by simp)]
  · rw [w_fuel, w_render_direct 2 60 260 (by simp), w_render_src 2 60 260 (by simp)]

/-- non-vacuity of `C13_vf_render`: its hypotheses are met by the witness family (a skipped glyph nested in a skipped glyph,
    a sparse intermediate source holding only the innermost one), with the real filter; and its conclusion there, computed -/
example : WFSkip wI wMs (rankOf wCert) ∧ skipFamily wSkip wI wMs [] = .ok wMsS ∧ wSkip.contains "A" = false ∧
    InHull wI (1/2) ∧ (renderAtF ((allNames wMs).length + 2) wI wMsS (1/2) "A").Perm (renderAt wI wMs (1/2) "A") :=
  ⟨w_wf, w_skip, by decide +kernel, inHull_sound wI (1/2) (by decide +kernel),
    (C13_vf_render wSkip wI wMs wMsS (rankOf wCert) [] w_wf (fun o ho => by cases ho) w_skip "A" (by decide +kernel) (1/2)
      (inHull_sound wI (1/2) (by decide +kernel))).2.1⟩

/-- `C13_vf_render_default` instantiated at the location of the sparse source -/
example : (renderAt wI wMsS 1 "A").Perm (renderAt wI wMs 1 "A") :=
  C13_vf_render_default wSkip wI wMs wMsS (rankOf wCert) [] w_wf (fun o ho => by cases ho) w_skip "A" (by decide +kernel) 1
    (inHull_sound wI 1 (by decide +kernel))

/-- … and the instance of `C13_vf_render` agrees with the direct computation -/
example : renderAtF 5 wI wMsS (1/2) "A" = renderAt wI wMs (1/2) "A" := by
  rw [w_render_skip (1/2) 15 265 (by simp), w_render_src (1/2) 15 265 (by simp)]

/-! ### totality: non-vacuity, and the two ways the model can fail on a `WFSkip` family -/

/-- the witness family meets the hypotheses of `skipFamily_ok` / `C13_vf_render_total` (for every skip list) -/
theorem w_total (skip : List String) : WFTotal wI wMs (rankOf wCert) skip := famCert_total wI wMs wCert (by decide +kernel) skip

/-- `C13_vf_render_total` instantiated: the filter succeeds and the drawings agree everywhere between the sources -/
example : ∃ ms', skipFamily wSkip wI wMs [] = .ok ms' ∧
    (∀ m' ∈ ms', ∀ x, wSkip.contains x = true → m'.get? x = none) ∧
    ∀ n, wSkip.contains n = false → ∀ t, InHull wI t →
      (renderAt wI ms' t n).Perm (renderAt wI wMs t n) ∧ advanceAt wI ms' t n = advanceAt wI wMs t n :=
  C13_vf_render_total wSkip wI wMs (rankOf wCert) [] (w_total wSkip) (fun o ho => by cases ho) (fun o ho => by cases ho)

def toErr {ε α} : Except ε α → Option ε
  | .ok _ => none
  | .error e => some e

theorem eq_error_of_toErr {ε α} {x : Except ε α} {e : ε} (h : toErr x = some e) : x = .error e := by
  cases x with
  | ok _ => cases h
  | error e' => rw [Option.some.inj h]

/-- one source, one glyph `A` whose component refers to `_x`; `_x` is in the skip list but in no source -/
def dMs : Masters := [[("A", ⟨"A", 500, 0, [], [⟨"_x", Affine.id⟩], []⟩)]]
def dI : Inst := ⟨[0], 0⟩

theorem dOrder : orderI dMs (allNames dMs) = .ok ["A"] := by
  have : allNames dMs = ["A"] := by decide +kernel
  rw [this]
  simp [orderI, depthsI, compDepth, maxComponentDepth, depthGlyph, depthComps, dMs, GlyphSet.get?, alookup, List.mergeSort]

/-- **the hypothesis `SkipRefs` of `skipFamily_ok` cannot be dropped** (witness): a family that meets every hypothesis of
    `C13_vf_render` (`WFSkip`) on which the model of the filter fails with `MissingComponentError` — a component refers to a
    skipped glyph that does not exist.  The real `SkipExportGlyphsIFilter` raises `MissingComponentError('_x')` on the same
    input (`decomposeCompositeGlyph` is called with `skipMissing=False`; run against /repo). -/
theorem dangling_witness :
    WFSkip dI dMs (rankOf [("A", 1)]) ∧ skipFamily ["_x"] dI dMs = .error (.missing "_x") ∧ ¬ SkipRefs dI dMs ["_x"] := by
  refine ⟨famCertBase_sound dI dMs _ (by decide +kernel), ?_, ?_⟩
  · rw [skipFamily_eval ["_x"] dI dMs _ (by decide) dOrder]
    apply eq_error_of_toErr
    decide +kernel
  · intro h
    have := h (dMs.getD 0 []) (by simp [dMs]) "A" _ (by simp [dMs, GlyphSet.get?, alookup]; rfl) ⟨"_x", Affine.id⟩
      (by simp) (by decide)
    revert this
    decide +kernel

/-- a glyph stored under a key that is not its name (`"A" ↦ glyph named "B"`, with a component `B`): only the model can be
    given such a glyph set — ufo2ft's are keyed by `glyph.name` — and `getMaxComponentDepth` then reports a cycle -/
def nMs : Masters := [[("A", ⟨"B", 500, 0, [], [⟨"B", Affine.id⟩], []⟩), ("B", ⟨"B", 500, 0, [wBox 100], [], []⟩)]]

/-- **the hypothesis `Named` of `skipFamily_ok` cannot be dropped** (witness, model only) -/
theorem unnamed_witness :
    WFSkip dI nMs (rankOf [("A", 1), ("B", 0)]) ∧ skipFamily ["B"] dI nMs = .error .cyclic := by
  refine ⟨famCertBase_sound dI nMs _ (by decide +kernel), ?_⟩
  have hn : allNames nMs = ["A", "B"] := by decide +kernel
  have ho : orderI nMs ["A", "B"] = .error .cyclic := by
    simp [orderI, depthsI, compDepth, maxComponentDepth, depthGlyph, depthComps, nMs, GlyphSet.get?, alookup]
  unfold skipFamily skipI runI
  rw [if_neg (by decide)]
  dsimp only
  rw [hn, ho]

end Ufo2ft.C13
