import Ufo2ftModel.Model.C14Cu2qu
import Ufo2ftModel.Spec.C14Cu2qu
import Ufo2ftModel.Props.C14
/-!
Theorems about the `rememberCurveType` gate of CubicToQuadraticFilter (all inputs).
-/
namespace Ufo2ft.C14

theorem holdsCall_noop (fp : Footprint) (incl : Include) (gs : GlyphSet) (m : List String) :
    holdsCall fp incl gs m gs = true := by
  simp [holdsCall, holdsFootprint, holdsReport, changedNames]

/-- **c2q_holds**: whatever the lib entries say, a successful call changes only included glyphs and reports
 every glyph it changed. -/
theorem c2q_holds (env : C2QEnv) (opq : List Contour → List Contour) (incl : Include) (obj : Obj) (gs : GlyphSet)
    (o : C2QOut) (h : (c2qCall env opq incl obj gs).2 = .ok o) :
    holdsCall .self incl gs o.out.modified o.out.gs = true := by
  unfold c2qCall at h
  split at h
  · cases h; exact holdsCall_noop _ _ _ _
  · cases h
  · split at h
    · cases h
    · rename_i obj' o' hc
      cases h
      have := C14_holds (.external opq) incl obj gs o' (by rw [hc])
      simpa [fpOf] using this

/-- **c2q_stateless**: the object left behind by earlier invocations never shows. -/
theorem c2q_stateless (env : C2QEnv) (opq : List Contour → List Contour) (incl : Include) (obj : Obj) (gs : GlyphSet) :
    (c2qCall env opq incl obj gs).2 = (c2qCall env opq incl Obj.fresh gs).2 := by
  unfold c2qCall
  split
  · rfl
  · rfl
  · simp only [call]

/-- **c2q_again**: a second invocation of the same object on the same source (same lib entries, new copies of the
 same glyphs) returns what the first returned: `Spec.holdsAgain` holds of the model. -/
theorem c2q_again (env : C2QEnv) (opq : List Contour → List Contour) (incl : Include) (obj : Obj) (gs : GlyphSet) :
    (c2qCall env opq incl (c2qCall env opq incl obj gs).1 gs).2 = (c2qCall env opq incl obj gs).2 := by
  rw [c2q_stateless env opq incl (c2qCall env opq incl obj gs).1 gs, c2q_stateless env opq incl obj gs]

/-- **c2q_converted_noop**: when a lib says "quadratic" the call changes and reports nothing. -/
theorem c2q_converted_noop (env : C2QEnv) (opq : List Contour → List Contour) (incl : Include) (obj : Obj)
    (gs : GlyphSet) (h : c2qGate env = .converted) :
    ∃ o, (c2qCall env opq incl obj gs).2 = .ok o ∧ o.out.modified = [] ∧ o.out.gs = gs := by
  unfold c2qCall
  rw [h]
  exact ⟨_, rfl, rfl, rfl⟩

/-- **c2q_unknown**: any other value raises NotImplementedError before anything is touched. -/
theorem c2q_unknown (env : C2QEnv) (opq : List Contour → List Contour) (incl : Include) (obj : Obj)
    (gs : GlyphSet) (h : c2qGate env = .unknown) :
    (c2qCall env opq incl obj gs).2 = .error .notImplemented := by
  unfold c2qCall
  rw [h]

/-- **c2q_remembered**: with `rememberCurveType` a successful call leaves "quadratic" in the GLYPH SET's lib (the
 only lib that is written), so that a later call that is handed that lib is a no-op. -/
theorem c2q_remembered (env : C2QEnv) (opq : List Contour → List Contour) (incl : Include) (obj : Obj) (gs : GlyphSet)
    (o : C2QOut) (hr : env.remember = true) (h : (c2qCall env opq incl obj gs).2 = .ok o) :
    c2qGate { env with layerType := o.layerAfter } = .converted := by
  unfold c2qCall at h
  split at h
  · rename_i hg
    cases h
    simpa using hg
  · cases h
  · rename_i hg
    split at h
    · cases h
    · cases h
      simp only [c2qGate, hr] at hg ⊢
      cases hf : env.fontType <;> simp_all

/-- **c2q_forgets_without_option**: without the option the libs are neither read nor written. -/
theorem c2q_plain (env : C2QEnv) (opq : List Contour → List Contour) (incl : Include) (obj : Obj) (gs : GlyphSet)
    (hr : env.remember = false) :
    (c2qCall env opq incl obj gs).2 =
      match (call (.external opq) incl obj gs).2 with
      | .error e => .error (.inner e)
      | .ok o => .ok { out := o, layerAfter := env.layerType } := by
  simp only [c2qCall, c2qGate, hr]
  cases hc : call (.external opq) incl obj gs with
  | mk a b => cases b <;> simp

example : c2qGate { remember := true, fontType := .cubic, layerType := .quadratic } = .converted := by decide
example : c2qGate { remember := true, fontType := .cubic, layerType := .cubic } = .go := by decide

end Ufo2ft.C14
