import Ufo2ftModel.Props.TotalFilters2
import Ufo2ftModel.Props.C02Skip
import Ufo2ftModel.Props.C15
/-!
TOTALITY, part 4: the pipelines (`C01.preprocess`, `C02.preprocess` / `preprocessSkip`), the second run of anchor
propagation, and the headline theorems of C01 / C02 / C13 / C15 restated WITHOUT the hypothesis "the model returned `.ok`":
for every well-formed closed glyph set there IS a result, and it satisfies the property.

`WF gs rank` = acyclic (`Ranked`, any witness, no bound), keys = glyph names (`Named`), distinct keys, closed.
`wfCert gs` (Spec/Good.lean) is the decidable certificate the drivers report as `hyp`; `wfCert_sound` below.
-/
namespace Ufo2ft
open List

/-- well-formed closed glyph set -/
structure WF (gs : GlyphSet) (rank : String → Nat) : Prop where
  ranked : Ranked gs rank
  named : Named gs
  nodup : gs.names.Nodup
  closed : Closed gs

/-- what a total filter run hands to the next filter: a well-formed closed glyph set again (same witness) -/
theorem WF.of_keeps {gs gs' : GlyphSet} {rank : String → Nat} (hw : WF gs rank) (hk : Keeps gs gs') (hc : Closed gs') :
    WF gs' rank := ⟨hk.1 rank hw.ranked, hk.2.1, hk.nodup hw.nodup, hc⟩

/-- **certificate soundness**: if the decidable check `wfCert` passes, the glyph set satisfies the hypotheses of ALL the
    totality theorems and of the render theorems: `Good` (acyclic, non-singular, closed contours) with the rank
    `rankOf (depthCert gs)` bounded by the number of glyphs, `Named`, distinct keys, `Closed`. -/
theorem wfCert_sound (gs : GlyphSet) (h : wfCert gs = true) :
    Good gs (rankOf (depthCert gs)) ∧ WF gs (rankOf (depthCert gs)) ∧
    ∀ n g, gs.get? n = some g → rankOf (depthCert gs) n ≤ gs.length := by
  unfold wfCert at h
  simp only [Bool.and_eq_true] at h
  obtain ⟨⟨h1, h2⟩, h3⟩ := h
  obtain ⟨hg, hn, hb⟩ := goodCert_sound gs (depthCert gs) h1
  exact ⟨hg, ⟨hg.ranked, hn, nodupKeys_sound _ h3, closedGS_sound gs h2⟩, hb⟩

/-- conversely every well-formed closed set is recognised by the decidable closedness / distinct-keys checks -/
theorem WF.checks {gs : GlyphSet} {rank : String → Nat} (hw : WF gs rank) :
    closedGS gs = true ∧ nodupKeys gs.names = true :=
  ⟨closedGS_complete gs hw.nodup hw.closed, nodupKeys_complete _ hw.nodup⟩

/-! ### why distinct keys are assumed: a witness

With a duplicated key (not a Python dict) the entry shadowed by `get?` is still visited by `depthsOf`; here the shadowed
`x` refers to `c`, which refers to the visible `x`: `Ranked`, `Named`, `Closed` (all stated through `get?`) hold, yet the
traversal order does not exist (`cyclic`).  So `orderedGlyphs_ok` is false without `gs.names.Nodup`. -/

def dupGs : GlyphSet :=
  [("x", ⟨"x", 0, 0, [], [], []⟩), ("c", ⟨"c", 0, 0, [], [⟨"x", Affine.id⟩], []⟩),
   ("x", ⟨"x", 0, 0, [], [⟨"c", Affine.id⟩], []⟩)]

theorem dupGs_get (n : String) (g : Glyph) (h : dupGs.get? n = some g) :
    (n = "x" ∧ g = ⟨"x", 0, 0, [], [], []⟩) ∨ (n = "c" ∧ g = ⟨"c", 0, 0, [], [⟨"x", Affine.id⟩], []⟩) := by
  simp only [dupGs, GlyphSet.get?, alookup] at h
  by_cases h1 : ("x" == n) = true
  · rw [if_pos h1] at h; left; exact ⟨(by simpa using h1 : "x" = n).symm, (Option.some.inj h).symm⟩
  · rw [if_neg h1] at h
    by_cases h2 : ("c" == n) = true
    · rw [if_pos h2] at h; right; exact ⟨(by simpa using h2 : "c" = n).symm, (Option.some.inj h).symm⟩
    · rw [if_neg h2, if_neg h1] at h; cases h

theorem nodup_needed :
    Ranked dupGs (fun n => if n = "c" then 1 else 0) ∧ Named dupGs ∧ Closed dupGs ∧
    orderedGlyphs dupGs = .error .cyclic := by
  refine ⟨?_, ?_, ?_, ?_⟩
  · intro n g h k hk
    rcases dupGs_get n g h with ⟨rfl, rfl⟩ | ⟨rfl, rfl⟩
    · cases hk
    · simp only [mem_singleton] at hk; subst hk; decide
  · intro n g h
    rcases dupGs_get n g h with ⟨rfl, rfl⟩ | ⟨rfl, rfl⟩ <;> rfl
  · intro n g h k hk
    rcases dupGs_get n g h with ⟨rfl, rfl⟩ | ⟨rfl, rfl⟩
    · cases hk
    · simp only [mem_singleton] at hk; subst hk; rfl
  · simp [orderedGlyphs, depthsOf, maxComponentDepth, depthGlyph, depthComps, dupGs, GlyphSet.get?, alookup]

/-! ### 3 (end). the pre-processing pipelines are total -/

/-- **`C01_preprocess_ok`**: the CFF pre-processing (`_GlyphSet.from_layer` with any skip-export list, then
    DecomposeComponentsFilter) succeeds on every well-formed closed glyph set, and its result is well-formed and closed,
    with exactly the non-skipped keys. -/
theorem C01_preprocess_ok (skip : List String) (gs : GlyphSet) (rank : String → Nat) (hw : WF gs rank) :
    ∃ pre, C01.preprocess skip gs = .ok pre ∧ WF pre rank ∧
      pre.names = if skip.isEmpty then gs.names else gs.names.filter (fun n => !skip.contains n) := by
  unfold C01.preprocess
  by_cases he : skip.isEmpty = true
  · rw [if_pos he, if_pos he]
    dsimp only
    obtain ⟨st, h, hk, hc⟩ := runFilter_decomposeStep_ok (fun _ => true) gs rank hw.ranked hw.named hw.nodup hw.closed
    rw [h]
    exact ⟨st.gs, rfl, hw.of_keeps hk hc, hk.2.2⟩
  · rw [if_neg he, if_neg he]
    obtain ⟨st1, h1, a, b, c, d, e⟩ := skipExport_ok skip gs rank hw.ranked hw.named hw.nodup hw.closed
    rw [h1]
    dsimp only
    have hw1 : WF st1.gs rank := ⟨a rank hw.ranked, b, c, d⟩
    obtain ⟨st, h, hk, hc⟩ := runFilter_decomposeStep_ok (fun _ => true) st1.gs rank hw1.ranked hw1.named hw1.nodup hw1.closed
    rw [h]
    exact ⟨st.gs, rfl, hw1.of_keeps hk hc, by rw [hk.2.2, e]⟩

theorem C02_pre_aux (o : C02.Opts) (incl : String → Bool) (gs : GlyphSet) (rank : String → Nat) (hw : WF gs rank) :
    ∃ pre, (match runFilter decomposeStep incl gs with
      | .error e => (Except.error e : Except GErr GlyphSet)
      | .ok st =>
        if o.flatten then
          match runFilter flattenStep (fun _ => true) st.gs with
          | .error e => .error e
          | .ok st2 => .ok st2.gs
        else .ok st.gs) = .ok pre ∧ WF pre rank ∧ pre.names = gs.names := by
  obtain ⟨st, h, hk, hc⟩ := runFilter_decomposeStep_ok incl gs rank hw.ranked hw.named hw.nodup hw.closed
  rw [h]
  dsimp only
  have hw1 : WF st.gs rank := hw.of_keeps hk hc
  by_cases hf : o.flatten = true
  · rw [if_pos hf]
    obtain ⟨st2, h2, hk2, hc2⟩ := runFilter_flattenStep_ok (fun _ => true) st.gs rank hw1.ranked hw1.named hw1.nodup hw1.closed
    rw [h2]
    exact ⟨st2.gs, rfl, hw1.of_keeps hk2 hc2, hk2.2.2.trans hk.2.2⟩
  · rw [if_neg hf]; exact ⟨st.gs, rfl, hw1, hk.2.2⟩

/-- `C02.preprocess` (decompose the glyphs that have contours, then optionally flatten) is total -/
theorem C02_preprocess_noskip_ok (o : C02.Opts) (gs : GlyphSet) (rank : String → Nat) (hw : WF gs rank) :
    ∃ pre, C02.preprocess o gs = .ok pre ∧ WF pre rank ∧ pre.names = gs.names := by
  unfold C02.preprocess
  exact C02_pre_aux o _ gs rank hw

/-- **`C02_preprocess_ok`**: the TrueType pre-processing chain — skip-export splice (any list), decomposition of mixed
    glyphs, optional flattening — succeeds on every well-formed closed glyph set for every option; each stage hands a
    well-formed closed set to the next, and the result holds exactly the non-skipped keys. -/
theorem C02_preprocess_ok (o : C02.Opts) (skip : List String) (gs : GlyphSet) (rank : String → Nat) (hw : WF gs rank) :
    ∃ pre, C02.preprocessSkip o skip gs = .ok pre ∧ WF pre rank ∧
      pre.names = if skip.isEmpty then gs.names else gs.names.filter (fun n => !skip.contains n) := by
  unfold C02.preprocessSkip
  by_cases he : skip.isEmpty = true
  · rw [if_pos he, if_pos he]; exact C02_preprocess_noskip_ok o gs rank hw
  · rw [if_neg he, if_neg he]
    obtain ⟨st1, h1, a, b, c, d, e⟩ := skipExport_ok skip gs rank hw.ranked hw.named hw.nodup hw.closed
    rw [h1]
    dsimp only
    obtain ⟨pre, h, hw2, hn2⟩ := C02_preprocess_noskip_ok o st1.gs rank ⟨a rank hw.ranked, b, c, d⟩
    exact ⟨pre, h, hw2, by rw [hn2, e]⟩

/-! ### 4. the second run of anchor propagation always succeeds -/

section second
variable {bnd : Comp → Option (Q × Q)}

/-- in the settled glyph set the promotion step of every settled glyph succeeds -/
def PromOK (bnd : Comp → Option (Q × Q)) (marks : List String) (gs1 : GlyphSet) (S : String → Prop) : Prop :=
  ∀ n, S n → ∀ g, gs1.get? n = some g → skipCond marks n g = false →
    ∃ sp, promoteSplit bnd n (splitComps gs1 g.comps ⟨[], [], []⟩) = .ok sp

def IdemTOne (bnd : Comp → Option (Q × Q)) (marks : List String) (gs1 : GlyphSet) (S : String → Prop) (rank : String → Nat)
    (fuel : Nat) : Prop :=
  ∀ st name, S name → st.gs = gs1 → Present gs1 name → rank name < fuel → ∃ st', propagate fuel bnd marks st name = .ok st'
def IdemTMany (bnd : Comp → Option (Q × Q)) (marks : List String) (gs1 : GlyphSet) (S : String → Prop) (rank : String → Nat)
    (fuel : Nat) : Prop :=
  ∀ st ks sp, (∀ k ∈ ks, gs1.get? k.base ≠ none → S k.base) → st.gs = gs1 → (∀ k ∈ ks, rank k.base < fuel) →
    ∃ r, propagateComps fuel bnd marks st ks sp = .ok r

theorem idemTMany_of_one (marks : List String) (gs1 : GlyphSet) (S : String → Prop) (rank : String → Nat)
    (hS : Settled bnd marks gs1 S) (fuel : Nat) (h1 : IdemTOne bnd marks gs1 S rank fuel) :
    IdemTMany bnd marks gs1 S rank fuel := by
  intro st ks
  induction ks generalizing st with
  | nil => intro sp _ _ _; exact ⟨(st, sp), by simp only [propagateComps]⟩
  | cons k ks ih =>
    intro sp hks hgs hf
    have hks' : ∀ k' ∈ ks, gs1.get? k'.base ≠ none → S k'.base := fun k' hk' => hks k' (mem_cons_of_mem _ hk')
    have hf' : ∀ k' ∈ ks, rank k'.base < fuel := fun k' hk' => hf k' (mem_cons_of_mem _ hk')
    unfold propagateComps
    cases hb : st.gs.get? k.base with
    | none => exact ih st sp hks' hgs hf'
    | some b0 =>
      dsimp only
      have hb1 : gs1.get? k.base = some b0 := by rw [← hgs]; exact hb
      have hSk : S k.base := hks k mem_cons_self (by rw [hb1]; simp)
      obtain ⟨st1, hp⟩ := h1 st k.base hSk hgs (by unfold Present; rw [hb1]; rfl) (hf k mem_cons_self)
      obtain ⟨j1, _⟩ := (propagate_idem fuel).1 bnd marks gs1 S st k.base st1 hS hSk hgs hp
      rw [hp]
      dsimp only
      rw [j1, hb1]
      dsimp only
      by_cases hm : (b0.anchors.any fun a => a.name.startsWith "_") = true
      · rw [if_pos hm]; exact ih st1 _ hks' j1 hf'
      · rw [if_neg hm]; exact ih st1 _ hks' j1 hf'

theorem idemTOne_succ (marks : List String) (gs1 : GlyphSet) (S : String → Prop) (rank : String → Nat)
    (hr : Ranked gs1 rank) (hS : Settled bnd marks gs1 S) (hP : PromOK bnd marks gs1 S) (fuel : Nat)
    (h2 : IdemTMany bnd marks gs1 S rank fuel) : IdemTOne bnd marks gs1 S rank (fuel + 1) := by
  intro st name hSn hgs hp hlt
  unfold propagate
  by_cases hpr : st.processed.contains name = true
  · rw [if_pos hpr]; exact ⟨st, rfl⟩
  · rw [if_neg hpr]
    dsimp only
    unfold Present at hp
    cases hg : gs1.get? name with
    | none => rw [hg] at hp; cases hp
    | some g =>
      have hg' : st.gs.get? name = some g := by rw [hgs]; exact hg
      rw [hg']
      dsimp only
      by_cases hskip : (g.comps.isEmpty || (marks.contains name && !g.anchors.isEmpty)) = true
      · rw [if_pos hskip]; exact ⟨_, rfl⟩
      · rw [if_neg hskip]
        have hs : skipCond marks name g = false := by simpa [skipCond] using hskip
        obtain ⟨s1, _⟩ := hS name hSn g hg hs
        obtain ⟨r, hc⟩ := h2 { st with processed := st.processed ++ [name] } g.comps ⟨[], [], []⟩ s1 hgs
          (fun k hk => by have := hr name g hg k hk; omega)
        obtain ⟨_, _, i3⟩ := (propagate_idem fuel).2 bnd marks gs1 S { st with processed := st.processed ++ [name] }
          g.comps ⟨[], [], []⟩ r hS s1 hgs hc
        obtain ⟨st1, sp0⟩ := r
        dsimp only at i3
        rw [hc]
        dsimp only
        obtain ⟨sp, hsp⟩ := hP name hSn g hg hs
        rw [i3, hsp]
        exact ⟨_, rfl⟩

theorem idemT_total (marks : List String) (gs1 : GlyphSet) (S : String → Prop) (rank : String → Nat)
    (hr : Ranked gs1 rank) (hS : Settled bnd marks gs1 S) (hP : PromOK bnd marks gs1 S) :
    ∀ fuel, IdemTOne bnd marks gs1 S rank fuel ∧ IdemTMany bnd marks gs1 S rank fuel := by
  intro fuel
  induction fuel with
  | zero =>
    have h0 : IdemTOne bnd marks gs1 S rank 0 := by intro st name _ _ _ h; omega
    exact ⟨h0, idemTMany_of_one marks gs1 S rank hS 0 h0⟩
  | succ n ih =>
    have h1 := idemTOne_succ marks gs1 S rank hr hS hP n ih.2
    exact ⟨h1, idemTMany_of_one marks gs1 S rank hS (n + 1) h1⟩

/-- **the second run succeeds**: whenever a first run of PropagateAnchorsFilter succeeded on an acyclic glyph set with
    distinct keys equal to the glyph names, a second run (same marks, include predicate, bounds) on its result succeeds too
    — every promotion it performs was already performed, on the same split, by the first run (`Done`'s ghost field). -/
theorem propagate_second_run_ok (marks : List String) (incl : String → Bool) (gs : GlyphSet) (rank : String → Nat)
    (st : FState) (hr : Ranked gs rank) (hn : Named gs) (hnd : gs.names.Nodup)
    (h : runFilter (propagateStep bnd marks) incl gs = .ok st) :
    ∃ st2, runFilter (propagateStep bnd marks) incl st.gs = .ok st2 := by
  obtain ⟨hi, hnames, hvis⟩ := runFilter_propagate_inv marks incl gs rank st hr hn h
  -- the result of the first run keeps keys, names and witnesses
  have hkeep : Keeps gs st.gs ∧ SameComps gs st.gs := by
    rcases runFilter_propagateStep_res (bnd := bnd) marks incl gs rank hr hn hnd with ⟨st', h', a, b⟩ | ⟨h', _⟩
    · rw [h] at h'; rw [Except.ok.inj h']; exact ⟨a, b⟩
    · rw [h] at h'; cases h'
  obtain ⟨hk, hsc⟩ := hkeep
  have hnamed : Named st.gs := hk.2.1
  have hr1 : Ranked st.gs (normRank st.gs rank) := normRank_ranked st.gs rank (hk.1 rank hr)
  -- settledness, as in `propagate_idempotent`
  have hS : Settled bnd marks st.gs (fun n => n ∈ st.processed) := by
    intro n hproc g hg hs
    obtain ⟨g0, hg0, hfin, hcl, _⟩ := hi.done n hproc (fun h => h)
    rw [hg] at hfin
    have e := Option.some.inj hfin
    have hs0 : skipCond marks n g0 = false := by
      cases h0 : skipCond marks n g0 with
      | false => rfl
      | true =>
        unfold finalGlyph at e; rw [if_pos h0] at e
        rw [e, h0] at hs; cases hs
    rw [finalGlyph_eq bnd marks st.gs n g0 hs0] at e
    have hcomps : g.comps = g0.comps := by rw [e]
    constructor
    · intro k hk' hne
      rw [hcomps] at hk'
      exact (hcl hs0 k hk' hne).1
    · rw [hcomps]
      apply toAddOf_idem g0 g _ (promoteD_covered n _ (splitComps_covered st.gs g0.comps _ covered_empty))
      rw [e]
  have hP : PromOK bnd marks st.gs (fun n => n ∈ st.processed) := by
    intro n hproc g hg hs
    obtain ⟨g0, hg0, hfin, _, hok⟩ := hi.done n hproc (fun h => h)
    rw [hg] at hfin
    have e := Option.some.inj hfin
    have hs0 : skipCond marks n g0 = false := by
      cases h0 : skipCond marks n g0 with
      | false => rfl
      | true =>
        unfold finalGlyph at e; rw [if_pos h0] at e
        rw [e, h0] at hs; cases hs
    rw [finalGlyph_eq bnd marks st.gs n g0 hs0] at e
    have hcomps : g.comps = g0.comps := by rw [e]
    rw [hcomps]; exact hok hs0
  have hvis' : ∀ n g, st.gs.get? n = some g → incl n = true → g.comps ≠ [] → n ∈ st.processed := by
    intro n g hg hincl hc
    obtain ⟨g0, hg0, hcomps⟩ := hsc n g hg
    exact hvis n g0 hg0 hincl (by rw [← hcomps]; exact hc)
  have := runFilter_res (propagateStep bnd marks) incl (fun gs' => gs' = st.gs) (fun _ => False) st.gs rank
    (hk.1 rank hr) hnamed (hk.nodup hnd) (fun gs' e => e ▸ hnamed) (fun gs' e => e ▸ rfl)
    (by
      intro st0 g hI hget hincl
      left
      unfold propagateStep
      by_cases he : g.comps.isEmpty = true
      · rw [if_pos he]; exact ⟨st0, false, rfl, hI⟩
      · rw [if_neg he]
        have hget1 : st.gs.get? g.name = some g := by rw [← hI]; exact hget
        have hSn : g.name ∈ st.processed := hvis' g.name g hget1 hincl (by simpa using he)
        obtain ⟨st', hp⟩ := (idemT_total marks st.gs _ (normRank st.gs rank) hr1 hS hP (st0.gs.length + 1)).1 st0 g.name hSn hI
          (by unfold Present; rw [hget1]; rfl) (by have := normRank_le st.gs rank g.name; rw [hI]; omega)
        obtain ⟨j1, _⟩ := (propagate_idem _).1 bnd marks st.gs _ st0 g.name st' hS hSn hI hp
        rw [hp]
        exact ⟨st', _, rfl, j1⟩)
    rfl
  rcases this with ⟨st2, h2, _⟩ | ⟨e, _, he⟩
  · exact ⟨st2, h2⟩
  · exact absurd he id

end second

end Ufo2ft

/-! ### 5. the headline theorems without the `= .ok` hypothesis -/

namespace Ufo2ft.C15
open Ufo2ft List

variable {bnd : Comp → Option (Q × Q)}

/-- **`C15_propagate_idempotent_total`**: `C15_propagate_idempotent` without assuming that the second run succeeds: after
    ANY successful run on a well-formed glyph set, the second run exists, changes no glyph and reports nothing modified. -/
theorem C15_propagate_idempotent_total (marks : List String) (incl : String → Bool) (gs : GlyphSet) (rank : String → Nat)
    (st : FState) (hr : Ranked gs rank) (hn : Named gs) (hnd : gs.names.Nodup)
    (h : runFilter (propagateStep bnd marks) incl gs = .ok st) :
    ∃ st2, runFilter (propagateStep bnd marks) incl st.gs = .ok st2 ∧ st2.gs = st.gs ∧ st2.modified = [] := by
  obtain ⟨st2, h2⟩ := propagate_second_run_ok marks incl gs rank st hr hn hnd h
  exact ⟨st2, h2, C15_propagate_idempotent marks incl gs rank st st2 hr hn h h2⟩

/-- **`C15_propagate_total`**: for every acyclic glyph set with distinct keys equal to the glyph names (closed or not), mark
    list and include predicate: if no component of a ligature-mark-named glyph lacks bounds, BOTH runs exist and the whole
    predicate `holdsPropagateP` (nothing overridden, placement, completeness, promotion, idempotence) holds of them. -/
theorem C15_propagate_total (marks : List String) (incl : String → Bool) (gs : GlyphSet) (rank : String → Nat)
    (hr : Ranked gs rank) (hn : Named gs) (hnd : gs.names.Nodup) (hb : ¬ BndMissing bnd gs) :
    ∃ st st2, runFilter (propagateStep bnd marks) incl gs = .ok st ∧
      runFilter (propagateStep bnd marks) incl st.gs = .ok st2 ∧
      holdsPropagateP bnd marks incl gs st.gs st2.modified (st2.gs == st.gs) = true := by
  obtain ⟨st, h, _, _⟩ := runFilter_propagateStep_ok (bnd := bnd) marks incl gs rank hr hn hnd hb
  obtain ⟨st2, h2⟩ := propagate_second_run_ok marks incl gs rank st hr hn hnd h
  exact ⟨st, st2, h, h2, C15_propagateP marks incl gs rank st st2 hr hn hnd h h2⟩

/-- a successful run of PropagateAnchorsFilter hands on a well-formed closed glyph set -/
theorem C15_propagate_wf (marks : List String) (incl : String → Bool) (gs : GlyphSet) (rank : String → Nat) (st : FState)
    (hw : WF gs rank) (h : runFilter (propagateStep bnd marks) incl gs = .ok st) : WF st.gs rank := by
  rcases runFilter_propagateStep_res (bnd := bnd) marks incl gs rank hw.ranked hw.named hw.nodup with ⟨st', h', a, b⟩ | ⟨h', _⟩
  · rw [h] at h'
    have e := Except.ok.inj h'
    subst e
    exact hw.of_keeps a (closed_of_sameComps hw.closed a b)
  · rw [h] at h'; cases h'

/-- the outcome of the first run in general: a result satisfying everything, or `Exception` with a culprit -/
theorem C15_propagate_outcome (marks : List String) (incl : String → Bool) (gs : GlyphSet) (rank : String → Nat)
    (hr : Ranked gs rank) (hn : Named gs) (hnd : gs.names.Nodup) :
    (∃ st st2, runFilter (propagateStep bnd marks) incl gs = .ok st ∧
      runFilter (propagateStep bnd marks) incl st.gs = .ok st2 ∧
      holdsPropagateP bnd marks incl gs st.gs st2.modified (st2.gs == st.gs) = true) ∨
    (runFilter (propagateStep bnd marks) incl gs = .error .exception ∧ BndMissing bnd gs) := by
  rcases runFilter_propagateStep_res (bnd := bnd) marks incl gs rank hr hn hnd with ⟨st, h, _, _⟩ | herr
  · obtain ⟨st2, h2⟩ := propagate_second_run_ok marks incl gs rank st hr hn hnd h
    exact Or.inl ⟨st, st2, h, h2, C15_propagateP marks incl gs rank st st2 hr hn hnd h h2⟩
  · exact Or.inr herr

/-- **`C15_decompose_total`**: for every well-formed closed glyph set and include predicate DecomposeComponentsFilter
    returns a result, every glyph draws what it drew, and the result is well-formed and closed again. -/
theorem C15_decompose_total (incl : String → Bool) (rank : String → Nat) (gs : GlyphSet)
    (hg : Good gs rank) (hn : Named gs) (hnd : gs.names.Nodup) (hc : Closed gs) :
    ∃ st, runFilter decomposeStep incl gs = .ok st ∧ SameRender rank st.gs gs ∧ WF st.gs rank := by
  obtain ⟨st, h, hk, hc'⟩ := runFilter_decomposeStep_ok incl gs rank hg.ranked hn hnd hc
  exact ⟨st, h, C15_decompose incl rank gs st h hg hn, WF.of_keeps ⟨hg.ranked, hn, hnd, hc⟩ hk hc'⟩

theorem C15_decomposeTransformed_total (incl : String → Bool) (rank : String → Nat) (gs : GlyphSet)
    (hg : Good gs rank) (hn : Named gs) (hnd : gs.names.Nodup) (hc : Closed gs) :
    ∃ st, runFilter decomposeTransformedStep incl gs = .ok st ∧ SameRender rank st.gs gs ∧ WF st.gs rank := by
  obtain ⟨st, h, hk, hc'⟩ := runFilter_decomposeTransformedStep_ok incl gs rank hg.ranked hn hnd hc
  exact ⟨st, h, C15_decomposeTransformed incl rank gs st h hg hn, WF.of_keeps ⟨hg.ranked, hn, hnd, hc⟩ hk hc'⟩

theorem C15_flatten_total (incl : String → Bool) (rank : String → Nat) (gs : GlyphSet)
    (hg : Good gs rank) (hn : Named gs) (hnd : gs.names.Nodup) (hc : Closed gs) :
    ∃ st, runFilter flattenStep incl gs = .ok st ∧ SameRender rank st.gs gs ∧ WF st.gs rank := by
  obtain ⟨st, h, hk, hc'⟩ := runFilter_flattenStep_ok incl gs rank hg.ranked hn hnd hc
  exact ⟨st, h, C15_flatten incl rank gs st h hg hn, WF.of_keeps ⟨hg.ranked, hn, hnd, hc⟩ hk hc'⟩

/-- **`C15_transform_total`**: for every well-formed closed glyph set, matrix of positive determinant and convex include
    set TransformationsFilter returns a result and `holdsTransform` holds of it. -/
theorem C15_transform_total (m : Affine) (p : String → Bool) (gs : GlyphSet) (rank : String → Nat)
    (hw : WF gs rank) (hm : 0 < m.det) (hcv : IncludeConvex gs p) :
    ∃ st, runFilter (transformStep m p) p gs = .ok st ∧ holdsTransform m p gs st.gs = true ∧ WF st.gs rank := by
  obtain ⟨st, h, hk, hc'⟩ := runFilter_transformStep_ok m p p gs rank hw.ranked hw.named hw.nodup hw.closed
  exact ⟨st, h, C15_transform m p gs rank st hw.ranked hw.named hw.nodup hm hcv h, hw.of_keeps hk hc'⟩

end Ufo2ft.C15

namespace Ufo2ft.C13
open Ufo2ft List

/-- **`C13_render_total`**: for every skip list and every well-formed closed glyph set SkipExportGlyphsFilter returns a
    result; it holds exactly the non-skipped names in order; every remaining glyph keeps advance, height, anchors,
    references no skipped glyph, and draws the same multiset of contours; and the reduced set is well-formed and closed. -/
theorem C13_render_total (skip : List String) (gs : GlyphSet) (rank : String → Nat)
    (hg : Good gs rank) (hn : Named gs) (hnd : gs.names.Nodup) (hc : Closed gs) :
    ∃ st, skipExport skip (fun _ => true) gs = .ok st ∧ WF st.gs rank ∧
      GlyphSet.names st.gs = (GlyphSet.names gs).filter (fun n => !skip.contains n) ∧
      ∀ n g, skip.contains n = false → gs.get? n = some g →
        ∃ g', st.gs.get? n = some g' ∧ g'.width = g.width ∧ g'.height = g.height ∧ g'.anchors = g.anchors ∧
          (∀ k ∈ g'.comps, skip.contains k.base = false) ∧
          ∀ S f, S.det ≠ 0 → rank n < f → (render f st.gs S g').Perm (render f gs S g) := by
  obtain ⟨st, h, a, b, c, d, _⟩ := skipExport_ok skip gs rank hg.ranked hn hnd hc
  obtain ⟨h1, h2⟩ := C13_render skip gs st rank hg hn h
  exact ⟨st, h, ⟨a rank hg.ranked, b, c, d⟩, h1, h2⟩

end Ufo2ft.C13

namespace Ufo2ft.C01
open Ufo2ft List

/-- **`C01_outline_total`**: for every well-formed closed glyph set the CFF pre-processing returns a glyph set, and for
    every glyph the outline compiled from it is exactly the specified one (all components resolved, mirrored ones
    reversed, rounded) — no rank bound assumed. -/
theorem C01_outline_total (tol : Q) (gs : GlyphSet) (rank : String → Nat)
    (hg : Good gs rank) (hn : Named gs) (hnd : gs.names.Nodup) (hc : Closed gs) :
    ∃ pre, preprocess [] gs = .ok pre ∧
      ∀ n g, gs.get? n = some g → cffOutline tol pre n = specOutline tol gs g := by
  obtain ⟨pre, h, _, _⟩ := C01_preprocess_ok [] gs rank ⟨hg.ranked, hn, hnd, hc⟩
  refine ⟨pre, h, ?_⟩
  intro n g hget
  exact C01_outline tol gs pre (normRank gs rank) (good_normRank gs rank hg) hn h n g hget (normRank_le gs rank n)

/-- **`C01_outline_skip_total`**: with a non-empty skip-export list: the pre-processed glyph set exists, and every compiled
    outline of a remaining glyph is the specified one as a multiset of contours. (`cffOutline` itself can still reject a
    contour shape the charstring pen does not support — that error is not a fuel/lookup error and stays a hypothesis.) -/
theorem C01_outline_skip_total (tol : Q) (skip : List String) (hne : skip.isEmpty = false) (gs : GlyphSet)
    (rank : String → Nat) (hg : Good gs rank) (hn : Named gs) (hnd : gs.names.Nodup) (hc : Closed gs) :
    ∃ pre, preprocess skip gs = .ok pre ∧
      ∀ n g, skip.contains n = false → gs.get? n = some g → ∀ ops, cffOutline tol pre n = .ok ops →
        holdsOutline false tol gs g ops = true := by
  obtain ⟨pre, h, _, _⟩ := C01_preprocess_ok skip gs rank ⟨hg.ranked, hn, hnd, hc⟩
  refine ⟨pre, h, ?_⟩
  intro n g hs hget ops hops
  exact C01_outline_skip tol skip hne gs pre (normRank gs rank) (good_normRank gs rank hg) hn h n g hs hget
    (normRank_le gs rank n) ops hops

/-- from the decidable certificate alone -/
theorem C01_outline_total_cert (tol : Q) (gs : GlyphSet) (h : wfCert gs = true) :
    ∃ pre, preprocess [] gs = .ok pre ∧
      ∀ n g, gs.get? n = some g → cffOutline tol pre n = specOutline tol gs g := by
  obtain ⟨hg, hw, _⟩ := wfCert_sound gs h
  exact C01_outline_total tol gs _ hg hw.named hw.nodup hw.closed

end Ufo2ft.C01

namespace Ufo2ft.C02
open Ufo2ft List

/-- inversion of a successful `C02.preprocess` -/
theorem preprocess_inv (o : Opts) (gs pre : GlyphSet) (h : preprocess o gs = .ok pre) :
    ∃ st, runFilter decomposeStep (hasContours gs) gs = .ok st ∧
      ((o.flatten = true ∧ ∃ st2, runFilter flattenStep (fun _ => true) st.gs = .ok st2 ∧ pre = st2.gs) ∨
       (o.flatten = false ∧ pre = st.gs)) := by
  unfold preprocess at h
  dsimp only at h
  split at h
  · cases h
  · rename_i st heq
    refine ⟨st, heq, ?_⟩
    split at h
    · rename_i hf
      split at h
      · cases h
      · rename_i st2 heq2; exact Or.inl ⟨hf, st2, heq2, (Except.ok.inj h).symm⟩
    · rename_i hf; exact Or.inr ⟨by simpa using hf, (Except.ok.inj h).symm⟩

/-- **`C02_mixed_total`**: the decomposition step of the TrueType pre-processor returns a result on every well-formed closed
    glyph set; no glyph mixes contours and components afterwards and every glyph draws what it drew. -/
theorem C02_mixed_total (gs : GlyphSet) (rank : String → Nat)
    (hg : Good gs rank) (hn : Named gs) (hnd : gs.names.Nodup) (hc : Closed gs) :
    ∃ st, runFilter decomposeStep (hasContours gs) gs = .ok st ∧
      (∀ n g', st.gs.get? n = some g' → g'.contours = [] ∨ g'.comps = []) ∧ SameRender rank st.gs gs := by
  obtain ⟨st, h, _, _⟩ := runFilter_decomposeStep_ok (hasContours gs) gs rank hg.ranked hn hnd hc
  exact ⟨st, h, C02_mixed gs st rank hg hn h⟩

/-- **`C02_render_total`**: for every option set the TrueType pre-processing (no skip list) returns a glyph set on every
    well-formed closed input, and every glyph draws what it drew — flattening included. -/
theorem C02_render_total (o : Opts) (gs : GlyphSet) (rank : String → Nat)
    (hg : Good gs rank) (hn : Named gs) (hnd : gs.names.Nodup) (hc : Closed gs) :
    ∃ pre, preprocess o gs = .ok pre ∧ SameRender rank pre gs ∧ WF pre rank := by
  obtain ⟨pre, h, hw, _⟩ := C02_preprocess_noskip_ok o gs rank ⟨hg.ranked, hn, hnd, hc⟩
  refine ⟨pre, h, ?_, hw⟩
  obtain ⟨st, h1, hrest⟩ := preprocess_inv o gs pre h
  rcases hrest with ⟨_, st2, h2, rfl⟩ | ⟨_, rfl⟩
  · exact C02_render gs st st2 rank hg hn h1 h2
  · exact (C02_mixed gs st rank hg hn h1).2

/-- **`C02_render_skip_total`**: the whole chain with ANY skip-export list: the result exists, and every exported glyph
    is still there and draws (under any non-singular outer transform) a permutation of the contours its source drew. -/
theorem C02_render_skip_total (o : Opts) (skip : List String) (gs : GlyphSet) (rank : String → Nat)
    (hg : Good gs rank) (hn : Named gs) (hnd : gs.names.Nodup) (hc : Closed gs) :
    ∃ pre, preprocessSkip o skip gs = .ok pre ∧ WF pre rank ∧
      ∀ n g, skip.contains n = false → gs.get? n = some g →
        ∃ g2, pre.get? n = some g2 ∧
          ∀ S f, S.det ≠ 0 → rank n < f → (render f pre S g2).Perm (render f gs S g) := by
  obtain ⟨pre, h, hw, _⟩ := C02_preprocess_ok o skip gs rank ⟨hg.ranked, hn, hnd, hc⟩
  refine ⟨pre, h, hw, ?_⟩
  intro n g hs hget
  unfold preprocessSkip at h
  by_cases he : skip.isEmpty = true
  · rw [if_pos he] at h
    obtain ⟨pre', h', hsame, _⟩ := C02_render_total o gs rank hg hn hnd hc
    rw [h] at h'
    have e := Except.ok.inj h'
    subst e
    obtain ⟨hsome, heq⟩ := hsame n
    cases hp : pre.get? n with
    | none => rw [hp, hget] at hsome; cases hsome
    | some g2 => exact ⟨g2, rfl, fun S f hS hf => heq g2 g hp hget S f hS hf⟩
  · rw [if_neg he] at h
    cases h1 : skipExport skip (fun _ => true) gs with
    | error e => rw [h1] at h; cases h
    | ok st1 =>
      rw [h1] at h
      dsimp only at h
      obtain ⟨st, h2, hrest⟩ := preprocess_inv o st1.gs pre h
      rcases hrest with ⟨_, st2, h3, rfl⟩ | ⟨_, rfl⟩
      · exact C02_render_skip skip gs st1 st st2 rank hg hn h1 h2 h3 n g hs hget
      · obtain ⟨g2, a, _, b⟩ := C02_mixed_skip skip gs st1 st rank hg hn h1 h2 n g hs hget
        exact ⟨g2, a, b⟩

end Ufo2ft.C02

/-! ### non-vacuity

`tGs`: five glyphs, nesting depth 3 (`top → mid → mir → base`), a MIRRORED component (`mir` flips `base`: determinant -1),
a scaled one, a mixed glyph (`other`: contour + component); skip list `["mir"]`.  The decidable certificate `wfCert` — what
the drivers report as `hyp` — is evaluated by the kernel; every hypothesis of the totality theorems follows from it
(`wfCert_sound`), so the theorems apply to this set: the results EXIST (no `#eval` involved). -/

namespace Ufo2ft.TotalEx
open Ufo2ft List

def tri : Contour := [⟨0, 0, some .line⟩, ⟨100, 0, some .line⟩, ⟨50, 80, some .line⟩]
def tBase : Glyph := ⟨"base", 500, 0, [tri], [], []⟩
def tMir : Glyph := ⟨"mir", 500, 0, [], [⟨"base", ⟨-1, 0, 0, 1, 100, 0⟩⟩], []⟩
def tMid : Glyph := ⟨"mid", 500, 0, [], [⟨"mir", ⟨1, 0, 0, 1, 10, 0⟩⟩, ⟨"base", ⟨2, 0, 0, 2, 0, 0⟩⟩], []⟩
def tTop : Glyph := ⟨"top", 500, 0, [], [⟨"mid", ⟨1, 0, 0, 1, 0, 50⟩⟩], []⟩
def tOther : Glyph := ⟨"other", 500, 0, [tri], [⟨"mir", Affine.id⟩], []⟩
def tGs : GlyphSet := [("top", tTop), ("other", tOther), ("mid", tMid), ("mir", tMir), ("base", tBase)]

theorem tGs_cert : wfCert tGs = true := by decide +kernel

/-- the rank the certificate computes: nesting depth 3 at `top` -/
example : rankOf (depthCert tGs) "top" = 3 ∧ rankOf (depthCert tGs) "base" = 0 := by decide +kernel

abbrev tRank := rankOf (depthCert tGs)
theorem tGs_good : Good tGs tRank := (wfCert_sound tGs tGs_cert).1
theorem tGs_wf : WF tGs tRank := (wfCert_sound tGs tGs_cert).2.1

/-- 1. the decomposing pen: every include set, nested or not -/
example (nested : Bool) (incl : Option (List String)) : ∃ g', decomposeGlyph tGs nested incl tTop = .ok g' :=
  decomposeGlyph_ok tGs tRank tGs_wf.ranked tGs_wf.closed nested incl tTop (tGs_wf.closed "top" tTop rfl)

/-- ... and the two errors do occur where characterised: `recursion` on a cyclic set, `missing` on a non-closed one -/
def cycGs : GlyphSet := [("a", ⟨"a", 0, 0, [], [⟨"a", Affine.id⟩], []⟩)]
example : decomposeGlyph cycGs true none ⟨"a", 0, 0, [], [⟨"a", Affine.id⟩], []⟩ = .error .recursion ∧
    ¬ ∃ rank, Ranked cycGs rank := by
  have h : decomposeGlyph cycGs true none ⟨"a", 0, 0, [], [⟨"a", Affine.id⟩], []⟩ = .error .recursion := by
    simp [decomposeGlyph, addComps, addComp, isIncluded, inclNested, cycGs, GlyphSet.get?, alookup]
  rcases decomposeGlyph_error _ _ _ _ _ h with ⟨_, h2⟩ | ⟨b, h2, _⟩
  · exact ⟨h, h2⟩
  · cases h2
example : decomposeGlyph tGs true none ⟨"x", 0, 0, [], [⟨"nope", Affine.id⟩], []⟩ = .error (.missing "nope") := by
  simp [decomposeGlyph, addComps, addComp, isIncluded, tGs, GlyphSet.get?, alookup]

/-- 2. the traversal order exists and is a permutation of the keys -/
example : ∃ order, orderedGlyphs tGs = .ok order ∧ order.Perm ["top", "other", "mid", "mir", "base"] :=
  orderedGlyphs_ok tGs tRank tGs_wf.ranked tGs_wf.named tGs_wf.nodup

/-- 3. every filter, any include predicate / matrix -/
example (incl : String → Bool) : ∃ st, runFilter decomposeStep incl tGs = .ok st ∧ SameRender tRank st.gs tGs ∧ WF st.gs tRank :=
  C15.C15_decompose_total incl tRank tGs tGs_good tGs_wf.named tGs_wf.nodup tGs_wf.closed
example (incl : String → Bool) : ∃ st, runFilter flattenStep incl tGs = .ok st ∧ SameRender tRank st.gs tGs ∧ WF st.gs tRank :=
  C15.C15_flatten_total incl tRank tGs tGs_good tGs_wf.named tGs_wf.nodup tGs_wf.closed
example (m : Affine) (p incl : String → Bool) : ∃ st, runFilter (transformStep m p) incl tGs = .ok st ∧ Keeps tGs st.gs ∧ Closed st.gs :=
  runFilter_transformStep_ok m p incl tGs tRank tGs_wf.ranked tGs_wf.named tGs_wf.nodup tGs_wf.closed
/-- skip list `["mir"]`: the mirrored helper is spliced into `mid` and `other` and removed -/
example : ∃ st, skipExport ["mir"] (fun _ => true) tGs = .ok st ∧ WF st.gs tRank ∧
    st.gs.names = ["top", "other", "mid", "base"] := by
  obtain ⟨st, h, hw, hn, _⟩ := C13.C13_render_total ["mir"] tGs tRank tGs_good tGs_wf.named tGs_wf.nodup tGs_wf.closed
  exact ⟨st, h, hw, by rw [hn]; decide⟩
example (tol : Q) : ∃ pre, C01.preprocess [] tGs = .ok pre ∧
    ∀ n g, tGs.get? n = some g → C01.cffOutline tol pre n = C01.specOutline tol tGs g :=
  C01.C01_outline_total_cert tol tGs tGs_cert
example : ∃ pre, C01.preprocess ["mir"] tGs = .ok pre ∧ WF pre tRank ∧ pre.names = ["top", "other", "mid", "base"] := by
  obtain ⟨pre, h, hw, hn⟩ := C01_preprocess_ok ["mir"] tGs tRank tGs_wf
  exact ⟨pre, h, hw, by rw [hn]; decide⟩
example (o : C02.Opts) : ∃ pre, C02.preprocessSkip o ["mir"] tGs = .ok pre ∧ WF pre tRank ∧
    ∀ n g, ["mir"].contains n = false → tGs.get? n = some g →
      ∃ g2, pre.get? n = some g2 ∧ ∀ S f, S.det ≠ 0 → tRank n < f → (render f pre S g2).Perm (render f tGs S g) :=
  C02.C02_render_skip_total o ["mir"] tGs tRank tGs_good tGs_wf.named tGs_wf.nodup tGs_wf.closed

/-- 4. anchor propagation on the mark ligature of `Props/C15.lean` (`acutecomb_gravecomb`, promotion branch taken): every
    component of the ligature-mark-named glyph has bounds, so both runs exist and the whole predicate holds -/
theorem gsL_bnd : ¬ BndMissing C15.bndL C15.gsL := by
  rintro ⟨n, g0, k, hg, hl, hk, hb⟩
  revert hl hk hb
  refine C15.gsL_cases (P := fun n g0 => isLigatureMark n = true → k ∈ g0.comps → C15.bndL k = none → False) n g0 hg ?_ ?_ ?_
  · intro _ hk hb
    simp only [C15.lLig, mem_cons, not_mem_nil, or_false] at hk
    rcases hk with rfl | rfl
    · simp [C15.bndL] at hb
    · simp [C15.bndL, C15.kGr, C15.kAc] at hb
  · intro _ hk; cases hk
  · intro _ hk; cases hk

example : ∃ st st2, runFilter (propagateStep C15.bndL []) (fun _ => true) C15.gsL = .ok st ∧
    runFilter (propagateStep C15.bndL []) (fun _ => true) st.gs = .ok st2 ∧
    C15.holdsPropagateP C15.bndL [] (fun _ => true) C15.gsL st.gs st2.modified (st2.gs == st.gs) = true :=
  C15.C15_propagate_total [] _ C15.gsL C15.rankL C15.gsL_ranked C15.gsL_named (by decide) gsL_bnd

/-- and where the bounds are missing (`bnd0` = no bounds at all) the run raises, exactly as characterised -/
theorem gsL_raise : runFilter (propagateStep C15.bnd0 []) (fun _ => true) C15.gsL = .error .exception := by
  unfold runFilter
  rw [C15.gsL_order]
  have s1 : ("_top".startsWith "_") = true := by decide +kernel
  have s2 : ("top".startsWith "_") = false := by decide +kernel
  simp [filterLoop, propagateStep, propagate, propagateComps, C15.gsL, C15.lAc, C15.lGr, C15.lLig, C15.kAc, C15.kGr,
    GlyphSet.get?, alookup, promoteSplit, isLigatureMark, distKeys, C15.bnd0, s1, s2]

example : runFilter (propagateStep C15.bnd0 []) (fun _ => true) C15.gsL = .error .exception ∧ BndMissing C15.bnd0 C15.gsL := by
  rcases runFilter_propagateStep_res (bnd := C15.bnd0) [] (fun _ => true) C15.gsL C15.rankL C15.gsL_ranked C15.gsL_named
    (by decide) with ⟨st, h, _, _⟩ | h
  · rw [gsL_raise] at h; cases h
  · exact h

end Ufo2ft.TotalEx
