import Ufo2ftModel.Spec.C05
/-! C05, part 4: `quantize` rounds to the nearest multiple of the step, halves up. -/
namespace Ufo2ft.C05
open Ufo2ft

theorem otRound_le (x : Q) : ((otRound x : Int) : Q) ≤ x + 1/2 := Rat.floor_le _
theorem lt_otRound (x : Q) : x - 1/2 < ((otRound x : Int) : Q) := by
  have h := Rat.lt_floor_add_one (x + 1/2)
  unfold otRound
  have e : (((x + 1/2).floor + 1 : Int) : Q) = ((x + 1/2).floor : Q) + 1 := by simp [Rat.intCast_add]
  rw [e] at h
  grind

theorem floor_eq (x : Q) (k : Int) (h1 : (k : Q) ≤ x) (h2 : x < ((k + 1 : Int) : Q)) : x.floor = k := by
  have a : k ≤ x.floor := Rat.le_floor_iff.mpr h1
  have b : x.floor < k + 1 := Rat.floor_lt_iff.mpr h2
  omega

theorem quantize_zero (q : Q) : quantize 0 q = 0 := by
  unfold quantize otRound
  have : (0 : Q) / q + 1/2 = 1/2 := by grind
  rw [this]
  have : (1/2 : Q).floor = 0 := floor_eq _ 0 (by grind) (by rw [Rat.intCast_add]; grind)
  rw [this]; grind

theorem div_mul_self (v q : Q) (hq : 0 < q) : q * (v / q) = v := by
  have hne : q ≠ 0 := by intro h; rw [h] at hq; exact absurd hq (by decide)
  rw [Rat.div_def, Rat.mul_comm v, ← Rat.mul_assoc, Rat.mul_inv_cancel q hne, Rat.one_mul]

/-- Target 4: for a positive step the result lies within half a step of the value, the upper bound being strict … -/
theorem quantize_near (v q : Q) (hq : 0 < q) : v - q / 2 < quantize v q ∧ quantize v q ≤ v + q / 2 := by
  unfold quantize
  have h1 := otRound_le (v / q)
  have h2 := lt_otRound (v / q)
  have e := div_mul_self v q hq
  generalize ((otRound (v / q) : Int) : Q) = n at h1 h2
  generalize v / q = x at h1 h2 e
  subst e
  have m1 : q * n ≤ q * (x + 1/2) := Rat.mul_le_mul_of_nonneg_left h1 (Rat.le_of_lt hq)
  have m2 : q * (x - 1/2) < q * n := Rat.mul_lt_mul_of_pos_left h2 hq
  constructor <;> grind

/-- … so |quantize v q − v| ≤ q/2 -/
theorem quantize_abs (v q : Q) (hq : 0 < q) : absQ (quantize v q - v) ≤ q / 2 := by
  obtain ⟨h1, h2⟩ := quantize_near v q hq
  unfold absQ
  split <;> grind

/-- an exact half rounds up: q·(k + ½) ↦ q·(k+1) -/
theorem quantize_half_up (k : Int) (q : Q) (hq : 0 < q) : quantize (q * ((k : Q) + 1/2)) q = q * ((k : Q) + 1) := by
  unfold quantize otRound
  have hne : q ≠ 0 := by intro h; rw [h] at hq; exact absurd hq (by decide)
  have e : q * ((k : Q) + 1/2) / q + 1/2 = ((k + 1 : Int) : Q) := by
    rw [Rat.div_def, Rat.mul_comm q, Rat.mul_assoc, Rat.mul_inv_cancel q hne, Rat.mul_one, Rat.intCast_add]
    grind
  rw [e, Rat.floor_intCast, Rat.intCast_add]
  simp

/-- a value that already is a multiple of the step is unchanged -/
theorem quantize_multiple_fixed (k : Int) (q : Q) (hq : 0 < q) : quantize (q * (k : Q)) q = q * (k : Q) := by
  unfold quantize otRound
  have hne : q ≠ 0 := by intro h; rw [h] at hq; exact absurd hq (by decide)
  have e : q * (k : Q) / q = (k : Q) := by
    rw [Rat.div_def, Rat.mul_comm q, Rat.mul_assoc, Rat.mul_inv_cancel q hne, Rat.mul_one]
  rw [e]
  have : ((k : Q) + 1/2).floor = k := floor_eq _ k (by grind) (by rw [Rat.intCast_add]; grind)
  rw [this]

/-- non-vacuity: 12.5 with step 5 goes up to 15, and so does −12.5 go up to −10 -/
example : quantize (5 * (((2 : Int) : Q) + 1/2)) 5 = 5 * (((2 : Int) : Q) + 1) ∧
    quantize (5 * (((-3 : Int) : Q) + 1/2)) 5 = 5 * (((-3 : Int) : Q) + 1) :=
  ⟨quantize_half_up 2 5 (by decide), quantize_half_up (-3) 5 (by decide)⟩

end Ufo2ft.C05
