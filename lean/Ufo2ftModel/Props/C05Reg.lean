import Ufo2ftModel.Spec.C05
/-! C05, part 7: `_registerLookups` — which lookups are referenced under which script tag, each once. -/
namespace Ufo2ft.C05
open Ufo2ft List

theorem nodup_dedupNames (l : List String) : (dedupNames l).Nodup := by
  unfold dedupNames
  generalize hn : l.length = n
  induction n using Nat.strongRecOn generalizing l with
  | _ n ih =>
    cases l with
    | nil => simp
    | cons a t =>
      rw [eraseDups_cons]
      refine nodup_cons.mpr ⟨?_, ?_⟩
      · simp [mem_eraseDups]
      · have hl : (t.filter fun b => !b == a).length < n := by
          subst hn; simp only [length_cons]; exact Nat.lt_succ_of_le (length_filter_le _ _)
        exact ih _ hl _ rfl

theorem mem_dedupNames (l : List String) (x : String) : x ∈ dedupNames l ↔ x ∈ l := by
  unfold dedupNames; exact mem_eraseDups

/-- the names of the lookups made for script `s` -/
def namesOf (m : LookupMap) (s : String) : List String := ((alookup s m).getD []).map (·.1)

/-- the names of all lookups of the non-dist scripts of one direction, in script order -/
def dirNames (c : Ctx) (r : RegCtx) (m : LookupMap) (d : String) : List String :=
  ((sortStr (m.map (·.1))).filter (fun s => !r.dist.contains s && c.dir s == d)).flatMap (namesOf m)

/-- what is referenced under DFLT by the kern feature -/
def dfltNames (c : Ctx) (r : RegCtx) (m : LookupMap) : List String :=
  dedupNames (dedupNames (namesOf m COMMON) ++
    (if (dirNames c r m "LTR").isEmpty then dirNames c r m "RTL" else dirNames c r m "LTR"))

/-- the references of one script, per OpenType tag -/
def scriptRegs (r : RegCtx) (m : LookupMap) (s : String) : List Reg :=
  ((alookup s r.otTags).getD []).map (fun tag =>
    (⟨tag, langsOf r tag, dedupNames ((DFLT_SCRIPTS.flatMap (namesOf m)) ++ namesOf m s)⟩ : Reg))

def refScripts (r : RegCtx) (isKern : Bool) (m : LookupMap) : List String :=
  (sortStr (m.map (·.1))).filter (fun s => (if isKern then !r.dist.contains s else r.dist.contains s) && !DFLT_SCRIPTS.contains s)

theorem registerLookups_kern (c : Ctx) (r : RegCtx) (m : LookupMap) :
    registerLookups c r true m =
      (if (dfltNames c r m).isEmpty then [] else [(⟨"DFLT", langsOf r "DFLT", dfltNames c r m⟩ : Reg)]) ++
        (refScripts r true m).flatMap (scriptRegs r m) := rfl

theorem registerLookups_dist (c : Ctx) (r : RegCtx) (m : LookupMap) :
    registerLookups c r false m = (refScripts r false m).flatMap (scriptRegs r m) := rfl

theorem mem_dirNames (c : Ctx) (r : RegCtx) (m : LookupMap) (d n : String) :
    n ∈ dirNames c r m d ↔ ∃ s ∈ m.map (·.1), r.dist.contains s = false ∧ c.dir s = d ∧ n ∈ namesOf m s := by
  unfold dirNames
  simp only [mem_flatMap, mem_filter, (sortStr_perm _).mem_iff, Bool.and_eq_true, Bool.not_eq_true', beq_iff_eq]
  constructor
  · rintro ⟨s, ⟨hs, hd, hdir⟩, hn⟩; exact ⟨s, hs, hd, hdir, hn⟩
  · rintro ⟨s, hs, hd, hdir, hn⟩; exact ⟨s, ⟨hs, hd, hdir⟩, hn⟩

/-- Target 7 (DFLT): under DFLT the kern feature references the Common lookups and all lookups of the left-to-right scripts —
    of the right-to-left scripts if there is no left-to-right one — (dist scripts excluded), each exactly once -/
theorem C05_dflt (c : Ctx) (r : RegCtx) (m : LookupMap) :
    (dfltNames c r m).Nodup ∧
    (∀ n, n ∈ dfltNames c r m ↔ n ∈ namesOf m COMMON ∨
      n ∈ (if (dirNames c r m "LTR").isEmpty then dirNames c r m "RTL" else dirNames c r m "LTR")) ∧
    (dfltNames c r m ≠ [] → (registerLookups c r true m).head? = some ⟨"DFLT", langsOf r "DFLT", dfltNames c r m⟩) := by
  refine ⟨nodup_dedupNames _, ?_, ?_⟩
  · intro n
    unfold dfltNames
    rw [mem_dedupNames, mem_append, mem_dedupNames]
  · intro hne
    rw [registerLookups_kern]
    have : (dfltNames c r m).isEmpty = false := by
      cases h : dfltNames c r m with
      | nil => exact absurd h hne
      | cons _ _ => rfl
    rw [this]; rfl

/-- Target 7 (scripts): every script that has lookups, is not a dist script (for `kern`; is one, for `dist`) and is not
    Common/Inherited gets, under each of its OpenType tags, a reference list that is duplicate-free, starts from the Common and
    Inherited lookups and contains every lookup of the script; nothing else is in it; the default language comes first -/
theorem C05_register (c : Ctx) (r : RegCtx) (isKern : Bool) (m : LookupMap) (s tag : String)
    (hs : s ∈ m.map (·.1)) (hd : r.dist.contains s = !isKern) (hc : DFLT_SCRIPTS.contains s = false)
    (ht : tag ∈ (alookup s r.otTags).getD []) :
    ∃ reg ∈ registerLookups c r isKern m, reg.script = tag ∧ reg.languages.head? = some "dflt" ∧ reg.lookups.Nodup ∧
      reg.lookups = dedupNames (namesOf m "Zyyy" ++ namesOf m "Zinh" ++ namesOf m s) ∧
      (∀ n, n ∈ reg.lookups ↔ n ∈ namesOf m "Zyyy" ∨ n ∈ namesOf m "Zinh" ∨ n ∈ namesOf m s) := by
  have hin : s ∈ refScripts r isKern m := by
    unfold refScripts
    rw [mem_filter, (sortStr_perm _).mem_iff]
    refine ⟨hs, ?_⟩
    cases isKern <;> simp_all
  have hreg : (⟨tag, langsOf r tag, dedupNames ((DFLT_SCRIPTS.flatMap (namesOf m)) ++ namesOf m s)⟩ : Reg) ∈ scriptRegs r m s :=
    mem_map.mpr ⟨tag, ht, rfl⟩
  have hflat : DFLT_SCRIPTS.flatMap (namesOf m) = namesOf m "Zyyy" ++ namesOf m "Zinh" := by
    simp [DFLT_SCRIPTS]
  refine ⟨⟨tag, langsOf r tag, dedupNames ((DFLT_SCRIPTS.flatMap (namesOf m)) ++ namesOf m s)⟩, ?_, rfl, rfl,
    nodup_dedupNames _, by rw [hflat], ?_⟩
  · cases isKern with
    | true => rw [registerLookups_kern]; exact mem_append_right _ (mem_flatMap.mpr ⟨s, hin, hreg⟩)
    | false => rw [registerLookups_dist]; exact mem_flatMap.mpr ⟨s, hin, hreg⟩
  · intro n
    dsimp only
    rw [mem_dedupNames, hflat, mem_append, mem_append, or_assoc]

/-- every reference list that is written, for either feature, is duplicate-free -/
theorem C05_register_nodup (c : Ctx) (r : RegCtx) (isKern : Bool) (m : LookupMap) :
    ∀ reg ∈ registerLookups c r isKern m, reg.lookups.Nodup := by
  intro reg hreg
  have hs : ∀ reg ∈ (refScripts r isKern m).flatMap (scriptRegs r m), reg.lookups.Nodup := by
    intro reg h
    obtain ⟨s, _, h⟩ := mem_flatMap.mp h
    obtain ⟨tag, _, rfl⟩ := mem_map.mp h
    exact nodup_dedupNames _
  cases isKern with
  | false => rw [registerLookups_dist] at hreg; exact hs reg hreg
  | true =>
    rw [registerLookups_kern] at hreg
    rcases mem_append.mp hreg with h | h
    · split at h
      · cases h
      · simp only [mem_singleton] at h; subst h; exact nodup_dedupNames _
    · exact hs reg h

/-- non-vacuity: Latin and Arabic lookups plus a Common one -/
def exMap : LookupMap :=
  [("Zyyy", [("kern_Default", ⟨"kern_Default", true, []⟩)]), ("Latn", [("kern_Latn", ⟨"kern_Latn", true, []⟩)]),
   ("Arab", [("kern_Arab", ⟨"kern_Arab", true, []⟩)])]
def exReg : RegCtx := { dist := [], otTags := [("Latn", ["latn"]), ("Arab", ["arab"]), ("Zyyy", ["DFLT"])], langs := [] }
def exDirCtx : Ctx := { glyphScripts := [], scriptDir := [("Arab", "RTL"), ("Latn", "LTR")], bidiR := [], bidiL := [] }

example : ∃ reg ∈ registerLookups exDirCtx exReg true exMap, reg.script = "arab" ∧ reg.lookups.Nodup ∧
    "kern_Default" ∈ reg.lookups ∧ "kern_Arab" ∈ reg.lookups := by
  obtain ⟨reg, h1, h2, _, h4, _, h6⟩ := C05_register exDirCtx exReg true exMap "Arab" "arab" (by decide) (by decide) (by decide) (by decide)
  exact ⟨reg, h1, h2, h4, (h6 _).mpr (Or.inl (by decide)), (h6 _).mpr (Or.inr (Or.inr (by decide)))⟩

example : (registerLookups exDirCtx exReg true exMap).head? =
    some ⟨"DFLT", langsOf exReg "DFLT", dfltNames exDirCtx exReg exMap⟩ ∧ "kern_Latn" ∈ dfltNames exDirCtx exReg exMap := by
  have h := C05_dflt exDirCtx exReg exMap
  have hin : "kern_Default" ∈ dfltNames exDirCtx exReg exMap := (h.2.1 _).mpr (Or.inl (by decide))
  have hl : "kern_Latn" ∈ dirNames exDirCtx exReg exMap "LTR" :=
    (mem_dirNames _ _ _ _ _).mpr ⟨"Latn", by decide, by decide, by decide, by decide⟩
  refine ⟨h.2.2 (by intro e; rw [e] at hin; cases hin), (h.2.1 _).mpr (Or.inr ?_)⟩
  have : (dirNames exDirCtx exReg exMap "LTR").isEmpty = false := by
    cases hh : dirNames exDirCtx exReg exMap "LTR" with
    | nil => rw [hh] at hl; cases hl
    | cons _ _ => rfl
  rw [this]; exact hl

end Ufo2ft.C05
