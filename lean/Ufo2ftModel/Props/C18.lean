import Ufo2ftModel.Spec.C18
/-! Property C18: theorems about the model. -/
namespace Ufo2ft.C18
open List

/-! ### rounding and quantisation -/

theorem otRound_mono {x y : Q} (h : x ≤ y) : otRound x ≤ otRound y := by
  unfold otRound
  rw [Rat.le_floor_iff]
  exact Rat.le_trans (Rat.floor_le _) (Rat.add_le_add_right.mpr h)

/-- otRound is within half a unit, ties upwards -/
theorem otRound_bounds (x : Q) : ((otRound x : Int) : Q) ≤ x + 1/2 ∧ x + 1/2 < ((otRound x + 1 : Int) : Q) := by
  unfold otRound
  exact ⟨Rat.floor_le _, Rat.lt_floor_add_one _⟩

/-- **C18_quantize**: `quantize` returns the multiple of the step nearest to the value (ties upwards) -/
theorem C18_quantize (q v : Q) (hq : 0 < q) : nearestMultiple q v (quantize v q) = true := by
  have hq0 : q ≠ 0 := by intro h; rw [h] at hq; exact absurd hq (by decide)
  obtain ⟨h1, h2⟩ := otRound_bounds (v / q)
  have e1 : quantize v q / q = ((otRound (v / q) : Int) : Q) := by unfold quantize; grind
  have a1 := Rat.mul_le_mul_of_nonneg_left h1 (Rat.le_of_lt hq)
  have a2 := Rat.mul_lt_mul_of_pos_left h2 hq
  have e2 : q * (v / q + 1/2) = v + q / 2 := by grind
  have e3 : ((otRound (v / q) + 1 : Int) : Q) = ((otRound (v / q) : Int) : Q) + 1 := by
    simp [Rat.intCast_add]
  rw [e2] at a1 a2
  rw [e3] at a2
  unfold nearestMultiple
  rw [e1, Rat.floor_intCast]
  simp only [beq_self_eq_true, Bool.true_and, Bool.and_eq_true, decide_eq_true_eq]
  unfold quantize
  constructor <;> grind

def quantPos (quant : Option Q) : Prop := ∀ q, quant = some q → 0 < q

theorem quantOk_quantOpt (quant : Option Q) (h : quantPos quant) (v : Q) : quantOk quant v (quantOpt quant v) = true := by
  cases quant with
  | none => simp [quantOk, quantOpt]
  | some q => simpa [quantOk, quantOpt] using C18_quantize q v (h q rfl)

/-- **C18_anchor**: `_getAnchor` returns nothing iff no anchor has the name, else the first such anchor's
coordinates, quantised to the nearest multiple -/
theorem C18_anchor (quant : Option Q) (h : quantPos quant) (anchors : List Anchor) (nm : String) :
    holdsAnchor quant anchors nm (getAnchor quant anchors nm) = true := by
  unfold holdsAnchor getAnchor
  cases hf : anchors.find? (fun a => a.name == some nm) with
  | none => simp
  | some a => simp [quantOk_quantOpt quant h]

/-! ### categories -/

theorem mem_addSet [BEq α] [LawfulBEq α] (s : List α) (a x : α) : x ∈ addSet s a ↔ x ∈ s ∨ x = a := by
  unfold addSet
  by_cases h : a ∈ s
  · simp only [contains_eq_mem, h, decide_true, if_true]
    constructor
    · exact Or.inl
    · rintro (h' | rfl)
      · exact h'
      · exact h
  · simp [h]

theorem nodup_addSet [BEq α] [LawfulBEq α] (s : List α) (a : α) (h : s.Nodup) : (addSet s a).Nodup := by
  unfold addSet
  by_cases hc : a ∈ s
  · simp [hc, h]
  · simp only [contains_eq_mem, hc, decide_false]
    exact nodup_append.mpr ⟨h, by simp, by intro x hx y hy e; simp at hy; subst hy; subst e; exact hc hx⟩

def Cats.get (c : Cats) (cat : String) : List String :=
  if cat == "unassigned" then c.unassigned else if cat == "base" then c.base
  else if cat == "ligature" then c.ligature else if cat == "mark" then c.mark
  else if cat == "component" then c.component else []
def validCat (cat : String) : Bool :=
  cat == "unassigned" || cat == "base" || cat == "ligature" || cat == "mark" || cat == "component"

theorem get_of_invalid (c : Cats) (cat : String) (h : validCat cat = false) : c.get cat = [] := by
  simp only [validCat, Bool.or_eq_false_iff, beq_eq_false_iff_ne] at h
  simp [Cats.get, h]

/-- closed form of one step of the loading loop -/
theorem loadStep_get (c : Cats) (e : String × String) (cat : String) :
    (loadStep c e).get cat = if validCat cat && e.2 == cat then addSet (c.get cat) e.1 else c.get cat := by
  obtain ⟨k, v⟩ := e
  cases hc : validCat cat with
  | false => simp [get_of_invalid _ _ hc]
  | true =>
    cases hv : validCat v with
    | false =>
      have hne : (v == cat) = false := by
        apply beq_false_of_ne; intro e; rw [e, hc] at hv; cases hv
      have hl : loadStep c (k, v) = c := by
        simp only [validCat, Bool.or_eq_false_iff, beq_eq_false_iff_ne] at hv
        simp [loadStep, hv]
      simp [hl, hne]
    | true =>
      simp only [validCat, Bool.or_eq_true, beq_iff_eq] at hc hv
      rcases hv with ((((rfl | rfl) | rfl) | rfl) | rfl) <;>
        rcases hc with ((((rfl | rfl) | rfl) | rfl) | rfl) <;>
        simp [loadStep, Cats.get]

theorem loadStep_mem (c : Cats) (e : String × String) (cat g : String) (hv : validCat cat = true) :
    g ∈ (loadStep c e).get cat ↔ g ∈ c.get cat ∨ (g, cat) = e := by
  rw [loadStep_get, hv]
  by_cases h : e.2 = cat
  · simp only [Bool.true_and, beq_iff_eq, h, if_true, mem_addSet]
    constructor
    · rintro (h' | rfl)
      · exact Or.inl h'
      · right; rw [← h]
    · rintro (h' | h')
      · exact Or.inl h'
      · right; rw [← h']
  · have : (e.2 == cat) = false := beq_false_of_ne h
    simp only [this, Bool.and_false, Bool.false_eq_true, if_false]
    constructor
    · exact Or.inl
    · rintro (h' | h')
      · exact h'
      · exact absurd (by rw [← h']) h

theorem loadStep_nodup (c : Cats) (e : String × String) (cat : String) (h : (c.get cat).Nodup) :
    ((loadStep c e).get cat).Nodup := by
  rw [loadStep_get]
  split
  · exact nodup_addSet _ _ h
  · exact h

theorem foldl_loadStep_mem (items : List (String × String)) (c : Cats) (cat g : String) (hv : validCat cat = true) :
    g ∈ (items.foldl loadStep c).get cat ↔ g ∈ c.get cat ∨ (g, cat) ∈ items := by
  induction items generalizing c with
  | nil => simp
  | cons e items ih =>
    rw [foldl_cons, ih, loadStep_mem c e cat g hv, mem_cons]
    constructor
    · rintro ((h | h) | h)
      · exact Or.inl h
      · exact Or.inr (Or.inl h)
      · exact Or.inr (Or.inr h)
    · rintro (h | h | h)
      · exact Or.inl (Or.inl h)
      · exact Or.inl (Or.inr h)
      · exact Or.inr h

theorem foldl_loadStep_nodup (items : List (String × String)) (c : Cats) (cat : String) (h : (c.get cat).Nodup) :
    ((items.foldl loadStep c).get cat).Nodup := by
  induction items generalizing c with
  | nil => exact h
  | cons e items ih => rw [foldl_cons]; exact ih _ (loadStep_nodup c e cat h)

/-- `OpenTypeCategories.load`: a name is in a class set iff the map has that (name, category) item -/
theorem mem_loadCategories (items : List (String × String)) (cat g : String) (hv : validCat cat = true) :
    g ∈ (loadCategories items).get cat ↔ (g, cat) ∈ items := by
  unfold loadCategories
  rw [foldl_loadStep_mem items {} cat g hv]
  simp only [validCat, Bool.or_eq_true, beq_iff_eq] at hv
  rcases hv with ((((rfl | rfl) | rfl) | rfl) | rfl) <;> simp [Cats.get]

theorem nodup_loadCategories (items : List (String × String)) (cat : String) :
    ((loadCategories items).get cat).Nodup := by
  unfold loadCategories
  apply foldl_loadStep_nodup
  simp only [Cats.get]
  repeat' split
  all_goals simp

theorem str_lt_of_le_ne {a b : String} (h : a ≤ b) (hn : a ≠ b) : a < b := by
  apply Classical.byContradiction
  intro hlt
  exact hn (String.le_antisymm h (String.not_lt.mp hlt))

theorem sortStr_strict {l : List String} (h : l.Nodup) : (sortStr l).Pairwise (· < ·) := by
  have h1 := sortStr_sorted l
  have h2 : (sortStr l).Pairwise (· ≠ ·) := nodup_iff_pairwise_ne.mp ((sortStr_perm l).nodup_iff.mpr h)
  exact (h1.and h2).imp (fun ⟨a, b⟩ => str_lt_of_le_ne a b)

theorem mem_sortStr {l : List String} {x : String} : x ∈ sortStr l ↔ x ∈ l := (sortStr_perm l).mem_iff

/-- **C18_categories**: `OpenTypeCategories.load` sorts every (name, category) item into the set of its
category and drops items with any other category string -/
theorem C18_categories (items : List (String × String)) :
    let c := loadCategories items
    holdsCats items ([c.unassigned, c.base, c.ligature, c.mark, c.component].map sortStr) = true := by
  have key : ∀ cat, validCat cat = true →
      catListOk items cat (sortStr ((loadCategories items).get cat)) = true := by
    intro cat hv
    unfold catListOk strictSorted
    simp only [Bool.and_eq_true, decide_eq_true_eq, all_eq_true, contains_eq_mem, Bool.or_eq_true, bne_iff_ne, ne_eq]
    refine ⟨⟨sortStr_strict (nodup_loadCategories items cat), ?_⟩, ?_⟩
    · intro g hg; exact (mem_loadCategories items cat g hv).mp (mem_sortStr.mp hg)
    · intro e he
      by_cases hc : e.2 = cat
      · right; apply mem_sortStr.mpr; apply (mem_loadCategories items cat e.1 hv).mpr; rw [← hc]; exact he
      · left; exact hc
  simp only [holdsCats, map_cons, map_nil, Bool.and_eq_true]
  exact ⟨⟨⟨⟨key "unassigned" rfl, key "base" rfl⟩, key "ligature" rfl⟩, key "mark" rfl⟩, key "component" rfl⟩


/-! ### GDEF classes -/

theorem alookup_eq_some_iff {l : List (String × String)} (h : (l.map (·.1)).Nodup) (k v : String) :
    alookup k l = some v ↔ (k, v) ∈ l := by
  induction l with
  | nil => simp [alookup]
  | cons e l ih =>
    obtain ⟨k', v'⟩ := e
    simp only [map_cons, nodup_cons] at h
    simp only [alookup, mem_cons, Prod.mk.injEq]
    by_cases hk : k' = k
    · subst hk
      simp only [beq_self_eq_true, if_true, Option.some.injEq, true_and]
      constructor
      · intro e; exact Or.inl e.symm
      · rintro (e | hm)
        · exact e.symm
        · exact absurd (mem_map.mpr ⟨(k', v), hm, rfl⟩) h.1
    · have : (k' == k) = false := beq_false_of_ne hk
      simp only [this, Bool.false_eq_true, if_false]
      constructor
      · intro h'; exact Or.inr ((ih h.2).mp h')
      · rintro (⟨e, _⟩ | hm)
        · exact absurd e.symm hk
        · exact (ih h.2).mpr hm

/-- well-formedness of the UFO data: dictionary keys are unique, the glyph set has unique names -/
structure WF (i : Input) : Prop where
  keys : (i.categories.map (·.1)).Nodup
  names : (glyphNames i).Nodup

theorem mem_sortedGlyphClass (names s : List String) (g : String) :
    g ∈ sortedGlyphClass names s ↔ g ∈ names ∧ g ∈ s := by
  unfold sortedGlyphClass
  rw [mem_sortStr]; simp

theorem classIs_model (i : Input) (h : WF i) (cat : String) (hv : validCat cat = true) :
    classIs i cat (sortedGlyphClass (glyphNames i) ((loadCategories i.categories).get cat)) = true := by
  unfold classIs strictSorted
  simp only [Bool.and_eq_true, decide_eq_true_eq, all_eq_true, contains_eq_mem, Bool.or_eq_true, bne_iff_ne, ne_eq,
    beq_iff_eq]
  have hiff : ∀ g, catOf i g = some cat ↔ g ∈ (loadCategories i.categories).get cat := by
    intro g; unfold catOf; rw [alookup_eq_some_iff h.keys, mem_loadCategories _ _ _ hv]
  refine ⟨⟨sortStr_strict (h.names.filter _), ?_⟩, ?_⟩
  · intro g hg
    have := (mem_sortedGlyphClass _ _ _).mp hg
    exact ⟨this.1, (hiff g).mpr this.2⟩
  · intro g hg
    by_cases hc : catOf i g = some cat
    · right; exact (mem_sortedGlyphClass _ _ _).mpr ⟨hg, (hiff g).mp hc⟩
    · left; exact hc

theorem expects_of_none (i : Input) (h : WF i) (hn : (loadCategories i.categories).any = false) :
    expectsAnyClass i = false := by
  have key : ∀ cat, validCat cat = true → (loadCategories i.categories).get cat = [] → expectsClass i cat = false := by
    intro cat hv he
    unfold expectsClass
    rw [Bool.eq_false_iff]
    intro hex
    simp only [any_eq_true, beq_iff_eq] at hex
    obtain ⟨g, _, hg⟩ := hex
    unfold catOf at hg
    rw [alookup_eq_some_iff h.keys] at hg
    have := (mem_loadCategories _ _ _ hv).mpr hg
    rw [he] at this; cases this
  simp only [Cats.any, Bool.or_eq_false_iff, Bool.not_eq_false', isEmpty_iff] at hn
  obtain ⟨⟨⟨⟨_, hb⟩, hl⟩, hm⟩, hc⟩ := hn
  unfold expectsAnyClass
  rw [key "base" rfl (by simpa [Cats.get] using hb), key "ligature" rfl (by simpa [Cats.get] using hl),
    key "mark" rfl (by simpa [Cats.get] using hm), key "component" rfl (by simpa [Cats.get] using hc)]
  rfl

/-- the to-do pruning regards every GDEF block of the user's features -/
theorem todo_eq (i : Input) :
    gdefTodo i.blocks = (!userAnyClassDef i, !userAnyCarets i) := by
  unfold gdefTodo userAnyClassDef userAnyCarets
  cases i.blocks with
  | nil => simp
  | cons b bs => rfl

/-- **C18_classes** (any number of user GDEF blocks; ufo2ft's repair of "gdef-statement-in-later-user-block-ignored"): the emitted GlyphClassDef lists, per class, exactly the exported glyphs whose
`public.openTypeCategories` value is that class, strictly sorted; it is emitted whenever some exported
glyph has a class; nothing is emitted when any of the user's GDEF blocks defines the classes. -/
theorem C18_classes (i : Input) (h : WF i) :
    holdsClassesFea i (gdefWrite i.quant i.glyphs i.categories i.blocks).classDef = true := by
  unfold holdsClassesFea gdefWrite
  simp only [todo_eq i]
  cases hu : userAnyClassDef i with
  | true => simp
  | false =>
    simp only [Bool.not_false, Bool.true_and, Bool.false_eq_true, if_false]
    cases ha : (loadCategories i.categories).any with
    | false => simp [expects_of_none i h ha]
    | true =>
      simp only [if_true, Bool.and_eq_true]
      have := classIs_model i h
      exact ⟨⟨⟨by simpa [Cats.get, glyphNames] using this "base" rfl, by simpa [Cats.get, glyphNames] using this "ligature" rfl⟩,
        by simpa [Cats.get, glyphNames] using this "mark" rfl⟩, by simpa [Cats.get, glyphNames] using this "component" rfl⟩


/-- the class definition the writer emits when nothing stops it -/
def modelClassDef (i : Input) : ClassDef :=
  let names := i.glyphs.map (·.name)
  let cats := loadCategories i.categories
  { base := sortedGlyphClass names cats.base, mark := sortedGlyphClass names cats.mark,
    ligature := sortedGlyphClass names cats.ligature, component := sortedGlyphClass names cats.component }

theorem classDef_eq (i : Input) (cd : ClassDef)
    (hcd : (gdefWrite i.quant i.glyphs i.categories i.blocks).classDef = some cd) : cd = modelClassDef i := by
  unfold gdefWrite at hcd
  simp only at hcd
  split at hcd
  · exact (Option.some.inj hcd).symm
  · cases hcd

theorem mem_modelClass (i : Input) (h : WF i) (cat g : String) (hv : validCat cat = true) (hg : g ∈ glyphNames i) :
    g ∈ sortedGlyphClass (i.glyphs.map (·.name)) ((loadCategories i.categories).get cat) ↔ catOf i g = some cat := by
  rw [mem_sortedGlyphClass]
  unfold catOf
  rw [alookup_eq_some_iff h.keys, mem_loadCategories _ _ _ hv]
  exact ⟨fun x => x.2, fun x => ⟨hg, x⟩⟩

theorem mem_modelClassDef (i : Input) (h : WF i) (g : String) (hg : g ∈ glyphNames i) :
    (g ∈ (modelClassDef i).base ↔ catOf i g = some "base") ∧
    (g ∈ (modelClassDef i).ligature ↔ catOf i g = some "ligature") ∧
    (g ∈ (modelClassDef i).mark ↔ catOf i g = some "mark") ∧
    (g ∈ (modelClassDef i).component ↔ catOf i g = some "component") :=
  ⟨mem_modelClass i h "base" g rfl hg, mem_modelClass i h "ligature" g rfl hg,
   mem_modelClass i h "mark" g rfl hg, mem_modelClass i h "component" g rfl hg⟩

/-- the compiled class of an exported glyph is the code of its category -/
theorem fontClassOf_model (i : Input) (h : WF i) (g : String) (hg : g ∈ glyphNames i) :
    fontClassOf (modelClassDef i) g = catCode (catOf i g) := by
  obtain ⟨hb, hl, hm, hc⟩ := mem_modelClassDef i h g hg
  unfold fontClassOf catCode
  simp only [contains_eq_mem, decide_eq_true_eq, beq_iff_eq, hb, hl, hm, hc]

theorem map_fst_fontClasses_sublist (names : List String) (cd : ClassDef) :
    ((fontClasses names cd).map (·.1)).Sublist names := by
  unfold fontClasses
  induction names with
  | nil => simp
  | cons g names ih =>
    rw [filterMap_cons]
    cases hf : fontClassOf cd g with
    | none => simpa [hf] using Sublist.cons g ih
    | some c => simpa [hf] using ih.cons_cons g

theorem mem_fontClasses (names : List String) (cd : ClassDef) (g : String) (c : Nat) :
    (g, c) ∈ fontClasses names cd ↔ g ∈ names ∧ fontClassOf cd g = some c := by
  unfold fontClasses
  simp only [mem_filterMap, Option.map_eq_some_iff, Prod.mk.injEq]
  constructor
  · rintro ⟨a, ha, c', hc', rfl, rfl⟩; exact ⟨ha, hc'⟩
  · rintro ⟨hg, hc⟩; exact ⟨g, hg, c, hc, rfl, rfl⟩

/-- **C18_classes_font**: with no class definition in the user's features, the compiled glyph class of
every exported glyph is the code of its `public.openTypeCategories` value (none for 'unassigned',
invalid or missing values), each glyph classified at most once, foreign names absent. -/
theorem C18_classes_font (i : Input) (h : WF i) (u : UserGdef) (hu : userAnyClassDef i = false) (cd : ClassDef)
    (hcd : (gdefWrite i.quant i.glyphs i.categories i.blocks).classDef = some cd) :
    holdsClassesFont i u (fontClasses (glyphNames i) cd) = true := by
  rw [classDef_eq i cd hcd]
  unfold holdsClassesFont
  simp only [hu, Bool.false_eq_true, if_false]
  split
  · simp only [Bool.and_eq_true, decide_eq_true_eq, all_eq_true, contains_eq_mem, beq_iff_eq]
    refine ⟨⟨(map_fst_fontClasses_sublist _ _).nodup h.names, ?_⟩, ?_⟩
    · rintro ⟨g, c⟩ he
      have := (mem_fontClasses _ _ _ _).mp he
      exact ⟨this.1, by rw [← fontClassOf_model i h g this.1]; exact this.2⟩
    · intro g hg
      cases hc : catCode (catOf i g) with
      | none => trivial
      | some c =>
        simp only [decide_eq_true_eq]
        exact (mem_fontClasses _ _ _ _).mpr ⟨hg, by rw [fontClassOf_model i h g hg]; exact hc⟩
  · rfl

/-- **C18_classes_disjoint**: no glyph is listed in two classes of the emitted definition -/
theorem C18_classes_disjoint (i : Input) (h : WF i) (g : String) :
    let cd := modelClassDef i
    (g ∈ cd.base → g ∉ cd.ligature ∧ g ∉ cd.mark ∧ g ∉ cd.component) ∧
    (g ∈ cd.ligature → g ∉ cd.mark ∧ g ∉ cd.component) ∧ (g ∈ cd.mark → g ∉ cd.component) := by
  by_cases hg : g ∈ glyphNames i
  · obtain ⟨hb, hl, hm, hc⟩ := mem_modelClassDef i h g hg
    simp only [hb, hl, hm, hc]
    refine ⟨?_, ?_, ?_⟩ <;> intro e <;> simp [e]
  · have : ∀ s, g ∉ sortedGlyphClass (i.glyphs.map (·.name)) s := by
      intro s hc
      exact hg ((mem_sortedGlyphClass _ _ _).mp hc).1
    simp only [modelClassDef]
    refine ⟨?_, ?_, ?_⟩ <;> intro e <;> exact absurd e (this _)

/-- **C18_user_left_alone**: when any of the user's GDEF blocks has a GlyphClassDef, resp. a
LigatureCaretBy* statement, the writer emits none of its own -/
theorem C18_user_left_alone (i : Input) :
    let o := gdefWrite i.quant i.glyphs i.categories i.blocks
    (userAnyClassDef i = true → o.classDef = none) ∧ (userAnyCarets i = true → o.carets = none) := by
  simp only [gdefWrite, todo_eq i]
  constructor <;> intro h <;> simp [h]

/-- the first-block scan agrees with the present one when there is at most one block -/
theorem gdefTodoOld_eq (blocks : List UserBlock) (h : blocks.length ≤ 1) : gdefTodoOld blocks = gdefTodo blocks := by
  match blocks, h with
  | [], _ => rfl
  | [b], _ => simp [gdefTodoOld, gdefTodo]

/-- LABELLED COUNTEREXAMPLE about the OLD function (`gdefTodoOld`, not part of `run`): before the repair the code
inspected the first GDEF block only, so a GlyphClassDef (or caret statement) in a second block did not stop the
writer — the shape "gdef-statement-in-later-user-block-ignored" -/
example : let blocks : List UserBlock := [⟨false, false⟩, ⟨true, true⟩]
    gdefTodoOld blocks = (true, true) ∧ gdefTodo blocks = (false, false) := by decide

/-- two blocks, the statements in the second one: nothing is generated -/
def exTwoBlocks : Input :=
  { glyphs := [⟨"a", []⟩, ⟨"f_i", [⟨some "caret_1", 250, 0⟩]⟩], categories := [("a", "base")],
    blocks := [⟨false, false⟩, ⟨true, true⟩], quant := none, dir := { anyLtrCp := false, ltr := none }, cursTodo := true }

example : (gdefWrite exTwoBlocks.quant exTwoBlocks.glyphs exTwoBlocks.categories exTwoBlocks.blocks).classDef = none ∧
    (gdefWrite exTwoBlocks.quant exTwoBlocks.glyphs exTwoBlocks.categories exTwoBlocks.blocks).carets = none := by
  simp [gdefWrite, gdefTodo, exTwoBlocks]


/-! ### ligature carets -/

theorem sortQ_sorted (l : List Q) : (sortQ l).Pairwise (· ≤ ·) := by
  have h := pairwise_mergeSort (le := ratLe)
    (by intro a b c; simp only [ratLe, decide_eq_true_eq]; exact Rat.le_trans)
    (by intro a b; simp only [ratLe, Bool.or_eq_true, decide_eq_true_eq]; exact Rat.le_total) l
  simpa [ratLe, sortQ] using h

theorem mem_sortQ {l : List Q} {x : Q} : x ∈ sortQ l ↔ x ∈ l := (mergeSort_perm l ratLe).mem_iff

/-- `for a in l: if f(a) is not None: s.add(f(a))` -/
theorem mem_foldl_addSet [BEq β] [LawfulBEq β] (f : α → Option β) (l : List α) (s0 : List β) (v : β) :
    v ∈ l.foldl (fun s a => addOpt s (f a)) s0 ↔
      v ∈ s0 ∨ ∃ a ∈ l, f a = some v := by
  induction l generalizing s0 with
  | nil => simp
  | cons a l ih =>
    rw [foldl_cons, ih]
    cases hf : f a with
    | none =>
      simp only [addOpt, mem_cons, exists_eq_or_imp, hf]
      constructor
      · rintro (h | h); exact Or.inl h; exact Or.inr (Or.inr h)
      · rintro (h | h | h); exact Or.inl h; cases h; exact Or.inr h
    | some w =>
      simp only [addOpt, mem_addSet, mem_cons, exists_eq_or_imp, hf, Option.some.injEq]
      constructor
      · rintro ((h | h) | h); exact Or.inl h; exact Or.inr (Or.inl h.symm); exact Or.inr (Or.inr h)
      · rintro (h | h | h); exact Or.inl (Or.inl h); exact Or.inl (Or.inr h.symm); exact Or.inr h

/-- each caret anchor contributes its own (quantised) coordinate -/
theorem caretValue_eq (quant : Option Q) (a : Anchor) :
    caretValue quant a = (ownCaret a).map (quantOpt quant) := by
  unfold caretValue ownCaret
  cases a.name with
  | none => rfl
  | some n =>
    by_cases h0 : n.isEmpty = true
    · simp [h0]
    · by_cases h1 : isCaretName n = true
      · simp [h0, h1]
      · by_cases h2 : isVCaretName n = true
        · simp [h0, h1, h2]
        · simp [h0, h1, h2]

theorem mem_glyphCaretSet (quant : Option Q) (g : GlyphIn) (v : Q) :
    v ∈ glyphCaretSet quant g ↔ ∃ a ∈ g.anchors, (ownCaret a).map (quantOpt quant) = some v := by
  unfold glyphCaretSet
  rw [mem_foldl_addSet (caretValue quant)]
  simp only [not_mem_nil, false_or, caretValue_eq]

theorem mem_caretCoords (quant : Option Q) (g : GlyphIn) (z : Int) :
    z ∈ caretCoords quant g ↔ ∃ a ∈ g.anchors, ∃ v, ownCaret a = some v ∧ otRound (quantOpt quant v) = z := by
  unfold caretCoords
  simp [mem_filterMap]

theorem mem_glyphCarets (quant : Option Q) (g : GlyphIn) (z : Int) :
    z ∈ glyphCarets quant g ↔ z ∈ caretCoords quant g := by
  unfold glyphCarets
  rw [mem_caretCoords, mem_map]
  constructor
  · rintro ⟨v, hv, rfl⟩
    obtain ⟨a, ha, h⟩ := (mem_glyphCaretSet quant g v).mp (mem_sortQ.mp hv)
    obtain ⟨w, hw, rfl⟩ := Option.map_eq_some_iff.mp h
    exact ⟨a, ha, w, hw, rfl⟩
  · rintro ⟨a, ha, w, hw, rfl⟩
    exact ⟨quantOpt quant w, mem_sortQ.mpr ((mem_glyphCaretSet quant g _).mpr ⟨a, ha, by simp [hw]⟩), rfl⟩

theorem glyphCarets_sorted (quant : Option Q) (g : GlyphIn) : (glyphCarets quant g).Pairwise (· ≤ ·) :=
  (sortQ_sorted _).map otRound (fun _ _ h => otRound_mono h)

theorem sameMembers_iff (a b : List Int) : sameMembers a b = true ↔ ∀ z, z ∈ a ↔ z ∈ b := by
  unfold sameMembers
  simp only [Bool.and_eq_true, all_eq_true, contains_eq_mem, decide_eq_true_eq]
  constructor
  · rintro ⟨h1, h2⟩ z; exact ⟨h1 z, h2 z⟩
  · intro h; exact ⟨fun z hz => (h z).mp hz, fun z hz => (h z).mpr hz⟩

/-- one glyph's caret list: increasing, exactly the rounded (quantised) caret anchor coordinates -/
theorem caretsOk_model (quant : Option Q) (g : GlyphIn) :
    caretsOk quant g (glyphCarets quant g) = true := by
  unfold caretsOk
  simp only [Bool.and_eq_true, decide_eq_true_eq]
  exact ⟨glyphCarets_sorted quant g, (sameMembers_iff _ _).mpr (mem_glyphCarets quant g)⟩

theorem caretSet_isEmpty (quant : Option Q) (g : GlyphIn) :
    (glyphCaretSet quant g).isEmpty = (caretCoords quant g).isEmpty := by
  rw [Bool.eq_iff_iff]
  simp only [isEmpty_iff, eq_nil_iff_forall_not_mem]
  constructor
  · intro h z hz
    obtain ⟨a, ha, w, hw, _⟩ := (mem_caretCoords quant g z).mp hz
    exact h (quantOpt quant w) ((mem_glyphCaretSet quant g _).mpr ⟨a, ha, by simp [hw]⟩)
  · intro h v hv
    obtain ⟨a, ha, h'⟩ := (mem_glyphCaretSet quant g v).mp hv
    obtain ⟨w, hw, rfl⟩ := Option.map_eq_some_iff.mp h'
    exact h (otRound (quantOpt quant w)) ((mem_caretCoords quant g _).mpr ⟨a, ha, w, hw, rfl⟩)

theorem ligatureCarets_names (quant : Option Q) (glyphs : List GlyphIn) :
    (ligatureCarets quant glyphs).map (·.1) =
      (glyphs.filter (fun g => !(caretCoords quant g).isEmpty)).map (·.name) := by
  unfold ligatureCarets
  induction glyphs with
  | nil => rfl
  | cons g gl ih =>
    have hg := caretSet_isEmpty quant g
    have ih' := ih
    rw [filterMap_cons, filter_cons]
    cases he : (caretCoords quant g).isEmpty with
    | true => simp only [hg, he, if_true, Bool.not_true, Bool.false_eq_true, if_false]; exact ih'
    | false => simp only [hg, he, Bool.false_eq_true, if_false, Bool.not_false, if_true, map_cons, ih']

theorem find?_name_of_mem (l : List GlyphIn) (h : (l.map (·.name)).Nodup) (g : GlyphIn) (hg : g ∈ l) :
    l.find? (fun x => x.name == g.name) = some g := by
  induction l with
  | nil => cases hg
  | cons x l ih =>
    simp only [map_cons, nodup_cons] at h
    rw [find?_cons]
    rcases mem_cons.mp hg with rfl | hm
    · simp
    · have : x.name ≠ g.name := by
        intro e; exact h.1 (mem_map.mpr ⟨g, hm, e.symm⟩)
      simp only [beq_eq_false_iff_ne.mpr this]
      exact ih h.2 hm

theorem findGlyph_of_mem (i : Input) (h : (glyphNames i).Nodup) (g : GlyphIn) (hg : g ∈ i.glyphs) :
    findGlyph i g.name = some g := find?_name_of_mem i.glyphs h g hg

/-- **C18_carets** (no hypothesis beyond well-formed UFO data): for every exported glyph with caret
anchors one LigatureCaretByPos statement is emitted whose positions are in increasing order and are exactly
otRound(quantize(x)) of ALL its `caret_*` anchors and otRound(quantize(y)) of ALL its `vcaret_*` anchors — also when
several caret anchors share a name (ufo2ft's repair of "same-named-caret-anchors-collapse-to-first"); no statement
for other glyphs; none at all when any of the user's GDEF blocks has caret statements. -/
theorem C18_carets (i : Input) (h : WF i) :
    holdsCaretsFea i (gdefWrite i.quant i.glyphs i.categories i.blocks).carets = true := by
  unfold holdsCaretsFea gdefWrite
  simp only [todo_eq i]
  cases hu : userAnyCarets i with
  | true => simp
  | false =>
    simp only [Bool.not_false, Bool.true_and, Bool.false_eq_true, if_false]
    have hn := ligatureCarets_names i.quant i.glyphs
    cases he : (ligatureCarets i.quant i.glyphs).isEmpty with
    | true =>
      simp only [Bool.not_true, Bool.false_eq_true, if_false]
      unfold caretGlyphs
      rw [← hn, isEmpty_iff.mp he]; rfl
    | false =>
      simp only [Bool.not_false, if_true, Bool.and_eq_true, all_eq_true]
      refine ⟨by unfold caretGlyphs; rw [hn]; exact isPerm_iff.mpr (Perm.refl _), ?_⟩
      intro e hem
      unfold ligatureCarets at hem
      obtain ⟨g, hg, hge⟩ := mem_filterMap.mp hem
      split at hge
      · cases hge
      · cases hge
        simp only [findGlyph_of_mem i h.names g hg]
        exact caretsOk_model i.quant g


theorem mem_dedupSortedInt (l : List Int) (z : Int) : z ∈ dedupSortedInt l ↔ z ∈ l := by
  fun_induction dedupSortedInt l with
  | case1 => simp
  | case2 a => simp
  | case3 a b l h ih =>
    have : a = b := by simpa using h
    subst this
    rw [ih]; simp
  | case4 a b l h ih =>
    rw [mem_cons, ih]; simp

theorem dedupSortedInt_strict (l : List Int) (h : l.Pairwise (· ≤ ·)) : (dedupSortedInt l).Pairwise (· < ·) := by
  fun_induction dedupSortedInt l with
  | case1 => simp
  | case2 a => simp
  | case3 a b l _ ih => exact ih (pairwise_cons.mp h).2
  | case4 a b l hne ih =>
    have hab : a ≠ b := by simpa using hne
    obtain ⟨h1, h2⟩ := pairwise_cons.mp h
    refine pairwise_cons.mpr ⟨?_, ih h2⟩
    intro z hz
    have hz' := (mem_dedupSortedInt _ _).mp hz
    have hb := h1 b (mem_cons_self ..)
    rcases mem_cons.mp hz' with rfl | hzl
    · omega
    · have := (pairwise_cons.mp h2).1 z hzl
      omega

theorem mem_sortInt {l : List Int} {x : Int} : x ∈ sortInt l ↔ x ∈ l := (sortInt_perm l).mem_iff

/-- **C18_carets_font**: with no caret statement in the user's features, the compiled LigCaretList has
exactly the exported glyphs with caret anchors, each with strictly increasing coordinates that are
exactly the sorted, de-duplicated rounded (quantised) coordinates of ALL its caret anchors. -/
theorem C18_carets_font (i : Input) (h : WF i) (u : UserGdef) (hu : userAnyCarets i = false) :
    holdsCaretsFont i u (fontCarets (ligatureCarets i.quant i.glyphs)) = true := by
  unfold holdsCaretsFont
  simp only [hu, Bool.false_eq_true, if_false, Bool.and_eq_true, all_eq_true]
  have hn := ligatureCarets_names i.quant i.glyphs
  constructor
  · unfold fontCarets caretGlyphs
    rw [map_map]
    have : ((fun (e : String × List Int) => e.1) ∘ fun (e : String × List Int) => (e.1, dedupSortedInt (sortInt e.2)))
        = fun (e : String × List Int) => e.1 := rfl
    rw [this, hn]; exact isPerm_iff.mpr (Perm.refl _)
  · intro e hem
    unfold fontCarets at hem
    obtain ⟨e0, he0, rfl⟩ := mem_map.mp hem
    unfold ligatureCarets at he0
    obtain ⟨g, hg, hge⟩ := mem_filterMap.mp he0
    split at hge
    · cases hge
    · cases hge
      simp only [findGlyph_of_mem i h.names g hg, Bool.and_eq_true]
      refine ⟨?_, (sameMembers_iff _ _).mpr ?_⟩
      · unfold strictInc; simp only [decide_eq_true_eq]
        exact dedupSortedInt_strict _ (sortInt_sorted _)
      · intro z
        rw [mem_dedupSortedInt, mem_sortInt]
        exact mem_glyphCarets i.quant g z


/-! ### cursive anchor pairs -/

theorem mem_foldl_addSet_list [BEq α] [LawfulBEq α] (l s0 : List α) (x : α) :
    x ∈ l.foldl addSet s0 ↔ x ∈ s0 ∨ x ∈ l := by
  induction l generalizing s0 with
  | nil => simp
  | cons a l ih =>
    rw [foldl_cons, ih, mem_addSet, mem_cons]
    constructor
    · rintro ((h | h) | h); exact Or.inl h; exact Or.inr (Or.inl h); exact Or.inr (Or.inr h)
    · rintro (h | h | h); exact Or.inl (Or.inl h); exact Or.inl (Or.inr h); exact Or.inr h

theorem nodup_foldl_addSet [BEq α] [LawfulBEq α] (l s0 : List α) (h : s0.Nodup) : (l.foldl addSet s0).Nodup := by
  induction l generalizing s0 with
  | nil => exact h
  | cons a l ih => rw [foldl_cons]; exact ih _ (nodup_addSet _ _ h)

theorem truthyName_eq (a : Anchor) : truthyName a = properName a := rfl

theorem mem_anchorNameSet (glyphs : List GlyphIn) (x : String) :
    x ∈ anchorNameSet glyphs ↔ ∃ g ∈ glyphs, ∃ a ∈ g.anchors, properName a = some x := by
  unfold anchorNameSet
  rw [mem_foldl_addSet_list]
  simp [mem_flatMap, mem_filterMap, truthyName_eq]

theorem nodup_anchorNameSet (glyphs : List GlyphIn) : (anchorNameSet glyphs).Nodup :=
  nodup_foldl_addSet _ _ nodup_nil

/-- the curs writer's set of anchor names (unnamed anchors take no part) -/
def nameSet (i : Input) : List String := anchorNameSet i.glyphs

theorem mem_nameSet (i : Input) (n : String) : n ∈ nameSet i ↔ n ∈ allAnchorNames i := by
  unfold nameSet allAnchorNames
  simp only [mem_anchorNameSet, mem_flatMap, mem_filterMap]

theorem nodup_nameSet (i : Input) : (nameSet i).Nodup := nodup_anchorNameSet _

/-- the list the model sorts in `_getCursiveAnchorPairs` -/
def rawPairs (ns : List String) : List (String × String) :=
  (if ns.contains "entry" && ns.contains "exit" then [("entry", "exit")] else []) ++
  ns.filterMap (fun a => if a.startsWith "entry." && ns.contains (exitNameOf a) then some (a, exitNameOf a) else none)

theorem cursivePairs_eq (i : Input) :
    cursivePairs (anchorNameSet i.glyphs) = (rawPairs (nameSet i)).mergeSort pairLe := rfl

theorem entry_not_dotted : ("entry".startsWith "entry.") = false := by decide

theorem mem_rawPairs (i : Input) (p : String × String) : p ∈ rawPairs (nameSet i) ↔ p ∈ specPairs i := by
  unfold rawPairs specPairs
  simp only [mem_eraseDups, mem_map, mem_filter, mem_append, mem_filterMap, Bool.and_eq_true, hasName,
    contains_eq_mem, decide_eq_true_eq, mem_nameSet, isEntryName, Bool.or_eq_true, beq_iff_eq]
  constructor
  · rintro (h | ⟨a, ha, h⟩)
    · split at h
      · rename_i hc
        simp only [mem_singleton] at h
        subst h
        exact ⟨"entry", ⟨hc.1, Or.inl rfl, by simpa [exitFor] using hc.2⟩, by simp [exitFor]⟩
      · cases h
    · split at h
      · rename_i hc
        cases h
        have hne : a ≠ "entry" := by
          intro e; subst e; rw [entry_not_dotted] at hc; exact absurd hc.1 (by decide)
        have hx : exitFor a = exitNameOf a := by simp [exitFor, hne]
        exact ⟨a, ⟨ha, Or.inr hc.1, by rw [hx]; exact hc.2⟩, by rw [hx]⟩
      · cases h
  · rintro ⟨e, ⟨he, hent, hex⟩, rfl⟩
    by_cases h0 : e = "entry"
    · subst h0
      left
      have : exitFor "entry" = "exit" := by simp [exitFor]
      rw [this] at hex ⊢
      simp [he, hex]
    · right
      have hx : exitFor e = exitNameOf e := by simp [exitFor, h0]
      rw [hx] at hex ⊢
      rcases hent with h1 | h1
      · exact absurd h1 h0
      · exact ⟨e, he, by simp [h1, hex]⟩

theorem nodup_rawPairs (i : Input) : (rawPairs (nameSet i)).Nodup := by
  unfold rawPairs
  have hn := nodup_nameSet i
  refine nodup_append.mpr ⟨by split <;> simp, ?_, ?_⟩
  · generalize hns : nameSet i = ns at hn
    have : ∀ (l : List String), l.Nodup →
        (l.filterMap (fun a => if a.startsWith "entry." && ns.contains (exitNameOf a) then some (a, exitNameOf a) else none)).Nodup := by
      intro l hl
      induction l with
      | nil => simp
      | cons a l ih =>
        obtain ⟨h1, h2⟩ := nodup_cons.mp hl
        rw [filterMap_cons]
        split
        · exact ih h2
        · rename_i b hb
          refine nodup_cons.mpr ⟨?_, ih h2⟩
          intro hm
          obtain ⟨x, hx, hxb⟩ := mem_filterMap.mp hm
          split at hb <;> split at hxb
          · cases hb; cases hxb; exact h1 hx
          · cases hxb
          · cases hb
          · cases hb
    exact this ns hn
  · intro a ha b hb e
    subst e
    split at ha
    · simp only [mem_singleton] at ha
      subst ha
      obtain ⟨x, _, hx⟩ := mem_filterMap.mp hb
      split at hx
      · rename_i hc
        have hxe : x = "entry" := (Prod.mk.inj (Option.some.inj hx)).1
        subst hxe
        rw [entry_not_dotted] at hc; simp at hc
      · cases hx
    · cases ha

theorem nodup_eraseDups_gen [BEq α] [LawfulBEq α] (l : List α) : l.eraseDups.Nodup := by
  generalize hn : l.length = n
  induction n using Nat.strongRecOn generalizing l with
  | _ n ih =>
    cases l with
    | nil => simp
    | cons a t =>
      rw [eraseDups_cons]
      refine nodup_cons.mpr ⟨?_, ?_⟩
      · simp [mem_eraseDups]
      · have hl : (t.filter fun b => !b == a).length < n := by
          subst hn; simp only [length_cons]; exact Nat.lt_succ_of_le (length_filter_le _ _)
        exact ih _ hl _ rfl

/-- the pairs the model iterates over (given that every anchor has a name) -/
def modelPairs (i : Input) : List (String × String) := (rawPairs (nameSet i)).mergeSort pairLe

theorem mem_modelPairs (i : Input) (p : String × String) : p ∈ modelPairs i ↔ p ∈ specPairs i := by
  unfold modelPairs
  rw [(mergeSort_perm _ _).mem_iff, mem_rawPairs]

theorem nodup_modelPairs (i : Input) : (modelPairs i).Nodup :=
  (mergeSort_perm _ _).nodup_iff.mpr (nodup_rawPairs i)

theorem modelPairs_perm (i : Input) : (modelPairs i).Perm (specPairs i) :=
  (perm_ext_iff_of_nodup (nodup_modelPairs i) (by unfold specPairs; exact nodup_eraseDups_gen _)).mpr (mem_modelPairs i)


theorem specPairs_snd (i : Input) (p : String × String) (h : p ∈ specPairs i) : p.2 = exitFor p.1 := by
  unfold specPairs at h
  simp only [mem_eraseDups, mem_map, mem_filter] at h
  obtain ⟨e, _, rfl⟩ := h
  rfl

theorem modelPairs_sorted (i : Input) : ((modelPairs i).map (·.1)).Pairwise (· < ·) := by
  have h1 : (modelPairs i).Pairwise (fun a b => a.1 ≤ b.1) := by
    have h := pairwise_mergeSort (le := pairLe)
      (by intro a b c; simp only [pairLe]; exact strLe_trans _ _ _)
      (by intro a b; simp only [pairLe]; exact strLe_total _ _) (rawPairs (nameSet i))
    simpa [pairLe, strLe, modelPairs] using h
  have h2 : (modelPairs i).Pairwise (· ≠ ·) := nodup_iff_pairwise_ne.mp (nodup_modelPairs i)
  rw [pairwise_map]
  refine (h1.and h2).imp_of_mem ?_
  intro a b ha hb ⟨hle, hne⟩
  apply str_lt_of_le_ne hle
  intro e
  apply hne
  have ea := specPairs_snd i a ((mem_modelPairs i a).mp ha)
  have eb := specPairs_snd i b ((mem_modelPairs i b).mp hb)
  exact Prod.ext e (by rw [ea, eb, e])

/-- **C18_pairs**: `_getCursiveAnchorPairs` returns exactly the pairs (entry, exit) and
(entry.S, exit.S) both of whose names occur among the exported glyphs' named anchors, each once, ordered
by entry name (whatever the iteration order of the Python set); anchors without a name contribute
nothing and raise nothing -/
theorem C18_pairs (i : Input) :
    cursivePairs (anchorNameSet i.glyphs) = modelPairs i ∧ holdsPairs i (modelPairs i) = true := by
  refine ⟨cursivePairs_eq i, ?_⟩
  unfold holdsPairs strictSorted
  simp only [Bool.and_eq_true, decide_eq_true_eq, all_eq_true, contains_eq_mem]
  exact ⟨⟨modelPairs_sorted i, fun p hp => (mem_modelPairs i p).mp hp⟩, fun p hp => (mem_modelPairs i p).mpr hp⟩

/-! ### cursive lookups -/

theorem getAnchor_round (quant : Option Q) (anchors : List Anchor) (n : String) :
    (getAnchor quant anchors n).map roundXY = (anchors.find? (fun a => a.name == some n)).map (specXY quant) := by
  unfold getAnchor
  cases anchors.find? (fun a => a.name == some n) <;> rfl

/-- the record of one glyph in `_makeCursiveStatements` is the specified record -/
theorem statement_eq (quant : Option Q) (g : GlyphIn) (p : String × String) :
    ({ glyph := g.name, entry := (getAnchors quant g p.1 p.2).1, exit := (getAnchors quant g p.1 p.2).2 } : Rec)
      = specRec quant g p ∧
    (((getAnchors quant g p.1 p.2).1.isSome || (getAnchors quant g p.1 p.2).2.isSome) = hasEither g p) := by
  unfold getAnchors specRec hasEither firstAnchor
  simp only [getAnchor_round]
  refine ⟨trivial, ?_⟩
  simp

theorem cursiveStatements_eq (quant : Option Q) (gl : List GlyphIn) (p : String × String) :
    cursiveStatements quant gl p.1 p.2 = (gl.filter (fun g => hasEither g p)).map (fun g => specRec quant g p) := by
  unfold cursiveStatements
  induction gl with
  | nil => rfl
  | cons g gl ih =>
    rw [filterMap_cons, filter_cons]
    obtain ⟨h1, h2⟩ := statement_eq quant g p
    simp only [h2]
    cases hasEither g p with
    | true => simp only [if_true, map_cons, ih, ← h1]
    | false => simpa using ih

/-- the flag `_makeCursiveLookup` sets, as a function of the entry name and the requested direction -/
def flagOf (e : String) (d : Option Dir) : Bool :=
  (if isRTLName e then some Dir.rtl else if isLTRName e then some Dir.ltr else d) != some Dir.ltr

theorem makeCursiveLookup_eq (quant : Option Q) (gl : List GlyphIn) (p : String × String) (d : Option Dir) :
    makeCursiveLookup quant gl p.1 p.2 d =
      if (gl.filter (fun g => hasEither g p)).isEmpty then none
      else some { rtl := flagOf p.1 d, recs := (gl.filter (fun g => hasEither g p)).map (fun g => specRec quant g p) } := by
  unfold makeCursiveLookup
  simp only [cursiveStatements_eq, isEmpty_map]
  rfl

/-- the glyphs that go into the lookup of `p` with direction `d` -/
def groupOf (i : Input) (_p : String × String) (d : Option Dir) : List GlyphIn :=
  match d with
  | none => i.glyphs
  | some .ltr => i.glyphs.filter (fun g => (ltrSet i.dir).contains g.name)
  | some .rtl => i.glyphs.filter (fun g => !(ltrSet i.dir).contains g.name)

def isSplit (i : Input) (p : String × String) : Bool := !(isLTRName p.1 || isRTLName p.1) && shouldSplit i.dir

theorem lookupsForPair_eq (i : Input) (p : String × String) :
    lookupsForPair i.quant i.glyphs i.dir p =
      if isSplit i p then
        (makeCursiveLookup i.quant (groupOf i p (some .ltr)) p.1 p.2 (some .ltr)).toList ++
        (makeCursiveLookup i.quant (groupOf i p (some .rtl)) p.1 p.2 (some .rtl)).toList
      else (makeCursiveLookup i.quant (groupOf i p none) p.1 p.2 none).toList := rfl

/-- the directions for which `p` gets a lookup -/
def dirsOf (i : Input) (p : String × String) : List (Option Dir) :=
  if isSplit i p then [some .ltr, some .rtl] else [none]

theorem mem_lookupsForPair (i : Input) (p : String × String) (lk : Lookup) :
    lk ∈ lookupsForPair i.quant i.glyphs i.dir p ↔
      ∃ d ∈ dirsOf i p, makeCursiveLookup i.quant (groupOf i p d) p.1 p.2 d = some lk := by
  rw [lookupsForPair_eq]
  unfold dirsOf
  split <;> simp [Option.mem_toList]

/-- **C18_ltr_extras**: the set the curs writer splits by (`classifyGlyphs(cmap, gsub, extras)["LTR"]`,
`applyExtras`) holds exactly the left-to-right glyphs of the specification: the glyphs of the GSUB-closed
left-to-right set and the glyphs a designspace rule substitutes for one of them (one step) -/
theorem C18_ltr_extras (i : Input) (g : String) : (ltrSet i.dir).contains g = isLtrGlyph i g := by
  unfold ltrSet applyExtras isLtrGlyph extrasGet
  rw [Bool.eq_iff_iff]
  simp only [contains_eq_mem, decide_eq_true_eq, mem_append, mem_flatMap, mem_map, mem_filter, beq_iff_eq,
    Bool.or_eq_true, any_eq_true, Bool.and_eq_true]
  constructor
  · rintro (h | ⟨l, hl, e, ⟨he, rfl⟩, rfl⟩)
    · exact Or.inl h
    · exact Or.inr ⟨e, he, rfl, hl⟩
  · rintro (h | ⟨e, he, rfl, hl⟩)
    · exact Or.inl h
    · exact Or.inr ⟨e.1, hl, e, ⟨he, rfl⟩, rfl⟩

/-- membership form, with the rule spelled out -/
theorem C18_ltr_extras_mem (i : Input) (g : String) :
    g ∈ ltrSet i.dir ↔ g ∈ i.dir.ltr.getD [] ∨ ∃ l, (l, g) ∈ i.dir.extras ∧ l ∈ i.dir.ltr.getD [] := by
  have h := C18_ltr_extras i g
  rw [Bool.eq_iff_iff] at h
  simp only [contains_eq_mem, decide_eq_true_eq] at h
  rw [h]
  unfold isLtrGlyph
  simp only [Bool.or_eq_true, contains_eq_mem, decide_eq_true_eq, any_eq_true, Bool.and_eq_true, beq_iff_eq]
  constructor
  · rintro (h | ⟨e, he, rfl, hl⟩)
    · exact Or.inl h
    · exact Or.inr ⟨e.1, he, hl⟩
  · rintro (h | ⟨l, he, hl⟩)
    · exact Or.inl h
    · exact Or.inr ⟨(l, g), he, rfl, hl⟩

/-- without designspace rules the set is the given one -/
theorem ltrSet_no_extras (d : DirData) (h : d.extras = []) : ltrSet d = d.ltr.getD [] := by
  unfold ltrSet applyExtras extrasGet
  rw [h]
  simp

/-- flag rule: for a glyph in the group of direction `d`, the model's flag is the specified one -/
theorem flag_rule (i : Input) (p : String × String) (d : Option Dir) (hd : d ∈ dirsOf i p)
    (g : GlyphIn) (hg : g ∈ groupOf i p d) : flagOf p.1 d = specRtl i p.1 g.name := by
  unfold dirsOf isSplit at hd
  unfold flagOf specRtl splitOn
  rw [← C18_ltr_extras]
  unfold shouldSplit at hd
  cases hr : isRTLName p.1 with
  | true => simp
  | false =>
    cases hl : isLTRName p.1 with
    | true => simp
    | false =>
      simp only [hr, hl, Bool.or_self, Bool.not_false, Bool.true_and] at hd
      simp only [Bool.false_eq_true, if_false]
      cases hs : (i.dir.anyLtrCp && i.dir.ltr.isSome) with
      | false =>
        simp only [hs, Bool.false_eq_true, if_false, mem_singleton] at hd
        subst hd; simp
      | true =>
        simp only [hs, if_true, mem_cons, not_mem_nil, or_false] at hd
        rcases hd with rfl | rfl
        · have := (mem_filter.mp hg).2
          simp only [contains_eq_mem, decide_eq_true_eq] at this
          simp [this]
        · have := (mem_filter.mp hg).2
          simp only [Bool.not_eq_true', contains_eq_mem, decide_eq_false_iff_not] at this
          simp [this]

/-- every glyph belongs to the group of exactly one of the directions of `p` -/
theorem group_cover (i : Input) (p : String × String) (g : GlyphIn) (hg : g ∈ i.glyphs) :
    ∃ d ∈ dirsOf i p, g ∈ groupOf i p d := by
  unfold dirsOf
  split
  · by_cases h : (ltrSet i.dir).contains g.name = true
    · exact ⟨some .ltr, by simp, mem_filter.mpr ⟨hg, h⟩⟩
    · exact ⟨some .rtl, by simp, mem_filter.mpr ⟨hg, by simpa using h⟩⟩
  · exact ⟨none, by simp, hg⟩

theorem groupOf_sublist (i : Input) (p : String × String) (d : Option Dir) : (groupOf i p d).Sublist i.glyphs := by
  unfold groupOf
  split
  · exact Sublist.refl _
  · exact filter_sublist
  · exact filter_sublist

/-- **cover**: every glyph with an anchor of a present pair has its exact record under the right flag -/
theorem curs_cover (i : Input) :
    holdsCursCover i ((modelPairs i).flatMap (lookupsForPair i.quant i.glyphs i.dir)) = true := by
  unfold holdsCursCover
  simp only [all_eq_true, Bool.or_eq_true, Bool.not_eq_true', any_eq_true, Bool.and_eq_true, beq_iff_eq,
    contains_eq_mem, decide_eq_true_eq, mem_flatMap]
  intro p hp g hg
  cases he : hasEither g p with
  | false => exact Or.inl rfl
  | true =>
    right
    obtain ⟨d, hd, hgd⟩ := group_cover i p g hg
    have hne : ((groupOf i p d).filter (fun g => hasEither g p)).isEmpty = false := by
      rw [Bool.eq_false_iff]; intro hemp
      have : g ∈ (groupOf i p d).filter (fun g => hasEither g p) := mem_filter.mpr ⟨hgd, he⟩
      rw [isEmpty_iff.mp hemp] at this; cases this
    refine ⟨{ rtl := flagOf p.1 d, recs := ((groupOf i p d).filter (fun g => hasEither g p)).map (fun g => specRec i.quant g p) },
      ⟨p, (mem_modelPairs i p).mpr hp, (mem_lookupsForPair i p _).mpr ⟨d, hd, ?_⟩⟩, ?_, ?_⟩
    · rw [makeCursiveLookup_eq, hne]; rfl
    · exact flag_rule i p d hd g hgd
    · exact mem_map.mpr ⟨g, mem_filter.mpr ⟨hgd, he⟩, rfl⟩


theorem lookup_of_mem (i : Input) (lk : Lookup)
    (h : lk ∈ (modelPairs i).flatMap (lookupsForPair i.quant i.glyphs i.dir)) :
    ∃ p ∈ specPairs i, ∃ d ∈ dirsOf i p,
      ((groupOf i p d).filter (fun g => hasEither g p)) ≠ [] ∧
      lk = { rtl := flagOf p.1 d,
             recs := ((groupOf i p d).filter (fun g => hasEither g p)).map (fun g => specRec i.quant g p) } := by
  obtain ⟨p, hp, hlk⟩ := mem_flatMap.mp h
  obtain ⟨d, hd, hm⟩ := (mem_lookupsForPair i p lk).mp hlk
  rw [makeCursiveLookup_eq] at hm
  refine ⟨p, (mem_modelPairs i p).mp hp, d, hd, ?_⟩
  split at hm
  · cases hm
  · rename_i hne
    exact ⟨by intro e; rw [e] at hne; exact hne rfl, (Option.some.inj hm).symm⟩

/-- **sound**: nothing but the specified records, one pair per lookup, no glyph twice, no empty lookup -/
theorem curs_sound (i : Input) (h : WF i) :
    holdsCursSound i ((modelPairs i).flatMap (lookupsForPair i.quant i.glyphs i.dir)) = true := by
  unfold holdsCursSound
  simp only [all_eq_true, Bool.and_eq_true, Bool.not_eq_true', decide_eq_true_eq, any_eq_true, beq_iff_eq]
  intro lk hlk
  obtain ⟨p, hp, d, hd, hne, rfl⟩ := lookup_of_mem i lk hlk
  refine ⟨⟨?_, ?_⟩, p, hp, ?_⟩
  · rw [Bool.eq_false_iff]; intro he
    simp only [isEmpty_map, isEmpty_iff] at he
    exact hne he
  · simp only [map_map]
    have : ((fun (r : Rec) => r.glyph) ∘ fun g => specRec i.quant g p) = fun (g : GlyphIn) => g.name := rfl
    rw [this]
    have hs : ((groupOf i p d).filter (fun g => hasEither g p)).Sublist i.glyphs :=
      filter_sublist.trans (groupOf_sublist i p d)
    exact (hs.map _).nodup h.names
  · intro r hr
    obtain ⟨g, hg, rfl⟩ := mem_map.mp hr
    obtain ⟨hgd, he⟩ := mem_filter.mp hg
    exact ⟨g, (groupOf_sublist i p d).subset hgd, ⟨⟨⟨rfl, he⟩, rfl⟩, flag_rule i p d hd g hgd⟩⟩

theorem sum_flatMap (l : List α) (f : α → List β) (g : β → Nat) :
    ((l.flatMap f).map g).sum = (l.map (fun a => ((f a).map g).sum)).sum := by
  induction l with
  | nil => rfl
  | cons a l ih => simp [flatMap_cons, map_append, sum_append, ih]

theorem length_filter_split (l : List α) (a h : α → Bool) :
    ((l.filter a).filter h).length + ((l.filter (fun x => !a x)).filter h).length = (l.filter h).length := by
  induction l with
  | nil => rfl
  | cons x l ih =>
    simp only [filter_cons]
    cases ha : a x <;> cases hh : h x <;> simp [hh, ← ih] <;> omega

theorem recsLen_lookup (i : Input) (gl : List GlyphIn) (p : String × String) (d : Option Dir) :
    (((makeCursiveLookup i.quant gl p.1 p.2 d).toList).map (·.recs.length)).sum =
      (gl.filter (fun g => hasEither g p)).length := by
  rw [makeCursiveLookup_eq]
  split
  · rename_i he; rw [isEmpty_iff.mp he]; rfl
  · simp

theorem recsLen_pair (i : Input) (p : String × String) :
    ((lookupsForPair i.quant i.glyphs i.dir p).map (·.recs.length)).sum =
      (i.glyphs.filter (fun g => hasEither g p)).length := by
  rw [lookupsForPair_eq]
  split
  · rw [map_append, sum_append, recsLen_lookup, recsLen_lookup]
    exact length_filter_split i.glyphs (fun g => (ltrSet i.dir).contains g.name) (fun g => hasEither g p)
  · rw [recsLen_lookup]; rfl

/-- **count**: one record per (pair, glyph with an anchor of the pair) in total -/
theorem curs_count (i : Input) :
    holdsCursCount i ((modelPairs i).flatMap (lookupsForPair i.quant i.glyphs i.dir)) = true := by
  unfold holdsCursCount
  simp only [beq_iff_eq]
  rw [sum_flatMap]
  simp only [recsLen_pair]
  exact ((modelPairs_perm i).map _).sum_nat

/-- **C18_curs**: when the curs writer runs, (cover) every exported glyph with an entry or exit anchor
of a present pair gets a record with exactly otRound(quantize(.)) of the anchor coordinates and NULL for
the missing side, in a lookup whose RightToLeft flag is set by the `.RTL`/`.LTR` suffix if there is one
and otherwise cleared iff the font has a left-to-right code point and the glyph is in the left-to-right
set; (sound) there are no other records, lookups are per pair, non-empty and list a glyph once; (count)
one record per (pair, glyph).  When the user's own curs feature suppresses the writer nothing is
generated.  Anchors without a name are allowed (ufo2ft 87dd8ed): see `C18_unnamed_anchor_ignored`. -/
theorem C18_curs (i : Input) (h : WF i) : holdsCurs i (run i).curs = true := by
  unfold run cursFeature holdsCurs
  cases ht : i.cursTodo with
  | false => simp
  | true =>
    simp only [Bool.not_true, Bool.false_eq_true, if_false, cursivePairs_eq i, if_true, Bool.and_eq_true]
    exact ⟨⟨curs_cover i, curs_sound i h⟩, curs_count i⟩

/-- **C18_curs_flag**: the RightToLeft flag is cleared exactly when the pair has no `.RTL` suffix and
either has the `.LTR` suffix or (the font has a left-to-right code point and the glyph is a left-to-right
glyph: in the GSUB-closed left-to-right set, or substituted for a glyph of it by a designspace rule) -/
theorem C18_curs_flag (i : Input) (e g : String) :
    specRtl i e g = false ↔
      isRTLName e = false ∧ (isLTRName e = true ∨ (splitOn i = true ∧
        (g ∈ i.dir.ltr.getD [] ∨ ∃ l, (l, g) ∈ i.dir.extras ∧ l ∈ i.dir.ltr.getD []))) := by
  rw [← C18_ltr_extras_mem]
  unfold specRtl
  rw [← C18_ltr_extras]
  cases isRTLName e <;> cases isLTRName e <;> simp

/-- **C18_all**: the whole observation of one build.  For well-formed UFO data (unique dictionary keys and glyph
names) — any number of user GDEF blocks, any caret anchor names — the writers' output satisfies the class, caret
and cursive predicates. -/
theorem C18_all (i : Input) (h : WF i) :
    holdsClassesFea i (run i).gdef.classDef = true ∧ holdsCaretsFea i (run i).gdef.carets = true ∧
      holdsCurs i (run i).curs = true :=
  ⟨C18_classes i h, C18_carets i h, C18_curs i h⟩

/-! ### non-vacuity: a concrete mixed-direction font meets every hypothesis and exercises every part -/

def exInput : Input :=
  { glyphs := [⟨"a", [⟨none, 3, 4⟩, ⟨some "entry", 21/2, 0⟩, ⟨some "exit", 100, -1/2⟩]⟩,
               ⟨"alef-ar", [⟨some "entry", 1, 2⟩, ⟨some "entry.LTR", 5, 5⟩]⟩,
               ⟨"beh-ar", [⟨some "exit", 7, 8⟩, ⟨some "exit.LTR", 9, 9⟩]⟩,
               ⟨"f_i", [⟨some "caret_1", 1001/4, 0⟩, ⟨some "caret_2", 2003/8, 0⟩, ⟨some "vcaret_1", 0, 601/2⟩]⟩,
               ⟨"a.alt", [⟨some "exit", 90, 0⟩]⟩, ⟨"x", [⟨some "entry", 1, 1⟩]⟩],
    categories := [("a", "base"), ("f_i", "ligature"), ("ghost", "mark"), ("beh-ar", "Base")],
    blocks := [], quant := none,
    dir := { anyLtrCp := true, ltr := some ["a"], extras := [("a", "a.alt"), ("a.alt", "x")] }, cursTodo := true }

example : WF exInput := ⟨by decide, by decide⟩

/-- the input is not trivial: it has a class-bearing glyph, a glyph with three caret anchors (two of
which coincide after rounding) and two cursive pairs, one of them with an explicit direction -/
example : expectsAnyClass exInput = true := by decide
example : caretCoords exInput.quant ⟨"f_i", [⟨some "caret_1", 1001/4, 0⟩, ⟨some "caret_2", 2003/8, 0⟩, ⟨some "vcaret_1", 0, 601/2⟩]⟩
    = [250, 250, 301] := by
  simp [caretCoords, ownCaret, isCaretName, isVCaretName, quantOpt, exInput]
  decide +kernel
example : exInput.glyphs.all (fun g => hasEither g ("entry", "exit") || hasEither g ("entry.LTR", "exit.LTR")
    || g.name == "f_i") = true := by decide
/-- the unencoded alternate `a.alt` is left-to-right only through the designspace rule `a -> a.alt`; `x`,
two rules away from `a`, is not (one step, as in `classifyGlyphs`) -/
example : specRtl exInput "entry" "a.alt" = false ∧ specRtl exInput "entry" "x" = true ∧
    specRtl { exInput with dir := { exInput.dir with extras := [] } } "entry" "a.alt" = true := by decide +kernel
example : ((gdefWrite exInput.quant exInput.glyphs exInput.categories exInput.blocks).classDef == some ⟨["a"], ["f_i"], [], []⟩) = true := by
  decide +kernel

/-! ### caret anchors sharing a name (repaired in ufo2ft: `_getLigatureCarets` hands the anchor to `_getAnchor`) -/

/-- two caret anchors sharing a name both contribute their own coordinate -/
example : let g : GlyphIn := ⟨"f_i", [⟨some "caret_1", 100, 0⟩, ⟨some "caret_1", 200, 0⟩]⟩
    glyphCaretSet none g = [100, 200] ∧ (200 : Int) ∈ glyphCarets none g ∧ caretsOk none g (glyphCarets none g) = true := by
  refine ⟨?_, (mem_glyphCarets none _ 200).mpr ?_, caretsOk_model _ _⟩
  · simp [glyphCaretSet, caretValue, isCaretName, quantOpt, addOpt, addSet]
  · simp [caretCoords, ownCaret, isCaretName, quantOpt]
    decide +kernel

/-- every caret anchor of the glyph is the first anchor carrying its name
(true in particular when the caret anchors of a glyph have distinct names) -/
def caretFirst (g : GlyphIn) : Prop :=
  ∀ a ∈ g.anchors, (ownCaret a).isSome → ∀ n, a.name = some n →
    g.anchors.find? (fun b => b.name == some n) = some a

/-- the code before the repair agreed with the present one exactly on the anchors that are the first of their name -/
theorem caretValueOld_eq (quant : Option Q) (g : GlyphIn) (hf : caretFirst g) (a : Anchor) (ha : a ∈ g.anchors) :
    caretValueOld quant g a = caretValue quant a := by
  rw [caretValue_eq]
  have hf' := hf a ha
  unfold caretValueOld
  unfold ownCaret at hf' ⊢
  cases hn : a.name with
  | none => rfl
  | some n =>
    simp only [hn] at hf' ⊢
    by_cases h0 : n.isEmpty = true
    · simp [h0]
    · simp only [h0, Bool.false_eq_true, if_false] at hf' ⊢
      by_cases h1 : isCaretName n = true
      · simp only [h1, if_true] at hf' ⊢
        simp [getAnchor, hf' rfl n rfl]
      · simp only [h1, Bool.false_eq_true, if_false] at hf' ⊢
        by_cases h2 : isVCaretName n = true
        · simp only [h2, if_true] at hf' ⊢
          simp [getAnchor, hf' rfl n rfl]
        · simp [h2]

/-- LABELLED COUNTEREXAMPLE about the OLD function (`glyphCaretSetOld`, not part of `run`): before the repair, of two
caret anchors sharing a name the code read the first one's coordinate twice (`_getAnchor` looked the anchor up
again by name) and the second coordinate was lost — the shape "same-named-caret-anchors-collapse-to-first" -/
example : let g : GlyphIn := ⟨"f_i", [⟨some "caret_1", 100, 0⟩, ⟨some "caret_1", 200, 0⟩]⟩
    glyphCaretSetOld none g = [100] ∧ 200 ∈ caretCoords none g := by
  constructor
  · simp [glyphCaretSetOld, caretValueOld, isCaretName, getAnchor, quantOpt, addOpt, addSet]
  · simp [caretCoords, ownCaret, isCaretName, quantOpt]
    decide +kernel


/-- the predicate `holdsPairs` determines the list: two results that satisfy it are equal.  Together with
`C18_pairs` this makes the result independent of the iteration order of the Python set of anchor names. -/
theorem holdsPairs_unique (i : Input) (a b : List (String × String))
    (ha : holdsPairs i a = true) (hb : holdsPairs i b = true) : a = b := by
  unfold holdsPairs strictSorted at ha hb
  simp only [Bool.and_eq_true, decide_eq_true_eq, all_eq_true, contains_eq_mem, pairwise_map] at ha hb
  obtain ⟨⟨sa, ma⟩, ma'⟩ := ha
  obtain ⟨⟨sb, mb⟩, mb'⟩ := hb
  have nd : ∀ {l : List (String × String)}, l.Pairwise (fun x y => x.1 < y.1) → l.Nodup := by
    intro l hl
    refine nodup_iff_pairwise_ne.mpr (hl.imp ?_)
    intro x y hxy e; subst e; exact String.lt_irrefl _ hxy
  have hperm : a.Perm b := (perm_ext_iff_of_nodup (nd sa) (nd sb)).mpr
    (fun p => ⟨fun h => mb' p (ma p h), fun h => ma' p (mb p h)⟩)
  refine hperm.eq_of_pairwise ?_ sa sb
  intro x y _ _ h1 h2
  exact absurd (String.lt_trans h1 h2) (String.lt_irrefl _)


/-! ### anchors without a name are ignored (ufo2ft 87dd8ed) -/

/-- the glyph without its unnamed anchors -/
def dropUnnamed (g : GlyphIn) : GlyphIn := { g with anchors := g.anchors.filter (fun a => a.name.isSome) }

/-- the input without any unnamed anchor -/
def dropUnnamedIn (i : Input) : Input := { i with glyphs := i.glyphs.map dropUnnamed }

theorem getAnchor_drop (quant : Option Q) (g : GlyphIn) (nm : String) :
    getAnchor quant (dropUnnamed g).anchors nm = getAnchor quant g.anchors nm := by
  unfold getAnchor dropUnnamed
  simp only [find?_filter]
  have : (fun (a : Anchor) => decide (a.name.isSome = true ∧ (a.name == some nm) = true)) = (fun a => a.name == some nm) := by
    funext a
    cases a.name with
    | none => simp
    | some v => by_cases h : v = nm <;> simp [h]
  rw [this]

theorem foldl_filter_noop (f : β → α → β) (p : α → Bool) (l : List α) (s : β)
    (h : ∀ a, p a = false → ∀ s, f s a = s) : (l.filter p).foldl f s = l.foldl f s := by
  induction l generalizing s with
  | nil => rfl
  | cons a l ih =>
    rw [filter_cons]
    cases hp : p a with
    | true => simp only [if_true, foldl_cons]; exact ih _
    | false => simp only [Bool.false_eq_true, if_false, foldl_cons, h a hp]; exact ih _

theorem glyphCaretSet_drop (quant : Option Q) (g : GlyphIn) :
    glyphCaretSet quant (dropUnnamed g) = glyphCaretSet quant g := by
  unfold glyphCaretSet
  show foldl _ [] (g.anchors.filter _) = _
  apply foldl_filter_noop
  intro a ha s
  have hn : a.name = none := by cases h : a.name <;> simp_all
  simp [caretValue, hn, addOpt]

theorem ligatureCarets_drop (quant : Option Q) (glyphs : List GlyphIn) :
    ligatureCarets quant (glyphs.map dropUnnamed) = ligatureCarets quant glyphs := by
  unfold ligatureCarets glyphCarets
  rw [filterMap_map]
  congr 1
  funext g
  simp only [Function.comp, glyphCaretSet_drop]
  rfl

theorem names_drop (glyphs : List GlyphIn) : (glyphs.map dropUnnamed).map (·.name) = glyphs.map (·.name) := by
  rw [map_map]; rfl

theorem gdefWrite_drop (quant : Option Q) (glyphs : List GlyphIn) (cats : List (String × String)) (bl : List UserBlock) :
    gdefWrite quant (glyphs.map dropUnnamed) cats bl = gdefWrite quant glyphs cats bl := by
  unfold gdefWrite
  simp only [names_drop, ligatureCarets_drop]

theorem anchorNameSet_drop (glyphs : List GlyphIn) : anchorNameSet (glyphs.map dropUnnamed) = anchorNameSet glyphs := by
  unfold anchorNameSet
  congr 1
  rw [flatMap_map]
  congr 1
  funext g
  simp only [dropUnnamed, filterMap_filter]
  congr 1
  funext a
  unfold truthyName
  cases a.name <;> simp

theorem cursiveStatements_drop (quant : Option Q) (gl : List GlyphIn) (e x : String) :
    cursiveStatements quant (gl.map dropUnnamed) e x = cursiveStatements quant gl e x := by
  unfold cursiveStatements
  rw [filterMap_map]
  congr 1
  funext g
  simp only [Function.comp, getAnchors, getAnchor_drop]
  rfl

theorem makeCursiveLookup_drop (quant : Option Q) (gl : List GlyphIn) (e x : String) (d : Option Dir) :
    makeCursiveLookup quant (gl.map dropUnnamed) e x d = makeCursiveLookup quant gl e x d := by
  unfold makeCursiveLookup
  simp only [cursiveStatements_drop]

theorem lookupsForPair_drop (quant : Option Q) (glyphs : List GlyphIn) (d : DirData) (p : String × String) :
    lookupsForPair quant (glyphs.map dropUnnamed) d p = lookupsForPair quant glyphs d p := by
  unfold lookupsForPair
  have hf : ∀ (q : String → Bool), (glyphs.map dropUnnamed).filter (fun g => q g.name) =
      (glyphs.filter (fun g => q g.name)).map dropUnnamed := by
    intro q; rw [filter_map]; rfl
  rw [hf (fun n => (ltrSet d).contains n), hf (fun n => !(ltrSet d).contains n)]
  simp only [makeCursiveLookup_drop]

/-- **C18_unnamed_anchor_ignored**: anchors without a name make no difference whatsoever — no error,
no anchor pair, no cursive record, no caret, no class: the writers' output on a font equals their output
on the same font with every unnamed anchor removed -/
theorem C18_unnamed_anchor_ignored (i : Input) : run i = run (dropUnnamedIn i) := by
  unfold run cursFeature dropUnnamedIn
  simp only [gdefWrite_drop, anchorNameSet_drop]
  congr 1
  split
  · rfl
  · congr 1
    funext p
    exact (lookupsForPair_drop _ _ _ _).symm

/-- an unnamed anchor forms no pair: the pairs are those of the named anchors -/
theorem specPairs_drop (i : Input) : specPairs (dropUnnamedIn i) = specPairs i := by
  have : allAnchorNames (dropUnnamedIn i) = allAnchorNames i := by
    unfold allAnchorNames dropUnnamedIn
    simp only [flatMap_map]
    congr 1
    funext g
    simp only [dropUnnamed, filterMap_filter]
    congr 1
    funext a
    unfold properName
    cases a.name <;> simp
  unfold specPairs hasName
  rw [this]

/-! ### writer instances used for several fonts, one after the other -/

/-- the instances are unchanged by a `write()` and the k-th output is that of a fresh build of the k-th font -/
theorem runSeq_eq (w : Writers) (is : List Input) :
    runSeq w is = is.map (fun i => run { i with quant := w.quant }) := by
  induction is with
  | nil => rfl
  | cons i is ih => simp only [runSeq, writeOne, map_cons, ih]

theorem runSeq_length (w : Writers) (is : List Input) : (runSeq w is).length = is.length := by
  rw [runSeq_eq, length_map]

/-- **C18_seq** (hypothesis as in `C18_all`, for every font of the sequence): whatever fonts were
compiled before with the same writer instances, each font's output satisfies the class, caret and cursive
predicates with respect to ITS OWN UFO data -/
theorem C18_seq (w : Writers) (is : List Input)
    (h : ∀ i ∈ is, WF i) (k : Nat) (hk : k < is.length) :
    holdsClassesFea { is[k] with quant := w.quant } ((runSeq w is)[k]'(by rw [runSeq_length]; exact hk)).gdef.classDef = true ∧
    holdsCaretsFea { is[k] with quant := w.quant } ((runSeq w is)[k]'(by rw [runSeq_length]; exact hk)).gdef.carets = true ∧
    holdsCurs { is[k] with quant := w.quant } ((runSeq w is)[k]'(by rw [runSeq_length]; exact hk)).curs = true := by
  simp only [runSeq_eq, getElem_map]
  have hw := h is[k] (getElem_mem hk)
  exact C18_all { is[k] with quant := w.quant } ⟨hw.keys, hw.names⟩

/-- the output for a font does not depend on the fonts compiled before it -/
theorem C18_seq_independent (w : Writers) (pre pre' : List Input) (i : Input) :
    (runSeq w (pre ++ [i])).getLast? = (runSeq w (pre' ++ [i])).getLast? := by
  simp [runSeq_eq]

/-! ### carets of a variable build -/

theorem mem_addVar (s : List VCaret) (c c' : VCaret) : c ∈ addVar s c' ↔ c ∈ s ∨ c = c' := by
  unfold addVar
  cases c' with
  | plain n => exact mem_addSet s _ c
  | var v => simp

theorem mem_glyphCaretSetVar_aux (f : Anchor → Option VCaret) (l : List Anchor) (s0 : List VCaret) (c : VCaret) :
    c ∈ l.foldl (fun s a => match f a with | none => s | some c => addVar s c) s0 ↔
      c ∈ s0 ∨ ∃ a ∈ l, f a = some c := by
  induction l generalizing s0 with
  | nil => simp
  | cons a l ih =>
    rw [foldl_cons, ih]
    cases hf : f a with
    | none =>
      simp only [mem_cons, exists_eq_or_imp, hf]
      constructor
      · rintro (h | h); exact Or.inl h; exact Or.inr (Or.inr h)
      · rintro (h | h | h); exact Or.inl h; cases h; exact Or.inr h
    | some w =>
      simp only [mem_addVar, mem_cons, exists_eq_or_imp, hf, Option.some.injEq]
      constructor
      · rintro ((h | h) | h); exact Or.inl h; exact Or.inr (Or.inl h.symm); exact Or.inr (Or.inr h)
      · rintro (h | h | h); exact Or.inl (Or.inl h); exact Or.inl (Or.inr h.symm); exact Or.inr h

theorem mem_glyphCaretSetVar (g : VarGlyph) (c : VCaret) :
    c ∈ glyphCaretSetVar g ↔ ∃ a ∈ g.sources.getD g.dflt [], caretValueVar g.sources a = some c := by
  have h := mem_glyphCaretSetVar_aux (caretValueVar g.sources) (g.sources.getD g.dflt []) [] c
  simp only [not_mem_nil, false_or] at h
  exact h

theorem mem_glyphCaretsVar (g : VarGlyph) (c : VCaret) : c ∈ glyphCaretsVar g ↔ c ∈ glyphCaretSetVar g :=
  (mergeSort_perm _ keyLe).mem_iff

theorem glyphCaretsVar_sorted (g : VarGlyph) : ((glyphCaretsVar g).map caretKey).Pairwise (· ≤ ·) := by
  have h := pairwise_mergeSort (le := keyLe)
    (by intro a b c; simp only [keyLe, decide_eq_true_eq]; exact Int.le_trans)
    (by intro a b; simp only [keyLe, Bool.or_eq_true, decide_eq_true_eq]; exact Int.le_total _ _) (glyphCaretSetVar g)
  rw [pairwise_map]
  exact h.imp (by intro a b hab; simpa [keyLe] using hab)

/-- a collapsed scalar has, at a source that contributed a value, that value -/
theorem collapseVar_at (vals : List (Option Int)) (k : Nat) (v : Int) (h : vals[k]? = some (some v)) :
    (collapseVar vals).at k = some v := by
  unfold collapseVar
  have hv : v ∈ vals.filterMap id := by
    rw [mem_filterMap]; exact ⟨some v, mem_of_getElem? h, rfl⟩
  split
  · rename_i he; rw [he] at hv; cases hv
  · rename_i v0 vs he
    rw [he] at hv
    split
    · rename_i hall
      simp only [VCaret.at]
      rcases mem_cons.mp hv with rfl | hm
      · rfl
      · have := (all_eq_true.mp hall) v hm
        simp only [beq_iff_eq] at this; rw [this]
    · simp [VCaret.at, h]

theorem lastNamed_mem {al : List Anchor} {n : String} {b : Anchor} (h : lastNamed al n = some b) :
    b ∈ al ∧ b.name = some n := by
  unfold lastNamed at h
  have := mem_of_getLast? h
  rw [mem_filter] at this
  exact ⟨this.1, by simpa using this.2⟩

theorem lastNamed_isSome {al : List Anchor} {n : String} (h : some n ∈ al.map (·.name)) :
    ∃ b, lastNamed al n = some b := by
  obtain ⟨a, ha, hn⟩ := mem_map.mp h
  unfold lastNamed
  have hne : al.filter (fun a => a.name == some n) ≠ [] := by
    intro he
    have : a ∈ al.filter (fun a => a.name == some n) := mem_filter.mpr ⟨ha, by simp [hn]⟩
    rw [he] at this; cases this
  cases hl : (al.filter (fun a => a.name == some n)).getLast? with
  | none => exact absurd (getLast?_eq_none_iff.mp hl) hne
  | some b => exact ⟨b, rfl⟩

theorem varAnchor_at (sources : List (List Anchor)) (n : String) (k : Nat) (al : List Anchor)
    (hk : sources[k]? = some al) (b : Anchor) (hb : lastNamed al n = some b) :
    ∃ vs, varAnchor sources n = some vs ∧ vs[k]? = some (some (otRound b.x, otRound b.y)) := by
  unfold varAnchor
  have hget : (sources.map (fun al => (lastNamed al n).map (fun a => (otRound a.x, otRound a.y))))[k]? =
      some (some (otRound b.x, otRound b.y)) := by
    rw [getElem?_map, hk]; simp [hb]
  have hany : (sources.map (fun al => (lastNamed al n).map (fun a => (otRound a.x, otRound a.y)))).any (·.isSome) = true := by
    rw [any_eq_true]
    exact ⟨_, mem_of_getElem? hget, rfl⟩
  simp only [hany, if_true]
  exact ⟨_, rfl, hget⟩

/-- what one anchor named `n` of the default source contributes, seen at source `k`: the own rounded caret
coordinate of the anchor that source `k` ends up with for that name -/
theorem caretValueVar_at (sources : List (List Anchor)) (a : Anchor) (n : String) (hn : a.name = some n)
    (k : Nat) (al : List Anchor) (hk : sources[k]? = some al) (b : Anchor) (hb : lastNamed al n = some b) :
    (caretValueVar sources a).bind (·.at k) = (ownCaret b).map otRound := by
  obtain ⟨vs, hvs, hget⟩ := varAnchor_at sources n k al hk b hb
  have hbn := (lastNamed_mem hb).2
  unfold caretValueVar ownCaret
  simp only [hn, hbn]
  by_cases h0 : n.isEmpty = true
  · simp [h0]
  · simp only [h0, Bool.false_eq_true, if_false]
    by_cases h1 : isCaretName n = true
    · simp only [h1, if_true, hvs, Option.map_some, Option.bind_some]
      exact collapseVar_at _ k _ (by rw [getElem?_map, hget]; rfl)
    · simp only [h1, Bool.false_eq_true, if_false]
      by_cases h2 : isVCaretName n = true
      · simp only [h2, if_true, hvs, Option.map_some, Option.bind_some]
        exact collapseVar_at _ k _ (by rw [getElem?_map, hget]; rfl)
      · simp [h2]

/-- all sources of the glyph have the same anchor names in the same order (full, compatible masters), and the
default source is one of them -/
def sameNames (g : VarGlyph) : Prop :=
  g.dflt < g.sources.length ∧ ∀ al ∈ g.sources, al.map (·.name) = (g.sources.getD g.dflt []).map (·.name)

/-- in every source every caret anchor is the last anchor carrying its name
(true in particular when the caret anchors of a glyph have distinct names) -/
def caretLast (g : VarGlyph) : Prop :=
  ∀ al ∈ g.sources, ∀ b ∈ al, (ownCaret b).isSome → ∀ n, b.name = some n → lastNamed al n = some b

theorem caretValueVar_name {sources : List (List Anchor)} {a : Anchor} {c : VCaret}
    (h : caretValueVar sources a = some c) : ∃ n, a.name = some n := by
  unfold caretValueVar at h
  cases hn : a.name with
  | none => rw [hn] at h; cases h
  | some n => exact ⟨n, rfl⟩

theorem ownCaret_name {b : Anchor} {v : Q} (h : ownCaret b = some v) : ∃ n, b.name = some n := by
  unfold ownCaret at h
  cases hn : b.name with
  | none => rw [hn] at h; cases h
  | some n => exact ⟨n, rfl⟩

/-- **C18_carets_var_partial** (hypotheses `sameNames` and `caretLast`; without the latter the statement is false of
the code, see the `example` below — finding "same-named-caret-anchors-collapse-to-last", variable path): in a
variable build the carets emitted for a glyph take, in every source of the designspace, exactly the rounded
coordinates of that source's caret anchors, and they are ordered by their value in the first source. -/
theorem C18_carets_var_partial (g : VarGlyph) (hs : sameNames g) (hl : caretLast g) :
    holdsCaretsVar g (glyphCaretsVar g) = true := by
  unfold holdsCaretsVar
  simp only [Bool.and_eq_true, all_eq_true, mem_range, decide_eq_true_eq]
  refine ⟨?_, glyphCaretsVar_sorted g⟩
  intro k hk
  have hal : g.sources[k]? = some g.sources[k] := getElem?_eq_getElem hk
  have hmem : g.sources[k] ∈ g.sources := getElem_mem hk
  have hgetD : g.sources.getD k [] = g.sources[k] := by simp [List.getD, hal]
  rw [hgetD, sameMembers_iff]
  intro z
  have hnames := hs.2 _ hmem
  simp only [mem_filterMap, caretCoordsVar]
  constructor
  · rintro ⟨c, hc, hz⟩
    obtain ⟨a, ha, hca⟩ := (mem_glyphCaretSetVar g c).mp ((mem_glyphCaretsVar g c).mp hc)
    obtain ⟨n, hn⟩ := caretValueVar_name hca
    have : some n ∈ (g.sources[k]).map (·.name) := by
      rw [hnames]; exact mem_map.mpr ⟨a, ha, hn⟩
    obtain ⟨b, hb⟩ := lastNamed_isSome this
    have h := caretValueVar_at g.sources a n hn k _ hal b hb
    rw [hca, Option.bind_some, hz] at h
    exact ⟨b, (lastNamed_mem hb).1, h.symm⟩
  · rintro ⟨b, hb, hz⟩
    obtain ⟨v, hv, rfl⟩ := Option.map_eq_some_iff.mp hz
    obtain ⟨n, hn⟩ := ownCaret_name hv
    have hlast := hl _ hmem b hb (by simp [hv]) n hn
    have : some n ∈ (g.sources.getD g.dflt []).map (·.name) := by
      rw [← hnames]; exact mem_map.mpr ⟨b, hb, hn⟩
    obtain ⟨a, ha, han⟩ := mem_map.mp this
    have h := caretValueVar_at g.sources a n han k _ hal b hlast
    rw [hv, Option.map_some] at h
    obtain ⟨c, hc, hcz⟩ := Option.bind_eq_some_iff.mp h
    exact ⟨c, (mem_glyphCaretsVar g c).mpr ((mem_glyphCaretSetVar g c).mpr ⟨a, ha, hc⟩), hcz⟩

/-- the hypotheses are met by a two-master glyph with three carets, one of which does not vary -/
def exVar : VarGlyph :=
  { name := "f_i", dflt := 0,
    sources := [[⟨some "caret_1", 100, 0⟩, ⟨some "caret_2", 401/2, 0⟩, ⟨some "vcaret_1", 0, 50⟩, ⟨some "top", 5, 5⟩],
                [⟨some "caret_1", 110, 0⟩, ⟨some "caret_2", 230, 0⟩, ⟨some "vcaret_1", 0, 50⟩, ⟨some "top", 6, 6⟩]] }

example : sameNames exVar := ⟨by decide, by decide⟩

/-- decidable form of `caretLast` -/
def caretLastB (g : VarGlyph) : Bool :=
  g.sources.all (fun al => al.all (fun b => (ownCaret b).isNone ||
    match b.name with
    | some n => lastNamed al n == some b
    | none => true))

theorem caretLast_of_B (g : VarGlyph) (h : caretLastB g = true) : caretLast g := by
  intro al hal b hb hs n hn
  unfold caretLastB at h
  have := (all_eq_true.mp ((all_eq_true.mp h) al hal)) b hb
  simp only [Bool.or_eq_true, Option.isNone_iff_eq_none, hn, beq_iff_eq] at this
  rcases this with h0 | h1
  · rw [h0] at hs; cases hs
  · exact h1

example : caretLast exVar := caretLast_of_B _ (by decide +kernel)
example : glyphCaretSetVar exVar = [.var [some 100, some 110], .var [some 201, some 230], .plain 50] := by decide +kernel

/-- without `caretLast` the statement is false of the code (variable path, unchanged by the repair of the static
case): of two caret anchors sharing a name each source keeps the LAST one's coordinate, twice; the first is lost -/
example : let g : VarGlyph := ⟨"f_i", [[⟨some "caret_1", 100, 0⟩, ⟨some "caret_1", 200, 0⟩],
                                        [⟨some "caret_1", 110, 0⟩, ⟨some "caret_1", 230, 0⟩]], 0⟩
    glyphCaretSetVar g = [.var [some 200, some 230], .var [some 200, some 230]] ∧
      (100 : Int) ∈ caretCoordsVar (g.sources.getD 0 []) := by
  decide +kernel

/-! ### the left-to-right set: GSUB closure with the script-neutral glyphs carried along -/

theorem subsetOf_iff (a b : List String) : subsetOf a b = true ↔ ∀ g ∈ a, g ∈ b := by
  simp [subsetOf, List.all_eq_true]

theorem closeStep_extensive (rules : List Rule) (s : List String) {g : String} (h : g ∈ s) : g ∈ closeStep rules s := by
  unfold closeStep; exact List.mem_append_left _ h

/-- a glyph added by a round is produced by a rule all of whose needed glyphs were present -/
theorem closeStep_mem (rules : List Rule) (s : List String) {g : String} (h : g ∈ closeStep rules s) :
    g ∈ s ∨ ∃ r ∈ rules, g ∈ r.out ∧ ∀ x ∈ r.need, x ∈ s := by
  unfold closeStep at h
  rcases List.mem_append.mp h with h | h
  · exact Or.inl h
  · right
    have h := (List.mem_eraseDups.mp h)
    have h := (List.mem_filter.mp h).1
    obtain ⟨r, hr, hg⟩ := List.mem_flatMap.mp h
    have hr' := List.mem_filter.mp hr
    exact ⟨r, hr'.1, hg, (subsetOf_iff _ _).mp hr'.2⟩

theorem closeGlyphs_extensive (rules : List Rule) (k : Nat) : ∀ (s : List String) {g : String}, g ∈ s → g ∈ closeGlyphs rules k s := by
  induction k with
  | zero => intro s g h; exact h
  | succ k ih => intro s g h; exact ih _ (closeStep_extensive rules s h)

/-- **nothing unreachable**: every glyph of the closed set is a starting glyph or the output of a rule all of whose
needed glyphs are in the closed set -/
theorem closeGlyphs_grounded (rules : List Rule) (k : Nat) : ∀ (s : List String) {g : String}, g ∈ closeGlyphs rules k s →
    g ∈ s ∨ ∃ r ∈ rules, g ∈ r.out ∧ ∀ x ∈ r.need, x ∈ closeGlyphs rules k s := by
  induction k with
  | zero => intro s g h; exact Or.inl h
  | succ k ih =>
    intro s g h
    rcases ih (closeStep rules s) h with h1 | ⟨r, hr, hg, hn⟩
    · rcases closeStep_mem rules s h1 with h2 | ⟨r, hr, hg, hn⟩
      · exact Or.inl h2
      · exact Or.inr ⟨r, hr, hg, fun x hx => closeGlyphs_extensive rules (k + 1) s (hn x hx)⟩
    · exact Or.inr ⟨r, hr, hg, hn⟩

theorem closedUnder_iff (rules : List Rule) (s : List String) :
    closedUnder rules s = true ↔ ∀ r ∈ rules, (∀ x ∈ r.need, x ∈ s) → ∀ g ∈ r.out, g ∈ s := by
  simp only [closedUnder, List.all_eq_true, Bool.or_eq_true, Bool.not_eq_true', subsetOf_iff]
  constructor
  · intro h r hr hn
    rcases h r hr with h1 | h1
    · have := (subsetOf_iff r.need s).mpr hn; rw [this] at h1; cases h1
    · exact h1
  · intro h r hr
    cases hs : subsetOf r.need s with
    | false => exact Or.inl rfl
    | true => exact Or.inr (h r hr ((subsetOf_iff _ _).mp hs))

/-- membership in the direction's set or the neutral set = membership in the joint closure -/
theorem classifyDir_mem (rules : List Rule) (dir0 neutral0 : List String) (g : String) :
    (g ∈ (classifyDir rules dir0 neutral0).1 ∨ g ∈ (classifyDir rules dir0 neutral0).2) ↔
      g ∈ closeGlyphs rules (closeFuel rules) (dir0 ++ (classifyDir rules dir0 neutral0).2) := by
  simp only [classifyDir]
  constructor
  · rintro (h | h)
    · rcases List.mem_append.mp h with h | h
      · exact closeGlyphs_extensive _ _ _ (List.mem_append_left _ h)
      · exact (List.mem_filter.mp h).1
    · exact closeGlyphs_extensive _ _ _ (List.mem_append_right _ h)
  · intro h
    by_cases hn : g ∈ closeGlyphs rules (closeFuel rules) neutral0
    · exact Or.inr hn
    · left
      by_cases hd : g ∈ dir0
      · exact List.mem_append_left _ hd
      · exact List.mem_append_right _ (List.mem_filter.mpr ⟨h, by simp [hn, hd]⟩)

/-- every encoded glyph of the direction is in its set; every encoded neutral glyph in the neutral set -/
theorem C18_dir_seeded (rules : List Rule) (dir0 neutral0 : List String) :
    dirSeeded dir0 (classifyDir rules dir0 neutral0).1 = true ∧ dirSeeded neutral0 (classifyDir rules dir0 neutral0).2 = true := by
  simp only [dirSeeded, List.all_eq_true, List.contains_iff_mem, classifyDir]
  exact ⟨fun g hg => List.mem_append_left _ hg, fun g hg => closeGlyphs_extensive _ _ _ hg⟩

/-- a glyph that is in the direction's set without being encoded for it is not a neutral glyph -/
theorem C18_dir_neutral_free (rules : List Rule) (dir0 neutral0 : List String) {g : String}
    (h : g ∈ (classifyDir rules dir0 neutral0).1) : g ∈ dir0 ∨ g ∉ (classifyDir rules dir0 neutral0).2 := by
  simp only [classifyDir] at h ⊢
  rcases List.mem_append.mp h with h | h
  · exact Or.inl h
  · have := (List.mem_filter.mp h).2
    simp only [Bool.and_eq_true, Bool.not_eq_true', List.contains_eq_mem, decide_eq_false_iff_not] at this
    exact Or.inr this.1

theorem dirClosed_iff (rules : List Rule) (s n : List String) :
    dirClosed rules s n = true ↔ ∀ r ∈ rules, (∀ x ∈ r.need, x ∈ s ∨ x ∈ n) → ∀ g ∈ r.out, g ∈ s ∨ g ∈ n := by
  simp only [dirClosed, List.all_eq_true, Bool.or_eq_true, Bool.not_eq_true', List.contains_iff_mem]
  constructor
  · intro h r hr hn
    rcases h r hr with h1 | h1
    · have : (r.need.all fun g => s.contains g || n.contains g) = true := by
        simp only [List.all_eq_true, Bool.or_eq_true, List.contains_iff_mem]; exact hn
      rw [this] at h1; cases h1
    · exact h1
  · intro h r hr
    cases hs : (r.need.all fun g => s.contains g || n.contains g) with
    | false => exact Or.inl rfl
    | true =>
      right
      simp only [List.all_eq_true, Bool.or_eq_true, List.contains_iff_mem] at hs
      exact h r hr hs

theorem dirGrounded_iff (rules : List Rule) (dir0 s n : List String) :
    dirGrounded rules dir0 s n = true ↔ ∀ g ∈ s, g ∈ dir0 ∨ (g ∉ n ∧ ∃ r ∈ rules, g ∈ r.out ∧ ∀ x ∈ r.need, x ∈ s ∨ x ∈ n) := by
  simp only [dirGrounded, List.all_eq_true, Bool.or_eq_true, Bool.and_eq_true, Bool.not_eq_true',
    List.any_eq_true, List.contains_eq_mem, decide_eq_false_iff_not, decide_eq_true_eq]

/-- **the direction set of `classifyGlyphs`** (model): once the rounds have reached the fixed point (which the driver
checks on every input), the set computed for a direction together with the neutral set satisfies the declarative
statement — seeded by the encoded glyphs, closed under every rule whose needed glyphs are of the direction OR neutral,
and containing nothing else -/
theorem C18_dir_set (rules : List Rule) (dir0 neutral0 : List String)
    (hN : closedUnder rules (classifyDir rules dir0 neutral0).2 = true)
    (hS : closedUnder rules (closeGlyphs rules (closeFuel rules) (dir0 ++ (classifyDir rules dir0 neutral0).2)) = true) :
    holdsDirSet rules dir0 neutral0 (classifyDir rules dir0 neutral0).1 (classifyDir rules dir0 neutral0).2 = true := by
  have hmem := classifyDir_mem rules dir0 neutral0
  have hseed := C18_dir_seeded rules dir0 neutral0
  simp only [holdsDirSet, Bool.and_eq_true]
  refine ⟨⟨⟨⟨⟨hseed.1, ?_⟩, ?_⟩, hseed.2⟩, ?_⟩, ?_⟩
  · rw [dirClosed_iff]
    intro r hr hn g hg
    rw [hmem]
    exact (closedUnder_iff _ _).mp hS r hr (fun x hx => (hmem x).mp (hn x hx)) g hg
  · rw [dirGrounded_iff]
    intro g hg
    rcases C18_dir_neutral_free rules dir0 neutral0 hg with h | h
    · exact Or.inl h
    · by_cases hd : g ∈ dir0
      · exact Or.inl hd
      · right
        refine ⟨h, ?_⟩
        have hfull := (hmem g).mp (Or.inl hg)
        rcases closeGlyphs_grounded rules _ _ hfull with h1 | ⟨r, hr, h2, h3⟩
        · rcases List.mem_append.mp h1 with h1 | h1
          · exact absurd h1 hd
          · exact absurd h1 h
        · exact ⟨r, hr, h2, fun x hx => (hmem x).mpr (h3 x hx)⟩
  · rw [dirClosed_iff]
    intro r hr hn g hg
    left
    exact (closedUnder_iff _ _).mp hN r hr (fun x hx => (hn x hx).resolve_right (by simp)) g hg
  · rw [dirGrounded_iff]
    intro g hg
    simp only [classifyDir] at hg ⊢
    rcases closeGlyphs_grounded rules _ _ hg with h1 | ⟨r, hr, h2, h3⟩
    · exact Or.inl h1
    · exact Or.inr ⟨by simp, r, hr, h2, fun x hx => Or.inl (h3 x hx)⟩

/-- the seeded shape: `sub a' period by a.fina; sub n period by n_period;` with `period` neutral — both unencoded
glyphs are left-to-right, and the closure that does not carry the neutral glyphs along misses them -/
example : (classifyDir [⟨["a", "period"], ["a.fina"]⟩, ⟨["n", "period"], ["n_period"]⟩, ⟨["n"], ["n.alt"]⟩]
    ["a", "n"] ["period", "space"]) = (["a", "n", "a.fina", "n_period", "n.alt"], ["period", "space"]) ∧
    closeGlyphs [⟨["a", "period"], ["a.fina"]⟩, ⟨["n", "period"], ["n_period"]⟩, ⟨["n"], ["n.alt"]⟩] 4 ["a", "n"] = ["a", "n", "n.alt"] := by
  decide +kernel

example : holdsDirSet [⟨["a", "period"], ["a.fina"]⟩] ["a"] ["period"] ["a"] ["period"] = false := by decide +kernel

end Ufo2ft.C18
