import Ufo2ftModel.Spec.C04
/-! Property C04: theorems about the model of the derived fields. -/
namespace Ufo2ft.C04
open List

/-! ### max / min -/

theorem foldl_max_spec (l : List Int) (a : Int) :
    (l.foldl max a) ∈ a :: l ∧ a ≤ l.foldl max a ∧ ∀ x ∈ l, x ≤ l.foldl max a := by
  induction l generalizing a with
  | nil => simp
  | cons b l ih =>
    simp only [foldl_cons]
    obtain ⟨h1, h2, h3⟩ := ih (max a b)
    refine ⟨?_, by omega, ?_⟩
    · rcases mem_cons.mp h1 with h | h
      · rcases Int.le_total a b with hab | hab
        · rw [h, Int.max_eq_right hab]; simp
        · rw [h, Int.max_eq_left hab]; simp
      · simp [h]
    · intro x hx; rcases mem_cons.mp hx with rfl | hx
      · omega
      · exact h3 x hx

theorem foldl_min_spec (l : List Int) (a : Int) :
    (l.foldl min a) ∈ a :: l ∧ l.foldl min a ≤ a ∧ ∀ x ∈ l, l.foldl min a ≤ x := by
  induction l generalizing a with
  | nil => simp
  | cons b l ih =>
    simp only [foldl_cons]
    obtain ⟨h1, h2, h3⟩ := ih (min a b)
    refine ⟨?_, by omega, ?_⟩
    · rcases mem_cons.mp h1 with h | h
      · rcases Int.le_total a b with hab | hab
        · rw [h, Int.min_eq_left hab]; simp
        · rw [h, Int.min_eq_right hab]; simp
      · simp [h]
    · intro x hx; rcases mem_cons.mp hx with rfl | hx
      · omega
      · exact h3 x hx

theorem isMaxOr0_maxL (l : List Int) : isMaxOr0 (maxL l) l = true := by
  cases l with
  | nil => simp [isMaxOr0, maxL]
  | cons a l =>
    obtain ⟨h1, h2, h3⟩ := foldl_max_spec l a
    simp only [isMaxOr0, maxL, isEmpty_cons, Bool.false_eq_true, if_false, Bool.and_eq_true,
      contains_eq_mem, decide_eq_true_eq, all_eq_true]
    exact ⟨h1, fun x hx => decide_eq_true (by rcases mem_cons.mp hx with rfl | hx; exact h2; exact h3 x hx)⟩

theorem isMinOr0_minL (l : List Int) : isMinOr0 (minL l) l = true := by
  cases l with
  | nil => simp [isMinOr0, minL]
  | cons a l =>
    obtain ⟨h1, h2, h3⟩ := foldl_min_spec l a
    simp only [isMinOr0, minL, isEmpty_cons, Bool.false_eq_true, if_false, Bool.and_eq_true,
      contains_eq_mem, decide_eq_true_eq, all_eq_true]
    exact ⟨h1, fun x hx => decide_eq_true (by rcases mem_cons.mp hx with rfl | hx; exact h2; exact h3 x hx)⟩

/-! ### long-metric count -/

/-- invariant of the loop: entered at `n ≤ length` with everything from index `n-1` on equal to `last` -/
theorem nlmLoop_spec (a : List Int) (last : Int) (n : Nat) (hn : 1 ≤ n) (hle : n ≤ a.length)
    (htail : ∀ i, n - 1 ≤ i → i < a.length → a[i]? = some last) :
    1 ≤ nlmLoop a last n ∧ nlmLoop a last n ≤ n ∧
      (∀ i, nlmLoop a last n - 1 ≤ i → i < a.length → a[i]? = some last) ∧
      (nlmLoop a last n = 1 ∨ a[nlmLoop a last n - 2]? ≠ some last) := by
  induction n with
  | zero => omega
  | succ k ih =>
    cases k with
    | zero =>
      have e : nlmLoop a last (0 + 1) = 1 := rfl
      rw [e]; exact ⟨by omega, by omega, htail, Or.inl rfl⟩
    | succ k =>
      by_cases hk : (a[k]? == some last) = true
      · have e : nlmLoop a last (k + 1 + 1) = nlmLoop a last (k + 1) := by
          show (if a[k]? == some last then nlmLoop a last (k + 1) else k + 2) = _
          rw [if_pos hk]
        rw [e]
        have hk' : a[k]? = some last := by simpa using hk
        have := ih (by omega) (by omega) (by
          intro i hi hlt
          by_cases hik : i = k
          · subst hik; exact hk'
          · exact htail i (by omega) hlt)
        obtain ⟨h1, h2, h3, h4⟩ := this
        exact ⟨h1, by omega, h3, h4⟩
      · have e : nlmLoop a last (k + 1 + 1) = k + 2 := by
          show (if a[k]? == some last then nlmLoop a last (k + 1) else k + 2) = _
          rw [if_neg hk]
        rw [e]
        refine ⟨by omega, by omega, htail, Or.inr ?_⟩
        simpa using hk

theorem getLast?_idx (a : List Int) : a.getLast? = a[a.length - 1]? := List.getLast?_eq_getElem?

/-- **C04_longMetrics (1/2)**: the pre-computed numberOf{H,V}Metrics is in range, every advance
after the long records equals the last long advance, and the count is minimal. -/
theorem C04_numLong (a : List Int) : holdsNumLong a (numLongMetrics a) = true := by
  unfold holdsNumLong numLongMetrics
  cases hl : a.getLast? with
  | none => simp
  | some last =>
    have hne : a ≠ [] := by intro h; simp [h] at hl
    have hlen : 1 ≤ a.length := length_pos_iff.mpr hne
    have hlast : a[a.length - 1]? = some last := by rw [← getLast?_idx a]; exact hl
    have := nlmLoop_spec a last a.length hlen (Nat.le_refl _) (by
      intro i hi hlt
      have : i = a.length - 1 := by omega
      subst this; exact hlast)
    obtain ⟨h1, h2, h3, h4⟩ := this
    simp only [Bool.and_eq_true, decide_eq_true_eq, all_eq_true, Bool.or_eq_true, beq_iff_eq, bne_iff_ne, ne_eq]
    refine ⟨⟨⟨h1, h2⟩, ?_⟩, ?_⟩
    · intro x hx
      obtain ⟨i, hi, rfl⟩ := mem_iff_getElem.mp hx
      simp only [length_drop] at hi
      have := h3 (nlmLoop a last a.length - 1 + i) (by omega) (by omega)
      rw [getElem_drop]
      rw [getElem?_eq_getElem (by omega)] at this
      exact Option.some.inj this
    · rcases h4 with h | h
      · exact Or.inl h
      · exact Or.inr h

/-- **C04_longMetrics (2/2)**: a table written with that count decodes back to the same
per-glyph advances. -/
theorem C04_decode (a : List Int) (n : Nat) (h : holdsNumLong a n = true) :
    decodeAdvances n (a.take n) a.length = a := by
  unfold holdsNumLong at h
  cases hl : a.getLast? with
  | none =>
    have : a = [] := by simpa using hl
    subst this; simp [decodeAdvances]
  | some last =>
    rw [hl] at h
    simp only [Bool.and_eq_true, decide_eq_true_eq, all_eq_true, beq_iff_eq] at h
    obtain ⟨⟨⟨h1, h2⟩, h3⟩, _⟩ := h
    unfold decodeAdvances
    have htake : (a.take n).getLast? = some last := by
      rw [List.getLast?_eq_getElem?, length_take, Nat.min_eq_left h2, getElem?_take_of_lt (by omega)]
      have : a[n - 1] ∈ a.drop (n - 1) := by
        rw [mem_iff_getElem]; exact ⟨0, by simp; omega, by simp⟩
      rw [getElem?_eq_getElem (by omega), h3 _ this]
    rw [htake]
    simp only [Option.getD_some]
    conv => rhs; rw [← take_append_drop n a]
    congr 1
    apply ext_getElem
    · simp
    · intro i hi1 hi2
      simp only [getElem_replicate]
      have hlen : n + i < a.length := by simp at hi2; omega
      have : (a.drop n)[i] ∈ a.drop (n - 1) := by
        rw [mem_iff_getElem]
        refine ⟨i + 1, by simp; omega, ?_⟩
        rw [getElem_drop, getElem_drop]; congr 1; omega
      exact (h3 _ this).symm

/-! ### header -/

/-- **C04_header**: advanceMax, minimum bearings, maximum extent and the long-metric count of the
model satisfy the declarative relation to the metrics table and the glyph boxes. -/
theorem C04_header (mtx : List (Int × Int)) (spans : List (Option Int)) :
    holdsHeader mtx spans (header mtx spans) = true := by
  simp only [holdsHeader, header, rowsOf, isMaxOr0_maxL, isMinOr0_minL, C04_numLong, Bool.and_self]

/-- **C04 side bearings / advances**: hmtx is (otRound width, xMin) for every glyph, unless a rounded
width is negative, which is rejected. -/
theorem C04_hmtx (gs : List G) :
    (∀ r, hmtx gs = .ok r → holdsHmtx gs r = true) ∧
    (hmtx gs = .error .valueError ↔ ∃ g ∈ gs, otRound g.width < 0) := by
  unfold hmtx
  by_cases h : gs.any (fun g => decide (otRound g.width < 0)) = true
  · rw [if_pos h]
    refine ⟨fun r hr => (by cases hr), ?_⟩
    simp only [true_iff]
    obtain ⟨g, hg, hlt⟩ := any_eq_true.mp h
    exact ⟨g, hg, by simpa using hlt⟩
  · rw [if_neg h]
    refine ⟨?_, ?_⟩
    · intro r hr
      have := Except.ok.inj hr
      subst this
      simp [holdsHmtx]
    · constructor
      · intro hr; cases hr
      · rintro ⟨g, hg, hlt⟩
        exact absurd (any_eq_true.mpr ⟨g, hg, by simpa using hlt⟩) h

theorem C04_vmtx (typoAsc : Int) (gs : List G) :
    ∀ r, vmtx typoAsc gs = .ok r → holdsVmtx typoAsc gs r = true := by
  unfold vmtx
  intro r hr
  by_cases h : gs.any (fun g => decide (otRound g.height < 0)) = true
  · rw [if_pos h] at hr; cases hr
  · rw [if_neg h] at hr
    have := Except.ok.inj hr
    subst this
    simp [holdsVmtx, vertOrigin]

/-! ### font bounding box -/

theorem fontBoxLoop_some (l : List (Option Box)) (a : Box) :
    fontBoxLoop l (some a) = some
      ⟨(l.filterMap id).map (·.xMin) |>.foldl min a.xMin, (l.filterMap id).map (·.yMin) |>.foldl min a.yMin,
       (l.filterMap id).map (·.xMax) |>.foldl max a.xMax, (l.filterMap id).map (·.yMax) |>.foldl max a.yMax⟩ := by
  induction l generalizing a with
  | nil => simp [fontBoxLoop]
  | cons o l ih =>
    cases o with
    | none => simp [fontBoxLoop, ih]
    | some b => simp [fontBoxLoop, ih, unionBox]

theorem fontBoxLoop_none (l : List (Option Box)) :
    fontBoxLoop l none = match l.filterMap id with
      | [] => none
      | b :: bs => some ⟨minL ((b :: bs).map (·.xMin)), minL ((b :: bs).map (·.yMin)),
                         maxL ((b :: bs).map (·.xMax)), maxL ((b :: bs).map (·.yMax))⟩ := by
  induction l with
  | nil => simp [fontBoxLoop]
  | cons o l ih =>
    cases o with
    | none => simp [fontBoxLoop, ih]
    | some b => simp [fontBoxLoop, fontBoxLoop_some, minL, maxL]

/-- **C04_bbox**: the font bounding box is the componentwise min/max over the non-empty glyph
boxes, and (0,0,0,0) when there are none. -/
theorem C04_fontBox (gs : List G) : holdsFontBox gs (fontBox gs) = true := by
  unfold holdsFontBox fontBox
  rw [fontBoxLoop_none]
  have e : (gs.map (·.box)).filterMap id = gs.filterMap (·.box) := by
    simp [filterMap_map, Function.comp_def]
  rw [e]
  cases hb : gs.filterMap (·.box) with
  | nil => simp
  | cons b bs =>
    simp only [Option.getD_some, isEmpty_cons, Bool.false_eq_true, if_false,
      isMinOr0_minL, isMaxOr0_maxL, Bool.and_self]

theorem isMinOr0_clamp (v c : Int) (l : List Int) (hne : l ≠ []) (h : isMinOr0 v l = true) :
    isMinOr0 (min v c) (l.map (fun a => min a c)) = true := by
  have he : l.isEmpty = false := by cases l <;> simp_all
  simp only [isMinOr0, he, isEmpty_map, Bool.false_eq_true, if_false, Bool.and_eq_true, contains_eq_mem,
    decide_eq_true_eq, all_eq_true, mem_map] at h ⊢
  refine ⟨⟨v, h.1, rfl⟩, ?_⟩
  rintro x ⟨a, ha, rfl⟩
  have := h.2 a ha
  omega

theorem isMaxOr0_clamp (v c : Int) (l : List Int) (hne : l ≠ []) (h : isMaxOr0 v l = true) :
    isMaxOr0 (min v c) (l.map (fun a => min a c)) = true := by
  have he : l.isEmpty = false := by cases l <;> simp_all
  simp only [isMaxOr0, he, isEmpty_map, Bool.false_eq_true, if_false, Bool.and_eq_true, contains_eq_mem,
    decide_eq_true_eq, all_eq_true, mem_map] at h ⊢
  refine ⟨⟨v, h.1, rfl⟩, ?_⟩
  rintro x ⟨a, ha, rfl⟩
  have := h.2 a ha
  omega

/-- **C04 OS/2 character range** (as serialised): min / max code point, clamped to 0xFFFF. -/
theorem C04_charRange (cps : List Int) : holdsCharRange cps (charRangeSaved cps) = true := by
  unfold holdsCharRange charRangeSaved charRange
  cases cps with
  | nil => simp
  | cons c cs =>
    simp only [isEmpty_cons, Bool.false_eq_true, if_false, Bool.and_eq_true]
    refine ⟨isMinOr0_clamp _ _ _ (by simp) (isMinOr0_minL _), ?_⟩
    have := isMaxOr0_clamp _ 0xFFFF _ (by simp) (isMaxOr0_maxL (c :: cs))
    by_cases h : maxL (c :: cs) > 0xFFFF
    · rw [if_pos h]; rw [Int.min_eq_right (by omega)] at this; exact this
    · rw [if_neg h]; rw [Int.min_eq_left (by omega)] at this; exact this

/-- post format 2 names: exactly the non-standard names, in glyph order -/
theorem C04_extraNames (order : List String) (g : String) :
    g ∈ extraNames order ↔ g ∈ order ∧ g ∉ standardGlyphOrder := by
  simp [extraNames]

theorem C04_extraNames_sublist (order : List String) : (extraNames order).Sublist order :=
  filter_sublist

end Ufo2ft.C04

namespace Ufo2ft.C04
open List

theorem mostCommon_spec (l : List (Int × Nat)) (hl : l ≠ []) :
    ∃ m, mostCommon l = some m ∧ m ∈ l ∧ ∀ e ∈ l, e.2 ≤ m.2 := by
  induction l with
  | nil => exact absurd rfl hl
  | cons e l ih =>
    cases l with
    | nil => exact ⟨e, by simp [mostCommon], by simp, by simp⟩
    | cons e' l' =>
      obtain ⟨m, hm, hmem, hmax⟩ := ih (by simp)
      by_cases hgt : m.2 > e.2
      · refine ⟨m, ?_, mem_cons_of_mem _ hmem, ?_⟩
        · show (match mostCommon (e' :: l') with | none => some e | some m => if m.2 > e.2 then some m else some e) = _
          rw [hm]; simp [hgt]
        · intro x hx; rcases mem_cons.mp hx with rfl | hx
          · omega
          · exact hmax x hx
      · refine ⟨e, ?_, mem_cons_self, ?_⟩
        · show (match mostCommon (e' :: l') with | none => some e | some m => if m.2 > e.2 then some m else some e) = _
          rw [hm]; simp [hgt]
        · intro x hx; rcases mem_cons.mp hx with rfl | hx
          · omega
          · have := hmax x hx; omega

/-- **C04 VORG**: the default vertical origin is a most frequent one and the records are exactly
the glyphs whose origin differs from it. -/
theorem C04_vorg (typoAsc : Int) (co gs : List G) (hp : co.Perm gs)
    (h2 : (counter (co.map (vertOrigin typoAsc))).length > 1) :
    holdsVorg typoAsc gs (vorgTable typoAsc co gs) = true := by
  have hne : counter (co.map (vertOrigin typoAsc)) ≠ [] := by intro h; rw [h] at h2; simp at h2
  obtain ⟨m, hm, hmem, hmax⟩ := mostCommon_spec _ hne
  have hd : (vorgTable typoAsc co gs).default = m.1 := by simp [vorgTable, hm]
  have hr : (vorgTable typoAsc co gs).records = gs.filterMap (fun g =>
      if vertOrigin typoAsc g == m.1 then none else some (g.name, vertOrigin typoAsc g)) := by
    simp [vorgTable, hm, h2]
  have hpm : (co.map (vertOrigin typoAsc)).Perm (gs.map (vertOrigin typoAsc)) := hp.map _
  unfold holdsVorg
  rw [hd, hr]
  simp only [beq_self_eq_true, Bool.and_true, Bool.or_eq_true, Bool.and_eq_true, contains_eq_mem,
    decide_eq_true_eq, all_eq_true]
  right
  obtain ⟨v, hv, rfl⟩ := mem_map.mp hmem
  have hv' : v ∈ co.map (vertOrigin typoAsc) := by simpa using hv
  refine ⟨hpm.mem_iff.mp hv', ?_⟩
  intro x hx
  have hx' : x ∈ co.map (vertOrigin typoAsc) := hpm.mem_iff.mpr hx
  have : (x, (co.map (vertOrigin typoAsc)).count x) ∈ counter (co.map (vertOrigin typoAsc)) :=
    mem_map.mpr ⟨x, by simpa using hx', rfl⟩
  have h3 := hmax _ this
  simp only [countOf]
  rw [← hpm.count_eq x, ← hpm.count_eq v]
  simpa using h3

/-- with a single distinct origin there are no records and it is the default -/
theorem C04_vorg_single (typoAsc : Int) (co gs : List G) (h1 : (counter (co.map (vertOrigin typoAsc))).length ≤ 1) :
    (vorgTable typoAsc co gs).records = [] := by
  unfold vorgTable
  have : ¬ (counter (co.map (vertOrigin typoAsc))).length > 1 := by omega
  simp [this]

/-! ### CFF bounding-box rounding -/

theorem ceilQ_spec (v : Q) : v ≤ (ceilQ v : Q) ∧ (ceilQ v : Q) < v + 1 := by
  unfold ceilQ
  have h1 := Rat.floor_le (-v)
  have h2 := Rat.lt_floor_add_one (-v)
  simp only [Rat.intCast_neg, Rat.intCast_add, Rat.intCast_one] at *
  constructor <;> grind

/-- **C04_bbox rounding**: `toInt` returns the nearest integer when the tolerance allows
(always for tol ≥ 1/2), and otherwise an integer on the enclosing side less than one unit away. -/
theorem C04_toInt (tol v : Q) (up : Bool) :
    (toInt tol up v = otRound v ∧ (tol ≥ 1/2 ∨ absQ ((otRound v : Q) - v) ≤ tol)) ∨
    (up = true ∧ v ≤ (toInt tol up v : Q) ∧ (toInt tol up v : Q) < v + 1) ∨
    (up = false ∧ (toInt tol up v : Q) ≤ v ∧ v < (toInt tol up v : Q) + 1) := by
  unfold toInt
  by_cases h : tol ≥ 1/2 ∨ absQ ((otRound v : Q) - v) ≤ tol
  · left; rw [if_pos h]; exact ⟨rfl, h⟩
  · right
    rw [if_neg h]
    cases up with
    | true => left; exact ⟨rfl, ceilQ_spec v⟩
    | false =>
      right
      refine ⟨rfl, Rat.floor_le v, ?_⟩
      have := Rat.lt_floor_add_one v
      simpa [Rat.intCast_add] using this

/-! ### CFF advance widths -/

theorem otRound_intCast (k : Int) : otRound (k : Q) = k := by
  unfold otRound
  have h : ((k : Q) + 1 / 2).floor = ((1 / 2 : Q) + (k : Q)).floor := by rw [Rat.add_comm]
  rw [h, Rat.floor_add_intCast]
  have : (1 / 2 : Q).floor = 0 := by decide +kernel
  omega

theorem otRound_sub_intCast (w : Q) (n : Int) : otRound (w - (n : Q)) = otRound w - n := by
  unfold otRound
  have h : w - (n : Q) + 1 / 2 = (w + 1 / 2) + ((-n : Int) : Q) := by
    simp only [Rat.intCast_neg]; grind
  rw [h, Rat.floor_add_intCast]
  omega

/-- one glyph: reading back what `csWidth` / `privWidths` wrote gives the rounded source advance, for
EVERY default/nominal pair (zero or not, from fontinfo or from the optimiser) and every width -/
theorem readCffWidth_csWidth (d n : Int) (w : Q) :
    readCffWidth (privWidths d n) (csWidth d n w) = otRound w := by
  unfold csWidth
  by_cases h : w = (d : Q)
  · rw [if_pos h, h, otRound_intCast]
    simp only [readCffWidth, privWidths]
    by_cases hd : d = 0
    · simp [hd]
    · simp [hd]
  · rw [if_neg h, otRound_intCast, otRound_sub_intCast]
    simp only [readCffWidth, privWidths]
    by_cases hn : n = 0
    · simp [hn]
    · simp [hn]; omega

/-- **C04 CFF widths**: the advances a reader decodes from the 'CFF ' table (Private dict width operators
as written by setupTable_CFF + the width operand of every charstring) are the rounded source advances,
whatever pair `getDefaultAndNominalWidths` returned. -/
theorem C04_cffWidths (d n : Int) (gs : List G) : holdsCffWidths gs (cffWidths d n gs) = true := by
  simp only [holdsCffWidths, cffWidths, List.map_map, beq_iff_eq]
  apply List.map_congr_left
  intro g _
  simp only [Function.comp, readCffWidth_csWidth]

/-- … hence they are the advances of the hmtx table the model builds -/
theorem C04_cffWidths_hmtx (d n : Int) (gs : List G) (r : List (Int × Int)) (h : hmtx gs = .ok r) :
    holdsCffVsHmtx r (cffWidths d n gs) = true := by
  have h1 := C04_cffWidths d n gs
  have h2 := (C04_hmtx gs).1 r h
  simp only [holdsHmtx, beq_iff_eq] at h2
  simp only [holdsCffWidths, beq_iff_eq] at h1
  simp only [holdsCffVsHmtx, beq_iff_eq, h1, h2, List.map_map]
  apply List.map_congr_left
  intro g _
  rfl

/-- the hypotheses are met non-trivially: zero-width glyphs dominate, so the optimiser's pair is
(0, 533): defaultWidthX is NOT written, nominalWidthX is, two glyphs omit the operand -/
example : cffWidths 0 533 [⟨"a", 0, 0, none, none⟩, ⟨"b", 600, 0, none, none⟩, ⟨"c", 0, 0, none, none⟩, ⟨"d", (1001 : Q) / 2, 0, none, none⟩]
    = ⟨⟨none, some 533⟩, [none, some 67, none, some (-32)]⟩ := by decide +kernel

/-- a Private dict that loses nominalWidthX when defaultWidthX is 0 does not satisfy the predicate -/
example : holdsCffWidths [⟨"a", 0, 0, none, none⟩, ⟨"b", 600, 0, none, none⟩]
    ⟨⟨none, none⟩, [none, some 67]⟩ = false := by decide +kernel

/-! ### degenerate glyph boxes: only the all-zero box is the "no outline" sentinel -/

theorem toInt_intCast (tol : Q) (up : Bool) (k : Int) : toInt tol up (k : Q) = k := by
  unfold toInt
  simp only [otRound_intCast]
  split
  · rfl
  · cases up with
    | true => simp [ceilQ, ← Rat.intCast_neg, Rat.floor_intCast]
    | false => simp [Rat.floor_intCast]

/-- **C04_box sentinel**: the compiler regards a glyph as having no box exactly when all four rounded
extrema are 0 (`bounds == EMPTY_BOUNDING_BOX`); any other box, however thin, is kept unchanged. -/
theorem C04_roundBox_none (tol : Q) (b : RawBox) :
    roundBox tol b = none ↔
      (toInt tol false b.xMin = 0 ∧ toInt tol false b.yMin = 0 ∧ toInt tol true b.xMax = 0 ∧ toInt tol true b.yMax = 0) := by
  unfold roundBox
  simp only
  split
  · rename_i h
    have h' := eq_of_beq h
    simp only [Box.mk.injEq] at h'
    simp [h']
  · rename_i h
    constructor
    · intro hh; cases hh
    · intro ⟨h1, h2, h3, h4⟩
      exact absurd (by simp [h1, h2, h3, h4]) h

/-- a glyph whose whole outline is ONE point (x, y) other than the origin keeps the zero-size box
(x, y, x, y) for every tolerance: its side bearings are x and origin - y, not 0 -/
theorem C04_roundBox_point (tol : Q) (x y : Int) (h : x ≠ 0 ∨ y ≠ 0) :
    roundBox tol ⟨(x : Q), (y : Q), (x : Q), (y : Q)⟩ = some ⟨x, y, x, y⟩ := by
  unfold roundBox
  simp only [toInt_intCast]
  split
  · rename_i hh
    have h' := eq_of_beq hh
    simp only [Box.mk.injEq] at h'
    omega
  · rfl

/-- ... and so the hmtx row of such a glyph carries lsb = x -/
theorem C04_hmtx_point (tol : Q) (x y : Int) (h : x ≠ 0 ∨ y ≠ 0) (nm : String) (w ht : Q) (vo : Option Q) :
    lsbOf ⟨nm, w, ht, vo, (some (⟨(x : Q), (y : Q), (x : Q), (y : Q)⟩ : RawBox)).bind (roundBox tol)⟩ = x ∧
    topOf ⟨nm, w, ht, vo, (some (⟨(x : Q), (y : Q), (x : Q), (y : Q)⟩ : RawBox)).bind (roundBox tol)⟩ = y := by
  simp only [Option.bind_some, C04_roundBox_point tol x y h, lsbOf, topOf, and_self]

example : roundBox (1/2) ⟨1100, 900, 1100, 900⟩ = some ⟨1100, 900, 1100, 900⟩ := by
  have := C04_roundBox_point (1/2) 1100 900 (by omega); simpa using this
example : roundBox (1/2) ⟨0, 0, 0, 0⟩ = none := by decide +kernel

end Ufo2ft.C04
