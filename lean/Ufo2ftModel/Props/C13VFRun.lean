import Ufo2ftModel.Props.C13VFRel
/-!
C13 (variable fonts), part 7: the C09 model of `SkipExportGlyphsIFilter.__call__` (`C09.skipI`, with the Instantiator)
produces sources in the relation `SkipRel` with the sources it was given — whatever the iteration order of the glyph names.
-/
namespace Ufo2ft.C13
open Ufo2ft Ufo2ft.C09 List

/-! ### what the Instantiator hands out while the filter runs -/

/-- the Instantiator still holds the untouched source layers `P`, and its Variator cache was filled from them -/
structure InstOK (I : Inst) (P : Masters) (s : St) : Prop where
  pristine : s.pristine = some P
  cache : ∀ x p, alookup x s.cache = some p → collectMasters I P x = some p

theorem interpGlyph_eq {I : Inst} {P : Masters} {s : St} (h : InstOK I P s) (x : String) (t : Q) :
    interpGlyph I s x t = glyphAt I P x t := by
  unfold interpGlyph mastersFor glyphAt
  cases hc : alookup x s.cache with
  | some p => rw [h.cache x p hc]
  | none =>
    have : s.layers = P := by simp only [St.layers, h.pristine]
    rw [this]
    rfl

theorem alookup_append {ν} (k : String) (a b : List (String × ν)) :
    alookup k (a ++ b) = match alookup k a with | some v => some v | none => alookup k b := by
  induction a with
  | nil => rfl
  | cons e a ih =>
    obtain ⟨k', v⟩ := e
    simp only [List.cons_append, alookup]
    by_cases h : (k' == k) = true
    · simp only [h, if_true]
    · simp only [h, Bool.false_eq_true, if_false, ih]

theorem touch_one {I : Inst} {P : Masters} {s : St} (h : InstOK I P s) (n : String) :
    let s1 := (if (alookup n s.cache).isSome then s
      else match collectMasters I s.layers n with
        | some p => { s with cache := s.cache ++ [(n, p)] }
        | none => s)
    InstOK I P s1 ∧ s1.ms = s.ms := by
  dsimp only
  split
  · exact ⟨h, rfl⟩
  · rename_i hnc
    have hl : s.layers = P := by simp only [St.layers, h.pristine]
    cases hc : collectMasters I s.layers n with
    | none => exact ⟨h, rfl⟩
    | some p =>
      refine ⟨⟨h.pristine, ?_⟩, rfl⟩
      intro x q hx
      dsimp only at hx
      rw [alookup_append] at hx
      cases hxc : alookup x s.cache with
      | some v => rw [hxc] at hx; rw [← Option.some.inj hx]; exact h.cache x v hxc
      | none =>
        rw [hxc] at hx
        simp only [alookup] at hx
        split at hx
        · rename_i hnx
          have : n = x := by simpa using hnx
          subst this
          rw [← Option.some.inj hx, ← hl]; exact hc
        · cases hx

theorem touch_ok {I : Inst} {P : Masters} (names : List String) : ∀ {s : St}, InstOK I P s →
    InstOK I P (touch (some I) names s) ∧ (touch (some I) names s).ms = s.ms := by
  induction names with
  | nil => intro s h; exact ⟨h, rfl⟩
  | cons n names ih =>
    intro s h
    simp only [touch, List.foldl_cons]
    obtain ⟨h1, e1⟩ := touch_one h n
    have := ih h1
    simp only [touch] at this
    exact ⟨this.1, this.2.trans e1⟩


theorem filterMap_id_of {α} (f : α → Option α) : ∀ (l : List α), (∀ e ∈ l, f e = some e) → l.filterMap f = l
  | [], _ => rfl
  | a :: l, h => by
    rw [List.filterMap_cons, h a mem_cons_self]
    simp only
    rw [filterMap_id_of f l (fun e he => h e (mem_cons_of_mem _ he))]

theorem alookup_of_mem_nodup {ν} : ∀ (m : List (String × ν)) (k : String) (v : ν), (m.map (·.1)).Nodup → (k, v) ∈ m →
    alookup k m = some v
  | [], _, _, _, h => by cases h
  | (k', v') :: m, k, v, hnd, h => by
    simp only [List.map_cons, List.nodup_cons] at hnd
    rcases List.mem_cons.mp h with he | hm
    · have h1 := (Prod.mk.inj he).1
      have h2 := (Prod.mk.inj he).2
      subst h1; subst h2
      simp [alookup]
    · have hne : ¬ k' = k := by
        intro e
        subst e
        exact hnd.1 (List.mem_map.mpr ⟨(k', v), hm, rfl⟩)
      have : (k' == k) = false := by simpa using hne
      simp only [alookup, this, Bool.false_eq_true, if_false]
      exact alookup_of_mem_nodup m k v hnd.2 hm

theorem getD_of_getElem? {ms : Masters} {i : Nat} {m : GlyphSet} (h : ms[i]? = some m) : ms.getD i [] = m := by
  rw [List.getD_eq_getElem?_getD, h]; rfl

/-- **what an `InterpolatedLayer` resolves a name to**: the family's glyph at that source's location (the source's own
    glyph where it has one, an on-the-fly interpolation otherwise) -/
theorem layerSet_get {I : Inst} {P : Masters} {rank : String → Nat} (hwf : WF I P rank)
    (hkeys : ∀ m ∈ P, (m.map (·.1)).Nodup) {s : St} (h : InstOK I P s) (i : Nat) (own : GlyphSet) (l : Q)
    (hown : P[i]? = some own) (hl : I.locs[i]? = some l) (b : String) :
    (layerSet (some I) s i).get? b = glyphAt I P b l := by
  have hlay : s.layers = P := by simp only [St.layers, h.pristine]
  have hownD : P.getD i [] = own := getD_of_getElem? hown
  have hlD : I.locs.getD i 0 = l := by rw [List.getD_eq_getElem?_getD, hl]; rfl
  have hzip : (own, l) ∈ P.zip I.locs := (mem_zip_iff _ _ _ _).mpr ⟨i, hown, hl⟩
  have hownm : own ∈ P := mem_of_mem_zip_left hzip
  unfold layerSet
  simp only [hlay, hownD, hlD]
  have hid : own.filterMap (fun e => if !e.2.contours.isEmpty then some e
      else (interpGlyph I s e.1 l).map (fun g => (e.1, g))) = own := by
    apply filterMap_id_of
    intro e he
    obtain ⟨k, g⟩ := e
    have hg : own.get? k = some g := alookup_of_mem_nodup own k g (hkeys own hownm) he
    by_cases hc : (!g.contours.isEmpty) = true
    · simp only [hc, if_true]
    · simp only [hc, Bool.false_eq_true, if_false]
      rw [interpGlyph_eq h, glyphAt_master hwf own l hzip k g hg]
      rfl
  rw [hid]
  show alookup b (own ++ _) = _
  rw [alookup_append]
  cases hb : alookup b own with
  | some g => exact (glyphAt_master hwf own l hzip b g hb).symm
  | none =>
    dsimp only
    have e : (fun n => if (own.get? n).isSome = true then none
        else (interpGlyph I s n l).map (fun g => (n, g))) =
        (fun x => (if (own.get? x).isSome then none else interpGlyph I s x l).map (fun g => (x, g))) := by
      funext n
      split <;> rfl
    rw [e, alookup_filterMap_key (fun n => if (own.get? n).isSome then none else interpGlyph I s n l) (allNames P) b]
    have hbn : (own.get? b).isSome = false := by unfold GlyphSet.get?; rw [hb]; rfl
    simp only [hbn, Bool.false_eq_true, if_false]
    rw [interpGlyph_eq h]
    split
    · rfl
    · rename_i hnot
      cases hg : glyphAt I P b l with
      | none => rfl
      | some g => exact absurd (glyphAt_some_mem b l g hg) hnot


/-! ### the per-master decomposition loop with an Instantiator -/

theorem perMaster_dec {I : Inst} {P : Masters} {rank : String → Nat} (hwf : WF I P rank)
    (hkeys : ∀ m ∈ P, (m.map (·.1)).Nodup) (skip : List String) (n : String) :
    ∀ (idxs : List Nat) (s s' : St) (fl fl' : Bool),
      perMaster (some I) n (decomposeVisit false (some skip)) (decomposeOp false (some skip)) idxs s fl = .ok (s', fl') →
      idxs.Nodup → InstOK I P s →
      InstOK I P s' ∧ s'.ms.length = s.ms.length ∧
      (∀ j, j ∉ idxs → s'.ms.getD j [] = s.ms.getD j []) ∧
      (∀ j, j ∈ idxs → ∀ own l, P[j]? = some own → I.locs[j]? = some l →
        match (s.ms.getD j []).get? n with
        | none => s'.ms.getD j [] = s.ms.getD j []
        | some g => ∃ layer g', (∀ b, layer.get? b = glyphAt I P b l) ∧
            decomposeGlyph layer false (some skip) g = .ok g' ∧ s'.ms.getD j [] = (s.ms.getD j []).set n g') := by
  intro idxs
  induction idxs with
  | nil =>
    intro s s' fl fl' h _ hok
    simp only [perMaster] at h
    have := Except.ok.inj h
    have hs : s = s' := (Prod.mk.inj this).1
    subst hs
    exact ⟨hok, rfl, fun _ _ => rfl, fun j hj => absurd hj (by simp)⟩
  | cons i rest ih =>
    intro s s' fl fl' h hnd hok
    have hi : i ∉ rest := (List.nodup_cons.mp hnd).1
    have hrest : rest.Nodup := (List.nodup_cons.mp hnd).2
    unfold perMaster at h
    cases hg : (s.ms.getD i []).get? n with
    | none =>
      rw [hg] at h
      dsimp only at h
      obtain ⟨hok', hl, hout, hin⟩ := ih s s' fl fl' h hrest hok
      refine ⟨hok', hl, ?_, ?_⟩
      · intro j hj
        exact hout j (fun h' => hj (List.mem_cons_of_mem _ h'))
      · intro j hj own l ho hloc
        rcases List.mem_cons.mp hj with rfl | hj
        · rw [hg]; exact hout j hi
        · exact hin j hj own l ho hloc
    | some g =>
      rw [hg] at h
      have hlt : i < s.ms.length := by
        by_cases hc : i < s.ms.length
        · exact hc
        · have := getD_nil_of_le s.ms i (by omega)
          rw [this] at hg; cases hg
      dsimp only at h
      unfold decomposeOp at h
      cases hd : decomposeGlyph (layerSet (some I) s i) false (some skip) g with
      | error e => rw [hd] at h; cases h
      | ok g' =>
        rw [hd] at h
        dsimp only at h
        obtain ⟨hok1, hms1⟩ := touch_ok (I := I) (P := P)
          (requested (some I) s i (decomposeVisit false (some skip) (layerSet (some I) s i) g)) hok
        have hok2 : InstOK I P { touch (some I) (requested (some I) s i
            (decomposeVisit false (some skip) (layerSet (some I) s i) g)) s with
            ms := setAt (touch (some I) (requested (some I) s i
              (decomposeVisit false (some skip) (layerSet (some I) s i) g)) s).ms i
              (((touch (some I) (requested (some I) s i
              (decomposeVisit false (some skip) (layerSet (some I) s i) g)) s).ms.getD i []).set n g') } :=
          ⟨hok1.pristine, hok1.cache⟩
        obtain ⟨hok', hl, hout, hin⟩ := ih _ s' (fl || true) fl' h hrest hok2
        dsimp only at hl hout hin
        rw [hms1] at hl hout hin
        refine ⟨hok', by rw [hl]; simp [setAt], ?_, ?_⟩
        · intro j hj
          have hne : i ≠ j := fun e => hj (e ▸ List.mem_cons_self)
          rw [hout j (fun h' => hj (List.mem_cons_of_mem _ h')), getD_setAt_ne _ _ _ _ hne]
        · intro j hj own l ho hloc
          rcases List.mem_cons.mp hj with rfl | hj
          · rw [hg]
            refine ⟨layerSet (some I) s j, g', fun b => layerSet_get hwf hkeys hok j own l ho hloc b, hd, ?_⟩
            rw [hout j hi, getD_setAt_self _ _ _ hlt]
          · have hne : i ≠ j := fun e => hi (e ▸ hj)
            have := hin j hj own l ho hloc
            rw [getD_setAt_ne _ _ _ _ hne] at this
            exact this


/-! ### `ensureCompositeDefinedAtComponentLocations` with the Instantiator -/

theorem ensureLoop_ok {I : Inst} {P : Masters} (n : String) (toAdd : List Q) :
    ∀ (idx : List (Nat × Q)) (s s' : St), ensureLoop I n toAdd idx s = .ok s' → (idx.map (·.1)).Nodup →
      (∀ e ∈ idx, e.1 < s.ms.length) → InstOK I P s →
      InstOK I P s' ∧ s'.ms.length = s.ms.length ∧
      (∀ j, j ∉ idx.map (·.1) → s'.ms.getD j [] = s.ms.getD j []) ∧
      (∀ j l, (j, l) ∈ idx →
        if toAdd.contains l = true then
          (s.ms.getD j []).get? n = none ∧ ∃ g, glyphAt I P n l = some g ∧ s'.ms.getD j [] = s.ms.getD j [] ++ [(n, g)]
        else s'.ms.getD j [] = s.ms.getD j []) := by
  intro idx
  induction idx with
  | nil =>
    intro s s' h _ _ hok
    simp only [ensureLoop] at h
    have := Except.ok.inj h; subst this
    exact ⟨hok, rfl, fun _ _ => rfl, fun j l hm => by cases hm⟩
  | cons e rest ih =>
    obtain ⟨i, l⟩ := e
    intro s s' h hnd hlt hok
    simp only [List.map_cons, List.nodup_cons] at hnd
    have hilt : i < s.ms.length := hlt (i, l) mem_cons_self
    unfold ensureLoop at h
    by_cases hc : toAdd.contains l = true
    · rw [if_pos hc] at h
      cases hg : (s.ms.getD i []).get? n with
      | some g => rw [hg] at h; cases h
      | none =>
        rw [hg] at h
        dsimp only at h
        obtain ⟨hok1, hms1⟩ := touch_ok (I := I) (P := P) [n] hok
        cases hi : interpGlyph I (touch (some I) [n] s) n l with
        | none => rw [hi] at h; cases h
        | some g =>
          rw [hi] at h
          dsimp only at h
          rw [interpGlyph_eq hok1] at hi
          have hok2 : InstOK I P { touch (some I) [n] s with
              ms := setAt (touch (some I) [n] s).ms i (((touch (some I) [n] s).ms.getD i []) ++ [(n, g)]) } :=
            ⟨hok1.pristine, hok1.cache⟩
          have hlt2 : ∀ e ∈ rest, e.1 < ({ touch (some I) [n] s with
              ms := setAt (touch (some I) [n] s).ms i (((touch (some I) [n] s).ms.getD i []) ++ [(n, g)]) } : St).ms.length := by
            intro e he
            simp only [setAt, List.length_set, hms1]
            exact hlt e (mem_cons_of_mem _ he)
          obtain ⟨hok', hl, hout, hin⟩ := ih _ s' h hnd.2 hlt2 hok2
          dsimp only at hl hout hin
          rw [hms1] at hl hout hin
          refine ⟨hok', by rw [hl]; simp [setAt], ?_, ?_⟩
          · intro j hj
            simp only [List.map_cons, List.mem_cons, not_or] at hj
            rw [hout j hj.2, getD_setAt_ne _ _ _ _ (fun e => hj.1 e.symm)]
          · intro j l' hm
            rcases List.mem_cons.mp hm with he | hm
            · have h1 := (Prod.mk.inj he).1
              have h2 := (Prod.mk.inj he).2
              subst h1; subst h2
              rw [if_pos hc]
              refine ⟨hg, g, hi, ?_⟩
              rw [hout j hnd.1, getD_setAt_self _ _ _ hilt]
            · have hne : i ≠ j := by
                intro e
                subst e
                exact hnd.1 (List.mem_map.mpr ⟨(i, l'), hm, rfl⟩)
              have := hin j l' hm
              rw [getD_setAt_ne _ _ _ _ hne] at this
              exact this
    · rw [if_neg hc] at h
      obtain ⟨hok', hl, hout, hin⟩ := ih s s' h hnd.2 (fun e he => hlt e (mem_cons_of_mem _ he)) hok
      refine ⟨hok', hl, ?_, ?_⟩
      · intro j hj
        simp only [List.map_cons, List.mem_cons, not_or] at hj
        exact hout j hj.2
      · intro j l' hm
        rcases List.mem_cons.mp hm with he | hm
        · have h1 := (Prod.mk.inj he).1
          have h2 := (Prod.mk.inj he).2
          subst h1; subst h2
          rw [if_neg hc]
          exact hout j hnd.1
        · exact hin j l' hm


/-! ### the loop invariant -/

theorem mem_glyphsNamed_idx (ms : Masters) (x : String) (g : Glyph) :
    g ∈ glyphsNamed ms x ↔ ∃ i : Nat, i < ms.length ∧ (ms.getD i []).get? x = some g := by
  rw [mem_glyphsNamed]
  constructor
  · rintro ⟨m, hm, hg⟩
    obtain ⟨i, hi⟩ := List.mem_iff_getElem?.mp hm
    exact ⟨i, (List.getElem?_eq_some_iff.mp hi).1, by rw [getD_of_getElem? hi]; exact hg⟩
  · rintro ⟨i, hi, hg⟩
    refine ⟨ms[i], List.getElem_mem hi, ?_⟩
    rw [getD_of_getElem? (List.getElem?_eq_getElem hi)] at hg
    exact hg

theorem mem_sourceLocs_idx (I : Inst) (ms : Masters) (x : String) (l : Q) :
    l ∈ sourceLocs I ms x ↔ ∃ i : Nat, i < ms.length ∧ I.locs[i]? = some l ∧ ((ms.getD i []).get? x).isSome = true := by
  rw [mem_sourceLocs]
  constructor
  · rintro ⟨m, hm, hs⟩
    obtain ⟨i, h1, h2⟩ := (mem_zip_iff _ _ _ _).mp hm
    exact ⟨i, (List.getElem?_eq_some_iff.mp h1).1, h2, by rw [getD_of_getElem? h1]; exact hs⟩
  · rintro ⟨i, hi, hl, hs⟩
    refine ⟨ms[i], (mem_zip_iff _ _ _ _).mpr ⟨i, List.getElem?_eq_getElem hi, hl⟩, ?_⟩
    rw [getD_of_getElem? (List.getElem?_eq_getElem hi)] at hs
    exact hs

/-- the state of the filter's loop: the Instantiator is untouched; the glyphs named in `md` have been processed — they are
    defined exactly at their `NewLoc`ations, decomposed there —, all others are as in the sources -/
structure Inv (I : Inst) (P : Masters) (skip : List String) (s : St) (md : List String) : Prop where
  inst : InstOK I P s
  len : s.ms.length = P.length
  grow : ∀ i x, ((P.getD i []).get? x).isSome = true → ((s.ms.getD i []).get? x).isSome = true
  orig : ∀ x, x ∉ md → ∀ i, (s.ms.getD i []).get? x = (P.getD i []).get? x
  proc : ∀ x, x ∈ md → Affected P skip x ∧ ∀ (i : Nat) l, I.locs[i]? = some l →
      (NewLoc I P skip x l → ∃ g', (s.ms.getD i []).get? x = some g' ∧ DecAt I P skip x l g') ∧
      (¬ NewLoc I P skip x l → (s.ms.getD i []).get? x = none)

section
variable {I : Inst} {P : Masters} {rank : String → Nat} {skip : List String} {s : St} {md : List String}

theorem Inv.named_orig (h : Inv I P skip s md) {x : String} (hx : x ∉ md) (g : Glyph) :
    g ∈ glyphsNamed s.ms x ↔ g ∈ glyphsNamed P x := by
  rw [mem_glyphsNamed_idx, mem_glyphsNamed_idx, h.len]
  constructor <;> rintro ⟨i, hi, hg⟩
  · exact ⟨i, hi, by rw [← h.orig x hx i]; exact hg⟩
  · exact ⟨i, hi, by rw [h.orig x hx i]; exact hg⟩

theorem Inv.locs_orig (h : Inv I P skip s md) {x : String} (hx : x ∉ md) (l : Q) :
    l ∈ sourceLocs I s.ms x ↔ l ∈ sourceLocs I P x := by
  rw [mem_sourceLocs_idx, mem_sourceLocs_idx, h.len]
  constructor <;> rintro ⟨i, hi, hl, hg⟩
  · exact ⟨i, hi, hl, by rw [← h.orig x hx i]; exact hg⟩
  · exact ⟨i, hi, hl, by rw [h.orig x hx i]; exact hg⟩

theorem Inv.locs_proc (hwf : WF I P rank) (h : Inv I P skip s md) {x : String} (hx : x ∈ md) (l : Q) :
    l ∈ sourceLocs I s.ms x ↔ NewLoc I P skip x l := by
  rw [mem_sourceLocs_idx]
  constructor
  · rintro ⟨i, _, hl, hg⟩
    by_cases hn : NewLoc I P skip x l
    · exact hn
    · rw [((h.proc x hx).2 i l hl).2 hn] at hg; cases hg
  · intro hn
    obtain ⟨i, hi⟩ := List.mem_iff_getElem?.mp (newLoc_mem_locs hn)
    have hlt : i < I.locs.length := (List.getElem?_eq_some_iff.mp hi).1
    obtain ⟨g', hg', _⟩ := ((h.proc x hx).2 i l hi).1 hn
    exact ⟨i, by rw [h.len, ← hwf.len]; exact hlt, hi, by rw [hg']; rfl⟩

theorem decAt_noskip {n : String} {l : Q} {g' : Glyph} (hd : DecAt I P skip n l g') :
    ∀ k ∈ g'.comps, skip.contains k.base = false := by
  obtain ⟨g, layer, fuel, d, _, _, hc, rfl⟩ := hd
  exact (pen_pass layer skip fuel).2 Affine.id g.comps d hc

theorem Inv.comps_proc (hwf : WF I P rank) (h : Inv I P skip s md) {x : String} (hx : x ∈ md) (g : Glyph)
    (hg : g ∈ glyphsNamed s.ms x) : ∀ k ∈ g.comps, skip.contains k.base = false := by
  obtain ⟨i, hi, hgi⟩ := (mem_glyphsNamed_idx _ _ _).mp hg
  have hlt : i < I.locs.length := by rw [hwf.len, ← h.len]; exact hi
  have hl : I.locs[i]? = some I.locs[i] := List.getElem?_eq_getElem hlt
  by_cases hn : NewLoc I P skip x I.locs[i]
  · obtain ⟨g', hg', hd⟩ := ((h.proc x hx).2 i _ hl).1 hn
    rw [hgi] at hg'
    rw [Option.some.inj hg']
    exact decAt_noskip hd
  · rw [((h.proc x hx).2 i _ hl).2 hn] at hgi; cases hgi

end


/-! ### `locationsFromComponentGlyphs` on the half-processed glyph sets = `Tied` in the sources -/

theorem tied_has_comp {I : Inst} {ms : Masters} {incl : Option (List String)} {l : Q} {x : String}
    (h : Tied I ms incl l x) : ∃ g ∈ glyphsNamed ms x, ∃ k ∈ g.comps, isIncluded incl k.base = true := by
  cases h with
  | direct _ g k hg hk hi _ => exact ⟨g, hg, k, hk, hi⟩
  | through _ g k hg hk hi _ => exact ⟨g, hg, k, hk, hi⟩

section
variable {I : Inst} {P : Masters} {rank : String → Nat} {skip : List String} {s : St} {md : List String}

theorem tied_cur_to_src (hwf : WF I P rank) (h : Inv I P skip s md) (l : Q) :
    ∀ n, Tied I s.ms (some skip) l n → n ∉ md → Tied I P (some skip) l n := by
  intro n ht
  induction ht with
  | direct n g k hg hk hi hl =>
    intro hn
    have hg' := (h.named_orig hn g).mp hg
    by_cases hb : k.base ∈ md
    · rcases (h.locs_proc hwf hb l).mp hl with hl' | ht'
      · exact Tied.direct n g k hg' hk hi hl'
      · exact Tied.through n g k hg' hk hi ht'
    · exact Tied.direct n g k hg' hk hi ((h.locs_orig hb l).mp hl)
  | through n g k hg hk hi ht ih =>
    intro hn
    have hg' := (h.named_orig hn g).mp hg
    by_cases hb : k.base ∈ md
    · obtain ⟨g2, hg2, k2, hk2, hi2⟩ := tied_has_comp ht
      have := h.comps_proc hwf hb g2 hg2 k2 hk2
      rw [isIncluded_some, this] at hi2
      cases hi2
    · exact Tied.through n g k hg' hk hi (ih hb)

theorem mem_locsOfComps (fuel : Nat) (I : Inst) (ms : Masters) (incl : Option (List String)) (l : Q) :
    ∀ (ks : List Comp) (k : Comp), k ∈ ks → isIncluded incl k.base = true →
      (l ∈ sourceLocs I ms k.base ∨ l ∈ locsFromComps fuel I ms incl k.base) → l ∈ locsOfComps fuel I ms incl ks := by
  intro ks
  induction ks with
  | nil => intro k hk; cases hk
  | cons k0 ks ih =>
    intro k hk hi hl
    unfold locsOfComps
    dsimp only
    rcases List.mem_cons.mp hk with rfl | hk
    · rw [if_pos hi, mem_unionQ, mem_unionQ]
      exact Or.inl hl
    · have := ih k hk hi hl
      by_cases hi0 : isIncluded incl k0.base = true
      · rw [if_pos hi0, mem_unionQ]; exact Or.inr this
      · rw [if_neg hi0]; exact this

theorem mem_locsFromComps (fuel : Nat) (I : Inst) (ms : Masters) (incl : Option (List String)) (l : Q) (n : String)
    (g : Glyph) (hg : g ∈ glyphsNamed ms n) (hl : l ∈ locsOfComps fuel I ms incl g.comps) :
    l ∈ locsFromComps (fuel + 1) I ms incl n := by
  unfold locsFromComps
  exact (mem_foldl_unionQ _ _ _ _).mpr (Or.inr ⟨g, hg, hl⟩)

theorem tied_src_to_cur (hwf : WF I P rank) (h : Inv I P skip s md) (l : Q) :
    ∀ n, Tied I P (some skip) l n → n ∉ md → ∀ fuel, rank n < fuel →
      l ∈ locsFromComps fuel I s.ms (some skip) n := by
  intro n ht
  induction ht with
  | direct n g k hg hk hi hl =>
    intro hn fuel hf
    obtain ⟨f, rfl⟩ : ∃ f, fuel = f + 1 := ⟨fuel - 1, by omega⟩
    have hg' := (h.named_orig hn g).mpr hg
    refine mem_locsFromComps f I s.ms _ l n g hg' (mem_locsOfComps f I s.ms _ l g.comps k hk hi (Or.inl ?_))
    by_cases hb : k.base ∈ md
    · exact (h.locs_proc hwf hb l).mpr (Or.inl hl)
    · exact (h.locs_orig hb l).mpr hl
  | through n g k hg hk hi ht ih =>
    intro hn fuel hf
    obtain ⟨f, rfl⟩ : ∃ f, fuel = f + 1 := ⟨fuel - 1, by omega⟩
    have hg' := (h.named_orig hn g).mpr hg
    obtain ⟨m, hm, hgm⟩ := (mem_glyphsNamed _ _ _).mp hg
    have hrk : rank k.base < rank n := hwf.ranked m hm n g hgm k hk
    refine mem_locsFromComps f I s.ms _ l n g hg' (mem_locsOfComps f I s.ms _ l g.comps k hk hi ?_)
    by_cases hb : k.base ∈ md
    · exact Or.inl ((h.locs_proc hwf hb l).mpr (Or.inr ht))
    · exact Or.inr (ih hb f (by omega))

theorem nodup_dedupAux' {α} [BEq α] [LawfulBEq α] (l seen : List α) : (dedupAux l seen).Nodup := by
  induction l generalizing seen with
  | nil => simp [dedupAux]
  | cons b l ih =>
    simp only [dedupAux]
    split
    · exact ih seen
    · rw [nodup_cons]
      refine ⟨?_, ih _⟩
      rw [C09.mem_dedupAux]; simp

theorem mem_allNames_iff (ms : Masters) (x : String) :
    x ∈ allNames ms ↔ ∃ i : Nat, i < ms.length ∧ ((ms.getD i []).get? x).isSome = true := by
  constructor
  · intro hx
    unfold allNames at hx
    rw [C09.mem_dedupFirst] at hx
    obtain ⟨m, hm, hxm⟩ := List.mem_flatMap.mp hx
    obtain ⟨e, he, rfl⟩ := List.mem_map.mp hxm
    obtain ⟨i, hi⟩ := List.mem_iff_getElem?.mp hm
    refine ⟨i, (List.getElem?_eq_some_iff.mp hi).1, ?_⟩
    rw [getD_of_getElem? hi]
    cases hlk : m.get? e.1 with
    | some g => rfl
    | none =>
      have := (alookup_none_iff e.1 m).mp hlk e he
      exact absurd rfl this
  · rintro ⟨i, hi, hs⟩
    obtain ⟨g, hg⟩ := Option.isSome_iff_exists.mp hs
    rw [getD_of_getElem? (List.getElem?_eq_getElem hi)] at hg
    exact mem_allNames_of_get _ (List.getElem_mem hi) x g hg

theorem Inv.names_le (h : Inv I P skip s md) : (allNames P).length ≤ (allNames s.ms).length := by
  apply List.Nodup.length_le_of_subset (nodup_dedupAux' _ _)
  intro x hx
  obtain ⟨i, hi, hs⟩ := (mem_allNames_iff P x).mp hx
  exact (mem_allNames_iff s.ms x).mpr ⟨i, by rw [h.len]; exact hi, h.grow i x hs⟩

/-- the locations `ensureCompositeDefinedAtComponentLocations` asks for, for a glyph not yet processed -/
theorem need_iff_tied (hwf : WF I P rank) (hB : ∀ n, rank n ≤ (allNames P).length) (h : Inv I P skip s md) (n : String)
    (hn : n ∉ md) (l : Q) :
    l ∈ locsFromComps ((allNames s.ms).length + 1) I s.ms (some skip) n ↔ Tied I P (some skip) l n := by
  constructor
  · intro hl
    exact tied_cur_to_src hwf h l n (locsSound I s.ms (some skip) _ n l hl) hn
  · intro ht
    have := h.names_le
    exact tied_src_to_cur hwf h l n ht hn _ (by have := hB n; omega)

end


/-! ### one call of `SkipExportGlyphsIFilter.filter` -/

theorem mem_range_zip (n : Nat) (locs : List Q) (j : Nat) (l : Q) :
    (j, l) ∈ (List.range n).zip locs ↔ j < n ∧ locs[j]? = some l := by
  rw [mem_zip_iff]
  constructor
  · rintro ⟨i, h1, h2⟩
    have hi : i < n := by
      have := (List.getElem?_eq_some_iff.mp h1).1
      simpa using this
    rw [List.getElem?_range hi] at h1
    have := Option.some.inj h1; subst this
    exact ⟨hi, h2⟩
  · rintro ⟨hj, hl⟩
    exact ⟨j, by rw [List.getElem?_range hj], hl⟩

theorem get?_append_other (m : GlyphSet) (n x : String) (g : Glyph) (h : x ≠ n) :
    GlyphSet.get? (m ++ [(n, g)]) x = m.get? x := by
  unfold GlyphSet.get?
  rw [alookup_append]
  cases alookup x m with
  | some v => rfl
  | none =>
    have : (n == x) = false := by simpa using fun e => h e.symm
    simp only [alookup, this, Bool.false_eq_true, if_false]

theorem get?_append_self (m : GlyphSet) (n : String) (g : Glyph) (h : m.get? n = none) :
    GlyphSet.get? (m ++ [(n, g)]) n = some g := by
  unfold GlyphSet.get? at h ⊢
  rw [alookup_append, h]
  simp [alookup]

section
variable {I : Inst} {P : Masters} {rank : String → Nat} {skip : List String} {s : St} {md : List String}

theorem sourceLocs_at (hwf : WF I P rank) (n : String) (j : Nat) (l : Q) (hl : I.locs[j]? = some l) :
    l ∈ sourceLocs I P n ↔ ((P.getD j []).get? n).isSome = true := by
  rw [mem_sourceLocs_idx]
  constructor
  · rintro ⟨i, hi, hil, hs⟩
    have hi' : i < I.locs.length := (List.getElem?_eq_some_iff.mp hil).1
    have : i = j := (List.getElem?_inj hi' hwf.locsNodup).mp (by rw [hil, hl])
    subst this
    exact hs
  · intro hs
    have hj : j < I.locs.length := (List.getElem?_eq_some_iff.mp hl).1
    exact ⟨j, by rw [← hwf.len]; exact hj, hl, hs⟩

/-- `ensureCompositeDefinedAtComponentLocations(n, include=skip)` on a glyph not yet processed: afterwards `n` is defined
    exactly at its `NewLoc`ations, as the family's glyph there; nothing else changes -/
theorem ensureComposite_ok (hwf : WF I P rank) (hB : ∀ n, rank n ≤ (allNames P).length) (h : Inv I P skip s md)
    (n : String) (hn : n ∉ md) (s1 : St) (he : ensureComposite (some I) s (some skip) n = .ok s1) :
    InstOK I P s1 ∧ s1.ms.length = s.ms.length ∧
    (∀ j x, x ≠ n → (s1.ms.getD j []).get? x = (s.ms.getD j []).get? x) ∧
    (∀ (j : Nat) l, I.locs[j]? = some l →
      (NewLoc I P skip n l → ∃ g, glyphAt I P n l = some g ∧ (s1.ms.getD j []).get? n = some g) ∧
      (¬ NewLoc I P skip n l → (s1.ms.getD j []).get? n = none)) := by
  -- what the loop does, whether it runs or not
  have key : InstOK I P s1 ∧ s1.ms.length = s.ms.length ∧
      (∀ (j : Nat) l, j < s.ms.length → I.locs[j]? = some l →
        ((Tied I P (some skip) l n ∧ l ∉ sourceLocs I P n) →
          (s.ms.getD j []).get? n = none ∧ ∃ g, glyphAt I P n l = some g ∧ s1.ms.getD j [] = s.ms.getD j [] ++ [(n, g)]) ∧
        (¬ (Tied I P (some skip) l n ∧ l ∉ sourceLocs I P n) → s1.ms.getD j [] = s.ms.getD j [])) ∧
      (∀ j, ¬ j < s.ms.length → s1.ms.getD j [] = s.ms.getD j []) := by
    unfold ensureComposite at he
    dsimp only at he
    have hcont : ∀ l, ((locsFromComps ((allNames s.ms).length + 1) I s.ms (some skip) n).filter
        (fun l => !(sourceLocs I s.ms n).contains l)).contains l = true ↔
        (Tied I P (some skip) l n ∧ l ∉ sourceLocs I P n) := by
      intro l
      rw [List.contains_iff_mem, List.mem_filter, need_iff_tied hwf hB h n hn l]
      simp only [Bool.not_eq_true', List.contains_eq_mem, decide_eq_false_iff_not, h.locs_orig hn l]
    split at he
    · rename_i hempty
      have := Except.ok.inj he; subst this
      refine ⟨h.inst, rfl, ?_, fun _ _ => rfl⟩
      intro j l _ _
      have : ¬ (Tied I P (some skip) l n ∧ l ∉ sourceLocs I P n) := by
        intro hc
        have := (hcont l).mpr hc
        rw [List.isEmpty_iff.mp hempty] at this
        simp at this
      exact ⟨fun hc => absurd hc this, fun _ => rfl⟩
    · have hnd : (((List.range s.ms.length).zip I.locs).map (·.1)).Nodup :=
        List.Nodup.sublist (zip_fst_sublist _ _) List.nodup_range
      have hlt : ∀ e ∈ (List.range s.ms.length).zip I.locs, e.1 < s.ms.length := by
        intro e he'
        obtain ⟨j, l⟩ := e
        exact ((mem_range_zip _ _ _ _).mp he').1
      obtain ⟨hok, hl, hout, hin⟩ := ensureLoop_ok n _ _ s s1 he hnd hlt h.inst
      refine ⟨hok, hl, ?_, ?_⟩
      · intro j l hj hjl
        have := hin j l ((mem_range_zip _ _ _ _).mpr ⟨hj, hjl⟩)
        constructor
        · intro hc
          rw [if_pos ((hcont l).mpr hc)] at this
          exact this
        · intro hc
          have hc' : ¬ (_ = true) := fun e => hc ((hcont l).mp e)
          rw [if_neg hc'] at this
          exact this
      · intro j hj
        apply hout
        intro hm
        obtain ⟨e, he', rfl⟩ := List.mem_map.mp hm
        exact hj (hlt e he')
  obtain ⟨hok, hl, hin, hout⟩ := key
  refine ⟨hok, hl, ?_, ?_⟩
  · intro j x hx
    by_cases hj : j < s.ms.length
    · have hjl : j < I.locs.length := by rw [hwf.len, ← h.len]; exact hj
      have := hin j I.locs[j] hj (List.getElem?_eq_getElem hjl)
      by_cases hc : (Tied I P (some skip) I.locs[j] n ∧ I.locs[j] ∉ sourceLocs I P n)
      · obtain ⟨_, g, _, e⟩ := this.1 hc
        rw [e, get?_append_other _ _ _ _ hx]
      · rw [this.2 hc]
    · rw [hout j hj]
  · intro j l hjl
    have hjl' : j < I.locs.length := (List.getElem?_eq_some_iff.mp hjl).1
    have hj : j < s.ms.length := by rw [h.len, ← hwf.len]; exact hjl'
    have hjP : j < P.length := by rw [← hwf.len]; exact hjl'
    have := hin j l hj hjl
    have hat := sourceLocs_at hwf n j l hjl
    constructor
    · intro hnew
      by_cases hsrc : l ∈ sourceLocs I P n
      · have this := this.2 (fun hc => hc.2 hsrc)
        obtain ⟨g, hg⟩ := Option.isSome_iff_exists.mp (hat.mp hsrc)
        have hzip : (P.getD j [], l) ∈ P.zip I.locs :=
          (mem_zip_iff _ _ _ _).mpr ⟨j, by rw [List.getD_eq_getElem?_getD, List.getElem?_eq_getElem hjP]; rfl, hjl⟩
        refine ⟨g, glyphAt_master hwf _ l hzip n g hg, ?_⟩
        rw [this, h.orig n hn j]; exact hg
      · have ht : Tied I P (some skip) l n := by
          rcases hnew with h1 | h1
          · exact absurd h1 hsrc
          · exact h1
        obtain ⟨hnone, g, hg, e⟩ := this.1 ⟨ht, hsrc⟩
        exact ⟨g, hg, by rw [e]; exact get?_append_self _ _ _ hnone⟩
    · intro hnew
      have hsrc : l ∉ sourceLocs I P n := fun hc => hnew (Or.inl hc)
      have ht : ¬ Tied I P (some skip) l n := fun hc => hnew (Or.inr hc)
      have this := this.2 (fun hc => ht hc.1)
      rw [this, h.orig n hn j]
      cases hg : (P.getD j []).get? n with
      | none => rfl
      | some g => exact absurd (hat.mpr (by rw [hg]; rfl)) hsrc

end


theorem mem_addMod (l : List String) (n x : String) : x ∈ addMod l n ↔ x ∈ l ∨ x = n := by
  unfold addMod
  split
  · rename_i hc
    have : n ∈ l := by simpa using hc
    constructor
    · exact Or.inl
    · rintro (h | h)
      · exact h
      · rw [h]; exact this
  · simp only [List.mem_append, List.mem_singleton]

theorem decomposeGlyph_withDrawn (layer : GlyphSet) (skip : List String) (g g' : Glyph)
    (h : decomposeGlyph layer false (some skip) g = .ok g') :
    ∃ d, addComps (layer.length + 1) layer true false (some skip) Affine.id g.comps = .ok d ∧ g' = withDrawn g d := by
  unfold decomposeGlyph at h
  cases hd : addComps (layer.length + 1) layer true false (some skip) Affine.id g.comps with
  | error e => rw [hd] at h; cases h
  | ok d => rw [hd] at h; exact ⟨d, rfl, (Except.ok.inj h).symm⟩

section
variable {I : Inst} {P : Masters} {rank : String → Nat} {skip : List String} {s : St} {md : List String}

/-- **one `SkipExportGlyphsIFilter.filter(n)` keeps the invariant**, and reports `False` only for glyphs without a direct
    reference to a skipped glyph -/
theorem skipIStep_inv (hwf : WF I P rank) (hkeys : ∀ m ∈ P, (m.map (·.1)).Nodup)
    (hB : ∀ n, rank n ≤ (allNames P).length) (h : Inv I P skip s md) (n : String) (hn : n ∉ md) (s' : St) (r : Bool)
    (hs : skipIStep (some I) skip s n = .ok (s', r)) :
    Inv I P skip s' (if r then addMod md n else md) ∧ (r = false → ¬ Affected P skip n) := by
  unfold skipIStep at hs
  dsimp only at hs
  split at hs
  · -- nothing to do
    rename_i htest
    have := Except.ok.inj hs
    have e1 := (Prod.mk.inj this).1
    have e2 := (Prod.mk.inj this).2
    subst e1; subst e2
    refine ⟨h, fun _ => ?_⟩
    rintro ⟨g, hg, k, hk, hsk⟩
    have hg' := (h.named_orig hn g).mpr hg
    simp only [Bool.or_eq_true, Bool.not_eq_true', List.any_eq_false, List.all_eq_true] at htest
    rcases htest with h1 | h2
    · have := h1 g hg'
      have he : g.comps = [] := by
        cases hc : g.comps with
        | nil => rfl
        | cons a b => rw [hc] at this; simp at this
      rw [he] at hk; cases hk
    · exact h2 g hg' k hk hsk
  · rename_i htest
    have haff : Affected P skip n := by
      simp only [Bool.or_eq_true, not_or, Bool.not_eq_true', Bool.not_eq_true, List.all_eq_false] at htest
      obtain ⟨_, g, hg, hany⟩ := htest
      have hany' : (g.comps.any fun k => skip.contains k.base) = true := by
        cases hc : (g.comps.any fun k => skip.contains k.base) with
        | true => rfl
        | false => exact absurd hc hany
      obtain ⟨k, hk, hsk⟩ := List.any_eq_true.mp hany'
      exact ⟨g, (h.named_orig hn g).mp hg, k, hk, hsk⟩
    cases he : ensureComposite (some I) s (some skip) n with
    | error e => rw [he] at hs; cases hs
    | ok s1 =>
      rw [he] at hs
      dsimp only at hs
      cases hp : perMaster (some I) n (decomposeVisit false (some skip)) (decomposeOp false (some skip))
          (List.range s1.ms.length) s1 true with
      | error e => rw [hp] at hs; cases hs
      | ok res =>
        obtain ⟨s2, fl⟩ := res
        rw [hp] at hs
        have := Except.ok.inj hs
        have e1 := (Prod.mk.inj this).1
        have e2 := (Prod.mk.inj this).2
        subst e1; subst e2
        obtain ⟨hok1, hl1, hoth1, hn1⟩ := ensureComposite_ok hwf hB h n hn s1 he
        obtain ⟨hok2, hl2, hout2, hin2⟩ := perMaster_dec hwf hkeys skip n _ s1 s2 true fl hp List.nodup_range hok1
        -- lookups after the step
        have L1 : ∀ j x, x ≠ n → (s2.ms.getD j []).get? x = (s.ms.getD j []).get? x := by
          intro j x hx
          rw [← hoth1 j x hx]
          by_cases hj : j < s1.ms.length
          · have hjP : j < P.length := by rw [← h.len, ← hl1]; exact hj
            have hjl : j < I.locs.length := by rw [hwf.len]; exact hjP
            have := hin2 j (List.mem_range.mpr hj) P[j] I.locs[j] (List.getElem?_eq_getElem hjP) (List.getElem?_eq_getElem hjl)
            cases hg : (s1.ms.getD j []).get? n with
            | none => rw [hg] at this; rw [this]
            | some g =>
              rw [hg] at this
              obtain ⟨_, g', _, _, e⟩ := this
              rw [e, get?_set _ n x g g' hg, if_neg hx]
          · rw [hout2 j (fun hm => hj (List.mem_range.mp hm))]
        have L2 : ∀ (j : Nat) l, I.locs[j]? = some l →
            (NewLoc I P skip n l → ∃ g', (s2.ms.getD j []).get? n = some g' ∧ DecAt I P skip n l g') ∧
            (¬ NewLoc I P skip n l → (s2.ms.getD j []).get? n = none) := by
          intro j l hjl
          have hjl' : j < I.locs.length := (List.getElem?_eq_some_iff.mp hjl).1
          have hjP : j < P.length := by rw [← hwf.len]; exact hjl'
          have hj : j < s1.ms.length := by rw [hl1, h.len]; exact hjP
          have := hin2 j (List.mem_range.mpr hj) P[j] l (List.getElem?_eq_getElem hjP) hjl
          obtain ⟨a, b⟩ := hn1 j l hjl
          constructor
          · intro hnew
            obtain ⟨g, hg, hget⟩ := a hnew
            rw [hget] at this
            obtain ⟨layer, g', hlayer, hdec, e⟩ := this
            obtain ⟨d, hd, rfl⟩ := decomposeGlyph_withDrawn layer skip g _ hdec
            refine ⟨withDrawn g d, ?_, g, layer, layer.length + 1, d, hg, fun b' _ => hlayer b', hd, rfl⟩
            rw [e, get?_set _ n n g _ hget, if_pos rfl]
          · intro hnew
            rw [b hnew] at this
            rw [this]; exact b hnew
        refine ⟨?_, fun hr => by cases hr⟩
        simp only [if_true]
        constructor
        · exact hok2
        · rw [hl2, hl1]; exact h.len
        · intro j x hx
          by_cases hxn : x = n
          · subst hxn
            by_cases hj : j < P.length
            · have hjl : j < I.locs.length := by rw [hwf.len]; exact hj
              have hsrc := (sourceLocs_at hwf x j I.locs[j] (List.getElem?_eq_getElem hjl)).mpr hx
              obtain ⟨g', hg', _⟩ := (L2 j I.locs[j] (List.getElem?_eq_getElem hjl)).1 (Or.inl hsrc)
              rw [hg']; rfl
            · rw [getD_nil_of_le P j (by omega)] at hx
              cases hx
          · rw [L1 j x hxn]; exact h.grow j x hx
        · intro x hx j
          have hx' := fun e => hx ((mem_addMod md n x).mpr e)
          have hxn : x ≠ n := fun e => hx' (Or.inr e)
          rw [L1 j x hxn]
          exact h.orig x (fun e => hx' (Or.inl e)) j
        · intro x hx
          rcases (mem_addMod md n x).mp hx with hxm | hxn
          · have hne : x ≠ n := fun e => hn (e ▸ hxm)
            obtain ⟨ha, hp'⟩ := h.proc x hxm
            refine ⟨ha, ?_⟩
            intro i l hil
            rw [L1 i x hne]
            exact hp' i l hil
          · subst hxn
            exact ⟨haff, L2⟩

end


/-! ### the loop, the run, the filter -/

section
variable {I : Inst} {P : Masters} {rank : String → Nat} {skip : List String}

theorem iLoop_skip_inv (hwf : WF I P rank) (hkeys : ∀ m ∈ P, (m.map (·.1)).Nodup)
    (hB : ∀ n, rank n ≤ (allNames P).length) :
    ∀ (order : List String) (s s' : St) (md md' : List String), Inv I P skip s md →
      iLoop (fun _ => true) (skipIStep (some I) skip) order (s, md) = .ok (s', md') →
      Inv I P skip s' md' ∧ (∀ x ∈ order, x ∈ md' ∨ ¬ Affected P skip x) ∧ (∀ x ∈ md, x ∈ md') := by
  intro order
  induction order with
  | nil =>
    intro s s' md md' h hl
    simp only [iLoop] at hl
    have := Except.ok.inj hl
    have e1 := (Prod.mk.inj this).1
    have e2 := (Prod.mk.inj this).2
    subst e1; subst e2
    exact ⟨h, (fun x hx => by cases hx), fun _ hx => hx⟩
  | cons n ns ih =>
    intro s s' md md' h hl
    unfold iLoop at hl
    by_cases h1 : md.contains n = true
    · rw [if_pos h1] at hl
      obtain ⟨a, b, c⟩ := ih s s' md md' h hl
      refine ⟨a, ?_, c⟩
      intro x hx
      rcases List.mem_cons.mp hx with rfl | hx
      · exact Or.inl (c x (by simpa using h1))
      · exact b x hx
    · rw [if_neg h1] at hl
      have hn : n ∉ md := by simpa using h1
      by_cases h2 : (glyphsNamed s.ms n).any (fun _ => true) = true
      · rw [if_pos h2] at hl
        cases hs : skipIStep (some I) skip s n with
        | error e => rw [hs] at hl; cases hl
        | ok res =>
          obtain ⟨s1, r⟩ := res
          rw [hs] at hl
          dsimp only at hl
          obtain ⟨hinv1, hr⟩ := skipIStep_inv hwf hkeys hB h n hn s1 r hs
          obtain ⟨a, b, c⟩ := ih s1 s' _ md' hinv1 hl
          refine ⟨a, ?_, ?_⟩
          · intro x hx
            rcases List.mem_cons.mp hx with rfl | hx
            · cases r with
              | true => exact Or.inl (c x ((mem_addMod md x x).mpr (Or.inr rfl)))
              | false => exact Or.inr (hr rfl)
            · exact b x hx
          · intro x hx
            apply c
            cases r with
            | true => exact (mem_addMod md n x).mpr (Or.inl hx)
            | false => exact hx
      · rw [if_neg h2] at hl
        obtain ⟨a, b, c⟩ := ih s s' md md' h hl
        refine ⟨a, ?_, c⟩
        intro x hx
        rcases List.mem_cons.mp hx with rfl | hx
        · right
          rintro ⟨g, hg, _⟩
          have hg' := (h.named_orig hn g).mpr hg
          have : (glyphsNamed s.ms x).any (fun _ => true) = true := List.any_eq_true.mpr ⟨g, hg', rfl⟩
          exact h2 this
        · exact b x hx

theorem depthsI_fst (ms : Masters) : ∀ (names : List String) (ds : List (String × Nat)),
    depthsI ms names = .ok ds → ds.map (·.1) = names := by
  intro names
  induction names with
  | nil => intro ds h; simp only [depthsI] at h; rw [← Except.ok.inj h]; rfl
  | cons n l ih =>
    intro ds h
    unfold depthsI at h
    cases h1 : compDepth ms n with
    | error e => rw [h1] at h; cases h
    | ok d =>
      cases h2 : depthsI ms l with
      | error e => rw [h1, h2] at h; cases h
      | ok r =>
        rw [h1, h2] at h
        rw [← Except.ok.inj h, List.map_cons, ih r h2]

theorem mem_orderI (ms : Masters) (names order : List String) (h : orderI ms names = .ok order) (x : String)
    (hx : x ∈ names) : x ∈ order := by
  unfold orderI at h
  cases hd : depthsI ms names with
  | error e => rw [hd] at h; cases h
  | ok ds =>
    rw [hd] at h
    rw [← Except.ok.inj h]
    have := depthsI_fst ms names ds hd
    rw [← this] at hx
    obtain ⟨e, he, rfl⟩ := List.mem_map.mp hx
    exact List.mem_map.mpr ⟨e, List.mem_mergeSort.mpr he, rfl⟩

theorem alookup_filter_gone (skip : List String) (n : String) (h : skip.contains n = true) :
    ∀ gs : GlyphSet, alookup n (gs.filter (fun e => !skip.contains e.1)) = none := by
  intro gs
  induction gs with
  | nil => rfl
  | cons e gs ih =>
    obtain ⟨k, v⟩ := e
    by_cases hk : skip.contains k = true
    · simp only [List.filter_cons, hk, Bool.not_true, Bool.false_eq_true, if_false, ih]
    · have hkn : (k == n) = false := by
        cases hkn : (k == n) with
        | false => rfl
        | true => have : k = n := by simpa using hkn
                  rw [this] at hk; exact absurd h hk
      simp only [List.filter_cons, hk, Bool.not_false, if_true, alookup, hkn, Bool.false_eq_true, if_false, ih]

/-- **`SkipExportGlyphsIFilter.__call__` (model `C09.skipI`, run with an Instantiator on copies of the source layers) leaves
    sources in the relation `SkipRel`** — for every iteration order of the glyph-name set that covers all names -/
theorem skipFamily_rel (hwf : WF I P rank) (hkeys : ∀ m ∈ P, (m.map (·.1)).Nodup)
    (hB : ∀ n, rank n ≤ (allNames P).length) (orders : List (List String))
    (hcover : ∀ o, orders.head? = some o → ∀ n ∈ allNames P, n ∈ o)
    (ms' : Masters) (h : skipFamily skip I P orders = .ok ms') : SkipRel I P skip ms' := by
  unfold skipFamily skipI at h
  by_cases hempty : skip.isEmpty = true
  · rw [if_pos hempty] at h
    have := Except.ok.inj h; subst this
    have hnil : skip = [] := List.isEmpty_iff.mp hempty
    subst hnil
    refine ⟨rfl, fun _ _ n hn => by simp at hn, ?_, ?_⟩
    · intro n _ _ i m m' h1 h2
      rw [h1] at h2; rw [← Option.some.inj h2]
    · rintro n _ ⟨_, _, _, _, hc⟩
      simp at hc
  · rw [if_neg hempty] at h
    cases hr : runI (fun _ => true) (skipIStep (some I) skip) ⟨P, some P, [], orders⟩ with
    | error e => rw [hr] at h; cases h
    | ok res =>
      obtain ⟨s', md'⟩ := res
      rw [hr] at h
      dsimp only at h
      have hms : ms' = s'.ms.map (fun (m : GlyphSet) => m.filter (fun e => !skip.contains e.1)) := by
        rw [← Except.ok.inj h, updated_ms]
      have cont : ∀ (names order : List String) (rest : List (List String)), (∀ n ∈ allNames P, n ∈ names) →
          orderI P names = .ok order →
          iLoop (fun _ => true) (skipIStep (some I) skip) order (⟨P, some P, [], rest⟩, []) = .ok (s', md') →
          SkipRel I P skip ms' := by
        intro names order rest hcov ho hr
        have hinv0 : Inv I P skip ⟨P, some P, [], rest⟩ [] := by
          refine ⟨⟨rfl, fun x p hx => by simp [alookup] at hx⟩, rfl, fun _ _ hx => hx, fun _ _ _ => rfl, fun x hx => by cases hx⟩
        obtain ⟨hinv, hall, _⟩ := iLoop_skip_inv hwf hkeys hB order _ s' [] md' hinv0 hr
        have hnames : ∀ n ∈ allNames P, n ∈ order := fun n hn => mem_orderI P _ order ho n (hcov n hn)
        have hidx : ∀ (i : Nat) m', ms'[i]? = some m' →
            ∃ m, s'.ms[i]? = some m ∧ m' = m.filter (fun e => !skip.contains e.1) := by
          intro i m' hi
          rw [hms, List.getElem?_map] at hi
          cases hm : s'.ms[i]? with
          | none => rw [hm] at hi; cases hi
          | some m => rw [hm] at hi; exact ⟨m, rfl, (Option.some.inj hi).symm⟩
        refine ⟨by rw [hms, List.length_map, hinv.len], ?_, ?_, ?_⟩
        · intro m' hm' n hn
          rw [hms] at hm'
          obtain ⟨m, _, rfl⟩ := List.mem_map.mp hm'
          exact alookup_filter_gone skip n hn m
        · intro n hsk hna i m m' h1 h2
          obtain ⟨m1, hm1, rfl⟩ := hidx i m' h2
          have hnmd : n ∉ md' := fun hc => hna (hinv.proc n hc).1
          have := hinv.orig n hnmd i
          rw [getD_of_getElem? hm1, getD_of_getElem? h1] at this
          unfold GlyphSet.get? at this ⊢
          rw [alookup_filter skip n hsk]; exact this
        · intro n hsk haf i m' l h2 hl
          obtain ⟨m1, hm1, rfl⟩ := hidx i m' h2
          have hnP : n ∈ allNames P := by
            obtain ⟨g, hg, _⟩ := haf
            obtain ⟨m, hm, hgm⟩ := (mem_glyphsNamed _ _ _).mp hg
            exact mem_allNames_of_get m hm n g hgm
          have hmd : n ∈ md' := by
            rcases hall n (hnames n hnP) with h1 | h1
            · exact h1
            · exact absurd haf h1
          have := (hinv.proc n hmd).2 i l hl
          rw [getD_of_getElem? hm1] at this
          unfold GlyphSet.get? at this ⊢
          rw [alookup_filter skip n hsk]; exact this
      unfold runI at hr
      cases horders : orders with
      | nil =>
        rw [horders] at hr
        dsimp only at hr
        cases ho : orderI P (allNames P) with
        | error e => rw [ho] at hr; cases hr
        | ok order =>
          rw [ho] at hr
          exact cont _ order _ (fun n hn => hn) ho hr
      | cons o rest =>
        rw [horders] at hr
        dsimp only at hr
        cases ho : orderI P o with
        | error e => rw [ho] at hr; cases hr
        | ok order =>
          rw [ho] at hr
          exact cont _ order _ (hcover o (by rw [horders]; rfl)) ho hr

end

end Ufo2ft.C13
