import Ufo2ftModel.Props.C05ApplyDet
/-! C05 end-to-end, lookup names: `lookupName` (`kern_` + the bucket's script names joined by `_` + optional `_marks`, with
    `Zyyy` replaced by `Default`) is injective on the bucket keys when every script name has the ISO-15924 shape (one upper-case
    and three lower-case letters) — so distinct buckets get distinct lookup names: `namesOK_of_wf`. -/
namespace Ufo2ft.C05
open Ufo2ft List

def ZY : List Char := ['Z', 'y', 'y', 'y']
def DEF : List Char := ['D', 'e', 'f', 'a', 'u', 'l', 't']
def MARKS : List Char := ['_', 'm', 'a', 'r', 'k', 's']

theorem common_chars : COMMON.toList = ZY := by decide
theorem default_chars : "Default".toList = DEF := by decide
theorem kern_chars : "kern_".toList = ['k', 'e', 'r', 'n', '_'] := by decide
theorem marks_chars : "_marks".toList = MARKS := by decide
theorem empty_chars : "".toList = [] := by decide

/-- the characters of an ISO-15924 code: an upper-case letter and three lower-case letters -/
def IsoL (s : List Char) : Prop := ∃ a b c d, s = [a, b, c, d] ∧ a.isUpper = true ∧ b.isLower = true ∧ c.isLower = true ∧ d.isLower = true

theorem isoL_of (s : String) (h : isoCode s = true) : IsoL s.toList := by
  unfold isoCode at h
  split at h
  · rename_i a b c d heq
    simp only [Bool.and_eq_true] at h
    exact ⟨a, b, c, d, heq, h.1.1.1, h.1.1.2, h.1.2, h.2⟩
  · cases h

theorem lower_ne (c x : Char) (hx : x.isLower = false) (h : c.isLower = true) : c ≠ x := by
  intro e; rw [e, hx] at h; cases h

theorem upper_ne (c x : Char) (hx : x.isUpper = false) (h : c.isUpper = true) : c ≠ x := by
  intro e; rw [e, hx] at h; cases h

/-! ### the replacement `Zyyy → Default` acts script by script -/

theorem replace_head (c : Char) (t : List Char) (h : c ≠ 'Z') :
    replaceChars ZY DEF 0 (c :: t) = c :: replaceChars ZY DEF 0 t := by
  have : ('Z' == c) = false := by
    cases hh : ('Z' == c) with
    | false => rfl
    | true => exact absurd (by simpa using hh : 'Z' = c).symm h
  simp [replaceChars, ZY, List.isPrefixOf, this]

theorem replace_pass : ∀ (l t : List Char), (∀ c ∈ l, c ≠ 'Z') →
    replaceChars ZY DEF 0 (l ++ t) = l ++ replaceChars ZY DEF 0 t := by
  intro l
  induction l with
  | nil => intro t _; rfl
  | cons a l ih =>
    intro t h
    rw [cons_append, replace_head a _ (h a mem_cons_self), ih t (fun c hc => h c (mem_cons_of_mem _ hc))]
    rfl

theorem replace_nil : replaceChars ZY DEF 0 [] = [] := rfl

/-- the name of one script in the lookup name -/
def mapName (s : List Char) : List Char := if s = ZY then DEF else s

/-- one script name followed by anything: the replacement touches it only if it is `Zyyy` -/
theorem replace_piece (s t : List Char) (hs : IsoL s) :
    replaceChars ZY DEF 0 (s ++ t) = mapName s ++ replaceChars ZY DEF 0 t := by
  obtain ⟨a, b, c, d, rfl, ha, hb, hc, hd⟩ := hs
  have nb : b ≠ 'Z' := lower_ne b 'Z' (by decide) hb
  have nc : c ≠ 'Z' := lower_ne c 'Z' (by decide) hc
  have nd : d ≠ 'Z' := lower_ne d 'Z' (by decide) hd
  by_cases hz : [a, b, c, d] = ZY
  · simp only [ZY, cons.injEq, and_true] at hz
    obtain ⟨rfl, rfl, rfl, rfl⟩ := hz
    simp [mapName, replaceChars, ZY, List.isPrefixOf]
  · simp only [mapName, hz, if_false]
    by_cases haz : a = 'Z'
    · subst haz
      have hpre : ZY.isPrefixOf ('Z' :: ([b, c, d] ++ t)) = false := by
        simp only [ZY, cons.injEq, and_true, true_and] at hz
        simp only [ZY, cons_append, nil_append, List.isPrefixOf, beq_self_eq_true, Bool.true_and, Bool.and_true]
        cases h1 : ('y' == b) <;> cases h2 : ('y' == c) <;> cases h3 : ('y' == d) <;> simp_all
        exact hz h1.symm h2.symm h3.symm
      have step : replaceChars ZY DEF 0 ('Z' :: ([b, c, d] ++ t)) = 'Z' :: replaceChars ZY DEF 0 ([b, c, d] ++ t) := by
        simp only [replaceChars, hpre, Bool.false_eq_true, if_false]
      have : ['Z', b, c, d] ++ t = 'Z' :: ([b, c, d] ++ t) := rfl
      rw [this, step, replace_pass [b, c, d] t (by
        intro x hx
        simp only [mem_cons, mem_nil_iff, or_false] at hx
        rcases hx with rfl | rfl | rfl <;> assumption)]
      rfl
    · exact replace_pass [a, b, c, d] t (by
        intro x hx
        simp only [mem_cons, mem_nil_iff, or_false] at hx
        rcases hx with rfl | rfl | rfl | rfl <;> assumption)

theorem replace_join : ∀ (K : List (List Char)) (T : List Char), (∀ s ∈ K, IsoL s) → (∀ c ∈ T, c ≠ 'Z') →
    replaceChars ZY DEF 0 (joinChars ['_'] K ++ T) = joinChars ['_'] (K.map mapName) ++ T := by
  intro K
  induction K with
  | nil =>
    intro T _ hT
    have := replace_pass T [] hT
    simpa [joinChars, replace_nil] using this
  | cons s K ih =>
    intro T hK hT
    cases K with
    | nil =>
      simp only [joinChars, map_cons, map_nil]
      rw [replace_piece s T (hK s mem_cons_self)]
      have := replace_pass T [] hT
      rw [append_nil, replace_nil, append_nil] at this
      rw [this]
    | cons s' K' =>
      have e1 : joinChars ['_'] (s :: s' :: K') ++ T = s ++ ('_' :: (joinChars ['_'] (s' :: K') ++ T)) := by
        simp [joinChars, append_assoc]
      have e2 : joinChars ['_'] ((s :: s' :: K').map mapName) ++ T =
          mapName s ++ ('_' :: (joinChars ['_'] ((s' :: K').map mapName) ++ T)) := by
        simp [joinChars, append_assoc]
      rw [e1, e2, replace_piece s _ (hK s mem_cons_self), replace_head '_' _ (by decide),
        ih T (fun x hx => hK x (mem_cons_of_mem _ hx)) hT]

/-! ### reading the name back -/

/-- a piece of the name between underscores: starts with an upper-case letter and holds no underscore -/
def Piece (p : List Char) : Prop := (∃ h t, p = h :: t ∧ h.isUpper = true) ∧ '_' ∉ p

theorem piece_mapName (s : List Char) (hs : IsoL s) : Piece (mapName s) := by
  unfold mapName
  split
  · exact ⟨⟨'D', _, rfl, by decide⟩, by decide⟩
  · obtain ⟨a, b, c, d, rfl, ha, hb, hc, hd⟩ := hs
    refine ⟨⟨a, _, rfl, ha⟩, ?_⟩
    intro h
    simp only [mem_cons, mem_nil_iff, or_false] at h
    rcases h with h | h | h | h
    · exact upper_ne a '_' (by decide) ha h.symm
    · exact lower_ne b '_' (by decide) hb h.symm
    · exact lower_ne c '_' (by decide) hc h.symm
    · exact lower_ne d '_' (by decide) hd h.symm

theorem mapName_inj (s s' : List Char) (hs : IsoL s) (hs' : IsoL s') (h : mapName s = mapName s') : s = s' := by
  unfold mapName at h
  obtain ⟨a, b, c, d, rfl, _⟩ := hs
  obtain ⟨a', b', c', d', rfl, _⟩ := hs'
  split at h <;> split at h
  · rename_i h1 h2; rw [h1, h2]
  · simp [DEF] at h
  · simp [DEF] at h
  · exact h

/-- what may follow a piece: nothing, or something that starts with an underscore -/
def Tail (X : List Char) : Prop := X = [] ∨ ∃ t, X = '_' :: t

theorem split_piece : ∀ (p p' X X' : List Char), '_' ∉ p → '_' ∉ p' → Tail X → Tail X' → p ++ X = p' ++ X' → p = p' ∧ X = X' := by
  intro p
  induction p with
  | nil =>
    intro p' X X' _ hp' hX _ h
    cases p' with
    | nil => exact ⟨rfl, by simpa using h⟩
    | cons a t =>
      exfalso
      simp only [nil_append, cons_append] at h
      rcases hX with rfl | ⟨u, rfl⟩
      · cases h
      · simp only [cons.injEq] at h
        exact hp' (by rw [← h.1]; exact mem_cons_self)
  | cons a q ih =>
    intro p' X X' hp hp' hX hX' h
    cases p' with
    | nil =>
      exfalso
      simp only [nil_append, cons_append] at h
      rcases hX' with rfl | ⟨u, rfl⟩
      · cases h
      · simp only [cons.injEq] at h
        exact hp (by rw [h.1]; exact mem_cons_self)
    | cons a' q' =>
      simp only [cons_append, cons.injEq] at h
      obtain ⟨e1, e2⟩ := ih q' X X' (fun hh => hp (mem_cons_of_mem _ hh)) (fun hh => hp' (mem_cons_of_mem _ hh)) hX hX' h.2
      exact ⟨by rw [h.1, e1], e2⟩

/-- the only name suffixes -/
def Sfx (T : List Char) : Prop := T = [] ∨ T = MARKS

theorem join_tail (P : List (List Char)) (T : List Char) (hT : Sfx T) (hP : ∀ p ∈ P, Piece p) :
    ∀ p, ∃ X, joinChars ['_'] (p :: P) ++ T = p ++ X ∧ Tail X ∧ (P = [] → X = T) ∧
      (∀ q R, P = q :: R → X = '_' :: (joinChars ['_'] (q :: R) ++ T)) := by
  intro p
  cases P with
  | nil =>
    refine ⟨T, by simp [joinChars], ?_, fun _ => rfl, by intro q R h; cases h⟩
    rcases hT with rfl | rfl
    · exact Or.inl rfl
    · exact Or.inr ⟨_, rfl⟩
  | cons q R =>
    refine ⟨'_' :: (joinChars ['_'] (q :: R) ++ T), by simp [joinChars, append_assoc], Or.inr ⟨_, rfl⟩,
      (fun h => by cases h), ?_⟩
    intro q' R' h
    simp only [cons.injEq] at h
    rw [h.1, h.2]

theorem join_inj : ∀ (P P' : List (List Char)) (T T' : List Char), (∀ p ∈ P, Piece p) → (∀ p ∈ P', Piece p) → Sfx T → Sfx T' →
    joinChars ['_'] P ++ T = joinChars ['_'] P' ++ T' → P = P' ∧ T = T' := by
  intro P
  induction P with
  | nil =>
    intro P' T T' _ hP' hT hT' h
    cases P' with
    | nil => exact ⟨rfl, by simpa [joinChars] using h⟩
    | cons p' R' =>
      exfalso
      obtain ⟨X', hx', tX', _, _⟩ := join_tail R' T' hT' (fun p hp => hP' p (mem_cons_of_mem _ hp)) p'
      rw [hx'] at h
      simp only [joinChars, nil_append] at h
      obtain ⟨⟨hd, tl, hp', hup⟩, hno⟩ := hP' p' mem_cons_self
      have tT : Tail T := by
        rcases hT with rfl | rfl
        · exact Or.inl rfl
        · exact Or.inr ⟨_, rfl⟩
      have := (split_piece [] p' T X' (by simp) hno tT tX' (by simpa using h)).1
      rw [hp'] at this; cases this
  | cons p R ih =>
    intro P' T T' hP hP' hT hT' h
    have tailOf : ∀ T, Sfx T → Tail T := by
      intro T hT
      rcases hT with rfl | rfl
      · exact Or.inl rfl
      · exact Or.inr ⟨_, rfl⟩
    obtain ⟨X, hx, tX, xnil, xcons⟩ := join_tail R T hT (fun q hq => hP q (mem_cons_of_mem _ hq)) p
    cases P' with
    | nil =>
      exfalso
      rw [hx] at h
      simp only [joinChars, nil_append] at h
      obtain ⟨⟨hd, tl, hp', hup⟩, hno⟩ := hP p mem_cons_self
      have := (split_piece p [] X T' hno (by simp) tX (tailOf T' hT') (by simpa using h)).1
      rw [hp'] at this; cases this
    | cons p' R' =>
      obtain ⟨X', hx', tX', xnil', xcons'⟩ := join_tail R' T' hT' (fun q hq => hP' q (mem_cons_of_mem _ hq)) p'
      rw [hx, hx'] at h
      obtain ⟨epp, eXX⟩ := split_piece p p' X X' (hP p mem_cons_self).2 (hP' p' mem_cons_self).2 tX tX' h
      subst epp
      -- a tail "_marks" cannot be read as "_" + a piece
      have noMarks : ∀ (q : List Char) (Q : List (List Char)) (U : List Char), Piece q → (∀ x ∈ Q, Piece x) → Sfx U →
          MARKS ≠ '_' :: (joinChars ['_'] (q :: Q) ++ U) := by
        intro q Q U hq hQ hU heq
        obtain ⟨Y, hy, _, _, _⟩ := join_tail Q U hU hQ q
        rw [hy] at heq
        obtain ⟨⟨hd, tl, hq', hup⟩, _⟩ := hq
        rw [hq'] at heq
        simp only [MARKS, cons_append, cons.injEq, true_and] at heq
        rw [← heq.1] at hup
        revert hup; decide
      cases R with
      | nil =>
        cases R' with
        | nil =>
          rw [xnil rfl, xnil' rfl] at eXX
          exact ⟨rfl, eXX⟩
        | cons q' Q' =>
          exfalso
          rw [xnil rfl, xcons' q' Q' rfl] at eXX
          rcases hT with rfl | rfl
          · cases eXX
          · exact noMarks q' Q' T' (hP' q' (by simp)) (fun x hx => hP' x (by simp [hx])) hT' eXX
      | cons q Q =>
        cases R' with
        | nil =>
          exfalso
          rw [xcons q Q rfl, xnil' rfl] at eXX
          rcases hT' with rfl | rfl
          · cases eXX
          · exact noMarks q Q T (hP q (by simp)) (fun x hx => hP x (by simp [hx])) hT eXX.symm
        | cons q' Q' =>
          rw [xcons q Q rfl, xcons' q' Q' rfl] at eXX
          simp only [cons.injEq, true_and] at eXX
          obtain ⟨e1, e2⟩ := ih (q' :: Q') T T' (fun x hx => hP x (mem_cons_of_mem _ hx)) (fun x hx => hP' x (mem_cons_of_mem _ hx)) hT hT' eXX
          rw [e1]
          exact ⟨rfl, e2⟩

theorem map_inj_on {α β : Type} (f : α → β) : ∀ (l l' : List α), (∀ a ∈ l, ∀ b ∈ l', f a = f b → a = b) → l.map f = l'.map f → l = l' := by
  intro l
  induction l with
  | nil => intro l' _ h; cases l' with
    | nil => rfl
    | cons _ _ => cases h
  | cons a l ih =>
    intro l' hinj h
    cases l' with
    | nil => cases h
    | cons b l' =>
      simp only [map_cons, cons.injEq] at h
      rw [hinj a mem_cons_self b mem_cons_self h.1,
        ih l' (fun x hx y hy => hinj x (mem_cons_of_mem _ hx) y (mem_cons_of_mem _ hy)) h.2]

/-- the name suffixes the writer uses -/
def SfxS (s : String) : Prop := s = "" ∨ s = "_marks"

theorem sfx_chars (s : String) (h : SfxS s) : Sfx s.toList ∧ ∀ c ∈ s.toList, c ≠ 'Z' := by
  rcases h with rfl | rfl
  · rw [empty_chars]; exact ⟨Or.inl rfl, by intro c hc; cases hc⟩
  · rw [marks_chars]; exact ⟨Or.inr rfl, by decide⟩

/-- `lookupName` written out for ISO-shaped script names -/
theorem lookupName_chars (scripts : List String) (sfx : String) (hs : ∀ s ∈ scripts, isoCode s = true) (hx : SfxS sfx) :
    (lookupName scripts sfx).toList =
      ['k', 'e', 'r', 'n', '_'] ++ (joinChars ['_'] ((scripts.map String.toList).map mapName) ++ sfx.toList) := by
  unfold lookupName
  rw [String.toList_ofList, common_chars, default_chars, kern_chars, append_assoc]
  rw [replace_pass _ _ (by decide)]
  rw [replace_join _ _ (by
    intro s hs'
    obtain ⟨s0, hs0, rfl⟩ := mem_map.mp hs'
    exact isoL_of s0 (hs s0 hs0)) (sfx_chars sfx hx).2]

/-- `lookupName` is injective on lists of ISO-shaped script names and the two suffixes -/
theorem lookupName_inj (K K' : List String) (sfx sfx' : String) (hK : ∀ s ∈ K, isoCode s = true) (hK' : ∀ s ∈ K', isoCode s = true)
    (hx : SfxS sfx) (hx' : SfxS sfx') (h : lookupName K sfx = lookupName K' sfx') : K = K' ∧ sfx = sfx' := by
  have h' := congrArg String.toList h
  rw [lookupName_chars K sfx hK hx, lookupName_chars K' sfx' hK' hx'] at h'
  have h'' := append_cancel_left h'
  have pieces : ∀ (L : List String), (∀ s ∈ L, isoCode s = true) → ∀ p ∈ (L.map String.toList).map mapName, Piece p := by
    intro L hL p hp
    obtain ⟨s1, hs1, rfl⟩ := mem_map.mp hp
    obtain ⟨s0, hs0, rfl⟩ := mem_map.mp hs1
    exact piece_mapName _ (isoL_of s0 (hL s0 hs0))
  obtain ⟨e1, e2⟩ := join_inj _ _ _ _ (pieces K hK) (pieces K' hK') (sfx_chars sfx hx).1 (sfx_chars sfx' hx').1 h''
  refine ⟨?_, String.toList_injective e2⟩
  rw [map_map, map_map] at e1
  apply map_inj_on _ K K' _ e1
  intro a ha b hb hab
  simp only [Function.comp] at hab
  exact String.toList_injective (mapName_inj _ _ (isoL_of a (hK a ha)) (isoL_of b (hK' b hb)) hab)

/-! ### the script names in the bucket keys -/

theorem emptyBuckets_keys_sub (sets : List (List String)) : ∀ k ∈ (emptyBuckets sets).map (·.1), ∃ s ∈ sets, k = sortStr s := by
  unfold emptyBuckets
  suffices h : ∀ (rest : List (List String)) (acc : List (List String × List KPair)),
      (∀ k ∈ acc.map (·.1), ∃ s ∈ sets, k = sortStr s) → (∀ s ∈ rest, s ∈ sets) →
      ∀ k ∈ (rest.foldl (fun acc s => if acc.any (fun e => e.1 == sortStr s) then acc else acc ++ [(sortStr s, [])]) acc).map (·.1),
        ∃ s ∈ sets, k = sortStr s from
    h sets [] (by intro k hk; cases hk) (fun _ h => h)
  intro rest
  induction rest with
  | nil => intro acc h _; exact h
  | cons s rest ih =>
    intro acc hacc hrest
    rw [foldl_cons]
    apply ih _ _ (fun x hx => hrest x (mem_cons_of_mem _ hx))
    split
    · exact hacc
    · intro k hk
      rw [map_append, mem_append] at hk
      rcases hk with hk | hk
      · exact hacc k hk
      · simp only [map_cons, map_nil, mem_singleton] at hk
        exact ⟨s, hrest s mem_cons_self, hk⟩

theorem mergeScripts_keys (b : List (List String × List KPair)) :
    ∀ y ∈ mergeScripts b, ∃ t ∈ mergedSets b, y.1 = sortStr t := by
  intro y hy
  rw [mergeScripts_eq] at hy
  obtain ⟨k1, k2, _⟩ := emptyBuckets_keys (mergedSets b)
  obtain ⟨hk, _, _, _⟩ := pour_fold (mergedSets b) _ k1 k2 b (emptyBuckets (mergedSets b)) rfl
  have : y.1 ∈ (emptyBuckets (mergedSets b)).map (·.1) := by rw [← hk]; exact mem_map_of_mem hy
  exact emptyBuckets_keys_sub _ _ this

/-- every script name in a bucket key of a pair list is a script of a glyph of the font -/
theorem bucket_scripts_ok (c : Ctx) (gs : List String) (groups : List (String × List String)) (kerning : List (String × String × Q))
    (q : Q) (w : WF gs groups kerning) (hsc : scriptsOK c gs = true) (m0 : Mode) (e : List String × List KPair)
    (he : e ∈ splitKerning c (listOf (genPairs gs groups kerning q) m0).1) : ∀ x ∈ e.1, isoCode x = true := by
  simp only [scriptsOK, all_eq_true] at hsc
  rw [splitKerning_eq] at he
  obtain ⟨y, hy, rfl⟩ := mem_map.mp he
  obtain ⟨t, ht, hyt⟩ := mergeScripts_keys _ y hy
  intro x hx
  dsimp only at hx
  rw [hyt, mem_sortStr] at hx
  obtain ⟨k, hk, hxk⟩ := (mergedSets_covers _).2.2 t ht x hx
  obtain ⟨hk, _⟩ := mem_filter.mp hk
  obtain ⟨e0, he0, rfl⟩ := mem_map.mp hk
  have hraw := rawBuckets_keys c (fun k => ∀ x ∈ k, isoCode x = true) (listOf (genPairs gs groups kerning q) m0).1 (by
    intro p hp cell hcell z hz
    simp only [listOf, mem_flatMap] at hp
    obtain ⟨p0, hp0, hpp⟩ := hp
    obtain ⟨_, _, _, s1, s2, _⟩ := σ_sound m0 p0 p hpp
    obtain ⟨g1in, g2in⟩ := pair_glyphs_in gs groups kerning q w p0 hp0
    obtain ⟨_, _, c1, c2⟩ := cell_sides c p cell.1 cell.2 hcell
    rcases (key_sub c p cell.1 cell.2 hcell).1 z hz with ⟨g, hg, hzg⟩ | ⟨g, hg, hzg⟩
    · exact hsc g (g1in g (s1 g (c1 g hg))) z hzg
    · exact hsc g (g2in g (s2 g (c2 g hg))) z hzg) e0 he0
  exact hraw x hxk

theorem nodup_map_on {α β : Type} (f : α → β) : ∀ (l : List α), l.Nodup → (∀ a ∈ l, ∀ b ∈ l, f a = f b → a = b) → (l.map f).Nodup := by
  intro l
  induction l with
  | nil => intro _ _; simp
  | cons a l ih =>
    intro hn hinj
    rw [nodup_cons] at hn
    rw [map_cons, nodup_cons]
    refine ⟨?_, ih hn.2 (fun x hx y hy => hinj x (mem_cons_of_mem _ hx) y (mem_cons_of_mem _ hy))⟩
    intro hmem
    obtain ⟨b, hb, hfb⟩ := mem_map.mp hmem
    have := hinj b (mem_cons_of_mem _ hb) a mem_cons_self hfb
    rw [this] at hb
    exact hn.1 hb

/-- the lookup names of the buckets of one pair list are distinct -/
theorem names_nodup_one (c : Ctx) (gs : List String) (groups : List (String × List String)) (kerning : List (String × String × Q))
    (q : Q) (w : WF gs groups kerning) (hsc : scriptsOK c gs = true) (m0 : Mode) (sfx : String) (hx : SfxS sfx) :
    ((splitKerning c (listOf (genPairs gs groups kerning q) m0).1).map (fun e => lookupName e.1 sfx)).Nodup := by
  have : (splitKerning c (listOf (genPairs gs groups kerning q) m0).1).map (fun e => lookupName e.1 sfx) =
      ((splitKerning c (listOf (genPairs gs groups kerning q) m0).1).map (·.1)).map (fun k => lookupName k sfx) := by
    rw [map_map]; rfl
  rw [this]
  apply nodup_map_on _ _ (splitKerning_keys_nodup c _)
  intro a ha b hb hab
  obtain ⟨ea, hea, rfl⟩ := mem_map.mp ha
  obtain ⟨eb, heb, rfl⟩ := mem_map.mp hb
  exact (lookupName_inj _ _ sfx sfx (bucket_scripts_ok c gs groups kerning q w hsc m0 ea hea)
    (bucket_scripts_ok c gs groups kerning q w hsc m0 eb heb) hx hx hab).1

theorem pairLists_sfx (pairs : List KPair) (marks : Option (List String)) (im : Bool) :
    (∀ l ∈ pairLists pairs marks im, SfxS l.2.2) ∧ (pairLists pairs marks im).Pairwise (fun l l' => l.2.2 ≠ l'.2.2) := by
  unfold pairLists
  cases im with
  | false =>
    simp only [Bool.false_eq_true, if_false]
    exact ⟨by intro l hl; simp only [mem_singleton] at hl; rw [hl]; exact Or.inl rfl, by simp⟩
  | true =>
    simp only [if_true]
    generalize (splitBaseAndMarkPairs pairs marks).1 = bp
    generalize (splitBaseAndMarkPairs pairs marks).2 = mp
    by_cases h1 : bp.isEmpty = true <;> by_cases h2 : mp.isEmpty = true
    · simp [h1, h2]
    · simp only [h1, h2, Bool.false_eq_true, if_true, if_false, nil_append]
      exact ⟨by intro l hl; simp only [mem_singleton] at hl; rw [hl]; exact Or.inr rfl, by simp⟩
    · simp only [h1, h2, Bool.false_eq_true, if_true, if_false, append_nil]
      exact ⟨by intro l hl; simp only [mem_singleton] at hl; rw [hl]; exact Or.inl rfl, by simp⟩
    · simp only [h1, h2, Bool.false_eq_true, if_false, cons_append, nil_append]
      refine ⟨?_, ?_⟩
      · intro l hl
        simp only [mem_cons, mem_nil_iff, or_false] at hl
        rcases hl with rfl | rfl
        · exact Or.inl rfl
        · exact Or.inr rfl
      · rw [pairwise_cons]
        refine ⟨?_, by simp⟩
        intro l hl
        simp only [mem_singleton] at hl
        rw [hl]
        show ("" : String) ≠ "_marks"
        decide

theorem nodup_flatMap_of {α β : Type} (f : α → List β) : ∀ (l : List α), (∀ a ∈ l, (f a).Nodup) →
    l.Pairwise (fun a a' => ∀ x ∈ f a, ∀ y ∈ f a', x ≠ y) → (l.flatMap f).Nodup := by
  intro l
  induction l with
  | nil => intro _ _; simp
  | cons a l ih =>
    intro h1 h2
    rw [pairwise_cons] at h2
    rw [flatMap_cons, nodup_append]
    refine ⟨h1 a mem_cons_self, ih (fun x hx => h1 x (mem_cons_of_mem _ hx)) h2.2, ?_⟩
    intro x hx y hy
    obtain ⟨a', ha', hy'⟩ := mem_flatMap.mp hy
    exact h2.1 a' ha' x hx y hy'

/-- **`namesOK` discharged**: for well-formed kerning and ISO-15924-shaped script names, distinct buckets get distinct lookup
    names -/
theorem namesOK_of_wf (c : Ctx) (gs : List String) (groups : List (String × List String)) (kerning : List (String × String × Q))
    (q : Q) (marks : Option (List String)) (im : Bool) (hw : wfKern gs groups kerning = true) (hsc : scriptsOK c gs = true) :
    namesOK c (getKerningPairs gs (getKerningGroups gs groups) q kerning) marks im = true := by
  have w := wf_of_wfKern gs groups kerning hw
  unfold namesOK
  simp only [decide_eq_true_eq]
  obtain ⟨hsfx, hpw⟩ := pairLists_sfx (genPairs gs groups kerning q) marks im
  have iso : ∀ l ∈ pairLists (genPairs gs groups kerning q) marks im, ∀ e ∈ splitKerning c l.1, ∀ x ∈ e.1, isoCode x = true := by
    intro l hl e he
    obtain ⟨m0, _, rfl⟩ := pairLists_sub _ marks im l hl
    exact bucket_scripts_ok c gs groups kerning q w hsc m0 e he
  apply nodup_flatMap_of
  · intro l hl
    obtain ⟨m0, _, hm0⟩ := pairLists_sub _ marks im l hl
    have hx := hsfx l hl
    rw [hm0] at hx ⊢
    exact names_nodup_one c gs groups kerning q w hsc m0 _ hx
  · rw [pairwise_iff_forall_sublist] at hpw ⊢
    intro l l' hsub
    have hl : l ∈ pairLists (genPairs gs groups kerning q) marks im := hsub.subset mem_cons_self
    have hl' : l' ∈ pairLists (genPairs gs groups kerning q) marks im := hsub.subset (mem_cons_of_mem _ mem_cons_self)
    intro a ha b hb hab
    obtain ⟨ea, hea, rfl⟩ := mem_map.mp ha
    obtain ⟨eb, heb, rfl⟩ := mem_map.mp hb
    exact hpw hsub (lookupName_inj _ _ _ _ (iso l hl ea hea) (iso l' hl' eb heb) (hsfx l hl) (hsfx l' hl') hab).2

end Ufo2ft.C05
