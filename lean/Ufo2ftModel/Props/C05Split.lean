import Ufo2ftModel.Props.C05Order
/-! C05, part 6: splitting pairs into base/mark lists and into direction cells loses nothing, doubles nothing, and keeps value
    and specificity. -/
namespace Ufo2ft.C05
open Ufo2ft List

/-! ### _splitBaseAndMarkPairs -/

def mkPair (v : Q) (a b : Option Side) : List KPair :=
  match a, b with
  | some x, some y => [⟨x, y, v⟩]
  | _, _ => []

def basePart (ms : List String) (p : KPair) : List KPair := mkPair p.value (splitSide ms p.side1).1 (splitSide ms p.side2).1
def markPart (ms : List String) (p : KPair) : List KPair :=
  mkPair p.value (splitSide ms p.side1).1 (splitSide ms p.side2).2 ++ mkPair p.value (splitSide ms p.side1).2 (splitSide ms p.side2).1 ++
    mkPair p.value (splitSide ms p.side1).2 (splitSide ms p.side2).2

def splitStep (ms : List String) (acc : List KPair × List KPair) (p : KPair) : List KPair × List KPair :=
  let (b1, m1) := splitSide ms p.side1
  let (b2, m2) := splitSide ms p.side2
  let mk := fun (a b : Option Side) => match a, b with
    | some x, some y => [(⟨x, y, p.value⟩ : KPair)] | _, _ => []
  (acc.1 ++ mk b1 b2, acc.2 ++ mk b1 m2 ++ mk m1 b2 ++ mk m1 m2)

theorem splitStep_eq (ms : List String) (a1 a2 : List KPair) (p : KPair) :
    splitStep ms (a1, a2) p = (a1 ++ basePart ms p, a2 ++ markPart ms p) := by
  simp only [splitStep, basePart, markPart, mkPair, append_assoc]

theorem split_fold (ms : List String) : ∀ (pairs : List KPair) (a1 a2 : List KPair),
    pairs.foldl (splitStep ms) (a1, a2) = (a1 ++ pairs.flatMap (basePart ms), a2 ++ pairs.flatMap (markPart ms)) := by
  intro pairs
  induction pairs with
  | nil => intro a1 a2; simp
  | cons p ps ih =>
    intro a1 a2
    rw [foldl_cons, splitStep_eq, ih]
    simp only [flatMap_cons, append_assoc]

theorem split_unfold (pairs : List KPair) (ms : List String) :
    splitBaseAndMarkPairs pairs (some ms) = if ms.isEmpty then (pairs, []) else pairs.foldl (splitStep ms) ([], []) := rfl

/-- the two lists `_splitBaseAndMarkPairs` returns, pair by pair -/
theorem split_eq (pairs : List KPair) (ms : List String) (hne : ms.isEmpty = false) :
    splitBaseAndMarkPairs pairs (some ms) = (pairs.flatMap (basePart ms), pairs.flatMap (markPart ms)) := by
  rw [split_unfold, hne, split_fold]
  simp

/-- membership of a glyph in an optional side -/
def hit (o : Option Side) (g : String) : Bool :=
  match o with
  | some s => decide (g ∈ s.glyphs)
  | none => false

theorem hit_base (ms : List String) (sd : Side) (g : String) :
    hit (splitSide ms sd).1 g = (decide (g ∈ sd.glyphs) && !ms.contains g) := by
  cases sd with
  | glyph x =>
    simp only [splitSide, Side.glyphs, mem_singleton]
    cases hx : ms.contains x with
    | true =>
      simp only [if_true, hit]
      by_cases hg : g = x
      · subst hg; rw [hx]; simp
      · simp [hg]
    | false =>
      simp only [Bool.false_eq_true, if_false, hit, Side.glyphs, mem_singleton]
      by_cases hg : g = x
      · subst hg; rw [hx]; simp
      · simp [hg]
  | cls gs =>
    simp only [splitSide, Side.glyphs]
    cases hc : ms.contains g with
    | true =>
      have hm : g ∈ ms := by simpa using hc
      have hno : g ∉ gs.filter (fun g => !ms.contains g) := by simp [mem_filter, hm]
      simp only [Bool.not_true, Bool.and_false]
      split
      · rfl
      · simp only [hit, Side.glyphs]; simpa using hno
    | false =>
      simp only [Bool.not_false, Bool.and_true]
      have hm : g ∉ ms := by simpa using hc
      by_cases hg : g ∈ gs
      · have hin : g ∈ gs.filter (fun g => !ms.contains g) := by simp [mem_filter, hm, hg]
        split
        · rename_i he
          have : gs.filter (fun g => !ms.contains g) = [] := by simpa using he
          rw [this] at hin; cases hin
        · simp only [hit, Side.glyphs]; simp [hg, hm]
      · split
        · simp [hit, hg]
        · simp only [hit, Side.glyphs]; simp [hg]

theorem hit_mark (ms : List String) (sd : Side) (g : String) :
    hit (splitSide ms sd).2 g = (decide (g ∈ sd.glyphs) && ms.contains g) := by
  cases sd with
  | glyph x =>
    simp only [splitSide, Side.glyphs, mem_singleton]
    cases hx : ms.contains x with
    | true =>
      simp only [if_true, hit, Side.glyphs, mem_singleton]
      by_cases hg : g = x
      · subst hg; rw [hx]; simp
      · simp [hg]
    | false =>
      simp only [Bool.false_eq_true, if_false, hit]
      by_cases hg : g = x
      · subst hg; rw [hx]; simp
      · simp [hg]
  | cls gs =>
    simp only [splitSide, Side.glyphs]
    cases hc : ms.contains g with
    | false =>
      have hm : g ∉ ms := by simpa using hc
      have hno : g ∉ gs.filter ms.contains := by simp [mem_filter, hm]
      simp only [Bool.and_false]
      split
      · rfl
      · simp only [hit, Side.glyphs]; simpa using hno
    | true =>
      simp only [Bool.and_true]
      have hm : g ∈ ms := by simpa using hc
      by_cases hg : g ∈ gs
      · have hin : g ∈ gs.filter ms.contains := by simp [mem_filter, hm, hg]
        split
        · rename_i he
          have : gs.filter ms.contains = [] := by simpa using he
          rw [this] at hin; cases hin
        · simp only [hit, Side.glyphs]; simp [hg, hm]
      · split
        · simp [hit, hg]
        · simp only [hit, Side.glyphs]; simp [hg]

theorem isClass_base (ms : List String) (sd x : Side) (h : (splitSide ms sd).1 = some x) : x.isClass = sd.isClass := by
  cases sd with
  | glyph g => simp only [splitSide] at h; split at h <;> simp at h; subst h; rfl
  | cls gs => simp only [splitSide] at h; split at h <;> simp at h; subst h; rfl

theorem isClass_mark (ms : List String) (sd x : Side) (h : (splitSide ms sd).2 = some x) : x.isClass = sd.isClass := by
  cases sd with
  | glyph g => simp only [splitSide] at h; split at h <;> simp at h; subst h; rfl
  | cls gs => simp only [splitSide] at h; split at h <;> simp at h; subst h; rfl

def matchB (g1 g2 : String) (p : KPair) : Bool := decide (Matches p g1 g2)

theorem countP_mkPair (v : Q) (a b : Option Side) (g1 g2 : String) :
    (mkPair v a b).countP (matchB g1 g2) = if hit a g1 && hit b g2 then 1 else 0 := by
  cases a with
  | none => simp [mkPair, hit]
  | some x =>
    cases b with
    | none => simp [mkPair, hit]
    | some y =>
      simp only [mkPair, hit, countP_cons, countP_nil, matchB, Matches]
      by_cases h1 : g1 ∈ x.glyphs <;> by_cases h2 : g2 ∈ y.glyphs <;> simp [h1, h2]

theorem mem_mkPair (v : Q) (a b : Option Side) (p : KPair) (h : p ∈ mkPair v a b) :
    a = some p.side1 ∧ b = some p.side2 ∧ p.value = v := by
  cases a with
  | none => simp [mkPair] at h
  | some x =>
    cases b with
    | none => simp [mkPair] at h
    | some y => simp only [mkPair, mem_singleton] at h; subst h; exact ⟨rfl, rfl, rfl⟩

/-- one source pair: the rules it is split into match (g1, g2) exactly once if it matches, and not at all otherwise;
    base × base goes to the first list, everything with a mark to the second -/
theorem split_one_count (ms : List String) (p : KPair) (g1 g2 : String) :
    (basePart ms p).countP (matchB g1 g2) =
      (if decide (Matches p g1 g2) && !ms.contains g1 && !ms.contains g2 then 1 else 0) ∧
    (markPart ms p).countP (matchB g1 g2) =
      (if decide (Matches p g1 g2) && (ms.contains g1 || ms.contains g2) then 1 else 0) := by
  simp only [basePart, markPart, countP_append, countP_mkPair, hit_base, hit_mark, decide_matches]
  generalize decide (g1 ∈ p.side1.glyphs) = a
  generalize decide (g2 ∈ p.side2.glyphs) = b
  generalize ms.contains g1 = c
  generalize ms.contains g2 = d
  cases a <;> cases b <;> cases c <;> cases d <;> decide

theorem split_one_sound (ms : List String) (p p' : KPair) (h : p' ∈ basePart ms p ++ markPart ms p) :
    p'.value = p.value ∧ p'.side1.isClass = p.side1.isClass ∧ p'.side2.isClass = p.side2.isClass ∧ level p' = level p := by
  have key : ∀ a b, (a = (splitSide ms p.side1).1 ∨ a = (splitSide ms p.side1).2) →
      (b = (splitSide ms p.side2).1 ∨ b = (splitSide ms p.side2).2) → p' ∈ mkPair p.value a b →
      p'.value = p.value ∧ p'.side1.isClass = p.side1.isClass ∧ p'.side2.isClass = p.side2.isClass := by
    intro a b ha hb hm
    obtain ⟨h1, h2, h3⟩ := mem_mkPair _ _ _ _ hm
    refine ⟨h3, ?_, ?_⟩
    · rcases ha with ha | ha
      · exact isClass_base ms _ _ (ha ▸ h1)
      · exact isClass_mark ms _ _ (ha ▸ h1)
    · rcases hb with hb | hb
      · exact isClass_base ms _ _ (hb ▸ h2)
      · exact isClass_mark ms _ _ (hb ▸ h2)
  have : p'.value = p.value ∧ p'.side1.isClass = p.side1.isClass ∧ p'.side2.isClass = p.side2.isClass := by
    simp only [basePart, markPart, mem_append] at h
    rcases h with h | (h | h) | h
    · exact key _ _ (Or.inl rfl) (Or.inl rfl) h
    · exact key _ _ (Or.inl rfl) (Or.inr rfl) h
    · exact key _ _ (Or.inr rfl) (Or.inl rfl) h
    · exact key _ _ (Or.inr rfl) (Or.inr rfl) h
  refine ⟨this.1, this.2.1, this.2.2, ?_⟩
  simp only [level, this.2.1, this.2.2]

theorem countP_flatMap {α β : Type} (f : α → List β) (q : β → Bool) : ∀ (l : List α),
    (l.flatMap f).countP q = (l.map (fun a => (f a).countP q)).sum := by
  intro l
  induction l with
  | nil => rfl
  | cons a l ih => simp only [flatMap_cons, countP_append, map_cons, sum_cons, ih]

theorem sum_map_ite_add {α : Type} (c d : α → Bool) (hcd : ∀ a, ¬(c a = true ∧ d a = true)) : ∀ (l : List α),
    (l.map (fun a => if c a then 1 else 0)).sum + (l.map (fun a => if d a then 1 else 0)).sum =
      (l.map (fun a => if c a || d a then 1 else 0)).sum := by
  intro l
  induction l with
  | nil => rfl
  | cons a l ih =>
    simp only [map_cons, sum_cons]
    generalize (l.map (fun a => if c a then 1 else 0)).sum = A at ih ⊢
    generalize (l.map (fun a => if d a then 1 else 0)).sum = B at ih ⊢
    generalize (l.map (fun a => if c a || d a then 1 else 0)).sum = C at ih ⊢
    have := hcd a
    cases hc : c a <;> cases hd : d a <;> simp [hc, hd] at this ⊢ <;> omega

/-- Target 6 (base/mark, counting): for every glyph pair, the rules matching it in the base list plus those in the mark list
    are as many as in the source list — each source rule that matches survives exactly once … -/
theorem split_count (pairs : List KPair) (marks : Option (List String)) (g1 g2 : String) :
    (splitBaseAndMarkPairs pairs marks).1.countP (matchB g1 g2) + (splitBaseAndMarkPairs pairs marks).2.countP (matchB g1 g2) =
      pairs.countP (matchB g1 g2) := by
  cases marks with
  | none => simp [splitBaseAndMarkPairs]
  | some ms =>
    by_cases hne : ms.isEmpty = true
    · simp [splitBaseAndMarkPairs, hne]
    · have hne' : ms.isEmpty = false := by simpa using hne
      rw [split_eq pairs ms hne']
      simp only [countP_flatMap]
      have e1 : (fun a => (basePart ms a).countP (matchB g1 g2)) =
          (fun a => if (decide (Matches a g1 g2) && !ms.contains g1 && !ms.contains g2) then 1 else 0) := by
        funext a; exact (split_one_count ms a g1 g2).1
      have e2 : (fun a => (markPart ms a).countP (matchB g1 g2)) =
          (fun a => if (decide (Matches a g1 g2) && (ms.contains g1 || ms.contains g2)) then 1 else 0) := by
        funext a; exact (split_one_count ms a g1 g2).2
      rw [e1, e2, sum_map_ite_add]
      · rw [countP_eq_length_filter, ← countP_eq_length_filter]
        induction pairs with
        | nil => rfl
        | cons p ps ih =>
          simp only [map_cons, sum_cons, countP_cons, ih]
          generalize countP (matchB g1 g2) ps = n
          generalize ms.contains g1 = c
          generalize ms.contains g2 = d
          by_cases hm : Matches p g1 g2 <;> cases c <;> cases d <;> simp [hm, matchB] <;> omega
      · intro a
        generalize ms.contains g1 = c
        generalize ms.contains g2 = d
        by_cases hm : Matches a g1 g2 <;> cases c <;> cases d <;> simp [hm]

/-- … in the base list exactly when neither glyph is a mark (so an exception and the class pair it excepts always stay in
    the same list) … -/
theorem split_where (pairs : List KPair) (ms : List String) (hne : ms.isEmpty = false) (g1 g2 : String) :
    (splitBaseAndMarkPairs pairs (some ms)).1.countP (matchB g1 g2) =
      (if !ms.contains g1 && !ms.contains g2 then pairs.countP (matchB g1 g2) else 0) ∧
    (splitBaseAndMarkPairs pairs (some ms)).2.countP (matchB g1 g2) =
      (if !ms.contains g1 && !ms.contains g2 then 0 else pairs.countP (matchB g1 g2)) := by
  rw [split_eq pairs ms hne]
  simp only [countP_flatMap]
  have e1 : (fun a => (basePart ms a).countP (matchB g1 g2)) =
      (fun a => if (decide (Matches a g1 g2) && !ms.contains g1 && !ms.contains g2) then 1 else 0) := by
    funext a; exact (split_one_count ms a g1 g2).1
  have e2 : (fun a => (markPart ms a).countP (matchB g1 g2)) =
      (fun a => if (decide (Matches a g1 g2) && (ms.contains g1 || ms.contains g2)) then 1 else 0) := by
    funext a; exact (split_one_count ms a g1 g2).2
  rw [e1, e2]
  induction pairs with
  | nil => simp
  | cons p ps ih =>
    simp only [map_cons, sum_cons, countP_cons] at ih ⊢
    obtain ⟨i1, i2⟩ := ih
    rw [i1, i2]
    generalize countP (matchB g1 g2) ps = n
    generalize ms.contains g1 = c
    generalize ms.contains g2 = d
    by_cases hm : Matches p g1 g2 <;> cases c <;> cases d <;> simp [hm, matchB] <;> omega

/-- … and every produced rule keeps the value and the specificity of the source rule it comes from -/
theorem split_sound (pairs : List KPair) (marks : Option (List String)) (p' : KPair)
    (h : p' ∈ (splitBaseAndMarkPairs pairs marks).1 ++ (splitBaseAndMarkPairs pairs marks).2) :
    ∃ p ∈ pairs, p'.value = p.value ∧ level p' = level p ∧ ∀ g1 g2, Matches p' g1 g2 → Matches p g1 g2 := by
  have triv : p' ∈ pairs → ∃ p ∈ pairs, p'.value = p.value ∧ level p' = level p ∧ ∀ g1 g2, Matches p' g1 g2 → Matches p g1 g2 :=
    fun h => ⟨p', h, rfl, rfl, fun _ _ h => h⟩
  cases marks with
  | none => simp only [splitBaseAndMarkPairs, append_nil] at h; exact triv h
  | some ms =>
    by_cases hne : ms.isEmpty = true
    · simp only [splitBaseAndMarkPairs, hne, if_true, append_nil] at h; exact triv h
    · have hne' : ms.isEmpty = false := by simpa using hne
      rw [split_eq pairs ms hne'] at h
      dsimp only at h
      have : ∃ p ∈ pairs, p' ∈ basePart ms p ++ markPart ms p := by
        rcases mem_append.mp h with h | h
        · obtain ⟨p, hp, hh⟩ := mem_flatMap.mp h; exact ⟨p, hp, mem_append_left _ hh⟩
        · obtain ⟨p, hp, hh⟩ := mem_flatMap.mp h; exact ⟨p, hp, mem_append_right _ hh⟩
      obtain ⟨p, hp, hin⟩ := this
      obtain ⟨a, _, _, d⟩ := split_one_sound ms p p' hin
      refine ⟨p, hp, a, d, ?_⟩
      intro g1 g2 hm
      -- a produced rule that matches is counted, so the source rule matches
      have c := split_one_count ms p g1 g2
      have hpos : 0 < (basePart ms p ++ markPart ms p).countP (matchB g1 g2) :=
        countP_pos_iff.mpr ⟨p', hin, by simpa [matchB] using hm⟩
      rw [countP_append, c.1, c.2] at hpos
      cases hd : decide (Matches p g1 g2) with
      | true => simpa using hd
      | false => simp [hd] at hpos

/-- non-vacuity: a class pair with a mark on the second side, and its glyph-level exception, for two base glyphs -/
example : (splitBaseAndMarkPairs [⟨.cls ["A", "B"], .cls ["V", "acutecomb"], -10⟩, ⟨.glyph "A", .glyph "V", 5⟩] (some ["acutecomb"])).1.countP
      (matchB "A" "V") = [(⟨.cls ["A", "B"], .cls ["V", "acutecomb"], -10⟩ : KPair), ⟨.glyph "A", .glyph "V", 5⟩].countP (matchB "A" "V") :=
  (split_where _ ["acutecomb"] rfl "A" "V").1.trans (by simp)

end Ufo2ft.C05
