import Ufo2ftModel.Props.C05ApplyMap
import Ufo2ftModel.Props.C05Reg
/-! C05 end-to-end, layer B2: from the lookup dictionary to the emitted `Program` (lookup list, registrations) and to `applyKern`:
    if one lookup `L` of the program is active under the tag and every other lookup of the program leaves the pair alone,
    `applyKern` is what `L` does. -/
namespace Ufo2ft.C05
open Ufo2ft List

/-! ### the emitted lookup list -/

def lksOf (m : LookupMap) : List Lookup := (sortStr (m.map (·.1))).flatMap (fun s => ((alookup s m).getD []).map (·.2))

def dedupeByName (l : List Lookup) : List Lookup :=
  l.foldl (fun acc l => if acc.any (fun x => x.name == l.name) then acc else acc ++ [l]) []

theorem program_lookups (c : Ctx) (r : RegCtx) (gs : List String) (groups : List (String × List String))
    (kerning : List (String × String × Q)) (q : Q) (marks : Option (List String)) (im tk td : Bool) :
    (program c r gs groups kerning q marks im tk td).lookups =
      dedupeByName (lksOf (makeKerningLookups c (getKerningPairs gs (getKerningGroups gs groups) q kerning) marks im)) := rfl

theorem program_kern (c : Ctx) (r : RegCtx) (gs : List String) (groups : List (String × List String))
    (kerning : List (String × String × Q)) (q : Q) (marks : Option (List String)) (im tk td : Bool) :
    (program c r gs groups kerning q marks im tk td).kern =
      if tk then registerLookups c r true (makeKerningLookups c (getKerningPairs gs (getKerningGroups gs groups) q kerning) marks im)
      else [] := rfl

theorem program_dist (c : Ctx) (r : RegCtx) (gs : List String) (groups : List (String × List String))
    (kerning : List (String × String × Q)) (q : Q) (marks : Option (List String)) (im tk td : Bool) :
    (program c r gs groups kerning q marks im tk td).dist =
      if td then registerLookups c r false (makeKerningLookups c (getKerningPairs gs (getKerningGroups gs groups) q kerning) marks im)
      else [] := rfl

theorem dedupe_fold : ∀ (l acc : List Lookup), (acc.map (·.name)).Nodup →
    ((l.foldl (fun acc l => if acc.any (fun x => x.name == l.name) then acc else acc ++ [l]) acc).map (·.name)).Nodup ∧
    (∀ x ∈ l.foldl (fun acc l => if acc.any (fun x => x.name == l.name) then acc else acc ++ [l]) acc, x ∈ acc ∨ x ∈ l) ∧
    (∀ x, (x ∈ acc ∨ x ∈ l) → ∃ y ∈ l.foldl (fun acc l => if acc.any (fun x => x.name == l.name) then acc else acc ++ [l]) acc,
      y.name = x.name) := by
  intro l
  induction l with
  | nil =>
    intro acc h
    refine ⟨h, fun x hx => Or.inl hx, ?_⟩
    rintro x (hx | hx)
    · exact ⟨x, hx, rfl⟩
    · cases hx
  | cons a l ih =>
    intro acc h
    rw [foldl_cons]
    by_cases hany : acc.any (fun x => x.name == a.name) = true
    · rw [if_pos hany]
      obtain ⟨i1, i2, i3⟩ := ih acc h
      refine ⟨i1, ?_, ?_⟩
      · intro x hx
        rcases i2 x hx with h1 | h1
        · exact Or.inl h1
        · exact Or.inr (mem_cons_of_mem _ h1)
      · rintro x (hx | hx)
        · exact i3 x (Or.inl hx)
        · rcases mem_cons.mp hx with rfl | hx
          · simp only [any_eq_true, beq_iff_eq] at hany
            obtain ⟨y, hy, hyn⟩ := hany
            obtain ⟨z, hz, hzn⟩ := i3 y (Or.inl hy)
            exact ⟨z, hz, hzn.trans hyn⟩
          · exact i3 x (Or.inr hx)
    · rw [if_neg hany]
      have hnew : ((acc ++ [a]).map (·.name)).Nodup := by
        rw [map_append, nodup_append]
        refine ⟨h, by simp, ?_⟩
        intro n hn b hb
        simp only [map_cons, map_nil, mem_singleton] at hb
        subst hb
        intro e; subst e
        apply hany
        obtain ⟨y, hy, hyn⟩ := mem_map.mp hn
        simp only [any_eq_true, beq_iff_eq]
        exact ⟨y, hy, hyn⟩
      obtain ⟨i1, i2, i3⟩ := ih (acc ++ [a]) hnew
      refine ⟨i1, ?_, ?_⟩
      · intro x hx
        rcases i2 x hx with h1 | h1
        · rcases mem_append.mp h1 with h2 | h2
          · exact Or.inl h2
          · simp only [mem_singleton] at h2; subst h2; exact Or.inr mem_cons_self
        · exact Or.inr (mem_cons_of_mem _ h1)
      · rintro x (hx | hx)
        · exact i3 x (Or.inl (mem_append_left _ hx))
        · rcases mem_cons.mp hx with rfl | hx
          · exact i3 x (Or.inl (mem_append_right _ (by simp)))
          · exact i3 x (Or.inr hx)

theorem dedupe_spec (l : List Lookup) :
    ((dedupeByName l).map (·.name)).Nodup ∧ (∀ x ∈ dedupeByName l, x ∈ l) ∧ (∀ x ∈ l, ∃ y ∈ dedupeByName l, y.name = x.name) := by
  obtain ⟨a, b, c⟩ := dedupe_fold l [] (by simp)
  refine ⟨a, ?_, fun x hx => c x (Or.inr hx)⟩
  intro x hx
  rcases b x hx with h | h
  · cases h
  · exact h

/-! ### reading the dictionary -/

theorem has_alookup (BL : List Lookup) (m : LookupMap) (h : MapInv BL m) (s : String) (x : Lookup) (hx : Has m s x) :
    ∃ ls, alookup s m = some ls ∧ (x.name, x) ∈ ls ∧ s ∈ m.map (·.1) := by
  obtain ⟨e, he, hk, hin⟩ := hx
  refine ⟨e.2, ?_, hin, mem_map.mpr ⟨e, he, hk⟩⟩
  apply alookup_of_mem s e.2 m h.keys
  rw [← hk]; exact he

theorem has_names (BL : List Lookup) (m : LookupMap) (h : MapInv BL m) (s : String) (x : Lookup) (hx : Has m s x) :
    x.name ∈ namesOf m s := by
  obtain ⟨ls, hl, hin, _⟩ := has_alookup BL m h s x hx
  unfold namesOf
  rw [hl]
  exact mem_map.mpr ⟨_, hin, rfl⟩

theorem has_lks (BL : List Lookup) (m : LookupMap) (h : MapInv BL m) (s : String) (x : Lookup) (hx : Has m s x) : x ∈ lksOf m := by
  obtain ⟨ls, hl, hin, hs⟩ := has_alookup BL m h s x hx
  unfold lksOf
  refine mem_flatMap.mpr ⟨s, (sortStr_perm _).mem_iff.mpr hs, ?_⟩
  rw [hl]
  exact mem_map.mpr ⟨_, hin, rfl⟩

theorem lks_in (BL : List Lookup) (m : LookupMap) (h : MapInv BL m) (x : Lookup) (hx : x ∈ lksOf m) : x ∈ BL := by
  unfold lksOf at hx
  obtain ⟨s, _, hx⟩ := mem_flatMap.mp hx
  cases hl : alookup s m with
  | none => rw [hl] at hx; simp at hx
  | some ls =>
    rw [hl] at hx
    obtain ⟨y, hy, rfl⟩ := mem_map.mp hx
    exact (h.vals (s, ls) (mem_of_alookup s ls m hl) y hy).2

/-- Layer B2 (lookup list): the emitted lookups are bucket lookups with distinct names, and a lookup filed under some script
    is emitted -/
theorem emitted_spec (BL : List Lookup) (hinj : NameInj BL) (m : LookupMap) (h : MapInv BL m) :
    ((dedupeByName (lksOf m)).map (·.name)).Nodup ∧ (∀ x ∈ dedupeByName (lksOf m), x ∈ BL) ∧
    (∀ s x, Has m s x → x ∈ dedupeByName (lksOf m)) := by
  obtain ⟨a, b, c⟩ := dedupe_spec (lksOf m)
  refine ⟨a, fun x hx => lks_in BL m h x (b x hx), ?_⟩
  intro s x hx
  obtain ⟨y, hy, hyn⟩ := c x (has_lks BL m h s x hx)
  have : y = x := hinj y (lks_in BL m h y (b y hy)) x (has_in BL m h s x hx) hyn
  rw [← this]; exact hy

/-! ### registrations -/

/-- every registration written, for either feature, references the Common lookups -/
theorem regs_have_common (c : Ctx) (r : RegCtx) (isKern : Bool) (m : LookupMap) (n : String) (hn : n ∈ namesOf m COMMON) :
    ∀ reg ∈ registerLookups c r isKern m, n ∈ reg.lookups := by
  intro reg hreg
  have hs : ∀ reg ∈ (refScripts r isKern m).flatMap (scriptRegs r m), n ∈ reg.lookups := by
    intro reg h
    obtain ⟨s, _, h⟩ := mem_flatMap.mp h
    obtain ⟨tag, _, rfl⟩ := mem_map.mp h
    dsimp only
    rw [mem_dedupNames]
    apply mem_append_left
    simp only [DFLT_SCRIPTS, flatMap_cons, flatMap_nil, append_nil, mem_append]
    exact Or.inl hn
  cases isKern with
  | false => rw [registerLookups_dist] at hreg; exact hs reg hreg
  | true =>
    rw [registerLookups_kern] at hreg
    rcases mem_append.mp hreg with h | h
    · split at h
      · cases h
      · simp only [mem_singleton] at h
        subst h
        dsimp only
        unfold dfltNames
        rw [mem_dedupNames]
        exact mem_append_left _ ((mem_dedupNames _ _).mpr hn)
    · exact hs reg h

/-- when `kern` is written and there is a Common lookup, `DFLT` is registered with it -/
theorem dflt_reg (c : Ctx) (r : RegCtx) (m : LookupMap) (n : String) (hn : n ∈ namesOf m COMMON) :
    ∃ reg ∈ registerLookups c r true m, reg.script = "DFLT" ∧ n ∈ reg.lookups := by
  have hin : n ∈ dfltNames c r m := ((C05_dflt c r m).2.1 n).mpr (Or.inl hn)
  have hne : dfltNames c r m ≠ [] := by intro e; rw [e] at hin; cases hin
  have hh := (C05_dflt c r m).2.2 hne
  refine ⟨⟨"DFLT", langsOf r "DFLT", dfltNames c r m⟩, ?_, rfl, hin⟩
  cases hl : registerLookups c r true m with
  | nil => rw [hl] at hh; cases hh
  | cons a t => rw [hl] at hh; simp only [head?_cons, Option.some.injEq] at hh; rw [hh]; exact mem_cons_self

/-! ### activeLookups -/

def regsBuilt (p : Program) : List Reg := (p.kern ++ p.dist).filter (fun r => r.lookups.any p.built)

theorem activeLookups_eq (p : Program) (tag : String) :
    activeLookups p tag =
      (if ((regsBuilt p).filter (fun r => r.script == tag)).isEmpty then (regsBuilt p).filter (fun r => r.script == "DFLT")
       else (regsBuilt p).filter (fun r => r.script == tag)).flatMap (·.lookups) := rfl

/-- a registration under the tag that references the built lookup `n` makes `n` active -/
theorem active_own (p : Program) (tag n : String) (reg : Reg) (hreg : reg ∈ p.kern ++ p.dist) (hs : reg.script = tag)
    (hn : n ∈ reg.lookups) (hb : p.built n = true) : n ∈ activeLookups p tag := by
  rw [activeLookups_eq]
  have hin : reg ∈ (regsBuilt p).filter (fun r => r.script == tag) := by
    refine mem_filter.mpr ⟨mem_filter.mpr ⟨hreg, ?_⟩, by simp [hs]⟩
    simp only [any_eq_true]
    exact ⟨n, hn, hb⟩
  have hne : ((regsBuilt p).filter (fun r => r.script == tag)).isEmpty = false := by
    cases hh : (regsBuilt p).filter (fun r => r.script == tag) with
    | nil => rw [hh] at hin; cases hin
    | cons _ _ => rfl
  rw [hne]
  exact mem_flatMap.mpr ⟨reg, hin, hn⟩

/-- a built lookup that EVERY registration references, with `DFLT` registered, is active under any tag -/
theorem active_common (p : Program) (tag n : String) (hall : ∀ reg ∈ p.kern ++ p.dist, n ∈ reg.lookups)
    (hb : p.built n = true) (hd : ∃ reg ∈ p.kern ++ p.dist, reg.script = "DFLT") : n ∈ activeLookups p tag := by
  rw [activeLookups_eq]
  cases hh : (regsBuilt p).filter (fun r => r.script == tag) with
  | cons a t =>
    simp only [isEmpty_cons, Bool.false_eq_true, if_false]
    have ha : a ∈ (regsBuilt p).filter (fun r => r.script == tag) := by rw [hh]; exact mem_cons_self
    have ha' : a ∈ p.kern ++ p.dist := (mem_filter.mp (mem_filter.mp ha).1).1
    exact mem_flatMap.mpr ⟨a, mem_cons_self, hall a ha'⟩
  | nil =>
    simp only [isEmpty_nil, if_true]
    obtain ⟨reg, hreg, hs⟩ := hd
    refine mem_flatMap.mpr ⟨reg, mem_filter.mpr ⟨mem_filter.mpr ⟨hreg, ?_⟩, by simp [hs]⟩, hall reg hreg⟩
    simp only [any_eq_true]
    exact ⟨n, hall reg hreg, hb⟩

/-! ### summing the lookups -/

theorem addQ2_zero_left (x : Q × Q) : addQ2 (0, 0) x = x := by
  simp [addQ2, Rat.zero_add]

theorem addQ2_zero_right (x : Q × Q) : addQ2 x (0, 0) = x := by
  simp [addQ2, Rat.add_zero]

theorem foldl_zeros : ∀ (l : List (Q × Q)) (a : Q × Q), (∀ x ∈ l, x = (0, 0)) → l.foldl addQ2 a = a := by
  intro l
  induction l with
  | nil => intro a _; rfl
  | cons x l ih =>
    intro a h
    rw [foldl_cons, h x mem_cons_self, addQ2_zero_right]
    exact ih a (fun y hy => h y (mem_cons_of_mem _ hy))

/-- Layer B2 (sum): one lookup among the named ones, all other emitted lookups leave the pair alone -/
theorem applyNames_single (p : Program) (names : List String) (g1 g2 : String) (L : Lookup) (hL : L ∈ p.lookups)
    (hnodup : (p.lookups.map (·.name)).Nodup) (hact : L.name ∈ names)
    (hzero : ∀ l ∈ p.lookups, l ≠ L → l.apply g1 g2 = (0, 0)) : applyNames p names g1 g2 = L.apply g1 g2 := by
  unfold applyNames
  obtain ⟨as, bs, hsplit⟩ := append_of_mem hL
  have hnd : p.lookups.Nodup := by
    have := hnodup
    rw [Nodup, pairwise_map] at this
    exact this.imp (fun h e => h (by rw [e]))
  rw [hsplit] at hnd hzero ⊢
  have hLas : L ∉ as := by
    intro h
    have := (nodup_append.mp hnd).2.2 L h L mem_cons_self
    exact this rfl
  have hLbs : L ∉ bs := by
    have := (nodup_append.mp hnd).2.1
    exact (nodup_cons.mp this).1
  have hLact : names.contains L.name = true := by simpa using hact
  rw [filter_append, filter_cons, hLact, if_pos rfl, map_append, map_cons, foldl_append, foldl_cons]
  rw [foldl_zeros _ (0, 0), addQ2_zero_left, foldl_zeros]
  · intro x hx
    obtain ⟨l, hl, rfl⟩ := mem_map.mp hx
    have hl' := (mem_filter.mp hl).1
    exact hzero l (mem_append_right _ (mem_cons_of_mem _ hl')) (fun e => hLbs (e ▸ hl'))
  · intro x hx
    obtain ⟨l, hl, rfl⟩ := mem_map.mp hx
    have hl' := (mem_filter.mp hl).1
    exact hzero l (mem_append_left _ hl') (fun e => hLas (e ▸ hl'))

/-- Layer B2 (nothing applies): every emitted lookup leaves the pair alone -/
theorem applyNames_none (p : Program) (names : List String) (g1 g2 : String) (hzero : ∀ l ∈ p.lookups, l.apply g1 g2 = (0, 0)) :
    applyNames p names g1 g2 = (0, 0) := by
  unfold applyNames
  apply foldl_zeros
  intro x hx
  obtain ⟨l, hl, rfl⟩ := mem_map.mp hx
  exact hzero l (mem_filter.mp hl).1

/-! ### languages -/

/-- every registration lists the languages declared for its tag, default first -/
theorem reg_languages (c : Ctx) (r : RegCtx) (isKern : Bool) (m : LookupMap) :
    ∀ reg ∈ registerLookups c r isKern m, reg.languages = langsOf r reg.script := by
  intro reg hreg
  have hs : ∀ reg ∈ (refScripts r isKern m).flatMap (scriptRegs r m), reg.languages = langsOf r reg.script := by
    intro reg h
    obtain ⟨s, _, h⟩ := mem_flatMap.mp h
    obtain ⟨tag, _, rfl⟩ := mem_map.mp h
    rfl
  cases isKern with
  | false => rw [registerLookups_dist] at hreg; exact hs reg hreg
  | true =>
    rw [registerLookups_kern] at hreg
    rcases mem_append.mp hreg with h | h
    · split at h
      · cases h
      · simp only [mem_singleton] at h; subst h; rfl
    · exact hs reg h

theorem dflt_in_langsOf (r : RegCtx) (t : String) : "dflt" ∈ langsOf r t := by
  unfold langsOf; exact mem_cons_self

/-- a built registration under the tag that lists the language and references `n` makes `n` active for (tag, language) -/
theorem activeLang_own (d : Declared) (p : Program) (tag lang n : String) (reg : Reg) (hreg : reg ∈ p.kern ++ p.dist)
    (hs : reg.script = tag) (hl : lang ∈ reg.languages) (hn : n ∈ reg.lookups) (hb : p.built n = true) :
    n ∈ activeLookupsLang d p tag lang := by
  have hbuilt : reg ∈ p.regsBuilt := by
    refine mem_filter.mpr ⟨hreg, ?_⟩
    simp only [any_eq_true]
    exact ⟨n, hn, hb⟩
  have hown : reg ∈ p.regsBuilt.filter (fun r => r.script == tag) := mem_filter.mpr ⟨hbuilt, by simp [hs]⟩
  have hwith : reg ∈ (p.regsBuilt.filter (fun r => r.script == tag)).filter (fun r => r.languages.contains lang) :=
    mem_filter.mpr ⟨hown, by simpa using hl⟩
  unfold activeLookupsLang
  have h1 : (p.regsBuilt.filter (fun r => r.script == tag)).isEmpty = false := by
    cases hh : p.regsBuilt.filter (fun r => r.script == tag) with
    | nil => rw [hh] at hown; cases hown
    | cons _ _ => rfl
  rw [h1]
  simp only [Bool.false_eq_true, if_false]
  unfold langLookups
  have h2 : ((p.regsBuilt.filter (fun r => r.script == tag)).filter (fun r => r.languages.contains lang)).isEmpty = false := by
    cases hh : (p.regsBuilt.filter (fun r => r.script == tag)).filter (fun r => r.languages.contains lang) with
    | nil => rw [hh] at hwith; cases hwith
    | cons _ _ => rfl
  simp only [h2, Bool.not_false, if_true]
  exact mem_flatMap.mpr ⟨reg, hwith, hn⟩

/-- a built lookup that EVERY registration references, when every registration under `tag` lists the language, `DFLT` is
    registered with the default language, and other features declare neither the tag nor a `DFLT` LangSys of the language
    that the `DFLT` registrations do not list: active for (tag, language) -/
theorem activeLang_common (d : Declared) (p : Program) (tag lang n : String) (hall : ∀ reg ∈ p.kern ++ p.dist, n ∈ reg.lookups)
    (hb : p.built n = true) (hd : ∃ reg ∈ p.kern ++ p.dist, reg.script = "DFLT" ∧ "dflt" ∈ reg.languages)
    (hlangs : ∀ reg ∈ p.kern ++ p.dist, reg.script = tag → lang ∈ reg.languages)
    (hdecl : d.tags.contains tag = false ∧
      (d.langSys.contains ("DFLT", lang) = false ∨ ∀ reg ∈ p.kern ++ p.dist, reg.script = "DFLT" → lang ∈ reg.languages)) :
    n ∈ activeLookupsLang d p tag lang := by
  have builtOf : ∀ reg ∈ p.kern ++ p.dist, reg ∈ p.regsBuilt := by
    intro reg hreg
    refine mem_filter.mpr ⟨hreg, ?_⟩
    simp only [any_eq_true]
    exact ⟨n, hall reg hreg, hb⟩
  unfold activeLookupsLang
  cases hh : p.regsBuilt.filter (fun r => r.script == tag) with
  | cons a t =>
    simp only [isEmpty_cons, Bool.false_eq_true, if_false]
    have ha : a ∈ p.regsBuilt.filter (fun r => r.script == tag) := by rw [hh]; exact mem_cons_self
    have ha' : a ∈ p.kern ++ p.dist := (mem_filter.mp (mem_filter.mp ha).1).1
    have has : a.script = tag := by simpa using (mem_filter.mp ha).2
    exact activeLang_own d p tag lang n a ha' has (hlangs a ha' has) (hall a ha') hb |> fun h => by
      unfold activeLookupsLang at h
      rw [hh] at h
      simpa using h
  | nil =>
    simp only [isEmpty_nil, if_true, hdecl.1, Bool.false_eq_true, if_false]
    obtain ⟨reg, hreg, hs, hdf⟩ := hd
    have hown : reg ∈ p.regsBuilt.filter (fun r => r.script == "DFLT") := mem_filter.mpr ⟨builtOf reg hreg, by simp [hs]⟩
    unfold langLookups
    cases hw : (p.regsBuilt.filter (fun r => r.script == "DFLT")).filter (fun r => r.languages.contains lang) with
    | cons b t =>
      dsimp only
      rw [hw]
      simp only [isEmpty_cons, Bool.not_false, if_true]
      have hbm : b ∈ (p.regsBuilt.filter (fun r => r.script == "DFLT")).filter (fun r => r.languages.contains lang) := by
        rw [hw]; exact mem_cons_self
      have hb' : b ∈ p.kern ++ p.dist := (mem_filter.mp (mem_filter.mp (mem_filter.mp hbm).1).1).1
      exact mem_flatMap.mpr ⟨b, mem_cons_self, hall b hb'⟩
    | nil =>
      dsimp only
      rw [hw]
      simp only [isEmpty_nil, Bool.not_true, Bool.false_eq_true, if_false]
      have hnot : d.langSys.contains ("DFLT", lang) = false := by
        rcases hdecl.2 with h | h
        · exact h
        · exfalso
          have : reg ∈ (p.regsBuilt.filter (fun r => r.script == "DFLT")).filter (fun r => r.languages.contains lang) :=
            mem_filter.mpr ⟨hown, by simpa using h reg hreg hs⟩
          rw [hw] at this; cases this
      rw [hnot]
      simp only [Bool.false_eq_true, if_false]
      exact mem_flatMap.mpr ⟨reg, mem_filter.mpr ⟨hown, contains_iff_mem.mpr hdf⟩, hall reg hreg⟩

end Ufo2ft.C05
