import Ufo2ftModel.Props.C15
/-!
PropagateAnchorsFilter, the numbering discipline (`Spec.C15.numberingWrong`) for ALL inputs:
`_get_anchor_data` keeps ONE entry per base component that carries the anchor name (the FIRST anchor of that name of the
component's base: the `break`), so an added anchor is named exactly like an anchor of a component's base, or `name_N` with
`1 ≤ N ≤` (number of components whose base carries `name`) and at least two such components.
-/
namespace Ufo2ft
open List

variable {bnd : Comp → Option (Q × Q)}

/-- number of (component, base) pairs whose base carries an anchor called `name` -/
def cnt (comps : List (Comp × Glyph)) (name : String) : Nat :=
  comps.countP (fun kb => kb.2.anchors.any (fun x => x.name == name))

/-- `anchors` of `_get_anchor_data` has exactly one entry per carrying component (the `break`) -/
theorem found_length (comps : List (Comp × Glyph)) (name : String) :
    (comps.filterMap (fun (k, b) => (b.anchors.find? (fun a => a.name == name)).map (fun a => (a, k)))).length
      = cnt comps name := by
  unfold cnt
  induction comps with
  | nil => rfl
  | cons kb comps ih =>
    obtain ⟨k, b⟩ := kb
    rw [filterMap_cons, countP_cons]
    dsimp only
    cases hf : b.anchors.find? (fun a => a.name == name) with
    | none =>
      have hany : b.anchors.any (fun x => x.name == name) = false := by
        rw [List.any_eq_false]
        intro x hx
        exact (find?_eq_none.mp hf) x hx
      simp only [Option.map_none, hany, ih]
      simp
    | some a =>
      have hany : b.anchors.any (fun x => x.name == name) = true :=
        List.any_eq_true.mpr ⟨a, List.mem_of_find?_eq_some hf, by simpa using List.find?_some hf⟩
      simp only [Option.map_some, hany, length_cons, ih]
      simp

/-- the shape of a key of `to_add` relative to the base components `comps` -/
def KeyN (comps : List (Comp × Glyph)) (key : String) : Prop :=
  ∃ an, (∃ kb ∈ comps, ∃ a ∈ kb.2.anchors, a.name = an) ∧
    (key = an ∨ ∃ i : Nat, key = s!"{an}_{i + 1}" ∧ i + 1 ≤ cnt comps an ∧ 2 ≤ cnt comps an)

theorem getAnchorData_keyN (d : AnchorData) (comps : List (Comp × Glyph)) (name : String)
    (hd : ∀ e ∈ d, KeyN comps e.1) : ∀ e ∈ getAnchorData d comps name, KeyN comps e.1 := by
  unfold getAnchorData
  have hf := mem_found comps name
  have hl := found_length comps name
  generalize List.filterMap _ comps = found at hf hl
  dsimp only
  match found, hf, hl with
  | [], _, _ => exact hd
  | [(a, k)], hf, _ =>
    obtain ⟨b, hkb, ha, hn⟩ := hf (a, k) mem_cons_self
    exact adSet_forall (fun e => KeyN comps e.1) d _ _ hd ⟨name, ⟨(k, b), hkb, a, ha, hn⟩, Or.inl hn⟩
  | x :: y :: rest, hf, hl =>
    dsimp only
    apply foldl_adSet_forall (fun e => KeyN comps e.1) (fun (x : (Anchor × Comp) × Nat) => s!"{x.1.1.name}_{x.2 + 1}")
      (fun x => x.1.2.t.apply (x.1.1.x, x.1.1.y)) _ d hd
    intro z hz
    obtain ⟨⟨a, k⟩, i⟩ := z
    have hm := List.mem_zipIdx hz
    have hmem : (a, k) ∈ x :: y :: rest := hm.2.2 ▸ List.getElem_mem _
    obtain ⟨b, hkb, ha, hn⟩ := hf (a, k) hmem
    have hi : i < (x :: y :: rest).length := by have := hm.2.1; omega
    refine ⟨name, ⟨(k, b), hkb, a, ha, hn⟩, Or.inr ⟨i, by rw [hn], ?_, ?_⟩⟩
    · rw [← hl]; exact hi
    · rw [← hl]; simp only [length_cons]; omega

/-- every key of `to_add` is the name of an anchor of a base component's base, or a numbered name within the number of
    carrying base components -/
theorem toAddOf_keyN (g : Glyph) (sp : PSplit) : ∀ e ∈ toAddOf g sp, KeyN sp.baseComps e.1 := by
  unfold toAddOf
  have h1 : ∀ (l : List String) (d : AnchorData), (∀ e ∈ d, KeyN sp.baseComps e.1) →
      ∀ e ∈ namesFold g sp.baseComps l d, KeyN sp.baseComps e.1 := by
    intro l
    induction l with
    | nil => intro d hd; exact hd
    | cons an l ih =>
      intro d hd
      unfold namesFold
      rw [foldl_cons]
      by_cases hs : (g.anchors.any fun a => a.name.startsWith an) = true
      · rw [if_pos hs]; exact ih d hd
      · rw [if_neg hs]; exact ih _ (getAnchorData_keyN d sp.baseComps an hd)
  have h2 : ∀ (ms : List (Comp × Glyph)) (d : AnchorData), (∀ e ∈ d, KeyN sp.baseComps e.1) →
      ∀ e ∈ ms.foldl (fun d (k, b) => adjustAnchors d k b) d, KeyN sp.baseComps e.1 := by
    intro ms
    induction ms with
    | nil => intro d hd; exact hd
    | cons m ms ih =>
      intro d hd
      obtain ⟨k, b⟩ := m
      rw [foldl_cons]
      exact ih _ (adjustAnchors_keys (KeyN sp.baseComps) k b d hd)
  apply h2
  apply h1
  intro e he; cases he

/-- the (component, base record) pairs of the components whose base exists -/
def pairsOf (gs : GlyphSet) (ks : List Comp) : List (Comp × Glyph) :=
  ks.filterMap (fun k => (gs.get? k.base).map (fun b => (k, b)))

theorem pairsOf_bases (gs : GlyphSet) : ∀ (ks : List Comp),
    (pairsOf gs ks).map (·.2) = ks.filterMap (fun k => gs.get? k.base) := by
  intro ks
  induction ks with
  | nil => rfl
  | cons k ks ih =>
    unfold pairsOf at ih ⊢
    rw [filterMap_cons, filterMap_cons]
    cases hb : gs.get? k.base with
    | none => simpa using ih
    | some b => simpa using ih

/-- the base components found by the loop are a sublist (same order) of the existing components -/
theorem splitComps_sublist (gs : GlyphSet) : ∀ (ks : List Comp) (sp : PSplit),
    ∃ L, (splitComps gs ks sp).baseComps = sp.baseComps ++ L ∧ L <+ pairsOf gs ks := by
  intro ks
  induction ks with
  | nil => intro sp; exact ⟨[], by simp [splitComps], Sublist.refl _⟩
  | cons k ks ih =>
    intro sp
    unfold splitComps pairsOf
    rw [filterMap_cons]
    cases hb : gs.get? k.base with
    | none =>
      dsimp only [Option.map_none]
      exact ih sp
    | some b =>
      dsimp only [Option.map_some]
      obtain ⟨L, hL, hsub⟩ := ih (splitStep sp k b)
      unfold splitStep at hL
      by_cases hm : (b.anchors.any fun a => a.name.startsWith "_") = true
      · rw [if_pos hm] at hL
        unfold splitStep
        rw [if_pos hm]
        exact ⟨L, hL, Sublist.cons _ hsub⟩
      · rw [if_neg hm] at hL
        unfold splitStep
        rw [if_neg hm]
        refine ⟨(k, b) :: L, ?_, Sublist.cons_cons _ hsub⟩
        rw [hL]; simp

theorem cnt_eq_carriers (comps : List (Comp × Glyph)) (name : String) :
    cnt comps name = C15.carriers (comps.map (·.2)) name := by
  unfold cnt C15.carriers
  rw [countP_map]
  rfl

/-- **numbering at run level**: after the filter every glyph is its original with anchors appended, and every appended
    anchor is named exactly like an anchor `ba` of the base (in the FINAL glyph set) of one of the glyph's components, or
    `ba_N` where at least two components' final bases carry an anchor called `ba` and `N` is at most their number. -/
theorem propagate_numbered (marks : List String) (incl : String → Bool) (gs : GlyphSet) (rank : String → Nat)
    (st : FState) (hr : Ranked gs rank) (hn : Named gs) (h : runFilter (propagateStep bnd marks) incl gs = .ok st)
    (n : String) (g g' : Glyph) (hg : gs.get? n = some g) (hg' : st.gs.get? n = some g') :
    ∃ added, g' = { g with anchors := g.anchors ++ added } ∧
      ∀ a ∈ added, ∃ k ∈ g.comps, ∃ b, st.gs.get? k.base = some b ∧ ∃ ba ∈ b.anchors,
        (a.name = ba.name ∨ ∃ i : Nat, a.name = s!"{ba.name}_{i + 1}" ∧
          i + 1 ≤ C15.carriers (g.comps.filterMap (fun k => st.gs.get? k.base)) ba.name ∧
          2 ≤ C15.carriers (g.comps.filterMap (fun k => st.gs.get? k.base)) ba.name) := by
  obtain ⟨hi, _, _⟩ := runFilter_propagate_inv marks incl gs rank st hr hn h
  obtain ⟨g0, hg0, hcur⟩ := hi.cur n g' hg'
  rw [hg] at hg0
  have := Option.some.inj hg0; subst this
  have hnil : ∃ added, g = { g with anchors := g.anchors ++ added } ∧
      ∀ a ∈ added, ∃ k ∈ g.comps, ∃ b, st.gs.get? k.base = some b ∧ ∃ ba ∈ b.anchors,
        (a.name = ba.name ∨ ∃ i : Nat, a.name = s!"{ba.name}_{i + 1}" ∧
          i + 1 ≤ C15.carriers (g.comps.filterMap (fun k => st.gs.get? k.base)) ba.name ∧
          2 ≤ C15.carriers (g.comps.filterMap (fun k => st.gs.get? k.base)) ba.name) :=
    ⟨[], by simp, fun a ha => by cases ha⟩
  rcases hcur with e | ⟨_, e⟩
  · rw [e]; exact hnil
  · by_cases hs : skipCond marks n g = true
    · rw [e]; unfold finalGlyph; rw [if_pos hs]; exact hnil
    · have hs' : skipCond marks n g = false := by simpa using hs
      rw [e, finalGlyph_eq bnd marks st.gs n g hs']
      refine ⟨_, rfl, ?_⟩
      intro a ha
      obtain ⟨en, hen, rfl⟩ := mem_newAnchors.mp ha
      obtain ⟨an, ⟨kb, hkb, a0, ha0, hn0⟩, hor⟩ := toAddOf_keyN g _ en hen
      have hkb' := promoteD_mem (bnd := bnd) n (splitComps st.gs g.comps ⟨[], [], []⟩) kb (mem_append_left _ hkb)
      rcases splitComps_mem st.gs g.comps _ kb hkb' with h' | ⟨h1, h2⟩
      · simp at h'
      · refine ⟨kb.1, h1, kb.2, h2, a0, ha0, ?_⟩
        rcases hor with hex | ⟨i, hkey, hle, h2le⟩
        · left; rw [hn0]; exact hex
        · right
          -- the count over the base components is at most the count over all existing components
          have hbound : cnt (promoteD bnd n (splitComps st.gs g.comps ⟨[], [], []⟩)).baseComps an ≤
              C15.carriers (g.comps.filterMap (fun k => st.gs.get? k.base)) an := by
            rcases promoteD_cases (bnd := bnd) n (splitComps st.gs g.comps ⟨[], [], []⟩) with e1 | ⟨j, k1, b1, _, _, e1⟩
            · rw [e1]
              obtain ⟨L, hL, hsub⟩ := splitComps_sublist st.gs g.comps ⟨[], [], []⟩
              rw [hL]
              simp only [nil_append]
              rw [← pairsOf_bases, ← cnt_eq_carriers]
              exact hsub.countP_le
            · exfalso
              rw [e1] at h2le
              have : cnt [(k1, b1)] an ≤ 1 := by
                unfold cnt; exact Nat.le_trans countP_le_length (by simp)
              dsimp only at h2le
              omega
          exact ⟨i, by rw [hn0]; exact hkey, by rw [hn0]; omega, by rw [hn0]; omega⟩

end Ufo2ft

namespace Ufo2ft.C15
open Ufo2ft List

variable {bnd : Comp → Option (Q × Q)}

/-- **C15 (anchor propagation, numbering)**: for every acyclic glyph set with distinct keys equal to the glyph names, every
    mark list, include predicate and bounds function, `numberingWrong` finds nothing in the filter's output: every added
    anchor bears exactly the name of an anchor of one of the glyph's component bases (final glyph set), or is the numbered
    `name_N` with `2 ≤` the number of components whose base carries `name` and `1 ≤ N ≤` that number — one entry per carrying
    component, however many anchors of that name the base has. -/
theorem C15_propagate_numbering (marks : List String) (incl : String → Bool) (gs : GlyphSet) (rank : String → Nat) (st : FState)
    (hr : Ranked gs rank) (hn : Named gs) (hnd : gs.names.Nodup)
    (h : runFilter (propagateStep bnd marks) incl gs = .ok st) : numberingWrong gs st.gs = [] := by
  obtain ⟨_, hnames, _⟩ := runFilter_propagate_inv marks incl gs rank st hr hn h
  unfold numberingWrong
  rw [List.map_eq_nil_iff, List.filter_eq_nil_iff]
  intro e he
  obtain ⟨n, g'⟩ := e
  have hn' : n ∈ gs.names := by rw [← hnames]; exact mem_map_of_mem (f := (·.1)) he
  obtain ⟨g, hg⟩ := mem_names_get gs n hn'
  have hg' : st.gs.get? n = some g' := get_of_mem_nodup st.gs (by rw [hnames]; exact hnd) n g' he
  obtain ⟨added, e, hadd⟩ := propagate_numbered marks incl gs rank st hr hn h n g g' hg hg'
  subst e
  simp only [hg, drop_left', Bool.not_eq_true', Bool.not_eq_false]
  rw [List.all_eq_true]
  intro a ha
  obtain ⟨k, hk, b, hb, ba, hba, hor⟩ := hadd a ha
  refine List.any_eq_true.mpr ⟨b, mem_filterMap.mpr ⟨k, hk, hb⟩, List.any_eq_true.mpr ⟨ba, hba, ?_⟩⟩
  rcases hor with hex | ⟨i, hkey, hle, h2le⟩
  · rw [hex]; simp
  · rw [Bool.or_eq_true]; right
    rw [Bool.and_eq_true]
    refine ⟨by simpa using h2le, List.any_eq_true.mpr ⟨i, List.mem_range.mpr (by omega), by rw [hkey]; simp⟩⟩

/-- **C15 (anchor propagation, everything incl. numbering)** -/
theorem C15_propagateN (marks : List String) (incl : String → Bool) (gs : GlyphSet) (rank : String → Nat)
    (st st2 : FState) (hr : Ranked gs rank) (hn : Named gs) (hnd : gs.names.Nodup)
    (h : runFilter (propagateStep bnd marks) incl gs = .ok st)
    (h2 : runFilter (propagateStep bnd marks) incl st.gs = .ok st2) :
    holdsPropagateN bnd marks incl gs st.gs st2.modified (st2.gs == st.gs) = true := by
  unfold holdsPropagateN
  rw [C15_propagateP marks incl gs rank st st2 hr hn hnd h h2, C15_propagate_numbering marks incl gs rank st hr hn hnd h]
  rfl

/-- the numbering clause is not vacuous and is falsifiable: a composite with ONE component of a base that has two anchors
    called `top` must get `top` (from the first), and the output `top_1`, `top_2` (one entry per matching anchor) is rejected -/
def nO : Glyph := ⟨"o", 350, 0, [], [], [⟨"top", 150, 500⟩, ⟨"bottom", 150, 0⟩, ⟨"top", 170, 520⟩]⟩
def nC : Glyph := ⟨"ocopy", 350, 0, [], [⟨"o", ⟨1, 0, 0, 1, 20, 0⟩⟩], []⟩
def gsN : GlyphSet := [("o", nO), ("ocopy", nC)]
def gsNbad : GlyphSet := [("o", nO), ("ocopy", { nC with anchors := [⟨"bottom", 170, 0⟩, ⟨"top_1", 170, 500⟩, ⟨"top_2", 190, 520⟩] })]
def gsNgood : GlyphSet := [("o", nO), ("ocopy", { nC with anchors := [⟨"bottom", 170, 0⟩, ⟨"top", 170, 500⟩] })]

example : numberingWrong gsN gsNbad = ["ocopy"] := by decide +kernel
example : numberingWrong gsN gsNgood = [] := by decide +kernel

end Ufo2ft.C15
