import Ufo2ftModel.Props.C09Inv
set_option linter.unusedSectionVars false
/-!
C09, pipeline level, part 2: which glyph NAMES each master's glyph set holds along the pipeline.  Only two things change
them: `ensureCompositeDefinedAtComponentLocations` appends the composite being filtered (where component references tie it
to the master's own glyphs), and the pruning at the end of `SkipExportGlyphsIFilter.__call__` removes the skipped names.
-/
namespace Ufo2ft.C09
open Ufo2ft List

def namesOf (ms : Masters) : List (List String) := ms.map GlyphSet.names

theorem nodup_getElem?_inj {α} : ∀ (l : List α) (i j : Nat) (a : α), l.Nodup → l[i]? = some a → l[j]? = some a → i = j := by
  intro l
  induction l with
  | nil => intro i j a _ h; simp at h
  | cons x l ih =>
    intro i j a hnd hi hj
    have hx := (List.nodup_cons.mp hnd).1
    cases i with
    | zero =>
      cases j with
      | zero => rfl
      | succ j =>
        simp only [List.getElem?_cons_zero, Option.some.injEq] at hi
        simp only [List.getElem?_cons_succ] at hj
        subst hi
        exact absurd (List.mem_of_getElem? hj) hx
    | succ i =>
      cases j with
      | zero =>
        simp only [List.getElem?_cons_zero, Option.some.injEq] at hj
        simp only [List.getElem?_cons_succ] at hi
        subst hj
        exact absurd (List.mem_of_getElem? hi) hx
      | succ j =>
        simp only [List.getElem?_cons_succ] at hi hj
        rw [ih i j a (List.nodup_cons.mp hnd).2 hi hj]

theorem names_set (m : GlyphSet) (n : String) (g : Glyph) : (m.set n g).names = m.names := by
  simp only [GlyphSet.names, GlyphSet.set, List.map_map]
  apply List.map_congr_left
  intro e _
  simp only [Function.comp]
  by_cases h : (e.1 == n) = true
  · rw [if_pos h]; exact (by simpa using h : e.1 = n).symm
  · rw [if_neg h]

theorem namesOf_getD (ms : Masters) (i : Nat) : (namesOf ms).getD i [] = (ms.getD i []).names := by
  simp only [namesOf, List.getD_eq_getElem?_getD, List.getElem?_map]
  cases ms[i]? <;> rfl

theorem namesOf_setAt : ∀ (ms : Masters) (i : Nat) (m' : GlyphSet), m'.names = (ms.getD i []).names →
    namesOf (setAt ms i m') = namesOf ms := by
  intro ms
  induction ms with
  | nil => intro i m' _; rfl
  | cons m ms ih =>
    intro i m' h
    cases i with
    | zero =>
      simp only [setAt, List.set_cons_zero, namesOf, List.map_cons]
      simp only [List.getD_cons_zero] at h
      rw [h]
    | succ i =>
      simp only [setAt, List.set_cons_succ, namesOf, List.map_cons]
      simp only [List.getD_cons_succ] at h
      have := ih i m' h
      simp only [setAt, namesOf] at this
      rw [this]

theorem get?_isSome_iff_names (m : GlyphSet) (n : String) : (m.get? n).isSome = true ↔ n ∈ m.names := by
  constructor
  · intro h
    cases hg : m.get? n with
    | none => rw [hg] at h; cases h
    | some g =>
      simp only [GlyphSet.names, List.mem_map]
      exact ⟨(n, g), get?_mem m n g hg, rfl⟩
  · intro h
    simp only [GlyphSet.names, List.mem_map] at h
    obtain ⟨e, he, rfl⟩ := h
    exact alookup_isSome_of_mem e.1 m e.2 he

theorem perMaster_names (inst : Option Inst) (n : String) (visit : GlyphSet → Glyph → List String)
    (f : GlyphSet → Glyph → Except GErr (Option Glyph × Bool)) :
    ∀ (idxs : List Nat) (s s' : St) (fl fl' : Bool), perMaster inst n visit f idxs s fl = .ok (s', fl') →
      namesOf s'.ms = namesOf s.ms := by
  intro idxs
  induction idxs with
  | nil =>
    intro s s' fl fl' h
    simp only [perMaster, Except.ok.injEq, Prod.mk.injEq] at h
    rw [← h.1]
  | cons i rest ih =>
    intro s s' fl fl' h
    unfold perMaster at h
    cases hg : (s.ms.getD i []).get? n with
    | none => rw [hg] at h; exact ih s s' fl fl' h
    | some g =>
      rw [hg] at h; dsimp only at h
      cases hfr : f (layerSet inst s i) g with
      | error e => rw [hfr] at h; cases h
      | ok r =>
        obtain ⟨og, flx⟩ := r
        rw [hfr] at h; dsimp only at h
        cases og with
        | none =>
          dsimp only at h
          rw [ih _ s' _ fl' h, touch_ms]
        | some g' =>
          dsimp only at h
          rw [ih _ s' _ fl' h]
          dsimp only
          rw [namesOf_setAt _ _ _ (names_set _ _ _), touch_ms]

/-! ### the names invariant -/

section names
variable (src : Masters) (R : String → String → Prop) (htrans : ∀ a b c, R a b → R b c → R a c)
variable (canAdd : Bool) (K : List String)

/-- a name a master may hold: one of its source layer's names, or (designspace builds) a name tied to one of those by
    component references; and not a pruned one -/
def NameOkAt (i : Nat) (n : String) : Prop :=
  (n ∈ (src.getD i []).names ∨ (canAdd = true ∧ ∃ b ∈ (src.getD i []).names, R n b)) ∧ n ∉ K

def NInv (L : List (List String)) : Prop :=
  L.length = src.length ∧ ∀ i, (∀ n ∈ L.getD i [], NameOkAt src R canAdd K i n) ∧
    (∀ n ∈ (src.getD i []).names, n ∉ K → n ∈ L.getD i [])

theorem glyphsNamed_mem (ms : Masters) (n : String) (g : Glyph) (h : g ∈ glyphsNamed ms n) : ∃ m ∈ ms, m.get? n = some g := by
  simp only [glyphsNamed, List.mem_filterMap] at h
  exact h

include htrans in
theorem tied_reach (I : Inst) (ms : Masters) (hs : MastersQ (RefOk R) ms) (hN : NInv src R canAdd K (namesOf ms))
    (hnd : I.locs.Nodup) (j : Nat) (l : Q) (hl : I.locs[j]? = some l) (incl : Option (List String)) (n : String)
    (ht : Tied I ms incl l n) : ∃ b ∈ (src.getD j []).names, R n b := by
  induction ht with
  | direct n g k hg hk _ hloc =>
    obtain ⟨m, hm, hget⟩ := glyphsNamed_mem ms n g hg
    have hR : R n k.base := (hs m hm _ (get?_mem m n g hget)).2 k hk
    simp only [sourceLocs, List.mem_filterMap] at hloc
    obtain ⟨⟨m2, l2⟩, hz, hx⟩ := hloc
    dsimp only at hx
    split at hx
    · rename_i hsome
      simp only [Option.some.injEq] at hx
      subst hx
      obtain ⟨idx, hidx⟩ := List.mem_iff_getElem?.mp hz
      have hz2 := List.getElem?_zip_eq_some.mp hidx
      have : idx = j := nodup_getElem?_inj I.locs idx j l2 hnd hz2.2 hl
      subst this
      have hmj : ms.getD idx [] = m2 := by
        simp only [List.getD_eq_getElem?_getD, hz2.1, Option.getD_some]
      have hin : k.base ∈ (namesOf ms).getD idx [] := by
        rw [namesOf_getD, hmj]; exact (get?_isSome_iff_names m2 k.base).mp hsome
      rcases ((hN.2 idx).1 k.base hin).1 with h1 | ⟨_, b, hb, hRb⟩
      · exact ⟨k.base, h1, hR⟩
      · exact ⟨b, hb, htrans _ _ _ hR hRb⟩
    · cases hx
  | through n g k hg hk _ _ ih =>
    obtain ⟨m, hm, hget⟩ := glyphsNamed_mem ms n g hg
    have hR : R n k.base := (hs m hm _ (get?_mem m n g hget)).2 k hk
    obtain ⟨b, hb, hRb⟩ := ih
    exact ⟨b, hb, htrans _ _ _ hR hRb⟩

include htrans in
theorem ensureComposite_N (inst : Option Inst) (s s' : St) (incl : Option (List String)) (n : String)
    (hcan : inst.isSome = true → canAdd = true) (hlocs : ∀ I, inst = some I → I.locs.Nodup)
    (hs : MastersQ (RefOk R) s.ms) (hN : NInv src R canAdd K (namesOf s.ms)) (hn : ∃ m ∈ s.ms, n ∈ m.names)
    (h : ensureComposite inst s incl n = .ok s') : NInv src R canAdd K (namesOf s'.ms) := by
  cases inst with
  | none => simp only [ensureComposite, Except.ok.injEq] at h; rw [← h]; exact hN
  | some I =>
    obtain ⟨hl, hall⟩ := C09_sparse_partial I s s' incl n h
    have hnK : n ∉ K := by
      obtain ⟨m, hm, hnm⟩ := hn
      obtain ⟨idx, hidx⟩ := List.mem_iff_getElem?.mp hm
      have : n ∈ (namesOf s.ms).getD idx [] := by
        rw [namesOf_getD]; simp only [List.getD_eq_getElem?_getD, hidx, Option.getD_some]; exact hnm
      exact ((hN.2 idx).1 n this).2
    refine ⟨by have h1 := hN.1; simp only [namesOf, List.length_map] at h1 ⊢; rw [hl]; exact h1, ?_⟩
    intro i
    rw [namesOf_getD]
    have hNi := hN.2 i
    rw [namesOf_getD] at hNi
    rcases hall i with h1 | ⟨l, g, hloc, _, happ, htied⟩
    · rw [h1]; exact hNi
    · rw [happ]
      constructor
      · intro x hx
        simp only [GlyphSet.names, List.map_append, List.map_cons, List.map_nil, List.mem_append, List.mem_singleton] at hx
        rcases hx with hx | hx
        · exact hNi.1 x hx
        · subst hx
          obtain ⟨b, hb, hRb⟩ := tied_reach src R htrans canAdd K I s.ms hs hN (hlocs I rfl) i l hloc incl x htied
          exact ⟨Or.inr ⟨hcan rfl, b, hb, hRb⟩, hnK⟩
      · intro x hx hxK
        simp only [GlyphSet.names, List.map_append, List.mem_append]
        exact Or.inl (hNi.2 x hx hxK)

/-- the combined state invariant: references follow `R`, and the names are under control -/
def RN (s : St) : Prop := StQ (RefOk R) s ∧ NInv src R canAdd K (namesOf s.ms)

theorem any_glyphsNamed_names (ms : Masters) (n : String) (p : Glyph → Bool) (h : (glyphsNamed ms n).any p = true) :
    ∃ m ∈ ms, n ∈ m.names := by
  obtain ⟨g, hg, _⟩ := List.any_eq_true.mp h
  obtain ⟨m, hm, hget⟩ := glyphsNamed_mem ms n g hg
  exact ⟨m, hm, (get?_isSome_iff_names m n).mp (by rw [hget]; rfl)⟩

include htrans in
theorem decomposeIStep_RN (inst : Option Inst) (hcan : inst.isSome = true → canAdd = true)
    (hlocs : ∀ I, inst = some I → I.locs.Nodup) (s : St) (n : String) (s' : St) (r : Bool)
    (hs : RN src R canAdd K s) (h : decomposeIStep inst s n = .ok (s', r)) : RN src R canAdd K s' := by
  refine ⟨decomposeIStep_Q (refOk_GInv R htrans) inst s n s' r hs.1 h, ?_⟩
  unfold decomposeIStep at h
  split at h
  · simp only [Except.ok.injEq, Prod.mk.injEq] at h; rw [← h.1]; exact hs.2
  · rename_i hc
    have hany : (glyphsNamed s.ms n).any (fun g => !g.comps.isEmpty) = true := by
      cases hh : (glyphsNamed s.ms n).any (fun g => !g.comps.isEmpty) with
      | true => rfl
      | false => rw [hh] at hc; simp at hc
    cases he : ensureComposite inst s none n with
    | error e => rw [he] at h; cases h
    | ok s1 =>
      rw [he] at h; dsimp only at h
      have hN1 := ensureComposite_N src R htrans canAdd K inst s s1 none n hcan hlocs hs.1.ms hs.2
        (any_glyphsNamed_names s.ms n _ hany) he
      cases hp : perMaster inst n (decomposeVisit true none) (decomposeOp true none) (List.range s1.ms.length) s1 true with
      | error e => rw [hp] at h; cases h
      | ok res =>
        obtain ⟨s2, fl⟩ := res
        rw [hp] at h
        simp only [Except.ok.injEq, Prod.mk.injEq] at h
        rw [← h.1, perMaster_names inst n _ _ _ s1 s2 true fl hp]
        exact hN1

include htrans in
theorem decomposeTransformedIStep_RN (inst : Option Inst) (hcan : inst.isSome = true → canAdd = true)
    (hlocs : ∀ I, inst = some I → I.locs.Nodup) (s : St) (n : String) (s' : St) (r : Bool)
    (hs : RN src R canAdd K s) (h : decomposeTransformedIStep inst s n = .ok (s', r)) : RN src R canAdd K s' := by
  unfold decomposeTransformedIStep at h
  split at h
  · simp only [Except.ok.injEq, Prod.mk.injEq] at h; rw [← h.1]; exact hs
  · exact decomposeIStep_RN src R htrans canAdd K inst hcan hlocs s n s' r hs h

include htrans in
theorem skipIStep_RN (inst : Option Inst) (hcan : inst.isSome = true → canAdd = true)
    (hlocs : ∀ I, inst = some I → I.locs.Nodup) (skip : List String) (s : St) (n : String) (s' : St) (r : Bool)
    (hs : RN src R canAdd K s) (h : skipIStep inst skip s n = .ok (s', r)) : RN src R canAdd K s' := by
  refine ⟨skipIStep_Q (refOk_GInv R htrans) inst skip s n s' r hs.1 h, ?_⟩
  unfold skipIStep at h
  dsimp only at h
  split at h
  · simp only [Except.ok.injEq, Prod.mk.injEq] at h; rw [← h.1]; exact hs.2
  · rename_i hc
    have hany : (glyphsNamed s.ms n).any (fun g => !g.comps.isEmpty) = true := by
      cases hh : (glyphsNamed s.ms n).any (fun g => !g.comps.isEmpty) with
      | true => rfl
      | false => rw [hh] at hc; simp at hc
    cases he : ensureComposite inst s (some skip) n with
    | error e => rw [he] at h; cases h
    | ok s1 =>
      rw [he] at h; dsimp only at h
      have hN1 := ensureComposite_N src R htrans canAdd K inst s s1 (some skip) n hcan hlocs hs.1.ms hs.2
        (any_glyphsNamed_names s.ms n _ hany) he
      cases hp : perMaster inst n (decomposeVisit false (some skip)) (decomposeOp false (some skip))
          (List.range s1.ms.length) s1 true with
      | error e => rw [hp] at h; cases h
      | ok res =>
        obtain ⟨s2, fl⟩ := res
        rw [hp] at h
        simp only [Except.ok.injEq, Prod.mk.injEq] at h
        rw [← h.1, perMaster_names inst n _ _ _ s1 s2 true fl hp]
        exact hN1

include htrans in
theorem flattenIStep_RN (inst : Option Inst) (s : St) (n : String) (s' : St) (r : Bool)
    (hs : RN src R canAdd K s) (h : flattenIStep inst s n = .ok (s', r)) : RN src R canAdd K s' := by
  refine ⟨flattenIStep_Q (refOk_GInv R htrans) inst s n s' r hs.1 h, ?_⟩
  unfold flattenIStep at h
  dsimp only at h
  split at h
  · simp only [Except.ok.injEq, Prod.mk.injEq] at h; rw [← h.1]; exact hs.2
  · split at h
    · simp only [Except.ok.injEq, Prod.mk.injEq] at h; rw [← h.1]; exact hs.2
    · rw [perMaster_names inst n _ _ _ s s' false r h]; exact hs.2

theorem RN_orders (s : St) (o : List (List String)) (hs : RN src R canAdd K s) : RN src R canAdd K { s with orders := o } :=
  ⟨StQ_orders s o hs.1, hs.2⟩

theorem RN_updated (s : St) (b : Bool) (hs : RN src R canAdd K s) : RN src R canAdd K (s.updated b) :=
  ⟨StQ_updated s b hs.1, by rw [updated_ms]; exact hs.2⟩

theorem runIU_RN (incl : Glyph → Bool) (step : St → String → Except GErr (St × Bool))
    (hstep : ∀ s n s' r, RN src R canAdd K s → step s n = .ok (s', r) → RN src R canAdd K s')
    (s s' : St) (hs : RN src R canAdd K s) (h : runIU incl step s = .ok s') : RN src R canAdd K s' := by
  unfold runIU at h
  cases hr : runI incl step s with
  | error e => rw [hr] at h; cases h
  | ok res =>
    obtain ⟨s1, md⟩ := res
    rw [hr] at h
    simp only [Except.ok.injEq] at h
    rw [← h]
    exact RN_updated src R canAdd K _ _
      (runI_inv (RN src R canAdd K) incl step hstep (fun s o h => RN_orders src R canAdd K s o h) s s1 md hs hr)


/-! stages -/

theorem names_filter (m : GlyphSet) (p : String → Bool) : GlyphSet.names (m.filter (fun e => p e.1)) = m.names.filter p := by
  simp only [GlyphSet.names, List.filter_map]
  rfl

include htrans in
theorem skipI_RN (inst : Option Inst) (hcan : inst.isSome = true → canAdd = true)
    (hlocs : ∀ I, inst = some I → I.locs.Nodup) (skip : List String) (s s' : St)
    (hs : RN src R canAdd [] s) (h : skipI inst skip s = .ok s') : RN src R canAdd skip s' := by
  refine ⟨skipI_Q (refOk_GInv R htrans) inst skip s s' hs.1 h, ?_⟩
  unfold skipI at h
  split at h
  · rename_i he
    simp only [Except.ok.injEq] at h
    rw [← h]
    have : skip = [] := List.isEmpty_iff.mp he
    rw [this]; exact hs.2
  · cases hr : runI (fun _ => true) (skipIStep inst skip) s with
    | error e => rw [hr] at h; cases h
    | ok res =>
      obtain ⟨s1, md⟩ := res
      rw [hr] at h
      simp only [Except.ok.injEq] at h
      rw [← h, updated_ms]
      have hs1 := runI_inv (RN src R canAdd []) _ _ (skipIStep_RN src R htrans canAdd [] inst hcan hlocs skip)
        (fun s o h => RN_orders src R canAdd [] s o h) s s1 md hs hr
      have hN := hs1.2
      refine ⟨by have := hN.1; simp only [namesOf, List.length_map] at this ⊢; exact this, ?_⟩
      intro i
      have hNi := hN.2 i
      rw [namesOf_getD] at hNi ⊢
      have hget : (List.map (fun (m : GlyphSet) => m.filter (fun e => !skip.contains e.1)) s1.ms).getD i [] =
          (s1.ms.getD i []).filter (fun e => !skip.contains e.1) := by
        simp only [List.getD_eq_getElem?_getD, List.getElem?_map]
        cases s1.ms[i]? <;> rfl
      rw [hget, names_filter (s1.ms.getD i []) (fun n => !skip.contains n)]
      constructor
      · intro n hn
        obtain ⟨h1, h2⟩ := List.mem_filter.mp hn
        exact ⟨(hNi.1 n h1).1, by simpa using h2⟩
      · intro n hn hnK
        exact List.mem_filter.mpr ⟨hNi.2 n hn (by simp), by simpa using hnK⟩

theorem decomposeStep_names (st : FState) (g : Glyph) (st' : FState) (r : Bool) (h : decomposeStep st g = .ok (st', r)) :
    st'.gs.names = st.gs.names := by
  unfold decomposeStep at h
  split at h
  · simp only [Except.ok.injEq, Prod.mk.injEq] at h; rw [← h.1]
  · cases hd : decomposeGlyph st.gs true none g with
    | error e => rw [hd] at h; cases h
    | ok g' =>
      rw [hd] at h
      simp only [Except.ok.injEq, Prod.mk.injEq] at h
      rw [← h.1]; exact names_set _ _ _

theorem filterLoop_names (incl : String → Bool) : ∀ (order : List String) (st st' : FState),
    filterLoop decomposeTransformedStep incl order st = .ok st' → st'.gs.names = st.gs.names := by
  intro order
  induction order with
  | nil => intro st st' h; simp only [filterLoop, Except.ok.injEq] at h; rw [← h]
  | cons n ns ih =>
    intro st st' h
    unfold filterLoop at h
    split at h
    · exact ih st st' h
    · cases hg : st.gs.get? n with
      | none => rw [hg] at h; cases h
      | some g =>
        rw [hg] at h; dsimp only at h
        split at h
        · cases hst : decomposeTransformedStep st g with
          | error e => rw [hst] at h; cases h
          | ok res =>
            obtain ⟨st1, r⟩ := res
            rw [hst] at h; dsimp only at h
            have h1 : st1.gs.names = st.gs.names := by
              unfold decomposeTransformedStep at hst
              split at hst
              · exact decomposeStep_names st g st1 r hst
              · simp only [Except.ok.injEq, Prod.mk.injEq] at hst; rw [← hst.1]
            rw [ih _ st' h]
            split <;> exact h1
        · exact ih st st' h

theorem customOpt_names (c : Option Custom) (m m' : GlyphSet) (h : customOpt c m = .ok m') : m'.names = m.names := by
  cases c with
  | none => simp only [customOpt, Except.ok.injEq] at h; rw [← h]
  | some c =>
    simp only [customOpt, customSingle] at h
    unfold runFilter at h
    cases ho : orderedGlyphs m with
    | error e => rw [ho] at h; cases h
    | ok order =>
      rw [ho] at h; dsimp only at h
      split at h
      · cases h
      · rename_i st hst
        simp only [Except.ok.injEq] at h
        rw [← h]
        exact filterLoop_names _ order _ st hst

theorem customEach_names : ∀ (cs : List (Option Custom)) (ms ms' : Masters), customEach cs ms = .ok ms' →
    namesOf ms' = namesOf ms := by
  intro cs
  induction cs with
  | nil => intro ms ms' h; simp only [customEach, Except.ok.injEq] at h; rw [← h]
  | cons c cs ih =>
    intro ms ms' h
    cases ms with
    | nil => simp only [customEach, Except.ok.injEq] at h; rw [← h]
    | cons m ms =>
      simp only [customEach] at h
      cases h1 : customOpt c m with
      | error e => rw [h1] at h; cases h
      | ok m1 =>
        cases h2 : customEach cs ms with
        | error e => rw [h1, h2] at h; cases h
        | ok r =>
          rw [h1, h2] at h
          simp only [Except.ok.injEq] at h
          rw [← h]
          simp only [namesOf, List.map_cons]
          rw [customOpt_names c m m1 h1]
          have := ih ms r h2
          simp only [namesOf] at this
          rw [this]

include htrans in
theorem runCustom_RN (cfg : Cfg) (hcan : cfg.inst.isSome = true → canAdd = true)
    (hlocs : ∀ I, cfg.inst = some I → I.locs.Nodup) (pre : Bool) (s s' : St)
    (hs : RN src R canAdd K s) (h : runCustom cfg pre s = .ok s') : RN src R canAdd K s' := by
  refine ⟨runCustom_Q (refOk_GInv R htrans) cfg pre s s' hs.1 h, ?_⟩
  unfold runCustom at h
  dsimp only at h
  split at h
  · simp only [Except.ok.injEq] at h; rw [← h]; exact hs.2
  · split at h
    · exact (runIU_RN src R canAdd K _ _ (decomposeTransformedIStep_RN src R htrans canAdd K cfg.inst hcan hlocs) s s' hs h).2
    · cases hc : customEach (customPhase cfg pre) s.ms with
      | error e => rw [hc] at h; cases h
      | ok ms' =>
        rw [hc] at h
        simp only [Except.ok.injEq] at h
        rw [← h, updated_ms]
        dsimp only
        rw [customEach_names _ s.ms ms' hc]; exact hs.2

include htrans in
theorem decomposeNeeded_RN (inst : Option Inst) (hcan : inst.isSome = true → canAdd = true)
    (hlocs : ∀ I, inst = some I → I.locs.Nodup) (s s' : St)
    (hs : RN src R canAdd K s) (h : decomposeNeeded inst s = .ok s') : RN src R canAdd K s' := by
  unfold decomposeNeeded at h
  dsimp only at h
  split at h
  · simp only [Except.ok.injEq] at h; rw [← h]; exact hs
  · exact runIU_RN src R canAdd K _ _ (decomposeIStep_RN src R htrans canAdd K inst hcan hlocs) s s' hs h

include htrans in
theorem flattenI_RN (inst : Option Inst) (s s' : St)
    (hs : RN src R canAdd K s) (h : flattenI inst s = .ok s') : RN src R canAdd K s' :=
  runIU_RN src R canAdd K _ _ (flattenIStep_RN src R htrans canAdd K inst) s s' hs h

theorem namesOf_reverseAll (ms : Masters) : namesOf (reverseAll ms) = namesOf ms := by
  simp only [namesOf, reverseAll, List.map_map]
  apply List.map_congr_left
  intro m _
  simp only [Function.comp, GlyphSet.names, List.map_map]
  rfl

include htrans in
theorem curvesStep_RN (cfg : Cfg) (s s' : St) (b : Option Masters) (hs : RN src R canAdd K s)
    (hcu : ∀ q, cfg.convertCubics = true → cfg.cu2qu = some q → MastersQ (RefOk R) s.ms →
      MastersQ (RefOk R) q ∧ namesOf q = namesOf s.ms)
    (h : curvesStep cfg s = .ok (b, s')) : RN src R canAdd K s' := by
  refine ⟨curvesStep_Q (refOk_GInv R htrans) cfg s s' b hs.1 (fun q hc hq hm => (hcu q hc hq hm).1) h, ?_⟩
  unfold curvesStep at h
  split at h
  · rename_i hcc
    cases hq : cfg.cu2qu with
    | none => rw [hq] at h; cases h
    | some q =>
      rw [hq] at h
      simp only [Except.ok.injEq, Prod.mk.injEq] at h
      rw [← h.2, updated_ms]
      dsimp only
      rw [(hcu q hcc hq hs.1.ms).2]; exact hs.2
  · split at h
    · simp only [Except.ok.injEq, Prod.mk.injEq] at h
      rw [← h.2, updated_ms]
      dsimp only
      rw [namesOf_reverseAll]; exact hs.2
    · simp only [Except.ok.injEq, Prod.mk.injEq] at h
      rw [← h.2]; exact hs.2

end names

end Ufo2ft.C09
