import Ufo2ftModel.Model.C01Codec
import Ufo2ftModel.Props.C01Skip
import Ufo2ftModel.Props.C12
/-!
C01, the charstring layer (optimizeCFF = 0): the relative Type 2 encoding that `T2CharStringPen` produces from ABSOLUTE rounded
points is decoded by the Type 2 interpreter to exactly those rounded points - rounding errors cannot accumulate.

Main theorems: `C01_codec_roundtrip`, `C01_codec_no_drift` (+ `naive_pen_drifts`, `naive_pen_drift_unbounded`), `C01_codec_integral`,
`C01_codec_charstring` (token level, width operand included), `C01_codec_cff2` (the CFF→CFF2 clean-up),
`C01_codec_glyph` (from the glyph set to what a reader of the compiled charstring sees), `pen_eq_C12` (same pen as C12's `toCmds`).
-/
namespace Ufo2ft.C01
open Ufo2ft List

theorem add_sub_cancel_q (a b : Q) : a + (b - a) = b := by grind

/-- the decoder's running sum lands exactly on the pen's rounded point -/
theorem penP_next (tol : Q) (p0 pt : P) :
    p0.1 + (penP tol p0 pt).1.1 = (roundP tol pt).1 ∧ p0.2 + (penP tol p0 pt).1.2 = (roundP tol pt).2 ∧
    (penP tol p0 pt).2 = roundP tol pt := by
  simp only [penP, add_sub_cancel_q, and_self]

/-- a suffix that only closes the last sub-path: nothing (CFF2) or `endchar` (CFF 1) -/
def Closes (E : List T2Cmd) : Prop := ∀ (cur : P) (s : Bool), decodeFrom cur s E = if s then [Op.closePath] else []

theorem closes_nil : Closes [] := by intro cur s; simp [decodeFrom]
theorem closes_endchar : Closes [T2Cmd.endchar] := by intro cur s; cases s <;> simp [decodeFrom]

theorem decode_pen (tol : Q) (E : List T2Cmd) (hE : Closes E) : ∀ (ops : List Op) (cur : P),
    (wfFrom true ops = true → decodeFrom cur true (penFrom tol cur ops ++ E) = ops.map (roundOp tol)) ∧
    (∀ s, wfFrom false ops = true →
      decodeFrom cur s (penFrom tol cur ops ++ E) = (if s then [Op.closePath] else []) ++ ops.map (roundOp tol)) := by
  intro ops
  induction ops with
  | nil =>
    intro cur
    refine ⟨fun h => by simp [wfFrom] at h, fun s _ => ?_⟩
    simp only [penFrom, nil_append, hE cur s, map_nil, append_nil]
  | cons o l ih =>
    intro cur
    cases o with
    | moveTo p =>
      refine ⟨fun h => by simp [wfFrom] at h, fun s h => ?_⟩
      simp only [wfFrom] at h
      obtain ⟨h1, h1', h2⟩ := penP_next tol cur p
      simp only [penFrom, cons_append, decodeFrom, h1, h1', h2, (ih (roundP tol p)).1 h, map_cons, roundOp]
    | lineTo p =>
      refine ⟨fun h => ?_, fun s h => by simp [wfFrom] at h⟩
      simp only [wfFrom] at h
      obtain ⟨h1, h1', h2⟩ := penP_next tol cur p
      simp only [penFrom, cons_append, decodeFrom, h1, h1', h2, (ih (roundP tol p)).1 h, map_cons, roundOp, if_true, nil_append]
    | curveTo a b c =>
      refine ⟨fun h => ?_, fun s h => by simp [wfFrom] at h⟩
      simp only [wfFrom] at h
      obtain ⟨a1, a1', a2⟩ := penP_next tol cur a
      obtain ⟨b1, b1', b2⟩ := penP_next tol (roundP tol a) b
      obtain ⟨c1, c1', c2⟩ := penP_next tol (roundP tol b) c
      simp only [penFrom, cons_append, decodeFrom, a1, a1', a2, b1, b1', b2, c1, c1', c2, (ih (roundP tol c)).1 h, map_cons, roundOp, if_true, nil_append]
    | closePath =>
      refine ⟨fun h => ?_, fun s h => by simp [wfFrom] at h⟩
      simp only [wfFrom] at h
      simp only [penFrom, (ih cur).2 true h, if_true, map_cons, roundOp, singleton_append]

theorem C01_codec_roundtrip (ver : C12.Ver) (tol : Q) (ops : List Op) (hwf : wfOutline ops = true) :
    decode (encode ver tol ops) = ops.map (roundOp tol) := by
  cases ver
  · simpa [decode, encode, penCmds] using (decode_pen tol _ closes_endchar ops (0, 0)).2 false hwf
  · simpa [decode, encode, penCmds] using (decode_pen tol _ closes_nil ops (0, 0)).2 false hwf

def isDraw : Op → Bool
  | .lineTo _ => true | .curveTo _ _ _ => true | _ => false

def allDraw (ops : List Op) : Prop := ∀ o ∈ ops, isDraw o = true

theorem qCurve_draw : ∀ (l : List P) (c e : P), allDraw (qCurve c l e) := by
  intro l
  induction l with
  | nil => intro c e o ho; simp only [qCurve, mem_singleton] at ho; subst ho; rfl
  | cons a l ih =>
    intro c e o ho
    cases l with
    | nil => simp only [qCurve, mem_singleton, quadToCubic] at ho; subst ho; rfl
    | cons b l' =>
      simp only [qCurve, mem_cons] at ho
      rcases ho with rfl | ho
      · rfl
      · exact ih _ e o ho

theorem segmentOps_draw (cur : P) (offs : List P) (p : Pt) (closing : Bool) (ops : List Op) (cur' : P)
    (h : segmentOps cur offs p closing = .ok (ops, cur')) : allDraw ops := by
  unfold segmentOps at h
  intro o ho
  cases hs : p.seg with
  | none => rw [hs] at h; cases h
  | some t =>
    rw [hs] at h
    cases t with
    | move => cases h
    | line =>
      dsimp only at h
      by_cases h1 : (!offs.isEmpty) = true
      · rw [if_pos h1] at h; cases h
      · rw [if_neg h1] at h
        by_cases h2 : (closing && ptOf p != cur) = true
        · rw [if_pos h2] at h; have := Except.ok.inj h; rw [← (Prod.mk.inj this).1] at ho; cases ho
        · rw [if_neg h2] at h; have := Except.ok.inj h; rw [← (Prod.mk.inj this).1] at ho
          simp only [mem_singleton] at ho; subst ho; rfl
    | curve =>
      dsimp only at h
      match offs, h with
      | [a, b], h => have := Except.ok.inj h; rw [← (Prod.mk.inj this).1] at ho; simp only [mem_singleton] at ho; subst ho; rfl
      | [], h => have := Except.ok.inj h; rw [← (Prod.mk.inj this).1] at ho; simp only [mem_singleton] at ho; subst ho; rfl
      | [a], h => have := Except.ok.inj h; rw [← (Prod.mk.inj this).1] at ho; simp only [mem_singleton, quadToCubic] at ho; subst ho; rfl
      | _ :: _ :: _ :: _, h => cases h
    | qcurve =>
      dsimp only at h
      have := Except.ok.inj h; rw [← (Prod.mk.inj this).1] at ho; exact qCurve_draw _ _ _ o ho

theorem walk_draw : ∀ (l : List Pt) (cur : P) (offs : List P) (ops : List Op),
    walk cur offs l = .ok ops → allDraw ops := by
  intro l
  induction l with
  | nil => intro cur offs ops h; simp only [walk] at h; cases h; intro o ho; cases ho
  | cons p ps ih =>
    intro cur offs ops h
    unfold walk at h
    cases hs : p.seg with
    | none => rw [hs] at h; exact ih _ _ ops h
    | some t =>
      rw [hs] at h
      dsimp only at h
      cases hseg : segmentOps cur offs p ps.isEmpty with
      | error e => rw [hseg] at h; cases h
      | ok r =>
        obtain ⟨o1, c1⟩ := r
        rw [hseg] at h
        dsimp only at h
        cases hw : walk c1 [] ps with
        | error e => rw [hw] at h; cases h
        | ok r2 =>
          rw [hw] at h
          have := Except.ok.inj h; subst this
          intro o ho
          rcases mem_append.mp ho with ho | ho
          · exact segmentOps_draw cur offs p ps.isEmpty o1 c1 hseg o ho
          · exact ih c1 [] r2 hw o ho

/-- the calls one contour makes: a moveTo, drawing calls only, one closePath -/
theorem toSegments_contour (c : Contour) (ops : List Op) (h : toSegments c = .ok ops) :
    ∃ p body, ops = Op.moveTo p :: body ++ [Op.closePath] ∧ allDraw body := by
  unfold toSegments at h
  split at h
  · cases h
  · cases hf : firstOnIdx c 0 with
    | none => rw [hf] at h; cases h
    | some i =>
      rw [hf] at h
      dsimp only at h
      cases hc : c[i]? with
      | none => rw [hc] at h; cases h
      | some start =>
        rw [hc] at h
        dsimp only at h
        cases hw : walk (ptOf start) [] (c.drop (i + 1) ++ c.take (i + 1)) with
        | error e => rw [hw] at h; cases h
        | ok w =>
          rw [hw] at h
          have := Except.ok.inj h; subst this
          exact ⟨ptOf start, w, by simp, walk_draw _ _ _ w hw⟩

theorem wfFrom_body (body rest : List Op) (hb : allDraw body) :
    wfFrom true (body ++ Op.closePath :: rest) = wfFrom false rest := by
  induction body with
  | nil => simp [wfFrom]
  | cons o body ih =>
    have ho := hb o mem_cons_self
    have hb' : allDraw body := fun x hx => hb x (mem_cons_of_mem _ hx)
    cases o with
    | moveTo p => cases ho
    | closePath => cases ho
    | lineTo p => simp only [cons_append, wfFrom]; exact ih hb'
    | curveTo a b c => simp only [cons_append, wfFrom]; exact ih hb'

/-- what `glyph.draw(pen)` sends to the pen is a well-formed outline -/
theorem rawOps_wf : ∀ (cs : List Contour) (ops : List Op), rawOps cs = .ok ops → wfOutline ops = true := by
  intro cs
  induction cs with
  | nil => intro ops h; simp only [rawOps] at h; cases h; rfl
  | cons c cs ih =>
    intro ops h
    simp only [rawOps] at h
    cases hc : toSegments c with
    | error e => rw [hc] at h; cases h
    | ok a =>
      rw [hc] at h
      cases hr : rawOps cs with
      | error e => rw [hr] at h; cases h
      | ok b =>
        rw [hr] at h
        have := Except.ok.inj h; subst this
        obtain ⟨p, body, rfl, hb⟩ := toSegments_contour c a hc
        have := ih b hr
        simp only [wfOutline] at this ⊢
        simp only [cons_append, append_assoc, nil_append, wfFrom]
        rw [wfFrom_body body b hb]; exact this

/-- the model's outline is the pen's input with every coordinate rounded -/
theorem contoursOps_raw (tol : Q) : ∀ (cs : List Contour),
    contoursOps tol cs = (rawOps cs).map (fun ops => ops.map (roundOp tol)) := by
  intro cs
  induction cs with
  | nil => rfl
  | cons c cs ih =>
    simp only [contoursOps, rawOps, ih]
    cases toSegments c <;> cases rawOps cs <;> simp [Except.map]

theorem program_cons (c : T2Cmd) (l : List T2Cmd) : program (c :: l) = cmdToks c ++ program l := by
  simp [program]

theorem program_append (a b : List T2Cmd) : program (a ++ b) = program a ++ program b := by
  simp [program]

/-- the token interpreter, started with an empty stack, does to a command list what `decodeFrom` says - whether or not the
    width question is still open (no operator of an unspecialised program leaves an odd operand count) -/
theorem exec_program : ∀ (cmds : List T2Cmd) (g : Bool) (w : Option Q) (cur : P) (saw : Bool) (out : List Op),
    ∃ s', execFrom ⟨[], g, w, cur, saw, out⟩ (program cmds) = some s' ∧ s'.out = out ++ decodeFrom cur saw cmds ∧ s'.width = w := by
  intro cmds
  induction cmds with
  | nil =>
    intro g w cur saw out
    cases saw <;> simp [program, execFrom, endPath, decodeFrom]
  | cons c l ih =>
    intro g w cur saw out
    rw [program_cons]
    cases c with
    | rmoveto a b =>
      cases g <;> cases saw <;>
        simp only [cmdToks, cons_append, nil_append, execFrom, step, endPath, popallWidth, decodeFrom, List.length_cons,
          List.length_nil, if_true, if_false, Bool.false_eq_true] <;>
        (obtain ⟨s', h1, h2, h3⟩ := ih true w (cur.1 + a, cur.2 + b) true _; exact ⟨s', h1, by simp [h2], h3⟩)
    | rlineto a b =>
      cases saw <;>
        simp only [cmdToks, cons_append, nil_append, execFrom, step, lineArgs, decodeFrom, if_true, if_false, Bool.false_eq_true] <;>
        (obtain ⟨s', h1, h2, h3⟩ := ih g w (cur.1 + a, cur.2 + b) true _; exact ⟨s', h1, by simp [h2], h3⟩)
    | rrcurveto a b c d e f =>
      cases saw <;>
        simp only [cmdToks, cons_append, nil_append, execFrom, step, curveArgs, decodeFrom, if_true, if_false, Bool.false_eq_true] <;>
        (obtain ⟨s', h1, h2, h3⟩ := ih g w (cur.1 + a + c + e, cur.2 + b + d + f) true _; exact ⟨s', h1, by simp [h2], h3⟩)
    | endchar =>
      cases g <;> cases saw <;>
        simp only [cmdToks, cons_append, nil_append, execFrom, step, endPath, popallWidth, decodeFrom, 
          List.length_nil, if_true, if_false, Bool.false_eq_true, List.isEmpty_nil] <;>
        (obtain ⟨s', h1, h2, h3⟩ := ih true w cur false _; exact ⟨s', h1, by simp [h2], h3⟩)


/-- without a width operand every program is read as its commands say -/
theorem exec_nowidth (cmds : List T2Cmd) : exec (program cmds) = some (decode cmds, none) := by
  obtain ⟨s', h1, h2, h3⟩ := exec_program cmds false none (0, 0) false []
  have : execFrom {} (program cmds) = some s' := h1
  simp only [exec, this, Option.map_some, h2, h3, nil_append, decode]

/-- a width operand in front of a program whose first operator is rmoveto or endchar is recognised by the odd operand count
    and does not disturb the outline -/
theorem exec_width (wd : Q) (cmds : List T2Cmd)
    (hfirst : match cmds with | .rmoveto _ _ :: _ => True | .endchar :: _ => True | _ => False) :
    exec (Tok.num wd :: program cmds) = some (decode cmds, some wd) := by
  match cmds, hfirst with
  | .rmoveto a b :: l, _ =>
    obtain ⟨s', h1, h2, h3⟩ := exec_program l true (some wd) ((0 : Q) + a, (0 : Q) + b) true [Op.moveTo ((0 : Q) + a, (0 : Q) + b)]
    simp only [exec, program_cons, cmdToks, cons_append, nil_append, execFrom, step, endPath, popallWidth, List.length_cons,
      List.length_nil, List.tail_cons, List.head?_cons, Bool.false_eq_true, if_false]
    simp only [if_true, h1, Option.map_some, h2, h3, decode, decodeFrom, if_false, Bool.false_eq_true,
      nil_append, singleton_append]
  | .endchar :: l, _ =>
    obtain ⟨s', h1, h2, h3⟩ := exec_program l true (some wd) (0, 0) false []
    simp only [exec, program_cons, cmdToks, cons_append, nil_append, execFrom, step, endPath, popallWidth, List.length_cons,
      List.length_nil, List.tail_cons, List.head?_cons, Bool.false_eq_true, if_false]
    simp only [if_true, List.isEmpty_nil, h1, Option.map_some, h2, h3, decode, decodeFrom, if_false, Bool.false_eq_true,
      nil_append]

theorem encode_v1_first (tol : Q) (ops : List Op) (hwf : wfOutline ops = true) :
    match encode .v1 tol ops with | .rmoveto _ _ :: _ => True | .endchar :: _ => True | _ => False := by
  cases ops with
  | nil => simp [encode, penCmds, penFrom]
  | cons o l =>
    cases o with
    | moveTo p => simp [encode, penCmds, penFrom]
    | lineTo p => simp [wfOutline, wfFrom] at hwf
    | curveTo a b c => simp [wfOutline, wfFrom] at hwf
    | closePath => simp [wfOutline, wfFrom] at hwf

/-! ### the charstring as stored -/

/-- **C01_codec_charstring**: the raw CFF 1 program `[width] dx dy rmoveto … endchar` of a well-formed outline, run through the
    Type 2 interpreter (operand stack, width by operand parity), draws exactly the rounded ABSOLUTE points and yields the width
    operand that was put in front (none when it was omitted); the CFF2 program (no width, no endchar) draws the same. -/
theorem C01_codec_charstring (w : Option Int) (tol : Q) (ops : List Op) (hwf : wfOutline ops = true) :
    exec (charString1 w tol ops) = some (ops.map (roundOp tol), w.map (fun k : Int => (k : Q))) ∧
    exec (charString2 tol ops) = some (ops.map (roundOp tol), none) := by
  constructor
  · cases w with
    | none =>
      simp only [charString1, nil_append, exec_nowidth, C01_codec_roundtrip .v1 tol ops hwf, Option.map_none]
    | some k =>
      simp only [charString1, singleton_append, exec_width (k : Q) _ (encode_v1_first tol ops hwf),
        C01_codec_roundtrip .v1 tol ops hwf, Option.map_some]
  · simp only [charString2, exec_nowidth, C01_codec_roundtrip .v2 tol ops hwf]

theorem program_endchar_last (c : List T2Cmd) :
    (program (c ++ [T2Cmd.endchar])).getLast? = some (Tok.op .endchar) ∧ (program (c ++ [T2Cmd.endchar])).dropLast = program c := by
  rw [program_append]
  simp [program, cmdToks]

/-- **C01_codec_cff2**: fontTools' CFF→CFF2 clean-up (which is how ufo2ft produces CFF2 charstrings when it does not
    subroutinise) turns the CFF 1 charstring into the pen's bare command list: width operand and endchar gone, nothing else
    touched. -/
theorem C01_codec_cff2 (w : Option Int) (tol : Q) (ops : List Op) (hwf : wfOutline ops = true) :
    toCFF2 (charString1 w tol ops) = some (charString2 tol ops) := by
  have h := (C01_codec_charstring w tol ops hwf).1
  obtain ⟨hl, hd⟩ := program_endchar_last (penCmds tol ops)
  cases w with
  | none =>
    simp only [toCFF2, h, Option.map_none, Option.isSome_none, Bool.false_eq_true, if_false]
    simp only [charString1, nil_append, encode, hl, if_true, hd, charString2, append_nil]
  | some k =>
    simp only [toCFF2, h, Option.map_some, Option.isSome_some, if_true]
    simp only [charString1, singleton_append, tail_cons, encode, hl, if_true, hd, charString2, append_nil]

/-- **C01_codec_glyph**: for every glyph of the pre-processed glyph set, whatever charstring the model of
    `getCharStringForGlyph` (+ the CFF2 conversion) stores: a reader running the Type 2 interpreter over the raw program
    receives exactly the model's outline `cffOutline` (every ABSOLUTE coordinate rounded once), and - CFF 1 - a width operand
    from which `popallWidth` recovers `otRound(width)`, the hmtx advance; CFF2 carries no width. -/
theorem C01_codec_glyph (ver : C12.Ver) (tol : Q) (d n : Int) (pre : GlyphSet) (name : String) (g : Glyph)
    (hg : pre.get? name = some g) (toks : List Tok) (h : cffProgram ver tol d n pre name = .ok toks) :
    ∃ ops e, exec toks = some (ops, Option.map (fun k : Int => (k : Q)) e) ∧ cffOutline tol pre name = .ok ops ∧
      (ver = .v2 → e = none) ∧ (ver = .v1 → C12.decodeWidth d n e = otRound g.width) := by
  unfold cffProgram at h
  rw [hg] at h
  dsimp only at h
  cases hr : rawOps g.contours with
  | error err => rw [hr] at h; cases h
  | ok ops =>
    rw [hr] at h
    have hwf := rawOps_wf _ ops hr
    have hout : cffOutline tol pre name = .ok (ops.map (roundOp tol)) := by
      simp only [cffOutline, hg, contoursOps_raw, hr, Except.map]
    cases ver with
    | v1 =>
      have := Except.ok.inj h; subst this
      exact ⟨_, C12.encodeWidth g.width d n, (C01_codec_charstring _ tol ops hwf).1, hout, (fun h => by cases h),
        fun _ => C12.C12_width g.width d n⟩
    | v2 =>
      have := Except.ok.inj h; subst this
      exact ⟨_, none, (C01_codec_charstring none tol ops hwf).2, hout, fun _ => rfl, (fun h => by cases h)⟩

/-! ### no drift -/

theorem coords_round (tol : Q) (ops : List Op) : coords (ops.map (roundOp tol)) = (coords ops).map (roundCoord tol) := by
  induction ops with
  | nil => rfl
  | cons o l ih =>
    simp only [coords, map_cons, flatMap_cons, map_append] at ih ⊢
    rw [ih]
    cases o <;> simp [opCoords, roundOp, roundP]

/-- one rounding moves a coordinate by at most `roundBound tol` (1/2 by default, the tolerance otherwise, 0 for tolerance 0) -/
theorem roundCoord_bound (tol v : Q) (ht : 0 ≤ tol) : absQ (roundCoord tol v - v) ≤ roundBound tol := by
  obtain ⟨h1, _, h3, _⟩ := C01_round tol v ht
  unfold roundBound
  by_cases h : tol ≥ 1/2
  · rw [if_pos h, h1 h]; exact otRound_near v
  · rw [if_neg h]; exact h3 (by grind)

theorem roundBound_le (tol : Q) : roundBound tol ≤ 1/2 ∧ (tol = 0 → roundBound tol = 0) ∧ (tol < 1/2 → roundBound tol = tol) := by
  unfold roundBound
  refine ⟨?_, ?_, ?_⟩
  · split <;> grind
  · intro h; subst h; rw [if_neg (by grind)]
  · intro h; rw [if_neg (by grind)]

/-- **C01_codec_no_drift**: in the outline decoded from the charstring, the coordinate at ANY position i - however many
    relative commands precede it - differs from the source coordinate at that position by the error of ONE rounding:
    at most 1/2 (exactly `otRound`) by default, 0 with tolerance 0, at most the tolerance otherwise. -/
theorem C01_codec_no_drift (ver : C12.Ver) (tol : Q) (ht : 0 ≤ tol) (ops : List Op) (hwf : wfOutline ops = true) :
    (coords (decode (encode ver tol ops))).length = (coords ops).length ∧
    ∀ (i : Nat) (hs : i < (coords ops).length) (hd : i < (coords (decode (encode ver tol ops))).length),
      absQ ((coords (decode (encode ver tol ops)))[i] - (coords ops)[i]) ≤ roundBound tol ∧
      (tol ≥ 1/2 → (coords (decode (encode ver tol ops)))[i] = (otRound (coords ops)[i] : Q)) ∧
      (tol = 0 → (coords (decode (encode ver tol ops)))[i] = (coords ops)[i]) := by
  have e : coords (decode (encode ver tol ops)) = (coords ops).map (roundCoord tol) := by
    rw [C01_codec_roundtrip ver tol ops hwf, coords_round]
  refine ⟨by rw [e, length_map], ?_⟩
  intro i hs hd
  have hi : (coords (decode (encode ver tol ops)))[i] = roundCoord tol (coords ops)[i] := by
    simp only [e, getElem_map]
  rw [hi]
  obtain ⟨h1, h2, _, _⟩ := C01_round tol (coords ops)[i] ht
  exact ⟨roundCoord_bound tol _ ht, h1, h2⟩

/-- the contrast outline: five points 2/5 apart -/
def driftOps : List Op :=
  [.moveTo (2/5, 0), .lineTo (4/5, 0), .lineTo (6/5, 0), .lineTo (8/5, 0), .lineTo (2, 0), .closePath]

/-- **naive_pen_drifts**: a pen that rounded the DELTAS (of unrounded points) instead of the absolute points would drift: on
    five points 2/5 apart every delta rounds to 0, the decoded fifth point sits at x = 0 while the source is at x = 2 - an error
    of 2 > 1, growing with every further point.  (The real pen on the same input: 0, 1, 1, 2, 2.) -/
theorem naive_pen_drifts :
    wfOutline driftOps = true ∧
    (coords driftOps)[8]? = some 2 ∧
    (coords (decode (naivePen (1/2) (0, 0) driftOps)))[8]? = some 0 ∧
    (coords (decode (encode .v2 (1/2) driftOps)))[8]? = some 2 ∧
    ¬ (absQ (0 - 2) ≤ 1) := by
  refine ⟨by decide, by decide +kernel, by decide +kernel, by decide +kernel, by decide +kernel⟩

/-! ### integrality -/

def IsInt (q : Q) : Prop := ∃ k : Int, q = (k : Q)

theorem tokNums_append (a b : List Tok) : tokNums (a ++ b) = tokNums a ++ tokNums b := by
  induction a with
  | nil => rfl
  | cons t a ih => cases t <;> simp [tokNums, ih]

theorem isInt_sub {a b : Q} (ha : IsInt a) (hb : IsInt b) : IsInt (a - b) := by
  obtain ⟨x, rfl⟩ := ha; obtain ⟨y, rfl⟩ := hb
  exact ⟨x - y, by simp [Rat.intCast_sub]⟩

theorem roundCoord_isInt (tol v : Q) (ht : tol ≥ 1/2) : IsInt (roundCoord tol v) := by
  unfold roundCoord
  rw [if_neg (by grind), if_pos ht]; exact ⟨otRound v, rfl⟩

theorem penFrom_integral (tol : Q) (ht : tol ≥ 1/2) : ∀ (ops : List Op) (p0 : P), IsInt p0.1 → IsInt p0.2 →
    ∀ v ∈ tokNums (program (penFrom tol p0 ops)), IsInt v := by
  have hr := fun v => roundCoord_isInt tol v ht
  intro ops
  induction ops with
  | nil => intro p0 _ _ v hv; simp [penFrom, program, tokNums] at hv
  | cons o l ih =>
    intro p0 h1 h2 v hv
    cases o with
    | moveTo p =>
      simp only [penFrom, penP, roundP, program_cons, cmdToks, cons_append, nil_append, tokNums, mem_cons] at hv
      rcases hv with rfl | rfl | hv
      · exact isInt_sub (hr _) h1
      · exact isInt_sub (hr _) h2
      · exact ih _ (hr _) (hr _) v hv
    | lineTo p =>
      simp only [penFrom, penP, roundP, program_cons, cmdToks, cons_append, nil_append, tokNums, mem_cons] at hv
      rcases hv with rfl | rfl | hv
      · exact isInt_sub (hr _) h1
      · exact isInt_sub (hr _) h2
      · exact ih _ (hr _) (hr _) v hv
    | curveTo a b c =>
      simp only [penFrom, penP, roundP, program_cons, cmdToks, cons_append, nil_append, tokNums, mem_cons] at hv
      rcases hv with rfl | rfl | rfl | rfl | rfl | rfl | hv
      · exact isInt_sub (hr _) h1
      · exact isInt_sub (hr _) h2
      · exact isInt_sub (hr _) (hr _)
      · exact isInt_sub (hr _) (hr _)
      · exact isInt_sub (hr _) (hr _)
      · exact isInt_sub (hr _) (hr _)
      · exact ih _ (hr _) (hr _) v hv
    | closePath => exact ih p0 h1 h2 v (by simpa only [penFrom] using hv)

/-- **C01_codec_integral**: at the default tolerance (any tolerance ≥ 1/2) every operand of the stored charstring - every
    delta and the width - is an integer, for every input outline (no 16.16 fractions are ever written). -/
theorem C01_codec_integral (w : Option Int) (tol : Q) (ht : tol ≥ 1/2) (ops : List Op) :
    (∀ v ∈ tokNums (charString1 w tol ops), IsInt v) ∧ (∀ v ∈ tokNums (charString2 tol ops), IsInt v) := by
  have h0 : IsInt ((0, 0) : P).1 := ⟨0, rfl⟩
  have hp := penFrom_integral tol ht ops (0, 0) h0 h0
  constructor
  · intro v hv
    simp only [charString1, encode, penCmds, program_append, tokNums_append, mem_append] at hv
    rcases hv with hv | hv | hv
    · cases w with
      | none => simp [tokNums] at hv
      | some k => simp only [tokNums, mem_singleton] at hv; exact ⟨k, hv⟩
    · exact hp v hv
    · simp [program, cmdToks, tokNums] at hv
  · intro v hv
    simp only [charString2, encode, penCmds, program_append, tokNums_append, mem_append] at hv
    rcases hv with hv | hv
    · exact hp v hv
    · simp [program, tokNums] at hv

/-! ### non-vacuity -/

/-- two contours, fractional coordinates, a curve -/
def exOps : List Op :=
  [.moveTo (-203, 397/2), .lineTo (-565, -47/2), .lineTo (71, -2595/8), .closePath,
   .moveTo (1, 1), .curveTo (3/2, 5/2) (7/2, -1/2) (4, 4), .closePath]

example : wfOutline exOps = true := by decide
example : decode (encode .v1 (1/4) exOps) = exOps.map (roundOp (1/4)) := C01_codec_roundtrip _ _ _ (by decide)
example : decode (encode .v1 (1/2) exOps) =
    [.moveTo (-203, 199), .lineTo (-565, -23), .lineTo (71, -324), .closePath,
     .moveTo (1, 1), .curveTo (2, 3) (4, 0) (4, 4), .closePath] := by decide +kernel
example : charString1 (some 5) (1/2) exOps =
    [.num 5, .num (-203), .num 199, .op .rmoveto, .num (-362), .num (-222), .op .rlineto, .num 636, .num (-301), .op .rlineto,
     .num (-70), .num 325, .op .rmoveto, .num 1, .num 2, .num 2, .num (-3), .num 0, .num 4, .op .rrcurveto, .op .endchar] := by
  decide +kernel
example : exec (charString1 (some 5) (1/2) exOps) = some (exOps.map (roundOp (1/2)), some 5) :=
  (C01_codec_charstring (some 5) _ _ (by decide)).1
example : toCFF2 (charString1 (some 5) (1/4) exOps) = some (charString2 (1/4) exOps) := C01_codec_cff2 _ _ _ (by decide)
example : (coords exOps).length = 14 ∧ (coords (decode (encode .v2 (1/4) exOps)))[5]? = some ((-2595 : Q)/8) := by
  constructor <;> decide +kernel
example : ∀ v ∈ tokNums (charString1 (some 5) (1/2) exOps), IsInt v := (C01_codec_integral _ _ (by decide +kernel) _).1
/-- a program that does NOT come from the pen (an rlineto first, after a width operand) is rejected by the interpreter model:
    the hypothesis of `exec_width` is needed -/
example : exec [.num 5, .num 1, .num 1, .op .rlineto] = none := by decide +kernel

/-! ### link to C12's integer command model -/

def opQ : C12.Op → Op
  | .moveTo x y => .moveTo ((x : Q), (y : Q))
  | .lineTo x y => .lineTo ((x : Q), (y : Q))
  | .curveTo a b c d e f => .curveTo ((a : Q), (b : Q)) ((c : Q), (d : Q)) ((e : Q), (f : Q))
  | .closePath => .closePath

def cmdQ : C12.Cmd → T2Cmd
  | .rmoveto a b => .rmoveto (a : Q) (b : Q)
  | .rlineto a b => .rlineto (a : Q) (b : Q)
  | .rrcurveto a b c d e f => .rrcurveto (a : Q) (b : Q) (c : Q) (d : Q) (e : Q) (f : Q)

theorem roundCoord_int (tol : Q) (ht : tol ≥ 1/2) (k : Int) : roundCoord tol (k : Q) = (k : Q) := by
  unfold roundCoord
  rw [if_neg (by grind), if_pos ht, otRound_int]

/-- on integer drawings (what C12 observes at the default tolerance) the pen modelled here emits exactly the commands of
    C12's `toCmds`, the input of its `specializeCommands` passes: one pen model, two views -/
theorem pen_eq_C12 (tol : Q) (ht : tol ≥ 1/2) : ∀ (d : C12.Drawing) (c : Int × Int),
    penFrom tol ((c.1 : Q), (c.2 : Q)) (d.map opQ) = (C12.toCmdsFrom c d).map cmdQ := by
  have hr := roundCoord_int tol ht
  intro d
  induction d with
  | nil => intro c; rfl
  | cons o l ih =>
    intro c
    obtain ⟨cx, cy⟩ := c
    cases o with
    | moveTo x y =>
      simp only [map_cons, opQ, penFrom, penP, roundP, hr, C12.toCmdsFrom, cmdQ, Rat.intCast_sub]
      rw [ih (x, y)]
    | lineTo x y =>
      simp only [map_cons, opQ, penFrom, penP, roundP, hr, C12.toCmdsFrom, cmdQ, Rat.intCast_sub]
      rw [ih (x, y)]
    | curveTo x1 y1 x2 y2 x3 y3 =>
      simp only [map_cons, opQ, penFrom, penP, roundP, hr, C12.toCmdsFrom, cmdQ, Rat.intCast_sub]
      rw [ih (x3, y3)]
    | closePath =>
      simp only [map_cons, opQ, penFrom, C12.toCmdsFrom]
      exact ih (cx, cy)

theorem penCmds_eq_C12 (tol : Q) (ht : tol ≥ 1/2) (d : C12.Drawing) : penCmds tol (d.map opQ) = (C12.toCmds d).map cmdQ :=
  pen_eq_C12 tol ht d (0, 0)

/-! ### the naive pen drifts without bound -/

/-- `n` further points 2/5 apart on the x axis after the point `(x, 0)`, then the closePath -/
def stairs : Q → Nat → List Op
  | _, 0 => [.closePath]
  | x, n + 1 => .lineTo (x + 2/5, 0) :: stairs (x + 2/5) n

def driftN (n : Nat) : List Op := .moveTo (0, 0) :: stairs 0 n

theorem naive_stairs : ∀ (n : Nat) (x : Q), naivePen (1/2) (x, 0) (stairs x n) = replicate n (T2Cmd.rlineto 0 0) := by
  intro n
  induction n with
  | zero => intro x; rfl
  | succ n ih =>
    intro x
    have e : x + 2/5 - x = 2/5 := by grind
    have r1 : roundCoord (1/2) (2/5) = 0 := by decide +kernel
    have r2 : roundCoord (1/2) ((0 : Q) - 0) = 0 := by decide +kernel
    simp only [stairs, naivePen, e, r1, r2, replicate_succ]
    rw [ih (x + 2/5)]

theorem decode_zero_lines : ∀ (n : Nat),
    decodeFrom (0, 0) true (replicate n (T2Cmd.rlineto 0 0)) = replicate n (Op.lineTo (0, 0)) ++ [Op.closePath] := by
  intro n
  induction n with
  | zero => rfl
  | succ n ih =>
    have z : ((0 : Q) + 0) = 0 := by grind
    simp only [replicate_succ, cons_append, decodeFrom, if_true, nil_append, z]
    rw [ih]

theorem stairs_wf : ∀ (n : Nat) (x : Q), wfFrom true (stairs x n) = true := by
  intro n
  induction n with
  | zero => intro x; rfl
  | succ n ih => intro x; simp only [stairs, wfFrom]; exact ih _

theorem stairs_reach : ∀ (n : Nat) (x : Q), Op.lineTo (x + (2/5) * ((n + 1 : Nat) : Q), 0) ∈ stairs x (n + 1) := by
  intro n
  induction n with
  | zero => intro x; simp only [stairs, mem_cons]; left; congr 2; simp
  | succ n ih =>
    intro x
    have := ih (x + 2/5)
    have e : x + 2/5 + 2/5 * ((n + 1 : Nat) : Q) = x + 2/5 * ((n + 1 + 1 : Nat) : Q) := by
      rw [Rat.natCast_add (n + 1) 1]; simp only [show ((1 : Nat) : Q) = 1 from rfl]; grind
    rw [e] at this
    exact mem_cons_of_mem _ this

/-- **naive_pen_drift_unbounded**: with the DELTAS rounded instead of the absolute points, the well-formed outline of n + 1
    points 2/5 apart decodes to n + 1 points at the origin although the source reaches x = 2n/5: the error exceeds any bound,
    while the real pen stays within 1/2 at every position (`C01_codec_no_drift`). -/
theorem naive_pen_drift_unbounded (n : Nat) :
    wfOutline (driftN n) = true ∧
    decode (naivePen (1/2) (0, 0) (driftN n)) = .moveTo (0, 0) :: replicate n (.lineTo (0, 0)) ++ [.closePath] ∧
    (0 < n → Op.lineTo ((2/5) * (n : Q), 0) ∈ driftN n) := by
  refine ⟨stairs_wf n 0, ?_, ?_⟩
  · have r2 : roundCoord (1/2) ((0 : Q) - 0) = 0 := by decide +kernel
    have z : ((0 : Q) + 0) = 0 := by grind
    simp only [driftN, naivePen, r2, naive_stairs, decode, decodeFrom, z, decode_zero_lines]
    simp
  · intro hn
    obtain ⟨m, rfl⟩ : ∃ m, n = m + 1 := ⟨n - 1, by omega⟩
    have := stairs_reach m 0
    rw [show (0 : Q) + 2/5 * ((m + 1 : Nat) : Q) = 2/5 * ((m + 1 : Nat) : Q) by grind] at this
    exact mem_cons_of_mem _ this

example : decode (encode .v2 (1/2) (driftN 5)) =
    [.moveTo (0, 0), .lineTo (0, 0), .lineTo (1, 0), .lineTo (1, 0), .lineTo (2, 0), .lineTo (2, 0), .closePath] := by decide +kernel

end Ufo2ft.C01
