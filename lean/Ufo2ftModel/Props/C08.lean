import Ufo2ftModel.Spec.C08
/-! Property C08: theorems.  Part 1: sorting a set is independent of its iteration order. -/
namespace Ufo2ft.C08
open List

/-- a Bool comparator that is a total order -/
structure TotalOrd (le : κ → κ → Bool) : Prop where
  total : ∀ a b, (le a b || le b a) = true
  trans : ∀ a b c, le a b = true → le b c = true → le a c = true
  antisymm : ∀ a b, le a b = true → le b a = true → a = b

theorem totalOrd_strLe : TotalOrd strLe :=
  ⟨strLe_total, strLe_trans, by
    intro a b; simp only [strLe, decide_eq_true_eq]; exact String.le_antisymm⟩

theorem totalOrd_natLe : TotalOrd natLe :=
  ⟨by intro a b; simp only [natLe, Bool.or_eq_true, decide_eq_true_eq]; exact Nat.le_total a b,
   by intro a b c; simp only [natLe, decide_eq_true_eq]; exact Nat.le_trans,
   by intro a b; simp only [natLe, decide_eq_true_eq]; exact Nat.le_antisymm⟩

theorem totalOrd_intLeB : TotalOrd intLeB :=
  ⟨by intro a b; simp only [intLeB, Bool.or_eq_true, decide_eq_true_eq]; exact Int.le_total a b,
   by intro a b c; simp only [intLeB, decide_eq_true_eq]; exact Int.le_trans,
   by intro a b; simp only [intLeB, decide_eq_true_eq]; exact Int.le_antisymm⟩

theorem totalOrd_qLe : TotalOrd qLe :=
  ⟨by intro a b; simp only [qLe, Bool.or_eq_true, decide_eq_true_eq]; exact Rat.le_total,
   by intro a b c; simp only [qLe, decide_eq_true_eq]; exact Rat.le_trans,
   by intro a b; simp only [qLe, decide_eq_true_eq]; exact Rat.le_antisymm⟩

theorem lexLe_refl (a : List String) : lexLe a a = true := by
  induction a with
  | nil => rfl
  | cons x xs ih => simp [lexLe, ih]

theorem totalOrd_lexLe : TotalOrd lexLe := by
  refine ⟨?_, ?_, ?_⟩
  · intro a
    induction a with
    | nil => intro b; simp [lexLe]
    | cons x xs ih =>
      intro b
      cases b with
      | nil => simp [lexLe]
      | cons y ys =>
        by_cases h : x = y
        · subst h; simpa [lexLe] using ih ys
        · have h' : ¬ y = x := fun e => h e.symm
          simpa [lexLe, h, h'] using strLe_total x y
  · intro a
    induction a with
    | nil => intro b c _ _; simp [lexLe]
    | cons x xs ih =>
      intro b c hab hbc
      cases b with
      | nil => simp [lexLe] at hab
      | cons y ys =>
        cases c with
        | nil => simp [lexLe] at hbc
        | cons z zs =>
          by_cases hxy : x = y
          · subst hxy
            by_cases hxz : x = z
            · subst hxz
              simp only [lexLe, if_true] at hab hbc ⊢
              exact ih ys zs hab hbc
            · simp only [lexLe, hxz, if_false, if_true] at hab hbc ⊢
              exact hbc
          · by_cases hyz : y = z
            · subst hyz
              simp only [lexLe, hxy, if_false, if_true] at hab hbc ⊢
              exact hab
            · simp only [lexLe, hxy, hyz, if_false] at hab hbc
              have hxz := strLe_trans _ _ _ hab hbc
              by_cases hxz' : x = z
              · subst hxz'
                exact absurd (totalOrd_strLe.antisymm _ _ hab hbc) hxy
              · simp only [lexLe, hxz', if_false]; exact hxz
  · intro a
    induction a with
    | nil => intro b _ hba; cases b with
      | nil => rfl
      | cons y ys => simp [lexLe] at hba
    | cons x xs ih =>
      intro b hab hba
      cases b with
      | nil => simp [lexLe] at hab
      | cons y ys =>
        by_cases h : x = y
        · subst h
          simp only [lexLe, if_true] at hab hba
          rw [ih ys hab hba]
        · have h' : ¬ y = x := fun e => h e.symm
          simp only [lexLe, h, h', if_false] at hab hba
          exact absurd (totalOrd_strLe.antisymm _ _ hab hba) h


/-! ### sorting on a key -/

theorem sortOn_perm (le : κ → κ → Bool) (key : α → κ) (l : List α) : (sortOn le key l).Perm l :=
  mergeSort_perm l _

theorem sortOn_sorted {le : κ → κ → Bool} (ho : TotalOrd le) (key : α → κ) (l : List α) :
    (sortOn le key l).Pairwise (fun a b => le (key a) (key b) = true) :=
  pairwise_mergeSort (le := fun a b => le (key a) (key b))
    (fun a b c => ho.trans (key a) (key b) (key c)) (fun a b => ho.total (key a) (key b)) l

/-- two key-ordered rearrangements of the same elements are EQUAL when the key separates the elements -/
theorem sorted_unique {le : κ → κ → Bool} (ho : TotalOrd le) (key : α → κ) {o₁ o₂ : List α}
    (hinj : ∀ a b, a ∈ o₁ → b ∈ o₁ → key a = key b → a = b)
    (h₁ : o₁.Pairwise (fun a b => le (key a) (key b) = true))
    (h₂ : o₂.Pairwise (fun a b => le (key a) (key b) = true)) (hp : o₁.Perm o₂) : o₁ = o₂ := by
  refine Perm.eq_of_pairwise ?_ h₁ h₂ hp
  intro a b ha hb hab hba
  exact hinj a b ha (hp.mem_iff.mpr hb) (ho.antisymm _ _ hab hba)

theorem inj_of_nodup_map (key : α → κ) {l : List α} (h : (l.map key).Nodup) :
    ∀ a b, a ∈ l → b ∈ l → key a = key b → a = b := by
  induction l with
  | nil => intro a b ha; simp at ha
  | cons x xs ih =>
    simp only [map_cons, nodup_cons, mem_map, not_exists, not_and] at h
    intro a b ha hb hk
    rcases mem_cons.mp ha with rfl | ha' <;> rcases mem_cons.mp hb with rfl | hb'
    · rfl
    · exact absurd hk.symm (h.1 b hb')
    · exact absurd hk (h.1 a ha')
    · exact ih h.2 a b ha' hb' hk

/-- **core lemma**: `sorted(…, key=…)` of a collection does not depend on the order in which the collection
is iterated, provided the key separates its elements (dict keys, set members). -/
theorem sortOn_perm_eq_of_inj {le : κ → κ → Bool} (ho : TotalOrd le) (key : α → κ) {l₁ l₂ : List α}
    (hp : l₁.Perm l₂) (hinj : ∀ a b, a ∈ l₁ → b ∈ l₁ → key a = key b → a = b) :
    sortOn le key l₁ = sortOn le key l₂ := by
  refine sorted_unique ho key ?_ (sortOn_sorted ho key l₁) (sortOn_sorted ho key l₂) ?_
  · intro a b ha hb
    exact hinj a b ((sortOn_perm le key l₁).mem_iff.mp ha) ((sortOn_perm le key l₁).mem_iff.mp hb)
  · exact (sortOn_perm le key l₁).trans (hp.trans (sortOn_perm le key l₂).symm)

theorem sortOn_perm_eq {le : κ → κ → Bool} (ho : TotalOrd le) (key : α → κ) {l₁ l₂ : List α}
    (hp : l₁.Perm l₂) (hk : (l₁.map key).Nodup) : sortOn le key l₁ = sortOn le key l₂ :=
  sortOn_perm_eq_of_inj ho key hp (inj_of_nodup_map key hk)

theorem sortedOn_iff (le : κ → κ → Bool) (key : α → κ) (l : List α) :
    sortedOn le key l = true ↔ l.Pairwise (fun a b => le (key a) (key b) = true) := by
  induction l with
  | nil => simp [sortedOn]
  | cons a l ih => simp [sortedOn, ih]

/-- the model's sort satisfies the declarative predicate -/
theorem sortOn_holds [BEq α] [LawfulBEq α] {le : κ → κ → Bool} (ho : TotalOrd le) (key : α → κ) (l : List α) :
    holdsSortedOn le key l (sortOn le key l) = true := by
  simp only [holdsSortedOn, Bool.and_eq_true]
  exact ⟨isPerm_iff.mpr (sortOn_perm le key l), (sortedOn_iff le key _).mpr (sortOn_sorted ho key l)⟩

/-- **C08_sorted_unique**: whatever satisfies the declarative predicate for two iteration orders of the same
collection is the same list — so an OBSERVED output that satisfies it carries no trace of the iteration order. -/
theorem C08_sorted_unique [BEq α] [LawfulBEq α] {le : κ → κ → Bool} (ho : TotalOrd le) (key : α → κ)
    {i₁ i₂ o₁ o₂ : List α} (hp : i₁.Perm i₂) (hk : (i₁.map key).Nodup)
    (h₁ : holdsSortedOn le key i₁ o₁ = true) (h₂ : holdsSortedOn le key i₂ o₂ = true) : o₁ = o₂ := by
  simp only [holdsSortedOn, Bool.and_eq_true] at h₁ h₂
  have p₁ := isPerm_iff.mp h₁.1
  have p₂ := isPerm_iff.mp h₂.1
  refine sorted_unique ho key ?_ ((sortedOn_iff le key _).mp h₁.2) ((sortedOn_iff le key _).mp h₂.2)
    (p₁.trans (hp.trans p₂.symm))
  intro a b ha hb
  exact inj_of_nodup_map key hk a b (p₁.mem_iff.mp ha) (p₁.mem_iff.mp hb)

/-! ### dict lookups do not depend on insertion order -/

theorem alookup_eq_some_iff {l : List (String × β)} (hk : (l.map Prod.fst).Nodup) (k : String) (v : β) :
    alookup k l = some v ↔ (k, v) ∈ l := by
  induction l with
  | nil => simp [alookup]
  | cons e l ih =>
    obtain ⟨k', v'⟩ := e
    simp only [map_cons, nodup_cons, mem_map, not_exists, not_and] at hk
    by_cases h : k' = k
    · subst h
      simp only [alookup, beq_self_eq_true, if_true, Option.some.injEq, mem_cons, Prod.mk.injEq, true_and]
      constructor
      · intro e; exact Or.inl e.symm
      · rintro (e | hm)
        · exact e.symm
        · exact absurd rfl (hk.1 (k', v) hm)
    · have hb : (k' == k) = false := by simpa using h
      simp only [alookup, hb, mem_cons, Prod.mk.injEq, Bool.false_eq_true, if_false]
      rw [ih hk.2]
      constructor
      · intro hm; exact Or.inr hm
      · rintro (⟨e, _⟩ | hm)
        · exact absurd e.symm h
        · exact hm

theorem alookup_perm {l₁ l₂ : List (String × β)} (hp : l₁.Perm l₂) (hk : (l₁.map Prod.fst).Nodup) (k : String) :
    alookup k l₁ = alookup k l₂ := by
  have hk₂ : (l₂.map Prod.fst).Nodup := (hp.map Prod.fst).nodup_iff.mp hk
  cases h₁ : alookup k l₁ with
  | some v =>
    have := (alookup_eq_some_iff hk k v).mp h₁
    exact ((alookup_eq_some_iff hk₂ k v).mpr (hp.mem_iff.mp this)).symm
  | none =>
    cases h₂ : alookup k l₂ with
    | none => rfl
    | some v =>
      have := (alookup_eq_some_iff hk₂ k v).mp h₂
      rw [(alookup_eq_some_iff hk k v).mpr (hp.mem_iff.mpr this)] at h₁
      cases h₁

/-! ### kernFeatureWriter emitters -/

/-- **C08_perm (sets of names)**: `tuple(sorted(set))` — kerning group members (366/390), script tuples (864),
direction buckets (919/927) — is independent of the set's iteration order. -/
theorem setTuple_perm {s₁ s₂ : List String} (hp : s₁.Perm s₂) : setTuple s₁ = setTuple s₂ :=
  sortOn_perm_eq_of_inj totalOrd_strLe id hp (fun _ _ _ _ h => h)

/-- **C08_perm (class definitions, kern `_write` 298)** -/
theorem classDefsOut_perm {d₁ d₂ : List (String × β)} (hp : d₁.Perm d₂) (hk : (d₁.map Prod.fst).Nodup) :
    classDefsOut d₁ = classDefsOut d₂ := by
  simp only [classDefsOut, sortOn_perm_eq totalOrd_strLe Prod.fst hp hk]

/-- **C08_perm (lookups, kern `_write` 301-304)** -/
theorem lookupGroupsOut_perm {d₁ d₂ : List (String × List (String × String))} (hp : d₁.Perm d₂)
    (hk : (d₁.map Prod.fst).Nodup) : lookupGroupsOut d₁ = lookupGroupsOut d₂ := by
  simp only [lookupGroupsOut, sortOn_perm_eq totalOrd_strLe Prod.fst hp hk]

theorem byKey_perm {d₁ d₂ : List (String × β)} (hp : d₁.Perm d₂) (hk : (d₁.map Prod.fst).Nodup) :
    byKey d₁ = byKey d₂ := sortOn_perm_eq totalOrd_strLe Prod.fst hp hk

/-- **C08_perm (mark anchors, `_marksAsAST` 43/93)** -/
theorem marksSorted_perm {d₁ d₂ : List (String × β)} (hp : d₁.Perm d₂) (hk : (d₁.map Prod.fst).Nodup) :
    marksSorted d₁ = marksSorted d₂ := sortOn_perm_eq totalOrd_strLe Prod.fst hp hk

/-! ### lexicographic products -/

def prodLe [DecidableEq α] (le1 : α → α → Bool) (le2 : β → β → Bool) (a b : α × β) : Bool :=
  if a.1 = b.1 then le2 a.2 b.2 else le1 a.1 b.1

theorem totalOrd_prod [DecidableEq α] {le1 : α → α → Bool} {le2 : β → β → Bool}
    (h1 : TotalOrd le1) (h2 : TotalOrd le2) : TotalOrd (prodLe le1 le2) := by
  refine ⟨?_, ?_, ?_⟩
  · rintro ⟨a1, a2⟩ ⟨b1, b2⟩
    by_cases h : a1 = b1
    · subst h; simpa [prodLe] using h2.total a2 b2
    · have h' : ¬ b1 = a1 := fun e => h e.symm
      simpa [prodLe, h, h'] using h1.total a1 b1
  · rintro ⟨a1, a2⟩ ⟨b1, b2⟩ ⟨c1, c2⟩ hab hbc
    by_cases hxy : a1 = b1
    · subst hxy
      by_cases hyz : a1 = c1
      · subst hyz
        simp only [prodLe, if_true] at hab hbc ⊢
        exact h2.trans _ _ _ hab hbc
      · simp only [prodLe, hyz, if_true, if_false] at hab hbc ⊢
        exact hbc
    · by_cases hyz : b1 = c1
      · subst hyz
        simp only [prodLe, hxy, if_true, if_false] at hab hbc ⊢
        exact hab
      · simp only [prodLe, hxy, hyz, if_false] at hab hbc
        have hle := h1.trans _ _ _ hab hbc
        by_cases hxz : a1 = c1
        · subst hxz
          exact absurd (h1.antisymm _ _ hab hbc) hxy
        · simp only [prodLe, hxz, if_false]; exact hle
  · rintro ⟨a1, a2⟩ ⟨b1, b2⟩ hab hba
    by_cases h : a1 = b1
    · subst h
      simp only [prodLe, if_true] at hab hba
      rw [h2.antisymm _ _ hab hba]
    · have h' : ¬ b1 = a1 := fun e => h e.symm
      simp only [prodLe, h, h', if_false] at hab hba
      exact absurd (h1.antisymm _ _ hab hba) h

theorem keyLe_eq : keyLe = prodLe natLe (prodLe lexLe lexLe) := by
  funext a b; rfl

theorem totalOrd_keyLe : TotalOrd keyLe := by
  rw [keyLe_eq]; exact totalOrd_prod totalOrd_natLe (totalOrd_prod totalOrd_lexLe totalOrd_lexLe)

theorem groupKeyLe_eq : groupKeyLe = prodLe intLeB lexLe := by
  funext a b; rfl

theorem totalOrd_groupKeyLe : TotalOrd groupKeyLe := by
  rw [groupKeyLe_eq]; exact totalOrd_prod totalOrd_intLeB totalOrd_lexLe

/-- **C08_perm (`pairs.sort()`, kern 875)**: the order of a bucket's pairs does not depend on the order in which
the kerning dict was iterated, as long as no two pairs have the same (side1, side2). -/
theorem sortPairs_perm {l₁ l₂ : List KPair} (hp : l₁.Perm l₂) (hk : (l₁.map KPair.key).Nodup) :
    sortPairs l₁ = sortPairs l₂ := sortOn_perm_eq totalOrd_keyLe KPair.key hp hk

/-! ### `_registerLookups` -/

theorem regScripts_congr (c : RegCtx) {l₁ l₂ : List (String × List (String × String))}
    (h : ∀ k, alookup k l₁ = alookup k l₂) (ss : List String) (acc : List Stmt) :
    regScripts c l₁ ss acc = regScripts c l₂ ss acc := by
  induction ss generalizing acc with
  | nil => rfl
  | cons s rest ih => simp only [regScripts, h]; exact ih _

/-- **C08_perm (script registration, kern `_registerLookups` 787-854)**: the statements written into the `kern` /
`dist` feature block do not depend on the insertion order of the `lookups` dict. -/
theorem registerLookups_perm (c : RegCtx) {l₁ l₂ : List (String × List (String × String))}
    (hp : l₁.Perm l₂) (hk : (l₁.map Prod.fst).Nodup) : registerLookups c l₁ = registerLookups c l₂ := by
  have e1 : sortOn strLe Prod.fst l₁ = sortOn strLe Prod.fst l₂ := sortOn_perm_eq totalOrd_strLe _ hp hk
  have e2 : ∀ k, alookup k l₁ = alookup k l₂ := alookup_perm hp hk
  have hkeys : (l₁.map Prod.fst).Perm (l₂.map Prod.fst) := hp.map _
  have e3 : sortStr (((if c.isKern then (l₁.map Prod.fst).filter (fun s => !c.distEnabled.contains s)
        else (l₁.map Prod.fst).filter (fun s => c.distEnabled.contains s))).filter (fun s => !c.dfltScripts.contains s))
      = sortStr (((if c.isKern then (l₂.map Prod.fst).filter (fun s => !c.distEnabled.contains s)
        else (l₂.map Prod.fst).filter (fun s => c.distEnabled.contains s))).filter (fun s => !c.dfltScripts.contains s)) := by
    apply setTuple_perm
    apply Perm.filter
    split
    · exact hkeys.filter _
    · exact hkeys.filter _
  simp only [registerLookups, e1, e2, e3]
  exact regScripts_congr c e2 _ _

theorem regScripts_dflt_swap (c : RegCtx) (a b : String) (l : List (String × List (String × String)))
    (h : alookup a l = none ∨ alookup b l = none) (ss : List String) (acc : List Stmt) :
    regScripts { c with dfltScripts := [a, b] } l ss acc = regScripts { c with dfltScripts := [b, a] } l ss acc := by
  induction ss generalizing acc with
  | nil => rfl
  | cons s rest ih =>
    simp only [regScripts, foldl_cons, foldl_nil]
    rcases h with h | h <;> (rw [h]; cases alookup a l <;> cases alookup b l <;> exact ih _)

/-- **C08_perm (the `for dfltScript in DFLT_SCRIPTS` loop, kern 844)**: DFLT_SCRIPTS is a two-element SET whose
iteration order depends on the hash seed; the result does not, because at most one of the two is ever a key of
`lookups` (partitionByScript folds Zinh into Zyyy, 898-899). -/
theorem registerLookups_dflt_swap (c : RegCtx) (a b : String) (l : List (String × List (String × String)))
    (h : alookup a l = none ∨ alookup b l = none) :
    registerLookups { c with dfltScripts := [a, b] } l = registerLookups { c with dfltScripts := [b, a] } l := by
  have e : ∀ s, ([a, b].contains s) = ([b, a].contains s) := by
    intro s; simp [Bool.or_comm]
  simp only [registerLookups, dirOf, e]
  exact regScripts_dflt_swap c a b l h _ _

/-! ### makeAllGlyphClassDefinitions: bucket visiting order -/

theorem filter_key_perm_eq {l₁ l₂ : List (List String × β)} (hp : l₁.Perm l₂) (hk : (l₁.map Prod.fst).Nodup)
    (c : List String) : l₁.filter (fun e => e.1 == c) = l₂.filter (fun e => e.1 == c) := by
  have hs : ∀ (l : List (List String × β)),
      (l.filter (fun e => e.1 == c)).Pairwise (fun a b => lexLe a.1 b.1 = true) := by
    intro l
    refine Pairwise.imp_of_mem ?_ (pairwise_of_forall (l := l.filter (fun e => e.1 == c)) (R := fun _ _ => True) (fun _ _ => trivial))
    intro a b ha hb _
    have ea : a.1 = c := by simpa using (mem_filter.mp ha).2
    have eb : b.1 = c := by simpa using (mem_filter.mp hb).2
    rw [ea, eb]; exact lexLe_refl c
  refine sorted_unique totalOrd_lexLe Prod.fst ?_ (hs l₁) (hs l₂) (hp.filter _)
  intro a b ha hb
  exact inj_of_nodup_map Prod.fst hk a b (mem_filter.mp ha).1 (mem_filter.mp hb).1

/-- **C08_perm (class naming order, kern 1016/1049)**: the order in which `makeAllGlyphClassDefinitions` visits the
script buckets (and therefore the numbering of clashing class names) does not depend on the insertion order of
`kerningPerScript` — which DOES depend on the order of the kerning dict (see `splitKerning`). -/
theorem classNamingOrder_perm {l₁ l₂ : List (List String × β)} (hp : l₁.Perm l₂) (hk : (l₁.map Prod.fst).Nodup) :
    classNamingOrder l₁ = classNamingOrder l₂ := by
  simp only [classNamingOrder, filter_key_perm_eq hp hk, sortOn_perm_eq totalOrd_lexLe Prod.fst hp hk]

/-! ### first-occurrence de-duplication -/

theorem mem_dedupAux [BEq α] [LawfulBEq α] (l seen : List α) (x : α) :
    x ∈ dedupAux l seen ↔ x ∈ l ∧ x ∉ seen := by
  induction l generalizing seen with
  | nil => simp [dedupAux]
  | cons a l ih =>
    unfold dedupAux
    by_cases h : seen.contains a = true
    · simp only [h, if_true, ih, mem_cons]
      have ha : a ∈ seen := by simpa using h
      constructor
      · rintro ⟨hl, hs⟩; exact ⟨Or.inr hl, hs⟩
      · rintro ⟨hl | hl, hs⟩
        · subst hl; exact absurd ha hs
        · exact ⟨hl, hs⟩
    · have ha : a ∉ seen := by simpa using h
      have hf : seen.contains a = false := by simpa using h
      simp only [hf, Bool.false_eq_true, if_false, mem_cons, ih]
      constructor
      · rintro (e | ⟨hl, hs⟩)
        · subst e; exact ⟨Or.inl rfl, ha⟩
        · exact ⟨Or.inr hl, fun hx => hs (Or.inr hx)⟩
      · rintro ⟨hl | hl, hs⟩
        · exact Or.inl hl
        · by_cases e : x = a
          · exact Or.inl e
          · exact Or.inr ⟨hl, by rintro (e' | hx); exact e e'; exact hs hx⟩

theorem nodup_dedupAux [BEq α] [LawfulBEq α] (l seen : List α) : (dedupAux l seen).Nodup := by
  induction l generalizing seen with
  | nil => simp [dedupAux]
  | cons a l ih =>
    unfold dedupAux
    split
    · exact ih _
    · refine nodup_cons.mpr ⟨?_, ih _⟩
      rw [mem_dedupAux]; simp

theorem mem_dedupFirst [BEq α] [LawfulBEq α] (l : List α) (x : α) : x ∈ dedupFirst l ↔ x ∈ l := by
  simp [dedupFirst, mem_dedupAux]

theorem nodup_dedupFirst [BEq α] [LawfulBEq α] (l : List α) : (dedupFirst l).Nodup := nodup_dedupAux l []

/-- sorting the distinct members: depends on membership only -/
theorem sortStr_dedup_ext {l₁ l₂ : List String} (h : ∀ x, x ∈ l₁ ↔ x ∈ l₂) :
    sortStr (dedupFirst l₁) = sortStr (dedupFirst l₂) := by
  apply setTuple_perm
  refine (perm_ext_iff_of_nodup (nodup_dedupFirst _) (nodup_dedupFirst _)).mpr ?_
  intro a; simp [mem_dedupFirst, h]

/-! ### markFeatureWriter: graph colouring of mark classes -/

theorem colorNodes_congr {m₁ m₂ : List (String × List String)} (h : ∀ a b, adjacent m₁ a b = adjacent m₂ a b)
    (ns : List String) (cs : List (String × Nat)) : colorNodes m₁ ns cs = colorNodes m₂ ns cs := by
  induction ns generalizing cs with
  | nil => rfl
  | cons n rest ih => simp only [colorNodes, h]; exact ih _

/-- the grouping depends on `markGlyphToMarkClasses` only through (a) which class names occur and (b) which
pairs of classes share a mark glyph — both are set-level facts. -/
theorem groupMarkClasses_ext (pre : String) (sk : List (String × Int)) {m₁ m₂ : List (String × List String)}
    (hn : ∀ x, x ∈ m₁.flatMap Prod.snd ↔ x ∈ m₂.flatMap Prod.snd)
    (ha : ∀ a b, adjacent m₁ a b = adjacent m₂ a b) : groupMarkClasses pre sk m₁ = groupMarkClasses pre sk m₂ := by
  have e1 : graphNodes m₁ = graphNodes m₂ := sortStr_dedup_ext hn
  simp only [groupMarkClasses, colorGraph, e1, colorNodes_congr ha]

/-- **C08_perm (mark class grouping, mark 517-552 + colorGraph 239-249), dict order**: the dict
`markGlyphToMarkClasses` may be filled in any order. -/
theorem groupMarkClasses_perm (pre : String) (sk : List (String × Int)) {m₁ m₂ : List (String × List String)}
    (hp : m₁.Perm m₂) : groupMarkClasses pre sk m₁ = groupMarkClasses pre sk m₂ := by
  refine groupMarkClasses_ext pre sk ?_ ?_
  · intro x; exact (hp.flatMap_right _).mem_iff
  · intro a b; simp only [adjacent, hp.any_eq]

/-- the values of `markGlyphToMarkClasses` are SETS of class names: any iteration order of each -/
def SameSets : List (String × List String) → List (String × List String) → Prop
  | [], [] => True
  | a :: l₁, b :: l₂ => a.1 = b.1 ∧ a.2.Perm b.2 ∧ SameSets l₁ l₂
  | _, _ => False

theorem sameSets_mem {m₁ m₂ : List (String × List String)} (h : SameSets m₁ m₂) (x : String) :
    x ∈ m₁.flatMap Prod.snd ↔ x ∈ m₂.flatMap Prod.snd := by
  induction m₁ generalizing m₂ with
  | nil => cases m₂ with
    | nil => simp
    | cons b l₂ => simp [SameSets] at h
  | cons a l₁ ih => cases m₂ with
    | nil => simp [SameSets] at h
    | cons b l₂ =>
      simp only [SameSets] at h
      simp only [flatMap_cons, mem_append, h.2.1.mem_iff, ih h.2.2]

theorem sameSets_any {m₁ m₂ : List (String × List String)} (h : SameSets m₁ m₂) (a b : String) :
    m₁.any (fun e => e.2.contains a && e.2.contains b) = m₂.any (fun e => e.2.contains a && e.2.contains b) := by
  induction m₁ generalizing m₂ with
  | nil => cases m₂ with
    | nil => simp
    | cons b l₂ => simp [SameSets] at h
  | cons x l₁ ih => cases m₂ with
    | nil => simp [SameSets] at h
    | cons y l₂ =>
      simp only [SameSets] at h
      simp only [any_cons, h.2.1.contains_eq, ih h.2.2]

/-- **C08_perm (mark class grouping), set order**: … and each of its set values may be iterated in any order
(`itertools.combinations(markClasses, 2)` over a set, 525). -/
theorem groupMarkClasses_sets (pre : String) (sk : List (String × Int)) {m₁ m₂ : List (String × List String)}
    (h : SameSets m₁ m₂) : groupMarkClasses pre sk m₁ = groupMarkClasses pre sk m₂ := by
  refine groupMarkClasses_ext pre sk (sameSets_mem h) ?_
  intro a b; simp only [adjacent, sameSets_any h]

/-- the final list of groups is ordered by the documented key, whatever the colouring produced -/
theorem groupMarkClasses_sorted (pre : String) (sk : List (String × Int)) (m : List (String × List String)) :
    (groupMarkClasses pre sk m).Pairwise (fun a b => groupKeyLe (groupKey pre sk a) (groupKey pre sk b) = true) :=
  sortOn_sorted totalOrd_groupKeyLe _ _

/-! ### cursFeatureWriter -/

theorem map_fst_filterMap_self (p : String → Bool) (f : String → String) (l : List String) :
    (l.filterMap (fun a => if p a then some (a, f a) else none)).map Prod.fst = l.filter p := by
  induction l with
  | nil => rfl
  | cons a l ih =>
    by_cases h : p a = true
    · simp [h, ih]
    · have h' : p a = false := by simpa using h
      simp [h', ih]

/-- **C08_perm (cursive anchor pairs, curs 22-34)**: `anchors` is a set of anchor names; the list of
(entry, exit) pairs does not depend on its iteration order. -/
theorem cursivePairs_perm {s₁ s₂ : List String} (hp : s₁.Perm s₂) (hn : s₁.Nodup) :
    cursivePairs s₁ = cursivePairs s₂ := by
  have hc : ∀ x, s₁.contains x = s₂.contains x := fun x => hp.contains_eq
  unfold cursivePairs
  refine sortOn_perm_eq totalOrd_strLe Prod.fst ?_ ?_
  · simp only [hc]
    exact Perm.append_left _ (hp.filterMap _)
  · rw [map_append, map_fst_filterMap_self (fun a => a.startsWith "entry." && s₁.contains ("exit." ++ (a.drop 6).toString))
        (fun a => "exit." ++ (a.drop 6).toString) s₁]
    refine nodup_append.mpr ⟨?_, hn.filter _, ?_⟩
    · split <;> simp
    · intro a ha b hb
      have hb' := (mem_filter.mp hb).2
      split at ha
      · simp only [map_cons, map_nil, mem_singleton] at ha
        subst ha
        intro e; subst e
        simp at hb'
      · simp at ha

/-! ### gdefFeatureWriter -/

/-- **C08_perm (ligature carets, gdef 60-79)**: `glyphCarets` is a set of numbers. -/
theorem ligCarets_perm {c₁ c₂ : List Q} (hp : c₁.Perm c₂) : ligCarets c₁ = ligCarets c₂ := by
  have : sortOn qLe id c₁ = sortOn qLe id c₂ := sortOn_perm_eq_of_inj totalOrd_qLe id hp (fun _ _ _ _ h => h)
  exact congrArg (List.map otRound) this

/-- **C08_perm (GDEF glyph classes, gdef 83-84)**: the category is a frozenset (membership only) … -/
theorem sortedGlyphClass_names {ordered n₁ n₂ : List String} (hp : n₁.Perm n₂) :
    sortedGlyphClass ordered n₁ = sortedGlyphClass ordered n₂ := by
  have : n₁.contains = n₂.contains := funext (fun x => hp.contains_eq)
  simp only [sortedGlyphClass, this]

/-- … and the result is sorted, so not even the glyph order matters. -/
theorem sortedGlyphClass_order {o₁ o₂ names : List String} (hp : o₁.Perm o₂) :
    sortedGlyphClass o₁ names = sortedGlyphClass o₂ names :=
  setTuple_perm (hp.filter _)

/-! ### propagateAnchors: `to_add` -/

/-- `anchor_data[name] = value` -/
def putAnchor (d : List (String × Q × Q)) (e : String × Q × Q) : List (String × Q × Q) :=
  if (d.map Prod.fst).contains e.1 then d.map (fun x => if x.1 == e.1 then e else x) else d ++ [e]

theorem putAnchor_fresh (d : List (String × Q × Q)) (e : String × Q × Q) (h : e.1 ∉ d.map Prod.fst) :
    putAnchor d e = d ++ [e] := by
  have : (d.map Prod.fst).contains e.1 = false := by
    rw [Bool.eq_false_iff]; intro hc; exact h (by simpa using hc)
  simp only [putAnchor, this, Bool.false_eq_true, if_false]

theorem foldl_putAnchor_fresh (es d : List (String × Q × Q)) (h : (d.map Prod.fst ++ es.map Prod.fst).Nodup) :
    es.foldl putAnchor d = d ++ es := by
  induction es generalizing d with
  | nil => simp
  | cons e es ih =>
    have hfresh : e.1 ∉ d.map Prod.fst := by
      intro hm
      have := (nodup_append.mp h).2.2 _ hm e.1 (by simp)
      exact this rfl
    rw [foldl_cons, putAnchor_fresh d e hfresh, ih]
    · simp
    · simp only [map_append, map_cons, map_nil, append_assoc, singleton_append]
      simpa using h

/-- the loop over `anchor_names` as a fold (definitionally what `anchorsToAdd` runs) -/
def toAddLoop (blocked : String → Bool) (data : String → List (String × Q × Q)) (names : List String)
    (d : List (String × Q × Q)) : List (String × Q × Q) :=
  names.foldl (fun d n => if blocked n then d else (data n).foldl putAnchor d) d

theorem toAddLoop_eq (blocked : String → Bool) (data : String → List (String × Q × Q)) (names : List String)
    (d : List (String × Q × Q))
    (h : (d.map Prod.fst ++ ((names.filter (fun n => !blocked n)).flatMap data).map Prod.fst).Nodup) :
    toAddLoop blocked data names d = d ++ (names.filter (fun n => !blocked n)).flatMap data := by
  induction names generalizing d with
  | nil => simp [toAddLoop]
  | cons n ns ih =>
    unfold toAddLoop
    rw [foldl_cons]
    by_cases hb : blocked n = true
    · simp only [hb, if_true]
      have := ih d (by simpa [filter_cons, hb] using h)
      simpa [toAddLoop, filter_cons, hb] using this
    · have hb' : blocked n = false := by simpa using hb
      simp only [hb', Bool.false_eq_true, if_false]
      simp only [filter_cons, hb', Bool.not_false, if_true, flatMap_cons, map_append] at h
      have h1 : (d.map Prod.fst ++ (data n).map Prod.fst).Nodup := by
        rw [← append_assoc] at h
        exact (nodup_append.mp h).1
      rw [foldl_putAnchor_fresh _ _ h1]
      have := ih (d ++ data n) (by simpa [append_assoc] using h)
      simpa [toAddLoop, filter_cons, hb', append_assoc] using this

/-- (the code BEFORE commit 3e34893, which iterated the set `anchor_names` directly.)  The anchors appended
to the composite do not depend on the iteration order PROVIDED no two anchor names write the same key into
`to_add` (hypothesis `hU`; `anchorsToAddUnsorted_order_matters` below shows it cannot be dropped: "top" writing
top_1/top_2 for two base components while another component has its own "top_1" anchor). -/
theorem anchorsToAddUnsorted_perm_partial (compositeAnchors : List String) (data : String → List (String × Q × Q))
    (adjust : String × Q × Q → String × Q × Q) (hadj : ∀ e, (adjust e).1 = e.1) {n₁ n₂ : List String}
    (hp : n₁.Perm n₂)
    (hU : (((n₁.filter (fun n => !compositeAnchors.any (fun a => a.startsWith n))).flatMap data).map Prod.fst).Nodup) :
    anchorsToAddUnsorted compositeAnchors data adjust n₁ = anchorsToAddUnsorted compositeAnchors data adjust n₂ := by
  have hp' := (hp.filter (fun n => !compositeAnchors.any (fun a => a.startsWith n)))
  have hU₂ : (((n₂.filter (fun n => !compositeAnchors.any (fun a => a.startsWith n))).flatMap data).map Prod.fst).Nodup :=
    (((hp'.flatMap_right data).map Prod.fst).nodup_iff).mp hU
  have e : ∀ ns, (((ns.filter (fun n => !compositeAnchors.any (fun a => a.startsWith n))).flatMap data).map Prod.fst).Nodup →
      anchorsToAddUnsorted compositeAnchors data adjust ns =
      sortOn strLe Prod.fst (((ns.filter (fun n => !compositeAnchors.any (fun a => a.startsWith n))).flatMap data).map adjust) := by
    intro ns hn
    have := toAddLoop_eq (fun n => compositeAnchors.any (fun a => a.startsWith n)) data ns [] (by simpa using hn)
    simp only [nil_append] at this
    rw [← this]; rfl
  rw [e n₁ hU, e n₂ hU₂]
  refine sortOn_perm_eq totalOrd_strLe Prod.fst ((hp'.flatMap_right data).map adjust) ?_
  have : (((n₁.filter (fun n => !compositeAnchors.any (fun a => a.startsWith n))).flatMap data).map adjust).map Prod.fst
      = ((n₁.filter (fun n => !compositeAnchors.any (fun a => a.startsWith n))).flatMap data).map Prod.fst := by
    rw [map_map]; apply map_congr_left; intro a _; exact hadj a
  rw [this]; exact hU

theorem sortOn_ne_of_mem {le : κ → κ → Bool} (key : α → κ) {a b : List α} {x : α} (ha : x ∈ a) (hb : x ∉ b) :
    sortOn le key a ≠ sortOn le key b := by
  intro e
  have h1 : x ∈ sortOn le key a := (sortOn_perm le key a).mem_iff.mpr ha
  rw [e] at h1
  exact hb ((sortOn_perm le key b).mem_iff.mp h1)

/-- the hypothesis `hU` is needed: with overlapping keys the LAST writer wins, and who is last depends on the
iteration order of the set `anchor_names` (i.e. on PYTHONHASHSEED). -/
theorem anchorsToAddUnsorted_order_matters :
    ∃ (data : String → List (String × Q × Q)),
      anchorsToAddUnsorted [] data id ["top", "top_1"] ≠ anchorsToAddUnsorted [] data id ["top_1", "top"] := by
  refine ⟨fun n => if n = "top" then [("top_1", 10, 700), ("top_2", 300, 700)]
      else if n = "top_1" then [("top_1", 500, 650)] else [], ?_⟩
  refine sortOn_ne_of_mem (x := ("top_1", 500, 650)) Prod.fst ?_ ?_
  · simp
  · simp

/-- **C08_perm (propagated anchors, propagateAnchors 106-151)** — `anchor_names` is a SET; since commit 3e34893 it
is iterated in sorted order, so the anchors appended to a composite do not depend on its iteration order,
without any side condition (compare `anchorsToAddUnsorted_order_matters`). -/
theorem anchorsToAdd_perm (compositeAnchors : List String) (data : String → List (String × Q × Q))
    (adjust : String × Q × Q → String × Q × Q) {n₁ n₂ : List String} (hp : n₁.Perm n₂) :
    anchorsToAdd compositeAnchors data adjust n₁ = anchorsToAdd compositeAnchors data adjust n₂ := by
  unfold anchorsToAdd
  have : sortStr n₁ = sortStr n₂ := setTuple_perm hp
  rw [this]

/-! ### history independence (baseCompiler.py; ufo2ft/__init__.py) -/

/-- what a public entry point returns, in closed form: a function of the options and the source only -/
theorem publicCompile_eq (build : O → List String → FeaClass → C → F) (opts : O) (skip : Option (List String))
    (fc : Option FeaClass) (s : Source C) :
    publicCompile build opts skip fc s =
      build opts (skip.getD s.skipExport) (fc.getD (if s.hasMti then .mti else .fea)) s.content := rfl

/-- **C08_history**: in any history of public compile calls on the same source object, every call returns what
it would have returned as the FIRST call — provided the calls leave the source unchanged (that is property C07;
where C07 has a finding, C08 inherits exactly it, see `history_inherits_C07`).  The reason is per-call
construction: `compileX(ufo, **kw) = XCompiler(**kw).compile(ufo)`, so the cached fields never outlive a call. -/
theorem C08_history (build : O → List String → FeaClass → C → F) (touch : Source C → Source C)
    (hC07 : ∀ s, touch s = s) (s : Source C) (calls : List (O × Option (List String) × Option FeaClass)) :
    history build touch s calls = calls.map (fun c => publicCompile build c.1 c.2.1 c.2.2 s) := by
  induction calls with
  | nil => rfl
  | cons c rest ih =>
    obtain ⟨o, sk, fc⟩ := c
    simp only [history, map_cons, hC07, ih]

/-- without the C07 hypothesis the n-th call sees the source as the previous calls left it -/
theorem history_inherits_C07 (build : O → List String → FeaClass → C → F) (touch : Source C → Source C)
    (s : Source C) (c₁ c₂ : O × Option (List String) × Option FeaClass) :
    history build touch s [c₁, c₂] =
      [publicCompile build c₁.1 c₁.2.1 c₁.2.2 s, publicCompile build c₂.1 c₂.2.1 c₂.2.2 (touch s)] := by
  obtain ⟨o₁, sk₁, fc₁⟩ := c₁
  obtain ⟨o₂, sk₂, fc₂⟩ := c₂
  rfl

/-- the cached fields are real state: ONE compiler object used for two sources applies the first source's
skip list and feature-compiler class to the second (so the per-call construction is what the theorem rests on). -/
theorem reuse_is_stateful (build : O → List String → FeaClass → C → F) (opts : O) (s₁ s₂ : Source C) :
    reuse build (Compiler.fresh opts none none) [s₁, s₂] =
      [build opts s₁.skipExport (if s₁.hasMti then .mti else .fea) s₁.content,
       build opts s₁.skipExport (if s₁.hasMti then .mti else .fea) s₂.content] := rfl

/-- non-vacuity of `reuse_is_stateful`: with `build` = "report the skip list", the second font is wrong -/
example : reuse (fun (_ : Unit) skip _ (_ : Unit) => skip) (Compiler.fresh () none none)
      [⟨["a"], false, ()⟩, ⟨["b"], false, ()⟩] = [["a"], ["a"]] := rfl
example : history (fun (_ : Unit) skip _ (_ : Unit) => skip) id ⟨["a"], false, ()⟩ [((), none, none), ((), some ["z"], none), ((), none, none)]
      = [["a"], ["z"], ["a"]] := rfl

/-! ### the property itself on digests -/

/-- a run under configuration `cfg` in a world where compilation is a function `F` of (content, options = kind) only -/
def pureRun (F : String → String) (cfg : γ × String) : String × String := (cfg.2, F cfg.2)

/-- **C08_pure**: if the compiled bytes are a function of content and options only, every configuration
(hash seed, history, library, memory/disk, inplace, container order — the `γ` component, unused) yields the
reference digest.  The correspondence run evaluates the same predicate on the OBSERVED digests. -/
theorem C08_pure (F : String → String) (kinds : List String) (cfgs : List (γ × String))
    (hk : ∀ c ∈ cfgs, c.2 ∈ kinds) (hn : kinds.Nodup) :
    holdsPure (kinds.map (fun k => (k, F k))) (cfgs.map (pureRun F)) = true := by
  simp only [holdsPure, all_map, all_eq_true]
  intro c hc
  have hm := hk c hc
  have hnd : ((kinds.map (fun k => (k, F k))).map Prod.fst).Nodup := by simpa [map_map, Function.comp_def] using hn
  have : alookup c.2 (kinds.map (fun k => (k, F k))) = some (F c.2) :=
    (alookup_eq_some_iff hnd _ _).mpr (mem_map.mpr ⟨c.2, hm, rfl⟩)
  simp [pureRun, this]

/-- `holdsPure` is not vacuous: one deviating digest falsifies it -/
example : holdsPure [("ttf", "aa"), ("otf", "bb")] [("ttf", "aa"), ("otf", "bb"), ("ttf", "aa")] = true := by decide
example : holdsPure [("ttf", "aa"), ("otf", "bb")] [("ttf", "aa"), ("otf", "bc")] = false := by decide

/-! ### partitionByScript: the script SETS of `glyphScripts` may be iterated in any order -/

theorem union_perm {a₁ a₂ b₁ b₂ : List String} (ha : a₁.Perm a₂) (hb : b₁.Perm b₂) :
    (union a₁ b₁).Perm (union a₂ b₂) := by
  unfold union
  have : (fun x => !a₁.contains x) = (fun x => !a₂.contains x) := by
    funext x; rw [ha.contains_eq]
  rw [this]
  exact ha.append (hb.filter _)

theorem alookup_sameSets {g₁ g₂ : List (String × List String)} (h : SameSets g₁ g₂) (g : String) (dflt : List String) :
    ((alookup g g₁).getD dflt).Perm ((alookup g g₂).getD dflt) := by
  induction g₁ generalizing g₂ with
  | nil => cases g₂ with
    | nil => exact Perm.refl _
    | cons b l₂ => simp [SameSets] at h
  | cons a l₁ ih => cases g₂ with
    | nil => simp [SameSets] at h
    | cons b l₂ =>
      obtain ⟨a1, a2⟩ := a
      obtain ⟨b1, b2⟩ := b
      simp only [SameSets] at h
      obtain ⟨h1, h2, h3⟩ := h
      subst h1
      by_cases hk : (a1 == g) = true
      · simp only [alookup, hk, if_true, Option.getD_some]; exact h2
      · have hk' : (a1 == g) = false := by simpa using hk
        simp only [alookup, hk', Bool.false_eq_true, if_false]; exact ih h3

theorem resolveScripts_perm {g₁ g₂ : List (String × List String)} (h : SameSets g₁ g₂) (dflt : List String) (g : String) :
    (resolveScripts dflt g₁ g).Perm (resolveScripts dflt g₂ g) := by
  have hp := alookup_sameSets h g dflt
  unfold resolveScripts
  simp only [hp.any_eq]
  split
  · exact Perm.refl _
  · exact hp

theorem sideDirections_sets {g₁ g₂ : List (String × List String)} (h : SameSets g₁ g₂) (dflt : List String)
    (dir : List (String × String)) (glyphs : List String) :
    sideDirections dflt dir g₁ glyphs = sideDirections dflt dir g₂ glyphs := by
  unfold sideDirections
  have : ∀ g, setTuple (resolveScripts dflt g₁ g) = setTuple (resolveScripts dflt g₂ g) :=
    fun g => setTuple_perm (resolveScripts_perm h dflt g)
  simp only [this]

theorem sideScripts_sets {g₁ g₂ : List (String × List String)} (h : SameSets g₁ g₂) (dflt : List String)
    (glyphs : List String) : (sideScripts dflt g₁ glyphs).Perm (sideScripts dflt g₂ glyphs) := by
  unfold sideScripts
  suffices ∀ (a₁ a₂ : List String), a₁.Perm a₂ →
      (glyphs.foldl (fun acc g => union acc (resolveScripts dflt g₁ g)) a₁).Perm
      (glyphs.foldl (fun acc g => union acc (resolveScripts dflt g₂ g)) a₂) from this [] [] (Perm.refl _)
  induction glyphs with
  | nil => intro a₁ a₂ ha; exact ha
  | cons g gs ih =>
    intro a₁ a₂ ha
    simp only [foldl_cons]
    exact ih _ _ (union_perm ha (resolveScripts_perm h dflt g))

/-- **C08_perm (partitionByScript, kern 880-958)**: `glyphScripts` maps a glyph to a SET of scripts
(`sorted(scripts)` at 901/908, set unions at 921-949, `tuple(sorted(scripts))` at 864): the yielded
(script tuple, split pair) list does not depend on how those sets are iterated. -/
theorem partitionByScript_sets {g₁ g₂ : List (String × List String)} (h : SameSets g₁ g₂) (dflt : List String)
    (dir : List (String × String)) (p : KPair) :
    partitionByScript dflt dir g₁ p = partitionByScript dflt dir g₂ p := by
  unfold partitionByScript
  simp only [sideDirections_sets h]
  congr 1
  funext e1
  congr 1
  funext e2
  have hs1 := sideScripts_sets h dflt (setTuple e1.2)
  have hs2 := sideScripts_sets h dflt (setTuple e2.2)
  have hc1 := hs1.contains_eq (a := COMMON)
  have hc2 := hs2.contains_eq (a := COMMON)
  have hu := union_perm hs1 hs2
  simp only [hc1, hc2]
  split
  · rfl
  · congr 2
    split
    · exact setTuple_perm hu
    · exact setTuple_perm (hu.filter _)

/-- … hence splitKerning as a whole does not depend on it either. -/
theorem splitKerning_sets {g₁ g₂ : List (String × List String)} (h : SameSets g₁ g₂) (dflt : List String)
    (dir : List (String × String)) (pairs : List KPair) :
    splitKerning dflt dir g₁ pairs = splitKerning dflt dir g₂ pairs := by
  unfold splitKerning
  have : partitionByScript dflt dir g₁ = partitionByScript dflt dir g₂ := funext (partitionByScript_sets h dflt dir)
  rw [this]

/-! ### mergeScripts: the merged script sets are the connected components — whatever the bucket order -/

/-- `x` and `z` are linked through a chain of buckets of `K` that overlap -/
inductive Conn (K : List (List String)) : String → String → Prop
  | refl (x : String) : Conn K x x
  | step {x y z : String} : Conn K x y → (∃ s, s ∈ K ∧ y ∈ s ∧ z ∈ s) → Conn K x z

theorem Conn.trans {K : List (List String)} {x y z : String} (h₁ : Conn K x y) (h₂ : Conn K y z) : Conn K x z := by
  induction h₂ with
  | refl => exact h₁
  | step _ hl ih => exact Conn.step ih hl

theorem Conn.single {K : List (List String)} {x y : String} (h : ∃ s, s ∈ K ∧ x ∈ s ∧ y ∈ s) : Conn K x y :=
  Conn.step (Conn.refl x) h

theorem Conn.symm {K : List (List String)} {x y : String} (h : Conn K x y) : Conn K y x := by
  induction h with
  | refl => exact Conn.refl _
  | step _ hl ih =>
    obtain ⟨s, hs, hy, hz⟩ := hl
    exact Conn.trans (Conn.single ⟨s, hs, hz, hy⟩) ih

theorem Conn.mono {K K' : List (List String)} (h : ∀ s, s ∈ K → s ∈ K') {x y : String} (hc : Conn K x y) : Conn K' x y := by
  induction hc with
  | refl => exact Conn.refl _
  | step _ hl ih =>
    obtain ⟨s, hs, hy, hz⟩ := hl
    exact Conn.step ih ⟨s, h s hs, hy, hz⟩

/-- what is true of the working list `S` of script sets all along `mergeScripts` -/
structure Inv (K S : List (List String)) : Prop where
  connected : ∀ r, r ∈ S → ∀ x, x ∈ r → ∀ y, y ∈ r → Conn K x y
  covers : ∀ s, s ∈ K → s ≠ [] → ∃ r, r ∈ S ∧ ∀ x, x ∈ s → x ∈ r
  sound : ∀ r, r ∈ S → r ≠ [] ∧ r.Nodup ∧ ∀ x, x ∈ r → ∃ s, s ∈ K ∧ x ∈ s

theorem Inv.of_mem_iff {K S S' : List (List String)} (h : Inv K S) (hm : ∀ r, r ∈ S ↔ r ∈ S') : Inv K S' :=
  ⟨fun r hr => h.connected r ((hm r).mpr hr),
   fun s hs hne => let ⟨r, hr, hx⟩ := h.covers s hs hne; ⟨r, (hm r).mp hr, hx⟩,
   fun r hr => h.sound r ((hm r).mpr hr)⟩

theorem mem_union {a b : List String} {x : String} : x ∈ union a b ↔ x ∈ a ∨ x ∈ b := by
  unfold union
  simp only [mem_append, mem_filter, Bool.not_eq_eq_eq_not, Bool.not_true, contains_eq_mem, decide_eq_false_iff_not]
  constructor
  · rintro (h | ⟨h, _⟩)
    · exact Or.inl h
    · exact Or.inr h
  · rintro (h | h)
    · exact Or.inl h
    · by_cases ha : x ∈ a
      · exact Or.inl ha
      · exact Or.inr ⟨h, ha⟩

theorem nodup_union {a b : List String} (ha : a.Nodup) (hb : b.Nodup) : (union a b).Nodup := by
  unfold union
  refine nodup_append.mpr ⟨ha, hb.filter _, ?_⟩
  intro x hx y hy e
  subst e
  have := (mem_filter.mp hy).2
  simp at this
  exact this hx

theorem disjoint_iff {a b : List String} : disjoint a b = true ↔ ∀ x, x ∈ a → x ∉ b := by
  unfold disjoint
  simp only [all_eq_true, Bool.not_eq_eq_eq_not, Bool.not_true, contains_eq_mem, decide_eq_false_iff_not]

theorem not_disjoint_iff {a b : List String} : disjoint a b = false ↔ ∃ x, x ∈ a ∧ x ∈ b := by
  constructor
  · intro h
    refine Classical.byContradiction fun hn => ?_
    have : disjoint a b = true := disjoint_iff.mpr (fun x hx hb => hn ⟨x, hx, hb⟩)
    rw [h] at this; cases this
  · rintro ⟨x, hx, hb⟩
    rw [Bool.eq_false_iff]
    intro h
    exact disjoint_iff.mp h x hx hb

/-- replacing two overlapping sets of the working list by their union keeps the invariant -/
theorem Inv.merge {K S S' : List (List String)} (h : Inv K S) {r₁ r₂ : List String} (h₁ : r₁ ∈ S) (h₂ : r₂ ∈ S)
    (hov : ∃ x, x ∈ r₁ ∧ x ∈ r₂)
    (hnew : ∀ r, r ∈ S' → r = union r₁ r₂ ∨ r ∈ S)
    (hold : ∀ r, r ∈ S → r ∈ S' ∨ r = r₁ ∨ r = r₂) (hu : union r₁ r₂ ∈ S') : Inv K S' := by
  obtain ⟨w, hw₁, hw₂⟩ := hov
  have hcu : ∀ x, x ∈ union r₁ r₂ → ∀ y, y ∈ union r₁ r₂ → Conn K x y := by
    intro x hx y hy
    rcases mem_union.mp hx with hx | hx <;> rcases mem_union.mp hy with hy | hy
    · exact h.connected r₁ h₁ x hx y hy
    · exact (h.connected r₁ h₁ x hx w hw₁).trans (h.connected r₂ h₂ w hw₂ y hy)
    · exact (h.connected r₂ h₂ x hx w hw₂).trans (h.connected r₁ h₁ w hw₁ y hy)
    · exact h.connected r₂ h₂ x hx y hy
  refine ⟨?_, ?_, ?_⟩
  · intro r hr
    rcases hnew r hr with e | hS
    · subst e; exact hcu
    · exact h.connected r hS
  · intro s hs hne
    obtain ⟨r, hr, hx⟩ := h.covers s hs hne
    rcases hold r hr with h' | e | e
    · exact ⟨r, h', hx⟩
    · subst e; exact ⟨_, hu, fun x hxs => mem_union.mpr (Or.inl (hx x hxs))⟩
    · subst e; exact ⟨_, hu, fun x hxs => mem_union.mpr (Or.inr (hx x hxs))⟩
  · intro r hr
    rcases hnew r hr with e | hS
    · subst e
      obtain ⟨ne₁, nd₁, s₁⟩ := h.sound r₁ h₁
      obtain ⟨_, nd₂, s₂⟩ := h.sound r₂ h₂
      refine ⟨?_, nodup_union nd₁ nd₂, ?_⟩
      · intro e
        have : w ∈ union r₁ r₂ := mem_union.mpr (Or.inl hw₁)
        rw [e] at this; simp at this
      · intro x hx
        rcases mem_union.mp hx with hx | hx
        · exact s₁ x hx
        · exact s₂ x hx
    · exact h.sound r hS

/-- the inner `for scripts in rest:` loop of mergeScripts, with the context `C` of already finished sets -/
theorem absorb_inv {K : List (List String)} (C : List (List String)) (rest : List (List String))
    (common : List String) (keep : List (List String)) (m : Bool)
    (h : Inv K (C ++ common :: (keep ++ rest))) :
    Inv K (C ++ (absorb rest common keep m).1 :: (absorb rest common keep m).2.1) := by
  induction rest generalizing common keep m with
  | nil => simpa [absorb] using h
  | cons s rest ih =>
    unfold absorb
    by_cases hd : disjoint s common = true
    · simp only [hd, if_true]
      apply ih
      refine h.of_mem_iff ?_
      intro r; simp only [mem_append, mem_cons, not_mem_nil, or_false]; grind
    · have hd' : disjoint s common = false := by simpa using hd
      simp only [hd', Bool.false_eq_true, if_false]
      apply ih
      obtain ⟨w, hws, hwc⟩ := not_disjoint_iff.mp hd'
      refine h.merge (r₁ := common) (r₂ := s) ?_ ?_ ⟨w, hwc, hws⟩ ?_ ?_ ?_
      · simp
      · simp
      · intro r; simp only [mem_append, mem_cons]; grind
      · intro r; simp only [mem_append, mem_cons]; grind
      · simp

theorem absorb_flag_true (rest : List (List String)) (common : List String) (keep : List (List String)) :
    (absorb rest common keep true).2.2 = true := by
  induction rest generalizing common keep with
  | nil => rfl
  | cons s rest ih => unfold absorb; split <;> exact ih _ _

/-- no merge happened in the inner loop: nothing changed and everything was disjoint from `common` -/
theorem absorb_nomerge (rest : List (List String)) (common : List String) (keep : List (List String))
    (h : (absorb rest common keep false).2.2 = false) :
    (absorb rest common keep false).1 = common ∧ (absorb rest common keep false).2.1 = keep ++ rest ∧
      ∀ s, s ∈ rest → disjoint s common = true := by
  induction rest generalizing keep with
  | nil => simp [absorb]
  | cons s rest ih =>
    unfold absorb at h ⊢
    by_cases hd : disjoint s common = true
    · simp only [hd, if_true] at h ⊢
      obtain ⟨h1, h2, h3⟩ := ih _ h
      refine ⟨h1, by rw [h2]; simp, ?_⟩
      intro t ht
      rcases mem_cons.mp ht with e | ht
      · subst e; exact hd
      · exact h3 t ht
    · have hd' : disjoint s common = false := by simpa using hd
      simp only [hd', Bool.false_eq_true, if_false] at h
      rw [absorb_flag_true] at h; cases h

theorem absorb_length (rest : List (List String)) (common : List String) (keep : List (List String)) (m : Bool) :
    (absorb rest common keep m).2.1.length ≤ keep.length + rest.length ∧
    (m = false → (absorb rest common keep m).2.2 = true → (absorb rest common keep m).2.1.length < keep.length + rest.length) := by
  induction rest generalizing common keep m with
  | nil => simp [absorb]
  | cons s rest ih =>
    unfold absorb
    by_cases hd : disjoint s common = true
    · simp only [hd, if_true]
      obtain ⟨h1, h2⟩ := ih common (keep ++ [s]) m
      simp only [length_append, length_cons, length_nil] at h1 h2 ⊢
      exact ⟨by omega, fun hm ht => by have := h2 hm ht; omega⟩
    · have hd' : disjoint s common = false := by simpa using hd
      simp only [hd', Bool.false_eq_true, if_false]
      obtain ⟨h1, _⟩ := ih (union common s) keep true
      simp only [length_cons]
      exact ⟨by omega, fun _ _ => by omega⟩

theorem mergePass_inv {K : List (List String)} (fuel : Nat) (sets result : List (List String)) (m : Bool)
    (hf : sets.length < fuel) (h : Inv K (result ++ sets)) : Inv K (mergePass fuel sets result m).1 := by
  induction fuel generalizing sets result m with
  | zero => omega
  | succ fuel ih =>
    cases sets with
    | nil => simpa [mergePass] using h
    | cons common rest =>
      simp only [mergePass]
      apply ih
      · have := (absorb_length rest common [] m).1
        simp only [length_nil, Nat.zero_add, length_cons] at this hf
        omega
      · have := absorb_inv result rest common [] m (by simpa using h)
        refine this.of_mem_iff ?_
        intro r; simp only [mem_append, mem_cons, not_mem_nil, or_false]; grind

theorem mergePass_flag_true (fuel : Nat) (sets result : List (List String)) :
    (mergePass fuel sets result true).2 = true := by
  induction fuel generalizing sets result with
  | zero => rfl
  | succ fuel ih =>
    cases sets with
    | nil => rfl
    | cons common rest => simp only [mergePass, absorb_flag_true]; exact ih _ _

/-- a pass of the `while sets:` loop that reports `merged = False` changed nothing, and the sets are pairwise disjoint -/
theorem mergePass_nomerge (fuel : Nat) (sets result : List (List String)) (hf : sets.length < fuel)
    (h : (mergePass fuel sets result false).2 = false) :
    (mergePass fuel sets result false).1 = result ++ sets ∧ sets.Pairwise (fun a b => disjoint b a = true) := by
  induction fuel generalizing sets result with
  | zero => omega
  | succ fuel ih =>
    cases sets with
    | nil => simp [mergePass]
    | cons common rest =>
      simp only [mergePass] at h ⊢
      cases hm : (absorb rest common [] false).2.2 with
      | true => rw [hm, mergePass_flag_true] at h; cases h
      | false =>
        obtain ⟨h1, h2, h3⟩ := absorb_nomerge rest common [] hm
        simp only [nil_append] at h2
        simp only [h1, h2, hm] at h ⊢
        simp only [length_cons] at hf
        obtain ⟨i1, i2⟩ := ih rest (result ++ [common]) (by omega) h
        refine ⟨by rw [i1]; simp, pairwise_cons.mpr ⟨h3, i2⟩⟩

theorem mergePass_length (fuel : Nat) (sets result : List (List String)) (m : Bool) (hf : sets.length < fuel) :
    (mergePass fuel sets result m).1.length ≤ result.length + sets.length ∧
    (m = false → (mergePass fuel sets result m).2 = true →
      (mergePass fuel sets result m).1.length < result.length + sets.length) := by
  induction fuel generalizing sets result m with
  | zero => omega
  | succ fuel ih =>
    cases sets with
    | nil =>
      refine ⟨by simp [mergePass], ?_⟩
      intro hm ht; simp [mergePass, hm] at ht
    | cons common rest =>
      simp only [mergePass, length_cons] at hf ⊢
      obtain ⟨a1, a2⟩ := absorb_length rest common [] m
      simp only [length_nil, Nat.zero_add] at a1 a2
      obtain ⟨i1, i2⟩ := ih (absorb rest common [] m).2.1 (result ++ [(absorb rest common [] m).1]) (absorb rest common [] m).2.2 (by omega)
      simp only [length_append, length_cons, length_nil] at i1 i2
      refine ⟨by omega, ?_⟩
      intro hm ht
      by_cases hf2 : (absorb rest common [] m).2.2 = true
      · have := a2 hm hf2; omega
      · have hf3 : (absorb rest common [] m).2.2 = false := by simpa using hf2
        have := i2 hf3 ht; omega

/-- the `while merged:` loop ends with pairwise disjoint sets that still satisfy the invariant -/
theorem mergeLoop_spec {K : List (List String)} (fuel : Nat) (S : List (List String)) (hf : S.length < fuel) (h : Inv K S) :
    Inv K (mergeLoop fuel S) ∧ (mergeLoop fuel S).Pairwise (fun a b => disjoint b a = true) := by
  induction fuel generalizing S with
  | zero => omega
  | succ fuel ih =>
    simp only [mergeLoop]
    have hi := mergePass_inv (K := K) (S.length + 1) S [] false (by omega) (by simpa using h)
    cases hm : (mergePass (S.length + 1) S [] false).2 with
    | true =>
      simp only [if_true]
      have := (mergePass_length (S.length + 1) S [] false (by omega)).2 rfl hm
      simp only [length_nil, Nat.zero_add] at this
      exact ih _ (by omega) hi
    | false =>
      simp only [Bool.false_eq_true, if_false]
      obtain ⟨e, hd⟩ := mergePass_nomerge (S.length + 1) S [] (by omega) hm
      simp only [nil_append] at e
      rw [e] at hi ⊢
      exact ⟨hi, hd⟩

theorem mergedSets_spec (K : List (List String)) (hn : ∀ s, s ∈ K → s.Nodup) :
    Inv K (mergedSets K) ∧ (mergedSets K).Pairwise (fun a b => disjoint b a = true) := by
  unfold mergedSets
  apply mergeLoop_spec
  · have := length_filter_le (fun k : List String => !k.isEmpty) K
    omega
  · refine ⟨?_, ?_, ?_⟩
    · intro r hr x hx y hy
      exact Conn.single ⟨r, (mem_filter.mp hr).1, hx, hy⟩
    · intro s hs hne
      refine ⟨s, mem_filter.mpr ⟨hs, ?_⟩, fun x hx => hx⟩
      cases s with
      | nil => exact absurd rfl hne
      | cons a t => rfl
    · intro r hr
      obtain ⟨h1, h2⟩ := mem_filter.mp hr
      refine ⟨?_, hn r h1, fun x hx => ⟨r, h1, hx⟩⟩
      intro e; subst e; simp at h2

theorem pw_overlap_eq {R : List (List String)} (hp : R.Pairwise (fun a b => disjoint b a = true))
    {r r' : List String} (hr : r ∈ R) (hr' : r' ∈ R) (hov : ∃ x, x ∈ r ∧ x ∈ r') : r = r' := by
  induction R with
  | nil => simp at hr
  | cons a R ih =>
    obtain ⟨w, hw, hw'⟩ := hov
    obtain ⟨h1, h2⟩ := pairwise_cons.mp hp
    rcases mem_cons.mp hr with e | hr2 <;> rcases mem_cons.mp hr' with e' | hr2'
    · rw [e, e']
    · subst e; exact absurd hw (disjoint_iff.mp (h1 r' hr2') w hw')
    · subst e'; exact absurd hw' (disjoint_iff.mp (h1 r hr2) w hw)
    · exact ih h2 hr2 hr2'

/-- a merged set is closed under the connection relation: it is a whole connected component -/
theorem conn_closed {K R : List (List String)} (h : Inv K R) (hp : R.Pairwise (fun a b => disjoint b a = true))
    {r : List String} (hr : r ∈ R) {w x : String} (hw : w ∈ r) (hc : Conn K w x) : x ∈ r := by
  induction hc with
  | refl => exact hw
  | step _ hl ih =>
    obtain ⟨s, hs, hy, hz⟩ := hl
    have hne : s ≠ [] := by intro e; subst e; simp at hy
    obtain ⟨r', hr', hsub⟩ := h.covers s hs hne
    have : r' = r := pw_overlap_eq hp hr' hr ⟨_, hsub _ hy, ih⟩
    subst this
    exact hsub _ hz

theorem components_unique {K₁ K₂ R₁ R₂ : List (List String)} (hK : ∀ s, s ∈ K₁ ↔ s ∈ K₂)
    (h₁ : Inv K₁ R₁) (d₁ : R₁.Pairwise (fun a b => disjoint b a = true))
    (h₂ : Inv K₂ R₂) (d₂ : R₂.Pairwise (fun a b => disjoint b a = true)) :
    ∀ r₁, r₁ ∈ R₁ → ∃ r₂, r₂ ∈ R₂ ∧ ∀ x, x ∈ r₁ ↔ x ∈ r₂ := by
  intro r₁ hr₁
  obtain ⟨hne, _, hs⟩ := h₁.sound r₁ hr₁
  obtain ⟨w, hw⟩ := exists_mem_of_ne_nil r₁ hne
  obtain ⟨s, hsK, hws⟩ := hs w hw
  have hsne : s ≠ [] := by intro e; subst e; simp at hws
  obtain ⟨r₂, hr₂, hsub⟩ := h₂.covers s ((hK s).mp hsK) hsne
  have hw₂ : w ∈ r₂ := hsub w hws
  refine ⟨r₂, hr₂, fun x => ⟨fun hx => ?_, fun hx => ?_⟩⟩
  · exact conn_closed h₂ d₂ hr₂ hw₂ ((h₁.connected r₁ hr₁ w hw x hx).mono (fun s hs => (hK s).mp hs))
  · exact conn_closed h₁ d₁ hr₁ hw ((h₂.connected r₂ hr₂ w hw₂ x hx).mono (fun s hs => (hK s).mpr hs))

theorem nodup_map_setTuple {K R : List (List String)} (h : Inv K R)
    (hp : R.Pairwise (fun a b => disjoint b a = true)) : (R.map setTuple).Nodup := by
  rw [Nodup, pairwise_map]
  refine Pairwise.imp_of_mem ?_ hp
  intro a b ha hb hd e
  obtain ⟨hne, _, _⟩ := h.sound a ha
  obtain ⟨w, hw⟩ := exists_mem_of_ne_nil a hne
  have h1 : w ∈ setTuple a := (sortStr_perm a).mem_iff.mpr hw
  rw [e] at h1
  have h2 : w ∈ b := (sortStr_perm b).mem_iff.mp h1
  exact disjoint_iff.mp hd w h2 hw

/-- **mergeScripts computes the connected components**: for two orders of the same bucket keys, the merged
script sets are the same sets (as sorted tuples), in possibly different order. -/
theorem mergedSets_perm {K₁ K₂ : List (List String)} (hp : K₁.Perm K₂) (hn : ∀ s, s ∈ K₁ → s.Nodup) :
    ((mergedSets K₁).map setTuple).Perm ((mergedSets K₂).map setTuple) := by
  have hn₂ : ∀ s, s ∈ K₂ → s.Nodup := fun s hs => hn s (hp.mem_iff.mpr hs)
  obtain ⟨i₁, d₁⟩ := mergedSets_spec K₁ hn
  obtain ⟨i₂, d₂⟩ := mergedSets_spec K₂ hn₂
  refine (perm_ext_iff_of_nodup (nodup_map_setTuple i₁ d₁) (nodup_map_setTuple i₂ d₂)).mpr ?_
  have key : ∀ {Ka Kb : List (List String)}, (∀ s, s ∈ Ka ↔ s ∈ Kb) →
      Inv Ka (mergedSets Ka) → (mergedSets Ka).Pairwise (fun a b => disjoint b a = true) →
      Inv Kb (mergedSets Kb) → (mergedSets Kb).Pairwise (fun a b => disjoint b a = true) →
      ∀ t, t ∈ (mergedSets Ka).map setTuple → t ∈ (mergedSets Kb).map setTuple := by
    intro Ka Kb hK ia da ib db t ht
    obtain ⟨r, hr, rfl⟩ := mem_map.mp ht
    obtain ⟨r', hr', hm⟩ := components_unique hK ia da ib db r hr
    have : r.Perm r' := (perm_ext_iff_of_nodup (ia.sound r hr).2.1 (ib.sound r' hr').2.1).mpr hm
    exact mem_map.mpr ⟨r', hr', (setTuple_perm this).symm⟩
  intro t
  exact ⟨key (fun s => hp.mem_iff) i₁ d₁ i₂ d₂ t, key (fun s => hp.mem_iff.symm) i₂ d₂ i₁ d₁ t⟩

/-! ### the buckets of splitKerning, described without reference to the order of the pairs -/

/-- `B` is the dict built by `kerningPerScript.setdefault(scripts, []).append(splitPair)` over the items `X` -/
structure IsBuckets (X : List (List String × KPair)) (B : List (List String × List KPair)) : Prop where
  nodup : (B.map Prod.fst).Nodup
  vals : ∀ k v, (k, v) ∈ B → v = (X.filter (fun x => x.1 == k)).map Prod.snd
  keys : ∀ k, k ∈ B.map Prod.fst ↔ k ∈ X.map Prod.fst

theorem isBuckets_snoc {X : List (List String × KPair)} {B : List (List String × List KPair)} (h : IsBuckets X B)
    (x : List String × KPair) : IsBuckets (X ++ [x]) (bucketAdd B x.1 x.2) := by
  obtain ⟨k, p⟩ := x
  by_cases hc : (B.map Prod.fst).contains k = true
  · have hk : k ∈ B.map Prod.fst := by simpa using hc
    have hfst : (B.map (fun e => if e.1 == k then (e.1, e.2 ++ [p]) else e)).map Prod.fst = B.map Prod.fst := by
      rw [map_map]; apply map_congr_left; intro e _; simp only [Function.comp]; split <;> rfl
    simp only [bucketAdd, hc, if_true]
    refine ⟨by rw [hfst]; exact h.nodup, ?_, ?_⟩
    · intro k' v' hm
      obtain ⟨⟨k0, v0⟩, he, hee⟩ := mem_map.mp hm
      by_cases hek : (k0 == k) = true
      · simp only [hek, if_true, Prod.mk.injEq] at hee
        obtain ⟨e1, e2⟩ := hee
        have ek : k0 = k := by simpa using hek
        subst e1 e2 ek
        rw [h.vals k0 v0 he]
        simp [filter_append]
      · have hek' : (k0 == k) = false := by simpa using hek
        simp only [hek', Bool.false_eq_true, if_false, Prod.mk.injEq] at hee
        obtain ⟨e1, e2⟩ := hee
        subst e1 e2
        rw [h.vals k0 v0 he]
        have hne : (k == k0) = false := by
          rw [Bool.eq_false_iff]; intro hh
          have := beq_iff_eq.mp hh; subst this; simp at hek'
        simp [filter_append, hne]
    · intro k'
      rw [hfst, h.keys k']
      simp only [map_append, map_cons, map_nil, mem_append, mem_singleton]
      constructor
      · exact Or.inl
      · rintro (h1 | h1)
        · exact h1
        · subst h1; exact (h.keys _).mp hk
  · have hc' : (B.map Prod.fst).contains k = false := by simpa using hc
    have hk : k ∉ B.map Prod.fst := by simpa using hc
    simp only [bucketAdd, hc', Bool.false_eq_true, if_false]
    refine ⟨?_, ?_, ?_⟩
    · rw [map_append]
      refine nodup_append.mpr ⟨h.nodup, by simp, ?_⟩
      intro a ha b hb e
      simp only [map_cons, map_nil, mem_singleton] at hb
      subst hb; subst e; exact hk ha
    · intro k' v' hm
      rcases mem_append.mp hm with hm | hm
      · have := h.vals k' v' hm
        rw [this]
        have hne : (k == k') = false := by
          rw [Bool.eq_false_iff]; intro hh
          have := beq_iff_eq.mp hh; subst this
          exact hk (mem_map.mpr ⟨(k, v'), hm, rfl⟩)
        simp [filter_append, hne]
      · simp only [mem_singleton, Prod.mk.injEq] at hm
        obtain ⟨e1, e2⟩ := hm
        subst e1 e2
        have : X.filter (fun x => x.1 == k') = [] := by
          rw [filter_eq_nil_iff]
          intro a ha hh
          have := beq_iff_eq.mp hh
          exact hk ((h.keys _).mpr (mem_map.mpr ⟨a, ha, this⟩))
        simp [filter_append, this]
    · intro k'
      simp only [map_append, map_cons, map_nil, mem_append, mem_singleton, h.keys k']

theorem isBuckets_foldl (X X₀ : List (List String × KPair)) (d : List (List String × List KPair)) (h : IsBuckets X₀ d) :
    IsBuckets (X₀ ++ X) (X.foldl (fun d sp => bucketAdd d sp.1 sp.2) d) := by
  induction X generalizing X₀ d with
  | nil => simpa using h
  | cons x X ih =>
    have := ih (X₀ ++ [x]) _ (isBuckets_snoc h x)
    simpa using this

theorem isBuckets_nil : IsBuckets [] [] := ⟨by simp, by simp, by simp⟩

/-! ### mergeScripts: re-assigning the pairs to the merged buckets -/

/-- the key of the merged bucket that receives the pairs of bucket `k` (`for scripts2 in sets: if scripts2 & set(scripts)`) -/
def ownerKey (sets : List (List String)) (k : List String) : Option (List String) :=
  (sets.find? (fun s2 => !disjoint s2 k)).map setTuple

def reassignStep (sets : List (List String)) (acc : Option (List (List String × List KPair)))
    (e : List String × List KPair) : Option (List (List String × List KPair)) :=
  match acc with
  | none => none
  | some res => match sets.find? (fun s2 => !disjoint s2 e.1) with
    | none => none
    | some s2 => some (res.map (fun r => if r.1 == setTuple s2 then (r.1, r.2 ++ e.2) else r))

theorem reassign_foldl (sets : List (List String)) (B res : List (List String × List KPair))
    (hB : ∀ e, e ∈ B → ownerKey sets e.1 ≠ none) :
    B.foldl (reassignStep sets) (some res) =
      some (res.map (fun r => (r.1, r.2 ++ (B.filter (fun e => ownerKey sets e.1 == some r.1)).flatMap Prod.snd))) := by
  induction B generalizing res with
  | nil => simp
  | cons e B ih =>
    have he := hB e (by simp)
    have hB' : ∀ e', e' ∈ B → ownerKey sets e'.1 ≠ none := fun e' h' => hB e' (by simp [h'])
    rw [foldl_cons]
    cases hf : sets.find? (fun s2 => !disjoint s2 e.1) with
    | none => simp [ownerKey, hf] at he
    | some s2 =>
      have hok : ownerKey sets e.1 = some (setTuple s2) := by simp [ownerKey, hf]
      simp only [reassignStep, hf]
      rw [ih _ hB', map_map]
      congr 1
      apply map_congr_left
      intro r _
      simp only [Function.comp, filter_cons, hok]
      by_cases hr : (r.1 == setTuple s2) = true
      · have : r.1 = setTuple s2 := by simpa using hr
        simp [this, append_assoc]
      · have hr' : (r.1 == setTuple s2) = false := by simpa using hr
        have : (some (setTuple s2) == some r.1) = false := by
          rw [Bool.eq_false_iff]; intro hh
          have := beq_iff_eq.mp hh
          simp only [Option.some.injEq] at this
          rw [this] at hr'; simp at hr'
        simp [hr', this]

theorem mergeScripts_eq_foldl (kps : List (List String × List KPair)) :
    mergeScripts kps =
      kps.foldl (reassignStep (mergedSets (kps.map Prod.fst)))
        (some (mergeScripts.dedupKeys ((mergedSets (kps.map Prod.fst)).map (fun s => (setTuple s, []))))) := by
  unfold mergeScripts
  rfl

theorem dedupKeys_of_nodup (l : List (List String × List KPair)) (h : (l.map Prod.fst).Nodup) :
    mergeScripts.dedupKeys l = l := by
  unfold mergeScripts.dedupKeys
  suffices ∀ (acc : List (List String × List KPair)), ((acc ++ l).map Prod.fst).Nodup →
      l.foldl (fun acc e => if (acc.map Prod.fst).contains e.1 then acc else acc ++ [e]) acc = acc ++ l from by
    simpa using this [] (by simpa using h)
  clear h
  induction l with
  | nil => intro acc _; simp
  | cons e l ih =>
    intro acc hn
    have hne : (acc.map Prod.fst).contains e.1 = false := by
      rw [Bool.eq_false_iff]; intro hc
      have hm : e.1 ∈ acc.map Prod.fst := by simpa using hc
      rw [map_append, map_cons] at hn
      exact (nodup_append.mp hn).2.2 _ hm _ (by simp) rfl
    rw [foldl_cons]
    simp only [hne, Bool.false_eq_true, if_false]
    rw [ih (acc ++ [e]) (by simpa [append_assoc] using hn)]
    simp [append_assoc]

theorem foldl_flatMap_eq {α β γ : Type} (f : α → List β) (g : γ → β → γ) (l : List α) (init : γ) :
    (l.flatMap f).foldl g init = l.foldl (fun acc a => (f a).foldl g acc) init := by
  induction l generalizing init with
  | nil => rfl
  | cons a l ih => simp only [flatMap_cons, foldl_append, foldl_cons, ih]

theorem flatMap_congr_mem {α β : Type} {f g : α → List β} {l : List α} (h : ∀ a, a ∈ l → f a = g a) :
    l.flatMap f = l.flatMap g := by
  induction l with
  | nil => rfl
  | cons a l ih =>
    rw [flatMap_cons, flatMap_cons, h a (by simp), ih (fun b hb => h b (by simp [hb]))]

/-- grouping keyed items by key (keys listed once, all covered) is a rearrangement of the items -/
theorem groupBy_perm (Ks : List (List String)) (X : List (List String × KPair)) (hn : Ks.Nodup)
    (hc : ∀ x, x ∈ X → x.1 ∈ Ks) : (Ks.flatMap (fun k => X.filter (fun x => x.1 == k))).Perm X := by
  induction Ks generalizing X with
  | nil =>
    cases X with
    | nil => simp
    | cons x X => have := hc x (by simp); simp at this
  | cons k Ks ih =>
    obtain ⟨hk, hn'⟩ := nodup_cons.mp hn
    rw [flatMap_cons]
    have h2 : Ks.flatMap (fun k' => X.filter (fun x => x.1 == k')) =
        Ks.flatMap (fun k' => (X.filter (fun x => !(x.1 == k))).filter (fun x => x.1 == k')) := by
      apply flatMap_congr_mem
      intro k' hk'
      rw [filter_filter]
      apply filter_congr
      intro x _
      by_cases e : (x.1 == k') = true
      · have : x.1 = k' := by simpa using e
        have hne : (x.1 == k) = false := by
          rw [Bool.eq_false_iff]; intro hh
          have := beq_iff_eq.mp hh; rw [← this, ‹x.1 = k'›] at hk; exact hk hk'
        simp [e, hne]
      · have : (x.1 == k') = false := by simpa using e
        simp [this]
    rw [h2]
    have ih' := ih (X.filter (fun x => !(x.1 == k))) hn' (by
      intro x hx
      obtain ⟨hx1, hx2⟩ := mem_filter.mp hx
      have := hc x hx1
      rcases mem_cons.mp this with e | h'
      · rw [e] at hx2; simp at hx2
      · exact h')
    exact (Perm.append_left _ ih').trans (filter_append_perm (fun x => x.1 == k) X)

/-- the pairs of the buckets selected by a predicate on the key = the items selected by it (as a multiset) -/
theorem buckets_filter_perm {X : List (List String × KPair)} {B : List (List String × List KPair)} (h : IsBuckets X B)
    (q : List String → Bool) :
    ((B.filter (fun e => q e.1)).flatMap Prod.snd).Perm ((X.filter (fun x => q x.1)).map Prod.snd) := by
  have e1 : (B.filter (fun e => q e.1)).flatMap Prod.snd =
      ((B.filter (fun e => q e.1)).map Prod.fst).flatMap (fun k => ((X.filter (fun x => q x.1)).filter (fun x => x.1 == k)).map Prod.snd) := by
    rw [flatMap_map]
    apply flatMap_congr_mem
    intro e he
    obtain ⟨he1, he2⟩ := mem_filter.mp he
    rw [h.vals e.1 e.2 he1, filter_filter]
    congr 1
    apply filter_congr
    intro x _
    by_cases hx : (x.1 == e.1) = true
    · have : x.1 = e.1 := by simpa using hx
      simp [this, he2]
    · have : (x.1 == e.1) = false := by simpa using hx
      simp [this]
  rw [e1]
  have e2 : ((B.filter (fun e => q e.1)).map Prod.fst).flatMap (fun k => ((X.filter (fun x => q x.1)).filter (fun x => x.1 == k)).map Prod.snd)
      = (((B.filter (fun e => q e.1)).map Prod.fst).flatMap (fun k => (X.filter (fun x => q x.1)).filter (fun x => x.1 == k))).map Prod.snd := by
    rw [map_flatMap]
  rw [e2]
  refine Perm.map _ (groupBy_perm _ _ ?_ ?_)
  · exact (filter_sublist.map Prod.fst).nodup h.nodup
  · intro x hx
    obtain ⟨hx1, hx2⟩ := mem_filter.mp hx
    have hk : x.1 ∈ B.map Prod.fst := (h.keys x.1).mpr (mem_map.mpr ⟨x, hx1, rfl⟩)
    obtain ⟨e, he, hee⟩ := mem_map.mp hk
    exact mem_map.mpr ⟨e, mem_filter.mpr ⟨he, by rw [hee]; exact hx2⟩, hee⟩

/-- which merged bucket a key goes to, when the merged sets are the components -/
theorem ownerKey_iff {K sets : List (List String)} (hi : Inv K sets)
    (hd : sets.Pairwise (fun a b => disjoint b a = true)) {k : List String} (hk : k ∈ K) (hne : k ≠ [])
    {s : List String} (hs : s ∈ sets) :
    (ownerKey sets k == some (setTuple s)) = !disjoint s k := by
  obtain ⟨r, hr, hsub⟩ := hi.covers k hk hne
  obtain ⟨w, hw⟩ := exists_mem_of_ne_nil k hne
  have hrk : disjoint r k = false := not_disjoint_iff.mpr ⟨w, hsub w hw, hw⟩
  -- the set found first is `r`
  have hfind : ∃ s2, sets.find? (fun s2 => !disjoint s2 k) = some s2 := by
    cases hf : sets.find? (fun s2 => !disjoint s2 k) with
    | some s2 => exact ⟨s2, rfl⟩
    | none =>
      have := find?_eq_none.mp hf r hr
      simp [hrk] at this
  obtain ⟨s2, hf⟩ := hfind
  have hs2 : s2 ∈ sets := mem_of_find?_eq_some hf
  have hs2k : disjoint s2 k = false := by
    have := find?_some hf; simpa using this
  have eq_r : ∀ t, t ∈ sets → disjoint t k = false → t = r := by
    intro t ht htk
    obtain ⟨y, hy1, hy2⟩ := not_disjoint_iff.mp htk
    exact pw_overlap_eq hd ht hr ⟨y, hy1, hsub y hy2⟩
  have hs2r : s2 = r := eq_r s2 hs2 hs2k
  have hok : ownerKey sets k = some (setTuple r) := by simp [ownerKey, hf, hs2r]
  rw [hok]
  by_cases hsk : disjoint s k = false
  · have : s = r := eq_r s hs hsk
    simp [this, hrk]
  · have hsk' : disjoint s k = true := by simpa using hsk
    have hne' : s ≠ r := by intro e; rw [e, hrk] at hsk'; cases hsk'
    have : setTuple r ≠ setTuple s := by
      intro e
      exact hne' (inj_of_nodup_map setTuple (nodup_map_setTuple hi hd) s r hs hr e.symm)
    simp [hsk', this]

/-- splitKerning in closed form: one bucket per connected component `s` of the script tuples, holding the sorted
split pairs whose script tuple meets `s`. -/
theorem splitKerning_closed (dflt : List String) (dir : List (String × String)) (gs : List (String × List String))
    (pairs : List KPair)
    (hn : ∀ x, x ∈ pairs.flatMap (partitionByScript dflt dir gs) → x.1 ≠ [] ∧ x.1.Nodup) :
    ∃ (K sets : List (List String)) (W : List String → List KPair),
      Inv K sets ∧ sets.Pairwise (fun a b => disjoint b a = true) ∧
      (∀ k, k ∈ K ↔ k ∈ (pairs.flatMap (partitionByScript dflt dir gs)).map Prod.fst) ∧ K.Nodup ∧
      sets = mergedSets K ∧
      (∀ s, s ∈ sets → (W s).Perm (((pairs.flatMap (partitionByScript dflt dir gs)).filter (fun x => !disjoint s x.1)).map Prod.snd)) ∧
      splitKerning dflt dir gs pairs = some (sets.map (fun s => (setTuple s, sortPairs (W s)))) := by
  let X := pairs.flatMap (partitionByScript dflt dir gs)
  let B := X.foldl (fun d sp => bucketAdd d sp.1 sp.2) []
  have hB : IsBuckets X B := by simpa using isBuckets_foldl X [] [] isBuckets_nil
  have hfold : pairs.foldl (fun d p => (partitionByScript dflt dir gs p).foldl (fun d sp => bucketAdd d sp.1 sp.2) d) [] = B :=
    (foldl_flatMap_eq _ _ _ _).symm
  let K := B.map Prod.fst
  have hKn : ∀ s, s ∈ K → s.Nodup := by
    intro s hs
    obtain ⟨x, hx, hxs⟩ := mem_map.mp ((hB.keys s).mp hs)
    rw [← hxs]; exact (hn x hx).2
  have hKne : ∀ s, s ∈ K → s ≠ [] := by
    intro s hs
    obtain ⟨x, hx, hxs⟩ := mem_map.mp ((hB.keys s).mp hs)
    rw [← hxs]; exact (hn x hx).1
  obtain ⟨hi, hd⟩ := mergedSets_spec K hKn
  let sets := mergedSets K
  have hnd : ((sets.map (fun s => ((setTuple s, []) : List String × List KPair))).map Prod.fst).Nodup := by
    rw [map_map]; exact nodup_map_setTuple hi hd
  have hown : ∀ e, e ∈ B → ownerKey sets e.1 ≠ none := by
    intro e he
    have hk : e.1 ∈ K := mem_map.mpr ⟨e, he, rfl⟩
    obtain ⟨r, hr, _⟩ := hi.covers e.1 hk (hKne _ hk)
    have := ownerKey_iff hi hd hk (hKne _ hk) hr
    intro hnone
    rw [hnone] at this
    obtain ⟨r', hr', hsub⟩ := hi.covers e.1 hk (hKne _ hk)
    obtain ⟨w, hw⟩ := exists_mem_of_ne_nil e.1 (hKne _ hk)
    have h1 := ownerKey_iff hi hd hk (hKne _ hk) hr'
    rw [hnone, not_disjoint_iff.mpr ⟨w, hsub w hw, hw⟩] at h1
    simp at h1
  refine ⟨K, sets, fun s => (B.filter (fun e => !disjoint s e.1)).flatMap Prod.snd, hi, hd, ?_, hB.nodup, rfl, ?_, ?_⟩
  · intro k; exact hB.keys k
  · intro s _
    exact buckets_filter_perm hB (fun k => !disjoint s k)
  · unfold splitKerning
    simp only [hfold]
    rw [mergeScripts_eq_foldl, dedupKeys_of_nodup _ hnd, reassign_foldl _ _ _ hown]
    simp only [Option.map_some, map_map]
    congr 1
    apply map_congr_left
    intro s hs
    simp only [Function.comp, nil_append]
    congr 2
    apply congrArg (fun l => flatMap Prod.snd l)
    apply filter_congr
    intro e he
    have hk : e.1 ∈ K := mem_map.mpr ⟨e, he, rfl⟩
    exact ownerKey_iff hi hd hk (hKne _ hk) hs

theorem disjoint_congr_mem {s s' : List String} (h : ∀ x, x ∈ s ↔ x ∈ s') (k : List String) :
    disjoint s k = disjoint s' k := by
  rw [Bool.eq_iff_iff, disjoint_iff, disjoint_iff]
  constructor
  · intro hh x hx; exact hh x ((h x).mpr hx)
  · intro hh x hx; exact hh x ((h x).mp hx)

theorem nodup_of_nodup_map {α β : Type} (f : α → β) {l : List α} (h : (l.map f).Nodup) : l.Nodup := by
  rw [Nodup, pairwise_map] at h
  exact h.imp (fun hne e => hne (by rw [e]))

theorem split_entry_transfer {Xa Xb : List (List String × KPair)} (hX : Xa.Perm Xb)
    (hk : (Xa.map (fun x => x.2.key)).Nodup)
    {Ka Kb setsa setsb : List (List String)} {Wa Wb : List String → List KPair}
    (hK : ∀ k, k ∈ Ka ↔ k ∈ Kb)
    (ia : Inv Ka setsa) (da : setsa.Pairwise (fun a b => disjoint b a = true))
    (ib : Inv Kb setsb) (db : setsb.Pairwise (fun a b => disjoint b a = true))
    (hWa : ∀ s, s ∈ setsa → (Wa s).Perm ((Xa.filter (fun x => !disjoint s x.1)).map Prod.snd))
    (hWb : ∀ s, s ∈ setsb → (Wb s).Perm ((Xb.filter (fun x => !disjoint s x.1)).map Prod.snd)) :
    ∀ entry, entry ∈ setsa.map (fun s => (setTuple s, sortPairs (Wa s))) →
      entry ∈ setsb.map (fun s => (setTuple s, sortPairs (Wb s))) := by
  intro entry he
  obtain ⟨s, hs, rfl⟩ := mem_map.mp he
  obtain ⟨s', hs', hm⟩ := components_unique hK ia da ib db s hs
  refine mem_map.mpr ⟨s', hs', ?_⟩
  have hperm : s.Perm s' := (perm_ext_iff_of_nodup (ia.sound s hs).2.1 (ib.sound s' hs').2.1).mpr hm
  have hpred : (fun x : List String × KPair => !disjoint s x.1) = (fun x => !disjoint s' x.1) := by
    funext x; rw [disjoint_congr_mem hm]
  have hY : ((Xa.filter (fun x => !disjoint s x.1)).map Prod.snd).Perm ((Xb.filter (fun x => !disjoint s' x.1)).map Prod.snd) := by
    rw [hpred]; exact (hX.filter _).map _
  have hW : (Wa s).Perm (Wb s') := (hWa s hs).trans (hY.trans (hWb s' hs').symm)
  have hnd : ((Wa s).map KPair.key).Nodup := by
    refine (((hWa s hs).map KPair.key).nodup_iff).mpr ?_
    rw [map_map]
    exact (filter_sublist.map _).nodup hk
  rw [setTuple_perm hperm, sortPairs_perm hW hnd]

/-- **C08_perm (splitKerning, kern 857-993)** — the decisive one for "in memory vs read back from disk" and
"defcon vs ufoLib2": the kerning dict may be iterated in ANY order.  The insertion order of the returned dict
does depend on it (mergeScripts keeps first-come order), but its content does not: sorted by key — which is how
every consumer reads it (`_write` 301, `_registerLookups` 806/836, makeAllGlyphClassDefinitions 1049; see
`lookupGroupsOut_perm`, `registerLookups_perm`, `classNamingOrder_perm`) — it is the same list of
(script tuple, sorted pairs).  Hypotheses: no two split pairs have the same (side1, side2) (kerning-dict keys
are unique and classes of one side are disjoint); script tuples are non-empty sets (else the code itself
raises AssertionError at 992). -/
theorem splitKerning_perm (dflt : List String) (dir : List (String × String)) (gs : List (String × List String))
    {p₁ p₂ : List KPair} (hp : p₁.Perm p₂)
    (hk : ((p₁.flatMap (partitionByScript dflt dir gs)).map (fun x => x.2.key)).Nodup)
    (hn : ∀ x, x ∈ p₁.flatMap (partitionByScript dflt dir gs) → x.1 ≠ [] ∧ x.1.Nodup) :
    (splitKerning dflt dir gs p₁).map (sortOn lexLe Prod.fst) =
      (splitKerning dflt dir gs p₂).map (sortOn lexLe Prod.fst) := by
  have hX := hp.flatMap_right (partitionByScript dflt dir gs)
  have hn₂ : ∀ x, x ∈ p₂.flatMap (partitionByScript dflt dir gs) → x.1 ≠ [] ∧ x.1.Nodup :=
    fun x hx => hn x (hX.mem_iff.mpr hx)
  have hk₂ : ((p₂.flatMap (partitionByScript dflt dir gs)).map (fun x => x.2.key)).Nodup :=
    ((hX.map _).nodup_iff).mp hk
  obtain ⟨K₁, sets₁, W₁, i₁, d₁, hK₁, _, _, hW₁, e₁⟩ := splitKerning_closed dflt dir gs p₁ hn
  obtain ⟨K₂, sets₂, W₂, i₂, d₂, hK₂, _, _, hW₂, e₂⟩ := splitKerning_closed dflt dir gs p₂ hn₂
  have hK : ∀ k, k ∈ K₁ ↔ k ∈ K₂ := by
    intro k; rw [hK₁ k, hK₂ k]; exact (hX.map Prod.fst).mem_iff
  rw [e₁, e₂]
  simp only [Option.map_some]
  congr 1
  have keys₁ : ((sets₁.map (fun s => (setTuple s, sortPairs (W₁ s)))).map Prod.fst).Nodup := by
    rw [map_map]; exact nodup_map_setTuple i₁ d₁
  have keys₂ : ((sets₂.map (fun s => (setTuple s, sortPairs (W₂ s)))).map Prod.fst).Nodup := by
    rw [map_map]; exact nodup_map_setTuple i₂ d₂
  refine sortOn_perm_eq totalOrd_lexLe Prod.fst ?_ keys₁
  refine (perm_ext_iff_of_nodup (nodup_of_nodup_map _ keys₁) (nodup_of_nodup_map _ keys₂)).mpr ?_
  intro entry
  exact ⟨split_entry_transfer hX hk hK i₁ d₁ i₂ d₂ hW₁ hW₂ entry,
         split_entry_transfer hX.symm hk₂ (fun k => (hK k).symm) i₂ d₂ i₁ d₁ hW₂ hW₁ entry⟩

/-- every bucket of the model's splitKerning holds its pairs in KerningPair order (part of `holdsPartition`) -/
theorem splitKerning_sorted (dflt : List String) (dir : List (String × String)) (gs : List (String × List String))
    (pairs : List KPair) (r : List (List String × List KPair)) (h : splitKerning dflt dir gs pairs = some r) :
    ∀ e, e ∈ r → e.2.Pairwise (fun a b => keyLe a.key b.key = true) := by
  simp only [splitKerning] at h
  cases hm : mergeScripts (pairs.foldl (fun d p => (partitionByScript dflt dir gs p).foldl (fun d sp => bucketAdd d sp.1 sp.2) d) []) with
  | none => rw [hm] at h; simp at h
  | some m =>
    rw [hm] at h
    simp only [Option.map_some, Option.some.injEq] at h
    subst h
    intro e he
    obtain ⟨e', _, rfl⟩ := mem_map.mp he
    exact sortOn_sorted totalOrd_keyLe KPair.key _

/-! ### non-vacuity: the hypotheses of the main theorems are met by concrete non-trivial inputs -/

def exGs : List (String × List String) := [("A", ["Latn"]), ("V", ["Latn"]), ("alef", ["Hebr"])]
def exDir : List (String × String) := [("Latn", "LTR"), ("Hebr", "RTL")]
def exPairs : List KPair := [⟨.glyph "A", .glyph "V", -50⟩, ⟨.glyph "alef", .glyph "alef", -10⟩, ⟨.glyph "V", .glyph "A", 7⟩]

theorem exPairs_split : exPairs.flatMap (partitionByScript ["Zyyy", "Zinh"] exDir exGs) =
    [(["Latn"], ⟨.glyph "A", .glyph "V", -50⟩), (["Hebr"], ⟨.glyph "alef", .glyph "alef", -10⟩), (["Latn"], ⟨.glyph "V", .glyph "A", 7⟩)] := by
  simp [exPairs, exGs, exDir, partitionByScript, sideDirections, resolveScripts, setTuple, sortStr, sideScripts, union, addDir,
    alookup, Side.glyphs, Side.isClass, COMMON]

/-- `splitKerning_perm` applies to a three-pair, two-script kerning table and its reversal -/
example : (splitKerning ["Zyyy", "Zinh"] exDir exGs exPairs).map (sortOn lexLe Prod.fst) =
    (splitKerning ["Zyyy", "Zinh"] exDir exGs exPairs.reverse).map (sortOn lexLe Prod.fst) := by
  refine splitKerning_perm _ _ _ (reverse_perm _).symm ?_ ?_
  · rw [exPairs_split]; simp [KPair.key, Side.glyphs, Side.isClass]
  · rw [exPairs_split]; intro x hx; simp at hx; rcases hx with rfl | rfl | rfl <;> simp

def exLookups : List (String × List (String × String)) :=
  [("Latn", [("kern_Latn", "kern_Latn"), ("kern_Latn_marks", "kern_Latn_marks")]), ("Zyyy", [("kern_Default", "kern_Default")]),
   ("Hebr", [("kern_Hebr", "kern_Hebr")]), ("Deva", [("kern_Deva", "kern_Deva")])]

def exCtx : RegCtx :=
  { isKern := true, distEnabled := ["Deva"], dfltScripts := ["Zyyy", "Zinh"], dir := [("Latn", "LTR"), ("Hebr", "RTL"), ("Zyyy", "Auto")],
    otTags := [("Latn", ["latn"]), ("Hebr", ["hebr"]), ("Deva", ["dev2", "deva"])], feaLangs := [("latn", ["dflt", "TRK "])] }

example : registerLookups exCtx exLookups = registerLookups exCtx exLookups.reverse :=
  registerLookups_perm exCtx (reverse_perm _).symm (by decide)

example : lookupGroupsOut exLookups = lookupGroupsOut exLookups.reverse :=
  lookupGroupsOut_perm (reverse_perm _).symm (by decide)

example : classDefsOut [("kern1.Latn.A", 1), ("kern1.Default.A", 2), ("kern2.Latn.V", 3)] =
    classDefsOut [("kern2.Latn.V", 3), ("kern1.Latn.A", 1), ("kern1.Default.A", 2)] :=
  classDefsOut_perm (by decide) (by decide)

example : groupMarkClasses "MC" [("_bottom", -2), ("_top", -1)] [("acute", ["MC_top"]), ("cedilla", ["MC_bottom", "MC_top"])] =
    groupMarkClasses "MC" [("_bottom", -2), ("_top", -1)] [("cedilla", ["MC_top", "MC_bottom"]), ("acute", ["MC_top"])] :=
  (groupMarkClasses_perm _ _ (by decide : [("acute", ["MC_top"]), ("cedilla", ["MC_bottom", "MC_top"])].Perm
      [("cedilla", ["MC_bottom", "MC_top"]), ("acute", ["MC_top"])])).trans
    (groupMarkClasses_sets _ _ ⟨rfl, by decide, rfl, Perm.refl _, trivial⟩)

example : cursivePairs ["entry", "exit.alt", "exit", "entry.alt", "top"] = cursivePairs ["top", "entry.alt", "exit", "exit.alt", "entry"] :=
  cursivePairs_perm (by decide) (by decide)

example : anchorsToAdd [] (fun n => if n = "top" then [("top_1", 10, 700), ("top_2", 300, 700)] else if n = "top_1" then [("top_1", 500, 650)] else []) id ["top", "top_1"] =
    anchorsToAdd [] (fun n => if n = "top" then [("top_1", 10, 700), ("top_2", 300, 700)] else if n = "top_1" then [("top_1", 500, 650)] else []) id ["top_1", "top"] :=
  anchorsToAdd_perm _ _ _ (by decide)

example : mergedSets [["Latn"], ["Grek", "Latn"], ["Hebr"], ["Cyrl", "Grek"]] ≠ [] := by
  intro h
  have := (mergedSets_spec [["Latn"], ["Grek", "Latn"], ["Hebr"], ["Cyrl", "Grek"]] (by decide)).1.covers ["Hebr"] (by simp) (by simp)
  rw [h] at this; simp at this

/-! ### library / inplace independence of the glyph copy -/

theorem map_anchor_id (l : List AnchorRec) :
    l.map (fun a => ({ name := a.name, x := a.x, y := a.y, identifier := a.identifier, color := a.color } : AnchorRec)) = l := by
  induction l with
  | nil => rfl
  | cons a l ih => simp only [map_cons, ih]

/-- **C08_lib**: the copy the pre-processors work on when `inplace=False` shows the compilers exactly what the
source glyph shows them (name, width, height, unicodes, anchors with ALL their fields, lib, points), whichever UFO
library the glyph comes from; only guidelines / note / image are dropped. -/
theorem C08_lib (g : GlyphRec) : (copyGlyph g).observable = g.observable := by
  simp only [copyGlyph, GlyphRec.observable, map_anchor_id]

theorem C08_lib_holds (g : GlyphRec) : holdsCopy g (copyGlyph g) (copyGlyph g) = true := by
  simp [holdsCopy, C08_lib]

/-- copying twice changes nothing more -/
theorem copyGlyph_idem (g : GlyphRec) : copyGlyph (copyGlyph g) = copyGlyph g := by
  simp only [copyGlyph, map_anchor_id]

/-- non-vacuity: an anchor identifier (what contextual mark anchors hang on) survives; a note does not -/
example : (copyGlyph ⟨"a", 500, 0, [97], [⟨"*top", 10, 20, some "id1", none⟩], "{}", "[]", some "n", ["g"], none⟩).anchors
    = [⟨"*top", 10, 20, some "id1", none⟩] := rfl
example : (copyGlyph ⟨"a", 500, 0, [97], [], "{}", "[]", some "n", ["g"], none⟩).note = none := rfl

/-! ### a set that IS written out in iteration order: the `MFS_…` mark-filtering classes (kern 604-629) -/

/-- the generated FEATURE TEXT (`@MFS_kern_… = [ … ];`, visible through `debugFeatureFile`) depends on the hash
seed: measured on the unchanged tree in 3 of 12 random fonts, while the fonts are byte-identical. -/
theorem spacingMarks_order_matters :
    ∃ (l₁ l₂ : List String), l₁.Perm l₂ ∧ spacingMarks (fun _ => true) l₁ ≠ spacingMarks (fun _ => true) l₂ :=
  ⟨["acutecomb", "macroncomb"], ["macroncomb", "acutecomb"], by decide, by decide⟩

/-- … but the compiled font does not: the class only matters as a set. -/
theorem markFilterCoverage_perm (gid : String → Nat) (nonzero : String → Bool) {l₁ l₂ : List String} (hp : l₁.Perm l₂)
    (hinj : ∀ a b, a ∈ l₁ → b ∈ l₁ → gid a = gid b → a = b) :
    markFilterCoverage gid (spacingMarks nonzero l₁) = markFilterCoverage gid (spacingMarks nonzero l₂) :=
  sortOn_perm_eq_of_inj totalOrd_natLe gid (hp.filter _)
    (fun a b ha hb => hinj a b (mem_filter.mp ha).1 (mem_filter.mp hb).1)

/-! ### InfoCompiler: variable-font fontinfo overrides never reach the master's Info (infoCompiler.py 29-44) -/

theorem alookup_replace_ne (d : InfoD) (k v k' : String) (h : k' ≠ k) :
    alookup k' (d.map (fun x => if x.1 == k then (k, v) else x)) = alookup k' d := by
  induction d with
  | nil => rfl
  | cons x d ih =>
    obtain ⟨a, b⟩ := x
    simp only [beq_iff_eq] at ih
    by_cases hak : a = k
    · subst hak
      have : ¬ a = k' := fun e => h e.symm
      simp [alookup, this, ih]
    · simp [alookup, hak, ih]

theorem alookup_replace_self (d : InfoD) (k v : String) (h : (d.map Prod.fst).contains k = true) :
    alookup k (d.map (fun x => if x.1 == k then (k, v) else x)) = some v := by
  induction d with
  | nil => simp at h
  | cons x d ih =>
    obtain ⟨a, b⟩ := x
    by_cases hak : a = k
    · subst hak; simp [alookup]
    · have hka : ¬ k = a := fun e => hak e.symm
      have h' : (d.map Prod.fst).contains k = true := by simpa [hka] using h
      have ih' := ih h'
      simp only [beq_iff_eq] at ih'
      simp [alookup, hak, ih']

theorem alookup_snoc (d : InfoD) (k v k' : String) :
    alookup k' (d ++ [(k, v)]) = match alookup k' d with
      | some x => some x
      | none => if k' = k then some v else none := by
  induction d with
  | nil =>
    by_cases h : k = k'
    · subst h; simp [alookup]
    · have : ¬ k' = k := fun e => h e.symm
      simp [alookup, h, this]
  | cons x d ih =>
    obtain ⟨a, b⟩ := x
    by_cases hak : a = k'
    · simp [alookup, hak]
    · simp [alookup, hak, ih]

theorem alookup_none_of_not_contains (d : InfoD) (k : String) (h : ¬ (d.map Prod.fst).contains k = true) :
    alookup k d = none := by
  induction d with
  | nil => rfl
  | cons x d ih =>
    obtain ⟨a, b⟩ := x
    simp only [map_cons, contains_cons, Bool.or_eq_true, not_or] at h
    have hka : ¬ a = k := by
      intro e; exact h.1 (by simp [e])
    simp [alookup, hka, ih h.2]

/-- `setattr(info, k, v)` / `data[k] = v`: afterwards `k` reads `v`, every other attribute reads as before -/
theorem alookup_setKey (d : InfoD) (k v k' : String) :
    alookup k' (dictUpdate d [(k, v)]) = if k' = k then some v else alookup k' d := by
  simp only [dictUpdate]
  by_cases hk : k' = k
  · subst hk
    simp only [if_true]
    split
    · rename_i hc; exact alookup_replace_self d k' v hc
    · rename_i hc
      rw [alookup_snoc, alookup_none_of_not_contains d k' hc]; simp
  · simp only [hk, if_false]
    split
    · exact alookup_replace_ne d k v k' hk
    · rw [alookup_snoc]; cases alookup k' d <;> simp [hk]

theorem dictUpdate_cons (d : InfoD) (k v : String) (e : InfoD) :
    dictUpdate d ((k, v) :: e) = dictUpdate (dictUpdate d [(k, v)]) e := by
  simp only [dictUpdate]
  split <;> rfl

/-- `data.update(info)` is the `setattr` loop -/
theorem dictUpdate_eq_foldl (d e : InfoD) :
    dictUpdate d e = e.foldl (fun d kv => dictUpdate d [(kv.1, kv.2)]) d := by
  induction e generalizing d with
  | nil => rfl
  | cons x e ih => obtain ⟨k, v⟩ := x; rw [dictUpdate_cons, ih]; rfl

/-- reading the merged Info: the override when there is one, else the master's value (override keys distinct: they come
from a dict) -/
theorem alookup_dictUpdate (d e : InfoD) (hn : (e.map Prod.fst).Nodup) (k : String) :
    alookup k (dictUpdate d e) = match alookup k e with
      | some v => some v
      | none => alookup k d := by
  induction e generalizing d with
  | nil => rfl
  | cons x e ih =>
    obtain ⟨a, b⟩ := x
    simp only [map_cons, nodup_cons] at hn
    rw [dictUpdate_cons, ih _ hn.2, alookup_setKey]
    by_cases hk : a = k
    · subst hk
      have : alookup a e = none := alookup_none_of_not_contains e a (by simpa using hn.1)
      simp [alookup, this]
    · have : ¬ k = a := fun h => hk h.symm
      simp [alookup, hk, this]


theorem Heap.get_setattr (h : Heap) (t r : Nat) (k v : String) :
    (h.setattr t k v).get r = if r = t ∧ t < h.objs.length then dictUpdate (h.get t) [(k, v)] else h.get r := by
  simp only [Heap.setattr, Heap.get, List.getD_eq_getElem?_getD, List.getElem?_set]
  by_cases hrt : t = r
  · subst hrt
    by_cases hl : t < h.objs.length
    · simp [hl]
    · simp [hl]
  · have : ¬ r = t := fun e => hrt e.symm
    simp [hrt, this]

theorem Heap.length_setattr (h : Heap) (t : Nat) (k v : String) : (h.setattr t k v).objs.length = h.objs.length := by
  simp [Heap.setattr]

/-- a `setattr` loop on the object at `t`: only that object changes, and it becomes `dictUpdate · ov` -/
theorem Heap.foldl_setattr (ov : InfoD) (h : Heap) (t : Nat) (ht : t < h.objs.length) :
    ((ov.foldl (fun h kv => h.setattr t kv.1 kv.2) h).objs.length = h.objs.length) ∧
    (∀ r, (ov.foldl (fun h kv => h.setattr t kv.1 kv.2) h).get r = if r = t then dictUpdate (h.get t) ov else h.get r) := by
  induction ov generalizing h with
  | nil => exact ⟨rfl, fun r => by by_cases e : r = t <;> simp [e, dictUpdate]⟩
  | cons x ov ih =>
    obtain ⟨k, v⟩ := x
    have hl := Heap.length_setattr h t k v
    obtain ⟨l1, g1⟩ := ih (h.setattr t k v) (by omega)
    refine ⟨by simpa [hl] using l1, fun r => ?_⟩
    simp only [foldl_cons]
    rw [g1 r, Heap.get_setattr, Heap.get_setattr]
    by_cases e : r = t
    · subst e
      simp only [ht, and_self, if_true]
      exact (dictUpdate_cons _ _ _ _).symm
    · simp [e]

theorem Heap.get_alloc_old (h : Heap) (d : InfoD) (r : Nat) (hr : r < h.objs.length) : (h.alloc d).1.get r = h.get r := by
  simp [Heap.alloc, Heap.get, List.getD_eq_getElem?_getD, List.getElem?_append_left hr]

theorem Heap.get_alloc_new (h : Heap) (d : InfoD) : (h.alloc d).1.get (h.alloc d).2 = d := by
  simp [Heap.alloc, Heap.get, List.getD_eq_getElem?_getD]

/-- the temporary Info is a NEW object -/
theorem infoInit_fresh (lib : UfoLib) (h : Heap) (src : Nat) (ov : InfoD) : (infoInit lib h src ov).2 = h.objs.length := by
  cases lib <;> rfl

/-- **infoInit_frame**: InfoCompiler's constructor writes to no Info object that existed before the call — in
particular not to the default master's (`r = src`) — for a defcon and for a ufoLib2 master, whatever the overrides. -/
theorem infoInit_frame (lib : UfoLib) (h : Heap) (src : Nat) (ov : InfoD) (r : Nat) (hr : r < h.objs.length) :
    (infoInit lib h src ov).1.get r = h.get r := by
  cases lib with
  | defcon => exact Heap.get_alloc_old h _ r hr
  | ufoLib2 =>
    simp only [infoInit]
    have hlen : (h.alloc (h.get src)).2 < (h.alloc (h.get src)).1.objs.length := by simp [Heap.alloc]
    rw [(Heap.foldl_setattr ov _ _ hlen).2 r]
    have : ¬ r = (h.alloc (h.get src)).2 := by simp only [Heap.alloc]; omega
    simp only [this, if_false]
    exact Heap.get_alloc_old h _ r hr

/-- **infoInit_temp**: the temporary UFO's Info is the master's Info updated with the overrides — the same for both UFO
libraries (serialise / update / deserialise  =  copy / setattr loop). -/
theorem infoInit_temp (lib : UfoLib) (h : Heap) (src : Nat) (ov : InfoD) :
    (infoInit lib h src ov).1.get (infoInit lib h src ov).2 = dictUpdate (h.get src) ov := by
  cases lib with
  | defcon => exact Heap.get_alloc_new h _
  | ufoLib2 =>
    simp only [infoInit]
    have hlen : (h.alloc (h.get src)).2 < (h.alloc (h.get src)).1.objs.length := by simp [Heap.alloc]
    rw [(Heap.foldl_setattr ov _ _ hlen).2]
    simp only [if_true]
    rw [Heap.get_alloc_new]

theorem infoInit_lib_agnostic (h : Heap) (src : Nat) (ov : InfoD) :
    (infoInit .ufoLib2 h src ov).1.get (infoInit .ufoLib2 h src ov).2 =
      (infoInit .defcon h src ov).1.get (infoInit .defcon h src ov).2 := by
  rw [infoInit_temp, infoInit_temp]

/-- **C08_vfinfo**: on the model, both predicates of the spec hold for every master Info, every set of overrides and both
libraries: the master's Info is unchanged, and the temporary Info reads the override where there is one and the
master's value elsewhere. -/
theorem C08_vfinfo (lib : UfoLib) (h : Heap) (src : Nat) (hs : src < h.objs.length) (ov : InfoD)
    (hn : (ov.map Prod.fst).Nodup) :
    holdsInfoStable (h.get src) ((infoInit lib h src ov).1.get src) = true ∧
    holdsOverride (h.get src) ov ((infoInit lib h src ov).1.get (infoInit lib h src ov).2) = true := by
  refine ⟨by simp [holdsInfoStable, infoInit_frame lib h src ov src hs], ?_⟩
  rw [infoInit_temp]
  simp only [holdsOverride, all_eq_true, beq_iff_eq]
  intro e _
  exact alookup_dictUpdate _ _ hn e.1

/-- what the copy is for: with `temp_ufo.info = ufo.info` the loop writes the overrides into the MASTER's Info -/
theorem infoInitAliased_touches (h : Heap) (src : Nat) (hs : src < h.objs.length) (ov : InfoD) :
    (infoInitAliased h src ov).1.get src = dictUpdate (h.get src) ov := by
  simp only [infoInitAliased]
  rw [(Heap.foldl_setattr ov h src hs).2 src]; simp

example : (infoInitAliased ⟨[[("familyName", "\"Fam\""), ("ascender", "\"800\"")]]⟩ 0 [("familyName", "\"Fam VF\"")]).1.get 0
    = [("familyName", "\"Fam VF\""), ("ascender", "\"800\"")] := by decide
example : (infoInit .ufoLib2 ⟨[[("familyName", "\"Fam\""), ("ascender", "\"800\"")]]⟩ 0 [("familyName", "\"Fam VF\""), ("xHeight", "\"510\"")]).1.objs
    = [[("familyName", "\"Fam\""), ("ascender", "\"800\"")], [("familyName", "\"Fam VF\""), ("ascender", "\"800\""), ("xHeight", "\"510\"")]] := by decide

/-- a variable build with overrides leaves the default master's Info as it was: the C07 hypothesis of `C08_history`
for the Info component, proved instead of assumed -/
theorem touchInfo_id (lib : UfoLib) (ov d : InfoD) : touchInfo lib ov d = d := by
  have := infoInit_frame lib ⟨[d]⟩ 0 ov 0 (by simp)
  simpa [touchInfo, Heap.get] using this

/-- **C08_history_vfinfo**: a history in which every call is allowed to run InfoCompiler with arbitrary variable-font
overrides on the master (static after variable, variable twice, …): every call returns what a first call returns. -/
theorem C08_history_vfinfo (build : O → List String → FeaClass → InfoD → F) (lib : UfoLib) (ov : InfoD)
    (s : Source InfoD) (calls : List (O × Option (List String) × Option FeaClass)) :
    history build (fun s => { s with content := touchInfo lib ov s.content }) s calls =
      calls.map (fun c => publicCompile build c.1 c.2.1 c.2.2 s) :=
  C08_history build _ (fun s => by simp [touchInfo_id]) s calls


end Ufo2ft.C08
