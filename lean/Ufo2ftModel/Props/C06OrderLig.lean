import Ufo2ftModel.Props.C06Order
import Ufo2ftModel.Props.C06AttachLig
/-!
C06, part 19: WHICH candidate wins when several anchor keys match a (ligature, component, mark) triple — the mark-to-ligature
case in the default mode (`groupMarkClasses` off; the groupMarkClasses mode is OUT OF SCOPE here, as in C06Order).

The code is the same `_groupAttachments` / `_makeMarkLookup` path as for mark-to-base: one MarkLigPos lookup per mark class in
ascending order of the ANCHOR KEY, empty lookups dropped, the shaper lets the last applicable lookup win.  So for component
number N of a ligature the attachment of mark `m` is the one of the GREATEST key `k` such that the ligature has a plain anchor
`k_N` and the mark has `_k`.

One thing differs from mark-to-base: the anchor of a given (key, number) on one glyph need NOT be unique — `top_1` and `top_01`
both parse to key `top`, number 1 (`int("01") == 1`), both land in the same component list with the same mark class.  The
theorem therefore concludes "through SOME plain anchor of the greatest matching key and that number"; under the additional
hypothesis that this anchor is unique the attachment is exactly base anchor − mark anchor of the given pair
(`C06_candidate_order_lig_unique_partial`).  Which of several same-key same-number anchors wins (in the model's shaper the one
with the greatest NAME: `_marksAsAST` sorts by name and the later `<anchor> mark @MC` of a component overrides) is not proved.
-/
namespace Ufo2ft.C06
open List

/-! ### one mark-to-ligature lookup -/
/-- the body of `_makeMarkLookup` for one group of (already class-filtered) mark-to-ligature attachments -/
def mkLigLookup (feat : String) (inc : String → Bool) (mf : NA → Bool) (atts : List (String × List (List BAnchor))) :
    Option Lookup :=
  let es := (atts.filter (fun att => inc att.1)).filterMap (fun att =>
    let cs := att.2.map (fun comp => comp.filter (fun b => mf b.a))
    if cs.all (·.isEmpty) then none else some (⟨att.1, cs.map compAST⟩ : Entry))
  if es.isEmpty then none else some ⟨feat, .liga, es⟩

theorem ligLookups_eq (feat : String) (inc : String → Bool) (mf : NA → Bool)
    (grouped : List (List (String × List (List BAnchor)))) :
    ligLookups feat inc mf grouped = grouped.filterMap (mkLigLookup feat inc mf) := rfl

/-- the mark anchor of a pair is determined by the key: anchor names are unique per glyph and the key gives the name `_key` -/
theorem pair_mark_unique {i : Input} {al : AList} (w : ALwf i al) {b m : String} {ab am ab' am' : NA}
    (p : Pair al b m ab am) (p' : Pair al b m ab' am') (hk : ab'.key = ab.key) : am' = am := by
  obtain ⟨ms, hms, hm⟩ := p.hm
  obtain ⟨ms', hms', hm'⟩ := p'.hm
  have e2 : ms' = ms := mem_unique_of_nodup_keys w.keys hms' hms
  subst e2
  have n1 := markName_of_key (w.shape _ hms _ hm p.cm) p.mm
  have n2 := markName_of_key (w.shape _ hms _ hm' p'.cm) p'.mm
  have hn : am'.name = am.name := by rw [n1, n2, p.key, p'.key, hk]
  exact injOn_of_nodup_map (w.names _ hms) am' hm' am hm hn

/-- what the mark-to-ligature lookup of the mark class `cn` = class of key `k` does to (b, component j, m): if it attaches,
    then through a plain anchor of key `k` and number j+1 on `b` (which passes the feature's anchor filter) and `_k` on `m` -/
theorem mkLig_attach_some {i : Input} {al : AList} (w : ALwf i al) {feat : String} {inc : String → Bool} {mf : NA → Bool}
    {k cn : String} (hk : alookup k (kmOf i al) = some cn) {L : Lookup}
    (hL : mkLigLookup feat inc mf ((laOf i al).filterMap (filterLig [cn])) = some L)
    {b m : String} {j : Nat} {d : Int × Int} (h : attachLookup (build i al) L b m (some j) = some d) :
    ∃ ab am, Pair al b m ab am ∧ ab.ctx = none ∧ ab.number = some (j + 1) ∧ mf ab = true ∧ ab.key = k ∧
      d = (otRound ab.x - otRound am.x, otRound ab.y - otRound am.y) := by
  obtain ⟨_, e, he, heg, cls, hcls, _, r, hr, hrm, comp, hcomp, t, ht, htc, hd⟩ := attachLookup_some h
  unfold mkLigLookup at hL
  simp only at hL
  split at hL
  · simp at hL
  · simp only [Option.some.injEq] at hL; subst hL
    try simp only at he
    obtain ⟨att, hatt, hfe⟩ := mem_filterMap.mp he
    try simp only at hfe
    split at hfe
    · simp at hfe
    · simp only [Option.some.injEq] at hfe; subst hfe
      simp only [Option.getD_some, getElem?_map] at hcomp
      simp only at heg
      obtain ⟨att0, hatt0, hf'⟩ := mem_filterMap.mp (mem_filter.mp hatt).1
      obtain ⟨e1, e2⟩ := filterLig_some hf'
      rw [e2, getElem?_map] at hcomp
      cases hc0 : att0.2[j]? with
      | none => rw [hc0] at hcomp; simp at hcomp
      | some c0 =>
        rw [hc0] at hcomp
        simp only [Option.map_some, Option.some.injEq] at hcomp
        subst hcomp
        obtain ⟨x, hx, rfl⟩ := mem_compAST ht
        obtain ⟨hx1, hmfx⟩ := mem_filter.mp hx
        obtain ⟨hx2, hxc⟩ := mem_filter.mp hx1
        have hxcn : x.cls = cn := by simpa using hxc
        obtain ⟨_, _, hbok⟩ := ligAtts_ok hatt0
        obtain ⟨hain, hclass, hnum, hplain⟩ := hbok j c0 hc0 x hx2
        rw [← e1, heg] at hain
        have hainb := anchorIn_of_prune hain
        have hcls' : cls ∈ clsOf i al := hcls
        obtain ⟨aM, ⟨asm, hasm, ham⟩, hmark, _, hcn, hgn, hrx, hry, hsM⟩ := clsOf_mem w hcls' hr
        rw [hrm] at hasm
        obtain ⟨hnm, _, n, hnmem, hkey, hcn2⟩ := classOf_kmOf w hclass
        have hn : n = aM.name := by
          have : cnOf i al n = cnOf i al aM.name := by rw [← hcn2, ← hcn, ← htc]
          exact (makeClasses_meOf w).2 n hnmem aM.name hgn this
        have hkeys : aM.key = x.a.key := by rw [← hkey, hn, keyOfMarkName_eq hsM hmark]
        have hctxM : aM.ctx = none := plain_of_us w hasm ham (hsM.mark hmark).1
        have hxk : x.a.key = k := kmOf_inj w (by rw [classOf_alookup hclass, hxcn]) hk
        refine ⟨x.a, aM, ⟨hainb, ⟨asm, hasm, ham⟩, hnm, hmark, hctxM, hkeys⟩, hplain, hnum, hmfx, hxk, ?_⟩
        rw [hd, hrx, hry]

/-- the mark-to-ligature lookup of the class of the pair's key exists and attaches the triple -/
theorem mkLig_attach_of_pair {i : Input} {al : AList} (w : ALwf i al) {b m : String} {ab am : NA} (p : Pair al b m ab am)
    (hok : markOK i m = true) (hpl : ab.ctx = none) (j : Nat) (hnum : ab.number = some (j + 1)) (hnmg : b ∉ mgOf i al)
    (hlig : ligOK i b = true)
    (hnonull : ∀ as, (b, as) ∈ al → ∀ a ∈ as, a.ctx = none → a.number = some (j + 1) → a.key ≠ "")
    (feat : String) (inc : String → Bool) (mf : NA → Bool) (hinc : inc b = true) (hmf : mf ab = true) :
    ∃ L, mkLigLookup feat inc mf ((laOf i al).filterMap (filterLig [cnOf i al am.name])) = some L ∧
      (attachLookup (build i al) L b m (some j)).isSome = true := by
  have hcl := pair_classOf w p hok
  obtain ⟨recs, hcls, r, hr, hrg⟩ := pair_class w p hok
  obtain ⟨as', has', hab'⟩ := pair_prune_b w p
  -- the anchor reaches the component bookkeeping
  have hev : ab ∈ ligEvents (kmOf i al) (plainOf as') := mem_filter.mpr ⟨mem_plainOf_of hab' hpl, by simp [hnum, hcl]⟩
  have hnn : ∀ a' ∈ ligEvents (kmOf i al) (plainOf as'), a'.number = some (j + 1) → a'.key ≠ "" := by
    intro a' ha' hn'
    obtain ⟨_, as, has, e⟩ := mem_prune has'
    simp only at e
    have : a' ∈ as := by
      have := (mem_plainOf (mem_filter.mp ha').1).1
      rw [e] at this; exact (mem_filter.mp this).1
    exact hnonull as has a' this (mem_plainOf (mem_filter.mp ha').1).2 hn'
  have hcomp : (⟨ab, cnOf i al am.name⟩ : BAnchor) ∈ compOf (kmOf i al) (ligEvents (kmOf i al) (plainOf as')) (j + 1) :=
    mem_compOf_of hev hnum hcl hnn
  have hget := ligBM_get hev hnum
  have hatt0 : (b, ligBM (kmOf i al) as') ∈ laOf i al := ligAtts_mem has' hnmg hlig (ne_nil_of_mem hev)
  obtain ⟨grp, hgrpeq⟩ : ∃ grp, grp = [cnOf i al am.name] := ⟨_, rfl⟩
  rw [← hgrpeq]
  have hcn : cnOf i al am.name ∈ grp := by rw [hgrpeq]; simp
  -- the grouped attachment
  have hfilter : filterLig grp (b, ligBM (kmOf i al) as') =
      some (b, (ligBM (kmOf i al) as').map (fun comp => comp.filter (fun x => grp.contains x.cls))) := by
    unfold filterLig
    simp only
    rw [if_neg]
    intro hall
    rw [all_eq_true] at hall
    have hm := hall _ (mem_map.mpr ⟨_, mem_of_getElem? hget, rfl⟩)
    have : (⟨ab, cnOf i al am.name⟩ : BAnchor) ∈
        (compOf (kmOf i al) (ligEvents (kmOf i al) (plainOf as')) (j + 1)).filter (fun x => grp.contains x.cls) :=
      mem_filter.mpr ⟨hcomp, by simpa using hcn⟩
    rw [isEmpty_iff] at hm
    rw [hm] at this; simp at this
  have hatt : (b, (ligBM (kmOf i al) as').map (fun comp => comp.filter (fun x => grp.contains x.cls))) ∈
      (laOf i al).filterMap (filterLig grp) := mem_filterMap.mpr ⟨_, hatt0, hfilter⟩
  generalize hes : (((laOf i al).filterMap (filterLig grp)).filter (fun att => inc att.1)).filterMap (fun att =>
      let cs := att.2.map (fun comp => comp.filter (fun x => mf x.a))
      if cs.all (·.isEmpty) then none else some (⟨att.1, cs.map compAST⟩ : Entry)) = es
  -- the shape of every entry, and of those for glyph b
  have hshape : ∀ e ∈ es, ∃ att0 ∈ laOf i al, e.glyph = att0.1 ∧
      e.comps = ((att0.2.map (fun comp => comp.filter (fun x => grp.contains x.cls))).map
        (fun comp => comp.filter (fun x => mf x.a))).map compAST := by
    intro e he
    rw [← hes] at he
    obtain ⟨att', hatt', hfe⟩ := mem_filterMap.mp he
    simp only at hfe
    split at hfe
    · simp at hfe
    · simp only [Option.some.injEq] at hfe; subst hfe
      obtain ⟨att0', hatt0', hf'⟩ := mem_filterMap.mp (mem_filter.mp hatt').1
      obtain ⟨e1, e2⟩ := filterLig_some hf'
      exact ⟨att0', hatt0', e1, by rw [e2]⟩
  have hentry : ∀ e ∈ es, e.glyph = b → ∃ comp, e.comps[j]? = some comp ∧
      (cnOf i al am.name, otRound ab.x, otRound ab.y) ∈ comp := by
    intro e he heg
    obtain ⟨att0', hatt0', e1, e2⟩ := hshape e he
    obtain ⟨as'', has'', e3⟩ := ligAtts_eq hatt0'
    rw [← e1, heg] at has''
    have hu : as'' = as' := mem_unique_of_nodup_keys ((prune_keys_sublist al).nodup w.keys) has'' has'
    rw [e2, e3, hu]
    simp only [getElem?_map, hget, Option.map_some]
    refine ⟨_, rfl, ?_⟩
    exact mem_compAST_of (b := ⟨ab, cnOf i al am.name⟩) (mem_filter.mpr ⟨mem_filter.mpr ⟨hcomp, by simpa using hcn⟩, hmf⟩)
  have hused : ∀ e ∈ es, ∀ comp ∈ e.comps, ∀ t ∈ comp, t.1 ∈ grp := by
    intro e he comp hcomp' t ht
    obtain ⟨att0', _, _, e2⟩ := hshape e he
    rw [e2] at hcomp'
    simp only [map_map, mem_map, Function.comp] at hcomp'
    obtain ⟨c0, _, rfl⟩ := hcomp'
    obtain ⟨x, hx, rfl⟩ := mem_compAST ht
    simpa using (mem_filter.mp (mem_filter.mp hx).1).2
  have he0 : ∃ e0 ∈ es, e0.glyph = b := by
    rw [← hes]
    refine ⟨(⟨b, (((ligBM (kmOf i al) as').map (fun comp => comp.filter (fun x => grp.contains x.cls))).map
      (fun comp => comp.filter (fun x => mf x.a))).map compAST⟩ : Entry),
      mem_filterMap.mpr ⟨_, mem_filter.mpr ⟨hatt, hinc⟩, ?_⟩, rfl⟩
    simp only
    rw [if_neg]
    intro hall
    rw [all_eq_true] at hall
    have hm := hall _ (mem_map.mpr ⟨_, mem_map.mpr ⟨_, mem_of_getElem? hget, rfl⟩, rfl⟩)
    have : (⟨ab, cnOf i al am.name⟩ : BAnchor) ∈
        ((compOf (kmOf i al) (ligEvents (kmOf i al) (plainOf as')) (j + 1)).filter (fun x => grp.contains x.cls)).filter (fun x => mf x.a) :=
      mem_filter.mpr ⟨mem_filter.mpr ⟨hcomp, by simpa using hcn⟩, hmf⟩
    rw [isEmpty_iff] at hm
    rw [hm] at this; simp at this
  obtain ⟨e0, he0, he0g⟩ := he0
  have hL : mkLigLookup feat inc mf ((laOf i al).filterMap (filterLig grp)) = some (⟨feat, .liga, es⟩ : Lookup) := by
    unfold mkLigLookup
    simp only
    rw [hes, if_neg]
    cases es with
    | nil => simp at he0
    | cons _ _ => simp
  refine ⟨_, hL, attachLookup_isSome rfl ⟨e0, he0, he0g⟩ ?_ ?_⟩
  · refine ⟨(cnOf i al am.name, recs), hcls, ?_, r, hr, hrg⟩
    obtain ⟨comp, hc, hx⟩ := hentry e0 he0 he0g
    exact mem_usedClasses.mpr ⟨e0, he0, comp, mem_of_getElem? hc, _, hx, rfl⟩
  · intro e he heg cls hcls' hu hm
    obtain ⟨comp, hc, hx⟩ := hentry e he heg
    obtain ⟨e', he', comp', hcomp', t', ht', htc'⟩ := mem_usedClasses.mp hu
    have hin : cls.1 ∈ grp := by rw [← htc']; exact hused e' he' comp' hcomp' t' ht'
    have hsame : cls.1 = cnOf i al am.name := by rw [hgrpeq] at hin; simpa using hin
    exact ⟨comp, hc, _, hx, hsame.symm⟩

/-! ### the mark-to-ligature lookups of one feature in the default mode -/
/-- the mark-to-ligature lookup `_makeMarkLookup` makes for the anchor key `k` -/
def ligLookupOfKey (i : Input) (al : AList) (feat : String) (inc : String → Bool) (mf : NA → Bool) (k : String) :
    Option Lookup :=
  (alookup k (kmOf i al)).bind (fun cn => mkLigLookup feat inc mf ((laOf i al).filterMap (filterLig [cn])))

/-- default mode: the mark-to-ligature lookups of a feature are the lookups of the anchor keys in ascending key order -/
theorem ligLookups_default {i : Input} {al : AList} (hg : i.group = false) (feat : String) (inc : String → Bool)
    (mf : NA → Bool) :
    ligLookups feat inc mf (glOf i al) =
      (sortStr ((kmOf i al).map (·.1))).filterMap (ligLookupOfKey i al feat inc mf) := by
  have hgl : glOf i al = (singleGroups (kmOf i al)).map (fun grp => (laOf i al).filterMap (filterLig grp)) := by
    unfold glOf lgroupsOf; simp [hg]
  rw [ligLookups_eq, hgl]
  unfold singleGroups
  rw [filterMap_map, filterMap_filterMap]
  congr 1
  funext k
  unfold ligLookupOfKey
  cases alookup k (kmOf i al) <;> rfl

/- FULL STATEMENT (not proved in full): as in C06Order — for every query (b, m, c), `attach P P.lookups b m c` is the offset of
   the pair selected by the last feature / greatest key (default mode) or last colour group (groupMarkClasses mode); for a
   ligature component additionally: among several anchors of the same key AND number (`top_1`, `top_01`) the one with the
   greatest name, and a key-less `_N` anchor resets the component so that only anchors AFTER it count.
   PROVED below: the mark-to-ligature lookups of any ONE feature in the default mode, and all lookups of the `mark` feature for a
   component query, for components not reset by a key-less anchor (`hnonull`), up to the choice among same-key same-number
   anchors.  MISSING: groupMarkClasses mode, the greatest-name rule, components with a `_N` reset, composition across features. -/
/-- **C06_candidate_order_lig_partial** (mark-to-ligature, default mode, one feature): when several anchor keys match the triple
    (ligature b, component number j+1, mark m), the mark-to-ligature lookups of a feature attach `m` through a plain anchor of
    `b` with that number whose key is the GREATEST among the matching keys that pass the anchor filter, and the mark's anchor
    of that key — at exactly base anchor − mark anchor. -/
theorem C06_candidate_order_lig_partial {i : Input} {al : AList} (w : ALwf i al) (hg : i.group = false) {b m : String}
    {ab am : NA} (p : Pair al b m ab am) (hok : markOK i m = true) (hpl : ab.ctx = none) (j : Nat)
    (hnum : ab.number = some (j + 1)) (hnmg : b ∉ mgOf i al) (hlig : ligOK i b = true)
    (hnonull : ∀ as, (b, as) ∈ al → ∀ a ∈ as, a.ctx = none → a.number = some (j + 1) → a.key ≠ "")
    (feat : String) (inc : String → Bool) (mf : NA → Bool) (hinc : inc b = true) (hmf : mf ab = true)
    (hmax : ∀ ab' am', Pair al b m ab' am' → ab'.ctx = none → ab'.number = some (j + 1) → mf ab' = true →
      ab'.key ≤ ab.key) :
    ∃ ab'', Pair al b m ab'' am ∧ ab''.ctx = none ∧ ab''.number = some (j + 1) ∧ mf ab'' = true ∧ ab''.key = ab.key ∧
      attach (build i al) (ligLookups feat inc mf (glOf i al)) b m (some j) =
        some (otRound ab''.x - otRound am.x, otRound ab''.y - otRound am.y) := by
  have hkm : alookup ab.key (kmOf i al) = some (cnOf i al am.name) := classOf_alookup (pair_classOf w p hok)
  obtain ⟨L, hL, hs⟩ := mkLig_attach_of_pair w p hok hpl j hnum hnmg hlig hnonull feat inc mf hinc hmf
  have hF : ligLookupOfKey i al feat inc mf ab.key = some L := by
    unfold ligLookupOfKey; rw [hkm]; exact hL
  cases hd : attachLookup (build i al) L b m (some j) with
  | none => rw [hd] at hs; simp at hs
  | some d =>
    obtain ⟨ab', am', p', hpl', hnum', hmf', hk', hd'⟩ := mkLig_attach_some w hkm hL hd
    have ham : am' = am := pair_mark_unique w p p' hk'
    subst ham
    refine ⟨ab', p', hpl', hnum', hmf', hk', ?_⟩
    unfold attach
    rw [ligLookups_default hg, ← filterMap_reverse, findSome?_filterMap']
    apply findSome?_reverse_sorted (sortStr_sorted _) (ks := ab.key)
    · exact mem_sortStr.mpr (mem_map.mpr ⟨_, alookup_some_mem hkm, rfl⟩)
    · rw [hF, Option.bind_some, hd, hd']
    · intro k _ hsome
      cases hG : (ligLookupOfKey i al feat inc mf k).bind (fun L => attachLookup (build i al) L b m (some j)) with
      | none => rw [hG] at hsome; simp at hsome
      | some d2 =>
        obtain ⟨L2, hF2, hd2⟩ := Option.bind_eq_some_iff.mp hG
        unfold ligLookupOfKey at hF2
        obtain ⟨cn, hcn, hL2⟩ := Option.bind_eq_some_iff.mp hF2
        obtain ⟨ab2, am2, p2, hpl2, hnum2, hmf2, hk2, _⟩ := mkLig_attach_some w hcn hL2 hd2
        rw [← hk2]
        exact hmax ab2 am2 p2 hpl2 hnum2 hmf2

/-- **C06_candidate_order_lig_unique_partial**: … and when the anchor of the greatest key and that number is the only one on
    the ligature (no `top_1` / `top_01` doubles), the attachment is exactly base anchor − mark anchor of the given pair. -/
theorem C06_candidate_order_lig_unique_partial {i : Input} {al : AList} (w : ALwf i al) (hg : i.group = false) {b m : String}
    {ab am : NA} (p : Pair al b m ab am) (hok : markOK i m = true) (hpl : ab.ctx = none) (j : Nat)
    (hnum : ab.number = some (j + 1)) (hnmg : b ∉ mgOf i al) (hlig : ligOK i b = true)
    (hnonull : ∀ as, (b, as) ∈ al → ∀ a ∈ as, a.ctx = none → a.number = some (j + 1) → a.key ≠ "")
    (feat : String) (inc : String → Bool) (mf : NA → Bool) (hinc : inc b = true) (hmf : mf ab = true)
    (hmax : ∀ ab' am', Pair al b m ab' am' → ab'.ctx = none → ab'.number = some (j + 1) → mf ab' = true →
      ab'.key ≤ ab.key)
    (huniq : ∀ ab' am', Pair al b m ab' am' → ab'.ctx = none → ab'.number = some (j + 1) → ab'.key = ab.key → ab' = ab) :
    attach (build i al) (ligLookups feat inc mf (glOf i al)) b m (some j) =
      some (otRound ab.x - otRound am.x, otRound ab.y - otRound am.y) := by
  obtain ⟨ab'', p'', hpl'', hnum'', _, hk'', h⟩ :=
    C06_candidate_order_lig_partial w hg p hok hpl j hnum hnmg hlig hnonull feat inc mf hinc hmf hmax
  rw [h, huniq ab'' am p'' hpl'' hnum'' hk'']

/-! ### the whole `mark` feature for a component query -/
theorem attach_append_left_none {P : Program} {l1 l2 : List Lookup} {b m : String} {c : Option Nat}
    (h : ∀ L ∈ l1, attachLookup P L b m c = none) : attach P (l1 ++ l2) b m c = attach P l2 b m c := by
  unfold attach
  rw [reverse_append, findSome?_append]
  have : l1.reverse.findSome? (fun L => attachLookup P L b m c) = none :=
    findSome?_eq_none_iff.mpr (fun L hL => h L (mem_reverse.mp hL))
  rw [this, Option.or_none]

theorem baseLookups_kind {feat : String} {inc : String → Bool} {mf : NA → Bool}
    {grouped : List (List (String × List BAnchor))} {L : Lookup} (h : L ∈ baseLookups feat inc mf grouped) :
    L.kind = .base := by
  obtain ⟨atts, _, hf⟩ := mem_filterMap.mp h
  try simp only at hf
  split at hf
  · simp at hf
  · simp only [Option.some.injEq] at hf; subst hf; rfl

theorem attachLookup_base_some_none {P : Program} {L : Lookup} {b m : String} {j : Nat} (h : L.kind = .base) :
    attachLookup P L b m (some j) = none := by
  unfold attachLookup; rw [h]; simp [kindMatches]

/-- **C06_candidate_order_mark_lig_partial**: the same for ALL lookups of the generated `mark` feature and a component query
    (the mark-to-base lookups never answer a query with a component index). -/
theorem C06_candidate_order_mark_lig_partial {i : Input} {al : AList} (w : ALwf i al) (hg : i.group = false) {b m : String}
    {ab am : NA} (p : Pair al b m ab am) (hok : markOK i m = true) (hpl : ab.ctx = none) (j : Nat)
    (hnum : ab.number = some (j + 1)) (hnmg : b ∉ mgOf i al) (hlig : ligOK i b = true)
    (hnonull : ∀ as, (b, as) ∈ al → ∀ a ∈ as, a.ctx = none → a.number = some (j + 1) → a.key ≠ "")
    (hinc : isNotAbvmG i b = true)
    (hmax : ∀ ab' am', Pair al b m ab' am' → ab'.ctx = none → ab'.number = some (j + 1) → ab'.key ≤ ab.key)
    (huniq : ∀ ab' am', Pair al b m ab' am' → ab'.ctx = none → ab'.number = some (j + 1) → ab'.key = ab.key → ab' = ab) :
    attach (build i al) (markLOf i al) b m (some j) = some (otRound ab.x - otRound am.x, otRound ab.y - otRound am.y) := by
  unfold markLOf
  rw [attach_append_left_none (fun L hL => attachLookup_base_some_none (baseLookups_kind hL))]
  exact C06_candidate_order_lig_unique_partial w hg p hok hpl j hnum hnmg hlig hnonull "mark" (isNotAbvmG i) mfAll hinc rfl
    (fun ab' am' p' h1 h2 _ => hmax ab' am' p' h1 h2) huniq

/-! ### non-vacuity: two matching keys on component 1 -/
/-- ligature `f_i` with `top_1` (100, 500), `top.alt_1` (150, 560), `top_2` (300, 500); mark `acutecomb` with `_top` (10, 20)
    and `_top.alt` (30, 40): both keys match (f_i, component 1, acutecomb) -/
def orderLigFont : Input :=
  { glyphs := [⟨"f_i", [{ name := "top_1", x := 100, y := 500 }, { name := "top.alt_1", x := 150, y := 560 },
                         { name := "top_2", x := 300, y := 500 }]⟩,
               ⟨"acutecomb", [{ name := "_top", x := 10, y := 20 }, { name := "_top.alt", x := 30, y := 40 }]⟩],
    gdef := none, quant := 1, group := false, abvm := [], notAbvm := ["f_i", "acutecomb"] }

def orderLigAL : AList :=
  [("f_i", [⟨"top_1", 100, 500, false, "top", some 1, none⟩, ⟨"top.alt_1", 150, 560, false, "top.alt", some 1, none⟩,
            ⟨"top_2", 300, 500, false, "top", some 2, none⟩]),
   ("acutecomb", [⟨"_top", 10, 20, true, "top", none, none⟩, ⟨"_top.alt", 30, 40, true, "top.alt", none, none⟩])]

theorem orderLigFont_al : anchorLists orderLigFont = .ok orderLigAL := by
  have h : (match anchorLists orderLigFont with | .ok al => decide (al = orderLigAL) | .error _ => false) = true := by
    decide +kernel
  cases h' : anchorLists orderLigFont with
  | ok al => rw [h'] at h; simpa using h
  | error e => rw [h'] at h; simp at h

/-- the hypotheses of C06_candidate_order_mark_lig_partial (hence of the two theorems it rests on) are met by a triple with TWO
    matching keys, and the theorem picks the greater key `top.alt`: (150 − 30, 560 − 40), not the `top` candidate (90, 480) -/
example : attach (build orderLigFont orderLigAL) (markLOf orderLigFont orderLigAL) "f_i" "acutecomb" (some 0) =
    some (120, 520) := by
  have w : ALwf orderLigFont orderLigAL := alwf_of_ok (by decide) orderLigFont_al
  have p : Pair orderLigAL "f_i" "acutecomb" ⟨"top.alt_1", 150, 560, false, "top.alt", some 1, none⟩
      ⟨"_top.alt", 30, 40, true, "top.alt", none, none⟩ :=
    ⟨⟨_, List.Mem.head _, List.Mem.tail _ (List.Mem.head _)⟩,
     ⟨_, List.Mem.tail _ (List.Mem.head _), List.Mem.tail _ (List.Mem.head _)⟩, rfl, rfl, rfl, rfl⟩
  have h := C06_candidate_order_mark_lig_partial w rfl p (by decide) rfl 0 rfl (by decide +kernel) (by decide)
    (by
      intro as has a ha _ _
      simp [orderLigAL] at has
      subst has
      simp at ha
      rcases ha with rfl | rfl | rfl <;> decide)
    (by decide)
    (by
      intro ab' am' p' _ _
      obtain ⟨as, has, ha⟩ := p'.hb
      simp [orderLigAL] at has
      subst has
      simp at ha
      rcases ha with rfl | rfl | rfl <;> decide)
    (by
      intro ab' am' p' _ hn hk
      obtain ⟨as, has, ha⟩ := p'.hb
      simp [orderLigAL] at has
      subst has
      simp at ha
      rcases ha with rfl | rfl | rfl
      · exact absurd hk (by decide)
      · rfl
      · exact absurd hk (by decide))
  rw [h]
  decide +kernel

end Ufo2ft.C06
