import Ufo2ftModel.Model.Filters
import Ufo2ftModel.Spec.Render
/-! Algebraic laws of the geometry model, shared by C01, C02, C13, C15. -/
namespace Ufo2ft
open List

namespace Affine

/-- `s.transform(o)` is function composition: first `o`, then `s`. -/
theorem apply_compose (s o : Affine) (p : Q × Q) : (s.compose o).apply p = s.apply (o.apply p) := by
  simp only [compose, apply]; ext <;> simp <;> grind

theorem det_compose (s o : Affine) : (s.compose o).det = s.det * o.det := by
  simp only [compose, det]; grind

theorem compose_id (s : Affine) : s.compose Affine.id = s := by
  cases s; simp only [compose, Affine.id, Affine.mk.injEq]; refine ⟨?_, ?_, ?_, ?_, ?_, ?_⟩ <;> grind

theorem id_compose (s : Affine) : Affine.id.compose s = s := by
  cases s; simp only [compose, Affine.id, Affine.mk.injEq]; refine ⟨?_, ?_, ?_, ?_, ?_, ?_⟩ <;> grind

theorem compose_assoc (a b c : Affine) : (a.compose b).compose c = a.compose (b.compose c) := by
  simp only [compose, Affine.mk.injEq]; refine ⟨?_, ?_, ?_, ?_, ?_, ?_⟩ <;> grind

theorem apply_id (p : Q × Q) : Affine.id.apply p = p := by
  simp only [apply, Affine.id]; ext <;> simp <;> grind

/-- **flatten core lemma**: `Transform(c).translate(tr.dx, tr.dy).transform((tr.xx, tr.xy, tr.yx, tr.yy, 0, 0))`
    is the composition `c ∘ tr` (translate-then-2×2 is the factorisation of an affine map). -/
theorem flatten_factor (c tr : Affine) :
    (c.translate tr.dx tr.dy).compose ⟨tr.xx, tr.xy, tr.yx, tr.yy, 0, 0⟩ = c.compose tr := by
  simp only [translate, compose, Affine.mk.injEq]; refine ⟨?_, ?_, ?_, ?_, ?_, ?_⟩ <;> grind

/-- inverse is a right and left inverse for non-singular matrices -/
theorem compose_inverse (m : Affine) (h : m.det ≠ 0) : m.compose m.inverse = Affine.id := by
  have hd : m.xx * m.yy - m.xy * m.yx ≠ 0 := h
  simp only [compose, inverse, det, Affine.id, Affine.mk.injEq]
  refine ⟨?_, ?_, ?_, ?_, ?_, ?_⟩ <;> grind

theorem inverse_compose (m : Affine) (h : m.det ≠ 0) : m.inverse.compose m = Affine.id := by
  have hd : m.xx * m.yy - m.xy * m.yx ≠ 0 := h
  simp only [compose, inverse, det, Affine.id, Affine.mk.injEq]
  refine ⟨?_, ?_, ?_, ?_, ?_, ?_⟩ <;> grind

/-- **transformations compensation**: a component of an already transformed base gets `M ∘ (T ∘ M⁻¹)`;
    applied to the base's transformed points `M(p)` this is `M(T(p))` — the matrix is applied once, not twice. -/
theorem compensation (m t : Affine) (h : m.det ≠ 0) (p : Q × Q) :
    (m.compose (t.compose m.inverse)).apply (m.apply p) = m.apply (t.apply p) := by
  rw [← apply_compose, compose_assoc, compose_assoc, inverse_compose m h, compose_id, apply_compose]

end Affine
end Ufo2ft
