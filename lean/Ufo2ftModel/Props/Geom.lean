import Ufo2ftModel.Model.Filters
import Ufo2ftModel.Spec.Render
/-! Algebraic laws of the geometry model, shared by C01, C02, C13, C15. -/
namespace Ufo2ft
open List

namespace Affine

/-- `s.transform(o)` is function composition: first `o`, then `s`. -/
theorem apply_compose (s o : Affine) (p : Q × Q) : (s.compose o).apply p = s.apply (o.apply p) := by
  simp only [compose, apply]; ext <;> simp <;> grind

theorem det_compose (s o : Affine) : (s.compose o).det = s.det * o.det := by
  simp only [compose, det]; grind

theorem compose_id (s : Affine) : s.compose Affine.id = s := by
  cases s; simp only [compose, Affine.id, Affine.mk.injEq]; refine ⟨?_, ?_, ?_, ?_, ?_, ?_⟩ <;> grind

theorem id_compose (s : Affine) : Affine.id.compose s = s := by
  cases s; simp only [compose, Affine.id, Affine.mk.injEq]; refine ⟨?_, ?_, ?_, ?_, ?_, ?_⟩ <;> grind

theorem compose_assoc (a b c : Affine) : (a.compose b).compose c = a.compose (b.compose c) := by
  simp only [compose, Affine.mk.injEq]; refine ⟨?_, ?_, ?_, ?_, ?_, ?_⟩ <;> grind

theorem apply_id (p : Q × Q) : Affine.id.apply p = p := by
  simp only [apply, Affine.id]; ext <;> simp <;> grind

/-- **flatten core lemma**: `Transform(c).translate(tr.dx, tr.dy).transform((tr.xx, tr.xy, tr.yx, tr.yy, 0, 0))`
    is the composition `c ∘ tr` (translate-then-2×2 is the factorisation of an affine map). -/
theorem flatten_factor (c tr : Affine) :
    (c.translate tr.dx tr.dy).compose ⟨tr.xx, tr.xy, tr.yx, tr.yy, 0, 0⟩ = c.compose tr := by
  simp only [translate, compose, Affine.mk.injEq]; refine ⟨?_, ?_, ?_, ?_, ?_, ?_⟩ <;> grind

/-- inverse is a right and left inverse for non-singular matrices -/
theorem compose_inverse (m : Affine) (h : m.det ≠ 0) : m.compose m.inverse = Affine.id := by
  have hd : m.xx * m.yy - m.xy * m.yx ≠ 0 := h
  simp only [compose, inverse, det, Affine.id, Affine.mk.injEq]
  refine ⟨?_, ?_, ?_, ?_, ?_, ?_⟩ <;> grind

theorem inverse_compose (m : Affine) (h : m.det ≠ 0) : m.inverse.compose m = Affine.id := by
  have hd : m.xx * m.yy - m.xy * m.yx ≠ 0 := h
  simp only [compose, inverse, det, Affine.id, Affine.mk.injEq]
  refine ⟨?_, ?_, ?_, ?_, ?_, ?_⟩ <;> grind

/-- **transformations compensation**: a component of an already transformed base gets `M ∘ (T ∘ M⁻¹)`;
    applied to the base's transformed points `M(p)` this is `M(T(p))` — the matrix is applied once, not twice. -/
theorem compensation (m t : Affine) (h : m.det ≠ 0) (p : Q × Q) :
    (m.compose (t.compose m.inverse)).apply (m.apply p) = m.apply (t.apply p) := by
  rw [← apply_compose, compose_assoc, compose_assoc, inverse_compose m h, compose_id, apply_compose]

end Affine
end Ufo2ft

namespace Ufo2ft
open List

/-! ### ReverseContourPointPen laws -/

@[simp] theorem Pt.map_seg (t : Affine) (p : Pt) : (p.map t).seg = p.seg := rfl

theorem Pt.map_compose (s o : Affine) (p : Pt) : p.map (s.compose o) = (p.map o).map s := by
  simp only [Pt.map, Affine.apply_compose]

theorem Contour.map_compose (s o : Affine) (c : Contour) :
    Contour.map (s.compose o) c = Contour.map s (Contour.map o c) := by
  simp only [Contour.map, List.map_map]
  apply List.map_congr_left; intro p _; exact Pt.map_compose s o p

theorem Pt.map_id (p : Pt) : p.map Affine.id = p := by
  cases p; simp [Pt.map, Affine.apply_id]

theorem Contour.map_id (c : Contour) : Contour.map Affine.id c = c := by
  simp only [Contour.map]
  rw [List.map_congr_left (g := fun p => p) (fun p _ => Pt.map_id p)]; simp

theorem retype_map (t : Affine) (l : List Pt) (s : Option Seg) :
    retype (l.map (Pt.map t)) s = (retype l s).map (Pt.map t) := by
  induction l generalizing s with
  | nil => rfl
  | cons p l ih =>
    simp only [List.map_cons, retype, Pt.map_seg]
    cases hp : p.seg with
    | none => simp [ih]
    | some x => simp [ih]; rfl

theorem firstOnCurve_map (t : Affine) (l : List Pt) : firstOnCurve (l.map (Pt.map t)) = firstOnCurve l := by
  induction l with
  | nil => rfl
  | cons p l ih =>
    simp only [List.map_cons, firstOnCurve, Pt.map_seg]
    cases p.seg <;> simp [ih]

theorem dropWhile_offcurve_map (t : Affine) (l : List Pt) :
    (l.map (Pt.map t)).dropWhile (fun p => p.seg.isNone) = (l.dropWhile (fun p => p.seg.isNone)).map (Pt.map t) := by
  induction l with
  | nil => rfl
  | cons p l ih =>
    simp only [List.map_cons, List.dropWhile_cons, Pt.map_seg]
    by_cases h : p.seg.isNone = true
    · simp only [h, if_true]; exact ih
    · simp only [h]; simp

/-- **reversal commutes with affine maps**: `ReverseContourPointPen(TransformPointPen(out, T))` emits the same
    points as transforming first and reversing after. -/
theorem reverseContour_map (t : Affine) (c : Contour) :
    reverseContour (Contour.map t c) = Contour.map t (reverseContour c) := by
  cases c with
  | nil => rfl
  | cons p0 rest =>
    simp only [Contour.map, List.map_cons, reverseContour, Pt.map_seg]
    by_cases h : p0.seg = some Seg.move
    · simp only [h, if_true]
      rw [← List.map_cons, ← List.map_reverse, dropWhile_offcurve_map, retype_map]
    · simp only [h, if_false]
      rw [← List.map_reverse, ← List.map_cons (f := Pt.map t), retype_map]
      congr 1
      have : rest.map (Pt.map t) ++ [p0.map t] = (rest ++ [p0]).map (Pt.map t) := by simp
      rw [this, firstOnCurve_map]

/-! ### sign of a product of determinants -/

theorem mul_neg_iff_xor {a b : Q} (ha : a ≠ 0) (hb : b ≠ 0) : a * b < 0 ↔ ((a < 0 ∧ 0 < b) ∨ (0 < a ∧ b < 0)) := by
  have htri : a < 0 ∨ a = 0 ∨ 0 < a := by grind
  rcases htri with h | h | h
  · have hna : 0 < -a := by grind
    have e : a * b = -((-a) * b) := by grind
    rw [e]
    constructor
    · intro hlt
      have : 0 < (-a) * b := by grind
      exact Or.inl ⟨h, (Rat.mul_pos_iff_of_pos_left hna).mp this⟩
    · rintro (⟨_, hb'⟩ | ⟨ha', _⟩)
      · have := (Rat.mul_pos_iff_of_pos_left hna).mpr hb'; grind
      · grind
  · exact absurd h ha
  · rw [Rat.mul_neg_iff_of_pos_left h]
    constructor
    · intro hb'; exact Or.inr ⟨h, hb'⟩
    · rintro (⟨ha', _⟩ | ⟨_, hb'⟩)
      · grind
      · exact hb'

/-- **bake lemma**: drawing contours through the pens of one level (matrix `T`) and then drawing the result through
    the pens of the next level (matrix `S`) is the same as drawing once with the composed matrix — reversal decided
    level by level (parity of negative levels) coincides with reversal by the composed determinant — provided both
    matrices are non-singular and reversal is an involution on the contours at hand. -/
theorem bake (s t : Affine) (hs : s.det ≠ 0) (ht : t.det ≠ 0) (cs : List Contour)
    (hinv : ∀ c ∈ cs, reverseContour (reverseContour c) = c) :
    drawContours true s (drawContours true t cs) = drawContours true (s.compose t) cs := by
  simp only [drawContours, List.map_map, Bool.true_and]
  apply List.map_congr_left
  intro c hc
  simp only [Function.comp]
  have hdet := Affine.det_compose s t
  have hx := mul_neg_iff_xor hs ht
  by_cases h1 : s.det < 0 <;> by_cases h2 : t.det < 0
  · have h3 : ¬ (s.compose t).det < 0 := by rw [hdet, hx]; grind
    simp only [h1, h2, h3, decide_true, decide_false, if_true, Bool.false_eq_true, if_false]
    rw [reverseContour_map, hinv c hc, Contour.map_compose]
  · have h3 : (s.compose t).det < 0 := by rw [hdet, hx]; left; exact ⟨h1, by grind⟩
    simp only [h1, h2, h3, decide_true, decide_false, if_true, Bool.false_eq_true, if_false]
    rw [reverseContour_map, Contour.map_compose]
  · have h3 : (s.compose t).det < 0 := by rw [hdet, hx]; right; exact ⟨by grind, h2⟩
    simp only [h1, h2, h3, decide_true, decide_false, if_true, Bool.false_eq_true, if_false]
    rw [Contour.map_compose]
  · have h3 : ¬ (s.compose t).det < 0 := by rw [hdet, hx]; grind
    simp only [h1, h2, h3, decide_false, Bool.false_eq_true, if_false]
    rw [Contour.map_compose]

end Ufo2ft
