import Ufo2ftModel.Props.C06Classes
/-! C06, part 4: membership facts along the pipeline (prune, mark glyphs, groups, attachments, lookups). -/
namespace Ufo2ft.C06
open List

/-! ### generic list helpers -/
theorem nodup_map_of_injOn {α β} {f : α → β} {l : List α} (hn : l.Nodup)
    (hinj : ∀ x ∈ l, ∀ y ∈ l, f x = f y → x = y) : (l.map f).Nodup := by
  induction l with
  | nil => simp
  | cons a l ih =>
    simp only [nodup_cons] at hn
    simp only [map_cons, nodup_cons]
    refine ⟨?_, ih hn.2 (fun x hx y hy => hinj x (by simp [hx]) y (by simp [hy]))⟩
    intro hmem
    obtain ⟨b, hb, hfb⟩ := mem_map.mp hmem
    have := hinj b (by simp [hb]) a (by simp) hfb
    subst this; exact hn.1 hb

theorem injOn_of_nodup_map {α β} {f : α → β} {l : List α} (hn : (l.map f).Nodup) :
    ∀ x ∈ l, ∀ y ∈ l, f x = f y → x = y := by
  induction l with
  | nil => simp
  | cons a l ih =>
    simp only [map_cons, nodup_cons] at hn
    intro x hx y hy hxy
    rcases mem_cons.mp hx with hxa | hxl
    · rcases mem_cons.mp hy with hya | hyl
      · rw [hxa, hya]
      · subst hxa; exact absurd (mem_map.mpr ⟨y, hyl, hxy.symm⟩) hn.1
    · rcases mem_cons.mp hy with hya | hyl
      · subst hya; exact absurd (mem_map.mpr ⟨x, hxl, hxy⟩) hn.1
      · exact ih hn.2 x hxl y hyl hxy

theorem filterMap_fst_sublist {α β γ} (f : α × β → Option (α × γ)) (l : List (α × β))
    (hf : ∀ x y, f x = some y → y.1 = x.1) : ((l.filterMap f).map (·.1)).Sublist (l.map (·.1)) := by
  induction l with
  | nil => simp
  | cons a l ih =>
    simp only [filterMap_cons, map_cons]
    cases h : f a with
    | none => exact ih.trans (sublist_cons_self _ _)
    | some y => simp only [map_cons]; rw [hf a y h]; exact ih.cons_cons _

theorem find?_eq_of_nodup {α} {p : α → Bool} {l : List α} {a : α} (ha : a ∈ l) (hp : p a = true)
    (huniq : ∀ x ∈ l, p x = true → x = a) : l.find? p = some a := by
  induction l with
  | nil => simp at ha
  | cons b l ih =>
    by_cases hb : p b = true
    · have := huniq b (by simp) hb; subst this; simp [hb]
    · rw [find?_cons_of_neg hb]
      rcases mem_cons.mp ha with rfl | ha
      · exact absurd hp hb
      · exact ih ha (fun x hx => huniq x (by simp [hx]))

/-! ### dedupFirst -/
theorem mem_dedupAux {α} [BEq α] [LawfulBEq α] {l seen : List α} {a : α} : a ∈ dedupAux l seen ↔ a ∈ l ∧ a ∉ seen := by
  induction l generalizing seen with
  | nil => simp [dedupAux]
  | cons b l ih =>
    simp only [dedupAux]
    split
    · rename_i h
      have hb : b ∈ seen := by simpa using h
      rw [ih]
      constructor
      · rintro ⟨h1, h2⟩; exact ⟨by simp [h1], h2⟩
      · rintro ⟨h1, h2⟩
        rcases mem_cons.mp h1 with rfl | h1
        · exact absurd hb h2
        · exact ⟨h1, h2⟩
    · rename_i h
      have hb : b ∉ seen := by simpa using h
      simp only [mem_cons, ih]
      constructor
      · rintro (rfl | ⟨h1, h2⟩)
        · exact ⟨Or.inl rfl, hb⟩
        · exact ⟨Or.inr h1, fun h => h2 (Or.inr h)⟩
      · rintro ⟨h1 | h1, h2⟩
        · exact Or.inl h1
        · by_cases e : a = b
          · exact Or.inl e
          · exact Or.inr ⟨h1, fun h => by rcases h with h | h; exact e h; exact h2 h⟩

theorem nodup_dedupAux {α} [BEq α] [LawfulBEq α] (l seen : List α) : (dedupAux l seen).Nodup := by
  induction l generalizing seen with
  | nil => simp [dedupAux]
  | cons b l ih =>
    simp only [dedupAux]
    split
    · exact ih seen
    · rw [nodup_cons]
      refine ⟨?_, ih _⟩
      rw [mem_dedupAux]; simp

theorem mem_dedupFirst {α} [BEq α] [LawfulBEq α] {l : List α} {a : α} : a ∈ dedupFirst l ↔ a ∈ l := by
  simp [dedupFirst, mem_dedupAux]

theorem nodup_dedupFirst {α} [BEq α] [LawfulBEq α] (l : List α) : (dedupFirst l).Nodup := nodup_dedupAux l []

theorem mem_sortStr {l : List String} {a : String} : a ∈ sortStr l ↔ a ∈ l := (sortStr_perm l).mem_iff
theorem nodup_sortStr {l : List String} (h : l.Nodup) : (sortStr l).Nodup := (sortStr_perm l).nodup_iff.mpr h

/-! ### prune / mark entries / groups -/
theorem mem_prune {al : AList} {e : String × List NA} (h : e ∈ prune al) :
    e.2 ≠ [] ∧ ∃ as, (e.1, as) ∈ al ∧ e.2 = as.filter (keep al) := by
  obtain ⟨h1, h2⟩ := mem_filter.mp h
  obtain ⟨e0, he0, rfl⟩ := mem_map.mp h1
  exact ⟨by simpa using h2, e0.2, he0, rfl⟩

theorem prune_keys_sublist (al : AList) : ((prune al).map (·.1)).Sublist (al.map (·.1)) := by
  unfold prune
  have s1 := (filter_sublist (p := fun (e : String × List NA) => !e.2.isEmpty)
    (l := al.map (fun e => (e.1, e.2.filter (keep al))))).map (·.1)
  have e : (al.map (fun e => (e.1, e.2.filter (keep al)))).map (·.1) = al.map (·.1) := by simp
  rw [e] at s1; exact s1

theorem mem_prune_of {al : AList} {g : String} {as : List NA} (h : (g, as) ∈ al) (hne : as.filter (keep al) ≠ []) :
    (g, as.filter (keep al)) ∈ prune al :=
  mem_filter.mpr ⟨mem_map.mpr ⟨(g, as), h, rfl⟩, by simpa using hne⟩

theorem mem_markEntries {i : Input} {al : AList} {mn : List String} {e : String × List NA}
    (h : e ∈ markEntries i al mn) :
    e.2 ≠ [] ∧ markOK i e.1 = true ∧ ∃ as, (e.1, as) ∈ al ∧ e.2 = as.filter (fun a => mn.contains a.name) := by
  obtain ⟨e0, he0, hf⟩ := mem_filterMap.mp h
  obtain ⟨h1, h2⟩ := mem_filter.mp he0
  simp only at hf
  split at hf
  · simp at hf
  · rename_i hne
    simp only [Option.some.injEq] at hf; subst hf
    exact ⟨by simpa using hne, h2, e0.2, h1, rfl⟩

theorem mem_markEntries_of {i : Input} {al : AList} {mn : List String} {g : String} {as : List NA}
    (h : (g, as) ∈ al) (hm : markOK i g = true) (hne : as.filter (fun a => mn.contains a.name) ≠ []) :
    (g, as.filter (fun a => mn.contains a.name)) ∈ markEntries i al mn := by
  refine mem_filterMap.mpr ⟨(g, as), mem_filter.mpr ⟨h, hm⟩, ?_⟩
  have : (as.filter (fun a => mn.contains a.name)).isEmpty = false := by
    cases hh : as.filter (fun a => mn.contains a.name) with
    | nil => exact absurd hh hne
    | cons _ _ => rfl
  simp only [this, Bool.false_eq_true, if_false]

theorem markEntries_keys_sublist (i : Input) (al : AList) (mn : List String) :
    ((markEntries i al mn).map (·.1)).Sublist (al.map (·.1)) := by
  unfold markEntries
  refine (filterMap_fst_sublist _ _ ?_).trans ((filter_sublist).map _)
  intro x y hxy
  simp only at hxy
  split at hxy
  · simp at hxy
  · simp only [Option.some.injEq] at hxy; subst hxy; rfl

theorem mem_groupNames {me : AList} {n : String} : n ∈ groupNames me ↔ ∃ e ∈ me, ∃ a ∈ e.2, a.name = n := by
  simp only [groupNames, mem_sortStr, mem_dedupFirst, mem_flatMap, mem_map]

theorem nodup_groupNames (me : AList) : (groupNames me).Nodup := nodup_sortStr (nodup_dedupFirst _)

theorem mem_groupOf {me : AList} {n : String} {gm : String × NA} (h : gm ∈ groupOf me n) :
    ∃ e ∈ me, e.1 = gm.1 ∧ gm.2 ∈ e.2 ∧ gm.2.name = n := by
  obtain ⟨e, he, hf⟩ := mem_filterMap.mp h
  cases hfind : e.2.find? (fun a => a.name == n) with
  | none => rw [hfind] at hf; simp at hf
  | some a =>
    rw [hfind] at hf; simp only [Option.map_some, Option.some.injEq] at hf; subst hf
    exact ⟨e, he, rfl, mem_of_find?_eq_some hfind, by simpa using find?_some hfind⟩

theorem mem_groupOf_of {me : AList} {e : String × List NA} {a : NA} (he : e ∈ me) (ha : a ∈ e.2)
    (hn : (e.2.map (·.name)).Nodup) : (e.1, a) ∈ groupOf me a.name := by
  refine mem_filterMap.mpr ⟨e, he, ?_⟩
  have : e.2.find? (fun a' => a'.name == a.name) = some a := by
    apply find?_eq_of_nodup ha (by simp)
    intro x hx hxn
    exact injOn_of_nodup_map hn x hx a ha (by simpa using hxn)
  simp [this]

theorem groupOf_keys_sublist (me : AList) (n : String) : ((groupOf me n).map (·.1)).Sublist (me.map (·.1)) := by
  unfold groupOf
  apply filterMap_fst_sublist
  intro x y hxy
  cases hfind : x.2.find? (fun a => a.name == n) with
  | none => rw [hfind] at hxy; simp at hxy
  | some a => rw [hfind] at hxy; simp only [Option.map_some, Option.some.injEq] at hxy; subst hxy; rfl

end Ufo2ft.C06
