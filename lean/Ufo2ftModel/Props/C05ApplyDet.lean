import Ufo2ftModel.Props.C05ApplyRules
/-! C05 end-to-end, layer D2: the lookup that holds the determining cell of a glyph pair, and what it applies to the pair. -/
namespace Ufo2ft.C05
open Ufo2ft List

/-- the generated pairs -/
abbrev genPairs (gs : List String) (groups : List (String × List String)) (kerning : List (String × String × Q)) (q : Q) : List KPair :=
  getKerningPairs gs (getKerningGroups gs groups) q kerning

/-- both glyphs are neutral or of script `s`: their cells share a script -/
theorem shares_of_inScript (c : Ctx) (s g1 g2 : String) (hs : s ≠ COMMON) (h1 : c.inScript s g1 = true) (h2 : c.inScript s g2 = true) :
    SharesScript c g1 g2 := by
  simp only [Ctx.inScript, Ctx.neutral, Bool.or_eq_true, beq_iff_eq, contains_iff_mem] at h1 h2
  rcases h1 with n1 | m1
  · rcases h2 with n2 | m2
    · right; rw [n1, n2]; simp
    · left; exact ⟨s, Or.inr m2, hs⟩
  · left; exact ⟨s, Or.inl m1, hs⟩

/-- both glyphs are neutral or of script `s`: they have scripts of compatible directions -/
theorem compat_of_inScript (c : Ctx) (gs : List String) (ok : CtxOK c gs) (s g1 g2 : String)
    (h1 : c.inScript s g1 = true) (h2 : c.inScript s g2 = true) :
    ∃ s1 ∈ c.resolved g1, ∃ s2 ∈ c.resolved g2, ¬(c.dir s1 ≠ c.dir s2 ∧ c.dir s1 ≠ "Auto" ∧ c.dir s2 ≠ "Auto") := by
  simp only [Ctx.inScript, Ctx.neutral, Bool.or_eq_true, beq_iff_eq, contains_iff_mem] at h1 h2
  rcases h1 with n1 | m1
  · refine ⟨COMMON, by rw [n1]; simp, ?_⟩
    rcases h2 with n2 | m2
    · exact ⟨COMMON, by rw [n2]; simp, fun h => h.1 rfl⟩
    · exact ⟨s, m2, fun h => h.2.1 ok.auto⟩
  · refine ⟨s, m1, ?_⟩
    rcases h2 with n2 | m2
    · exact ⟨COMMON, by rw [n2]; simp, fun h => h.2.2 ok.auto⟩
    · exact ⟨s, m2, fun h => h.1 rfl⟩

theorem rawBuckets_keys (c : Ctx) (K : List String → Prop) (pairs : List KPair)
    (hK : ∀ p ∈ pairs, ∀ x ∈ partitionByScript c p, K x.1) : ∀ e ∈ rawBuckets c pairs, K e.1 := by
  unfold rawBuckets
  have add : ∀ (b : List (List String × List KPair)) (k : List String) (sp : KPair), K k → (∀ e ∈ b, K e.1) →
      ∀ e ∈ bucketAdd b k sp, K e.1 := by
    intro b k sp hk hb
    unfold bucketAdd
    cases hf : b.find? (fun e => e.1 == k) with
    | some v =>
      dsimp only
      intro e he
      obtain ⟨e0, he0, rfl⟩ := mem_map.mp he
      split
      · exact hb e0 he0
      · exact hb e0 he0
    | none =>
      dsimp only
      intro e he
      rcases mem_append.mp he with he | he
      · exact hb e he
      · simp only [mem_singleton] at he; rw [he]; exact hk
  suffices h : ∀ (ps : List KPair) (b : List (List String × List KPair)), (∀ p ∈ ps, p ∈ pairs) → (∀ e ∈ b, K e.1) →
      ∀ e ∈ ps.foldl (fun b p => (partitionByScript c p).foldl (fun b (x : List String × KPair) => bucketAdd b x.1 x.2) b) b, K e.1 from
    h pairs [] (fun _ h => h) (by intro e he; cases he)
  intro ps
  induction ps with
  | nil => intro b _ h; exact h
  | cons p ps ih =>
    intro b hps h
    rw [foldl_cons]
    apply ih _ (fun x hx => hps x (mem_cons_of_mem _ hx))
    have inner : ∀ (xs : List (List String × KPair)) (b : List (List String × List KPair)), (∀ x ∈ xs, K x.1) → (∀ e ∈ b, K e.1) →
        ∀ e ∈ xs.foldl (fun b (x : List String × KPair) => bucketAdd b x.1 x.2) b, K e.1 := by
      intro xs
      induction xs with
      | nil => intro b _ h; exact h
      | cons y xs ih2 =>
        intro b hxs h
        rw [foldl_cons]
        exact ih2 _ (fun x hx => hxs x (mem_cons_of_mem _ hx)) (add b y.1 y.2 (hxs y mem_cons_self) h)
    exact inner _ b (fun x hx => hK p (hps p mem_cons_self) x hx) h

/-- the script set of a bucket of the pair list of a mode is written in one direction -/
theorem bucket_uni (c : Ctx) (gs : List String) (groups : List (String × List String)) (kerning : List (String × String × Q)) (q : Q)
    (w : WF gs groups kerning) (ok : CtxOK c gs) (m0 : Mode) (e : List String × List KPair)
    (he : e ∈ splitKerning c (listOf (genPairs gs groups kerning q) m0).1) (hne : e.2 ≠ []) : Uni c e.1 := by
  cases h2 : e.2 with
  | nil => exact absurd h2 hne
  | cons sp rest =>
    obtain ⟨_, _, _, _, _, _, _, t, ht, hk, _⟩ := cell_prov c _ m0 e he sp (by rw [h2]; exact mem_cons_self)
    have hu : Uni c t := by
      apply mergedSets_uni c _ _ t ht
      apply rawBuckets_keys c (Uni c)
      intro p hp x hx
      simp only [listOf, mem_flatMap] at hp
      obtain ⟨p0, hp0, hpp⟩ := hp
      obtain ⟨_, _, _, s1, s2, _⟩ := σ_sound m0 p0 p hpp
      obtain ⟨g1in, g2in⟩ := pair_glyphs_in gs groups kerning q w p0 hp0
      exact key_uni c gs ok p (fun y hy => g1in y (s1 y hy)) (fun y hy => g2in y (s2 y hy)) x.1 x.2 hx
    intro a ha b hb
    rw [hk, mem_sortStr] at ha hb
    exact hu a ha b hb

/-- Layer D2: for a glyph pair that some generated pair contains (`detPair = some p0`), both glyphs neutral or of script `s`,
    outside the three bidi-cell shapes: there is one bucket — of the pair list whose mode admits the pair — whose lookup applies
    the value of `p0` (as placement too iff `s` is right-to-left), and every cell containing the pair, in any bucket of that
    list, lies in this bucket -/
theorem det_lookup (c : Ctx) (gs : List String) (groups : List (String × List String)) (kerning : List (String × String × Q)) (q : Q)
    (marks : Option (List String)) (im : Bool) (s g1 g2 : String)
    (w : WF gs groups kerning) (ok : CtxOK c gs) (hg1 : g1 ∈ gs) (hg2 : g2 ∈ gs) (hs : s ≠ COMMON)
    (hin1 : c.inScript s g1 = true) (hin2 : c.inScript s g2 = true)
    (p0 : KPair) (hdet : detPair gs groups kerning q g1 g2 = some p0)
    (hclean : cellClean c gs groups kerning q marks im s g1 g2 = true) :
    ∃ m0 ∈ modes marks im, m0.cond g1 g2 ∧ listOf (genPairs gs groups kerning q) m0 ∈ pairLists (genPairs gs groups kerning q) marks im ∧
      ∃ e0 ∈ splitKerning c (listOf (genPairs gs groups kerning q) m0).1,
        (∃ sp ∈ e0.2, Matches sp g1 g2) ∧
        (bucketLookup c m0.flag m0.sfx e0).apply g1 g2 = (p0.value, if c.dir s == "RTL" then p0.value else 0) ∧
        (bucketLookup c m0.flag m0.sfx e0).rules ≠ [] := by
  have hshare := shares_of_inScript c s g1 g2 hs hin1 hin2
  obtain ⟨t1, ht1, t2, ht2, hcompat⟩ := compat_of_inScript c gs ok s g1 g2 hin1 hin2
  have u1 := ok.uni g1 hg1
  have u2 := ok.uni g2 hg2
  -- the determining pair
  rw [detPair_eq] at hdet
  obtain ⟨hp0, hm0, hmin⟩ := firstMatch_minimal _ g1 g2 p0 hdet
  -- its part and its cell
  obtain ⟨m0, hmode, hcond⟩ := modes_exhaustive marks im g1 g2
  obtain ⟨pS, hpS, hmS⟩ := σ_cover m0 p0 g1 g2 hm0 hcond
  obtain ⟨xS, hxS, hmxS, hvxS⟩ := partition_complete c pS g1 g2 hmS t1 t2 ht1 ht2 hcompat
  have hpSin : pS ∈ (listOf (genPairs gs groups kerning q) m0).1 := by
    simp only [listOf, mem_flatMap]; exact ⟨p0, hp0, hpS⟩
  have hlist : listOf (genPairs gs groups kerning q) m0 ∈ pairLists (genPairs gs groups kerning q) marks im :=
    pairLists_sup _ marks im m0 hmode (by intro e; rw [e] at hpSin; cases hpSin)
  obtain ⟨e0, he0, hin0⟩ := splitKerning_has c _ pS hpSin xS hxS g1 g2 hmxS hshare
  refine ⟨m0, hmode, hcond, hlist, e0, he0, ⟨xS.2, hin0, hmxS⟩, ?_⟩
  -- (F1) every cell of the bucket that contains the pair is at least as unspecific as p0, and equals xS.2 at equal level
  have hlevS : level xS.2 = level p0 := by
    rw [cell_level c pS xS.1 xS.2 hxS, σ_level m0 p0 pS hpS]
  have F1 : ∀ sp ∈ e0.2, Matches sp g1 g2 → level p0 ≤ level sp ∧ (level sp = level p0 → sp = xS.2) := by
    intro sp hsp hmsp
    obtain ⟨_, p0', hp0', hm0', hlev', _, p', hp', hmp', k', hpart'⟩ := cell_up c _ m0 e0 he0 sp hsp g1 g2 hmsp
    refine ⟨by rw [hlev']; exact hmin p0' hp0' hm0', ?_⟩
    intro heq
    have hflags := flags_of_level p0' p0 (by rw [← hlev', heq])
    have : p0' = p0 := pair_unique gs groups kerning q w p0' p0 hp0' hp0 g1 g2 hm0' hm0 hflags.1 hflags.2
    subst this
    have : p' = pS := σ_unique m0 p0' p' pS hp' hpS g1 g2 hmp' hmS
    subst this
    have := cell_unique c p' g1 g2 u1 u2 (k', sp) xS hpart' hxS hmsp hmxS
    rw [← this]
  -- the cell passes the bidi filter, with the right direction flag
  have hcells : xS.2 ∈ cellsOf c marks im p0 g1 g2 := by
    unfold cellsOf
    refine mem_filter.mpr ⟨mem_map.mpr ⟨xS, ?_, rfl⟩, (hits_iff _ _ _).mpr hmxS⟩
    have hl1 : listOf [p0] m0 ∈ pairLists [p0] marks im := by
      apply pairLists_sup [p0] marks im m0 hmode
      intro e
      have : pS ∈ (listOf [p0] m0).1 := by simp only [listOf, mem_flatMap]; exact ⟨p0, by simp, hpS⟩
      rw [e] at this; cases this
    refine mem_flatMap.mpr ⟨listOf [p0] m0, hl1, mem_flatMap.mpr ⟨pS, ?_, hxS⟩⟩
    simp only [listOf, mem_flatMap]; exact ⟨p0, by simp, hpS⟩
  have hclean' := hclean
  unfold cellClean at hclean'
  rw [detPair_eq, hdet] at hclean'
  simp only [Bool.and_eq_true, all_eq_true, Bool.not_eq_true'] at hclean'
  obtain ⟨hcl1, hcl2⟩ := hclean'
  obtain ⟨hamb, hL⟩ := hcl1 xS.2 hcells
  -- the bucket as a sorted list
  have he0' := he0
  rw [splitKerning_eq] at he0'
  obtain ⟨y, _, hy⟩ := mem_map.mp he0'
  have he1 : e0.1 = y.1 := by rw [← hy]
  have he2 : e0.2 = sortPairs y.2 := by rw [← hy]
  -- the rule of the cell
  have hrule : ∃ rS, ruleOf c e0.1 xS.2 = some rS := by
    unfold ruleOf
    rw [hamb]
    exact ⟨_, rfl⟩
  obtain ⟨rS, hrS⟩ := hrule
  obtain ⟨r1, r2, r3, r4, r5, _⟩ := ruleOf_some c e0.1 xS.2 rS hrS
  have hrSin : rS ∈ (bucketLookup c m0.flag m0.sfx e0).rules := by
    simp only [bucketLookup, makeRules_eq, mem_filterMap]
    exact ⟨xS.2, hin0, hrS⟩
  have hhitS : rS.hits g1 g2 = true := by rw [ruleOf_hits c e0.1 xS.2 rS hrS]; exact (hits_iff _ _ _).mpr hmxS
  -- direction flag
  have hne2 : e0.2 ≠ [] := by intro e; rw [e] at hin0; cases hin0
  have huni := bucket_uni c gs groups kerning q w ok m0 e0 he0 hne2
  have hscr := splitKerning_bucket_scripts c _ g1 g2 e0 he0 xS.2 hin0 hmxS
  have hflag : e0.1.all (fun s' => c.dir s' == "RTL") = (c.dir s == "RTL") ∨
      (e0.1.all (fun s' => c.dir s' == "RTL") = false ∧ (c.dir s == "RTL") = false) := by
    by_cases hmem : s ∈ c.resolved g1 ∨ s ∈ c.resolved g2
    · left
      have hsin : s ∈ e0.1 := hscr.1 s hmem hs
      by_cases hd : c.dir s = "RTL"
      · have : (c.dir s == "RTL") = true := by simpa using hd
        rw [this, all_eq_true]
        intro a ha
        simp only [beq_iff_eq]
        rw [huni a ha s hsin]; exact hd
      · have : (c.dir s == "RTL") = false := by simpa using hd
        rw [this, all_eq_false]
        exact ⟨s, hsin, by simpa using hd⟩
    · right
      have n1 : c.neutral g1 = true := by
        simp only [Ctx.inScript, Bool.or_eq_true, contains_iff_mem] at hin1
        rcases hin1 with h | h
        · exact h
        · exact absurd (Or.inl h) hmem
      have n2 : c.neutral g2 = true := by
        simp only [Ctx.inScript, Bool.or_eq_true, contains_iff_mem] at hin2
        rcases hin2 with h | h
        · exact h
        · exact absurd (Or.inr h) hmem
      have hrtl : (c.dir s == "RTL") = false := by
        cases hh : (c.dir s == "RTL") with
        | false => rfl
        | true => rw [hh, n1, n2] at hcl2; simp at hcl2
      refine ⟨?_, hrtl⟩
      simp only [Ctx.neutral, beq_iff_eq] at n1 n2
      have hcin : COMMON ∈ e0.1 := hscr.2 (by rw [n1]; simp) (by rw [n2]; simp)
      rw [all_eq_false]
      refine ⟨COMMON, hcin, ?_⟩
      rw [ok.auto]; decide
  have hrtlS : rS.rtl = (c.dir s == "RTL") := by
    rw [r5]
    rcases hflag with h | ⟨h, h'⟩
    · rw [h]
      cases hd : (c.dir s == "RTL") with
      | false => rfl
      | true =>
        rw [hd] at hL
        simp only [Bool.true_and, Bool.not_eq_eq_eq_not, Bool.not_true] at hL ⊢
        rw [hL]
    · rw [h, h']; rfl
  have hrecS : rS.record = (p0.value, if c.dir s == "RTL" then p0.value else 0) := by
    have hv : rS.value = p0.value := by
      rw [r3, hvxS]
      exact (σ_sound m0 p0 pS hpS).1
    simp only [Rule.record, hrtlS, hv]
  refine ⟨?_, by intro e; rw [e] at hrSin; cases hrSin⟩
  rw [← hrecS]
  -- the first cell of the sorted bucket that contains the pair is xS.2
  have hin0' : xS.2 ∈ y.2 := (mem_sortPairs _ _).mp (he2 ▸ hin0)
  obtain ⟨sp1, hsp1, hle1⟩ := firstMatch_level_le y.2 g1 g2 xS.2 hin0' hmxS
  obtain ⟨hsp1in, hsp1m, _⟩ := firstMatch_minimal y.2 g1 g2 sp1 hsp1
  have hsp1e : sp1 ∈ e0.2 := by rw [he2]; exact (mem_sortPairs _ _).mpr hsp1in
  have hsp1eq : sp1 = xS.2 := by
    obtain ⟨hge, heq⟩ := F1 sp1 hsp1e hsp1m
    apply heq
    rw [hlevS] at hle1
    omega
  rw [hsp1eq] at hsp1
  unfold firstMatch at hsp1
  obtain ⟨_, as, bs, hsplit, hnone⟩ := find?_eq_some_iff_append.mp hsp1
  have hrules : (bucketLookup c m0.flag m0.sfx e0).rules =
      as.filterMap (ruleOf c e0.1) ++ rS :: bs.filterMap (ruleOf c e0.1) := by
    simp only [bucketLookup, makeRules_eq]
    rw [he2, hsplit, filterMap_append, filterMap_cons, hrS]
  have hnohit : ∀ r ∈ as.filterMap (ruleOf c e0.1), r.hits g1 g2 = false := by
    intro r hr
    obtain ⟨a, ha, hra⟩ := mem_filterMap.mp hr
    rw [ruleOf_hits c e0.1 a r hra, hits_eq_decide]
    simpa using hnone a ha
  by_cases hspec : rS.specific = true
  · -- format 1
    apply Lookup.apply_specific
    rw [hrules, filter_append, filter_cons, hspec, if_pos rfl, find?_append]
    have : ((as.filterMap (ruleOf c e0.1)).filter (·.specific)).find? (·.hits g1 g2) = none := by
      rw [find?_eq_none]
      intro r hr
      have := hnohit r (mem_filter.mp hr).1
      simp [this]
    rw [this, find?_cons, hhitS]
    rfl
  · -- format 2
    have hspec' : rS.specific = false := by simpa using hspec
    have hlev3 : level xS.2 = 3 := by
      rw [r4] at hspec'
      have : ¬ level xS.2 < 3 := by
        intro hlt
        have := (level_lt_three xS.2).mpr hlt
        rw [hspec'] at this; cases this
      have hb : level xS.2 ≤ 3 := by
        simp only [level]
        cases xS.2.side1.isClass <;> cases xS.2.side2.isClass <;> simp
      omega
    have cells_ge : ∀ r ∈ (bucketLookup c m0.flag m0.sfx e0).rules, r.hits g1 g2 = true →
        ∃ sp ∈ e0.2, ruleOf c e0.1 sp = some r ∧ Matches sp g1 g2 ∧ 3 ≤ level sp := by
      intro r hr hh
      obtain ⟨sp, hsp, hro⟩ := rule_prov c _ _ e0 r hr
      rw [ruleOf_hits c e0.1 sp r hro] at hh
      have hm := (hits_iff sp g1 g2).mp hh
      refine ⟨sp, hsp, hro, hm, ?_⟩
      have := (F1 sp hsp hm).1
      rw [← hlevS, hlev3] at this
      exact this
    refine Lookup.apply_class _ g1 g2 rS ?hnos (bucketLookup_compat c gs groups kerning q w ok m0 e0 he0) hrSin hspec' hhitS ?hu
    case hnos =>
      intro r' hr' hs'
      cases hh' : r'.hits g1 g2 with
      | false => rfl
      | true =>
        -- a rule that contains the pair is not a glyph-pair rule here
        exfalso
        obtain ⟨sp, _, hro, _, hge⟩ := cells_ge r' hr' hh'
        rw [(ruleOf_some c e0.1 sp r' hro).2.2.2.1] at hs'
        have := (level_lt_three sp).mp hs'
        omega
    case hu =>
      intro r' hr' _ hh'
      obtain ⟨sp, hsp, hro, hm, hge⟩ := cells_ge r' hr' hh'
      have hb : level sp ≤ 3 := by
        simp only [level]
        cases sp.side1.isClass <;> cases sp.side2.isClass <;> simp
      have : sp = xS.2 := (F1 sp hsp hm).2 (by rw [← hlevS, hlev3]; omega)
      rw [this, hrS] at hro
      rw [← Option.some.inj hro]

end Ufo2ft.C05
