import Ufo2ftModel.Props.C06Attach
/-! C06, part 13: mark-to-base and mark-to-mark attachment of a matching pair. -/
namespace Ufo2ft.C06
open List

/-- the list of (anchor, class) _makeMarkToBaseAttachments collects for one glyph -/
def baseBM (km : List (String × String)) (as : List NA) : List BAnchor :=
  (plainOf as).filterMap (fun a => if a.number.isSome then none else (classOf km a).map (fun c => ⟨a, c⟩))

theorem baseAtts_eq {i : Input} {al : AList} {mg : List String} {km : List (String × String)}
    {att : String × List BAnchor} (h : att ∈ baseAtts i al mg km) :
    ∃ as, (att.1, as) ∈ al ∧ att.2 = baseBM km as := by
  obtain ⟨e, he, hf⟩ := mem_filterMap.mp h
  simp only at hf
  split at hf
  · simp at hf
  · split at hf
    · simp at hf
    · simp only [Option.some.injEq] at hf; subst hf
      exact ⟨e.2, he, rfl⟩

theorem baseAtts_mem {i : Input} {al : AList} {mg : List String} {km : List (String × String)} {g : String} {as : List NA}
    (h : (g, as) ∈ al) (hmg : g ∉ mg) (hb : baseOK i g = true) (hne : baseBM km as ≠ []) :
    (g, baseBM km as) ∈ baseAtts i al mg km := by
  refine mem_filterMap.mpr ⟨(g, as), h, ?_⟩
  have h1 : (mg.contains g || !baseOK i g) = false := by simp [hmg, hb]
  have h2 : (baseBM km as).isEmpty = false := by
    cases hh : baseBM km as with
    | nil => exact absurd hh hne
    | cons _ _ => rfl
  simp only [h1, Bool.false_eq_true, if_false]
  unfold baseBM at h2
  rw [if_neg (by simp [h2])]
  rfl

theorem mem_plainOf_of {as : List NA} {a : NA} (ha : a ∈ as) (hp : a.ctx = none) : a ∈ plainOf as :=
  mem_filter.mpr ⟨ha, by simp [hp]⟩

theorem mem_baseBM {km : List (String × String)} {as : List NA} {a : NA} {c : String} (ha : a ∈ as)
    (hp : a.ctx = none) (hn : a.number = none) (hc : classOf km a = some c) : ⟨a, c⟩ ∈ baseBM km as :=
  mem_filterMap.mpr ⟨a, mem_plainOf_of ha hp, by simp [hn, hc]⟩

/-- mark-to-base: for a pair on a non-mark glyph that passes the base filter, every feature whose glyph and
    anchor filters let the pair through has a lookup attaching it -/
theorem base_attach {i : Input} {al : AList} (w : ALwf i al) {b m : String} {ab am : NA} (p : Pair al b m ab am)
    (hok : markOK i m = true) (hpl : ab.ctx = none) (hnum : ab.number = none) (hnmg : b ∉ mgOf i al)
    (hbase : baseOK i b = true)
    (feat : String) (inc : String → Bool) (mf : NA → Bool) (hinc : inc b = true) (hmf : mf ab = true) :
    ∃ L ∈ baseLookups feat inc mf (gbOf i al), (attachLookup (build i al) L b m none).isSome = true := by
  -- the class
  have hcl := pair_classOf w p hok
  obtain ⟨recs, hcls, r, hr, hrg⟩ := pair_class w p hok
  -- the attachment of glyph b
  obtain ⟨as', has', hab'⟩ := pair_prune_b w p
  have hbm : (⟨ab, cnOf i al am.name⟩ : BAnchor) ∈ baseBM (kmOf i al) as' := mem_baseBM hab' hpl hnum hcl
  have hatt0 : (b, baseBM (kmOf i al) as') ∈ baOf i al := baseAtts_mem has' hnmg hbase (ne_nil_of_mem hbm)
  -- its group
  have hmem : members (clsOf i al) (cnOf i al am.name) ≠ [] := by
    rw [members_clsOf w hcls]; exact ne_nil_of_mem (mem_map.mpr ⟨r, hr, rfl⟩)
  obtain ⟨grp, hgrp, hcn⟩ := group_has (i := i) (al := al) ((baOf i al).flatMap (fun att => att.2.map (·.cls)))
    (classOf_alookup hcl)
    (mem_flatMap.mpr ⟨_, hatt0, mem_map.mpr ⟨_, hbm, rfl⟩⟩) hmem
  have hgrp' : grp ∈ bgroupsOf i al := hgrp
  -- the grouped attachment
  have hfb : (⟨ab, cnOf i al am.name⟩ : BAnchor) ∈ (baseBM (kmOf i al) as').filter (fun x => grp.contains x.cls) :=
    mem_filter.mpr ⟨hbm, by simpa using hcn⟩
  have hfilter : filterBase grp (b, baseBM (kmOf i al) as') =
      some (b, (baseBM (kmOf i al) as').filter (fun x => grp.contains x.cls)) := by
    unfold filterBase
    simp only
    rw [if_neg]
    cases hh : (baseBM (kmOf i al) as').filter (fun x => grp.contains x.cls) with
    | nil => rw [hh] at hfb; simp at hfb
    | cons _ _ => simp
  have hatts : (baOf i al).filterMap (filterBase grp) ∈ gbOf i al := mem_map.mpr ⟨grp, hgrp', rfl⟩
  have hatt : (b, (baseBM (kmOf i al) as').filter (fun x => grp.contains x.cls)) ∈ (baOf i al).filterMap (filterBase grp) :=
    mem_filterMap.mpr ⟨_, hatt0, hfilter⟩
  -- the lookup
  generalize hes : (((baOf i al).filterMap (filterBase grp)).filter (fun att => inc att.1)).filterMap (fun att =>
      let bm := att.2.filter (fun x => mf x.a)
      if bm.isEmpty then none else some (⟨att.1, [compAST bm]⟩ : Entry)) = es
  -- every entry for glyph b carries the anchor of the pair
  have hentry : ∀ e ∈ es, e.glyph = b →
      ∃ bm, e.comps = [compAST bm] ∧ (⟨ab, cnOf i al am.name⟩ : BAnchor) ∈ bm := by
    intro e he heg
    rw [← hes] at he
    obtain ⟨att', hatt', hfe⟩ := mem_filterMap.mp he
    simp only at hfe
    split at hfe
    · simp at hfe
    · simp only [Option.some.injEq] at hfe; subst hfe
      simp only at heg
      obtain ⟨att0', hatt0', hf'⟩ := mem_filterMap.mp (mem_filter.mp hatt').1
      obtain ⟨e1, e2, _⟩ := filterBase_some hf'
      obtain ⟨as'', has'', e3⟩ := baseAtts_eq hatt0'
      rw [← e1, heg] at has''
      have hu : as'' = as' := mem_unique_of_nodup_keys ((prune_keys_sublist al).nodup w.keys) has'' has'
      refine ⟨_, rfl, mem_filter.mpr ⟨?_, hmf⟩⟩
      rw [e2, e3, hu]; exact hfb
  -- every class referenced by the lookup is in the group
  have hused : ∀ e ∈ es, ∀ comp ∈ e.comps, ∀ t ∈ comp, t.1 ∈ grp := by
    intro e he comp hcomp t ht
    rw [← hes] at he
    obtain ⟨att', hatt', hfe⟩ := mem_filterMap.mp he
    simp only at hfe
    split at hfe
    · simp at hfe
    · simp only [Option.some.injEq] at hfe; subst hfe
      simp only [mem_singleton] at hcomp; subst hcomp
      obtain ⟨x, hx, rfl⟩ := mem_compAST ht
      obtain ⟨att0', _, hf'⟩ := mem_filterMap.mp (mem_filter.mp hatt').1
      obtain ⟨_, e2, _⟩ := filterBase_some hf'
      rw [e2] at hx
      simpa using (mem_filter.mp (mem_filter.mp hx).1).2
  -- the entry of glyph b
  have he0 : (⟨b, [compAST (((baseBM (kmOf i al) as').filter (fun x => grp.contains x.cls)).filter (fun x => mf x.a))]⟩ : Entry) ∈ es := by
    rw [← hes]
    refine mem_filterMap.mpr ⟨_, mem_filter.mpr ⟨hatt, hinc⟩, ?_⟩
    simp only
    rw [if_neg]
    have : (⟨ab, cnOf i al am.name⟩ : BAnchor) ∈ ((baseBM (kmOf i al) as').filter (fun x => grp.contains x.cls)).filter (fun x => mf x.a) :=
      mem_filter.mpr ⟨hfb, hmf⟩
    cases hh : ((baseBM (kmOf i al) as').filter (fun x => grp.contains x.cls)).filter (fun x => mf x.a) with
    | nil => rw [hh] at this; simp at this
    | cons _ _ => simp
  have hL : (⟨feat, .base, es⟩ : Lookup) ∈ baseLookups feat inc mf (gbOf i al) := by
    refine mem_filterMap.mpr ⟨_, hatts, ?_⟩
    simp only
    rw [hes, if_neg]
    cases es with
    | nil => simp at he0
    | cons _ _ => simp
  refine ⟨_, hL, attachLookup_isSome rfl ⟨_, he0, rfl⟩ ?_ ?_⟩
  · refine ⟨(cnOf i al am.name, recs), hcls, ?_, r, hr, hrg⟩
    obtain ⟨bm, hc, hx⟩ := hentry _ he0 rfl
    exact mem_usedClasses.mpr ⟨_, he0, compAST bm, by rw [hc]; simp, _, mem_compAST_of hx, rfl⟩
  · intro e he heg cls hcls' hu hm
    obtain ⟨bm, hc, hx⟩ := hentry e he heg
    obtain ⟨e', he', comp', hcomp', t', ht', htc'⟩ := mem_usedClasses.mp hu
    have hin : cls.1 ∈ grp := by rw [← htc']; exact hused e' he' comp' hcomp' t' ht'
    have hsame : cls.1 = cnOf i al am.name :=
      same_class_in_group w _ hgrp hin hcn (r1 := cls.2) (r2 := recs) hcls' hcls hm ⟨r, hr, hrg⟩
    refine ⟨compAST bm, by rw [hc]; rfl, _, mem_compAST_of hx, hsame.symm⟩

end Ufo2ft.C06
