import Ufo2ftModel.Spec.C05
/-! C05, part 1: `KerningPair.__lt__` is a strict weak order (a strict total order on the two sides); `sortPairs` sorts. -/
namespace Ufo2ft.C05
open Ufo2ft List

/-! ### strings and tuples of strings -/

theorem str_lt_total (a b : String) : a < b ∨ a = b ∨ b < a := by
  by_cases h1 : a < b
  · exact Or.inl h1
  · by_cases h2 : b < a
    · exact Or.inr (Or.inr h2)
    · exact Or.inr (Or.inl (String.le_antisymm (String.not_lt.mp h2) (String.not_lt.mp h1)))

theorem strListLt_irrefl : ∀ a : List String, strListLt a a = false
  | [] => rfl
  | a :: as => by
    simp only [strListLt, String.lt_irrefl, if_false]; exact strListLt_irrefl as

theorem strListLt_trans : ∀ a b c : List String, strListLt a b = true → strListLt b c = true → strListLt a c = true
  | [], [], _ => by intro h; simp [strListLt] at h
  | [], _ :: _, [] => by intro _ h; simp [strListLt] at h
  | [], _ :: _, _ :: _ => by intro _ _; rfl
  | _ :: _, [], _ => by intro h; simp [strListLt] at h
  | _ :: _, _ :: _, [] => by intro _ h; simp [strListLt] at h
  | a :: as, b :: bs, c :: cs => by
    intro h1 h2
    simp only [strListLt] at h1 h2 ⊢
    have ih := strListLt_trans as bs cs
    rcases str_lt_total a b with hab | hab | hab
    · rcases str_lt_total b c with hbc | hbc | hbc
      · simp [String.lt_trans hab hbc]
      · subst hbc; simp [hab]
      · simp [hbc, String.lt_asymm hbc] at h2
    · subst hab
      simp only [String.lt_irrefl, if_false] at h1
      rcases str_lt_total a c with hbc | hbc | hbc
      · simp [hbc]
      · subst hbc; simp only [String.lt_irrefl, if_false] at h2 ⊢; exact ih h1 h2
      · simp [hbc, String.lt_asymm hbc] at h2
    · simp [hab, String.lt_asymm hab] at h1

theorem strListLt_total : ∀ a b : List String, strListLt a b = true ∨ a = b ∨ strListLt b a = true
  | [], [] => Or.inr (Or.inl rfl)
  | [], _ :: _ => Or.inl rfl
  | _ :: _, [] => Or.inr (Or.inr rfl)
  | a :: as, b :: bs => by
    simp only [strListLt]
    rcases str_lt_total a b with h | h | h
    · simp [h]
    · subst h
      simp only [String.lt_irrefl, if_false]
      rcases strListLt_total as bs with h | h | h
      · exact Or.inl h
      · subst h; exact Or.inr (Or.inl rfl)
      · exact Or.inr (Or.inr h)
    · simp [h, String.lt_asymm h]

/-! ### sides -/

theorem sideLt_irrefl (a : Side) : sideLt a a = false := by
  cases a with
  | glyph g => simp [sideLt, String.lt_irrefl]
  | cls gs => simp [sideLt, strListLt_irrefl]

theorem sideLt_trans (a b c : Side) : sideLt a b = true → sideLt b c = true → sideLt a c = true := by
  cases a with
  | glyph x =>
    cases b with
    | glyph y =>
      cases c with
      | glyph z => simp only [sideLt, decide_eq_true_eq]; exact String.lt_trans
      | cls z => intro _ _; rfl
    | cls y =>
      cases c with
      | glyph z => intro _ h; simp [sideLt] at h
      | cls z => intro _ _; rfl
  | cls x =>
    cases b with
    | glyph y => intro h; simp [sideLt] at h
    | cls y =>
      cases c with
      | glyph z => intro _ h; simp [sideLt] at h
      | cls z => simp only [sideLt]; exact strListLt_trans x y z

theorem sideLt_total (a b : Side) : sideLt a b = true ∨ a = b ∨ sideLt b a = true := by
  cases a with
  | glyph x =>
    cases b with
    | glyph y =>
      simp only [sideLt, decide_eq_true_eq, Side.glyph.injEq]; exact str_lt_total x y
    | cls y => exact Or.inl rfl
  | cls x =>
    cases b with
    | glyph y => exact Or.inr (Or.inr rfl)
    | cls y =>
      simp only [sideLt, Side.cls.injEq]; exact strListLt_total x y

theorem sideLt_asymm (a b : Side) : sideLt a b = true → sideLt b a = false := by
  intro h
  cases hb : sideLt b a with
  | false => rfl
  | true => have := sideLt_trans a b a h hb; rw [sideLt_irrefl] at this; cases this

/-! ### pairs -/

/-- the two sides of a pair are what the order looks at (the value is not compared) -/
def sameSides (a b : KPair) : Prop := a.side1 = b.side1 ∧ a.side2 = b.side2

theorem pairLt_irrefl (a : KPair) : pairLt a a = false := by
  simp [pairLt, sideLt_irrefl]

theorem pairLt_total (a b : KPair) : pairLt a b = true ∨ sameSides a b ∨ pairLt b a = true := by
  unfold pairLt sameSides
  have t1 := sideLt_total a.side1 b.side1
  have t2 := sideLt_total a.side2 b.side2
  cases h1 : a.side1.isClass <;> cases h2 : b.side1.isClass <;> cases h3 : a.side2.isClass <;> cases h4 : b.side2.isClass <;>
    simp only [bne_self_eq_false, Bool.false_eq_true, if_false, Bool.true_bne, Bool.false_bne, Bool.not_true, Bool.not_false,
      if_true, true_or, or_true, bne_iff_ne, ne_eq, ite_not] <;>
    (by_cases e1 : a.side1 = b.side1
     · simp only [e1, if_true, true_and]
       rcases t2 with t | t | t
       · exact Or.inl t
       · exact Or.inr (Or.inl t)
       · exact Or.inr (Or.inr (by simpa using t))
     · have e1' : ¬ b.side1 = a.side1 := fun h => e1 h.symm
       simp only [e1, e1', if_false, false_and, false_or]
       rcases t1 with t | t | t
       · exact Or.inl t
       · exact absurd t e1
       · exact Or.inr t)

theorem pairLt_trans (a b c : KPair) : pairLt a b = true → pairLt b c = true → pairLt a c = true := by
  obtain ⟨a1, a2, av⟩ := a
  obtain ⟨b1, b2, bv⟩ := b
  obtain ⟨c1, c2, cv⟩ := c
  unfold pairLt
  dsimp only
  have s1 := sideLt_trans a1 b1 c1
  have s2 := sideLt_trans a2 b2 c2
  have i1 := sideLt_irrefl a1
  cases h1 : a1.isClass <;> cases h2 : b1.isClass <;> cases h3 : c1.isClass <;>
  cases h4 : a2.isClass <;> cases h5 : b2.isClass <;> cases h6 : c2.isClass <;>
    simp only [bne_self_eq_false, Bool.false_eq_true, if_false, Bool.true_bne, Bool.false_bne, Bool.not_true, Bool.not_false,
      if_true, bne_iff_ne, ne_eq, ite_not, imp_self, implies_true, false_imp_iff] <;>
    (by_cases e1 : a1 = b1
     · subst e1
       by_cases e2 : a1 = c1
       · subst e2; simp only [if_true]; exact s2
       · simp only [e2, if_true, if_false]; intro _ h; exact h
     · by_cases e2 : b1 = c1
       · subst e2; simp only [e1, if_true, if_false]; intro h _; exact h
       · simp only [e1, e2, if_false]
         intro h h'
         have h3 := s1 h h'
         by_cases e3 : a1 = c1
         · subst e3; rw [i1] at h3; cases h3
         · simp only [e3, if_false]; exact h3)

theorem pairLt_asymm (a b : KPair) : pairLt a b = true → pairLt b a = false := by
  intro h
  cases hb : pairLt b a with
  | false => rfl
  | true => have := pairLt_trans a b a h hb; rw [pairLt_irrefl] at this; cases this

/-- pairs with the same two sides are indistinguishable for the order -/
theorem pairLt_congr_left (a a' b : KPair) (h : sameSides a a') : pairLt a b = pairLt a' b := by
  simp only [pairLt, h.1, h.2]
theorem pairLt_congr_right (a b b' : KPair) (h : sameSides b b') : pairLt a b = pairLt a b' := by
  simp only [pairLt, h.1, h.2]

/-- the comparator handed to the stable sort: "not (b < a)" -/
def pairLe (a b : KPair) : Bool := !pairLt b a

theorem pairLe_total (a b : KPair) : (pairLe a b || pairLe b a) = true := by
  simp only [pairLe, Bool.or_eq_true, Bool.not_eq_true']
  cases h : pairLt b a with
  | false => exact Or.inl rfl
  | true => exact Or.inr (pairLt_asymm b a h)

theorem pairLe_trans (a b c : KPair) : pairLe a b = true → pairLe b c = true → pairLe a c = true := by
  simp only [pairLe, Bool.not_eq_true']
  intro h1 h2
  cases h : pairLt c a with
  | false => rfl
  | true =>
    -- c < a; compare b with a
    rcases pairLt_total b a with t | t | t
    · rw [t] at h1; cases h1
    · rw [pairLt_congr_right c b a t, h] at h2; cases h2
    · have := pairLt_trans c a b h t; rw [this] at h2; cases h2

/-- Target 1: `pairs.sort()` returns a permutation of its input ... -/
theorem sortPairs_perm' (l : List KPair) : (sortPairs l).Perm l := List.mergeSort_perm _ _

/-- ... in which no later element is strictly smaller than an earlier one -/
theorem sortPairs_sorted (l : List KPair) : (sortPairs l).Pairwise (fun a b => pairLt b a = false) := by
  have h := List.pairwise_mergeSort (le := fun a b => !pairLt b a) pairLe_trans pairLe_total l
  simpa [sortPairs] using h

theorem mem_sortPairs (l : List KPair) (p : KPair) : p ∈ sortPairs l ↔ p ∈ l := (sortPairs_perm' l).mem_iff

/-! ### precedence: "exceptions still win" -/

/-- the rule of pair `p` applies to the glyph pair (g1, g2) -/
def Matches (p : KPair) (g1 g2 : String) : Prop := g1 ∈ p.side1.glyphs ∧ g2 ∈ p.side2.glyphs
instance (p : KPair) (g1 g2 : String) : Decidable (Matches p g1 g2) :=
  inferInstanceAs (Decidable (g1 ∈ p.side1.glyphs ∧ g2 ∈ p.side2.glyphs))

theorem decide_matches (p : KPair) (g1 g2 : String) :
    decide (Matches p g1 g2) = (decide (g1 ∈ p.side1.glyphs) && decide (g2 ∈ p.side2.glyphs)) := by
  by_cases h1 : g1 ∈ p.side1.glyphs <;> by_cases h2 : g2 ∈ p.side2.glyphs <;> simp [Matches, h1, h2]

/-- specificity: glyph-glyph 0, glyph-class 1, class-glyph 2, class-class 3 -/
def level (p : KPair) : Nat := (if p.side1.isClass then 2 else 0) + (if p.side2.isClass then 1 else 0)

/-- what a first-match reading of an ordered rule list applies to (g1, g2) -/
def firstMatch (l : List KPair) (g1 g2 : String) : Option KPair := l.find? (fun p => decide (Matches p g1 g2))

theorem pairLt_of_level_lt (a b : KPair) (h : level a < level b) : pairLt a b = true := by
  unfold level at h
  unfold pairLt
  cases h1 : a.side1.isClass <;> cases h2 : b.side1.isClass <;> cases h3 : a.side2.isClass <;> cases h4 : b.side2.isClass <;>
    simp [h1, h2, h3, h4] at h ⊢

/-- in a sorted rule list the levels never decrease -/
theorem sortPairs_level_mono (l : List KPair) : (sortPairs l).Pairwise (fun a b => level a ≤ level b) := by
  refine (sortPairs_sorted l).imp ?_
  intro a b h
  apply Nat.le_of_not_lt
  intro hlt
  rw [pairLt_of_level_lt b a hlt] at h; cases h

/-- Target 2 (existence): the sorted list has a first match iff some source pair matches -/
theorem firstMatch_isSome_iff (ps : List KPair) (g1 g2 : String) :
    (firstMatch (sortPairs ps) g1 g2).isSome = true ↔ ∃ p ∈ ps, Matches p g1 g2 := by
  unfold firstMatch
  rw [find?_isSome]
  constructor
  · rintro ⟨p, hp, hm⟩; exact ⟨p, (mem_sortPairs ps p).mp hp, by simpa using hm⟩
  · rintro ⟨p, hp, hm⟩; exact ⟨p, (mem_sortPairs ps p).mpr hp, by simpa using hm⟩

theorem firstMatch_eq_none_iff (ps : List KPair) (g1 g2 : String) :
    firstMatch (sortPairs ps) g1 g2 = none ↔ ∀ p ∈ ps, ¬ Matches p g1 g2 := by
  unfold firstMatch
  rw [find?_eq_none]
  constructor
  · intro h p hp; simpa using h p ((mem_sortPairs ps p).mpr hp)
  · intro h p hp; simpa using h p ((mem_sortPairs ps p).mp hp)

/-- Target 2 (minimality): the first match of the sorted list is a source pair that matches and is at least as specific as
    every matching source pair — a glyph-level exception is always met before the class pair it excepts -/
theorem firstMatch_minimal (ps : List KPair) (g1 g2 : String) (p : KPair)
    (h : firstMatch (sortPairs ps) g1 g2 = some p) :
    p ∈ ps ∧ Matches p g1 g2 ∧ ∀ p' ∈ ps, Matches p' g1 g2 → level p ≤ level p' := by
  unfold firstMatch at h
  obtain ⟨hm, as, bs, hl, has⟩ := find?_eq_some_iff_append.mp h
  have hm' : Matches p g1 g2 := by simpa using hm
  have hmem : p ∈ sortPairs ps := by rw [hl]; simp
  refine ⟨(mem_sortPairs ps p).mp hmem, hm', ?_⟩
  intro p' hp' hmp'
  have hp's : p' ∈ as ++ p :: bs := by rw [← hl]; exact (mem_sortPairs ps p').mpr hp'
  have hmono := sortPairs_level_mono ps
  rw [hl] at hmono
  rcases mem_append.mp hp's with h1 | h1
  · have := has p' h1; simp [hmp'] at this
  · rcases mem_cons.mp h1 with h2 | h2
    · subst h2; exact Nat.le_refl _
    · have := (pairwise_append.mp hmono).2.1
      exact rel_of_pairwise_cons this h2

/-- nothing less specific than an existing match can come first -/
theorem firstMatch_level_le (ps : List KPair) (g1 g2 : String) (p' : KPair) (hp' : p' ∈ ps) (hm : Matches p' g1 g2) :
    ∃ p, firstMatch (sortPairs ps) g1 g2 = some p ∧ level p ≤ level p' := by
  have : (firstMatch (sortPairs ps) g1 g2).isSome = true := (firstMatch_isSome_iff ps g1 g2).mpr ⟨p', hp', hm⟩
  obtain ⟨p, hp⟩ := Option.isSome_iff_exists.mp this
  exact ⟨p, hp, (firstMatch_minimal ps g1 g2 p hp).2.2 p' hp' hm⟩

/-- non-vacuity: the class pair is listed first, a glyph-glyph rule still comes out as the first match -/
example : ∃ p, firstMatch (sortPairs [⟨.cls ["A", "B"], .cls ["V", "W"], -10⟩, ⟨.glyph "A", .cls ["V", "W"], -7⟩,
    ⟨.glyph "A", .glyph "V", 5⟩]) "A" "V" = some p ∧ level p = 0 := by
  obtain ⟨p, h, hl⟩ := firstMatch_level_le [⟨.cls ["A", "B"], .cls ["V", "W"], -10⟩, ⟨.glyph "A", .cls ["V", "W"], -7⟩,
    ⟨.glyph "A", .glyph "V", 5⟩] "A" "V" ⟨.glyph "A", .glyph "V", 5⟩ (by simp) (by simp [Matches, Side.glyphs])
  exact ⟨p, h, by simpa [level, Side.isClass] using hl⟩

end Ufo2ft.C05
