import Ufo2ftModel.Spec.C05Apply
/-! C05 end-to-end, layer A: what `Lookup.apply` (feaLib's PairPos layout + "first matching subtable") gives, in terms of the
    rules of the lookup:
    * no rule contains the pair → (0, 0) (`Lookup.apply_zero`) — an empty format-2 cell is a zero adjustment;
    * some glyph-pair / `enum` rule contains it → the record of the FIRST such rule (`Lookup.apply_specific`);
    * otherwise, when the class rules' classes are pairwise equal-or-disjoint on each side (then feaLib needs one format-2
      subtable), the record of the class rule that contains it (`Lookup.apply_class`). -/
namespace Ufo2ft.C05
open Ufo2ft List

/-! ### subtables built from a rule list -/

def cellOfRule (r : Rule) : (List String × List String) × (Q × Q) := ((r.side1, r.side2), r.record)

/-- the subtable holding exactly the given class rules, in order -/
def tableOf (rs : List Rule) : ClassSubtable := ⟨rs.map (·.side1), rs.map (·.side2), rs.map cellOfRule⟩

theorem single_eq (r : Rule) : ClassSubtable.single r = tableOf [r] := rfl

theorem add_tableOf (rs : List Rule) (r : Rule) : (tableOf rs).add r = tableOf (rs ++ [r]) := by
  simp [ClassSubtable.add, tableOf, cellOfRule]

/-- every subtable the builder produces is `tableOf` some sublist of the rules -/
def FromRules (R : List Rule) (st : ClassSubtable) : Prop := ∃ rs, st = tableOf rs ∧ ∀ r ∈ rs, r ∈ R

theorem addClassRule_from (R : List Rule) (acc : List ClassSubtable × Option ClassSubtable) (r : Rule) (hr : r ∈ R)
    (h : ∀ st ∈ acc.1 ++ acc.2.toList, FromRules R st) :
    ∀ st ∈ (addClassRule acc r).1 ++ (addClassRule acc r).2.toList, FromRules R st := by
  obtain ⟨done, cur⟩ := acc
  have hsingle : FromRules R (ClassSubtable.single r) := ⟨[r], single_eq r, by simpa using hr⟩
  cases cur with
  | none =>
    simp only [addClassRule]
    intro st hst
    simp only [Option.toList_some, mem_append, mem_singleton] at hst
    rcases hst with hst | hst
    · exact h st (by simp [hst])
    · rw [hst]; exact hsingle
  | some st0 =>
    simp only [addClassRule]
    have h0 : FromRules R st0 := h st0 (by simp)
    split
    · intro st hst
      simp only [Option.toList_some, mem_append, mem_singleton] at hst
      rcases hst with hst | hst
      · exact h st (by simp [hst])
      · obtain ⟨rs, e, hrs⟩ := h0
        rw [hst, e, add_tableOf]
        refine ⟨rs ++ [r], rfl, ?_⟩
        intro x hx
        rcases mem_append.mp hx with hx | hx
        · exact hrs x hx
        · simp only [mem_singleton] at hx; rw [hx]; exact hr
    · intro st hst
      simp only [Option.toList_some, mem_append, mem_singleton] at hst
      rcases hst with (hst | hst) | hst
      · exact h st (by simp [hst])
      · rw [hst]; exact h0
      · rw [hst]; exact hsingle

theorem foldl_from (R : List Rule) : ∀ (rs : List Rule) (acc : List ClassSubtable × Option ClassSubtable),
    (∀ r ∈ rs, r ∈ R) → (∀ st ∈ acc.1 ++ acc.2.toList, FromRules R st) →
    ∀ st ∈ (rs.foldl addClassRule acc).1 ++ (rs.foldl addClassRule acc).2.toList, FromRules R st := by
  intro rs
  induction rs with
  | nil => intro acc _ h; exact h
  | cons r rs ih =>
    intro acc hrs h
    rw [foldl_cons]
    exact ih _ (fun x hx => hrs x (mem_cons_of_mem _ hx)) (addClassRule_from R acc r (hrs r mem_cons_self) h)

theorem classSubtables_from (R : List Rule) : ∀ st ∈ classSubtables R, FromRules R st := by
  unfold classSubtables
  exact foldl_from R R ([], none) (fun _ h => h) (by intro st hst; simp at hst)

/-! ### applying one subtable -/

/-- a subtable made of rules none of which contains the pair gives nothing or a zero cell -/
theorem tableOf_apply_zero (rs : List Rule) (g1 g2 : String) (h : ∀ r ∈ rs, r.hits g1 g2 = false) :
    (tableOf rs).apply g1 g2 = none ∨ (tableOf rs).apply g1 g2 = some (0, 0) := by
  unfold ClassSubtable.apply
  cases h1 : (tableOf rs).classes1.find? (fun c => c.contains g1) with
  | none => exact Or.inl rfl
  | some c1 =>
    right
    dsimp only
    cases h2 : (tableOf rs).classes2.find? (fun c => c.contains g2) with
    | none => rfl
    | some c2 =>
      dsimp only
      have hc1 : c1.contains g1 = true := by simpa using find?_some h1
      have hc2 : c2.contains g2 = true := by simpa using find?_some h2
      have : (tableOf rs).cells.filter (fun e => e.1 == (c1, c2)) = [] := by
        rw [filter_eq_nil_iff]
        intro e he hk
        simp only [tableOf, mem_map] at he
        obtain ⟨r, hr, rfl⟩ := he
        simp only [cellOfRule, beq_iff_eq, Prod.mk.injEq] at hk
        have := h r hr
        simp only [Rule.hits, hk.1, hk.2, hc1, hc2, Bool.and_self] at this
        cases this
      rw [this]; rfl

theorem findSome_getD {α β : Type} (f : α → Option β) (z : β) : ∀ (l : List α), (∀ x ∈ l, f x = none ∨ f x = some z) →
    (l.findSome? f).getD z = z := by
  intro l
  induction l with
  | nil => intro _; rfl
  | cons a l ih =>
    intro h
    rw [findSome?_cons]
    rcases h a mem_cons_self with ha | ha
    · rw [ha]; exact ih (fun x hx => h x (mem_cons_of_mem _ hx))
    · rw [ha]; rfl

/-- Layer A, zero case: a lookup none of whose rules contains the pair leaves it alone -/
theorem Lookup.apply_zero (l : Lookup) (g1 g2 : String) (h : ∀ r ∈ l.rules, r.hits g1 g2 = false) : l.apply g1 g2 = (0, 0) := by
  unfold Lookup.apply
  have hnone : (l.rules.filter (·.specific)).find? (·.hits g1 g2) = none := by
    rw [find?_eq_none]
    intro r hr
    have := h r (mem_filter.mp hr).1
    simp [this]
  rw [hnone]
  dsimp only
  apply findSome_getD
  intro st hst
  obtain ⟨rs, e, hrs⟩ := classSubtables_from _ st hst
  rw [e]
  exact tableOf_apply_zero rs g1 g2 (fun r hr => h r (mem_filter.mp (hrs r hr)).1)

/-- Layer A, format 1: the first glyph-pair / `enum` rule that contains the pair decides -/
theorem Lookup.apply_specific (l : Lookup) (g1 g2 : String) (r : Rule)
    (h : (l.rules.filter (·.specific)).find? (·.hits g1 g2) = some r) : l.apply g1 g2 = r.record := by
  unfold Lookup.apply
  rw [h]

/-! ### class rules with pairwise equal-or-disjoint classes: one subtable -/

def DisjointOrEq (a b : List String) : Prop := a = b ∨ ∀ x, x ∈ a → x ∉ b

/-- the class rules can share one format-2 subtable -/
def Compat (rs : List Rule) : Prop :=
  ∀ r ∈ rs, ∀ r' ∈ rs, DisjointOrEq r.side1 r'.side1 ∧ DisjointOrEq r.side2 r'.side2

theorem canAdd_of (classes : List (List String)) (gc : List String) (h : ∀ c ∈ classes, DisjointOrEq gc c) :
    canAdd classes gc = true := by
  unfold canAdd
  by_cases hin : gc ∈ classes
  · simp [hin]
  · simp only [Bool.or_eq_true, contains_iff_mem, all_eq_true, Bool.not_eq_true', any_eq_false]
    right
    intro x hx c hc
    rcases h c hc with e | d
    · exact absurd (e ▸ hc) hin
    · exact d x hx

theorem foldl_compat : ∀ (rs pre : List Rule), pre ≠ [] → Compat (pre ++ rs) →
    rs.foldl addClassRule ([], some (tableOf pre)) = ([], some (tableOf (pre ++ rs))) := by
  intro rs
  induction rs with
  | nil => intro pre _ _; simp
  | cons r rs ih =>
    intro pre hne hc
    rw [foldl_cons]
    have hr : r ∈ pre ++ r :: rs := by simp
    have c1 : canAdd (tableOf pre).classes1 r.side1 = true := by
      apply canAdd_of
      intro c hcm
      simp only [tableOf, mem_map] at hcm
      obtain ⟨r', hr', rfl⟩ := hcm
      exact (hc r hr r' (mem_append_left _ hr')).1
    have c2 : canAdd (tableOf pre).classes2 r.side2 = true := by
      apply canAdd_of
      intro c hcm
      simp only [tableOf, mem_map] at hcm
      obtain ⟨r', hr', rfl⟩ := hcm
      exact (hc r hr r' (mem_append_left _ hr')).2
    have step : addClassRule ([], some (tableOf pre)) r = ([], some (tableOf (pre ++ [r]))) := by
      simp only [addClassRule, c1, c2, Bool.and_self, if_true, add_tableOf]
    rw [step]
    have := ih (pre ++ [r]) (by simp) (by simpa using hc)
    simpa using this

theorem classSubtables_compat (rs : List Rule) (hne : rs ≠ []) (hc : Compat rs) : classSubtables rs = [tableOf rs] := by
  cases rs with
  | nil => exact absurd rfl hne
  | cons r rs =>
    unfold classSubtables
    rw [foldl_cons]
    have : addClassRule ([], none) r = ([], some (tableOf [r])) := rfl
    rw [this, foldl_compat rs [r] (by simp) (by simpa using hc)]
    rfl

theorem find_class (cs : List (List String)) (c : List String) (g : String) (hc : c ∈ cs) (hg : g ∈ c)
    (hd : ∀ c' ∈ cs, DisjointOrEq c' c) : cs.find? (fun c => c.contains g) = some c := by
  induction cs with
  | nil => cases hc
  | cons a cs ih =>
    rw [find?_cons]
    by_cases ha : a.contains g = true
    · rw [ha]
      rcases hd a mem_cons_self with e | d
      · rw [e]
      · exact absurd hg (d g (by simpa using ha))
    · have ha' : a.contains g = false := by simpa using ha
      rw [ha']
      rcases mem_cons.mp hc with rfl | hc'
      · exact absurd (by simpa using hg) ha
      · exact ih hc' (fun c' hc'' => hd c' (mem_cons_of_mem _ hc''))

/-- one compatible subtable, a rule `r` of it contains the pair, and every rule containing the pair carries the same record -/
theorem tableOf_apply_hit (rs : List Rule) (hc : Compat rs) (g1 g2 : String) (r : Rule) (hr : r ∈ rs) (hh : r.hits g1 g2 = true)
    (hu : ∀ r' ∈ rs, r'.hits g1 g2 = true → r'.record = r.record) : (tableOf rs).apply g1 g2 = some r.record := by
  simp only [Rule.hits, Bool.and_eq_true, contains_iff_mem] at hh
  unfold ClassSubtable.apply
  have f1 : (tableOf rs).classes1.find? (fun c => c.contains g1) = some r.side1 := by
    apply find_class _ _ _ (mem_map_of_mem (f := (·.side1)) hr) hh.1
    intro c' hc'
    simp only [mem_map] at hc'
    obtain ⟨r', hr', rfl⟩ := hc'
    exact (hc r' hr' r hr).1
  have f2 : (tableOf rs).classes2.find? (fun c => c.contains g2) = some r.side2 := by
    apply find_class _ _ _ (mem_map_of_mem (f := (·.side2)) hr) hh.2
    intro c' hc'
    simp only [mem_map] at hc'
    obtain ⟨r', hr', rfl⟩ := hc'
    exact (hc r' hr' r hr).2
  rw [f1]; dsimp only; rw [f2]; dsimp only
  have hmem : cellOfRule r ∈ (tableOf rs).cells.filter (fun e => e.1 == (r.side1, r.side2)) := by
    rw [mem_filter]
    exact ⟨mem_map_of_mem hr, by simp [cellOfRule]⟩
  cases hl : ((tableOf rs).cells.filter (fun e => e.1 == (r.side1, r.side2))).getLast? with
  | none => rw [getLast?_eq_none_iff] at hl; rw [hl] at hmem; cases hmem
  | some e =>
    obtain ⟨ys, hys⟩ := getLast?_eq_some_iff.mp hl
    have he : e ∈ (tableOf rs).cells.filter (fun e => e.1 == (r.side1, r.side2)) := by rw [hys]; simp
    rw [mem_filter] at he
    obtain ⟨he1, he2⟩ := he
    simp only [tableOf, mem_map] at he1
    obtain ⟨r', hr', rfl⟩ := he1
    simp only [cellOfRule, beq_iff_eq, Prod.mk.injEq] at he2
    have hh' : r'.hits g1 g2 = true := by
      simp only [Rule.hits, Bool.and_eq_true, contains_iff_mem, he2.1, he2.2]; exact hh
    simp only [Option.map_some, Option.getD_some, cellOfRule]
    rw [hu r' hr' hh']

/-- Layer A, format 2: no glyph-pair rule contains the pair, the class rules fit one subtable, one of them contains the pair
    and all class rules containing it carry the same record → that record is applied -/
theorem Lookup.apply_class (l : Lookup) (g1 g2 : String) (r : Rule)
    (hnos : ∀ r' ∈ l.rules, r'.specific = true → r'.hits g1 g2 = false)
    (hc : Compat (l.rules.filter (fun r => !r.specific)))
    (hr : r ∈ l.rules) (hns : r.specific = false) (hh : r.hits g1 g2 = true)
    (hu : ∀ r' ∈ l.rules, r'.specific = false → r'.hits g1 g2 = true → r'.record = r.record) :
    l.apply g1 g2 = r.record := by
  unfold Lookup.apply
  have hnone : (l.rules.filter (·.specific)).find? (·.hits g1 g2) = none := by
    rw [find?_eq_none]
    intro r' hr'
    have := hnos r' (mem_filter.mp hr').1 (mem_filter.mp hr').2
    simp [this]
  rw [hnone]
  dsimp only
  have hin : r ∈ l.rules.filter (fun r => !r.specific) := mem_filter.mpr ⟨hr, by simp [hns]⟩
  have hne : l.rules.filter (fun r => !r.specific) ≠ [] := by intro e; rw [e] at hin; cases hin
  rw [classSubtables_compat _ hne hc]
  simp only [findSome?_cons, findSome?_nil]
  rw [tableOf_apply_hit _ hc g1 g2 r hin hh]
  · rfl
  · intro r' hr' hh'
    exact hu r' (mem_filter.mp hr').1 (by simpa using (mem_filter.mp hr').2) hh'

end Ufo2ft.C05
