import Ufo2ftModel.Props.C06Sound
/-! C06, part 17: contextual anchors — every entry of a lookup referenced from a contextual rule comes from a contextual
    anchor of that glyph; the attachments of those lookups are contextual candidates. -/
namespace Ufo2ft.C06
open List

theorem mem_keepLast {l : List Entry} {e : Entry} (h : e ∈ keepLast l) : e ∈ l := by
  induction l with
  | nil => simp [keepLast] at h
  | cons x l ih =>
    simp only [keepLast] at h
    split at h
    · exact mem_cons_of_mem _ (ih h)
    · rcases mem_cons.mp h with rfl | h
      · simp
      · exact mem_cons_of_mem _ (ih h)

theorem ctxStep_ok {km : List (String × String)} {feat pre : String} {kind : Kind} {c k : String} {names : List String}
    {entries : List Entry} {st st' : CtxFeature} (h : ctxStep km feat pre kind c k names entries st = .ok st') :
    st' = st ∨ (st'.refs = st.refs ++ [⟨feat, kind, keepLast entries⟩] ∧ k ≠ "" ∧ ∃ cls, alookup k km = some cls) := by
  unfold ctxStep at h
  cases hc : ctxClass km k with
  | none => rw [hc] at h; simp only [Except.ok.injEq] at h; exact Or.inl h.symm
  | some cls =>
    rw [hc] at h
    simp only at h
    cases hs : splitCtx c with
    | error e => rw [hs] at h; simp at h
    | ok ba =>
      rw [hs] at h
      simp only [Except.ok.injEq] at h
      subst h
      right
      unfold ctxClass at hc
      by_cases hk : (k == "") = true
      · simp [hk] at hc
      · simp only [hk, Bool.false_eq_true, if_false] at hc
        exact ⟨rfl, by simpa using hk, cls, hc⟩

/-- what the entries of the referenced lookups of one destination look like -/
def RefOK (al : AList) (km : List (String × String)) (d : Dest) (atts : List (String × String × NA)) (L : Lookup) : Prop :=
  L.kind = kindOfDest d ∧ ∀ e ∈ L.entries, ∃ t ∈ atts, t.2.2.key ≠ "" ∧ (∃ cls, alookup t.2.2.key km = some cls) ∧
    e = ctxEntry al km d t.2.1 t.2.2

theorem foldl_ctxWorkStep_error (al : AList) (km : List (String × String)) (feat pre : String) (d : Dest)
    (atts : List (String × String × NA)) (e : Err) (l : List (String × String)) :
    l.foldl (ctxWorkStep al km feat pre d atts) (.error e) = .error e := by
  induction l with
  | nil => rfl
  | cons _ _ ih => simpa [ctxWorkStep] using ih

theorem ctxDest_refs {al : AList} {km : List (String × String)} {feat pre : String} {d : Dest}
    {atts : List (String × String × NA)} {st st' : CtxFeature}
    (h : ctxDest al km feat pre d atts st = .ok st') :
    ∀ L ∈ st'.refs, L ∈ st.refs ∨ RefOK al km d atts L := by
  unfold ctxDest at h
  generalize ctxWork atts = work at h
  induction work generalizing st with
  | nil =>
    simp only [foldl_nil, Except.ok.injEq] at h; subst h
    intro L hL; exact Or.inl hL
  | cons ck work ih =>
    simp only [foldl_cons] at h
    cases hstep : ctxWorkStep al km feat pre d atts (.ok st) ck with
    | error e => rw [hstep, foldl_ctxWorkStep_error] at h; simp at h
    | ok s1 =>
      rw [hstep] at h
      intro L hL
      rcases ctxStep_ok (show ctxStep km feat pre (kindOfDest d) ck.1 ck.2 ((ctxSel atts ck).map (·.2.1))
        ((ctxSel atts ck).map (fun t => ctxEntry al km d t.2.1 t.2.2)) st = .ok s1 by simpa [ctxWorkStep] using hstep)
        with hsame | ⟨hrefs, hkne, cls, hcls⟩
      · subst hsame; exact ih h L hL
      rcases ih h L hL with h1 | h1
      · rw [hrefs] at h1
        rcases mem_append.mp h1 with h2 | h2
        · exact Or.inl h2
        · right
          simp only [mem_singleton] at h2; subst h2
          refine ⟨rfl, ?_⟩
          intro e he
          obtain ⟨t, ht, rfl⟩ := mem_map.mp (mem_keepLast he)
          obtain ⟨ht1, ht2⟩ := mem_filter.mp ht
          simp only [Bool.and_eq_true, beq_iff_eq] at ht2
          exact ⟨t, ht1, by rw [ht2.2]; exact hkne, ⟨cls, by rw [ht2.2]; exact hcls⟩, rfl⟩
      · exact Or.inr h1

theorem mem_ctxAtts {i : Input} {al : AList} {mg : List String} {km : List (String × String)}
    {t : Dest × String × String × NA} (h : t ∈ ctxAtts i al mg km) :
    (∃ as, (t.2.2.1, as) ∈ al ∧ t.2.2.2 ∈ as) ∧ (∃ c, t.2.2.2.ctx = some c ∧ t.2.1 = stripSp c) ∧
    (t.1 = .lig → ∃ n, t.2.2.2.number = some n) ∧ (t.1 ≠ .lig → t.2.2.2.number = none) := by
  obtain ⟨e, he, hf⟩ := mem_flatMap.mp h
  have he' : e ∈ al := (mergeSort_perm _ _).mem_iff.mp he
  obtain ⟨a, ha, hfa⟩ := mem_filterMap.mp hf
  cases hc : a.ctx with
  | none => rw [hc] at hfa; simp at hfa
  | some c =>
    rw [hc] at hfa
    simp only at hfa
    cases hd : ctxDestOf i mg km e.1 a with
    | none => rw [hd] at hfa; simp at hfa
    | some d =>
      rw [hd] at hfa
      simp only at hfa
      split at hfa
      · simp at hfa
      · simp only [Option.some.injEq] at hfa; subst hfa
        unfold ctxDestOf at hd
        refine ⟨⟨e.2, he', ha⟩, ⟨c, hc, rfl⟩, ?_, ?_⟩
        · intro hl
          simp only at hl; subst hl
          split at hd
          · split at hd
            · simp at hd
            · split at hd <;> simp at hd
          · split at hd
            · rename_i h2
              simp only [Bool.and_eq_true, Option.isSome_iff_exists] at h2
              exact h2.1
            · split at hd <;> simp at hd
        · intro hl
          simp only at hl ⊢
          split at hd
          · split at hd
            · simp at hd
            · split at hd
              · simp at hd
              · rename_i h3
                cases hn : a.number with
                | none => rfl
                | some n => rw [hn] at h3; simp at h3
          · split at hd
            · simp only [Option.some.injEq] at hd; exact absurd hd.symm hl
            · split at hd
              · rename_i h3
                simp only [Bool.and_eq_true, Option.isNone_iff_eq_none] at h3
                exact h3.1
              · simp at hd

theorem mem_ctxAtts_of {i : Input} {al : AList} {mg : List String} {km : List (String × String)} {g : String}
    {as : List NA} (has : (g, as) ∈ al) {a : NA} (ha : a ∈ as) {c : String} (hc : a.ctx = some c) {d : Dest}
    (hd : ctxDestOf i mg km g a = some d) (hne : stripSp c ≠ "") : (d, stripSp c, g, a) ∈ ctxAtts i al mg km := by
  refine mem_flatMap.mpr ⟨(g, as), (mergeSort_perm _ _).mem_iff.mpr has, ?_⟩
  refine mem_filterMap.mpr ⟨a, ha, ?_⟩
  have : (stripSp c == "") = false := by simpa using hne
  simp [hc, hd, this]

theorem mem_ofDest {atts : List (Dest × String × String × NA)} {d : Dest} {t : String × String × NA}
    (h : t ∈ ofDest atts d) : (d, t) ∈ atts := by
  obtain ⟨x, hx, rfl⟩ := mem_map.mp h
  obtain ⟨hx1, hx2⟩ := mem_filter.mp hx
  have : x.1 = d := by simpa using hx2
  rw [← this]; exact hx1

/-- every referenced (contextual) lookup of `ctxFeatures` is made of contextual attachments of `ctxAtts` -/
theorem ctxFeatures_refs {i : Input} {al : AList} {cm ck : CtxFeature} (h : ctxFeatures i al = .ok (cm, ck)) :
    ∀ L ∈ cm.refs ++ ck.refs, ∃ d atts, RefOK (prune al) (kmOf i al) d atts L ∧
      ∀ t ∈ atts, (d, t) ∈ ctxAtts i (prune al) (mgOf i al) (kmOf i al) := by
  unfold ctxFeatures at h
  simp only at h
  cases h1 : ctxDest (prune al) (makeClassesFrom (preClasses i.pre) (markEntries i (prune al) (markNames al))).keyMap
      "mark" "ContextualMark" .base
      (ofDest (ctxAtts i (prune al) ((markEntries i (prune al) (markNames al)).map (·.1))
        (makeClassesFrom (preClasses i.pre) (markEntries i (prune al) (markNames al))).keyMap) .base) ⟨[], []⟩ with
  | error e => rw [h1] at h; simp at h
  | ok s1 =>
    rw [h1] at h; simp only at h
    cases h2 : ctxDest (prune al) (makeClassesFrom (preClasses i.pre) (markEntries i (prune al) (markNames al))).keyMap
        "mark" "ContextualMark" .lig
        (ofDest (ctxAtts i (prune al) ((markEntries i (prune al) (markNames al)).map (·.1))
          (makeClassesFrom (preClasses i.pre) (markEntries i (prune al) (markNames al))).keyMap) .lig) s1 with
    | error e => rw [h2] at h; simp at h
    | ok s2 =>
      rw [h2] at h; simp only at h
      cases h3 : ctxDest (prune al) (makeClassesFrom (preClasses i.pre) (markEntries i (prune al) (markNames al))).keyMap
          "mkmk" "ContextualMarkToMark" .mark
          (ofDest (ctxAtts i (prune al) ((markEntries i (prune al) (markNames al)).map (·.1))
            (makeClassesFrom (preClasses i.pre) (markEntries i (prune al) (markNames al))).keyMap) .mark) ⟨[], []⟩ with
      | error e => rw [h3] at h; simp at h
      | ok s3 =>
        rw [h3] at h
        simp only [Except.ok.injEq, Prod.mk.injEq] at h
        obtain ⟨rfl, rfl⟩ := h
        intro L hL
        rcases mem_append.mp hL with hL | hL
        · rcases ctxDest_refs h2 L hL with hL1 | hr
          · rcases ctxDest_refs h1 L hL1 with hL0 | hr
            · simp at hL0
            · exact ⟨.base, _, hr, fun t ht => mem_ofDest ht⟩
          · exact ⟨.lig, _, hr, fun t ht => mem_ofDest ht⟩
        · rcases ctxDest_refs h3 L hL with hL0 | hr
          · simp at hL0
          · exact ⟨.mark, _, hr, fun t ht => mem_ofDest ht⟩

theorem keep_iff {al : AList} {a : NA} : keep al a = true ↔ a.name ∈ baseNames al ∨ a.name ∈ markNames al ∨ a.key = "" := by
  simp [keep, or_assoc]

/-- a contextual anchor that survives pruning and has a key is a base-side anchor -/
theorem ctx_nonmark {i : Input} {al : AList} (w : ALwf i al) {g : String} {as : List NA} (has : (g, as) ∈ al) {a : NA}
    (ha : a ∈ as) (hk : keep al a = true) {c : String} (hc : a.ctx = some c) (hkey : a.key ≠ "") : a.isMark = false := by
  obtain ⟨hstar, hsh⟩ := w.cshape _ has a ha c hc
  rcases keep_iff.mp hk with h | h | h
  · obtain ⟨e', he', a', ha', hp, hn⟩ := mem_baseNames.mp h
    obtain ⟨hnm, _⟩ := paired_iff.mp hp
    -- a' has the same name, hence is contextual too, hence has the same effective name
    have hc' : ∃ c', a'.ctx = some c' := by
      cases hcc : a'.ctx with
      | some c' => exact ⟨c', rfl⟩
      | none =>
        have := w.nostar _ he' a' ha' hcc
        rw [hn, hstar] at this; simp at this
    obtain ⟨c', hc'⟩ := hc'
    obtain ⟨_, hsh'⟩ := w.cshape _ he' a' ha' c' hc'
    rw [hn] at hsh'
    cases hm : a.isMark with
    | false => rfl
    | true =>
      have := (mark_of_same_nm hsh' hsh hm).1
      rw [hnm] at this; simp at this
  · exfalso
    obtain ⟨e1, he1, a1, ha1, _, hn1⟩ := mem_markNames.mp h
    have : a.name.toList = '_' :: a1.key.toList := by rw [← hn1]; exact markAnchorName_toList a1
    rw [this] at hstar
    simp only [head?_cons] at hstar
    exact absurd hstar (by decide)
  · exact absurd h hkey

/-- **contextual soundness**: whatever a lookup referenced by a contextual rule attaches is contextual anchor − mark anchor
    for a matching pair of source anchors -/
theorem ctx_sound {i : Input} {al : AList} (w : ALwf i al) {cm ck : CtxFeature} (h : ctxFeatures i al = .ok (cm, ck))
    {L : Lookup} (hL : L ∈ cm.refs ++ ck.refs) {b m : String} {c : Option Nat} {d : Int × Int}
    (hat : attachLookup (build i al) L b m c = some d) : d ∈ ctxCandidates i b m c := by
  obtain ⟨dd, atts, ⟨hkind, hent⟩, hatts⟩ := ctxFeatures_refs h L hL
  obtain ⟨hk, e, he, heg, cls, hcls, _, r, hr, hrm, comp, hcomp, t, ht, htc, hd⟩ := attachLookup_some hat
  obtain ⟨t0, ht0, hkne, ⟨cls0, hcls0⟩, rfl⟩ := hent e he
  obtain ⟨⟨as', has', ha'⟩, ⟨cx, hcx, _⟩, hnl, hnn⟩ := mem_ctxAtts (hatts t0 ht0)
  simp only at has' ha' hcx hnl hnn
  -- the anchor in the unpruned lists
  obtain ⟨_, as, has, eas⟩ := mem_prune has'
  simp only at eas
  rw [eas] at ha'
  obtain ⟨ha, hkeep⟩ := mem_filter.mp ha'
  have hnm := ctx_nonmark w has ha hkeep hcx hkne
  obtain ⟨hstar, hsh⟩ := w.cshape _ has _ ha cx hcx
  -- what the entry says
  have hentry : t = (cls0, otRound t0.2.2.x, otRound t0.2.2.y) ∧
      (dd = .lig → t0.2.2.number = some (c.getD 0 + 1)) := by
    unfold ctxEntry at hcomp
    rw [hcls0] at hcomp
    simp only [Option.getD_some] at hcomp
    cases dd with
    | lig =>
      simp only [getElem?_map] at hcomp
      cases hr' : (range (ligCompCount (prune al) t0.2.1))[c.getD 0]? with
      | none => rw [hr'] at hcomp; simp at hcomp
      | some j =>
        rw [hr'] at hcomp
        simp only [Option.map_some, Option.some.injEq] at hcomp
        have hj : j = c.getD 0 := by
          obtain ⟨_, h2⟩ := List.getElem?_eq_some_iff.mp hr'
          simpa using h2.symm
        subst hcomp
        split at ht
        · rename_i hcond
          obtain ⟨x, hx, rfl⟩ := mem_compAST ht
          simp only [mem_singleton] at hx; subst hx
          exact ⟨rfl, fun _ => by rw [← hj]; exact (beq_iff_eq.mp hcond).symm⟩
        · simp at ht
    | base =>
      cases hi : c.getD 0 with
      | zero =>
        rw [hi] at hcomp
        simp only [getElem?_cons_zero, Option.some.injEq] at hcomp; subst hcomp
        obtain ⟨x, hx, rfl⟩ := mem_compAST ht
        simp only [mem_singleton] at hx; subst hx
        exact ⟨rfl, fun hh => by simp at hh⟩
      | succ j => rw [hi] at hcomp; simp at hcomp
    | mark =>
      cases hi : c.getD 0 with
      | zero =>
        rw [hi] at hcomp
        simp only [getElem?_cons_zero, Option.some.injEq] at hcomp; subst hcomp
        obtain ⟨x, hx, rfl⟩ := mem_compAST ht
        simp only [mem_singleton] at hx; subst hx
        exact ⟨rfl, fun hh => by simp at hh⟩
      | succ j => rw [hi] at hcomp; simp at hcomp
  obtain ⟨hteq, hligNum⟩ := hentry
  -- the mark side
  have hcls' : cls ∈ clsOf i al := hcls
  obtain ⟨aM, ⟨asm, hasm, ham⟩, hmark, _, hcn, hgn, hrx, hry, hsM⟩ := clsOf_mem w hcls' hr
  rw [hrm] at hasm
  -- same class ⇒ same key
  have hkm := alookup_some_mem hcls0
  rw [kmOf_eq w] at hkm
  obtain ⟨n, hnmem, hnk⟩ := mem_map.mp hkm
  simp only [Prod.mk.injEq] at hnk
  have hn : n = aM.name := by
    have : cnOf i al n = cnOf i al aM.name := by rw [hnk.2, ← hcn, ← htc, hteq]
    exact (makeClasses_meOf w).2 n hnmem aM.name hgn this
  have hkeys : aM.key = t0.2.2.key := by rw [← hnk.1, hn, keyOfMarkName_eq hsM hmark]
  -- source anchors
  have heg' : t0.2.1 = b := by
    rw [← heg]; unfold ctxEntry; cases dd <;> rfl
  rw [heg'] at has
  obtain ⟨gb, hgb, _, hsrcb⟩ := w.src _ has
  obtain ⟨gm, hgm, _, hsrcm⟩ := w.src _ hasm
  obtain ⟨sb, hsb, hsbn, hsbx, hsby, hsbl⟩ := hsrcb _ ha
  obtain ⟨sm, hsm, hsmn, hsmx, hsmy, _⟩ := hsrcm aM ham
  obtain ⟨hmn, hpk, _⟩ := hsM.mark hmark
  have hkne' : aM.key.toList ≠ [] := by
    obtain ⟨⟨c', r', e', _⟩, _⟩ := (plainKey_iff _).mp hpk
    rw [e']; simp
  unfold ctxCandidates
  rw [hgb, hgm]
  simp only
  refine mem_flatMap.mpr ⟨sm, hsm, ?_⟩
  have hmk : markKey ('_' :: aM.key.toList) = some aM.key.toList := by simp [markKey, hkne']
  rw [hsmn, hmn, hmk]
  simp only
  refine mem_map.mpr ⟨sb, mem_filter.mpr ⟨hsb, ?_⟩, ?_⟩
  · rw [hsbl cx hcx, hsbn, hstar, hkeys]
    simp only [Option.isSome_some, Bool.true_and]
    cases c with
    | none =>
      have hkl := kindMatches_none hk
      have hdl : dd ≠ .lig := by
        intro e'; rw [e'] at hkind; exact hkl hkind
      obtain ⟨e1, _⟩ := hsh.base hnm (hnn hdl)
      simp [baseNameMatches, e1]
    | some j =>
      have hkl := kindMatches_some hk
      have hdl : dd = .lig := by
        cases dd <;> simp [kindOfDest] at hkind <;> simp_all
      have hnum := hligNum hdl
      simp only [Option.getD_some] at hnum
      obtain ⟨_, e1, _⟩ := hsh.lig hnm _ hnum
      simpa [baseNameMatches] using e1
  · rw [hd, hteq]
    simp only [qround, ← hsbx, ← hsby, ← hsmx, ← hsmy, hrx, hry]

end Ufo2ft.C06
